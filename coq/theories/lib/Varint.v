(* Fixed-width integers as Z with explicit wrap-around, big-endian fields, unsigned
   LEB128 ("uvarint"), zig-zag 32/64 and the varint readers found in the repo:

     uv_loop 64 63   the loop of readVarint in the Iceberg decoder, in
                     pkg/storage/recovery_exact.go and of readVarlong (SQL, after
                     the C07 fix): value |= uint64(b&0x7f) << shift; shift > 63 -> error
     uv_loop 32 28   the loop of the SQL decoder's readVarint (int32 accumulator,
                     shift > 28 -> error)
     unzz_ice        decodeZigZag (Iceberg):   even -> v>>1, odd -> -((v>>1)+1)
     unzz_xor b      (v>>1) ^ -(v&1) on b-bit patterns with a LOGICAL shift
                     (PITR readVarint, SQL readVarlong, SQL zigZagDecode after the fix)
     unzz_asr32      SQL zigZagDecode before the fix: ARITHMETIC shift of an int32

   Spec side: [uv_enc], [zz], [enc_varint] (what Kafka producers write).
   Round-trip theorems at the end.  Bytes are Z in 0..255. *)
From KS Require Import lib.Base.
From Coq Require Import ZifyBool.
Open Scope Z_scope.

(* ---------- fixed width ---------- *)
Definition to_signed (bits u : Z) : Z := if u <? 2 ^ (bits - 1) then u else u - 2 ^ bits.
Definition wrap_s (bits x : Z) : Z := to_signed bits (x mod 2 ^ bits).
Definition in_signed (bits x : Z) : Prop := - 2 ^ (bits - 1) <= x < 2 ^ (bits - 1).

(* ---------- big endian ---------- *)
Fixpoint be_get_acc (acc : Z) (bs : bytes) : Z :=
  match bs with [] => acc | b :: bs' => be_get_acc (acc * 256 + b) bs' end.
Definition be_u (bs : bytes) : Z := be_get_acc 0 bs.
Fixpoint be_put (n : nat) (v : Z) : bytes :=
  match n with O => [] | S k => (v / 256 ^ Z.of_nat k) mod 256 :: be_put k v end.

Definition slice (bs : bytes) (i j : nat) : bytes := firstn (j - i) (skipn i bs).

(* ---------- varint readers ---------- *)
Inductive vres : Type :=
| VOk (v : Z) (rest : bytes)
| VEof
| VOverflow.

Fixpoint uv_loop (bits maxshift shift value : Z) (bs : bytes) : vres :=
  match bs with
  | [] => VEof
  | b :: bs' =>
      let value' := Z.lor value (Z.shiftl (Z.land b 127) shift mod 2 ^ bits) in
      if Z.land b 128 =? 0 then VOk value' bs'
      else if maxshift <? shift + 7 then VOverflow
      else uv_loop bits maxshift (shift + 7) value' bs'
  end.

Definition unzz (u : Z) : Z := if Z.even u then u / 2 else - (u / 2) - 1.

Definition unzz_ice (u : Z) : Z :=
  if Z.land u 1 =? 0 then to_signed 64 (Z.shiftr u 1)
  else wrap_s 64 (- wrap_s 64 (Z.shiftr u 1 + 1)).

Definition unzz_xor (bits u : Z) : Z :=
  to_signed bits (Z.lxor (Z.shiftr u 1) (if Z.land u 1 =? 0 then 0 else 2 ^ bits - 1)).

Definition unzz_asr32 (u : Z) : Z :=
  let s := to_signed 32 u in Z.lxor (Z.shiftr s 1) (- (Z.land s 1)).

Definition map_vres (f : Z -> Z) (r : vres) : vres :=
  match r with VOk v rest => VOk (f v) rest | VEof => VEof | VOverflow => VOverflow end.

Definition rv_ice (bs : bytes) : vres := map_vres unzz_ice (uv_loop 64 63 0 0 bs).
Definition rv_xor64 (bs : bytes) : vres := map_vres (unzz_xor 64) (uv_loop 64 63 0 0 bs).
Definition rv_sql32 (bs : bytes) : vres := map_vres (unzz_xor 32) (uv_loop 32 28 0 0 bs).
Definition rv_sql32_orig (bs : bytes) : vres := map_vres unzz_asr32 (uv_loop 32 28 0 0 bs).

(* ---------- spec encoders ---------- *)
Fixpoint uv_enc (fuel : nat) (n : Z) : bytes :=
  match fuel with
  | O => []
  | S f => if n <? 128 then [n] else (n mod 128 + 128) :: uv_enc f (n / 128)
  end.
Definition zz (n : Z) : Z := if 0 <=? n then 2 * n else - 2 * n - 1.
Definition enc_varint (n : Z) : bytes := uv_enc 10 (zz n).

(* =================================================================== *)
(* lemmas *)

Lemma to_signed_wrap bits x : 0 < bits -> in_signed bits x -> wrap_s bits x = x.
Proof.
  unfold in_signed, wrap_s, to_signed. intros Hb Hx.
  assert (Hp : 2 ^ bits = 2 * 2 ^ (bits - 1)).
  { replace bits with (Z.succ (bits - 1)) at 1 by lia. rewrite Z.pow_succ_r by lia. reflexivity. }
  assert (Hq : 0 < 2 ^ (bits - 1)) by (apply Z.pow_pos_nonneg; lia).
  destruct (Z_lt_le_dec x 0) as [Hn|Hn].
  - replace (x mod 2 ^ bits) with (x + 2 ^ bits).
    + destruct (x + 2 ^ bits <? 2 ^ (bits - 1)) eqn:E; lia.
    + symmetry. rewrite <- (Z_mod_plus_full x 1 (2 ^ bits)). rewrite Z.mod_small; lia.
  - rewrite Z.mod_small by lia. destruct (x <? 2 ^ (bits - 1)) eqn:E; lia.
Qed.

Lemma to_signed_range bits u : 0 < bits -> 0 <= u < 2 ^ bits -> in_signed bits (to_signed bits u).
Proof.
  unfold in_signed, to_signed. intros Hb Hu.
  assert (Hp : 2 ^ bits = 2 * 2 ^ (bits - 1)).
  { replace bits with (Z.succ (bits - 1)) at 1 by lia. rewrite Z.pow_succ_r by lia. reflexivity. }
  destruct (u <? 2 ^ (bits - 1)) eqn:E; lia.
Qed.

Lemma be_put_length n v : length (be_put n v) = n.
Proof. induction n; cbn [be_put length]; congruence. Qed.

Lemma be_get_acc_put n v acc :
  be_get_acc acc (be_put n v) = acc * 256 ^ Z.of_nat n + v mod 256 ^ Z.of_nat n.
Proof.
  revert acc. induction n as [|k IH]; intros acc.
  - cbn [be_put be_get_acc]. change (256 ^ Z.of_nat 0) with 1. rewrite Z.mod_1_r. lia.
  - cbn [be_put be_get_acc]. rewrite IH.
    replace (Z.of_nat (S k)) with (Z.succ (Z.of_nat k)) by lia.
    rewrite Z.pow_succ_r by lia.
    assert (Hp : 0 < 256 ^ Z.of_nat k) by (apply Z.pow_pos_nonneg; lia).
    rewrite (Z.mul_comm 256 (256 ^ Z.of_nat k)).
    rewrite (Z.rem_mul_r v (256 ^ Z.of_nat k) 256) by lia.
    ring.
Qed.

Lemma be_u_put n v : be_u (be_put n v) = v mod 256 ^ Z.of_nat n.
Proof. unfold be_u. rewrite be_get_acc_put. lia. Qed.

Lemma be_get_acc_bound bs acc :
  Forall (fun b => 0 <= b < 256) bs -> 0 <= acc ->
  acc * 256 ^ zlen bs <= be_get_acc acc bs < (acc + 1) * 256 ^ zlen bs.
Proof.
  revert acc. induction bs as [|b bs IH]; intros acc Hb Ha.
  - cbn [be_get_acc]. rewrite zlen_nil. change (256 ^ 0) with 1. lia.
  - inversion Hb as [|? ? Hb1 Hb2]; subst. cbn [be_get_acc].
    specialize (IH (acc * 256 + b) Hb2 ltac:(lia)).
    rewrite zlen_cons. replace (1 + zlen bs) with (Z.succ (zlen bs)) by lia.
    rewrite Z.pow_succ_r by apply zlen_nonneg.
    assert (Hp : 0 < 256 ^ zlen bs) by (apply Z.pow_pos_nonneg; [lia|apply zlen_nonneg]).
    nia.
Qed.

Lemma be_u_bound bs : Forall (fun b => 0 <= b < 256) bs -> 0 <= be_u bs < 256 ^ zlen bs.
Proof. intros H. unfold be_u. pose proof (be_get_acc_bound bs 0 H ltac:(lia)). lia. Qed.

(* all byte values, by computation *)
Lemma byte_forall (P : Z -> bool) :
  forallb P (map Z.of_nat (seq 0 256)) = true -> forall b, 0 <= b < 256 -> P b = true.
Proof.
  intros H b Hb. rewrite forallb_forall in H. apply H. apply in_map_iff.
  exists (Z.to_nat b). split; [lia|]. apply in_seq. lia.
Qed.

Lemma byte_bits b : 0 <= b < 256 ->
  Z.land b 128 = (if b <? 128 then 0 else 128) /\ Z.land b 127 = b mod 128.
Proof.
  intros Hb.
  pose proof (byte_forall (fun b => (Z.land b 128 =? (if b <? 128 then 0 else 128)) && (Z.land b 127 =? b mod 128))
                ltac:(vm_compute; reflexivity) b Hb) as H.
  cbv beta in H. apply andb_true_iff in H as [H1 H2]. apply Z.eqb_eq in H1, H2. split; assumption.
Qed.

Lemma testbit_above a n i : 0 <= a < 2 ^ n -> 0 <= n <= i -> Z.testbit a i = false.
Proof.
  intros Ha Hi. destruct (Z.eq_dec a 0) as [->|Hz]; [apply Z.bits_0|].
  apply Z.bits_above_log2; [lia|]. assert (Z.log2 a < n) by (apply Z.log2_lt_pow2; lia). lia.
Qed.

Lemma lor_disjoint a c s : 0 <= s -> 0 <= a < 2 ^ s -> Z.lor a (c * 2 ^ s) = a + c * 2 ^ s.
Proof.
  intros Hs Ha.
  assert (Hl : Z.land a (c * 2 ^ s) = 0).
  { apply Z.bits_inj'. intros i Hi. rewrite Z.land_spec, Z.bits_0.
    destruct (Z_lt_le_dec i s) as [Hlt|Hge].
    - rewrite <- Z.shiftl_mul_pow2 by lia. rewrite Z.shiftl_spec_low by lia. apply andb_false_r.
    - rewrite (testbit_above a s i) by lia. reflexivity. }
  rewrite (Z.add_nocarry_lxor _ _ Hl). symmetry. apply Z.lxor_lor. exact Hl.
Qed.

Lemma lxor_ones x n : 0 <= n -> 0 <= x < 2 ^ n -> Z.lxor x (2 ^ n - 1) = 2 ^ n - 1 - x.
Proof.
  intros Hn Hx.
  assert (E1 : 2 ^ n - 1 = Z.ones n) by (rewrite Z.ones_equiv; lia).
  assert (E2 : 2 ^ n - 1 - x = Z.land (Z.lnot x) (Z.ones n)).
  { rewrite Z.land_ones by lia. unfold Z.lnot.
    rewrite <- (Z_mod_plus_full (Z.pred (- x)) 1 (2 ^ n)). rewrite Z.mod_small; lia. }
  rewrite E2, E1. apply Z.bits_inj'. intros i Hi.
  rewrite Z.lxor_spec, Z.land_spec, Z.lnot_spec by lia.
  destruct (Z_lt_le_dec i n) as [Hlt|Hge].
  - rewrite Z.ones_spec_low by lia. destruct (Z.testbit x i); reflexivity.
  - rewrite Z.ones_spec_high by lia. rewrite (testbit_above x n i) by lia. reflexivity.
Qed.

Lemma land_1 u : Z.land u 1 = u mod 2.
Proof. change 1 with (Z.ones 1). rewrite Z.land_ones by lia. reflexivity. Qed.

Lemma even_mod2 u : Z.even u = (u mod 2 =? 0).
Proof. rewrite Zmod_even. destruct (Z.even u); reflexivity. Qed.

Lemma unzz_xor_ok bits u : 0 < bits -> 0 <= u < 2 ^ bits -> unzz_xor bits u = unzz u.
Proof.
  intros Hb Hu. unfold unzz_xor, unzz. rewrite land_1, even_mod2, Z.shiftr_div_pow2 by lia.
  change (2 ^ 1) with 2.
  assert (Hp : 2 ^ bits = 2 * 2 ^ (bits - 1)).
  { replace bits with (Z.succ (bits - 1)) at 1 by lia. rewrite Z.pow_succ_r by lia. reflexivity. }
  assert (Hh : 0 <= u / 2 < 2 ^ (bits - 1)).
  { split; [apply Z.div_pos; lia|]. apply Z.div_lt_upper_bound; lia. }
  destruct (u mod 2 =? 0) eqn:E.
  - rewrite Z.lxor_0_r. unfold to_signed. destruct (u / 2 <? 2 ^ (bits - 1)) eqn:E2; lia.
  - rewrite lxor_ones by lia. unfold to_signed.
    destruct (2 ^ bits - 1 - u / 2 <? 2 ^ (bits - 1)) eqn:E2; lia.
Qed.

Lemma unzz_ice_ok u : 0 <= u < 2 ^ 64 -> unzz_ice u = unzz u.
Proof.
  intros Hu. unfold unzz_ice, unzz. rewrite land_1, even_mod2, Z.shiftr_div_pow2 by lia.
  change (2 ^ 1) with 2.
  assert (Hh : 0 <= u / 2 < 2 ^ 63).
  { split; [apply Z.div_pos; lia|]. apply Z.div_lt_upper_bound; lia. }
  destruct (u mod 2 =? 0) eqn:E.
  - unfold to_signed. change (64 - 1) with 63. destruct (u / 2 <? 2 ^ 63) eqn:E2; lia.
  - destruct (Z.eq_dec (u / 2 + 1) (2 ^ 63)) as [Hm|Hm].
    + rewrite Hm. replace (- (u / 2) - 1) with (- 2 ^ 63) by lia. vm_compute. reflexivity.
    + rewrite (to_signed_wrap 64 (u / 2 + 1)) by (unfold in_signed; change (64 - 1) with 63; lia).
      rewrite to_signed_wrap by (unfold in_signed; change (64 - 1) with 63; lia). lia.
Qed.

Lemma unzz_zz n : unzz (zz n) = n.
Proof.
  unfold unzz, zz. destruct (0 <=? n) eqn:E.
  - rewrite even_mod2. replace (2 * n) with (n * 2) by lia. rewrite Z.mod_mul, Z.div_mul by lia. reflexivity.
  - rewrite even_mod2. replace (- 2 * n - 1) with (1 + (- n - 1) * 2) by lia.
    rewrite Z.mod_add, Z.div_add by lia. change (1 mod 2 =? 0) with false. cbv iota.
    change (1 / 2) with 0. lia.
Qed.

Lemma zz_range bits n : 0 < bits -> in_signed bits n -> 0 <= zz n < 2 ^ bits.
Proof.
  unfold in_signed, zz. intros Hb Hn.
  assert (Hp : 2 ^ bits = 2 * 2 ^ (bits - 1)).
  { replace bits with (Z.succ (bits - 1)) at 1 by lia. rewrite Z.pow_succ_r by lia. reflexivity. }
  destruct (0 <=? n) eqn:E; lia.
Qed.

Lemma uv_enc_bytes fuel n : 0 <= n -> Forall (fun b => 0 <= b < 256) (uv_enc fuel n).
Proof.
  revert n. induction fuel as [|f IH]; intros n Hn; cbn [uv_enc]; [constructor|].
  destruct (n <? 128) eqn:E.
  - constructor; [lia|constructor].
  - constructor.
    + pose proof (Z.mod_pos_bound n 128 ltac:(lia)). lia.
    + apply IH. apply Z.div_pos; lia.
Qed.

Lemma uv_enc_nonempty fuel n : (0 < fuel)%nat -> uv_enc fuel n <> [].
Proof. destruct fuel; [lia|]. intros _. cbn [uv_enc]. destruct (n <? 128); discriminate. Qed.

(* The reader loop on an encoder output.  [bits]/[maxshift] are (64,63) or (32,28):
   the side condition says the overflow test never fires while the value still fits. *)
Lemma uv_loop_enc bits maxshift :
  0 < bits ->
  (forall s, 0 <= s -> s mod 7 = 0 -> s + 7 < bits -> s + 7 <= maxshift) ->
  forall fuel n shift value rest,
    (0 < fuel)%nat -> 0 <= n < 128 ^ Z.of_nat fuel ->
    0 <= shift -> shift mod 7 = 0 -> 0 <= value < 2 ^ shift -> n * 2 ^ shift < 2 ^ bits ->
    uv_loop bits maxshift shift value (uv_enc fuel n ++ rest) = VOk (value + n * 2 ^ shift) rest.
Proof.
  intros Hbits Hmax. induction fuel as [|f IH]; intros n shift value rest Hf Hn Hs Hs7 Hv Hfit; [lia|].
  assert (Hp : 0 < 2 ^ shift) by (apply Z.pow_pos_nonneg; lia).
  cbn [uv_enc]. destruct (n <? 128) eqn:E.
  - cbn [app uv_loop]. destruct (byte_bits n ltac:(lia)) as [B1 B2].
    rewrite B1, B2, E. cbn [Z.eqb]. rewrite (Z.mod_small n 128) by lia.
    rewrite Z.shiftl_mul_pow2 by lia. rewrite (Z.mod_small (n * 2 ^ shift)) by nia.
    rewrite lor_disjoint by lia. reflexivity.
  - pose proof (Z.mod_pos_bound n 128 ltac:(lia)) as Hm.
    cbn [app uv_loop]. destruct (byte_bits (n mod 128 + 128) ltac:(lia)) as [B1 B2].
    rewrite B1, B2. destruct (n mod 128 + 128 <? 128) eqn:E2; [lia|]. cbn [Z.eqb].
    assert (Hmm : (n mod 128 + 128) mod 128 = n mod 128).
    { replace (n mod 128 + 128) with (n mod 128 + 1 * 128) by lia.
      rewrite Z_mod_plus_full. apply Z.mod_small. lia. }
    rewrite Hmm.
    assert (Hpow : 2 ^ (shift + 7) = 128 * 2 ^ shift) by (rewrite Z.pow_add_r by lia; lia).
    assert (Hlt : shift + 7 < bits).
    { apply (Z.pow_lt_mono_r_iff 2); [lia|lia|]. rewrite Hpow. nia. }
    specialize (Hmax shift Hs Hs7 Hlt).
    destruct (maxshift <? shift + 7) eqn:E3; [lia|].
    rewrite Z.shiftl_mul_pow2 by lia.
    assert (Hsm : n mod 128 * 2 ^ shift < 2 ^ bits) by nia.
    rewrite (Z.mod_small (n mod 128 * 2 ^ shift)) by nia.
    rewrite lor_disjoint by lia.
    assert (Hd : 1 <= n / 128) by (apply Z.div_le_lower_bound; lia).
    assert (Hf' : (0 < f)%nat).
    { destruct f; [|lia]. exfalso. change (128 ^ Z.of_nat 1) with 128 in Hn. lia. }
    rewrite IH; try lia.
    + f_equal. rewrite Hpow. pose proof (Z.div_mod n 128 ltac:(lia)). nia.
    + split; [lia|]. apply Z.div_lt_upper_bound; [lia|].
      replace (Z.of_nat (S f)) with (Z.succ (Z.of_nat f)) in Hn by lia.
      rewrite Z.pow_succ_r in Hn by lia. lia.
    + rewrite Z.add_mod, Hs7 by lia. reflexivity.
    + rewrite Hpow. nia.
    + rewrite Hpow. pose proof (Z.div_mod n 128 ltac:(lia)). nia.
Qed.

Lemma max63 s : 0 <= s -> s mod 7 = 0 -> s + 7 < 64 -> s + 7 <= 63.
Proof. lia. Qed.
Lemma max28 s : 0 <= s -> s mod 7 = 0 -> s + 7 < 32 -> s + 7 <= 28.
Proof.
  intros H0 H7 Hlt. pose proof (Z.div_mod s 7 ltac:(lia)) as D. rewrite H7 in D. lia.
Qed.

Lemma uv64_enc u rest : 0 <= u < 2 ^ 64 -> uv_loop 64 63 0 0 (uv_enc 10 u ++ rest) = VOk u rest.
Proof.
  intros Hu.
  assert (H1 : 0 <= u < 128 ^ Z.of_nat 10).
  { change (128 ^ Z.of_nat 10) with 1180591620717411303424.
    change (2 ^ 64) with 18446744073709551616 in Hu. lia. }
  assert (H2 : 0 <= 0 < 2 ^ 0) by (change (2 ^ 0) with 1; lia).
  assert (H3 : u * 2 ^ 0 < 2 ^ 64) by (change (2 ^ 0) with 1; lia).
  rewrite (uv_loop_enc 64 63 ltac:(lia) max63 10%nat u 0 0 rest ltac:(lia) H1 ltac:(lia) eq_refl H2 H3).
  f_equal. change (2 ^ 0) with 1. lia.
Qed.

Lemma uv32_enc u rest : 0 <= u < 2 ^ 32 -> uv_loop 32 28 0 0 (uv_enc 10 u ++ rest) = VOk u rest.
Proof.
  intros Hu.
  assert (H1 : 0 <= u < 128 ^ Z.of_nat 10).
  { change (128 ^ Z.of_nat 10) with 1180591620717411303424.
    change (2 ^ 32) with 4294967296 in Hu. lia. }
  assert (H2 : 0 <= 0 < 2 ^ 0) by (change (2 ^ 0) with 1; lia).
  assert (H3 : u * 2 ^ 0 < 2 ^ 32) by (change (2 ^ 0) with 1; lia).
  rewrite (uv_loop_enc 32 28 ltac:(lia) max28 10%nat u 0 0 rest ltac:(lia) H1 ltac:(lia) eq_refl H2 H3).
  f_equal. change (2 ^ 0) with 1. lia.
Qed.

(* ---------- round trips ---------- *)
Theorem rv_ice_roundtrip n rest : in_signed 64 n -> rv_ice (enc_varint n ++ rest) = VOk n rest.
Proof.
  intros Hn. unfold rv_ice, enc_varint. pose proof (zz_range 64 n ltac:(lia) Hn) as Hz.
  rewrite uv64_enc by assumption. cbn [map_vres]. rewrite unzz_ice_ok, unzz_zz by assumption. reflexivity.
Qed.

Theorem rv_xor64_roundtrip n rest : in_signed 64 n -> rv_xor64 (enc_varint n ++ rest) = VOk n rest.
Proof.
  intros Hn. unfold rv_xor64, enc_varint. pose proof (zz_range 64 n ltac:(lia) Hn) as Hz.
  rewrite uv64_enc by assumption. cbn [map_vres]. rewrite unzz_xor_ok, unzz_zz by (assumption || lia). reflexivity.
Qed.

Theorem rv_sql32_roundtrip n rest : in_signed 32 n -> rv_sql32 (enc_varint n ++ rest) = VOk n rest.
Proof.
  intros Hn. unfold rv_sql32, enc_varint. pose proof (zz_range 32 n ltac:(lia) Hn) as Hz.
  rewrite uv32_enc by assumption. cbn [map_vres]. rewrite unzz_xor_ok, unzz_zz by (assumption || lia). reflexivity.
Qed.

(* a reader returns a strict suffix of its input (it consumed at least one byte) *)
Lemma uv_loop_suffix bits maxshift bs : forall shift value v rest,
  uv_loop bits maxshift shift value bs = VOk v rest -> (length rest < length bs)%nat.
Proof.
  induction bs as [|b bs IH]; intros shift value v rest H; cbn [uv_loop] in H; [discriminate|].
  destruct (Z.land b 128 =? 0).
  - inversion H; subst. cbn [length]. lia.
  - destruct (maxshift <? shift + 7); [discriminate|]. apply IH in H. cbn [length]. lia.
Qed.

Lemma map_vres_suffix f r v rest : map_vres f r = VOk v rest -> exists v', r = VOk v' rest.
Proof. destruct r; cbn; intros H; inversion H; subst; eauto. Qed.
