(* Wire helpers for the point-in-time-restore model (C08): fixed-width big-endian
   integers over [list Z] bytes, Go's int32/int64 wrap-around, the zig-zag varint
   reader of pkg/storage/recovery_exact.go (readVarint), chunk splitting, and an
   executable CRC-32C (Castagnoli, reflected, bitwise) used only to *run* the model
   in the correspondence check -- the theorems take the checksum as a Section
   variable.  Stdlib style; lemmas here are the generic list/byte facts. *)
From KS Require Import lib.Base.
Open Scope Z_scope.

(* ---------- chunks ---------- *)
Definition slice (off n : nat) (l : bytes) : bytes := firstn n (skipn off l).

Lemma firstn_app_exact {A} (a r : list A) n : length a = n -> firstn n (a ++ r) = a.
Proof. intros <-. rewrite firstn_app, Nat.sub_diag, firstn_all. cbn. apply app_nil_r. Qed.

Lemma skipn_app_exact {A} (a r : list A) n : length a = n -> skipn n (a ++ r) = r.
Proof. intros <-. rewrite skipn_app, Nat.sub_diag, skipn_all. reflexivity. Qed.

Lemma slice_length off n (l : bytes) : (off + n <= length l)%nat -> length (slice off n l) = n.
Proof. intros H. unfold slice. rewrite firstn_length, skipn_length. lia. Qed.

(* ---------- big-endian integers ---------- *)
Fixpoint be_dec (l : bytes) (acc : Z) : Z :=
  match l with
  | [] => acc
  | b :: t => be_dec t (acc * 256 + b)
  end.
Definition be_u (l : bytes) : Z := be_dec l 0.

(* n bytes, two's complement for negative v (Z.div/Z.modulo are floor) *)
Fixpoint be_enc (n : nat) (v : Z) : bytes :=
  match n with
  | O => []
  | S n' => be_enc n' (v / 256) ++ [v mod 256]
  end.

Lemma be_enc_length n v : length (be_enc n v) = n.
Proof. revert v; induction n as [|n IH]; intros v; cbn; [reflexivity|]. rewrite app_length, IH. cbn. lia. Qed.

Lemma be_dec_app a b acc : be_dec (a ++ b) acc = be_dec b (be_dec a acc).
Proof. revert acc; induction a as [|x a IH]; intros acc; cbn; [reflexivity|]. apply IH. Qed.

Lemma be_dec_enc n : forall v acc, 0 <= v < 256 ^ Z.of_nat n ->
  be_dec (be_enc n v) acc = acc * 256 ^ Z.of_nat n + v.
Proof.
  induction n as [|n IH]; intros v acc Hv.
  - cbn in *. lia.
  - cbn [be_enc]. rewrite be_dec_app. cbn [be_dec].
    rewrite Nat2Z.inj_succ, Z.pow_succ_r in * by lia.
    rewrite IH.
    + pose proof (Z.div_mod v 256 ltac:(lia)). lia.
    + split; [apply Z.div_pos; lia|]. apply Z.div_lt_upper_bound; lia.
Qed.

Lemma be_u_enc n v : 0 <= v < 256 ^ Z.of_nat n -> be_u (be_enc n v) = v.
Proof. intros H. unfold be_u. rewrite be_dec_enc by assumption. lia. Qed.

(* Go conversions int32(uint32 x), int64(uint64 x); and wrap-around of +,- *)
Definition to_signed (bits u : Z) : Z := if u <? 2 ^ (bits - 1) then u else u - 2 ^ bits.
Definition wrap_s (bits v : Z) : Z := to_signed bits (v mod 2 ^ bits).
Definition i16 (l : bytes) := to_signed 16 (be_u l).
Definition i32 (l : bytes) := to_signed 32 (be_u l).
Definition i64 (l : bytes) := to_signed 64 (be_u l).

Lemma i32_enc v : 0 <= v < 2 ^ 31 -> i32 (be_enc 4 v) = v.
Proof.
  intros H. unfold i32. rewrite be_u_enc by (cbn; lia). unfold to_signed.
  destruct (v <? 2 ^ (32 - 1)) eqn:E; [reflexivity|]. apply Z.ltb_ge in E. cbn in E. lia.
Qed.

(* ---------- readVarint (recovery_exact.go): zig-zag LEB128, 64 bit ---------- *)
(* returns (value, bytes consumed); None = io.EOF or "varint too long" *)
Fixpoint uvarint (l : bytes) (shift acc : Z) (n : nat) : option (Z * nat) :=
  match l with
  | [] => None
  | b :: t =>
      let acc' := Z.lor acc ((Z.shiftl (Z.land b 127) shift) mod 2 ^ 64) in
      if Z.land b 128 =? 0 then Some (acc', S n)
      else if 63 <? shift + 7 then None
      else uvarint t (shift + 7) acc' (S n)
  end.

Definition zigzag (v : Z) : Z := if Z.even v then v / 2 else - ((v + 1) / 2).

Definition varint (l : bytes) : option (Z * nat) :=
  match uvarint l 0 0 0 with
  | Some (v, n) => Some (zigzag v, n)
  | None => None
  end.

Lemma uvarint_local : forall l shift acc n v k,
  uvarint l shift acc n = Some (v, k) ->
  (n < k)%nat /\ (k - n <= length l)%nat /\
  forall l', uvarint (firstn (k - n) l ++ l') shift acc n = Some (v, k).
Proof.
  induction l as [|b t IH]; intros shift acc n v k H; cbn in H; [discriminate|].
  destruct (Z.land b 128 =? 0) eqn:E.
  - inversion H; subst. repeat split; [lia|cbn [length]; lia|].
    intros l'. replace (S n - n)%nat with 1%nat by lia. cbn. rewrite E. reflexivity.
  - destruct (63 <? shift + 7) eqn:E2; [discriminate|].
    apply IH in H as (H1 & H2 & H3). repeat split; [lia|cbn [length]; lia|].
    intros l'. replace (k - n)%nat with (S (k - S n)) by lia. cbn. rewrite E, E2. apply H3.
Qed.

Lemma varint_local l v k : varint l = Some (v, k) ->
  (1 <= k <= length l)%nat /\ forall l', varint (firstn k l ++ l') = Some (v, k).
Proof.
  unfold varint. destruct (uvarint l 0 0 0) as [[u n]|] eqn:E; [|discriminate].
  intros H; inversion H; subst. apply uvarint_local in E as (H1 & H2 & H3).
  rewrite Nat.sub_0_r in *. split; [lia|]. intros l'. now rewrite H3.
Qed.

(* ---------- CRC-32C, executable (reflected polynomial 0x82F63B78) ---------- *)
Fixpoint crc_bits (n : nat) (c : Z) : Z :=
  match n with
  | O => c
  | S n' => crc_bits n' (if Z.odd c then Z.lxor (Z.shiftr c 1) 2197175160 else Z.shiftr c 1)
  end.
Definition crc32c (l : bytes) : Z :=
  Z.lxor (fold_left (fun c b => crc_bits 8 (Z.lxor c b)) l 4294967295) 4294967295.
