(* Proofs about the dual S3 client model (model/Dual.v). *)
From KS Require Import lib.Base model.Dual.
Open Scope Z_scope.

(* ---------- store lemmas ---------- *)
Lemma sfind_sremove_same k s : sfind k (sremove k s) = None.
Proof.
  induction s as [|[k' v] s IH]; cbn; [reflexivity|].
  destruct (bytes_eqb k k') eqn:E; [exact IH|]. cbn. rewrite E. exact IH.
Qed.

Lemma sfind_sremove_other k k' s : k <> k' -> sfind k (sremove k' s) = sfind k s.
Proof.
  intros Hne. induction s as [|[k2 v] s IH]; cbn; [reflexivity|].
  destruct (bytes_eqb k' k2) eqn:E.
  - apply bytes_eqb_eq in E. subst k2.
    destruct (bytes_eqb k k') eqn:E2; [apply bytes_eqb_eq in E2; contradiction|]. exact IH.
  - cbn. destruct (bytes_eqb k k2); [reflexivity|exact IH].
Qed.

Lemma sfind_sput_same k v s : sfind k (sput k v s) = Some v.
Proof. unfold sput. cbn. now rewrite bytes_eqb_refl. Qed.

Lemma sfind_sput_other k k' v s : k <> k' -> sfind k (sput k' v s) = sfind k s.
Proof.
  intros Hne. unfold sput. cbn.
  destruct (bytes_eqb k k') eqn:E; [apply bytes_eqb_eq in E; contradiction|].
  now apply sfind_sremove_other.
Qed.

Lemma bytes_dec (a b : bytes) : {a = b} + {a <> b}.
Proof. destruct (bytes_eqb a b) eqn:E; [left; now apply bytes_eqb_eq|right; now apply bytes_eqb_neq]. Qed.

Lemma sfind_sset k k' v s :
  sfind k (sset k' v s) = if bytes_eqb k k' then v else sfind k s.
Proof.
  destruct (bytes_eqb k k') eqn:E.
  - apply bytes_eqb_eq in E. subst k'. destruct v as [b|]; cbn [sset].
    + apply sfind_sput_same.
    + apply sfind_sremove_same.
  - apply bytes_eqb_neq in E. destruct v as [b|]; cbn [sset].
    + now apply sfind_sput_other.
    + now apply sfind_sremove_other.
Qed.

Lemma sfind_in k b s : sfind k s = Some b -> In (k, b) s.
Proof.
  induction s as [|[k' v] s IH]; cbn; [discriminate|].
  destruct (bytes_eqb k k') eqn:E.
  - intros H. inversion H; subst. apply bytes_eqb_eq in E. subst. now left.
  - intros H. right. now apply IH.
Qed.

Lemma opt_bytes_eqb_eq (a b : option bytes) : opt_eqb bytes_eqb a b = true -> a = b.
Proof.
  destruct a as [x|], b as [y|]; cbn; intros H; try discriminate; try reflexivity.
  apply bytes_eqb_eq in H. now subst.
Qed.

Lemma sub_storeb_sound r p : sub_storeb r p = true -> sub_store r p.
Proof.
  unfold sub_storeb, sub_store. intros H k b Hf.
  rewrite forallb_forall in H. specialize (H _ (sfind_in _ _ _ Hf)). cbn in H.
  apply opt_bytes_eqb_eq in H. now rewrite <- H.
Qed.

Lemma replica_consistentb_sound d : replica_consistentb d = true -> replica_consistent d.
Proof.
  unfold replica_consistentb, replica_consistent. intros H.
  apply andb_true_iff in H as [H1 H2]. split; now apply sub_storeb_sound.
Qed.

(* ---------- reads ---------- *)
Lemma reads_match_seg d k r rf :
  replica_consistent d -> dual_get_seg d k r rf false = mem_get_seg (d_prim d) k r.
Proof.
  intros [Hs _]. unfold dual_get_seg. destruct rf; [reflexivity|].
  unfold mem_get_seg at 1 2. destruct (sfind k (m_seg (d_repl d))) as [b|] eqn:E.
  - apply Hs in E. unfold mem_get_seg. rewrite E. destruct (is_ok (read_range b r)); reflexivity.
  - reflexivity.
Qed.

Lemma reads_match_idx d k rf :
  replica_consistent d -> dual_get_idx d k rf false = mem_get_idx (d_prim d) k.
Proof.
  intros [_ Hi]. unfold dual_get_idx. destruct rf; [reflexivity|].
  unfold mem_get_idx at 1 2. destruct (sfind k (m_idx (d_repl d))) as [b|] eqn:E.
  - apply Hi in E. unfold mem_get_idx. rewrite E. reflexivity.
  - reflexivity.
Qed.

(* with a failing primary the dual client returns the primary's bytes or an error,
   never other bytes *)
Lemma reads_pfault_seg d k r rf :
  replica_consistent d ->
  dual_get_seg d k r rf true = mem_get_seg (d_prim d) k r \/ dual_get_seg d k r rf true = RFault.
Proof.
  intros [Hs _]. unfold dual_get_seg. destruct rf; [now right|].
  unfold mem_get_seg at 1 2 4. destruct (sfind k (m_seg (d_repl d))) as [b|] eqn:E.
  - apply Hs in E. unfold mem_get_seg. rewrite E. destruct (is_ok (read_range b r)); [now left|now right].
  - now right.
Qed.

Lemma reads_pfault_idx d k rf :
  replica_consistent d ->
  dual_get_idx d k rf true = mem_get_idx (d_prim d) k \/ dual_get_idx d k rf true = RFault.
Proof.
  intros [_ Hi]. unfold dual_get_idx. destruct rf; [now right|].
  unfold mem_get_idx at 1 2 4. destruct (sfind k (m_idx (d_repl d))) as [b|] eqn:E.
  - apply Hi in E. unfold mem_get_idx. rewrite E. now left.
  - now right.
Qed.

Definition is_env (o : op) : bool := match o with ERSeg _ _ | ERIdx _ _ => true | _ => false end.
Definition is_read (o : op) : bool := match o with OGetSeg _ _ | OGetIdx _ => true | _ => false end.

(* ---------- writes, listings, bucket operations ---------- *)
Lemma client_ops_leave_replica d o rf pf :
  is_env o = false -> d_repl (fst (dual_step d o rf pf)) = d_repl d.
Proof.
  destruct o; cbn; intros H; try discriminate; try reflexivity;
    destruct pf; reflexivity.
Qed.

Lemma reads_change_nothing d o rf pf :
  is_read o = true -> fst (dual_step d o rf pf) = d.
Proof. destruct o; cbn; intros H; try discriminate; reflexivity. Qed.

Lemma writes_are_primary_calls d o rf pf :
  is_env o = false -> is_read o = false ->
  replica_calls o = [] /\
  d_prim (fst (dual_step d o rf pf)) = fst (mem_step (d_prim d) o pf) /\
  snd (dual_step d o rf pf) = snd (mem_step (d_prim d) o pf).
Proof.
  destruct o; cbn; intros H1 H2; try discriminate; destruct pf; cbn; repeat split.
Qed.

(* ---------- histories that keep the hypothesis ---------- *)
Lemma sub_store_sset_copy r p k b :
  sub_store r p -> sfind k p = Some b -> sub_store (sset k (Some b) r) p.
Proof.
  intros H Hp k' b' Hf. rewrite sfind_sset in Hf.
  destruct (bytes_eqb k' k) eqn:E.
  - apply bytes_eqb_eq in E. subst. congruence.
  - now apply H.
Qed.

Lemma sub_store_sset_drop r p k : sub_store r p -> sub_store (sset k None r) p.
Proof.
  intros H k' b' Hf. rewrite sfind_sset in Hf.
  destruct (bytes_eqb k' k); [discriminate|]. now apply H.
Qed.

Lemma sub_store_put r p k b :
  sub_store r p -> sfind k r = None \/ sfind k r = Some b -> sub_store r (sput k b p).
Proof.
  intros H Hk k' b' Hf. destruct (bytes_dec k' k) as [->|Hne].
  - rewrite sfind_sput_same. destruct Hk as [Hk|Hk]; congruence.
  - rewrite sfind_sput_other by assumption. now apply H.
Qed.

Lemma sub_store_remove r p k :
  sub_store r p -> sfind k r = None -> sub_store r (sremove k p).
Proof.
  intros H Hk k' b' Hf. destruct (bytes_dec k' k) as [->|Hne].
  - congruence.
  - rewrite sfind_sremove_other by assumption. now apply H.
Qed.

Lemma consistent_step d c :
  replica_consistent d -> call_disciplined d c ->
  replica_consistent (fst (dual_step d (c_op c) (c_rf c) (c_pf c))).
Proof.
  intros [Hs Hi] Hd. unfold call_disciplined in Hd.
  destruct c as [o rf pf]; cbn [c_op c_rf c_pf] in *.
  destruct o as [k b|k b|k|k|k r|k|p| |k v|k v]; cbn [dual_step].
  - destruct pf; cbn; [now split|]. split; cbn; [|assumption].
    apply sub_store_put; [assumption|]. destruct Hd as [Hd|Hd]; [discriminate|exact Hd].
  - destruct pf; cbn; [now split|]. split; cbn; [assumption|].
    apply sub_store_put; [assumption|]. destruct Hd as [Hd|Hd]; [discriminate|exact Hd].
  - destruct pf; cbn; [now split|]. split; cbn; [|assumption].
    apply sub_store_remove; [assumption|]. destruct Hd as [Hd|Hd]; [discriminate|exact Hd].
  - destruct pf; cbn; [now split|]. split; cbn; [assumption|].
    apply sub_store_remove; [assumption|]. destruct Hd as [Hd|Hd]; [discriminate|exact Hd].
  - now split.
  - now split.
  - destruct pf; cbn; now split.
  - destruct pf; cbn; now split.
  - split; cbn; [|assumption]. destruct v as [b|].
    + now apply sub_store_sset_copy.
    + now apply sub_store_sset_drop.
  - split; cbn; [assumption|]. destruct v as [b|].
    + now apply sub_store_sset_copy.
    + now apply sub_store_sset_drop.
Qed.

Lemma consistent_run cs : forall d,
  replica_consistent d -> disciplined d cs -> replica_consistent (run d cs).
Proof.
  induction cs as [|c cs IH]; intros d Hc Hd; cbn; [assumption|].
  destruct Hd as [H1 H2]. apply IH; [now apply consistent_step|assumption].
Qed.

Lemma consistent0 : replica_consistent dual0.
Proof. split; intros k b H; discriminate. Qed.

Theorem reads_match_history cs :
  disciplined dual0 cs ->
  let d := run dual0 cs in
  (forall k r rf, dual_get_seg d k r rf false = mem_get_seg (d_prim d) k r) /\
  (forall k rf, dual_get_idx d k rf false = mem_get_idx (d_prim d) k).
Proof.
  intros Hd d. assert (replica_consistent d) as Hc by (apply consistent_run; [apply consistent0|assumption]).
  split; intros; [now apply reads_match_seg|now apply reads_match_idx].
Qed.

Theorem reads_match_state d :
  replica_consistent d ->
  (forall k r rf, dual_get_seg d k r rf false = mem_get_seg (d_prim d) k r) /\
  (forall k rf, dual_get_idx d k rf false = mem_get_idx (d_prim d) k).
Proof. intros Hc. split; intros; [now apply reads_match_seg|now apply reads_match_idx]. Qed.

Theorem reads_pfault d :
  replica_consistent d ->
  (forall k r rf, dual_get_seg d k r rf true = mem_get_seg (d_prim d) k r \/ dual_get_seg d k r rf true = RFault) /\
  (forall k rf, dual_get_idx d k rf true = mem_get_idx (d_prim d) k \/ dual_get_idx d k rf true = RFault).
Proof. intros Hc. split; intros; [now apply reads_pfault_seg|now apply reads_pfault_idx]. Qed.

Theorem writes_lists_primary d o rf pf :
  is_env o = false ->
  d_repl (fst (dual_step d o rf pf)) = d_repl d /\
  (is_read o = true -> fst (dual_step d o rf pf) = d) /\
  (is_read o = false ->
     replica_calls o = [] /\
     d_prim (fst (dual_step d o rf pf)) = fst (mem_step (d_prim d) o pf) /\
     snd (dual_step d o rf pf) = snd (mem_step (d_prim d) o pf)).
Proof.
  intros He. split; [now apply client_ops_leave_replica|]. split.
  - now apply reads_change_nothing.
  - intros Hr. now apply writes_are_primary_calls.
Qed.

(* ---------- reads with time ---------- *)
Lemma timed_call_live budget p content x t :
  timed_call budget p content = Some (x, t) -> 0 <= t \/ True.
Proof. intros _. now right. Qed.

Lemma timed_fallback_live budget0 t1 pp content x t2 :
  timed_call (budget_after budget0 t1) pp content = Some (x, t2) ->
  caller_live budget0 (t1 + t2) -> pl_out pp = POk -> x = content.
Proof.
  unfold timed_call, budget_after, caller_live. intros H Hl Hp. rewrite Hp in H.
  destruct budget0 as [b|]; destruct (pl_lat pp) as [l|]; try discriminate.
  - destruct (b - t1 <=? 0) eqn:E1; [inversion H; subst; lia|].
    destruct (l <? b - t1) eqn:E2; inversion H; subst; [reflexivity|lia].
  - inversion H; subst. lia.
  - inversion H; subst. reflexivity.
Qed.

Lemma timed_call_ok budget p content x t :
  timed_call budget p content = Some (x, t) -> is_ok x = true -> x = content /\ pl_out p = POk.
Proof.
  unfold timed_call. intros H Hok.
  destruct budget as [b|]; destruct (pl_lat p) as [l|]; try discriminate.
  - destruct (b <=? 0); [inversion H; subst; discriminate|].
    destruct (l <? b); inversion H; subst; [|discriminate].
    destruct (pl_out p); [auto|discriminate|discriminate].
  - inversion H; subst. discriminate.
  - inversion H; subst. destruct (pl_out p); [auto|discriminate|discriminate].
Qed.

Lemma repl_ok_is_prim_seg d k r : replica_consistent d ->
  is_ok (mem_get_seg (d_repl d) k r) = true -> mem_get_seg (d_repl d) k r = mem_get_seg (d_prim d) k r.
Proof.
  intros [Hs _]. unfold mem_get_seg. destruct (sfind k (m_seg (d_repl d))) as [b|] eqn:E; [|discriminate].
  apply Hs in E. now rewrite E.
Qed.

Lemma repl_ok_is_prim_idx d k : replica_consistent d ->
  is_ok (mem_get_idx (d_repl d) k) = true -> mem_get_idx (d_repl d) k = mem_get_idx (d_prim d) k.
Proof.
  intros [_ Hi]. unfold mem_get_idx. destruct (sfind k (m_idx (d_repl d))) as [b|] eqn:E; [|discriminate].
  apply Hi in E. now rewrite E.
Qed.

Theorem reads_match_timed d : replica_consistent d ->
  (forall k r budget rp pp x t, dual_get_seg_timed d k r budget rp pp = Some (x, t) ->
     (caller_live budget t -> pl_out pp = POk -> x = mem_get_seg (d_prim d) k r) /\
     (is_ok x = true -> x = mem_get_seg (d_prim d) k r)) /\
  (forall k budget rp pp x t, dual_get_idx_timed d k budget rp pp = Some (x, t) ->
     (caller_live budget t -> pl_out pp = POk -> x = mem_get_idx (d_prim d) k) /\
     (is_ok x = true -> x = mem_get_idx (d_prim d) k)).
Proof.
  intros Hc. split.
  - intros k r budget rp pp x t H. unfold dual_get_seg_timed in H.
    destruct (timed_call budget rp (mem_get_seg (d_repl d) k r)) as [[a t1]|] eqn:E1; [|discriminate].
    destruct (is_ok a) eqn:Ea.
    + inversion H; subst. destruct (timed_call_ok _ _ _ _ _ E1 Ea) as [-> _].
      rewrite (repl_ok_is_prim_seg d k r Hc Ea). split; auto.
    + destruct (timed_call (budget_after budget t1) pp (mem_get_seg (d_prim d) k r)) as [[b t2]|] eqn:E2; [|discriminate].
      inversion H; subst. split.
      * intros Hl Hp. now apply (timed_fallback_live budget t1 pp _ _ t2 E2).
      * intros Hok. now destruct (timed_call_ok _ _ _ _ _ E2 Hok).
  - intros k budget rp pp x t H. unfold dual_get_idx_timed in H.
    destruct (timed_call budget rp (mem_get_idx (d_repl d) k)) as [[a t1]|] eqn:E1; [|discriminate].
    destruct (is_ok a) eqn:Ea.
    + inversion H; subst. destruct (timed_call_ok _ _ _ _ _ E1 Ea) as [-> _].
      rewrite (repl_ok_is_prim_idx d k Hc Ea). split; auto.
    + destruct (timed_call (budget_after budget t1) pp (mem_get_idx (d_prim d) k)) as [[b t2]|] eqn:E2; [|discriminate].
      inversion H; subst. split.
      * intros Hl Hp. now apply (timed_fallback_live budget t1 pp _ _ t2 E2).
      * intros Hok. now destruct (timed_call_ok _ _ _ _ _ E2 Hok).
Qed.
