(* Proofs for C24: an item whose required permission is missing is answered with an
   authorization error and the handler does not go on to the guarded call for it; and
   the per-case cross-check of the hand model's guard order against the table
   regenerated from cmd/broker/main.go. *)
From Coq Require Import String.
From KS Require Import lib.Base lib.Strings model.Dispatch gen.DispatchTable.
Open Scope Z_scope.

Lemma authz_29 : authz_code TOPIC_AUTHZ = true. Proof. reflexivity. Qed.
Lemma authz_30 : authz_code GROUP_AUTHZ = true. Proof. reflexivity. Qed.
Lemma authz_31 : authz_code CLUSTER_AUTHZ = true. Proof. reflexivity. Qed.

Lemma per_item_denied p a r code its it o :
  In (it, o) (per_item p a r code its) -> p a r (snd it) = false -> o = Denied code.
Proof.
  unfold per_item. intros H Hp. apply in_map_iff in H as [x [Hx _]]. inversion Hx; subst. now rewrite Hp.
Qed.

Lemma whole_denied ok code its it o :
  In (it, o) (whole_request ok code its) -> ok = false -> o = Denied (code it).
Proof.
  unfold whole_request. intros H Hok. apply in_map_iff in H as [x [Hx _]]. inversion Hx; subst. reflexivity.
Qed.

Lemma whole_in ok code its it o : In (it, o) (whole_request ok code its) -> In it its.
Proof. unfold whole_request. intros H. apply in_map_iff in H as [x [Hx Hi]]. inversion Hx; subst. exact Hi. Qed.

Lemma topic_items_in it ts : In it (topic_items ts) -> In (snd it) ts.
Proof. unfold topic_items. intros H. apply in_map_iff in H as [t [Ht Hi]]. subst. exact Hi. Qed.

Lemma forallb_false_in {A} (f : A -> bool) l x : In x l -> f x = false -> forallb f l = false.
Proof.
  intros Hi Hf. destruct (forallb f l) eqn:E; [|reflexivity].
  rewrite forallb_forall in E. rewrite (E x Hi) in Hf. discriminate.
Qed.

Lemma config_code_authz it : authz_code (config_code it) = true.
Proof. unfold config_code. destruct (fst it =? 2); reflexivity. Qed.

Ltac req_inv H := unfold lacks_permission, required in H; destruct H as [a [rs [n [Hreq Hp]]]].

(* For EVERY request kind Handle accepts and every item of the request (mixed
   per-topic / per-group requests are lists of arbitrary length): *)
Theorem unauthorized_inert e p r it o :
  In (it, o) (handle e p r) -> lacks_permission e p r it ->
  exists c, o = Denied c /\ authz_code c = true.
Proof.
  intros Hin Hl. req_inv Hl.
  destruct r; cbn [handle] in Hin; try (destruct Hin; fail); try discriminate Hreq.
  - (* Metadata *)
    destruct (auto_create e) eqn:Ea; [|discriminate Hreq]. cbn [andb negb] in Hreq, Hin.
    destruct (topic_exists e (snd it)) eqn:Ex; [discriminate|]. cbn [negb] in Hreq. inversion Hreq; subst.
    apply in_map_iff in Hin as [x [Hx _]]. inversion Hx; subst. rewrite Hp, Ex. eauto using authz_29.
  - inversion Hreq; subst. exists TOPIC_AUTHZ. split; [eapply per_item_denied; eauto|reflexivity].
  - (* Fetch: the decision is taken on the resolved name *)
    apply in_map_iff in Hin as [a0 [Hx _]]. destruct (fetch_name a0) as [nm|]; inversion Hx; subst; cbn [fst snd] in Hreq.
    + inversion Hreq; subst. rewrite Hp. eauto using authz_29.
    + discriminate Hreq.
  - inversion Hreq; subst. exists GROUP_AUTHZ. split; [eapply per_item_denied; eauto|reflexivity].
  - inversion Hreq; subst. exists GROUP_AUTHZ. split; [eapply per_item_denied; eauto|reflexivity].
  - inversion Hreq; subst. exists GROUP_AUTHZ. split; [eapply per_item_denied; eauto|reflexivity].
  - inversion Hreq; subst. exists GROUP_AUTHZ. split; [eapply per_item_denied; eauto|reflexivity].
  - inversion Hreq; subst. exists GROUP_AUTHZ. split; [eapply per_item_denied; eauto|reflexivity].
  - inversion Hreq; subst. exists GROUP_AUTHZ. split; [eapply per_item_denied; eauto|reflexivity].
  - inversion Hreq; subst. exists GROUP_AUTHZ. split; [eapply per_item_denied; eauto|reflexivity].
  - inversion Hreq; subst. exists GROUP_AUTHZ. split; [eapply per_item_denied; eauto|reflexivity].
  - inversion Hreq; subst. exists GROUP_AUTHZ. split; [eapply per_item_denied; eauto|reflexivity].
  - (* OffsetForLeaderEpoch: one unauthorised topic rejects the whole request *)
    inversion Hreq; subst. exists TOPIC_AUTHZ. split; [|reflexivity].
    eapply (whole_denied _ (fun _ => TOPIC_AUTHZ)); [exact Hin|].
    eapply forallb_false_in; [|exact Hp]. apply topic_items_in. eapply whole_in; eauto.
  - inversion Hreq; subst. exists TOPIC_AUTHZ. split; [|reflexivity].
    eapply (whole_denied _ (fun _ => TOPIC_AUTHZ)); [exact Hin|].
    eapply forallb_false_in; [|exact Hp]. apply topic_items_in. eapply whole_in; eauto.
  - (* DescribeConfigs *)
    apply in_map_iff in Hin as [x [Hx _]]. inversion Hx; subst.
    destruct (fst it =? 2); inversion Hreq; subst; rewrite Hp; eauto using authz_29, authz_31.
  - (* AlterConfigs *)
    inversion Hreq; subst. exists (config_code it). split; [eapply whole_denied; eauto|apply config_code_authz].
  - inversion Hreq; subst. exists TOPIC_AUTHZ. split; [eapply (whole_denied _ (fun _ => TOPIC_AUTHZ)); eauto|reflexivity].
  - inversion Hreq; subst. exists TOPIC_AUTHZ. split; [|reflexivity].
    eapply (whole_denied _ (fun _ => TOPIC_AUTHZ)); [exact Hin|]. now rewrite Hp.
  - inversion Hreq; subst. exists TOPIC_AUTHZ. split; [|reflexivity].
    eapply (whole_denied _ (fun _ => TOPIC_AUTHZ)); [exact Hin|]. now rewrite Hp.
Qed.

(* the handler never goes on to the guarded call for an item that lacks its permission,
   and returns record bytes for none *)
Corollary effects_need_permission e p r it :
  In it (effects (handle e p r)) -> ~ lacks_permission e p r it.
Proof.
  unfold effects. intros H Hl. apply in_map_iff in H as [[it' o] [Hf Hi]]. cbn in Hf. subst it'.
  apply filter_In in Hi as [Hi Ho]. destruct (unauthorized_inert e p r it o Hi Hl) as [c [-> _]]. discriminate.
Qed.

Corollary data_needs_permission e p r it :
  In it (data_items r (handle e p r)) -> ~ lacks_permission e p r it.
Proof. unfold data_items. destruct r; try (intros []; fail). apply effects_need_permission. Qed.

(* a request all of whose items lack their permission: no effect at all, no data,
   every item answered with an authorization error *)
Corollary all_unauthorized_inert e p r :
  (forall it o, In (it, o) (handle e p r) -> lacks_permission e p r it) ->
  effects (handle e p r) = [] /\ data_items r (handle e p r) = [] /\
  Forall (fun x => exists c, snd x = Denied c /\ authz_code c = true) (handle e p r).
Proof.
  intros H.
  assert (E : effects (handle e p r) = []).
  { destruct (effects (handle e p r)) as [|it l] eqn:E; [reflexivity|].
    assert (Hi : In it (effects (handle e p r))) by (rewrite E; now left).
    pose proof (effects_need_permission e p r it Hi) as Hn.
    unfold effects in Hi. apply in_map_iff in Hi as [[it' o] [Hf Hi]]. cbn in Hf. subst it'.
    apply filter_In in Hi as [Hi _]. destruct (Hn (H it o Hi)). }
  split; [exact E|]. split.
  - unfold data_items. destruct r; try reflexivity. exact E.
  - apply Forall_forall. intros [it o] Hi. cbn [snd]. exact (unauthorized_inert e p r it o Hi (H it o Hi)).
Qed.

(* a topic is only ever created for a principal that may produce to it (auto-creation, from
   whichever request kind) or that administers the cluster (CreateTopics) *)
Theorem creation_needs_permission e p r n :
  In n (creates e p r) -> p AProduce RTopic n = true \/ p AAdmin RCluster s_cluster = true.
Proof.
  intros H. destruct r; cbn [creates] in H; try (destruct H; fail).
  - destruct (auto_create e); [|destruct H]. apply filter_In in H as [_ H].
    apply andb_true_iff in H as [_ H]. now left.
  - destruct (auto_create e); [|destruct H]. apply filter_In in H as [_ H].
    apply andb_true_iff in H as [_ H]. now left.
  - destruct (auto_create e); [|destruct H]. apply filter_In in H as [_ H].
    apply andb_true_iff in H as [_ H]. now left.
  - destruct (auto_create e && forallb (p AFetch RTopic) topics); [|destruct H]. apply filter_In in H as [_ H].
    apply andb_true_iff in H as [_ H]. now left.
  - destruct (p AAdmin RCluster s_cluster) eqn:E; [now right|destruct H].
Qed.

(* the model is not vacuous the other way: with the permission, Produce proceeds *)
Lemma authorized_proceeds e p ts t : In t ts -> p AProduce RTopic t = true -> In (0, t) (effects (handle e p (RProduce ts))).
Proof.
  intros Hi Hp. unfold effects. apply in_map_iff. exists ((0, t), Proceeds). split; [reflexivity|].
  apply filter_In. split; [|reflexivity]. cbn [handle]. unfold per_item, topic_items. apply in_map_iff.
  exists (0, t). cbn [snd]. rewrite Hp. split; [reflexivity|]. apply in_map_iff. eauto.
Qed.

(* ---------- cross-check with the table generated from the source ---------- *)
Lemma dispatch_kinds : same_kinds dispatch_table = true. Proof. vm_compute. reflexivity. Qed.
Lemma dispatch_AlterConfigs : row_ok dispatch_table "AlterConfigs" = true. Proof. vm_compute. reflexivity. Qed.
Lemma dispatch_ApiVersions : row_ok dispatch_table "ApiVersions" = true. Proof. vm_compute. reflexivity. Qed.
Lemma dispatch_CreatePartitions : row_ok dispatch_table "CreatePartitions" = true. Proof. vm_compute. reflexivity. Qed.
Lemma dispatch_CreateTopics : row_ok dispatch_table "CreateTopics" = true. Proof. vm_compute. reflexivity. Qed.
Lemma dispatch_DeleteGroups : row_ok dispatch_table "DeleteGroups" = true. Proof. vm_compute. reflexivity. Qed.
Lemma dispatch_DeleteTopics : row_ok dispatch_table "DeleteTopics" = true. Proof. vm_compute. reflexivity. Qed.
Lemma dispatch_DescribeConfigs : row_ok dispatch_table "DescribeConfigs" = true. Proof. vm_compute. reflexivity. Qed.
Lemma dispatch_DescribeGroups : row_ok dispatch_table "DescribeGroups" = true. Proof. vm_compute. reflexivity. Qed.
Lemma dispatch_Fetch : row_ok dispatch_table "Fetch" = true. Proof. vm_compute. reflexivity. Qed.
Lemma dispatch_FindCoordinator : row_ok dispatch_table "FindCoordinator" = true. Proof. vm_compute. reflexivity. Qed.
Lemma dispatch_Heartbeat : row_ok dispatch_table "Heartbeat" = true. Proof. vm_compute. reflexivity. Qed.
Lemma dispatch_JoinGroup : row_ok dispatch_table "JoinGroup" = true. Proof. vm_compute. reflexivity. Qed.
Lemma dispatch_LeaveGroup : row_ok dispatch_table "LeaveGroup" = true. Proof. vm_compute. reflexivity. Qed.
Lemma dispatch_ListGroups : row_ok dispatch_table "ListGroups" = true. Proof. vm_compute. reflexivity. Qed.
Lemma dispatch_ListOffsets : row_ok dispatch_table "ListOffsets" = true. Proof. vm_compute. reflexivity. Qed.
Lemma dispatch_Metadata : row_ok dispatch_table "Metadata" = true. Proof. vm_compute. reflexivity. Qed.
Lemma dispatch_OffsetCommit : row_ok dispatch_table "OffsetCommit" = true. Proof. vm_compute. reflexivity. Qed.
Lemma dispatch_OffsetFetch : row_ok dispatch_table "OffsetFetch" = true. Proof. vm_compute. reflexivity. Qed.
Lemma dispatch_OffsetForLeaderEpoch : row_ok dispatch_table "OffsetForLeaderEpoch" = true. Proof. vm_compute. reflexivity. Qed.
Lemma dispatch_Produce : row_ok dispatch_table "Produce" = true. Proof. vm_compute. reflexivity. Qed.
Lemma dispatch_SyncGroup : row_ok dispatch_table "SyncGroup" = true. Proof. vm_compute. reflexivity. Qed.

Definition all_kinds : list string :=
  ["AlterConfigs"; "ApiVersions"; "CreatePartitions"; "CreateTopics"; "DeleteGroups"; "DeleteTopics"; "DescribeConfigs";
   "DescribeGroups"; "Fetch"; "FindCoordinator"; "Heartbeat"; "JoinGroup"; "LeaveGroup"; "ListGroups"; "ListOffsets";
   "Metadata"; "OffsetCommit"; "OffsetFetch"; "OffsetForLeaderEpoch"; "Produce"; "SyncGroup"]%string.

Lemma dispatch_all : same_kinds dispatch_table = true /\ forallb (row_ok dispatch_table) all_kinds = true.
Proof. vm_compute. split; reflexivity. Qed.

(* ---------- every creation-reaching call site of every handler is guarded ---------- *)
Lemma creation_AlterConfigs : sites_ok creation_sites "AlterConfigs" = true. Proof. vm_compute. reflexivity. Qed.
Lemma creation_ApiVersions : sites_ok creation_sites "ApiVersions" = true. Proof. vm_compute. reflexivity. Qed.
Lemma creation_CreatePartitions : sites_ok creation_sites "CreatePartitions" = true. Proof. vm_compute. reflexivity. Qed.
Lemma creation_CreateTopics : sites_ok creation_sites "CreateTopics" = true. Proof. vm_compute. reflexivity. Qed.
Lemma creation_DeleteGroups : sites_ok creation_sites "DeleteGroups" = true. Proof. vm_compute. reflexivity. Qed.
Lemma creation_DeleteTopics : sites_ok creation_sites "DeleteTopics" = true. Proof. vm_compute. reflexivity. Qed.
Lemma creation_DescribeConfigs : sites_ok creation_sites "DescribeConfigs" = true. Proof. vm_compute. reflexivity. Qed.
Lemma creation_DescribeGroups : sites_ok creation_sites "DescribeGroups" = true. Proof. vm_compute. reflexivity. Qed.
Lemma creation_Fetch : sites_ok creation_sites "Fetch" = true. Proof. vm_compute. reflexivity. Qed.
Lemma creation_FindCoordinator : sites_ok creation_sites "FindCoordinator" = true. Proof. vm_compute. reflexivity. Qed.
Lemma creation_Heartbeat : sites_ok creation_sites "Heartbeat" = true. Proof. vm_compute. reflexivity. Qed.
Lemma creation_JoinGroup : sites_ok creation_sites "JoinGroup" = true. Proof. vm_compute. reflexivity. Qed.
Lemma creation_LeaveGroup : sites_ok creation_sites "LeaveGroup" = true. Proof. vm_compute. reflexivity. Qed.
Lemma creation_ListGroups : sites_ok creation_sites "ListGroups" = true. Proof. vm_compute. reflexivity. Qed.
Lemma creation_ListOffsets : sites_ok creation_sites "ListOffsets" = true. Proof. vm_compute. reflexivity. Qed.
Lemma creation_Metadata : sites_ok creation_sites "Metadata" = true. Proof. vm_compute. reflexivity. Qed.
Lemma creation_OffsetCommit : sites_ok creation_sites "OffsetCommit" = true. Proof. vm_compute. reflexivity. Qed.
Lemma creation_OffsetFetch : sites_ok creation_sites "OffsetFetch" = true. Proof. vm_compute. reflexivity. Qed.
Lemma creation_OffsetForLeaderEpoch : sites_ok creation_sites "OffsetForLeaderEpoch" = true. Proof. vm_compute. reflexivity. Qed.
Lemma creation_Produce : sites_ok creation_sites "Produce" = true. Proof. vm_compute. reflexivity. Qed.
Lemma creation_SyncGroup : sites_ok creation_sites "SyncGroup" = true. Proof. vm_compute. reflexivity. Qed.

Lemma creation_all : forallb (sites_ok creation_sites) all_kinds = true.
Proof. vm_compute. reflexivity. Qed.

(* the checker is not vacuous: it rejects an unguarded path to getPartitionLog and a flag that
   stores a fetch (not produce) verdict, and accepts the guarded shapes *)
Lemma site_ok_examples :
  site_ok (codes "h.getPartitionLog", [(codes "allowTopics[x]:ActionFetch", codes "reject")]) = false /\
  site_ok (codes "h.partitionLog[mayCreate]", [(codes "mayCreate=allowTopic[t]:ActionFetch", codes "flag")]) = false /\
  site_ok (codes "h.partitionLog[mayCreate]", [(codes "other=allowTopic[t]:ActionProduce", codes "flag")]) = false /\
  site_ok (codes "h.partitionLog[mayCreate]", [(codes "mayCreate=allowTopic[t]:ActionProduce", codes "flag")]) = true /\
  site_ok (codes "h.ensureTopic", [(codes "allowTopic[name]:ActionProduce", codes "skip")]) = true /\
  site_ok (codes "UNGUARDED:h.ensureTopic", [(codes "allowTopic[name]:ActionProduce", codes "skip")]) = false.
Proof. vm_compute. repeat split. Qed.

(* with the client_id source the principal of a request depends on that request only: not on
   the connection (address, PROXY header), hence not on who used the connection before *)
Lemma resolve_client_id_request_only is_blank trim h h' cid :
  is_blank [] = true ->
  resolve_principal is_blank trim SrcClientId h cid = resolve_principal is_blank trim SrcClientId h' cid.
Proof. intros Hb. unfold resolve_principal. rewrite Hb. reflexivity. Qed.

Lemma resolve_addr_connection_only is_blank trim src h cid cid' :
  src <> SrcClientId -> is_blank h = false ->
  resolve_principal is_blank trim src h cid = resolve_principal is_blank trim src h cid'.
Proof. intros Hs Hb. unfold resolve_principal. destruct src; [congruence| |]; rewrite Hb; reflexivity. Qed.
