(* Proofs about the point-in-time-restore model (C08). *)
From KS Require Import lib.Base lib.PitrWire model.Pitr.
Open Scope Z_scope.

(* ------------------------------------------------------------------ store *)
Lemma key_eqb_eq a b : key_eqb a b = true <-> a = b.
Proof.
  destruct a as [s p b0 i], b as [s' p' b' i']; unfold key_eqb; cbn.
  rewrite !andb_true_iff, !Z.eqb_eq, Bool.eqb_true_iff. split.
  - intros [[[-> ->] ->] ->]. reflexivity.
  - intros H; inversion H; auto.
Qed.

Lemma key_eqb_refl a : key_eqb a a = true.
Proof. now apply key_eqb_eq. Qed.

Definition present (s : store) (k : key) : Prop := s_get s k <> None.

Lemma s_get_del s k k' : s_get (s_del s k) k' = if key_eqb k' k then None else s_get s k'.
Proof.
  induction s as [|[k0 v] s IH]; cbn.
  - now destruct (key_eqb k' k).
  - destruct (key_eqb k k0) eqn:E.
    + apply key_eqb_eq in E; subst k0. rewrite IH. now destruct (key_eqb k' k).
    + cbn. rewrite IH. destruct (key_eqb k' k0) eqn:E2; [|reflexivity].
      apply key_eqb_eq in E2; subst k0. destruct (key_eqb k' k) eqn:E3; [|reflexivity].
      apply key_eqb_eq in E3; subst. rewrite key_eqb_refl in E. discriminate.
Qed.

Lemma s_get_app s1 s2 k : s_get (s1 ++ s2) k = match s_get s1 k with Some v => Some v | None => s_get s2 k end.
Proof. induction s1 as [|[k0 v] s1 IH]; cbn; [reflexivity|]. now destruct (key_eqb k k0). Qed.

Lemma s_get_put s k v k' : s_get (s_put s k v) k' = if key_eqb k' k then Some v else s_get s k'.
Proof.
  unfold s_put. rewrite s_get_app, s_get_del. cbn.
  destruct (key_eqb k' k); [reflexivity|]. now destruct (s_get s k').
Qed.

(* --------------------------------------------- calls that do not write *)
Lemma tick_objs w : w_objs (snd (tick w)) = w_objs w /\ w_delfail (snd (tick w)) = w_delfail w.
Proof. unfold tick. destruct (w_faults w); cbn; auto. Qed.

Lemma w_get_same w k r : w_objs (snd (w_get w k r)) = w_objs w /\ w_delfail (snd (w_get w k r)) = w_delfail w.
Proof.
  unfold w_get. pose proof (tick_objs w) as H. destruct (tick w) as [f w1]; cbn in H.
  destruct f; cbn [fst snd]; [assumption|].
  destruct (s_get (w_objs w1) k); cbn [fst snd]; [|assumption].
  destruct r as [[st en]|]; cbn [fst snd]; [|assumption].
  match goal with |- context [if (?a || ?b) then _ else _] => destruct (a || b) end; cbn; assumption.
Qed.

Lemma w_list_same w sp : w_objs (snd (w_list w sp)) = w_objs w /\ w_delfail (snd (w_list w sp)) = w_delfail w.
Proof.
  unfold w_list. pose proof (tick_objs w) as H. destruct (tick w) as [f w1]; cbn in H.
  destruct f; cbn; assumption.
Qed.

Lemma inspect_same w k sz : w_objs (snd (inspect w k sz)) = w_objs w /\ w_delfail (snd (inspect w k sz)) = w_delfail w.
Proof.
  unfold inspect. destruct (sz <? 16); cbn [fst snd]; [auto|].
  pose proof (w_get_same w k (Some (0, 31))) as H1.
  destruct (w_get w k (Some (0, 31))) as [r1 w1]; cbn in H1.
  destruct r1 as [hb|]; cbn [fst snd]; [|assumption].
  destruct (zlen hb <? 32); cbn [fst snd]; [assumption|].
  destruct (negb (bytes_eqb (firstn 4 hb) magic_kafs)); cbn [fst snd]; [assumption|].
  pose proof (w_get_same w1 k (Some (sz - 16, sz - 1))) as H2.
  destruct (w_get w1 k (Some (sz - 16, sz - 1))) as [r2 w2]; cbn in H2.
  assert (w_objs w2 = w_objs w /\ w_delfail w2 = w_delfail w) as H by (destruct H1, H2; split; congruence).
  destruct r2 as [fb|]; cbn [fst snd]; [|assumption].
  destruct (zlen fb <? 16); cbn [fst snd]; [assumption|].
  destruct (negb (bytes_eqb (slice 12 4 fb) magic_end)); cbn; assumption.
Qed.

Lemma inspect_all_same objs : forall w,
  w_objs (snd (inspect_all w objs)) = w_objs w /\ w_delfail (snd (inspect_all w objs)) = w_delfail w.
Proof.
  induction objs as [|[k sz] objs IH]; intros w; cbn [inspect_all fst snd]; [auto|].
  destruct (k_idx k); [apply IH|].
  pose proof (inspect_same w k sz) as H1. destruct (inspect w k sz) as [r w1]; cbn in H1.
  destruct r as [g|]; cbn [fst snd]; [|assumption].
  pose proof (IH w1) as H2. destruct (inspect_all w1 objs) as [r2 w2]; cbn in H2.
  assert (w_objs w2 = w_objs w /\ w_delfail w2 = w_delfail w) as H by (destruct H1, H2; split; congruence).
  destruct r2; cbn; assumption.
Qed.

(* ------------------------------------------------------------ the copy loop *)
Section Rollback.
Variable crc : bytes -> Z.

(* every object under the target prefix either existed at the start or is one of
   the copies recorded for rollback *)
Definition inv (s0 : store) (w : world) (copied : list (Z * Z)) : Prop :=
  forall k, k_space k = 1 -> present (w_objs w) k -> present s0 k \/ In (k_part k, k_base k) copied.

Lemma inv_same s0 w w' c : w_objs w' = w_objs w -> inv s0 w c -> inv s0 w' c.
Proof. unfold inv. intros -> H. exact H. Qed.

Lemma inv_more s0 w c x : inv s0 w c -> inv s0 w (x :: c).
Proof. unfold inv. intros H k Hk Hp. destruct (H k Hk Hp); [left|right; right]; assumption. Qed.

Lemma w_put_inv s0 w k v c : k_space k = 1 -> inv s0 w c ->
  inv s0 (snd (w_put w k v)) ((k_part k, k_base k) :: c) /\ w_delfail (snd (w_put w k v)) = w_delfail w /\
  (fst (w_put w k v) = false -> w_objs (snd (w_put w k v)) = w_objs w).
Proof.
  intros Hk Hi. unfold w_put. pose proof (tick_objs w) as [H1 H2]. destruct (tick w) as [f w1]; cbn in H1, H2.
  destruct f; cbn [fst snd].
  - split; [|split; [assumption|auto]]. apply inv_more. eapply inv_same; eauto.
  - split; [|split; [assumption|discriminate]].
    intros k' Hk' Hp. unfold present in Hp. cbn in Hp. rewrite s_get_put in Hp.
    destruct (key_eqb k' k) eqn:E.
    + apply key_eqb_eq in E; subst. right; left; reflexivity.
    + rewrite H1 in Hp. destruct (Hi k' Hk' Hp); [left|right; right]; assumption.
Qed.

Lemma copy_loop_inv s0 p lc T : forall segs w i copied n last ok w' copied' n' last',
  copy_loop crc w p segs i lc T copied n last = (ok, w', copied', n', last') ->
  inv s0 w copied -> inv s0 w' copied' /\ w_delfail w' = w_delfail w.
Proof.
  induction segs as [|g segs IH]; intros w i copied n last ok w' copied' n' last' H Hi; cbn [copy_loop] in H.
  - inversion H; subst; auto.
  - destruct (lc <? i)%nat; [inversion H; subst; auto|].
    pose proof (w_get_same w (seg_key 0 p (g_base g)) None) as [A1 A2].
    destruct (w_get w (seg_key 0 p (g_base g)) None) as [r1 w1]; cbn in A1, A2.
    destruct r1 as [sb|]; [|inversion H; subst; split; [eapply inv_same; eauto|assumption]].
    pose proof (w_get_same w1 (idx_key 0 p (g_base g)) None) as [B1 B2].
    destruct (w_get w1 (idx_key 0 p (g_base g)) None) as [r2 w2]; cbn in B1, B2.
    assert (inv s0 w2 copied) as Hi2 by (eapply inv_same; [|exact Hi]; congruence).
    assert (w_delfail w2 = w_delfail w) as D2 by congruence.
    destruct r2 as [ib|]; [|inversion H; subst; auto].
    destruct (if (i =? lc)%nat then build_plan crc sb ib T (g_created g)
              else Ok (Some (mkArt sb ib (g_base g) (g_last g)))) as [[a|]|];
      [|inversion H; subst; auto|inversion H; subst; auto].
    pose proof (w_put_inv s0 w2 (seg_key 1 p (a_base a)) (a_seg a) copied eq_refl Hi2) as (C1 & C2 & C3).
    destruct (w_put w2 (seg_key 1 p (a_base a)) (a_seg a)) as [ok3 w3]; cbn in C1, C2, C3.
    destruct ok3; cbn in H.
    + pose proof (w_put_inv s0 w3 (idx_key 1 p (a_base a)) (a_idx a) _ eq_refl C1) as (E1 & E2 & E3).
      destruct (w_put w3 (idx_key 1 p (a_base a)) (a_idx a)) as [ok4 w4]; cbn in E1, E2, E3.
      assert (inv s0 w4 ((p, a_base a) :: copied)) as Hi4.
      { intros k Hk Hp. destruct (E1 k Hk Hp) as [|[Hx|Hx]]; auto. right. rewrite <- Hx. now left. }
      destruct ok4; cbn in H.
      * apply IH in H; [|exact Hi4]. destruct H as [H1 H2]. split; [assumption|congruence].
      * inversion H; subst. split; [assumption|congruence].
    + inversion H; subst. split; [|congruence]. eapply inv_same; [|exact Hi2]. now apply C3.
Qed.

Lemma copy_parts_inv s0 all T : forall parts w copied summ ok w' copied' summ',
  copy_parts crc w parts all T copied summ = (ok, w', copied', summ') ->
  inv s0 w copied -> inv s0 w' copied' /\ w_delfail w' = w_delfail w.
Proof.
  induction parts as [|p parts IH]; intros w copied summ ok w' copied' summ' H Hi; cbn [copy_parts] in H.
  - inversion H; subst; auto.
  - destruct (copy_loop crc w p _ 0 _ T copied 0 (-1)) as [[[[ok1 w1] c1] n1] l1] eqn:E.
    apply (copy_loop_inv s0) in E; [|exact Hi]. destruct E as [E1 E2].
    destruct ok1.
    + apply IH in H; [|exact E1]. destruct H; split; [assumption|congruence].
    + inversion H; subst; auto.
Qed.

(* ------------------------------------------------------------------ rollback *)
Lemma w_del_spec w k : let w' := w_del w k in
  (w_delfail w' = false -> w_delfail w = false /\ w_objs w' = s_del (w_objs w) k) /\
  (forall k', present (w_objs w') k' -> present (w_objs w) k').
Proof.
  unfold w_del. pose proof (tick_objs w) as [H1 H2]. destruct (tick w) as [f w1]; cbn in H1, H2.
  destruct f; cbn [fst snd].
  - split; [discriminate|]. intros k'. now rewrite H1.
  - split; [intros H; split; [now rewrite <- H2|now rewrite H1]|].
    intros k'. unfold present. cbn. rewrite s_get_del, H1. destruct (key_eqb k' k); [congruence|auto].
Qed.

Lemma rollback_spec : forall copied w,
  w_delfail (rollback w copied) = false ->
  w_delfail w = false /\
  forall k, k_space k = 1 -> present (w_objs (rollback w copied)) k ->
            present (w_objs w) k /\ ~ In (k_part k, k_base k) copied.
Proof.
  induction copied as [|[p b] copied IH]; intros w H; cbn in *.
  - split; [assumption|]. intros k _ Hp. split; [assumption|tauto].
  - apply IH in H as [H1 H2].
    pose proof (w_del_spec (w_del w (idx_key 1 p b)) (seg_key 1 p b)) as [A1 A2]. cbn zeta in A1, A2.
    apply A1 in H1 as [H1 O2].
    pose proof (w_del_spec w (idx_key 1 p b)) as [B1 B2]. cbn zeta in B1, B2.
    apply B1 in H1 as [H1 O1].
    split; [assumption|]. intros k Hk Hp. apply H2 in Hp as [Hp Hn]; [|assumption].
    split; [apply B2, A2; assumption|].
    intros [Hx|Hx]; [|contradiction].
    inversion Hx; subst p b. unfold present in Hp. rewrite O2, s_get_del, O1, s_get_del in Hp.
    destruct k as [s kp kb [|]]; cbn in Hk; subst s; unfold seg_key, idx_key in Hp; cbn in Hp.
    + rewrite (proj2 (key_eqb_eq (mkKey 1 kp kb true) (mkKey 1 kp kb true)) eq_refl) in Hp.
      destruct (key_eqb (mkKey 1 kp kb true) (mkKey 1 kp kb false)); congruence.
    + rewrite (proj2 (key_eqb_eq (mkKey 1 kp kb false) (mkKey 1 kp kb false)) eq_refl) in Hp. congruence.
Qed.

(* a failed restore leaves no object under the target prefix that did not exist
   before, unless a delete failed -- for every store, cutoff, partition list and
   fault sequence *)
Theorem restore_rollback : forall s0 faults T parts w',
  restore crc (mkW s0 faults false) T parts = (Err, w') ->
  w_delfail w' = false ->
  forall k, k_space k = 1 -> present (w_objs w') k -> present s0 k.
Proof.
  intros s0 faults T parts w' H Hd k Hk Hp. unfold restore in H.
  set (w := mkW s0 faults false) in *.
  pose proof (w_list_same w 1) as [A1 A2]. destruct (w_list w 1) as [r0 w0]; cbn in A1, A2.
  destruct r0 as [existing|]; [|injection H as Hw; subst w'; rewrite A1 in Hp; exact Hp].
  destruct (existsb _ existing); [injection H as Hw; subst w'; rewrite A1 in Hp; exact Hp|].
  pose proof (w_list_same w0 0) as [B1 B2]. destruct (w_list w0 0) as [r1 w1]; cbn in B1, B2.
  destruct r1 as [objs|]; [|injection H as Hw; subst w'; rewrite B1, A1 in Hp; exact Hp].
  pose proof (inspect_all_same objs w1) as [C1 C2]. destruct (inspect_all w1 objs) as [r2 w2]; cbn in C1, C2.
  destruct r2 as [all|]; [|injection H as Hw; subst w'; rewrite C1, B1, A1 in Hp; exact Hp].
  match type of H with context [copy_parts crc w2 ?ps ?sel T [] []] =>
    destruct (copy_parts crc w2 ps sel T [] []) as [[[ok w3] copied] summ] eqn:E end.
  apply (copy_parts_inv s0) in E.
  - destruct E as [E1 E2]. destruct ok; [discriminate|]. injection H as Hw; subst w'.
    apply rollback_spec in Hd as [_ Hd]. apply Hd in Hp as [Hp Hn]; [|assumption].
    destruct (E1 k Hk Hp); [assumption|contradiction].
  - intros k' Hk' Hp'. left. rewrite C1, B1, A1 in Hp'. exact Hp'.
Qed.

End Rollback.
