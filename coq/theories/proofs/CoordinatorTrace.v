(* Trace-level consequences of the coordinator invariants: the multi-step forms of the
   C12/C14 stability lemmas and "lastHeartbeat = time of the last accepted refresh" (C43). *)
From Coq Require Import Permutation ZifyBool.
From KS Require Import lib.Base model.Coordinator proofs.CoordinatorBase proofs.CoordinatorProofs.
Open Scope Z_scope.

(* ================= multi-step forms (C12, C14) ================= *)
Lemma stable_same_trans g1 g2 g3 : stable_same g1 g2 -> stable_same g2 g3 -> stable_same g1 g3.
Proof.
  intros [A1 [A2 A3]] [B1 [B2 B3]]. split; [exact B1|]. split; [congruence|].
  intros id Hin. rewrite B3; [now apply A3|]. rewrite keys_subs, A2, <- keys_subs. exact Hin.
Qed.

Lemma alive_all_tail E s o h : alive_all E s (o :: h) -> alive_all E (fst (step E s o)) h.
Proof. intros [_ H]. exact H. Qed.

Lemma c12_same_generation E s h n0 n1 g g' :
  inv E s -> alive_all E s h -> cur s n0 = Some g -> g_phase g = PStable ->
  cur (run_from E s h) n1 = Some g' -> g_gen g' = g_gen g -> stable_same g g'.
Proof.
  revert s g n0; induction h as [|o h IH]; intros s g n0 Hinv Hal Hc Hst Hc' Hgen; cbn in Hc'.
  - apply stable_same_of_view; [exact Hst|]. eapply cur_same_view; eauto.
  - destruct Hal as [[n [g1 Hc1]] Hal].
    pose proof (step_inv E s o Hinv) as Hinv1.
    pose proof (c13_generation_monotone_step E s o n0 n g g1 Hinv Hc Hc1) as Hm1.
    pose proof (c13_generation_monotone E _ h n n1 g1 g' Hinv1 Hal Hc1 Hc') as Hm2.
    assert (g_gen g1 = g_gen g) as Hg1 by lia.
    pose proof (c12_step_same_generation E s o n0 n g g1 Hinv Hc Hst Hc1 Hg1) as Hs1.
    eapply stable_same_trans; [exact Hs1|].
    eapply (IH _ g1 n); eauto. destruct Hs1 as [P _]. exact P. lia.
Qed.

Lemma c14_sync_whole_generation E s h n0 now g g' mid :
  inv E s -> alive_all E s h -> cur s n0 = Some g -> g_phase g = PStable -> In mid (keys g) ->
  cur (run_from E s h) now = Some g' -> g_gen g' = g_gen g ->
  exists s' a g2, step E (run_from E s h) (Sync mid (g_gen g) now) = (s', RSync NONE a) /\
                  s_mem s' = Some g2 /\ g_phase g2 = PStable /\ g_gen g2 = g_gen g /\
                  a = assignment_of g mid.
Proof.
  intros Hinv Hal Hc Hst Hin Hc' Hgen.
  pose proof (c12_same_generation E s h n0 now g g' Hinv Hal Hc Hst Hc' Hgen) as [P1 [P2 P3]].
  pose proof (run_from_inv E s h Hinv) as Hinv'.
  assert (In mid (keys g')) as Hin' by (rewrite keys_subs, P2, <- keys_subs; exact Hin).
  destruct (c14_sync_after_leader_sync E _ mid now g' Hinv' Hc' Hin' (or_introl P1)) as [s' [a [g2 [Heq [Hm2 [Hp2 Hg2]]]]]].
  rewrite Hgen in Heq. exists s', a, g2. split; [exact Heq|]. split; [exact Hm2|]. split; [exact Hp2|]. split; [lia|].
  destruct (sync_success_state E _ mid (g_gen g) now s' a Hinv' Heq) as [g3 [Hm3 [Hw3 [_ [_ [_ [_ Ha3]]]]]]].
  (* the reply is assign_for over the unchanged subscriptions *)
  rewrite Hm2 in Hm3. inversion Hm3; subst g3.
  unfold cur in Hc'. destruct (load_spec E _ now Hinv') as [[Hn _]|[g0 [Hl0 [Hwf' _]]]]; [congruence|].
  rewrite Hc' in Hl0. inversion Hl0; subst g0.
  pose proof (sync_g_spec E g' mid (g_gen g) Hwf') as Hsp. cbn [step] in Heq. rewrite Hc' in Heq.
  destruct (sync_g E g' mid (g_gen g)) as [gx r|gx r|r]; cbn in Hsp, Heq; try contradiction.
  - destruct r; try contradiction. inversion Heq; subst. destruct Hsp as [_ [Hne _]]. congruence.
  - destruct r; try contradiction. destruct Hsp as [_ [_ [_ [_ [_ [_ [_ [_ [_ [_ [Ha2 [Hsame _]]]]]]]]]]]].
    pose proof (Hsame P1) as Hgx. subst gx. assert (a = assignment_of g' mid) as Haa by congruence. rewrite Haa. now apply P3.
Qed.

(* ================= lastHeartbeat = time of the last accepted refresh (C43) ================= *)
Definition hb_of (g : group) (k : Z) : option Z := option_map m_hb (alookup k (g_members g)).

Lemma hb_reset ms k : option_map m_hb (alookup k (reset_joingen ms)) = option_map m_hb (alookup k ms).
Proof.
  unfold reset_joingen. rewrite (alookup_map_entry (fun e : Z * member => (fst e, mkMember (m_topics (snd e)) (m_session (snd e)) (m_hb (snd e)) 0))) by reflexivity.
  destruct (alookup k ms); reflexivity.
Qed.

Lemma hb_set_joingen id gen ms k : option_map m_hb (alookup k (set_joingen id gen ms)) = option_map m_hb (alookup k ms).
Proof.
  unfold set_joingen. destruct (alookup id ms) as [m|] eqn:El; [|reflexivity].
  destruct (Z.eq_dec k id) as [->|Hn].
  - rewrite alookup_aset_same, El. reflexivity.
  - now rewrite alookup_aset_other.
Qed.

Lemma alookup_filter_sub {V} (f : Z * V -> bool) l k v :
  NoDup (akeys l) -> alookup k (filter f l) = Some v -> alookup k l = Some v.
Proof.
  intros Hd H. apply alookup_In in H. apply filter_In in H as [H _]. now apply In_alookup.
Qed.

Lemma start_rebalance_members timeout now g :
  g_members g <> [] -> g_members (start_rebalance timeout now g) = reset_joingen (g_members g).
Proof.
  intros Hne. unfold start_rebalance. destruct (g_members g) as [|e ms] eqn:Em; [congruence|].
  match goal with |- g_members (ensure_leader ?G) = _ => destruct (ensure_leader_fields G) as [_ [_ [F3 _]]]; rewrite F3 end.
  reflexivity.
Qed.

Lemma join_tail_members g3 id : exists g5 r, join_tail g3 id = Save g5 r /\ g_members g5 = g_members g3.
Proof.
  unfold join_tail.
  set (g4 := match g_leader g3 with None => ensure_leader g3 | Some _ => g3 end).
  assert (g_members g4 = g_members g3) as H4.
  { unfold g4. destruct (g_leader g3); [reflexivity|]. apply (ensure_leader_fields g3). }
  destruct (phase_eqb (g_phase g4) PStable || phase_eqb (g_phase g4) PCompleting).
  - eexists _, _. split; [reflexivity|exact H4].
  - unfold complete_if_ready. destruct (g_members g4) eqn:Em.
    + eexists _, _. split; [reflexivity|]. congruence.
    + destruct (all_joined g4); eexists _, _; (split; [reflexivity|]); cbn; congruence.
Qed.

Lemma join_g_members g mid fresh sess reb topics now :
  let id := join_id g mid fresh in
  let m0 := match alookup mid (g_members g) with Some m => m | None => mkMember [] 0 0 0 end in
  let session := if sess >? 0 then sess else if m_session m0 =? 0 then default_session else m_session m0 in
  let M1 := aset id (mkMember topics session now (m_joingen m0)) (g_members g) in
  exists g5 r gen2 (b : bool), join_g g mid fresh sess reb topics now = Save g5 r /\
    g_members g5 = set_joingen id gen2 (if b then reset_joingen M1 else M1).
Proof.
  cbn zeta. rewrite join_g_unfold. cbn zeta. fold (join_id g mid fresh).
  set (id := join_id g mid fresh).
  set (m0 := match alookup mid (g_members g) with Some m => m | None => mkMember [] 0 0 0 end).
  set (session := if sess >? 0 then sess else if m_session m0 =? 0 then default_session else m_session m0).
  set (M1 := aset id (mkMember topics session now (m_joingen m0)) (g_members g)).
  set (g1 := with_members g M1).
  assert (M1 <> []) as Hne by apply aset_nonempty.
  match goal with |- context [join_tail (with_members ?G2 _) _] => set (g2 := G2) end.
  assert (exists b : bool, g_members g2 = if b then reset_joingen M1 else M1) as [b Hb].
  { unfold g2. repeat match goal with |- context [if ?c then _ else _] => destruct c end;
      try (exists true; rewrite start_rebalance_members by exact Hne; reflexivity);
      try (exists false; reflexivity). }
  destruct (join_tail_members (with_members g2 (set_joingen id (g_gen g2) (g_members g2))) id) as [g5 [r [Heq Hm]]].
  exists g5, r, (g_gen g2), b. split; [exact Heq|]. rewrite Hm. cbn [with_members g_members]. now rewrite Hb.
Qed.

Lemma join_g_hb g mid fresh sess reb topics now g5 r k :
  join_g g mid fresh sess reb topics now = Save g5 r ->
  hb_of g5 k = if join_id g mid fresh =? k then Some now else hb_of g k.
Proof.
  intros H. destruct (join_g_members g mid fresh sess reb topics now) as [g5' [r' [gen2 [b [Heq Hm]]]]].
  rewrite H in Heq. inversion Heq; subst g5' r'. unfold hb_of. rewrite Hm, hb_set_joingen.
  assert (forall M, option_map m_hb (alookup k (if b then reset_joingen M else M)) = option_map m_hb (alookup k M)) as Hb.
  { intros M. destruct b; [apply hb_reset|reflexivity]. }
  rewrite Hb. destruct (join_id g mid fresh =? k) eqn:Ek.
  - assert (join_id g mid fresh = k) by lia. subst k. now rewrite alookup_aset_same.
  - rewrite alookup_aset_other by lia. reflexivity.
Qed.

(* every view of a state shows the lastHeartbeat values that are in the store *)
Definition phb (pg : pgroup) (k : Z) : option Z := option_map pm_hb (alookup k (pg_members pg)).

Lemma phb_pview E g k : phb (pview E g) k = hb_of g k.
Proof.
  rewrite pview_eq. unfold phb, hb_of. cbn [pg_members].
  rewrite (alookup_map_entry (pentry (e_keep E) g)) by reflexivity.
  destruct (alookup k (g_members g)); reflexivity.
Qed.

Lemma cur_phb E s n g :
  inv E s -> cur s n = Some g -> exists pg, s_store s = Some pg /\ forall k, hb_of g k = phb pg k.
Proof.
  intros Hinv Hc. unfold cur, load in Hc. unfold inv in Hinv.
  destruct (s_store s) as [pg|] eqn:Es.
  - destruct Hinv as [g0 [Hw0 [Hpg Hmm]]]. exists pg. split; [reflexivity|]. intros k. subst pg.
    rewrite phb_pview. destruct Hmm as [Hm|Hm]; rewrite Hm in Hc.
    + inversion Hc. unfold hb_of. apply (restore_spec E g0 n Hw0).
    + inversion Hc. reflexivity.
  - rewrite Hinv in Hc. discriminate.
Qed.

Lemma cur_hb E s n1 n2 g1 g2 k : inv E s -> cur s n1 = Some g1 -> cur s n2 = Some g2 -> hb_of g1 k = hb_of g2 k.
Proof.
  intros Hinv H1 H2.
  destruct (cur_phb E s n1 g1 Hinv H1) as [a [Sa Ha]]. destruct (cur_phb E s n2 g2 Hinv H2) as [b [Sb Hb]].
  rewrite Ha, Hb. congruence.
Qed.

(* the refresh an operation performs for member k: a JoinGroup that (re)creates k, or a
   Heartbeat of k as a current member in the current generation; nothing else *)
Definition refresh_time (s : st) (o : op) (k t : Z) : Z :=
  match o with
  | Join mid fresh _ _ _ now =>
      if join_id (match load s now with Some g => g | None => new_group end) mid fresh =? k then now else t
  | Heartbeat mid gen now =>
      if (mid =? k) && match load s now with
                       | Some g => amem mid (g_members g) && (gen =? g_gen g)
                       | None => false
                       end
      then now else t
  | _ => t
  end.

Lemma hb_step E s o n0 n1 g g' k t t' :
  inv E s -> cur s n0 = Some g -> hb_of g k = Some t ->
  cur (fst (step E s o)) n1 = Some g' -> hb_of g' k = Some t' ->
  t' = refresh_time s o k t.
Proof.
  intros Hinv Hc Ht Hc' Ht'.
  assert (forall now gl, load s now = Some gl -> hb_of gl k = Some t) as Hview.
  { intros now gl Hl. rewrite <- Ht. symmetry. eapply cur_hb; eauto. }
  assert (forall s1 gm, s_mem s1 = Some gm -> cur s1 n1 = Some g' -> g' = gm) as Hmem.
  { intros s1 gm Hm Hcc. unfold cur, load in Hcc. rewrite Hm in Hcc. congruence. }
  assert (forall now, load s now <> None) as Hsome.
  { intros now Hn. unfold cur in Hc. destruct (load_spec E s n0 Hinv) as [[Hn0 _]|[g0 [Hl0 [_ [Hst0 _]]]]]; [congruence|].
    destruct (load_spec E s now Hinv) as [[_ [_ Hs0]]|[g1 [Hl1 _]]]; congruence. }
  destruct o as [mid fresh sess reb topics now|mid gen now|mid gen now|mid now|mid gen tp p off now|now|]; cbn [step refresh_time] in *.
  - destruct (load_spec E s now Hinv) as [[Hl _]|[gl [Hl [Hwf _]]]]; [exfalso; now apply (Hsome now)|].
    rewrite Hl in *.
    destruct (join_g_spec E gl mid fresh sess reb topics now (or_introl Hwf)) as [g5 [e [ms [Heq [Hw5 _]]]]].
    rewrite Heq in Hc'. cbn in Hc'. rewrite commit_group_eq in Hc' by assumption.
    assert (g' = g5) by (first [now inversion Hc' | eapply Hmem; [|exact Hc']; reflexivity]). subst g5.
    rewrite (join_g_hb _ _ _ _ _ _ _ _ _ k Heq) in Ht'.
    destruct (join_id gl mid fresh =? k); [congruence|]. rewrite (Hview _ _ Hl) in Ht'. congruence.
  - destruct (load_spec E s now Hinv) as [[Hl _]|[gl [Hl [Hwf _]]]]; [exfalso; now apply (Hsome now)|].
    rewrite Hl in Hc'. pose proof (sync_g_spec E gl mid gen Hwf) as Hp.
    destruct (sync_g E gl mid gen) as [g2 r|g2 r|r]; cbn in Hp, Hc'; try contradiction.
    + destruct r; try contradiction. destruct Hp as [-> _].
      assert (g' = gl) by (first [now inversion Hc' | eapply Hmem; [|exact Hc']; reflexivity]). subst.
      rewrite (Hview _ _ Hl) in Ht'. congruence.
    + destruct r; try contradiction. destruct Hp as [Hw2 [_ [_ [_ [_ [_ [_ [Hm2 _]]]]]]]].
      rewrite commit_group_eq in Hc' by assumption.
      assert (g' = g2) by (first [now inversion Hc' | eapply Hmem; [|exact Hc']; reflexivity]). subst.
      unfold hb_of in Ht'. rewrite Hm2 in Ht'. fold (hb_of gl k) in Ht'. rewrite (Hview _ _ Hl) in Ht'. congruence.
  - destruct (load_spec E s now Hinv) as [[Hl _]|[gl [Hl [Hwf _]]]]; [exfalso; now apply (Hsome now)|].
    rewrite Hl in *. pose proof (heartbeat_g_spec E gl mid gen now Hwf) as Hp.
    unfold heartbeat_g in *. unfold amem.
    destruct (alookup mid (g_members gl)) as [m|] eqn:El.
    + destruct (gen =? g_gen gl) eqn:Eg; cbn [negb andb] in *.
      * cbn in Hp. destruct Hp as [Hw2 _]. cbn in Hc'. rewrite commit_group_eq in Hc' by assumption.
        match type of Hc' with cur (mkSt (Some ?G) _ _) _ = _ => assert (g' = G) by (first [now inversion Hc' | eapply Hmem; [|exact Hc']; reflexivity]) end.
        subst g'. unfold hb_of in Ht'. cbn [with_members g_members] in Ht'.
        destruct (mid =? k) eqn:Ek.
        -- assert (mid = k) by lia. subst k. rewrite alookup_aset_same in Ht'. cbn in Ht'. cbn [andb]. congruence.
        -- rewrite alookup_aset_other in Ht' by lia. fold (hb_of gl k) in Ht'. rewrite (Hview _ _ Hl) in Ht'. cbn [andb]. congruence.
      * rewrite andb_false_r. cbn in Hc'.
        assert (g' = gl) by (first [now inversion Hc' | eapply Hmem; [|exact Hc']; reflexivity]). subst.
        rewrite (Hview _ _ Hl) in Ht'. congruence.
    + rewrite andb_false_r. cbn in Hc'.
      assert (g' = gl) by (first [now inversion Hc' | eapply Hmem; [|exact Hc']; reflexivity]). subst.
      rewrite (Hview _ _ Hl) in Ht'. congruence.
  - destruct (load_spec E s now Hinv) as [[Hl _]|[gl [Hl [Hwf _]]]]; [exfalso; now apply (Hsome now)|].
    rewrite Hl in Hc'. pose proof (leave_g_spec E gl mid now Hwf) as Hp. unfold leave_g in *.
    destruct (amem mid (g_members gl)) eqn:Em; cbn [negb] in *.
    2:{ cbn in Hc'. assert (g' = gl) by (first [now inversion Hc' | eapply Hmem; [|exact Hc']; reflexivity]). subst.
        rewrite (Hview _ _ Hl) in Ht'. congruence. }
    cbn [g_members g_leader] in *.
    destruct (aremove mid (g_members gl)) as [|e0 r0] eqn:Er.
    + unfold cur, load in Hc'. cbn in Hc'. discriminate.
    + rewrite <- Er in *. cbn in Hp. destruct Hp as [Hw2 _]. cbn in Hc'. rewrite commit_group_eq in Hc' by assumption.
      match type of Hc' with cur (mkSt (Some ?G) _ _) _ = _ => assert (g' = G) by (first [now inversion Hc' | eapply Hmem; [|exact Hc']; reflexivity]) end.
      subst g'. unfold hb_of in Ht'. rewrite start_rebalance_members in Ht'.
      2:{ destruct (opt_z_eqb (g_leader gl) (Some mid)); cbn; rewrite Er; discriminate. }
      rewrite hb_reset in Ht'.
      assert (forall gx, g_members (if opt_z_eqb (g_leader gl) (Some mid) then with_leader gx None else gx) = g_members gx) as Hmm
        by (intros gx; destruct (opt_z_eqb (g_leader gl) (Some mid)); reflexivity).
      rewrite Hmm in Ht'. cbn [g_members] in Ht'.
      destruct (alookup k (aremove mid (g_members gl))) as [m'|] eqn:Elk; [|discriminate].
      apply alookup_filter_sub in Elk; [|apply (wf_nodup E gl Hwf)].
      pose proof (Hview _ _ Hl) as Hv. unfold hb_of in Hv. rewrite Elk in Hv. cbn in *. congruence.
  - destruct (load_spec E s now Hinv) as [[Hl _]|[gl [Hl [Hwf _]]]]; [exfalso; now apply (Hsome now)|].
    rewrite Hl in Hc'. cbn in Hc'.
    assert (g' = gl) by (first [now inversion Hc' | eapply Hmem; [|exact Hc']; reflexivity]). subst.
    rewrite (Hview _ _ Hl) in Ht'. congruence.
  - destruct (s_mem s) as [gm|] eqn:Hm.
    + assert (load s now = Some gm) as Hl by (unfold load; now rewrite Hm).
      destruct (load_spec E s now Hinv) as [[Hn _]|[g0 [Hl0 [Hwf _]]]]; [congruence|].
      rewrite Hl in Hl0. inversion Hl0; subst g0.
      pose proof (cleanup_g_spec E gm now Hwf) as Hp.
      destruct (cleanup_g gm now) as [[g2 r|g2 r|r]|]; cbn in Hp, Hc'.
      * contradiction.
      * destruct Hp as [_ [Hw2 [_ [_ Hm2]]]]. rewrite commit_group_eq in Hc' by assumption.
        assert (g' = g2) by (first [now inversion Hc' | eapply Hmem; [|exact Hc']; reflexivity]). subst.
        unfold hb_of in Ht'. rewrite Hm2, hb_reset in Ht'.
        destruct (alookup k (filter _ (g_members gm))) as [m'|] eqn:Elk; [|discriminate].
        apply alookup_filter_sub in Elk; [|apply (wf_nodup E gm Hwf)].
        pose proof (Hview _ _ Hl) as Hv. unfold hb_of in Hv. rewrite Elk in Hv. cbn in *. congruence.
      * unfold cur, load in Hc'. cbn in Hc'. discriminate.
      * assert (g' = gm) by (first [now inversion Hc' | eapply Hmem; [exact Hm|exact Hc']]). subst.
        rewrite (Hview _ _ Hl) in Ht'. congruence.
    + cbn in Hc'. rewrite (cur_hb E s n1 n0 g' g k Hinv Hc' Hc) in Ht'. congruence.
  - (* Failover *)
    destruct (cur_phb E s n0 g Hinv Hc) as [pg [Sp Hp]].
    pose proof (step_inv E s Failover Hinv) as Hinv'. cbn [step fst] in Hinv'.
    destruct (cur_phb E _ n1 g' Hinv' Hc') as [pg' [Sp' Hp']]. cbn in Sp'.
    rewrite Hp in Ht. rewrite Hp' in Ht'. congruence.
Qed.

(* trace level: lastHeartbeat of a member is the time of its last accepted refresh *)
Fixpoint last_refresh (E : env) (s : st) (h : list op) (k t : Z) : Z :=
  match h with
  | [] => t
  | o :: h' => last_refresh E (fst (step E s o)) h' k (refresh_time s o k t)
  end.

Fixpoint member_all (E : env) (s : st) (h : list op) (k : Z) : Prop :=
  match h with
  | [] => True
  | o :: h' => (exists n g, cur (fst (step E s o)) n = Some g /\ In k (keys g)) /\
               member_all E (fst (step E s o)) h' k
  end.

Lemma hb_of_member g k : In k (keys g) -> exists t, hb_of g k = Some t.
Proof.
  intros H. apply amem_In in H. unfold amem in H. unfold hb_of.
  destruct (alookup k (g_members g)); [eexists; reflexivity|discriminate].
Qed.

Lemma c43_lasthb_is_last_refresh E s h k n0 n1 g g' t t' :
  inv E s -> member_all E s h k -> cur s n0 = Some g -> hb_of g k = Some t ->
  cur (run_from E s h) n1 = Some g' -> hb_of g' k = Some t' ->
  t' = last_refresh E s h k t.
Proof.
  revert s g n0 t; induction h as [|o h IH]; intros s g n0 t Hinv Hal Hc Ht Hc' Ht'; cbn in *.
  - rewrite (cur_hb E s n1 n0 g' g k Hinv Hc' Hc) in Ht'. congruence.
  - destruct Hal as [[n [g1 [Hc1 Hin1]]] Hal].
    destruct (hb_of_member g1 k Hin1) as [t1 Ht1].
    pose proof (hb_step E s o n0 n g g1 k t t1 Hinv Hc Ht Hc1 Ht1) as Hs. subst t1.
    eapply (IH _ g1 n); eauto. now apply step_inv.
Qed.

(* ================= liveness data across failover (C15 / C43) ================= *)
Lemma restore_deadline pg now :
  g_deadline (restore pg now) =
  match pg_phase pg with
  | PPreparing | PCompleting => Some (now + (if pg_rebto pg >? 0 then pg_rebto pg else default_rebalance))
  | _ => None
  end.
Proof.
  unfold restore.
  match goal with |- g_deadline (ensure_leader ?G) = _ => destruct (ensure_leader_fields G) as [_ [_ [_ [_ [_ F6]]]]]; rewrite F6 end.
  reflexivity.
Qed.

Definition sess_of (g : group) (k : Z) : option Z := option_map m_session (alookup k (g_members g)).

Lemma cur_persisted E s n g :
  inv E s -> cur s n = Some g ->
  exists g0, wf E g0 /\ s_store s = Some (pview E g0) /\ g_phase g = g_phase g0 /\
             (forall k, hb_of g k = hb_of g0 k) /\
             (e_keep E = true -> forall k, sess_of g k = sess_of g0 k).
Proof.
  intros Hinv Hc. unfold cur, load in Hc. unfold inv in Hinv.
  destruct (s_store s) as [pg|] eqn:Es.
  - destruct Hinv as [g0 [Hw0 [Hpg Hmm]]]. subst pg. exists g0. split; [exact Hw0|]. split; [reflexivity|].
    destruct Hmm as [Hm|Hm]; rewrite Hm in Hc; inversion Hc; subst g.
    + destruct (restore_spec E g0 n Hw0) as [_ [_ [_ [Hp [_ [_ [_ [Hhb Hs]]]]]]]].
      split; [exact Hp|]. split; [intros k; apply Hhb|]. intros Hk k. apply (Hs Hk).
    + auto.
  - rewrite Hinv in Hc. discriminate.
Qed.

(* what the coordinator that takes over knows about a member's liveness: the same
   lastHeartbeat, the same session timeout (when the store keeps timeouts), and for a
   Stable group no rebalance deadline -- so [survives] (the cleanup criterion) gives the
   same verdict before and after the failover *)
Lemma c15_liveness_preserved E s n0 n1 g k m :
  inv E s -> cur s n0 = Some g -> alookup k (g_members g) = Some m ->
  exists g' m', cur (failover s) n1 = Some g' /\ alookup k (g_members g') = Some m' /\
    m_hb m' = m_hb m /\ (e_keep E = true -> m_session m' = m_session m) /\
    (g_phase g = PStable -> g_deadline g' = None) /\
    (e_keep E = true -> g_phase g = PStable -> g_deadline g = None ->
     forall now, survives now g' m' = survives now g m).
Proof.
  intros Hinv Hc Hl.
  destruct (cur_persisted E s n0 g Hinv Hc) as [g0 [Hw0 [Hst [Hph [Hhb Hss]]]]].
  pose proof (failover_inv E s Hinv) as Hinv'.
  assert (cur (failover s) n1 = Some (restore (pview E g0) n1)) as Hc'.
  { unfold cur, load, failover. cbn. now rewrite Hst. }
  destruct (cur_persisted E (failover s) n1 _ Hinv' Hc') as [g1 [Hw1 [Hst1 [Hph1 [Hhb1 Hss1]]]]].
  assert (pview E g1 = pview E g0) as Hpv by (unfold failover in Hst1; cbn in Hst1; congruence).
  set (g' := restore (pview E g0) n1) in *.
  assert (hb_of g' k = hb_of g k) as Hhbk.
  { rewrite Hhb1, Hhb. rewrite <- !phb_pview with (E := E). now rewrite Hpv. }
  unfold hb_of in Hhbk. rewrite Hl in Hhbk. cbn in Hhbk.
  destruct (alookup k (g_members g')) as [m'|] eqn:El'; [|discriminate]. cbn in Hhbk.
  assert (e_keep E = true -> m_session m' = m_session m) as Hsess.
  { intros Hk. destruct (restore_spec E g0 n1 Hw0) as [_ [_ [_ [_ [_ [_ [_ [_ Hs]]]]]]]].
    pose proof (Hs Hk k) as H1. fold g' in H1. rewrite El' in H1.
    pose proof (Hss Hk k) as H2. unfold sess_of in H2. rewrite Hl in H2.
    rewrite <- H2 in H1. cbn in H1. congruence. }
  assert (g_phase g = PStable -> g_deadline g' = None) as Hdl.
  { intros Hs. unfold g'. rewrite restore_deadline. rewrite pview_eq. cbn [pg_phase]. now rewrite <- Hph, Hs. }
  exists g', m'. split; [exact Hc'|]. split; [exact El'|]. split; [congruence|]. split; [exact Hsess|].
  split; [exact Hdl|]. intros Hk Hs Hd now. unfold survives, expired. rewrite (Hdl Hs), Hd, (Hsess Hk).
  assert (m_hb m' = m_hb m) as -> by congruence. reflexivity.
Qed.
