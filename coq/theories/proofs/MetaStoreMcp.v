(* C40: the facts that depend on the regenerated table gen/McpCalls.v (kept apart so a
   change of the MCP tools cannot break the proofs of C16/C17/C22). *)
From KS Require Import lib.Base lib.Strings lib.Paths model.MetaStore gen.McpCalls proofs.MetaStoreProofs.
Open Scope Z_scope.

(* every store method a tool handler can reach (regenerated table) is read-only *)
Lemma mcp_calls_readonly :
  forallb (fun e => forallb readonly_method (snd e)) mcp_calls = true.
Proof. vm_compute. reflexivity. Qed.


Definition tool_allowed (tool : bytes) (m : store_method) : bool :=
  match aget bytes_eqb tool mcp_calls with
  | Some l => existsb (method_eqb m) l
  | None => false
  end.

Lemma method_eqb_eq a b : method_eqb a b = true -> a = b.
Proof. destruct a, b; cbn; intros H; try discriminate; reflexivity. Qed.

Lemma aget_in {V} k (l : list (bytes * V)) v : aget bytes_eqb k l = Some v -> In (k, v) l.
Proof.
  induction l as [|[k' v'] l IH]; cbn; [discriminate|].
  destruct (bytes_eqb k k') eqn:E.
  - apply bytes_eqb_eq in E. intros H. inversion H; subst. now left.
  - intros H. right. now apply IH.
Qed.

Lemma tool_allowed_readonly tool m : tool_allowed tool m = true -> readonly_method m = true.
Proof.
  unfold tool_allowed. destruct (aget bytes_eqb tool mcp_calls) as [l|] eqn:E; [|discriminate].
  intros H. apply existsb_exists in H as (m' & Hin & Hm). apply method_eqb_eq in Hm. subst m'.
  pose proof mcp_calls_readonly as Hall. rewrite forallb_forall in Hall.
  apply aget_in in E. specialize (Hall _ E). cbn [snd] in Hall.
  rewrite forallb_forall in Hall. now apply Hall.
Qed.


(* the regenerated write-action table: every method a tool can reach has an entry, and it
   is empty (no etcd Put/Delete/Txn, no write lock, no field write reachable from
   EtcdStore.<M> or InMemoryStore.<M>) *)
Definition writes_known_empty (m : store_method) : bool :=
  existsb (fun e => method_eqb m (fst e) && match snd e with [] => true | _ => false end) mcp_method_writes.

Lemma mcp_reachable_no_writes :
  forallb (fun e => forallb writes_known_empty (snd e)) mcp_calls = true.
Proof. vm_compute. reflexivity. Qed.
