(* Proofs about model/Checksum.v (C30). *)
From Coq Require Import ZifyBool String.
From KS Require Import lib.Base lib.Strings model.Envelope model.Checksum.
Open Scope Z_scope.

(* What an envelope declares about its blob, written without looking at the code's
   case analysis (props/C30.v repeats these definitions verbatim; the theorems
   there are stated with its own copies and closed by conversion). *)
Definition declared (e : envelope) : decl :=
  match normalize_alg (e_alg e) with
  | None => DInvalid
  | Some ANone => DNothing
  | Some a => if nonempty (e_checksum e) then DDigest a (e_checksum e)
              else if nonempty (e_sha256 e) then DDigest ASha256 (e_sha256 e)
              else DNothing
  end.

Definition digest_ok (digest : alg -> bytes -> bytes) (d : decl) (blob : bytes) : Prop :=
  match d with
  | DInvalid => False
  | DNothing => True
  | DDigest a h => digest a blob = h
  end.

Lemma compute_checksum_real digest a data : a <> ANone -> compute_checksum digest a data = digest a data.
Proof. destruct a; cbn; congruence. Qed.

(* envelope_checksum against [declared] *)
Lemma ecs_declared e :
  match envelope_checksum e with
  | EcsErr => declared e = DInvalid
  | EcsNo _ => declared e = DNothing
  | EcsYes a expected => a <> ANone /\ declared e = DDigest a expected
  end.
Proof.
  unfold envelope_checksum, declared.
  destruct (normalize_alg (e_alg e)) as [[| | |]|]; try reflexivity;
    destruct (nonempty (e_checksum e)); try (split; [discriminate|reflexivity]);
    destruct (nonempty (e_sha256 e)); try (split; [discriminate|reflexivity]); reflexivity.
Qed.

Section Readers.
  Variable digest : alg -> bytes -> bytes.
  Variable unmarshal : bytes -> option envelope.
  Variable fetch : bytes -> fetched.

  Lemma resolver_sound max_size has_s3 value p a expected :
    resolve digest unmarshal fetch max_size true has_s3 value = ROk p a expected ->
    exists env, go_is_envelope value = true /\ decode unmarshal value = Some env /\
                fetch (e_key env) = FOk p /\
                (0 < max_size -> zlen p <= max_size) /\
                digest_ok digest (declared env) p.
  Proof.
    unfold resolve. destruct (go_is_envelope value) eqn:Hg; cbn [negb]; [|discriminate].
    destruct (decode unmarshal value) as [env|] eqn:Hd; [|discriminate].
    destruct has_s3; cbn [negb]; [|discriminate].
    destruct (fetch (e_key env)) as [|payload] eqn:Hf; [discriminate|].
    destruct ((0 <? max_size) && (max_size <? zlen payload)) eqn:Hm; [discriminate|].
    pose proof (ecs_declared env) as Hdecl.
    destruct (envelope_checksum env) as [|a0|a0 ex]; [discriminate| |].
    - intros [= <- _ _]. exists env. repeat split; auto; [lia|]. rewrite Hdecl. exact I.
    - destruct Hdecl as [Hne Hdecl]. cbn [andb].
      destruct (bytes_eqb (compute_checksum digest a0 payload) ex) eqn:Hc; cbn [negb]; [|discriminate].
      intros [= <- _ _]. exists env. repeat split; auto; [lia|]. rewrite Hdecl. cbn.
      apply bytes_eqb_eq in Hc. now rewrite compute_checksum_real in Hc.
  Qed.

  Lemma unwrap_sound value p a expected :
    unwrap digest unmarshal fetch true value = ROk p a expected ->
    exists env, go_is_envelope value = true /\ decode unmarshal value = Some env /\
                fetch (e_key env) = FOk p /\ digest_ok digest (declared env) p.
  Proof.
    unfold unwrap. destruct (go_is_envelope value) eqn:Hg; cbn [negb]; [|discriminate].
    destruct (decode unmarshal value) as [env|] eqn:Hd; [|discriminate].
    destruct (fetch (e_key env)) as [|blob] eqn:Hf; [discriminate|].
    pose proof (ecs_declared env) as Hdecl.
    destruct (envelope_checksum env) as [|a0|a0 ex]; [discriminate| |].
    - intros [= <- _ _]. exists env. repeat split; auto. rewrite Hdecl. exact I.
    - destruct Hdecl as [Hne Hdecl].
      destruct (bytes_eqb (compute_checksum digest a0 blob) ex) eqn:Hc; [|discriminate].
      intros [= <- _ _]. exists env. repeat split; auto. rewrite Hdecl. cbn.
      apply bytes_eqb_eq in Hc. now rewrite compute_checksum_real in Hc.
  Qed.

  (* a value that is not an envelope is passed through unchanged, whatever the storage does *)
  Lemma resolve_passthrough max_size validate has_s3 value :
    go_is_envelope value = false ->
    resolve digest unmarshal fetch max_size validate has_s3 value = RPass value /\
    unwrap digest unmarshal fetch validate value = RPass value.
  Proof. intros H. unfold resolve, unwrap. rewrite H. split; reflexivity. Qed.

  (* ... and only such a value is *)
  Lemma resolve_pass_only max_size validate has_s3 value p :
    resolve digest unmarshal fetch max_size validate has_s3 value = RPass p \/
    unwrap digest unmarshal fetch validate value = RPass p ->
    p = value /\ go_is_envelope value = false.
  Proof.
    unfold resolve, unwrap. destruct (go_is_envelope value); cbn [negb].
    - intros [H|H]; exfalso; revert H;
        destruct (decode unmarshal value) as [env|]; try discriminate;
        try (destruct has_s3; cbn [negb]; try discriminate);
        destruct (fetch (e_key env)); try discriminate;
        try (destruct ((0 <? max_size) && (max_size <? zlen blob)); try discriminate);
        try (destruct validate; cbn [andb]; try discriminate);
        destruct (envelope_checksum env); try discriminate;
        try (destruct (bytes_eqb _ _); cbn [negb]; discriminate).
    - intros [[= <-]|[= <-]]; auto.
  Qed.
End Readers.

(* ---------- download ---------- *)
Lemma takez_len l : forall n, zlen (takez n l) = Z.min (Z.max 0 n) (zlen l).
Proof.
  induction l as [|x l IH]; intros n; cbn [takez].
  - rewrite zlen_nil. lia.
  - destruct (n <=? 0) eqn:E.
    + rewrite zlen_nil, zlen_cons. pose proof (zlen_nonneg l). lia.
    + rewrite !zlen_cons, IH. pose proof (zlen_nonneg l). lia.
Qed.

Lemma takez_all l : forall n, zlen l <= n -> takez n l = l.
Proof.
  induction l as [|x l IH]; intros n H; cbn [takez]; [reflexivity|].
  rewrite zlen_cons in H. pose proof (zlen_nonneg l).
  destruct (n <=? 0) eqn:E; [lia|]. rewrite IH; [reflexivity|lia].
Qed.

Opaque trim_space norm to_lower codes bytes_eqb forallb.

Section Download.
  Variable sha256hex : bytes -> bytes.
  Variable presign_ok : bool.
  Variable get : bytes -> list s3obj.

  Lemma stream_sound key sha size body hdr : 0 < size ->
    stream_download sha256hex get key sha size = DStream body hdr ->
    first_attempt get key = GBody body false /\ sha256hex body = sha /\ zlen body = size /\ hdr = sha.
  Proof.
    intros Hsz. unfold stream_download. destruct (first_attempt get key) as [|data rerr] eqn:Hg; [discriminate|].
    cbv zeta.
    destruct (rerr && (zlen data <? size + 1)) eqn:H1; [discriminate|].
    destruct (size <? zlen (takez (size + 1) data)) eqn:H2; [discriminate|].
    destruct (zlen (takez (size + 1) data) <? size) eqn:H3; [discriminate|].
    destruct (bytes_eqb (sha256hex (takez (size + 1) data)) sha) eqn:H4; cbn [negb]; [|discriminate].
    intros [= <- <-]. apply bytes_eqb_eq in H4.
    pose proof (takez_len data (size + 1)) as Hl.
    assert (zlen data = size) as Hd by lia.
    assert (takez (size + 1) data = data) as Hall.
    { apply takez_all. lia. }
    rewrite Hall in *.
    assert (rerr = false) as ->.
    { destruct rerr; [|reflexivity]. cbn [andb] in H1. lia. }
    split; [reflexivity|]. split; [exact H4|]. split; [exact Hd|exact H4].
  Qed.

  Ltac split_ifs H :=
    repeat match type of H with
           | (if ?c then _ else _) = _ => let E := fresh "E" in destruct c eqn:E; try discriminate H
           end.

  Ltac abstract_mode q :=
    set (mode := if bytes_eqb (norm (q_mode q)) [] then codes "stream"%string else norm (q_mode q)) in *;
    set (pr := bytes_eqb mode (codes "presign"%string)) in *;
    set (st := bytes_eqb mode (codes "stream"%string)) in *;
    clearbody pr st; clear mode.

  Lemma download_sound cfg q body hdr :
    download sha256hex presign_ok get cfg q = DStream body hdr ->
    first_attempt get (trim_space (q_key q)) = GBody body false /\
    sha256hex body = norm (q_sha q) /\
    zlen body = q_size q /\
    hdr = norm (q_sha q) /\
    q_post q = true /\ q_auth q = true /\ q_integrity q = true /\
    trim_space (q_bucket q) = c_bucket cfg /\
    (0 < c_max_blob cfg -> zlen body <= c_max_blob cfg).
  Proof.
    unfold download. cbv zeta. intros H. abstract_mode q.
    Opaque stream_download.
    destruct pr, st; cbn [negb andb orb] in H; split_ifs H.
    Transparent stream_download.
    all: assert (0 < q_size q) as Hpos by (clear H; lia).
    all: apply stream_sound in H; [|exact Hpos].
    all: destruct H as (Hg & Hs & Hl & Hh).
    all: assert (0 < c_max_blob cfg -> q_size q <= c_max_blob cfg) as Hmax by (clear Hg Hs Hh; lia).
    all: repeat split; auto.
    all: try (destruct (q_post q); [reflexivity|discriminate]).
    all: try (destruct (q_auth q); [reflexivity|discriminate]).
    all: try (destruct (q_integrity q); [reflexivity|discriminate]).
    all: try (apply bytes_eqb_eq; destruct (bytes_eqb (trim_space (q_bucket q)) (c_bucket cfg)); [reflexivity|discriminate]).
    all: intros Hm; rewrite Hl; auto.
  Qed.

  (* no object bytes are sent in any other outcome: by the type of [dlresp] only
     DStream carries object bytes; a presign answer echoes the caller's digest *)
  Lemma presign_echo cfg q sha size :
    download sha256hex presign_ok get cfg q = DPresign sha size -> sha = norm (q_sha q) /\ size = q_size q.
  Proof.
    unfold download. cbv zeta. intros H. abstract_mode q.
    Opaque stream_download.
    destruct pr, st; cbn [negb andb orb] in H; split_ifs H.
    Transparent stream_download.
    all: try (now inversion H).
    all: unfold stream_download in H; destruct (first_attempt get (trim_space (q_key q))); [discriminate|];
      cbv zeta in H; split_ifs H.
  Qed.
End Download.
