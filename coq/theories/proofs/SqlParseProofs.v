(* Proofs about the SQL parser model (model/SqlParse.v): crash freedom of every
   slice / index expression once the lowering function preserves the byte length,
   and (second part) independence of the parse from ASCII letter case. *)
From Coq Require Import ZifyBool.
From KS Require Import lib.Base model.SqlParse.
Open Scope Z_scope.

(* ------------------------------------------------------------------ lengths *)
Lemma ascii_lower_length s : length (ascii_lower s) = length s.
Proof. apply map_length. Qed.

Lemma zlen_ascii_lower s : zlen (ascii_lower s) = zlen s.
Proof. unfold zlen. now rewrite ascii_lower_length. Qed.

Lemma trim_go_length len l k : (length (trim_go len l k) <= length l)%nat.
Proof.
  revert k; induction l as [|b r IH]; intros k; cbn [trim_go]; [lia|].
  destruct k as [|k].
  - destruct (len (b :: r)) as [|k'].
    + reflexivity.
    + specialize (IH k'). cbn [length]. lia.
  - specialize (IH k). cbn [length]. lia.
Qed.

Lemma trim_space_length l : (length (trim_space l) <= length l)%nat.
Proof.
  unfold trim_space, trim_right, trim_left. rewrite rev_length.
  pose proof (trim_go_length rsp_len (rev (trim_go sp_len l 0)) 0) as H1.
  rewrite rev_length in H1. pose proof (trim_go_length sp_len l 0). lia.
Qed.

Lemma trim_semi_length l : (length (trim_semi l) <= length l)%nat.
Proof.
  unfold trim_semi. destruct (rev l) as [|b r] eqn:E; [lia|].
  assert (length l = S (length r)) as Hl.
  { rewrite <- (rev_length l), E. reflexivity. }
  destruct b as [|p|p]; try lia.
  repeat (destruct p as [p|p|]; try lia). rewrite rev_length. lia.
Qed.

(* ------------------------------------------------------------------ slices *)
Lemma slice_some s a b : 0 <= a -> a <= b -> b <= zlen s -> exists r, slice s a b = Some r /\ zlen r = b - a.
Proof.
  intros Ha Hab Hb. unfold slice.
  replace ((0 <=? a) && (a <=? b) && (b <=? zlen s)) with true by lia.
  eexists; split; [reflexivity|].
  unfold zlen in *. rewrite firstn_length, skipn_length. lia.
Qed.

Lemma slice_from_some s a : 0 <= a -> a <= zlen s -> exists r, slice_from s a = Some r /\ zlen r = zlen s - a.
Proof. intros. unfold slice_from. apply slice_some; lia. Qed.

Lemma slice_to_some s b : 0 <= b -> b <= zlen s -> exists r, slice_to s b = Some r.
Proof. intros. unfold slice_to. destruct (slice_some s 0 b) as [r [Hr _]]; try lia. eauto. Qed.

Lemma fld_some fs i : 0 <= i -> i < zlen fs -> exists f, fld fs i = Some f.
Proof. intros. unfold fld. replace ((0 <=? i) && (i <? zlen fs)) with true by lia. eauto. Qed.

(* ------------------------------------------------------------------ safety predicate *)
Definition safe {A} (r : res A) : Prop :=
  match r with Panic | NoFuel => False | _ => True end.

Lemma safe_bind {A B} (r : res A) (f : A -> res B) :
  safe r -> (forall a, r = Ok a -> safe (f a)) -> safe (bind r f).
Proof. destruct r; cbn; auto; tauto. Qed.

Lemma safe_idx {A B} (o : option A) (f : A -> res B) :
  (exists a, o = Some a) -> (forall a, o = Some a -> safe (f a)) -> safe (idx o f).
Proof. intros [a ->] H. cbn. auto. Qed.

(* ------------------------------------------------------------------ keywordIndex *)
Lemma match_char_len c l b r : match_char c l = Some (b, r) -> zlen r < zlen l.
Proof.
  unfold match_char. destruct l as [|b0 l]; [discriminate|].
  destruct ((b0 =? c) || ((97 <=? c) && (c <=? 122) && (b0 =? c - 32))).
  { intros H; inversion H; subst. rewrite zlen_cons. lia. }
  destruct ((c =? 115) && (b0 =? 197)).
  { destruct l as [|b2 r2]; [discriminate|]. destruct (b2 =? 191); [|discriminate].
    intros H; inversion H; subst. rewrite !zlen_cons. lia. }
  destruct ((c =? 107) && (b0 =? 226)); [|discriminate].
  destruct l as [|b2 [|b3 r3]]; try discriminate.
  destruct ((b2 =? 132) && (b3 =? 170)); [|discriminate].
  intros H; inversion H; subst. rewrite !zlen_cons. lia.
Qed.

Lemma match_kw_len kw : forall last l last' r,
  match_kw kw last l = Some (last', r) -> zlen kw + zlen r <= zlen l.
Proof.
  induction kw as [|c kw IH]; intros last l last' r H; cbn [match_kw] in H.
  - inversion H; subst. rewrite zlen_nil. lia.
  - destruct (match_char c l) as [[b r0]|] eqn:E; [|discriminate].
    apply match_char_len in E. apply IH in H. rewrite zlen_cons. lia.
Qed.

Lemma kw_here_len kw prev l : kw_here kw prev l = true -> zlen kw <= zlen l.
Proof.
  unfold kw_here. destruct (match_kw kw None l) as [[last r]|] eqn:E; [|discriminate].
  intros _. apply match_kw_len in E. pose proof (zlen_nonneg r). lia.
Qed.

Lemma kw_find_range kw : forall l prev i,
  kw_find kw prev l i = -1 \/ (i <= kw_find kw prev l i /\ kw_find kw prev l i + zlen kw <= i + zlen l).
Proof.
  induction l as [|b r IH]; intros prev i; cbn [kw_find]; [now left|].
  destruct (kw_here kw prev (b :: r)) eqn:E.
  - right. apply kw_here_len in E. lia.
  - destruct (IH (Some b) (i + 1)) as [H|H]; [now left|right]. rewrite zlen_cons. lia.
Qed.

Lemma kw_index_range l kw :
  kw_index l kw = -1 \/ (0 <= kw_index l kw /\ kw_index l kw + zlen kw <= zlen l).
Proof. unfold kw_index. destruct (kw_find_range kw l None 0) as [H|H]; [now left|right; lia]. Qed.

(* the keyword really occurs at the index found *)
Lemma kw_find_here kw : forall l prev i,
  kw_find kw prev l i <> -1 -> 0 <= i ->
  exists p, kw_here kw p (skipn (Z.to_nat (kw_find kw prev l i - i)) l) = true.
Proof.
  induction l as [|b r IH]; intros prev i Hne Hi; cbn [kw_find] in *; [congruence|].
  destruct (kw_here kw prev (b :: r)) eqn:E.
  - exists prev. replace (i - i) with 0 by lia. exact E.
  - destruct (IH (Some b) (i + 1) Hne ltac:(lia)) as [p Hp]. exists p.
    destruct (kw_find_range kw r (Some b) (i + 1)) as [H|H]; [congruence|].
    replace (Z.to_nat (kw_find kw (Some b) r (i + 1) - i))
      with (S (Z.to_nat (kw_find kw (Some b) r (i + 1) - (i + 1)))) by lia.
    exact Hp.
Qed.

Lemma kw_index_match l kw :
  kw_index l kw <> -1 -> match_kw kw None (skipn (Z.to_nat (kw_index l kw)) l) <> None.
Proof.
  intros H. unfold kw_index in *. destruct (kw_find_here kw l None 0 H ltac:(lia)) as [p Hp].
  rewrite Z.sub_0_r in Hp. unfold kw_here in Hp.
  destruct (match_kw kw None (skipn (Z.to_nat (kw_find kw None l 0)) l)); [discriminate|discriminate].
Qed.

(* a match of "select" leaves no room for a match of "from" starting inside it *)
Lemma match_char_inv c l b r :
  match_char c l = Some (b, r) ->
  (exists b0, l = b0 :: r /\ (b0 = c \/ b0 = c - 32)) \/
  (c = 115 /\ l = 197 :: 191 :: r) \/ (c = 107 /\ l = 226 :: 132 :: 170 :: r).
Proof.
  unfold match_char. destruct l as [|b0 l]; [discriminate|].
  destruct ((b0 =? c) || ((97 <=? c) && (c <=? 122) && (b0 =? c - 32))) eqn:E1.
  { intros H; inversion H; subst. left. exists b. split; [reflexivity|lia]. }
  destruct ((c =? 115) && (b0 =? 197)) eqn:E2.
  { destruct l as [|b2 r2]; [discriminate|]. destruct (b2 =? 191) eqn:E3; [|discriminate].
    intros H; inversion H; subst. right; left. split; [lia|].
    assert (b0 = 197) by lia. assert (b = 191) by lia. subst. reflexivity. }
  destruct ((c =? 107) && (b0 =? 226)) eqn:E3; [|discriminate].
  destruct l as [|b2 [|b3 r3]]; try discriminate.
  destruct ((b2 =? 132) && (b3 =? 170)) eqn:E4; [|discriminate].
  intros H; inversion H; subst. right; right. split; [lia|].
  assert (b0 = 226) by lia. assert (b2 = 132) by lia. assert (b = 170) by lia. subst. reflexivity.
Qed.

Lemma from_needs_f l : match_kw kw_from None l <> None -> exists r, l = 102 :: r \/ l = 70 :: r.
Proof.
  unfold kw_from. cbn [match_kw]. destruct (match_char 102 l) as [[b r]|] eqn:E; [|congruence].
  intros _. apply match_char_inv in E. destruct E as [[b0 [-> Hb]]|[[H _]|[H _]]]; try lia.
  exists r. destruct Hb as [->| ->]; [now left|now right].
Qed.

Ltac inv_char H :=
  let b0 := fresh "b" in let Hb := fresh "Hb" in
  apply match_char_inv in H; destruct H as [[b0 [-> Hb]]|[[H _]|[H _]]]; [|lia|lia].

Lemma select_excludes_from m d :
  match_kw kw_select None m <> None -> (1 <= d <= 5)%nat ->
  match_kw kw_from None (skipn d m) = None.
Proof.
  intros Hs Hd. unfold kw_select in Hs. cbn [match_kw] in Hs.
  destruct (match_char 115 m) as [[b1 r1]|] eqn:E1; [|congruence].
  destruct (match_char 101 r1) as [[b2 r2]|] eqn:E2; [|congruence].
  destruct (match_char 108 r2) as [[b3 r3]|] eqn:E3; [|congruence].
  destruct (match_char 101 r3) as [[b4 r4]|] eqn:E4; [|congruence].
  destruct (match_char 99 r4) as [[b5 r5]|] eqn:E5; [|congruence].
  destruct (match_char 116 r5) as [[b6 r6]|] eqn:E6; [|congruence].
  inv_char E2. inv_char E3. inv_char E4. inv_char E5. inv_char E6.
  destruct (match_kw kw_from None (skipn d m)) as [[la rr]|] eqn:EF; [|reflexivity].
  exfalso. assert (match_kw kw_from None (skipn d m) <> None) as HF by congruence.
  apply from_needs_f in HF. destruct HF as [r HF].
  apply match_char_inv in E1. destruct E1 as [[c0 [-> Hc0]]|[[_ ->]|[H _]]]; [| |lia].
  - destruct d as [|[|[|[|[|[|d]]]]]]; try lia; cbn [skipn] in HF;
      destruct HF as [HF|HF]; inversion HF; lia.
  - destruct d as [|[|[|[|[|[|d]]]]]]; try lia; cbn [skipn] in HF;
      destruct HF as [HF|HF]; inversion HF; lia.
Qed.

Lemma skipn_skipn_add {A} (a b : nat) (l : list A) : skipn a (skipn b l) = skipn (b + a) l.
Proof.
  revert l; induction b as [|b IH]; intros l; [reflexivity|].
  destruct l as [|x l]; cbn [skipn Nat.add]; [now destruct a|]. apply IH.
Qed.

Lemma select_from_gap l :
  kw_index l kw_select <> -1 -> kw_index l kw_from <> -1 ->
  kw_index l kw_select < kw_index l kw_from -> kw_index l kw_select + 6 <= kw_index l kw_from.
Proof.
  intros Hs Hf Hlt.
  pose proof (kw_index_match l kw_select Hs) as Ms.
  pose proof (kw_index_match l kw_from Hf) as Mf.
  destruct (kw_index_range l kw_select) as [|[Hs0 _]]; [contradiction|].
  destruct (Z_lt_le_dec (kw_index l kw_from) (kw_index l kw_select + 6)) as [Hc|]; [|lia].
  exfalso. apply Mf.
  set (d := Z.to_nat (kw_index l kw_from - kw_index l kw_select)).
  replace (Z.to_nat (kw_index l kw_from)) with (Z.to_nat (kw_index l kw_select) + d)%nat by lia.
  rewrite <- skipn_skipn_add. apply select_excludes_from; [exact Ms|lia].
Qed.

Lemma clause_end_go_range lower stops : forall e,
  0 <= e <= zlen lower -> 0 <= clause_end_go lower stops e <= zlen lower.
Proof.
  induction stops as [|k ks IH]; intros e He; cbn [clause_end_go]; [exact He|].
  apply IH. destruct (kw_index_range lower k) as [H|H].
  - rewrite H. cbn. exact He.
  - pose proof (zlen_nonneg k). destruct (negb (kw_index lower k =? -1) && (kw_index lower k <? e)) eqn:E; lia.
Qed.

Lemma clause_end_range lower stops : 0 <= clause_end lower stops <= zlen lower.
Proof. apply clause_end_go_range. pose proof (zlen_nonneg lower). lia. Qed.

(* ------------------------------------------------------------------ token clauses never index out of range *)
Lemma parse_show_safe fs : safe (parse_show fs).
Proof.
  unfold parse_show. destruct (2 <=? zlen fs) eqn:E2.
  - apply safe_idx; [apply fld_some; lia|]. intros f1 _. cbn [andb].
    destruct (bytes_eqb f1 kw_topics); [exact I|].
    destruct (4 <=? zlen fs) eqn:E4; [|exact I].
    apply safe_idx; [apply fld_some; lia|]. intros g1 _.
    apply safe_idx; [apply fld_some; lia|]. intros g2 _.
    destruct (bytes_eqb g1 kw_partitions && bytes_eqb g2 kw_from); [|exact I].
    apply safe_idx; [apply fld_some; lia|]. intros g3 _. exact I.
  - cbn [idx andb]. destruct (4 <=? zlen fs) eqn:E4; [lia|exact I].
Qed.

Lemma parse_describe_safe fs : safe (parse_describe fs).
Proof.
  unfold parse_describe. destruct (zlen fs <? 2) eqn:E; [exact I|].
  apply safe_idx; [apply fld_some; lia|]. intros; exact I.
Qed.

Lemma alias_at_safe fs j : 0 <= j -> safe (alias_at fs j).
Proof.
  intros Hj. unfold alias_at. destruct (j <? zlen fs) eqn:E; [|exact I].
  apply safe_idx; [apply fld_some; lia|]. intros; exact I.
Qed.

Lemma from_loop_safe fs : forall n i, 0 <= i -> i + Z.of_nat n <= zlen fs -> safe (from_loop fs n i).
Proof.
  induction n as [|n IH]; intros i Hi Hn; cbn [from_loop]; [exact I|].
  apply safe_idx; [apply fld_some; lia|]. intros f _.
  destruct (negb (bytes_eqb f kw_from) || (zlen fs <=? i + 1)) eqn:E.
  - apply IH; lia.
  - apply safe_idx; [apply fld_some; lia|]. intros topic _.
    apply safe_bind; [apply alias_at_safe; lia|]. intros; exact I.
Qed.

Lemma parse_from_safe fs : safe (parse_from fs).
Proof. unfold parse_from. apply from_loop_safe; unfold zlen; lia. Qed.

Lemma join_loop_safe fs : forall n i, 0 <= i -> i + Z.of_nat n <= zlen fs -> safe (join_loop fs n i).
Proof.
  induction n as [|n IH]; intros i Hi Hn; cbn [join_loop]; [exact I|].
  apply safe_idx; [apply fld_some; lia|]. intros f _.
  destruct (bytes_eqb f kw_join && (i + 1 <? zlen fs)) eqn:E.
  - apply safe_idx; [apply fld_some; lia|]. intros jt _.
    apply safe_bind; [apply alias_at_safe; lia|]. intros; exact I.
  - apply safe_bind.
    + destruct (bytes_eqb f kw_left && (i + 2 <? zlen fs)) eqn:E2; [|exact I].
      apply safe_idx; [apply fld_some; lia|]. intros; exact I.
    + intros isleft Hl. destruct isleft.
      * destruct (bytes_eqb f kw_left && (i + 2 <? zlen fs)) eqn:E2; [|discriminate].
        apply safe_idx; [apply fld_some; lia|]. intros jt _.
        apply safe_bind; [apply alias_at_safe; lia|]. intros; exact I.
      * apply IH; lia.
Qed.

Lemma parse_join_safe fs : safe (parse_join fs).
Proof. unfold parse_join. apply join_loop_safe; unfold zlen; lia. Qed.

Lemma filters_loop_safe fs : forall n i st, 0 <= i -> safe (filters_loop fs n i st).
Proof.
  induction n as [|n IH]; intros i st Hi; cbn [filters_loop]; [exact I|].
  destruct (zlen fs <=? i) eqn:E; [exact I|].
  apply safe_idx; [apply fld_some; lia|]. intros f _.
  destruct (existsb (bytes_eqb f) [kw_limit; kw_last; kw_tail; kw_within; kw_scan]); [exact I|].
  destruct (bytes_eqb f kw_and); [apply IH; lia|].
  destruct (bytes_eqb f kw_partition_col).
  { apply safe_bind.
    - destruct (zlen fs <=? i + 2) eqn:E2; [exact I|].
      apply safe_idx; [apply fld_some; lia|]. intros; exact I.
    - intros bad Hb. destruct bad; [exact I|].
      destruct (zlen fs <=? i + 2) eqn:E2; [discriminate|].
      apply safe_idx; [apply fld_some; lia|]. intros v _.
      destruct (parse_int 32 v); [|exact I]. destruct st as [[p omin] omax]. apply IH; lia. }
  destruct (bytes_eqb f kw_offset_col); [|exact I].
  destruct (zlen fs <=? i + 2) eqn:E2; [exact I|].
  apply safe_idx; [apply fld_some; lia|]. intros op _.
  apply safe_idx; [apply fld_some; lia|]. intros v _.
  destruct (parse_int 64 v); [|exact I]. destruct st as [[p omin] omax].
  destruct (bytes_eqb op kw_ge); [apply IH; lia|].
  destruct (bytes_eqb op kw_le); [apply IH; lia|exact I].
Qed.

Lemma index_of_go_range fs tok : forall i, index_of_go fs tok i = -1 \/ i <= index_of_go fs tok i.
Proof.
  induction fs as [|f r IH]; intros i; cbn [index_of_go]; [now left|].
  destruct (bytes_eqb f tok); [right; lia|]. destruct (IH (i + 1)); [now left|right; lia].
Qed.

Lemma parse_filters_safe fs : safe (parse_filters fs).
Proof.
  unfold parse_filters. destruct (index_of fs kw_where =? -1) eqn:E; [exact I|].
  apply filters_loop_safe. unfold index_of in *. destruct (index_of_go_range fs kw_where 0); lia.
Qed.

(* ------------------------------------------------------------------ the slicing clauses *)
Section Safety.
Variable lower_fn : bytes -> bytes.
Variable ulower : bytes -> bytes.
Variable ts_err : bytes -> bool.
Variable jexpr_ok : bytes -> bool.
Hypothesis lower_len : forall s, length (lower_fn s) = length s.

Lemma lower_zlen s : zlen (lower_fn s) = zlen s.
Proof. unfold zlen. now rewrite lower_len. Qed.

Lemma select_columns_safe raw lower : zlen lower = zlen raw -> safe (parse_select_columns raw lower).
Proof.
  intros Hl. unfold parse_select_columns.
  destruct ((kw_index lower kw_select =? -1) || (kw_index lower kw_from =? -1) ||
            (kw_index lower kw_from <=? kw_index lower kw_select)) eqn:E; [exact I|].
  assert (kw_index lower kw_select <> -1) as Hs by lia.
  assert (kw_index lower kw_from <> -1) as Hf by lia.
  pose proof (select_from_gap lower Hs Hf ltac:(lia)) as Hgap.
  destruct (kw_index_range lower kw_select) as [|[Hs0 _]]; [contradiction|].
  destruct (kw_index_range lower kw_from) as [|[_ Hf1]]; [contradiction|].
  apply safe_idx.
  - destruct (slice_some raw (kw_index lower kw_select + 6) (kw_index lower kw_from)) as [r [Hr _]]; try lia.
    { pose proof (zlen_nonneg kw_from). lia. }
    eauto.
  - intros seg _. destruct (is_nil (trim_space seg)); [exact I|].
    destruct (is_nil (nonempty_trimmed (split_columns (trim_space seg)))); exact I.
Qed.

Lemma group_by_safe raw lower : zlen lower = zlen raw -> safe (parse_group_by ulower raw lower).
Proof.
  intros Hl. unfold parse_group_by. destruct (kw_index lower kw_group_by =? -1) eqn:E; [exact I|].
  destruct (kw_index_range lower kw_group_by) as [|[H0 H1]]; [lia|].
  change (zlen kw_group_by) with 8 in H1.
  destruct (slice_from_some raw (kw_index lower kw_group_by + 8)) as [rest [Hr Hrl]]; try lia.
  destruct (slice_from_some lower (kw_index lower kw_group_by + 8)) as [rl [Hrl1 Hrl2]]; try lia.
  rewrite Hr, Hrl1. cbn [idx].
  pose proof (clause_end_range rl stops_group).
  destruct (slice_to_some rest (clause_end rl stops_group)) as [seg Hseg]; try lia.
  rewrite Hseg. exact I.
Qed.

Lemma order_by_safe raw lower : zlen lower = zlen raw -> safe (parse_order_by ulower raw lower).
Proof.
  intros Hl. unfold parse_order_by. destruct (kw_index lower kw_order_by =? -1) eqn:E; [exact I|].
  destruct (kw_index_range lower kw_order_by) as [|[H0 H1]]; [lia|].
  change (zlen kw_order_by) with 8 in H1.
  destruct (slice_from_some raw (kw_index lower kw_order_by + 8)) as [rest [Hr Hrl]]; try lia.
  destruct (slice_from_some lower (kw_index lower kw_order_by + 8)) as [rl [Hrl1 Hrl2]]; try lia.
  rewrite Hr, Hrl1. cbn [idx].
  pose proof (clause_end_range rl stops_order).
  destruct (slice_to_some rest (clause_end rl stops_order)) as [seg Hseg]; try lia.
  rewrite Hseg. exact I.
Qed.

Lemma order_desc_safe raw lower : zlen lower = zlen raw -> safe (parse_order_desc ulower raw lower).
Proof.
  intros Hl. unfold parse_order_desc. destruct (kw_index lower kw_order_by =? -1) eqn:E; [exact I|].
  destruct (kw_index_range lower kw_order_by) as [|[H0 H1]]; [lia|].
  change (zlen kw_order_by) with 8 in H1.
  destruct (slice_from_some raw (kw_index lower kw_order_by + 8)) as [rest [Hr Hrl]]; try lia.
  rewrite Hr. cbn [idx].
  pose proof (clause_end_range (ulower rest) stops_order).
  destruct (slice_to_some (ulower rest) (clause_end (ulower rest) stops_order)) as [seg Hseg]; try lia.
  rewrite Hseg. cbn [idx]. destruct (zlen (fields seg) <? 2) eqn:E2; [exact I|].
  apply safe_idx; [apply fld_some; lia|]. intros; exact I.
Qed.

Lemma join_condition_safe raw lower : zlen lower = zlen raw -> safe (parse_join_condition jexpr_ok raw lower).
Proof.
  intros Hl. unfold parse_join_condition. destruct (kw_index lower kw_join =? -1) eqn:E; [exact I|].
  destruct (kw_index_range lower kw_join) as [|[H0 H1]]; [lia|].
  change (zlen kw_join) with 4 in H1.
  destruct (slice_from_some lower (kw_index lower kw_join)) as [lj [Hlj Hljl]]; try lia.
  rewrite Hlj. cbn [idx]. destruct (kw_index lj kw_on =? -1) eqn:E2; [exact I|].
  destruct (kw_index_range lj kw_on) as [|[G0 G1]]; [lia|].
  change (zlen kw_on) with 2 in G1.
  destruct (slice_from_some raw (kw_index lj kw_on + kw_index lower kw_join + 2)) as [rest [Hr Hrl]]; try lia.
  destruct (slice_from_some lower (kw_index lj kw_on + kw_index lower kw_join + 2)) as [rl [Hrl1 Hrl2]]; try lia.
  rewrite Hr, Hrl1. cbn [idx].
  pose proof (clause_end_range rl stops_on).
  destruct (slice_to_some rest (clause_end rl stops_on)) as [seg Hseg]; try lia.
  rewrite Hseg. cbn [idx].
  destruct (split_on 61 (trim_space seg)) as [|l [|r [|x xs]]]; try exact I.
  destruct (negb (jexpr_ok (trim_space l))); [exact I|].
  destruct (negb (jexpr_ok (trim_space r))); exact I.
Qed.

Lemma parse_select_safe raw lower fs : zlen lower = zlen raw ->
  safe (parse_select ulower ts_err jexpr_ok raw lower fs).
Proof.
  intros Hl. unfold parse_select.
  apply safe_bind; [now apply select_columns_safe|]. intros cols _.
  apply safe_bind; [apply parse_from_safe|]. intros [topic al] _.
  apply safe_bind; [apply parse_join_safe|]. intros [[jt jtopic] jalias] _.
  destruct (negb (jt =? 0) && is_nil jtopic); [exact I|].
  apply safe_bind.
  { destruct (is_nil jtopic); [exact I|now apply join_condition_safe]. }
  intros jon _. apply safe_bind; [apply parse_filters_safe|]. intros [[p omin] omax] _.
  destruct (ts_err raw); [exact I|].
  apply safe_bind; [now apply group_by_safe|]. intros g _.
  apply safe_bind; [now apply order_by_safe|]. intros ob _.
  apply safe_bind; [now apply order_desc_safe|]. intros od _. exact I.
Qed.

Lemma has_prefix_len l p : has_prefix l p = true -> zlen p <= zlen l.
Proof.
  revert l; induction p as [|c p IH]; intros l H.
  - rewrite zlen_nil. apply zlen_nonneg.
  - destruct l as [|b l]; cbn [has_prefix] in H; [discriminate|].
    apply andb_true_iff in H as [_ H]. apply IH in H. rewrite !zlen_cons. lia.
Qed.

Lemma parse_f_safe : forall fuel q, (length q < fuel)%nat ->
  safe (parse_f lower_fn ulower ts_err jexpr_ok fuel q).
Proof.
  induction fuel as [|fuel IH]; intros q Hq; [lia|]. cbn [parse_f].
  destruct (is_nil (trim_space q)); [exact I|].
  set (trimmed := trim_semi (trim_space q)).
  destruct (fields (lower_fn trimmed)) as [|f0 fs'] eqn:Ef; [exact I|]. rewrite <- Ef.
  destruct (bytes_eqb f0 kw_show); [apply parse_show_safe|].
  destruct (bytes_eqb f0 kw_describe); [apply parse_describe_safe|].
  destruct (bytes_eqb f0 kw_select); [apply parse_select_safe, lower_zlen|].
  destruct (bytes_eqb f0 kw_explain); [|exact I].
  destruct (negb (has_prefix (lower_fn (trim_space trimmed)) kw_explain)) eqn:Ep; [exact I|].
  apply negb_false_iff, has_prefix_len in Ep. rewrite lower_zlen in Ep. change (zlen kw_explain) with 7 in Ep.
  destruct (slice_from_some (trim_space trimmed) 7) as [rest [Hr Hrl]]; try lia.
  rewrite Hr. cbn [idx]. destruct (is_nil (trim_space rest)); [exact I|].
  assert (length (trim_space rest) < fuel)%nat as Hlt.
  { pose proof (trim_space_length rest). pose proof (trim_space_length trimmed).
    pose proof (trim_semi_length (trim_space q)). pose proof (trim_space_length q).
    fold trimmed in H1. unfold zlen in Hrl. lia. }
  specialize (IH _ Hlt).
  destruct (parse_f lower_fn ulower ts_err jexpr_ok fuel (trim_space rest)) as [[]| | |]; cbn in IH; try exact I; exact IH.
Qed.

Theorem parse_with_safe q :
  parse_with lower_fn ulower ts_err jexpr_ok q <> Panic /\
  parse_with lower_fn ulower ts_err jexpr_ok q <> NoFuel.
Proof.
  pose proof (parse_f_safe (S (length q)) q ltac:(lia)) as H. unfold parse_with.
  destruct (parse_f lower_fn ulower ts_err jexpr_ok (S (length q)) q); cbn in H; try contradiction; split; discriminate.
Qed.
End Safety.

Theorem parse_never_panics ulower ts_err jexpr_ok q :
  parse ulower ts_err jexpr_ok q <> Panic /\ parse ulower ts_err jexpr_ok q <> NoFuel.
Proof. unfold parse. apply parse_with_safe. apply ascii_lower_length. Qed.
