(* Basic lemmas for the group-coordinator model: association lists, sorting,
   round-robin, assignPartitions over a subscription map, well-formed groups. *)
From Coq Require Import Permutation ZifyBool.
From KS Require Import lib.Base model.Coordinator.
Open Scope Z_scope.

(* ================= association lists, sorting ================= *)
Section AssocLemmas.
  Context {V : Type}.
  Implicit Types l : list (Z * V).

  Lemma alookup_aset_same k v l : alookup k (aset k v l) = Some v.
  Proof.
    induction l as [|[k' v'] l IH]; cbn.
    - now rewrite Z.eqb_refl.
    - destruct (k =? k') eqn:E; cbn; rewrite ?Z.eqb_refl; [reflexivity|]. now rewrite E.
  Qed.

  Lemma alookup_aset_other k k' v l : k' <> k -> alookup k' (aset k v l) = alookup k' l.
  Proof.
    intros Hn. induction l as [|[k2 v2] l IH]; cbn.
    - destruct (k' =? k) eqn:E; [lia|reflexivity].
    - destruct (k =? k2) eqn:E; cbn.
      + assert (k = k2) by lia. subst. destruct (k' =? k2) eqn:E2; [lia|reflexivity].
      + destruct (k' =? k2); [reflexivity|exact IH].
  Qed.

  Lemma alookup_In k v l : alookup k l = Some v -> In (k, v) l.
  Proof.
    induction l as [|[k' v'] l IH]; cbn; [discriminate|].
    destruct (k =? k') eqn:E; intros H.
    - inversion H; subst. left. f_equal. lia.
    - right. auto.
  Qed.

  Lemma alookup_None k l : alookup k l = None <-> ~ In k (akeys l).
  Proof.
    induction l as [|[k' v'] l IH]; cbn; [tauto|].
    destruct (k =? k') eqn:E; split; intros H.
    - discriminate.
    - exfalso. apply H. left. lia.
    - intros [H1|H1]; [lia|]. now apply IH in H.
    - apply IH. tauto.
  Qed.

  Lemma amem_In k l : amem k l = true <-> In k (akeys l).
  Proof.
    unfold amem. destruct (alookup k l) eqn:E; split; intros H; try reflexivity; try discriminate.
    - apply alookup_In in E. unfold akeys. apply in_map_iff. now exists (k, v).
    - exfalso. apply alookup_None in E. contradiction.
  Qed.

  Lemma amem_false k l : amem k l = false <-> ~ In k (akeys l).
  Proof.
    rewrite <- amem_In. destruct (amem k l); split; intros H; try congruence; try discriminate; auto.
  Qed.

  Lemma In_alookup k v l : NoDup (akeys l) -> In (k, v) l -> alookup k l = Some v.
  Proof.
    induction l as [|[k' v'] l IH]; cbn; [tauto|]. intros Hd [H|H].
    - inversion H; subst. now rewrite Z.eqb_refl.
    - inversion Hd; subst. destruct (k =? k') eqn:E.
      + exfalso. assert (k = k') by lia. subst. apply H2. unfold akeys. apply in_map_iff. now exists (k', v).
      + auto.
  Qed.

  Lemma akeys_aset_in k v l k' : In k' (akeys (aset k v l)) <-> k' = k \/ In k' (akeys l).
  Proof.
    induction l as [|[k2 v2] l IH]; cbn.
    - intuition.
    - destruct (k =? k2) eqn:E; cbn.
      + assert (k = k2) by lia. subst. intuition.
      + rewrite IH. intuition.
  Qed.

  Lemma akeys_aset_present k v l : In k (akeys l) -> akeys (aset k v l) = akeys l.
  Proof.
    induction l as [|[k2 v2] l IH]; cbn; [tauto|]. intros H.
    destruct (k =? k2) eqn:E; cbn.
    - f_equal. lia.
    - f_equal. apply IH. destruct H; [lia|assumption].
  Qed.

  Lemma akeys_aset_absent k v l : ~ In k (akeys l) -> akeys (aset k v l) = akeys l ++ [k].
  Proof.
    induction l as [|[k2 v2] l IH]; cbn; [reflexivity|]. intros H.
    destruct (k =? k2) eqn:E; cbn.
    - exfalso. apply H. left. lia.
    - f_equal. apply IH. tauto.
  Qed.

  Lemma NoDup_akeys_aset k v l : NoDup (akeys l) -> NoDup (akeys (aset k v l)).
  Proof.
    intros Hd. destruct (in_dec Z.eq_dec k (akeys l)) as [Hi|Hn].
    - now rewrite akeys_aset_present.
    - rewrite akeys_aset_absent by assumption. now apply NoDup_snoc.
  Qed.

  Lemma aset_nonempty k v l : aset k v l <> [].
  Proof. destruct l as [|[k' v'] l]; cbn; [discriminate|]. destruct (k =? k'); discriminate. Qed.

  Lemma In_aset k v l e : In e (aset k v l) -> e = (k, v) \/ In e l.
  Proof.
    induction l as [|[k2 v2] l IH]; cbn.
    - intuition.
    - destruct (k =? k2); cbn; intuition.
  Qed.

  Lemma akeys_filter_in (f : Z * V -> bool) l k : In k (akeys (filter f l)) -> In k (akeys l).
  Proof.
    unfold akeys. rewrite !in_map_iff. intros [e [H1 H2]]. apply filter_In in H2. exists e. tauto.
  Qed.

  Lemma NoDup_akeys_filter (f : Z * V -> bool) l : NoDup (akeys l) -> NoDup (akeys (filter f l)).
  Proof.
    induction l as [|[k v] l IH]; cbn; [auto|]. intros Hd. inversion Hd; subst.
    destruct (f (k, v)); cbn; [|auto]. constructor; [|auto].
    intros H. apply H1. eapply akeys_filter_in. exact H.
  Qed.

  Lemma alookup_filter_keep (f : Z * V -> bool) l k v :
    NoDup (akeys l) -> alookup k l = Some v -> f (k, v) = true -> alookup k (filter f l) = Some v.
  Proof.
    intros Hd Hl Hf. apply In_alookup; [now apply NoDup_akeys_filter|].
    apply filter_In. split; [now apply alookup_In|assumption].
  Qed.
End AssocLemmas.

Lemma zmem_In x l : zmem x l = true <-> In x l.
Proof.
  induction l as [|y l IH]; cbn; [split; [discriminate|tauto]|].
  rewrite orb_true_iff, IH. split; intros [H|H]; auto; [left; lia|left; lia].
Qed.

Lemma zinsert_perm x l : Permutation (x :: l) (zinsert x l).
Proof.
  induction l as [|y l IH]; cbn; [reflexivity|].
  destruct (x <=? y); [reflexivity|].
  eapply perm_trans; [apply perm_swap|]. now apply perm_skip.
Qed.

Lemma zsort_perm l : Permutation l (zsort l).
Proof.
  induction l as [|x l IH]; cbn; [reflexivity|].
  eapply perm_trans; [|apply zinsert_perm]. now apply perm_skip.
Qed.

Lemma zsort_In x l : In x (zsort l) <-> In x l.
Proof.
  split; intros H.
  - eapply Permutation_in; [apply Permutation_sym, zsort_perm|exact H].
  - eapply Permutation_in; [apply zsort_perm|exact H].
Qed.

Lemma zsort_NoDup l : NoDup l -> NoDup (zsort l).
Proof. intros H. eapply Permutation_NoDup; [apply zsort_perm|exact H]. Qed.

Lemma zsort_nil l : zsort l = [] -> l = [].
Proof.
  intros H. pose proof (zsort_perm l) as P. rewrite H in P. now apply Permutation_nil, Permutation_sym.
Qed.

Lemma zdedup_In x l : In x (zdedup l) <-> In x l.
Proof.
  induction l as [|y l IH]; cbn; [tauto|].
  destruct (zmem y l) eqn:E.
  - rewrite IH. split; [tauto|]. intros [H|H]; [subst; now apply zmem_In|assumption].
  - cbn. rewrite IH. tauto.
Qed.

Lemma zdedup_NoDup l : NoDup (zdedup l).
Proof.
  induction l as [|y l IH]; cbn; [constructor|].
  destruct (zmem y l) eqn:E; [assumption|].
  constructor; [|assumption]. rewrite zdedup_In. intros H. apply zmem_In in H. congruence.
Qed.

(* ================= round-robin: a partition of the topic's partitions ================= *)
Lemma rr_pick_sub elig ps i id p : In p (rr_pick elig ps i id) -> In p ps.
Proof.
  revert i; induction ps as [|q ps IH]; intros i; cbn; [tauto|].
  destruct (_ =? id); cbn; intros H; [destruct H|]; eauto.
Qed.

Lemma rr_pick_owner elig ps i id p :
  elig <> [] -> In p (rr_pick elig ps i id) -> In id elig.
Proof.
  intros Hne. revert i; induction ps as [|q ps IH]; intros i; cbn; [tauto|].
  destruct (nth (i mod length elig) elig (-1) =? id) eqn:E; cbn.
  - intros _. assert (nth (i mod length elig) elig (-1) = id) as <- by lia.
    apply nth_In. apply Nat.mod_upper_bound. destruct elig; [congruence|cbn; lia].
  - apply IH.
Qed.

(* every partition goes to somebody *)
Lemma rr_pick_total elig ps i p :
  elig <> [] -> In p ps -> exists id, In id elig /\ In p (rr_pick elig ps i id).
Proof.
  intros Hne. revert i; induction ps as [|q ps IH]; intros i; cbn; [tauto|].
  intros [->|H].
  - exists (nth (i mod length elig) elig (-1)). split.
    + apply nth_In. apply Nat.mod_upper_bound. destruct elig; [congruence|cbn; lia].
    + rewrite Z.eqb_refl. now left.
  - destruct (IH (S i) H) as [id [H1 H2]]. exists id. split; [assumption|].
    destruct (_ =? id); [now right|assumption].
Qed.

(* with distinct partition ids nobody shares a partition *)
Lemma rr_pick_unique elig ps i a b p :
  NoDup ps -> In p (rr_pick elig ps i a) -> In p (rr_pick elig ps i b) -> a = b.
Proof.
  revert i; induction ps as [|q ps IH]; intros i Hd; cbn; [tauto|].
  inversion Hd as [|? ? Hq Hd']; subst.
  destruct (nth (i mod length elig) elig (-1) =? a) eqn:Ea;
    destruct (nth (i mod length elig) elig (-1) =? b) eqn:Eb; cbn; intros Ha Hb.
  - lia.
  - destruct Ha as [->|Ha]; [|eauto]. exfalso. apply Hq. eapply rr_pick_sub; eauto.
  - destruct Hb as [->|Hb]; [|eauto]. exfalso. apply Hq. eapply rr_pick_sub; eauto.
  - eauto.
Qed.

(* ================= assignPartitions over a subscription map ================= *)
Section AssignFor.
  Variable E : env.
  Variable sm : list (Z * list Z).

  Lemma eligible_In id t : In id (eligible sm t) <-> In id (akeys sm) /\ subscribes sm id t = true.
  Proof. unfold eligible. rewrite filter_In, zsort_In. tauto. Qed.

  Lemma eligible_NoDup t : NoDup (akeys sm) -> NoDup (eligible sm t).
  Proof. intros H. unfold eligible. apply NoDup_filter. now apply zsort_NoDup. Qed.

  Lemma subscribed_topics_In t :
    In t (subscribed_topics sm) <-> exists id ts, In (id, ts) sm /\ In t ts.
  Proof.
    unfold subscribed_topics. rewrite zsort_In, zdedup_In, in_flat_map. split.
    - intros [[id ts] [H1 H2]]. exists id, ts. auto.
    - intros [id [ts [H1 H2]]]. exists (id, ts). auto.
  Qed.

  Lemma subscribes_topic id t :
    subscribes sm id t = true -> In t (subscribed_topics sm).
  Proof.
    unfold subscribes. destruct (alookup id sm) eqn:El; [|discriminate]. intros H.
    apply subscribed_topics_In. exists id, l. split; [now apply alookup_In|now apply zmem_In].
  Qed.

  Lemma assign_for_In id t ps :
    In (t, ps) (assign_for E sm id) <->
    In t (subscribed_topics sm) /\ ps = assign_topic E sm id t /\ ps <> [].
  Proof.
    unfold assign_for. rewrite in_flat_map. split.
    - intros [t' [H1 H2]]. destruct (assign_topic E sm id t') eqn:Ea; [destruct H2|].
      destruct H2 as [H2|[]]. inversion H2; subst. rewrite Ea. repeat split; auto. discriminate.
    - intros [H1 [H2 H3]]. exists t. split; [assumption|].
      rewrite <- H2. destruct ps; [congruence|now left].
  Qed.

  (* no member receives a partition of a topic it did not subscribe to; only real partitions *)
  Lemma assign_for_sound id t ps p :
    In (t, ps) (assign_for E sm id) -> In p ps ->
    In id (akeys sm) /\ subscribes sm id t = true /\ In p (parts_of E t).
  Proof.
    intros H Hp. apply assign_for_In in H as [_ [-> _]]. unfold assign_topic in Hp.
    destruct (eligible sm t) as [|e el] eqn:Ee; [destruct Hp|].
    assert (In id (eligible sm t)) as Hi.
    { rewrite Ee. eapply rr_pick_owner; [discriminate|exact Hp]. }
    apply eligible_In in Hi as [H1 H2]. repeat split; auto. eapply rr_pick_sub; eauto.
  Qed.

  (* each partition of each subscribed topic goes to a current member *)
  Lemma assign_for_total id0 t p :
    In id0 (akeys sm) -> subscribes sm id0 t = true -> In p (parts_of E t) ->
    exists id ps, In (t, ps) (assign_for E sm id) /\ In p ps.
  Proof.
    intros Hk Hs Hp.
    assert (In id0 (eligible sm t)) as Hi by (apply eligible_In; auto).
    destruct (eligible sm t) as [|e el] eqn:Ee; [destruct Hi|].
    destruct (rr_pick_total (e :: el) (parts_of E t) 0 p) as [id [H1 H2]]; [discriminate|assumption|].
    exists id, (assign_topic E sm id t). split.
    - apply assign_for_In. split; [eapply subscribes_topic; eauto|]. split; [reflexivity|].
      unfold assign_topic. rewrite Ee. intros Hnil. rewrite Hnil in H2. destruct H2.
    - unfold assign_topic. now rewrite Ee.
  Qed.

  (* ... to exactly one *)
  Lemma assign_for_unique a b t psa psb p :
    NoDup (parts_of E t) ->
    In (t, psa) (assign_for E sm a) -> In p psa ->
    In (t, psb) (assign_for E sm b) -> In p psb -> a = b.
  Proof.
    intros Hd Ha Hpa Hb Hpb.
    apply assign_for_In in Ha as [_ [-> _]]. apply assign_for_In in Hb as [_ [-> _]].
    unfold assign_topic in *. destruct (eligible sm t) as [|e el]; [destruct Hpa|].
    eapply rr_pick_unique; eauto.
  Qed.

  (* one entry per topic *)
  Lemma assign_for_topic_once id t ps1 ps2 :
    In (t, ps1) (assign_for E sm id) -> In (t, ps2) (assign_for E sm id) -> ps1 = ps2.
  Proof.
    intros H1 H2. apply assign_for_In in H1 as [_ [-> _]]. apply assign_for_In in H2 as [_ [-> _]].
    reflexivity.
  Qed.
End AssignFor.

(* ================= well-formed groups ================= *)
Definition keys (g : group) : list Z := akeys (g_members g).

Record wf (E : env) (g : group) : Prop := mkWf {
  wf_nodup : NoDup (keys g);
  wf_nonempty : g_members g <> [];
  wf_leader : exists l, g_leader g = Some l /\ In l (keys g);
  wf_phase : g_phase g = PPreparing \/ g_phase g = PCompleting \/ g_phase g = PStable;
  wf_joined : g_phase g <> PPreparing -> all_joined g = true;
  wf_noassign : g_phase g <> PStable -> g_assign g = [];
  wf_assign : g_phase g = PStable -> forall id, In id (keys g) ->
              assignment_of g id = assign_for E (subs (g_members g)) id;
  wf_session : forall id m, In (id, m) (g_members g) -> 0 < m_session m;
  wf_rebto : 0 < g_rebto g
}.

Lemma phase_eqb_eq a b : phase_eqb a b = true <-> a = b.
Proof. destruct a, b; cbn; split; intros H; try reflexivity; try discriminate. Qed.

Lemma phase_eqb_neq a b : phase_eqb a b = false <-> a <> b.
Proof. destruct a, b; cbn; split; intros H; try reflexivity; try discriminate; try congruence. Qed.

Lemma akeys_subs ms : akeys (subs ms) = akeys ms.
Proof. unfold akeys, subs. rewrite map_map. reflexivity. Qed.

Lemma alookup_subs id ms : alookup id (subs ms) = option_map m_topics (alookup id ms).
Proof.
  induction ms as [|[k m] ms IH]; cbn; [reflexivity|]. destruct (id =? k); [reflexivity|exact IH].
Qed.

Lemma subs_aset_same id m m' ms :
  alookup id ms = Some m -> m_topics m' = m_topics m -> subs (aset id m' ms) = subs ms.
Proof.
  induction ms as [|[k x] ms IH]; cbn; [discriminate|].
  destruct (id =? k) eqn:Ek; cbn; intros H Ht.
  - inversion H; subst. assert (id = k) by lia. subst. now rewrite Ht.
  - f_equal. now apply IH.
Qed.

Lemma aset_aset {V} k (v v' : V) l : aset k v' (aset k v l) = aset k v' l.
Proof.
  induction l as [|[k2 v2] l IH]; cbn.
  - now rewrite Z.eqb_refl.
  - destruct (k =? k2) eqn:E; cbn; [now rewrite Z.eqb_refl|]. rewrite E. now f_equal.
Qed.

(* ---- ensure_leader ---- *)
Lemma sorted_ids_head g : g_members g <> [] -> exists k, hd_error (sorted_ids g) = Some k /\ In k (keys g).
Proof.
  intros Hne. unfold sorted_ids. destruct (zsort (akeys (g_members g))) as [|k l] eqn:Es.
  - apply zsort_nil in Es. destruct (g_members g); [congruence|discriminate].
  - exists k. split; [reflexivity|]. unfold keys. apply zsort_In. rewrite Es. now left.
Qed.

Lemma ensure_leader_fields g :
  g_gen (ensure_leader g) = g_gen g /\ g_phase (ensure_leader g) = g_phase g /\
  g_members (ensure_leader g) = g_members g /\ g_assign (ensure_leader g) = g_assign g /\
  g_rebto (ensure_leader g) = g_rebto g /\ g_deadline (ensure_leader g) = g_deadline g.
Proof.
  unfold ensure_leader. destruct (g_leader g) as [l|]; [destruct (amem l (g_members g))|]; cbn; auto 10.
Qed.

Lemma ensure_leader_ok g :
  g_members g <> [] -> exists l, g_leader (ensure_leader g) = Some l /\ In l (keys g).
Proof.
  intros Hne. destruct (sorted_ids_head g Hne) as [k [Hk Hin]].
  unfold ensure_leader. destruct (sorted_ids g) as [|k' r]; [discriminate|]. inversion Hk; subst.
  destruct (g_leader g) as [l|] eqn:El.
  - destruct (amem l (g_members g)) eqn:Em.
    + exists l. split; [assumption|]. now apply amem_In.
    + exists k. cbn. auto.
  - exists k. cbn. auto.
Qed.

Lemma ensure_leader_id g l : g_leader g = Some l -> In l (keys g) -> ensure_leader g = g.
Proof.
  intros Hl Hin. unfold ensure_leader. rewrite Hl.
  apply amem_In in Hin. now rewrite Hin.
Qed.

(* ---- reset_joingen / set_joingen ---- *)
Lemma akeys_reset ms : akeys (reset_joingen ms) = akeys ms.
Proof. unfold akeys, reset_joingen. rewrite map_map. reflexivity. Qed.

Lemma subs_reset ms : subs (reset_joingen ms) = subs ms.
Proof. unfold subs, reset_joingen. rewrite map_map. reflexivity. Qed.

Lemma In_reset id m ms : In (id, m) (reset_joingen ms) ->
  exists m0, In (id, m0) ms /\ m_session m = m_session m0 /\ m_topics m = m_topics m0 /\ m_hb m = m_hb m0.
Proof.
  unfold reset_joingen. rewrite in_map_iff. intros [[k m0] [H1 H2]]. cbn in H1. inversion H1; subst.
  exists m0. cbn. auto.
Qed.

Lemma akeys_set_joingen id gen ms : akeys (set_joingen id gen ms) = akeys ms.
Proof.
  unfold set_joingen. destruct (alookup id ms) eqn:El; [|reflexivity].
  apply akeys_aset_present. apply amem_In. unfold amem. now rewrite El.
Qed.

Lemma subs_set_joingen id gen ms : subs (set_joingen id gen ms) = subs ms.
Proof.
  unfold set_joingen. destruct (alookup id ms) eqn:El; [|reflexivity].
  eapply subs_aset_same; eauto.
Qed.

Lemma In_set_joingen id gen ms k m : In (k, m) (set_joingen id gen ms) ->
  exists m0, In (k, m0) ms /\ m_session m = m_session m0 /\ m_topics m = m_topics m0 /\ m_hb m = m_hb m0 /\
             (m_joingen m = m_joingen m0 \/ (k = id /\ m_joingen m = gen)).
Proof.
  unfold set_joingen. destruct (alookup id ms) eqn:El.
  - intros H. apply In_aset in H as [H|H].
    + inversion H; subst. exists m0. split; [now apply alookup_In|]. cbn. auto 10.
    + exists m. auto 10.
  - intros H. exists m. auto 10.
Qed.

Lemma In_aset_strong {V} k (v : V) l k' v' :
  NoDup (akeys l) -> In (k', v') (aset k v l) -> (k' = k /\ v' = v) \/ (k' <> k /\ In (k', v') l).
Proof.
  induction l as [|[k2 v2] l IH]; cbn; intros Hd H.
  - destruct H as [H|[]]. inversion H; auto.
  - inversion Hd as [|? ? Hn Hd']; subst. destruct (k =? k2) eqn:E.
    + assert (k = k2) by lia. subst k2. destruct H as [H|H].
      * inversion H; auto.
      * right. split; [|now right]. intros ->. apply Hn. unfold akeys. apply in_map_iff. now exists (k, v').
    + destruct H as [H|H].
      * inversion H; subst. right. split; [lia|now left].
      * destruct (IH Hd' H) as [?|[? ?]]; [now left|right; split; [assumption|now right]].
Qed.

Lemma set_joingen_joined id gen ms :
  NoDup (akeys ms) -> In id (akeys ms) ->
  (forall k m, In (k, m) ms -> k <> id -> m_joingen m = gen) ->
  forallb (fun e => m_joingen (snd e) =? gen) (set_joingen id gen ms) = true.
Proof.
  intros Hd Hin Hall. apply forallb_forall. intros [k m] H. cbn.
  unfold set_joingen in H. destruct (alookup id ms) eqn:El.
  - apply In_aset_strong in H; [|exact Hd]. destruct H as [[-> ->]|[Hn H]].
    + cbn. lia.
    + rewrite (Hall k m H Hn). lia.
  - apply amem_In in Hin. unfold amem in Hin. rewrite El in Hin. discriminate.
Qed.

