(* Proofs about model/ProtoHeader.v (C10). *)
From KS Require Import lib.Base lib.Wire model.ProtoHeader.
From Coq Require Import ZifyBool.
Open Scope Z_scope.

Definition safe {A} (o : outcome A) : Prop :=
  match o with Panic _ => False | OutOfFuel => False | _ => True end.

Lemma safe_bind {A B} (o : outcome A) (f : A -> outcome B) :
  safe o -> (forall a, o = Ok a -> safe (f a)) -> safe (bind o f).
Proof. destruct o; cbn; intros H1 H2; auto. Qed.

(* ---- the patched read never panics and returns exactly n bytes *)
Lemma rd_read_fixed_safe rest n : safe (rd_read true rest n).
Proof.
  unfold rd_read. cbn [andb]. destruct (n <? 0) eqn:E; [exact I|].
  destruct (zlen rest <? n); exact I.
Qed.

Lemma rd_read_ok fixed rest n b r : rd_read fixed rest n = Ok (b, r) ->
  0 <= n <= zlen rest /\ b = ztake n rest /\ r = zdrop n rest.
Proof.
  unfold rd_read. destruct (fixed && (n <? 0)); [discriminate|].
  destruct (zlen rest <? n) eqn:E1; [discriminate|].
  destruct (n <? 0) eqn:E2; [discriminate|]. intros H; inversion H; subst. repeat split; lia.
Qed.

Lemma list_len2 (l : bytes) : zlen l = 2 -> exists a b, l = [a; b].
Proof. destruct l as [|a [|b [|c l]]]; unfold zlen; cbn [length]; intros H; try lia. eauto. Qed.
Lemma list_len4 (l : bytes) : zlen l = 4 -> exists a b c d, l = [a; b; c; d].
Proof. destruct l as [|a [|b [|c [|d [|e l]]]]]; unfold zlen; cbn [length]; intros H; try lia. eauto 6. Qed.

Lemma rd_i16_safe rest : safe (rd_i16 true rest).
Proof.
  unfold rd_i16. apply safe_bind; [apply rd_read_fixed_safe|]. intros [b r] H.
  apply rd_read_ok in H as (Hn & -> & ->).
  destruct (list_len2 (ztake 2 rest)) as (x & y & ->); [apply zlen_ztake; lia|]. exact I.
Qed.

Lemma rd_i32_safe rest : safe (rd_i32 true rest).
Proof.
  unfold rd_i32. apply safe_bind; [apply rd_read_fixed_safe|]. intros [b r] H.
  apply rd_read_ok in H as (Hn & -> & ->).
  destruct (list_len4 (ztake 4 rest)) as (x & y & z & w & ->); [apply zlen_ztake; lia|]. exact I.
Qed.

Lemma rd_nullable_string_safe rest : safe (rd_nullable_string true rest).
Proof.
  unfold rd_nullable_string. apply safe_bind; [apply rd_i16_safe|]. intros [l r] _.
  destruct (l =? -1); [exact I|]. destruct (l <? 0); [exact I|].
  apply safe_bind; [apply rd_read_fixed_safe|]. intros [s r'] _. exact I.
Qed.

Lemma rd_uvarint_safe rest : safe (rd_uvarint rest).
Proof. unfold rd_uvarint. destruct (uvarint rest) as [v n]. destruct (n <=? 0); exact I. Qed.

Lemma rd_uvarint_ok rest v r : rd_uvarint rest = Ok (v, r) -> (length r < length rest)%nat.
Proof.
  unfold rd_uvarint. pose proof (uvarint_n_le rest) as Hle. destruct (uvarint rest) as [v' n]. cbn [snd] in Hle.
  destruct (n <=? 0) eqn:E; [discriminate|]. intros H; inversion H; subst.
  unfold zdrop. rewrite skipn_length. unfold zlen in Hle. lia.
Qed.

Lemma rd_read_len fixed rest n b r : rd_read fixed rest n = Ok (b, r) -> (length r <= length rest)%nat.
Proof.
  intros H. apply rd_read_ok in H as (_ & _ & ->). unfold zdrop. rewrite skipn_length. lia.
Qed.

(* the patched skip loop: no panic, and the fuel (one unit per byte) is never exhausted *)
Lemma skip_fields_safe fuel : forall i count rest, (length rest < fuel)%nat -> safe (skip_fields true fuel i count rest).
Proof.
  induction fuel as [|f IH]; intros i count rest Hf; [lia|].
  cbn [skip_fields]. destruct (count <=? i); [exact I|].
  apply safe_bind; [apply rd_uvarint_safe|]. intros [t r1] H1. apply rd_uvarint_ok in H1.
  apply safe_bind; [apply rd_uvarint_safe|]. intros [size r2] H2. apply rd_uvarint_ok in H2.
  destruct (size =? 0); [apply IH; lia|].
  cbn [andb]. destruct (zlen r2 <? size); [exact I|].
  apply safe_bind; [apply rd_read_fixed_safe|]. intros [x r3] H3. apply rd_read_len in H3.
  apply IH. lia.
Qed.

Lemma skip_tagged_fields_safe rest : safe (skip_tagged_fields true rest).
Proof.
  unfold skip_tagged_fields. apply safe_bind; [apply rd_uvarint_safe|]. intros [c r] _.
  apply skip_fields_safe. lia.
Qed.

Theorem parse_header_safe flex b : safe (parse_header flex true b).
Proof.
  unfold parse_header.
  apply safe_bind; [apply rd_i16_safe|]. intros [key r1] _.
  apply safe_bind; [apply rd_i16_safe|]. intros [ver r2] _.
  apply safe_bind; [apply rd_i32_safe|]. intros [corr r3] _.
  apply safe_bind; [apply rd_nullable_string_safe|]. intros [cid r4] _.
  apply safe_bind; [destruct (flex key ver); [apply skip_tagged_fields_safe|exact I]|].
  intros body _. exact I.
Qed.

Theorem parse_request_safe B known (body_read : Z -> Z -> bytes -> option B) flex b :
  safe (parse_request B known body_read flex true b).
Proof.
  unfold parse_request. apply safe_bind; [apply parse_header_safe|]. intros [h body] _.
  destruct (known (h_key h)); [|exact I]. destruct (body_read _ _ _); exact I.
Qed.

Lemma read_frame_safe s : safe (read_frame s).
Proof.
  unfold read_frame. destruct s as [|b0 s']; [exact I|].
  destruct (get_i32 (b0 :: s')) as [[len r]|]; [|exact I].
  destruct (len <? 0) eqn:E; [exact I|]. unfold gmake. rewrite E. cbn [bind].
  destruct (zlen r <? len); exact I.
Qed.

(* ---------------------------------------------------------------- connection loop *)
Lemma read_frame_shrinks s p rest : read_frame s = Ok (p, rest) -> (length rest < length s)%nat.
Proof.
  unfold read_frame. destruct s as [|b0 s']; [discriminate|].
  unfold get_i32, get_u32. destruct s' as [|b1 [|b2 [|b3 r]]]; try discriminate.
  destruct (wrap_s 32 (be32 b0 b1 b2 b3) <? 0) eqn:E; [discriminate|]. unfold gmake. rewrite E. cbn [bind].
  destruct (zlen r <? _); [discriminate|]. intros H; inversion H; subst.
  unfold zdrop. rewrite skipn_length. cbn [length]. lia.
Qed.

Theorem serve_safe B known (body_read : Z -> Z -> bytes -> option B) flex fuel : forall s,
  (length s < fuel)%nat ->
  Forall safe (fst (fst (serve B known body_read flex true fuel s))) /\
  safe (snd (fst (serve B known body_read flex true fuel s))).
Proof.
  induction fuel as [|f IH]; intros s Hf; [lia|]. cbn [serve].
  pose proof (read_frame_safe s) as Hs.
  destruct (read_frame s) as [[p rest]|e|w|] eqn:ER; cbn [fst snd]; try contradiction; try (split; [constructor|exact I]).
  pose proof (parse_request_safe B known body_read flex p) as Hp.
  apply read_frame_shrinks in ER.
  destruct (parse_request B known body_read flex true p) as [r|e|w|] eqn:EP; try contradiction.
  - specialize (IH rest ltac:(lia)). destruct (serve B known body_read flex true f rest) as [[l t] u].
    cbn [fst snd] in *. destruct IH as [I1 I2]. split; [constructor; [exact I|exact I1]|exact I2].
  - cbn [fst snd]. split; [repeat constructor|exact I].
Qed.

(* ---------------------------------------------------------------- round trips *)
Lemma rd_read_app fixed (a r : bytes) : rd_read fixed (a ++ r) (zlen a) = Ok (a, r).
Proof.
  unfold rd_read. pose proof (zlen_nonneg a). pose proof (zlen_nonneg r).
  replace (zlen a <? 0) with false by lia. rewrite andb_false_r.
  replace (zlen (a ++ r) <? zlen a) with false by (rewrite zlen_app; lia).
  rewrite ztake_app, zdrop_app. reflexivity.
Qed.

Lemma rd_i16_put fixed v r : -32768 <= v < 32768 -> rd_i16 fixed (put_i16 v ++ r) = Ok (v, r).
Proof.
  intros H. unfold rd_i16. change 2 with (zlen (put_i16 v)). rewrite rd_read_app. cbn [bind].
  pose proof (get_put_i16 v [] H) as G. unfold get_i16, get_u16, put_i16, put_u16 in *. cbn [app] in G.
  inversion G as [G']. rewrite G'. rewrite G'. reflexivity.
Qed.

Lemma rd_i32_put fixed v r : -2147483648 <= v < 2147483648 -> rd_i32 fixed (put_i32 v ++ r) = Ok (v, r).
Proof.
  intros H. unfold rd_i32. change 4 with (zlen (put_i32 v)). rewrite rd_read_app. cbn [bind].
  pose proof (get_put_i32 v [] H) as G. unfold get_i32, get_u32, put_i32, put_u32 in *. cbn [app] in G.
  inversion G as [G']. rewrite G'. rewrite G'. reflexivity.
Qed.

Lemma rd_nullable_put fixed c r :
  match c with None => True | Some s => zlen s < 32768 end ->
  rd_nullable_string fixed (enc_nullable c ++ r) = Ok (c, r).
Proof.
  intros H. unfold rd_nullable_string, enc_nullable. destruct c as [s|].
  - pose proof (zlen_nonneg s). rewrite <- app_assoc. rewrite rd_i16_put by lia. cbn [bind].
    replace (zlen s =? -1) with false by lia. replace (zlen s <? 0) with false by lia.
    rewrite rd_read_app. reflexivity.
  - rewrite rd_i16_put by lia. reflexivity.
Qed.

Lemma rd_uvarint_put v r : 0 <= v < 2 ^ 64 -> rd_uvarint (put_uvarint v ++ r) = Ok (v, r).
Proof.
  intros H. unfold rd_uvarint. rewrite uvarint_put by exact H.
  pose proof (put_uvarint_len v). replace (zlen (put_uvarint v) <=? 0) with false by lia.
  rewrite zdrop_app. reflexivity.
Qed.

Lemma enc_tag_len t : 2 <= zlen (enc_tag t).
Proof.
  unfold enc_tag. rewrite !zlen_app. pose proof (put_uvarint_len (fst t)).
  pose proof (put_uvarint_len (zlen (snd t))). pose proof (zlen_nonneg (snd t)). lia.
Qed.

Lemma skip_fields_tags fixed ts : forall fuel i body,
  Forall tag_ok ts -> 0 <= i -> (length ts < fuel)%nat ->
  skip_fields fixed fuel i (i + zlen ts) (concat (map enc_tag ts) ++ body) = Ok body.
Proof.
  induction ts as [|t ts IH]; intros fuel i body Hok Hi Hf.
  - destruct fuel; cbn [skip_fields]; rewrite (@zlen_nil (Z * bytes)); replace (i + 0 <=? i) with true by lia; reflexivity.
  - destruct fuel as [|f]; [cbn [length] in Hf; lia|].
    inversion Hok as [|? ? [Ht Hl] Hts]; subst.
    cbn [skip_fields]. rewrite zlen_cons. pose proof (zlen_nonneg ts).
    replace (i + (1 + zlen ts) <=? i) with false by lia.
    cbn [map concat]. unfold enc_tag at 1. rewrite <- !app_assoc.
    rewrite rd_uvarint_put by exact Ht. cbn [bind].
    pose proof (zlen_nonneg (snd t)).
    rewrite rd_uvarint_put by lia. cbn [bind].
    replace (i + (1 + zlen ts)) with ((i + 1) + zlen ts) by lia.
    destruct (zlen (snd t) =? 0) eqn:E0.
    + assert (snd t = []) as -> by (destruct (snd t) as [|x0 l0]; [reflexivity|rewrite zlen_cons in E0; pose proof (zlen_nonneg l0); lia]).
      cbn [app]. apply IH; [assumption|lia|cbn [length] in Hf; lia].
    + replace (fixed && (zlen (snd t ++ concat (map enc_tag ts) ++ body) <? zlen (snd t))) with false
        by (rewrite zlen_app; pose proof (zlen_nonneg (concat (map enc_tag ts) ++ body)); destruct fixed; cbn [andb]; lia).
      rewrite wrap_s_64_small by lia. rewrite rd_read_app. cbn [bind].
      apply IH; [assumption|lia|cbn [length] in Hf; lia].
Qed.

Lemma concat_enc_tags_len ts : (2 * length ts <= length (concat (map enc_tag ts)))%nat.
Proof.
  induction ts as [|t ts IH]; cbn [map concat length]; [lia|].
  rewrite app_length. pose proof (enc_tag_len t). unfold zlen in *. lia.
Qed.

Lemma skip_tagged_fields_tags fixed ts body : tags_ok ts ->
  skip_tagged_fields fixed (enc_tags ts ++ body) = Ok body.
Proof.
  intros [Hok Hn]. unfold skip_tagged_fields, enc_tags. rewrite <- app_assoc.
  pose proof (zlen_nonneg ts). rewrite rd_uvarint_put by lia. cbn [bind].
  replace (zlen ts) with (0 + zlen ts) at 1 by lia.
  apply skip_fields_tags; [assumption|lia|].
  rewrite app_length. pose proof (concat_enc_tags_len ts). lia.
Qed.

Theorem header_roundtrip flex fixed h ts body :
  header_ok h -> tags_ok ts ->
  parse_header flex fixed (encode_header (flex (h_key h) (h_version h)) h ts ++ body) = Ok (h, body).
Proof.
  intros (Hk & Hv & Hc & Hs) Ht. unfold parse_header, encode_header. destruct h as [key ver corr cid]. cbn [h_key h_version h_corr h_client] in *.
  rewrite <- !app_assoc.
  rewrite rd_i16_put by exact Hk. cbn [bind].
  rewrite rd_i16_put by exact Hv. cbn [bind].
  rewrite rd_i32_put by exact Hc. cbn [bind].
  rewrite rd_nullable_put by exact Hs. cbn [bind].
  destruct (flex key ver).
  - rewrite skip_tagged_fields_tags by exact Ht. reflexivity.
  - reflexivity.
Qed.

Theorem request_roundtrip B known (body_read : Z -> Z -> bytes -> option B) flex fixed h ts body m :
  header_ok h -> tags_ok ts -> known (h_key h) = true ->
  body_read (h_key h) (h_version h) body = Some m ->
  parse_request B known body_read flex fixed (encode_header (flex (h_key h) (h_version h)) h ts ++ body) = Ok (h, m).
Proof.
  intros Hh Ht Hk Hb. unfold parse_request. rewrite header_roundtrip by assumption. cbn [bind].
  rewrite Hk, Hb. reflexivity.
Qed.

(* ---------------------------------------------------------------- frames *)
Theorem frame_roundtrip p rest : zlen p < 2147483648 -> read_frame (frame p ++ rest) = Ok (p, rest).
Proof.
  intros H. pose proof (zlen_nonneg p). unfold read_frame, frame. rewrite <- app_assoc.
  rewrite get_put_i32 by lia.
  assert (put_i32 (zlen p) ++ p ++ rest <> []) as NE by (unfold put_i32, put_u32; discriminate).
  destruct (put_i32 (zlen p) ++ p ++ rest) eqn:E; [contradiction|].
  replace (zlen p <? 0) with false by lia. unfold gmake. replace (zlen p <? 0) with false by lia. cbn [bind].
  replace (zlen (p ++ rest) <? zlen p) with false by (rewrite zlen_app; pose proof (zlen_nonneg rest); lia).
  rewrite ztake_app, zdrop_app. reflexivity.
Qed.

Theorem frame_negative_rejected b0 b1 b2 b3 r :
  byte_ok b0 -> byte_ok b1 -> byte_ok b2 -> byte_ok b3 -> 128 <= b0 ->
  read_frame (b0 :: b1 :: b2 :: b3 :: r) = Err E_FRAMELEN.
Proof.
  intros H0 H1 H2 H3 Hb. destruct (get_i32_neg b0 b1 b2 b3 r H0 H1 H2 H3 Hb) as (v & E & Hv).
  unfold read_frame. rewrite E. replace (v <? 0) with true by lia. reflexivity.
Qed.


(* the error path: a frame whose request does not parse ends the loop with E_CLOSED, and
   everything after that frame stays unread *)
Theorem serve_error_path B known (body_read : Z -> Z -> bytes -> option B) flex fixed fuel p rest e :
  zlen p < 2147483648 ->
  parse_request B known body_read flex fixed p = Err e ->
  serve B known body_read flex fixed (S fuel) (frame p ++ rest) = ([Err e], Err E_CLOSED, rest).
Proof.
  intros Hp HE. cbn [serve]. rewrite frame_roundtrip by exact Hp. rewrite HE. reflexivity.
Qed.

(* the code before the patch: a flexible header whose tagged-field size is 2^64-1 panics *)
Definition witness_flex (k v : Z) : bool := (k =? 18) && (3 <=? v).
Definition witness : bytes :=
  [0;18; 0;3; 0;0;0;1; 0;0; 1; 0; 255;255;255;255;255;255;255;255;255;1].

Theorem unpatched_panics : parse_header witness_flex false witness = Panic 1.
Proof. vm_compute. reflexivity. Qed.

Theorem patched_rejects_witness : parse_header witness_flex true witness = Err E_SHORT.
Proof. vm_compute. reflexivity. Qed.
