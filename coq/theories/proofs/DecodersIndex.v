(* C07, index clause: the entries written by IndexBuilder.MaybeAdd (as driven by
   BuildSegment) are strictly increasing in offset and position, and every entry is
   (base offset of a batch, file position where that batch starts). *)
From KS Require Import lib.Base lib.Varint lib.Outcome lib.Kafka model.Decoders.
From Coq Require Import ZifyBool Sorted.
Open Scope Z_scope.

(* (base offset, start position) of every batch when the first one starts at [pos] *)
Fixpoint batch_starts (bs : list rbatch) (pos : Z) : list (Z * Z) :=
  match bs with
  | [] => []
  | b :: bs' => (rb_base b, pos) :: batch_starts bs' (pos + zlen (rb_bytes b))
  end.

Definition body_len (bs : list rbatch) : Z := zlen (concat (map rb_bytes bs)).
Definition lt2 (a b : Z * Z) : Prop := fst a < fst b /\ snd a < snd b.

(* what the broker guarantees about the batches of one segment: base offsets strictly
   increasing, no empty payload, segment smaller than 2 GiB (positions are int32) *)
Definition batches_ok (bs : list rbatch) (pos : Z) : Prop :=
  StronglySorted Z.lt (map rb_base bs) /\ Forall (fun b => rb_bytes b <> []) bs /\
  0 <= pos /\ pos + body_len bs < 2 ^ 31.

Lemma body_len_cons b bs : body_len (b :: bs) = zlen (rb_bytes b) + body_len bs.
Proof. unfold body_len. cbn [map concat]. apply zlen_app. Qed.
Lemma body_len_nonneg bs : 0 <= body_len bs.
Proof. apply zlen_nonneg. Qed.

Lemma nonempty_pos (l : bytes) : l <> [] -> 1 <= zlen l.
Proof. destruct l as [|x l']; [congruence|]. intros _. rewrite zlen_cons. pose proof (zlen_nonneg l'). lia. Qed.

Lemma batches_ok_tail b bs pos : batches_ok (b :: bs) pos -> batches_ok bs (pos + zlen (rb_bytes b)).
Proof.
  intros (Hs & Hne & Hp & Hl). rewrite body_len_cons in Hl. cbn [map] in Hs.
  inversion Hs; subst. inversion Hne; subst. pose proof (zlen_nonneg (rb_bytes b)).
  repeat split; try assumption; lia.
Qed.

Lemma starts_bounds bs : forall pos e, In e (batch_starts bs pos) ->
  pos <= snd e /\ In (fst e) (map rb_base bs).
Proof.
  induction bs as [|b bs IH]; intros pos e H; cbn [batch_starts] in H; [contradiction|].
  destruct H as [<-|H]; cbn [fst snd map].
  - split; [lia|left; reflexivity].
  - apply IH in H as [H1 H2]. pose proof (zlen_nonneg (rb_bytes b)). split; [lia|right; exact H2].
Qed.

(* every index entry is the start of a batch *)
Lemma entries_are_starts iv bs : forall have since pos, batches_ok bs pos ->
  Forall (fun e => In e (batch_starts bs pos)) (index_entries iv bs have since pos).
Proof.
  induction bs as [|b bs IH]; intros have since pos Hok; cbn [index_entries batch_starts]; [constructor|].
  pose proof (batches_ok_tail _ _ _ Hok) as Hok'. destruct Hok as (_ & _ & Hp & Hl).
  rewrite body_len_cons in Hl. pose proof (body_len_nonneg bs). pose proof (zlen_nonneg (rb_bytes b)).
  assert (Hw : wrap_s 32 pos = pos).
  { apply to_signed_wrap; [lia|]. unfold in_signed. change (32 - 1) with 31. lia. }
  assert (Htl : forall h s, Forall (fun e => In e ((rb_base b, pos) :: batch_starts bs (pos + zlen (rb_bytes b))))
                               (index_entries iv bs h s (pos + zlen (rb_bytes b)))).
  { intros h s. eapply Forall_impl; [|apply IH; exact Hok']. intros e He. right. exact He. }
  destruct (negb have || (iv <=? since)).
  - rewrite Hw. constructor; [left; reflexivity|apply Htl].
  - apply Htl.
Qed.

Lemma starts_sorted bs : forall pos, batches_ok bs pos -> StronglySorted lt2 (batch_starts bs pos).
Proof.
  induction bs as [|b bs IH]; intros pos Hok; cbn [batch_starts]; [constructor|].
  pose proof (batches_ok_tail _ _ _ Hok) as Hok'. destruct Hok as (Hs & Hne & Hp & Hl).
  constructor; [apply IH; exact Hok'|].
  apply Forall_forall. intros e He. apply starts_bounds in He as [H1 H2].
  cbn [map] in Hs. inversion Hs as [|? ? _ Hall]; subst. inversion Hne as [|? ? Hb _]; subst.
  pose proof (nonempty_pos _ Hb). rewrite Forall_forall in Hall.
  split; cbn [fst snd]; [apply Hall; exact H2|lia].
Qed.

(* a list whose elements all come, in order, from a strictly sorted list *)
Lemma entries_sorted iv bs : forall have since pos, batches_ok bs pos ->
  StronglySorted lt2 (index_entries iv bs have since pos).
Proof.
  induction bs as [|b bs IH]; intros have since pos Hok; cbn [index_entries]; [constructor|].
  pose proof (batches_ok_tail _ _ _ Hok) as Hok'.
  pose proof (starts_sorted _ _ Hok) as Hss. cbn [batch_starts] in Hss. inversion Hss as [|? ? _ Hlt]; subst.
  destruct Hok as (_ & _ & Hp & Hl). rewrite body_len_cons in Hl.
  pose proof (body_len_nonneg bs). pose proof (zlen_nonneg (rb_bytes b)).
  assert (Hw : wrap_s 32 pos = pos).
  { apply to_signed_wrap; [lia|]. unfold in_signed. change (32 - 1) with 31. lia. }
  destruct (negb have || (iv <=? since)); [|apply IH; exact Hok'].
  rewrite Hw. constructor; [apply IH; exact Hok'|].
  rewrite Forall_forall in Hlt. apply Forall_forall. intros e He. apply Hlt.
  match type of He with In _ (index_entries _ _ ?h ?s ?p) =>
    pose proof (entries_are_starts iv bs h s p Hok') as Hin end.
  rewrite Forall_forall in Hin. apply Hin, He.
Qed.

Lemma c07_index_entries crc interval bs created a :
  build_segment crc interval bs created = Some a -> batches_ok bs 32 ->
  StronglySorted lt2 (a_entries a) /\
  Forall (fun e => In e (batch_starts bs 32)) (a_entries a) /\
  (exists b0 rest, bs = b0 :: rest /\ hd_error (a_entries a) = Some (rb_base b0, 32)) /\
  a_index a = index_bytes (if interval <=? 0 then 1 else interval) (a_entries a).
Proof.
  intros Hb Hok. unfold build_segment in Hb. destruct bs as [|b0 rest]; [discriminate|].
  destruct (existsb _ _); [discriminate|]. injection Hb as Ha. subst a. cbn [a_entries a_index].
  set (iv := if interval <=? 0 then 1 else interval).
  split; [exact (entries_sorted iv (b0 :: rest) false 0 32 Hok)|].
  split; [exact (entries_are_starts iv (b0 :: rest) false 0 32 Hok)|].
  split; [|reflexivity]. exists b0, rest. split; reflexivity.
Qed.
