(* The etcd key parsers undo the key builders (for names the etcd layout can represent). *)
From Coq Require Import Ascii String DecimalString DecimalZ DecimalPos Decimal.
From KS Require Import lib.Base lib.Strings lib.Paths model.MetaStore proofs.MetaStoreProofs.
Open Scope Z_scope.

Lemma dv_acc d : forall acc,
  digits_val (Z.pos acc) (codes (NilEmpty.string_of_uint d)) = Some (Z.pos (Pos.of_uint_acc d acc)).
Proof.
  induction d; intros acc; cbn [NilEmpty.string_of_uint codes digits_val Pos.of_uint_acc];
    try reflexivity;
    (change (code _) with 48 || change (code _) with 49 || change (code _) with 50 || change (code _) with 51 ||
     change (code _) with 52 || change (code _) with 53 || change (code _) with 54 || change (code _) with 55 ||
     change (code _) with 56 || change (code _) with 57);
    cbn [Z.leb Z.compare Pos.compare Pos.compare_cont andb];
    match goal with |- digits_val ?a _ = Some (Z.pos (Pos.of_uint_acc _ ?b)) =>
      replace a with (Z.pos b) by lia end; apply IHd.
Qed.

Lemma dv0 d : digits_val 0 (codes (NilEmpty.string_of_uint d)) = Some (Z.of_uint d).
Proof.
  unfold Z.of_uint. induction d; cbn [NilEmpty.string_of_uint codes digits_val Pos.of_uint];
    try reflexivity;
    (change (code _) with 48 || change (code _) with 49 || change (code _) with 50 || change (code _) with 51 ||
     change (code _) with 52 || change (code _) with 53 || change (code _) with 54 || change (code _) with 55 ||
     change (code _) with 56 || change (code _) with 57);
    cbn [Z.leb Z.compare Pos.compare Pos.compare_cont andb Z.mul Z.add Z.sub Z.opp Z.pos_sub Pos.add Pos.succ Pos.pred_double];
    first [exact IHd | apply dv_acc].
Qed.

Lemma uint_first d : d <> Nil ->
  exists c r, codes (NilEmpty.string_of_uint d) = c :: r /\ 48 <= c <= 57.
Proof.
  destruct d; intros H; [congruence|..]; cbn [NilEmpty.string_of_uint codes];
    eexists _, _; (split; [reflexivity|]); vm_compute; split; discriminate.
Qed.

Lemma parse_dec_dec z : int32_ok z = true -> parse_dec (dec z) = Some z.
Proof.
  intros Hr. unfold dec. pose proof (DecimalZ.of_to z) as Hof.
  destruct (Z.to_int z) as [d|d] eqn:Ei.
  - assert (d <> Nil) as Hd.
    { destruct z; cbn in Ei; inversion Ei; [discriminate|apply Unsigned.to_uint_nonnil]. }
    cbn [NilEmpty.string_of_int]. destruct (uint_first d Hd) as (c & r & Ec & Hc).
    pose proof (dv0 d) as Hv. rewrite Ec in *. unfold parse_dec.
    replace (c =? 45) with false by (symmetry; apply Z.eqb_neq; lia).
    replace (c =? 43) with false by (symmetry; apply Z.eqb_neq; lia).
    rewrite Hv. cbn in Hof. rewrite Hof, Hr. reflexivity.
  - assert (d <> Nil) as Hd.
    { destruct z; cbn in Ei; inversion Ei. apply Unsigned.to_uint_nonnil. }
    cbn [NilEmpty.string_of_int codes]. change (code "-") with 45.
    destruct (uint_first d Hd) as (c & r & Ec & Hc).
    pose proof (dv0 d) as Hv. unfold parse_dec. rewrite Z.eqb_refl. rewrite Ec in *.
    rewrite Hv. cbn in Hof. rewrite Hof, Hr. reflexivity.
Qed.

(* ---------- prefix / suffix stripping ---------- *)
Lemma strip_prefix_app pfx s : strip_prefix pfx (pfx ++ s) = Some s.
Proof. induction pfx as [|a pfx IH]; cbn; [reflexivity|]. now rewrite Z.eqb_refl. Qed.

Lemma strip_suffix_app sfx s : strip_suffix sfx (s ++ sfx) = Some s.
Proof.
  unfold strip_suffix. rewrite rev_app_distr, strip_prefix_app. cbn. now rewrite rev_involutive.
Qed.

Definition name_ok (n : bytes) : Prop := n <> [] /\ noslash n.

Lemma existsb_slash_false g : noslash g -> existsb (Z.eqb slash) g = false.
Proof.
  intros H. destruct (existsb (Z.eqb slash) g) eqn:E; [|reflexivity].
  apply existsb_exists in E as (x & Hin & Hx). apply Z.eqb_eq in Hx. subst x. contradiction.
Qed.

Lemma parse_group_key_build g : name_ok g -> parse_group_key (group_key g) = Some g.
Proof.
  intros [Hne Hs]. unfold parse_group_key, group_key.
  replace (consumers_pfx ++ slash :: g ++ lit "/metadata") with ((consumers_pfx ++ [slash]) ++ g ++ lit "/metadata")
    by (rewrite <- app_assoc; reflexivity).
  rewrite strip_prefix_app, strip_suffix_app.
  destruct g; [congruence|]. now rewrite existsb_slash_false.
Qed.

Lemma parse_coff_key_build g t p :
  name_ok g -> name_ok t -> int32_ok p = true -> parse_coff_key (coff_key g t p) = Some (g, t, p).
Proof.
  intros [Hg Hgs] [Ht Hts] Hp. unfold parse_coff_key, coff_key.
  replace (consumers_pfx ++ slash :: g ++ lit "/offsets/" ++ t ++ slash :: dec p)
    with ((consumers_pfx ++ [slash]) ++ g ++ slash :: lit "offsets" ++ slash :: t ++ slash :: dec p)
    by (rewrite <- app_assoc; reflexivity).
  rewrite strip_prefix_app.
  rewrite split_on_app_sep, (split_on_nosep slash g Hgs).
  rewrite split_on_app_sep, (split_on_nosep slash (lit "offsets")) by (vm_compute; intuition discriminate).
  rewrite split_on_app_sep, (split_on_nosep slash t Hts).
  rewrite (split_on_nosep slash (dec p)) by (apply dec_no_sep; exact slash_not_dec).
  cbn [app]. rewrite bytes_eqb_refl.
  destruct g; [congruence|]. destruct t; [congruence|]. now rewrite parse_dec_dec.
Qed.
