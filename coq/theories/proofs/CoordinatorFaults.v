(* The coordinator under transient store failures (model/CoordinatorFaults.v): which
   invariants survive arbitrary failures of the load, persist and offset-commit calls,
   and which claims need "the last whole-group write succeeded". *)
From Coq Require Import Permutation ZifyBool.
From KS Require Import lib.Base model.Coordinator model.CoordinatorFaults
  proofs.CoordinatorBase proofs.CoordinatorProofs.
Open Scope Z_scope.

(* what holds whatever fails: the group in memory is well formed, the store holds the
   persisted form of SOME well-formed group (possibly an older one) *)
Definition inv2 (E : env) (s : st) : Prop :=
  (forall g, s_mem s = Some g -> wf E g) /\
  (forall pg, s_store s = Some pg -> exists g0, wf E g0 /\ pg = pview E g0).

(* the last whole-group write succeeded: the store holds the group that is in memory *)
Definition synced (E : env) (s : st) : Prop :=
  match s_mem s with
  | Some g => s_store s = Some (pview E g)
  | None => True
  end.

Lemma inv_inv2 E s : inv E s -> inv2 E s /\ synced E s.
Proof.
  unfold inv, inv2, synced. destruct (s_store s) as [pg|] eqn:Es.
  - intros [g [Hw [Hp [Hm|Hm]]]]; rewrite Hm; (split; [split|]); try discriminate; auto.
    + intros pg' H. inversion H; subst. eauto.
    + intros g' H. inversion H; subst. exact Hw.
    + intros pg' H. inversion H; subst. eauto.
    + now subst.
  - intros ->. split; [split|]; try discriminate; auto.
Qed.

Lemma inv2_synced_inv E s : inv2 E s -> synced E s -> inv E s.
Proof.
  unfold inv, inv2, synced. intros [Hm Hs] Hy. destruct (s_mem s) as [g|] eqn:Em.
  - rewrite Hy. exists g. split; [now apply Hm|]. auto.
  - destruct (s_store s) as [pg|] eqn:Es; [|reflexivity].
    destruct (Hs pg eq_refl) as [g0 [Hw Hp]]. exists g0. auto.
Qed.

Lemma inv2_init E : inv2 E init.
Proof. split; cbn; discriminate. Qed.

Lemma loadf_wf E s now f g : inv2 E s -> loadf s now f = LGroup g -> wf E g.
Proof.
  intros [Hm Hs]. unfold loadf. destruct (s_mem s) as [gm|] eqn:Em.
  - intros H. inversion H; subst. now apply Hm.
  - destruct (f_load f); [discriminate|]. destruct (s_store s) as [pg|] eqn:Es; [|discriminate].
    intros H. inversion H; subst. destruct (Hs pg eq_refl) as [g0 [Hw ->]].
    apply (restore_spec E g0 now Hw).
Qed.

(* an outcome is acceptable if the group it leaves in memory is well formed *)
Definition ok_outcome (E : env) (o : outcome) : Prop :=
  match o with
  | Keep g _ | Save g _ => wf E g
  | Gone _ => True
  end.

Lemma applyf_inv2 E s o f : inv2 E s -> ok_outcome E o -> inv2 E (fst (applyf E s o f)).
Proof.
  intros [Hm Hs] Ho. destruct o as [g r|g r|r]; cbn in *.
  - split; cbn; [intros g' H; inversion H; subst; exact Ho|exact Hs].
  - destruct (f_persist f); cbn.
    + split; cbn; [intros g' H; inversion H; subst; exact Ho|exact Hs].
    + rewrite commit_group_eq by exact Ho. split; cbn.
      * intros g' H; inversion H; subst; exact Ho.
      * intros pg H. inversion H; subst. eauto.
  - destruct (f_persist f); cbn; split; cbn; try discriminate; auto.
Qed.

Lemma join_outcome_ok E g mid fresh sess reb topics now :
  wf E g \/ g = new_group -> ok_outcome E (join_g g mid fresh sess reb topics now).
Proof.
  intros Hg. destruct (join_g_spec E g mid fresh sess reb topics now Hg) as [g5 [e [ms [Heq [Hw _]]]]].
  rewrite Heq. exact Hw.
Qed.

Lemma sync_outcome_ok E g mid gen : wf E g -> ok_outcome E (sync_g E g mid gen).
Proof.
  intros Hw. pose proof (sync_g_spec E g mid gen Hw) as Hp.
  destruct (sync_g E g mid gen) as [g' r|g' r|r]; cbn in *; destruct r; try contradiction; try tauto.
  destruct Hp as [-> _]. exact Hw.
Qed.

Lemma hb_outcome_ok E g mid gen now : wf E g -> ok_outcome E (heartbeat_g g mid gen now).
Proof.
  intros Hw. pose proof (heartbeat_g_spec E g mid gen now Hw) as Hp.
  destruct (heartbeat_g g mid gen now) as [g' r|g' r|r]; cbn in *; destruct r; try contradiction; try tauto.
  destruct Hp as [-> _]. exact Hw.
Qed.

Lemma leave_outcome_ok E g mid now : wf E g -> ok_outcome E (leave_g g mid now).
Proof.
  intros Hw. pose proof (leave_g_spec E g mid now Hw) as Hp.
  destruct (leave_g g mid now) as [g' r|g' r|r]; cbn in *; destruct r; try contradiction; try tauto.
  destruct Hp as [-> _]. exact Hw.
Qed.

Lemma cleanup_outcome_ok E g now o : wf E g -> cleanup_g g now = Some o -> ok_outcome E o.
Proof.
  intros Hw Hc. pose proof (cleanup_g_spec E g now Hw) as Hp. rewrite Hc in Hp.
  destruct o as [g' r|g' r|r]; cbn in *; try contradiction; tauto.
Qed.

Lemma stepf_inv2 E s o f : inv2 E s -> inv2 E (fst (stepf E s o f)).
Proof.
  intros Hinv. pose proof Hinv as [Hm Hs].
  destruct o as [mid fresh sess reb topics now|mid gen now|mid gen now|mid now|mid gen t p off now|now|]; cbn [stepf].
  - destruct (loadf s now f) as [g| |] eqn:Hl; cbn [fst some_reply]; [| |exact Hinv].
    + apply applyf_inv2; [exact Hinv|]. apply join_outcome_ok. left. eapply loadf_wf; eauto.
    + apply applyf_inv2; [exact Hinv|]. apply join_outcome_ok. now right.
  - destruct (loadf s now f) as [g| |] eqn:Hl; cbn [fst some_reply]; [|exact Hinv|exact Hinv].
    apply applyf_inv2; [exact Hinv|]. apply sync_outcome_ok. eapply loadf_wf; eauto.
  - destruct (loadf s now f) as [g| |] eqn:Hl; cbn [fst some_reply]; [|exact Hinv|exact Hinv].
    apply applyf_inv2; [exact Hinv|]. apply hb_outcome_ok. eapply loadf_wf; eauto.
  - destruct (loadf s now f) as [g| |] eqn:Hl; cbn [fst some_reply]; [|exact Hinv|exact Hinv].
    apply applyf_inv2; [exact Hinv|]. apply leave_outcome_ok. eapply loadf_wf; eauto.
  - destruct (loadf s now f) as [g| |] eqn:Hl; cbn [fst]; [|exact Hinv|exact Hinv].
    assert (wf E g) as Hw by (eapply loadf_wf; eauto).
    destruct (commit_err g mid gen =? NONE); [destruct (f_commit f)|]; cbn;
      (split; cbn; [intros g' H; inversion H; subst; exact Hw|exact Hs]).
  - destruct (s_mem s) as [g|] eqn:Em; [|exact Hinv].
    destruct (cleanup_g g now) as [o|] eqn:Hc; [|exact Hinv]. cbn [fst some_reply].
    apply applyf_inv2; [exact Hinv|]. eapply cleanup_outcome_ok; eauto.
  - cbn. split; cbn; [discriminate|exact Hs].
Qed.

Lemma runf_from_inv2 E s h : inv2 E s -> inv2 E (runf_from E s h).
Proof.
  revert s; induction h as [|[o f] h IH]; intros s H; cbn; [exact H|]. apply IH. now apply stepf_inv2.
Qed.

Lemma runf_inv2 E h : inv2 E (runf E h).
Proof. apply runf_from_inv2, inv2_init. Qed.

(* without faults the faulty step is the plain step *)
Lemma applyf_no_fault E s o : applyf E s o no_fault = apply E s o.
Proof. destruct o; reflexivity. Qed.

Lemma stepf_no_fault E s o : stepf E s o no_fault = (fst (step E s o), Some (snd (step E s o))).
Proof.
  destruct o as [mid fresh sess reb topics now|mid gen now|mid gen now|mid now|mid gen t p off now|now|];
    cbn [stepf step]; unfold loadf, load; cbn [f_load f_commit no_fault]; rewrite ?applyf_no_fault; unfold some_reply.
  - destruct (s_mem s) as [g|]; [reflexivity|]. destruct (s_store s) as [pg|]; reflexivity.
  - destruct (s_mem s) as [g|]; [reflexivity|]. destruct (s_store s) as [pg|]; reflexivity.
  - destruct (s_mem s) as [g|]; [reflexivity|]. destruct (s_store s) as [pg|]; reflexivity.
  - destruct (s_mem s) as [g|]; [reflexivity|]. destruct (s_store s) as [pg|]; reflexivity.
  - destruct (s_mem s) as [g|]; [|destruct (s_store s) as [pg|]]; try reflexivity;
      match goal with |- context [commit_err ?g mid gen =? NONE] => destruct (commit_err g mid gen =? NONE) eqn:Ec end;
      cbn; try reflexivity; assert (commit_err _ mid gen = NONE) as -> by lia; reflexivity.
  - destruct (s_mem s) as [g|]; [|reflexivity]. destruct (cleanup_g g now) as [o|]; [|reflexivity].
    now rewrite applyf_no_fault.
  - reflexivity.
Qed.

(* ================= C14 under arbitrary store failures ================= *)
Lemma c14f_join E s mid fresh sess reb topics now f s' e gen ld id ms :
  inv2 E s -> stepf E s (Join mid fresh sess reb topics now) f = (s', Some (RJoin e gen ld id ms)) ->
  exists g', s_mem s' = Some g' /\ wf E g' /\ gen = g_gen g' /\ ld = g_leader g' /\
    (exists l, ld = Some l /\ In l (keys g')) /\ In id (keys g') /\
    (e = NONE -> f_persist f = false /\ all_joined g' = true) /\
    (ms <> [] -> e = NONE /\ ld = Some id).
Proof.
  intros Hinv H. cbn [stepf] in H.
  assert (exists g, (wf E g \/ g = new_group) /\
            (s', Some (RJoin e gen ld id ms)) = some_reply (applyf E s (join_g g mid fresh sess reb topics now) f)) as [g [Hg Heq]].
  { destruct (loadf s now f) as [g| |] eqn:Hl; [| |discriminate].
    - exists g. split; [left; eapply loadf_wf; eauto|now rewrite H].
    - exists new_group. split; [now right|now rewrite H]. }
  clear H. destruct (join_g_spec E g mid fresh sess reb topics now Hg) as [g5 [e5 [ms5 [Hj [Hw5 [_ [Hin [He [Hph [Hms _]]]]]]]]]].
  rewrite Hj in Heq. cbn in Heq. destruct (wf_leader E g5 Hw5) as [l [Hl Hlin]].
  destruct (f_persist f) eqn:Ef; cbn in Heq; inversion Heq; subst; clear Heq.
  - exists g5. cbn. split; [reflexivity|]. split; [exact Hw5|]. split; [reflexivity|]. split; [reflexivity|].
    split; [eauto|]. split; [exact Hin|]. split; [discriminate|]. congruence.
  - rewrite commit_group_eq by exact Hw5. exists g5. cbn. split; [reflexivity|]. split; [exact Hw5|].
    split; [reflexivity|]. split; [reflexivity|]. split; [eauto|]. split; [exact Hin|]. split; [|exact Hms].
    intros He0. split; [reflexivity|]. apply (wf_joined E g5 Hw5). now apply Hph.
Qed.

Lemma c14f_sync E s mid now f g :
  inv2 E s -> loadf s now f = LGroup g -> In mid (keys g) ->
  g_phase g = PStable \/ (g_phase g = PCompleting /\ g_leader g = Some mid) ->
  f_persist f = false ->
  exists s' a g', stepf E s (Sync mid (g_gen g) now) f = (s', Some (RSync NONE a)) /\
                  s_mem s' = Some g' /\ g_phase g' = PStable /\ g_gen g' = g_gen g.
Proof.
  intros Hinv Hl Hin Hph Hf. cbn [stepf]. rewrite Hl.
  assert (wf E g) as Hw by (eapply loadf_wf; eauto).
  destruct (sync_g_ok E g mid Hw Hin Hph) as [g' [a [Heq [Hp Hg]]]]. rewrite Heq. cbn. rewrite Hf. cbn.
  pose proof (sync_g_spec E g mid (g_gen g) Hw) as Hsp. rewrite Heq in Hsp. cbn in Hsp.
  rewrite commit_group_eq by tauto. eexists _, a, g'. split; [reflexivity|]. cbn. auto.
Qed.

(* ================= C12 under arbitrary store failures ================= *)
Lemma c12f_assignment_partition E s mid gen now f s' a :
  inv2 E s -> stepf E s (Sync mid gen now) f = (s', Some (RSync NONE a)) ->
  exists g, s_mem s' = Some g /\ g_gen g = gen /\ In mid (keys g) /\ a = assignment_of g mid /\
            (forall id, In id (keys g) -> assignment_of g id = assign_for E (subs (g_members g)) id) /\
            is_partition E g.
Proof.
  intros Hinv H. cbn [stepf] in H. destruct (loadf s now f) as [g| |] eqn:Hl; [|inversion H|discriminate].
  assert (wf E g) as Hw by (eapply loadf_wf; eauto).
  pose proof (sync_g_spec E g mid gen Hw) as Hp.
  destruct (sync_g E g mid gen) as [g' r|g' r|r]; cbn in Hp, H; destruct r; try contradiction.
  - destruct Hp as [_ [Hne _]]. inversion H; subst. congruence.
  - destruct Hp as [Hw' [_ [Hg [Hin [_ [Hph [Hg' [Hm' [_ [_ [Ha2 _]]]]]]]]]]].
    destruct (f_persist f); cbn in H; [inversion H|]. rewrite commit_group_eq in H by exact Hw'.
    inversion H; subst. exists g'. cbn. split; [reflexivity|]. split; [lia|].
    split; [unfold keys; now rewrite Hm'|]. split; [reflexivity|].
    split; [apply (wf_assign E g' Hw' Hph)|apply (stable_partition E g' Hw' Hph)].
Qed.

(* ================= C13 under arbitrary store failures ================= *)
Definition currentf (s : st) (now : Z) (f : fault) (mid gen : Z) : Prop :=
  exists g, loadf s now f = LGroup g /\ In mid (keys g) /\ gen = g_gen g.

Definition reply_err_opt (r : option reply) : Z :=
  match r with Some r => reply_err r | None => UNKNOWN_SERVER_ERROR end.

Lemma applyf_off E s o f : s_off (fst (applyf E s o f)) = s_off s.
Proof.
  destruct o; cbn; try reflexivity; destruct (f_persist f); cbn; try reflexivity.
  unfold commit_group, persist. cbn. destruct (g_members g); reflexivity.
Qed.

Lemma persist_failed_err r : reply_err r <> NONE -> reply_err (persist_failed r) <> NONE.
Proof. destruct r; cbn; intros; try discriminate; assumption. Qed.

Lemma c13f_fenced E s o f mid gen now :
  (o = Sync mid gen now \/ o = Heartbeat mid gen now \/ exists t p off, o = Commit mid gen t p off now) ->
  ~ currentf s now f mid gen ->
  reply_err_opt (snd (stepf E s o f)) <> NONE /\ s_off (fst (stepf E s o f)) = s_off s.
Proof.
  intros Ho Hnc. unfold currentf in Hnc.
  destruct Ho as [->|[->|[t [p [off ->]]]]]; cbn [stepf]; destruct (loadf s now f) as [g| |] eqn:Hl;
    try (cbn; split; [discriminate|reflexivity]).
  - cbn [some_reply fst snd]. split; [|apply applyf_off]. unfold sync_g.
    destruct (gen =? g_gen g) eqn:Eg; cbn [negb]; [|cbn; discriminate].
    destruct (amem mid (g_members g)) eqn:Em; cbn [negb]; [|cbn; discriminate].
    exfalso. apply Hnc. exists g. split; [reflexivity|]. split; [now apply amem_In|lia].
  - cbn [some_reply fst snd]. split; [|apply applyf_off]. unfold heartbeat_g.
    destruct (alookup mid (g_members g)) as [m|] eqn:El; [|cbn; discriminate].
    destruct (gen =? g_gen g) eqn:Eg; cbn [negb]; [|cbn; discriminate].
    exfalso. apply Hnc. exists g. split; [reflexivity|]. split; [|lia].
    apply amem_In. unfold amem. now rewrite El.
  - unfold commit_err.
    destruct (amem mid (g_members g)) eqn:Em; cbn [negb]; [|cbn; split; [discriminate|reflexivity]].
    destruct (gen =? g_gen g) eqn:Eg; cbn [negb]; [|cbn; split; [discriminate|reflexivity]].
    exfalso. apply Hnc. exists g. split; [reflexivity|]. split; [now apply amem_In|lia].
Qed.

(* the generation of the group a coordinator holds in memory never decreases, whatever
   store call fails (going back is only possible through a reload of a stale store) *)
Lemma c13f_generation_monotone_in_memory E s o f g g' :
  inv2 E s -> s_mem s = Some g -> s_mem (fst (stepf E s o f)) = Some g' -> g_gen g <= g_gen g'.
Proof.
  intros Hinv Hm Hm'. pose proof (proj1 Hinv g Hm) as Hw.
  assert (forall now, loadf s now f = LGroup g) as Hl by (intros now; unfold loadf; now rewrite Hm).
  assert (forall oc, ok_outcome E oc ->
            (forall gx r, oc = Keep gx r \/ oc = Save gx r -> g_gen g <= g_gen gx) ->
            s_mem (fst (applyf E s oc f)) = Some g' -> g_gen g <= g_gen g') as Happ.
  { intros oc Hok Hge H. destruct oc as [gx r|gx r|r]; cbn in H.
    - inversion H; subst. eapply Hge; eauto.
    - destruct (f_persist f); cbn in H.
      + inversion H; subst. eapply Hge; eauto.
      + rewrite commit_group_eq in H by exact Hok. cbn in H. inversion H; subst. eapply Hge; eauto.
    - destruct (f_persist f); cbn in H; discriminate. }
  destruct o as [mid fresh sess reb topics now|mid gen now|mid gen now|mid now|mid gen t p off now|now|]; cbn [stepf] in Hm'; rewrite ?Hl in Hm'; cbn [fst some_reply] in Hm'.
  - apply (Happ (join_g g mid fresh sess reb topics now)); [apply join_outcome_ok; left; exact Hw| |exact Hm'].
    destruct (join_g_spec E g mid fresh sess reb topics now (or_introl Hw)) as [g5 [e [ms [Heq [_ [Hge _]]]]]].
    rewrite Heq. intros gx r [H|H]; inversion H; subst; exact Hge.
  - apply (Happ (sync_g E g mid gen)); [now apply sync_outcome_ok| |exact Hm'].
    pose proof (sync_g_spec E g mid gen Hw) as Hp. intros gx r [H|H]; rewrite H in Hp; cbn in Hp; destruct r; try contradiction.
    + destruct Hp as [-> _]. lia.
    + destruct Hp as [_ [_ [_ [_ [_ [_ [Hg _]]]]]]]. lia.
  - apply (Happ (heartbeat_g g mid gen now)); [now apply hb_outcome_ok| |exact Hm'].
    pose proof (heartbeat_g_spec E g mid gen now Hw) as Hp. intros gx r [H|H]; rewrite H in Hp; cbn in Hp; destruct r; try contradiction.
    + destruct Hp as [-> _]. lia.
    + destruct Hp as [_ [_ [_ [Hg _]]]]. lia.
  - apply (Happ (leave_g g mid now)); [now apply leave_outcome_ok| |exact Hm'].
    pose proof (leave_g_spec E g mid now Hw) as Hp. intros gx r [H|H]; rewrite H in Hp; cbn in Hp; destruct r; try contradiction.
    + destruct Hp as [-> _]. lia.
    + destruct Hp as [_ [_ [_ [Hg _]]]]. lia.
  - destruct (commit_err g mid gen =? NONE); [destruct (f_commit f)|]; cbn in Hm'; inversion Hm'; subst; lia.
  - rewrite Hm in Hm'. destruct (cleanup_g g now) as [oc|] eqn:Hc.
    + cbn [fst some_reply] in Hm'. apply (Happ oc); [eapply cleanup_outcome_ok; eauto| |exact Hm'].
      pose proof (cleanup_g_spec E g now Hw) as Hp. rewrite Hc in Hp.
      intros gx r [H|H]; rewrite H in Hp; cbn in Hp; [contradiction|]. destruct Hp as [_ [_ [Hg _]]]. lia.
    + cbn in Hm'. rewrite Hm in Hm'. inversion Hm'; subst. lia.
  - cbn in Hm'. discriminate.
Qed.

(* a state is synced again after every operation whose whole-group write succeeded, and
   stays synced through operations that write nothing *)
Lemma synced_after_step E s o f :
  inv2 E s -> synced E s -> f_persist f = false -> synced E (fst (stepf E s o f)).
Proof.
  intros Hinv Hy Hf. pose proof (inv2_synced_inv E s Hinv Hy) as Hi.
  assert (forall now g, loadf s now f = LGroup g -> s_store s = Some (pview E g)) as Hls.
  { intros now g Hl. unfold loadf in Hl. destruct (s_mem s) as [gm|] eqn:Em.
    - inversion Hl; subst. unfold synced in Hy. now rewrite Em in Hy.
    - destruct (f_load f); [discriminate|]. destruct (s_store s) as [pg|] eqn:Es; [|discriminate].
      inversion Hl; subst. destruct (proj2 Hinv pg Es) as [g0 [Hw ->]].
      f_equal. symmetry. apply (restore_spec E g0 now Hw). }
  assert (forall oc gl now, loadf s now f = LGroup gl -> ok_outcome E oc ->
            (forall gx r, oc = Keep gx r -> gx = gl) -> synced E (fst (applyf E s oc f))) as Happ.
  { intros oc gl now Hl Hok Hk. destruct oc as [gx r|gx r|r]; cbn.
    - unfold synced. cbn. rewrite (Hk gx r eq_refl). eapply Hls; eauto.
    - rewrite Hf. cbn. rewrite commit_group_eq by exact Hok. unfold synced. reflexivity.
    - rewrite Hf. exact I. }
  destruct o as [mid fresh sess reb topics now|mid gen now|mid gen now|mid now|mid gen t p off now|now|]; cbn [stepf].
  - destruct (loadf s now f) as [g| |] eqn:Hl; cbn [fst some_reply]; [| |exact Hy].
    + assert (wf E g) as Hw by (eapply loadf_wf; eauto).
      eapply Happ; [exact Hl|apply join_outcome_ok; now left|].
      destruct (join_g_spec E g mid fresh sess reb topics now (or_introl Hw)) as [g5 [e [ms [Heq _]]]].
      rewrite Heq. discriminate.
    + destruct (join_g_spec E new_group mid fresh sess reb topics now (or_intror eq_refl)) as [g5 [e [ms [Heq [Hw5 _]]]]].
      rewrite Heq. cbn. rewrite Hf. cbn. rewrite commit_group_eq by exact Hw5. reflexivity.
  - destruct (loadf s now f) as [g| |] eqn:Hl; cbn [fst some_reply]; [|exact Hy|exact Hy].
    assert (wf E g) as Hw by (eapply loadf_wf; eauto).
    eapply Happ; [exact Hl|now apply sync_outcome_ok|].
    pose proof (sync_g_spec E g mid gen Hw) as Hp. intros gx r H; rewrite H in Hp; cbn in Hp; destruct r; try contradiction. tauto.
  - destruct (loadf s now f) as [g| |] eqn:Hl; cbn [fst some_reply]; [|exact Hy|exact Hy].
    assert (wf E g) as Hw by (eapply loadf_wf; eauto).
    eapply Happ; [exact Hl|now apply hb_outcome_ok|].
    pose proof (heartbeat_g_spec E g mid gen now Hw) as Hp. intros gx r H; rewrite H in Hp; cbn in Hp; destruct r; try contradiction. tauto.
  - destruct (loadf s now f) as [g| |] eqn:Hl; cbn [fst some_reply]; [|exact Hy|exact Hy].
    assert (wf E g) as Hw by (eapply loadf_wf; eauto).
    eapply Happ; [exact Hl|now apply leave_outcome_ok|].
    pose proof (leave_g_spec E g mid now Hw) as Hp. intros gx r H; rewrite H in Hp; cbn in Hp; destruct r; try contradiction. tauto.
  - destruct (loadf s now f) as [g| |] eqn:Hl; cbn [fst]; [|exact Hy|exact Hy].
    destruct (commit_err g mid gen =? NONE); [destruct (f_commit f)|]; unfold synced; cbn; eapply Hls; eauto.
  - destruct (s_mem s) as [g|] eqn:Em; [|exact Hy].
    assert (loadf s now f = LGroup g) as Hl by (unfold loadf; now rewrite Em).
    assert (wf E g) as Hw by (eapply loadf_wf; eauto).
    destruct (cleanup_g g now) as [oc|] eqn:Hc; [|exact Hy]. cbn [fst some_reply].
    eapply Happ; [exact Hl|eapply cleanup_outcome_ok; eauto|].
    pose proof (cleanup_g_spec E g now Hw) as Hp. rewrite Hc in Hp. intros gx r H; rewrite H in Hp; cbn in Hp. contradiction.
  - exact I.
Qed.
