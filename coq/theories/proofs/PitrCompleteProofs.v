(* Completeness and order of the copy (C08): a successful restore leaves EXACTLY the
   store computed by the fault-free specification [restore_spec]: per selected
   partition, in base-offset order, byte-identical copies of the segment/index objects
   before the last candidate followed by build_plan's rewrite of the last candidate
   (nothing if it keeps no record), and nothing else changes. *)
From KS Require Import lib.Base lib.PitrWire model.Pitr proofs.PitrProofs.
Open Scope Z_scope.

Section Complete.
Variable crc : bytes -> Z.
Local Notation plan_list := (plan_list crc).
Local Notation part_spec := (part_spec crc).
Local Notation restore_spec := (restore_spec crc).

(* ---------- the calls, when they succeed ---------- *)
Lemma w_get_range_some w k st en v w1 : w_get w k (Some (st, en)) = (Ok v, w1) ->
  exists full, s_get (w_objs w) k = Some full /\ get_range full st en = Some v /\ w_objs w1 = w_objs w.
Proof.
  unfold w_get, get_range. pose proof (tick_objs w) as [H1 _]. destruct (tick w) as [f w0]; cbn [snd] in H1.
  destruct f; [discriminate|]. destruct (s_get (w_objs w0) k) as [full|] eqn:G; [|discriminate].
  cbn zeta. match goal with |- context [if ?c then (Err, _) else _] => destruct c eqn:Ec end; [discriminate|].
  intros H; inversion H; subst. exists full. rewrite Ec, <- H1. auto.
Qed.

Lemma w_get_whole_some w k v w1 : w_get w k None = (Ok v, w1) -> s_get (w_objs w) k = Some v /\ w_objs w1 = w_objs w.
Proof.
  unfold w_get. pose proof (tick_objs w) as [H1 _]. destruct (tick w) as [f w0]; cbn [snd] in H1.
  destruct f; [discriminate|]. destruct (s_get (w_objs w0) k) eqn:G; [|discriminate].
  intros H; inversion H; subst. rewrite <- H1. auto.
Qed.

Lemma w_put_true w k v w1 : w_put w k v = (true, w1) -> w_objs w1 = s_put (w_objs w) k v.
Proof.
  unfold w_put. pose proof (tick_objs w) as [H1 _]. destruct (tick w) as [f w0]; cbn [snd] in H1.
  destruct f; [discriminate|]. intros H; inversion H; subst. cbn. now rewrite H1.
Qed.

Lemma w_list_ok w sp l w1 : w_list w sp = (Ok l, w1) -> l = list_pure (w_objs w) sp /\ w_objs w1 = w_objs w.
Proof.
  unfold w_list. pose proof (tick_objs w) as [H1 _]. destruct (tick w) as [f w0]; cbn [snd] in H1.
  destruct f; [discriminate|]. intros H; inversion H; subst. unfold list_pure. rewrite H1. auto.
Qed.

Lemma inspect_ok w k size g w1 : inspect w k size = (Ok g, w1) ->
  inspect_pure (w_objs w) k size = Some g /\ w_objs w1 = w_objs w.
Proof.
  unfold inspect, inspect_pure. destruct (size <? 16); [discriminate|].
  destruct (w_get w k (Some (0, 31))) as [r1 wa] eqn:G1. destruct r1 as [hb|]; [|discriminate].
  apply w_get_range_some in G1 as (full & S1 & R1 & O1). rewrite S1, R1.
  destruct (zlen hb <? 32); [discriminate|].
  destruct (negb (bytes_eqb (firstn 4 hb) magic_kafs)); [discriminate|].
  destruct (w_get wa k (Some (size - 16, size - 1))) as [r2 wb] eqn:G2. destruct r2 as [fb|]; [|discriminate].
  apply w_get_range_some in G2 as (full2 & S2 & R2 & O2). rewrite O1, S1 in S2. injection S2 as <-. rewrite R2.
  destruct (zlen fb <? 16); [discriminate|].
  destruct (negb (bytes_eqb (slice 12 4 fb) magic_end)); [discriminate|].
  cbn [orb]. intros H; inversion H; subst. split; [reflexivity|congruence].
Qed.

Lemma inspect_all_ok objs : forall w all w1, inspect_all w objs = (Ok all, w1) ->
  inspect_all_pure (w_objs w) objs = Some all /\ w_objs w1 = w_objs w.
Proof.
  induction objs as [|[k size] objs IH]; intros w all w1 H; cbn [inspect_all inspect_all_pure] in *.
  - inversion H; subst; auto.
  - destruct (k_idx k); [now apply IH|].
    destruct (inspect w k size) as [r wa] eqn:I1. destruct r as [g|]; [|discriminate].
    apply inspect_ok in I1 as [P1 O1]. rewrite P1.
    destruct (inspect_all wa objs) as [r2 wb] eqn:I2. destruct r2 as [gs|]; [|discriminate].
    apply IH in I2 as [P2 O2]. rewrite O1 in P2. rewrite P2. inversion H; subst. split; [reflexivity|congruence].
Qed.

(* ---------- the copy loop writes exactly the plan list ---------- *)
Definition src_same (s : store) (cur : store) : Prop := forall k, k_space k = 0 -> s_get cur k = s_get s k.

Lemma src_same_put s cur k v : k_space k = 1 -> src_same s cur -> src_same s (s_put cur k v).
Proof.
  intros Hk H k' Hk'. rewrite s_get_put. destruct (key_eqb k' k) eqn:E; [|now apply H].
  apply key_eqb_eq in E; subst. lia.
Qed.

Lemma copy_loop_exact s p lc T : forall segs w i copied n last w' copied' n' last',
  copy_loop crc w p segs i lc T copied n last = (true, w', copied', n', last') ->
  src_same s (w_objs w) ->
  w_objs w' = puts_of p (plan_list s p segs i lc T) (w_objs w) /\ src_same s (w_objs w').
Proof.
  induction segs as [|g segs IH]; intros w i copied n last w' copied' n' last' H Hs; cbn [copy_loop plan_list] in *.
  - inversion H; subst; auto.
  - destruct (lc <? i)%nat; [inversion H; subst; auto|].
    destruct (w_get w (seg_key 0 p (g_base g)) None) as [r1 w1] eqn:G1. destruct r1 as [sb|]; [|discriminate].
    apply w_get_whole_some in G1 as [S1 O1].
    destruct (w_get w1 (idx_key 0 p (g_base g)) None) as [r2 w2] eqn:G2. destruct r2 as [ib|]; [|discriminate].
    apply w_get_whole_some in G2 as [S2 O2]. rewrite O1 in S2.
    rewrite <- (Hs (seg_key 0 p (g_base g)) eq_refl), S1. rewrite <- (Hs (idx_key 0 p (g_base g)) eq_refl), S2.
    destruct (if (i =? lc)%nat then build_plan crc sb ib T (g_created g)
              else Ok (Some (mkArt sb ib (g_base g) (g_last g)))) as [[a|]|]; [|inversion H; subst|discriminate].
    + destruct (w_put w2 (seg_key 1 p (a_base a)) (a_seg a)) as [ok3 w3] eqn:P3.
      destruct ok3; cbn [negb] in H; [|discriminate]. apply w_put_true in P3.
      destruct (w_put w3 (idx_key 1 p (a_base a)) (a_idx a)) as [ok4 w4] eqn:P4.
      destruct ok4; cbn [negb] in H; [|discriminate]. apply w_put_true in P4.
      assert (w_objs w4 = put_art p (w_objs w) a) as E4 by (unfold put_art; rewrite P4, P3, O2, O1; reflexivity).
      apply IH in H.
      * destruct H as [H1 H2]. split; [|exact H2]. rewrite H1, E4. reflexivity.
      * rewrite E4. unfold put_art. apply src_same_put; [reflexivity|]. apply src_same_put; [reflexivity|exact Hs].
    + split; [cbn; congruence|]. intros k Hk. rewrite O2, O1. now apply Hs.
Qed.

Lemma copy_parts_exact s all T : forall parts w copied summ w' copied' summ',
  copy_parts crc w parts all T copied summ = (true, w', copied', summ') ->
  src_same s (w_objs w) ->
  w_objs w' = fold_left (part_spec s all T) parts (w_objs w).
Proof.
  induction parts as [|p parts IH]; intros w copied summ w' copied' summ' H Hs; cbn [copy_parts fold_left] in *.
  - inversion H; subst; reflexivity.
  - destruct (copy_loop crc w p _ 0 _ T copied 0 (-1)) as [[[[ok1 w1] c1] n1] l1] eqn:E.
    destruct ok1; [|discriminate].
    apply (copy_loop_exact s) in E as [E1 E2]; [|exact Hs].
    apply IH in H; [|exact E2]. rewrite H, E1. reflexivity.
Qed.

(* a successful restore leaves exactly the specified store *)
Theorem restore_complete : forall s0 faults T parts summ w',
  restore crc (mkW s0 faults false) T parts = (Ok summ, w') ->
  restore_spec s0 T parts = Some (w_objs w').
Proof.
  intros s0 faults T parts summ w' H. unfold restore in H. unfold restore_spec.
  set (w := mkW s0 faults false) in *.
  destruct (w_list w 1) as [r0 w0] eqn:L0. destruct r0 as [existing|]; [|discriminate].
  apply w_list_ok in L0 as [-> O0]. cbn [w_objs w] in *.
  destruct (existsb _ (list_pure s0 1)); [discriminate|].
  destruct (w_list w0 0) as [r1 w1] eqn:L1. destruct r1 as [objs|]; [|discriminate].
  apply w_list_ok in L1 as [-> O1]. rewrite O0 in *.
  destruct (inspect_all w1 (list_pure s0 0)) as [r2 w2] eqn:I. destruct r2 as [all|]; [|discriminate].
  apply inspect_all_ok in I as [P O2]. rewrite O1 in P, O2. rewrite P.
  match type of H with context [copy_parts crc w2 ?ps ?sel T [] []] =>
    destruct (copy_parts crc w2 ps sel T [] []) as [[[ok w3] copied] summ0] eqn:E end.
  destruct ok; [|discriminate]. injection H as _ <-.
  apply (copy_parts_exact s0) in E.
  - rewrite E, O2. reflexivity.
  - intros k _. now rewrite O2.
Qed.

End Complete.
