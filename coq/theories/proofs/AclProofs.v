(* Proofs for C23: the (patched) broker authorizer computes exactly the decision
   procedure of the statement, for every configuration and request and for every
   TrimSpace / EqualFold function; same for the SQL-proxy ACL and every path.Match. *)
From KS Require Import lib.Base model.Acl.
Open Scope Z_scope.

Lemma is_nil_true {A} (l : list A) : is_nil l = true <-> l = [].
Proof. destruct l; cbn; split; intros H; congruence. Qed.

Lemma is_nil_false {A} (l : list A) : is_nil l = false <-> l <> [].
Proof. destruct l; cbn; split; intros H; congruence. Qed.

Lemma existsb_incl {A} (f : A -> bool) (l l' : list A) :
  incl l l' -> existsb f l = true -> existsb f l' = true.
Proof.
  intros Hi H. apply existsb_exists in H as [x [Hx Hf]]. apply existsb_exists. exists x. split; [apply Hi|]; assumption.
Qed.

Lemma existsb_false_incl {A} (f : A -> bool) (l l' : list A) :
  incl l l' -> existsb f l' = false -> existsb f l = false.
Proof.
  intros Hi H. destruct (existsb f l) eqn:E; [|reflexivity].
  rewrite (existsb_incl f l l' Hi E) in H. discriminate.
Qed.

Section Broker.
  Variable trim : bytes -> bytes.
  Variable eqfold : bytes -> bytes -> bool.

  Notation allows := (allows trim eqfold).
  Notation spec_allows := (spec_allows trim eqfold).
  Notation new_authorizer := (new_authorizer trim eqfold).
  Notation add_entry := (add_entry trim).
  Notation entries_of := (entries_of trim).
  Notation denies_of := (denies_of trim).
  Notation allows_of := (allows_of trim).
  Notation any_match := (any_match trim eqfold).
  Notation matches := (matches trim eqfold).
  Notation norm_principal := (norm_principal trim).
  Notation default_allow := (default_allow trim eqfold).

  Lemma norm_principal_nonempty p : norm_principal p <> [].
  Proof.
    unfold Acl.norm_principal. destruct (is_nil (trim p)) eqn:E.
    - discriminate.
    - apply is_nil_false in E. exact E.
  Qed.

  Lemma lookup_upsert k k' al dn m :
    lookup k (upsert k' al dn m) =
    if bytes_eqb k' k then
      match lookup k m with
      | Some (a, d) => Some (a ++ al, d ++ dn)
      | None => Some (al, dn)
      end
    else lookup k m.
  Proof.
    induction m as [|p m IH]; cbn [upsert lookup].
    - cbn. destruct (bytes_eqb k' k); reflexivity.
    - destruct (bytes_eqb (p_key p) k') eqn:E1.
      + apply bytes_eqb_eq in E1. cbn [lookup p_key p_allow p_deny]. rewrite E1.
        destruct (bytes_eqb k' k) eqn:E2; reflexivity.
      + cbn [lookup]. destruct (bytes_eqb (p_key p) k) eqn:E2.
        * apply bytes_eqb_eq in E2. subst k. rewrite bytes_eqb_neq in E1.
          destruct (bytes_eqb k' (p_key p)) eqn:E3; [|reflexivity].
          apply bytes_eqb_eq in E3. congruence.
        * exact IH.
  Qed.

  Lemma entries_of_cons k e es :
    entries_of k (e :: es) = if bytes_eqb (trim (e_name e)) k then e :: entries_of k es else entries_of k es.
  Proof. reflexivity. Qed.

  Lemma lookup_fold es : forall m k, k <> [] ->
    lookup k (fold_left add_entry es m) =
    match lookup k m with
    | Some (a, d) => Some (a ++ allows_of k es, d ++ denies_of k es)
    | None => if is_nil (entries_of k es) then None else Some (allows_of k es, denies_of k es)
    end.
  Proof.
    induction es as [|e es IH]; intros m k Hk.
    - cbn. destruct (lookup k m) as [[a d]|]; [|reflexivity]. now rewrite !app_nil_r.
    - cbn [fold_left]. rewrite (IH _ k Hk). unfold Acl.add_entry.
      unfold Acl.allows_of, Acl.denies_of. rewrite entries_of_cons.
      destruct (is_nil (trim (e_name e))) eqn:En.
      + apply is_nil_true in En. rewrite En.
        destruct (bytes_eqb [] k) eqn:E; [apply bytes_eqb_eq in E; congruence|]. reflexivity.
      + rewrite lookup_upsert. destruct (bytes_eqb (trim (e_name e)) k) eqn:E.
        * cbn [flat_map is_nil]. destruct (lookup k m) as [[a d]|]; rewrite <- ?app_assoc; reflexivity.
        * reflexivity.
  Qed.

  (* The patched authorizer IS the statement's decision procedure. *)
  Theorem allows_spec cfg p act res name :
    allows (new_authorizer cfg) p act res name = spec_allows cfg p act res name.
  Proof.
    unfold Acl.allows, Acl.spec_allows, Acl.new_authorizer. cbn [a_enabled a_default a_principals].
    destruct (negb (c_enabled cfg)); [reflexivity|].
    rewrite (lookup_fold _ _ _ (norm_principal_nonempty p)). cbn [lookup].
    destruct (is_nil (entries_of (norm_principal p) (c_principals cfg))) eqn:E.
    - apply is_nil_true in E. unfold Acl.denies_of, Acl.allows_of. rewrite E. reflexivity.
    - reflexivity.
  Qed.

  Lemma in_denies_of k es e r :
    In e es -> trim (e_name e) = k -> In r (e_deny e) -> In r (denies_of k es).
  Proof.
    intros He Hk Hr. unfold Acl.denies_of. apply in_flat_map. exists e. split; [|exact Hr].
    apply filter_In. split; [exact He|]. apply bytes_eqb_eq. exact Hk.
  Qed.

  Lemma in_allows_of k es e r :
    In e es -> trim (e_name e) = k -> In r (e_allow e) -> In r (allows_of k es).
  Proof.
    intros He Hk Hr. unfold Acl.allows_of. apply in_flat_map. exists e. split; [|exact Hr].
    apply filter_In. split; [exact He|]. apply bytes_eqb_eq. exact Hk.
  Qed.

  Lemma denies_of_inv k es r :
    In r (denies_of k es) -> exists e, In e es /\ trim (e_name e) = k /\ In r (e_deny e).
  Proof.
    unfold Acl.denies_of. intros H. apply in_flat_map in H as [e [He Hr]].
    apply filter_In in He as [He Hk]. apply bytes_eqb_eq in Hk. eauto.
  Qed.

  Lemma allows_of_inv k es r :
    In r (allows_of k es) -> exists e, In e es /\ trim (e_name e) = k /\ In r (e_allow e).
  Proof.
    unfold Acl.allows_of. intros H. apply in_flat_map in H as [e [He Hr]].
    apply filter_In in He as [He Hk]. apply bytes_eqb_eq in Hk. eauto.
  Qed.

  (* (1) any matching deny rule of the principal, in ANY entry naming it, denies *)
  Theorem deny_overrides cfg p act res name e r :
    c_enabled cfg = true ->
    In e (c_principals cfg) -> trim (e_name e) = norm_principal p ->
    In r (e_deny e) -> matches r act res name = true ->
    allows (new_authorizer cfg) p act res name = false.
  Proof.
    intros Hen He Hk Hr Hm. rewrite allows_spec. unfold Acl.spec_allows. rewrite Hen. cbn [negb].
    assert (H : any_match (denies_of (norm_principal p) (c_principals cfg)) act res name = true).
    { apply existsb_exists. exists r. split; [|exact Hm]. eapply in_denies_of; eauto. }
    now rewrite H.
  Qed.

  Definition no_deny_matches cfg p act res name : Prop :=
    forall e r, In e (c_principals cfg) -> trim (e_name e) = norm_principal p ->
                In r (e_deny e) -> matches r act res name = false.
  Definition no_allow_matches cfg p act res name : Prop :=
    forall e r, In e (c_principals cfg) -> trim (e_name e) = norm_principal p ->
                In r (e_allow e) -> matches r act res name = false.

  Lemma no_deny_any cfg p act res name :
    no_deny_matches cfg p act res name ->
    any_match (denies_of (norm_principal p) (c_principals cfg)) act res name = false.
  Proof.
    intros H. unfold Acl.any_match. destruct (existsb _ _) eqn:E; [|reflexivity].
    apply existsb_exists in E as [r [Hr Hm]]. apply denies_of_inv in Hr as [e [He [Hk Hr]]].
    rewrite (H e r He Hk Hr) in Hm. discriminate.
  Qed.

  Lemma no_allow_any cfg p act res name :
    no_allow_matches cfg p act res name ->
    any_match (allows_of (norm_principal p) (c_principals cfg)) act res name = false.
  Proof.
    intros H. unfold Acl.any_match. destruct (existsb _ _) eqn:E; [|reflexivity].
    apply existsb_exists in E as [r [Hr Hm]]. apply allows_of_inv in Hr as [e [He [Hk Hr]]].
    rewrite (H e r He Hk Hr) in Hm. discriminate.
  Qed.

  (* (2) no matching deny: a matching allow rule allows; none: the default applies *)
  Theorem allow_then_default cfg p act res name :
    c_enabled cfg = true -> no_deny_matches cfg p act res name ->
    ((exists e r, In e (c_principals cfg) /\ trim (e_name e) = norm_principal p /\
                  In r (e_allow e) /\ matches r act res name = true) ->
     allows (new_authorizer cfg) p act res name = true) /\
    (no_allow_matches cfg p act res name ->
     allows (new_authorizer cfg) p act res name = default_allow cfg).
  Proof.
    intros Hen Hnd. rewrite allows_spec. unfold Acl.spec_allows. rewrite Hen. cbn [negb].
    rewrite (no_deny_any _ _ _ _ _ Hnd). split.
    - intros [e [r [He [Hk [Hr Hm]]]]].
      assert (H : any_match (allows_of (norm_principal p) (c_principals cfg)) act res name = true).
      { apply existsb_exists. exists r. split; [|exact Hm]. eapply in_allows_of; eauto. }
      now rewrite H.
    - intros Hna. now rewrite (no_allow_any _ _ _ _ _ Hna).
  Qed.

  (* (3) a principal no entry names gets the default policy *)
  Theorem unknown_default cfg p act res name :
    c_enabled cfg = true ->
    (forall e, In e (c_principals cfg) -> trim (e_name e) <> norm_principal p) ->
    allows (new_authorizer cfg) p act res name = default_allow cfg.
  Proof.
    intros Hen Hu.
    assert (Hnd : no_deny_matches cfg p act res name) by (intros e r He Hk; destruct (Hu e He Hk)).
    assert (Hna : no_allow_matches cfg p act res name) by (intros e r He Hk; destruct (Hu e He Hk)).
    exact (proj2 (allow_then_default cfg p act res name Hen Hnd) Hna).
  Qed.

  (* ACL switched off: everything is allowed *)
  Theorem disabled_allows cfg p act res name :
    c_enabled cfg = false -> allows (new_authorizer cfg) p act res name = true.
  Proof. intros H. rewrite allows_spec. unfold Acl.spec_allows. now rewrite H. Qed.

  (* (4) adding allow rules never removes access *)
  Theorem add_allow_monotone cfg cfg' p act res name :
    allow_extends trim eqfold cfg cfg' ->
    allows (new_authorizer cfg) p act res name = true ->
    allows (new_authorizer cfg') p act res name = true.
  Proof.
    intros [Hen [Hdef Hext]]. rewrite !allows_spec. unfold Acl.spec_allows. rewrite Hen, Hdef.
    destruct (negb (c_enabled cfg)); [reflexivity|].
    destruct (Hext (norm_principal p) (norm_principal_nonempty p)) as [Hd Ha].
    unfold Acl.any_match.
    destruct (existsb _ (denies_of (norm_principal p) (c_principals cfg))) eqn:E1; [discriminate|].
    rewrite (existsb_false_incl _ _ _ Hd E1).
    destruct (existsb _ (allows_of (norm_principal p) (c_principals cfg))) eqn:E2.
    - intros _. now rewrite (existsb_incl _ _ _ Ha E2).
    - intros H. rewrite H. destruct (existsb _ (allows_of _ (c_principals cfg'))); reflexivity.
  Qed.

  (* (5) adding deny rules never grants access *)
  Theorem add_deny_antitone cfg cfg' p act res name :
    deny_extends trim eqfold cfg cfg' ->
    allows (new_authorizer cfg') p act res name = true ->
    allows (new_authorizer cfg) p act res name = true.
  Proof.
    intros [Hen [Hdef Hext]]. rewrite !allows_spec. unfold Acl.spec_allows. rewrite Hen, Hdef.
    destruct (negb (c_enabled cfg)); [reflexivity|].
    destruct (Hext (norm_principal p) (norm_principal_nonempty p)) as [Hd Ha].
    unfold Acl.any_match.
    destruct (existsb _ (denies_of (norm_principal p) (c_principals cfg'))) eqn:E1; [discriminate|].
    rewrite (existsb_false_incl _ _ _ Hd E1).
    destruct (existsb _ (allows_of (norm_principal p) (c_principals cfg'))) eqn:E2.
    - intros _. now rewrite (existsb_incl _ _ _ Ha E2).
    - intros H. rewrite H. destruct (existsb _ (allows_of _ (c_principals cfg))); reflexivity.
  Qed.

  (* ---- the concrete ways of "adding a rule" satisfy the extension relations ---- *)
  Lemma entries_of_app k es1 es2 : entries_of k (es1 ++ es2) = entries_of k es1 ++ entries_of k es2.
  Proof. unfold Acl.entries_of. apply filter_app. Qed.

  Lemma denies_of_app k es1 es2 : denies_of k (es1 ++ es2) = denies_of k es1 ++ denies_of k es2.
  Proof. unfold Acl.denies_of. rewrite entries_of_app. apply flat_map_app. Qed.

  Lemma allows_of_app k es1 es2 : allows_of k (es1 ++ es2) = allows_of k es1 ++ allows_of k es2.
  Proof. unfold Acl.allows_of. rewrite entries_of_app. apply flat_map_app. Qed.

  Lemma denies_of_cons k e es :
    denies_of k (e :: es) = (if bytes_eqb (trim (e_name e)) k then e_deny e else []) ++ denies_of k es.
  Proof. unfold Acl.denies_of. rewrite entries_of_cons. destruct (bytes_eqb _ _); reflexivity. Qed.

  Lemma allows_of_cons k e es :
    allows_of k (e :: es) = (if bytes_eqb (trim (e_name e)) k then e_allow e else []) ++ allows_of k es.
  Proof. unfold Acl.allows_of. rewrite entries_of_cons. destruct (bytes_eqb _ _); reflexivity. Qed.

  Lemma incl_app_mid {A} (a b b' c : list A) : incl b b' -> incl (a ++ b ++ c) (a ++ b' ++ c).
  Proof.
    intros H x Hx. rewrite !in_app_iff in *. destruct Hx as [Hx|[Hx|Hx]]; auto.
  Qed.

  (* (a) a whole new entry for some principal, anywhere in the list (also a second
         entry for a principal that is already listed), carrying only allow rules *)
  Lemma new_allow_entry_extends en df pre post nm rs :
    allow_extends trim eqfold (mkConfig en df (pre ++ post)) (mkConfig en df (pre ++ mkEntry nm rs [] :: post)).
  Proof.
    split; [reflexivity|]. split; [reflexivity|]. intros k _. cbn [c_principals].
    rewrite !denies_of_app, !allows_of_app, denies_of_cons, allows_of_cons. cbn [e_name e_allow e_deny].
    split.
    - destruct (bytes_eqb (trim nm) k); cbn [app]; apply incl_refl.
    - apply (incl_app_mid _ [] _ _). intros x [].
  Qed.

  (* (b) one more allow rule at any position of an existing entry *)
  Lemma new_allow_rule_extends en df pre post nm al1 al2 dn r :
    allow_extends trim eqfold (mkConfig en df (pre ++ mkEntry nm (al1 ++ al2) dn :: post))
                              (mkConfig en df (pre ++ mkEntry nm (al1 ++ r :: al2) dn :: post)).
  Proof.
    split; [reflexivity|]. split; [reflexivity|]. intros k _. cbn [c_principals].
    rewrite !denies_of_app, !allows_of_app, !denies_of_cons, !allows_of_cons. cbn [e_name e_allow e_deny].
    split; [apply incl_refl|].
    apply incl_app_mid. destruct (bytes_eqb (trim nm) k); [|apply incl_refl].
    intros x Hx. rewrite in_app_iff in *. cbn [In]. tauto.
  Qed.

  Lemma new_deny_entry_extends en df pre post nm rs :
    deny_extends trim eqfold (mkConfig en df (pre ++ post)) (mkConfig en df (pre ++ mkEntry nm [] rs :: post)).
  Proof.
    split; [reflexivity|]. split; [reflexivity|]. intros k _. cbn [c_principals].
    rewrite !denies_of_app, !allows_of_app, denies_of_cons, allows_of_cons. cbn [e_name e_allow e_deny].
    split.
    - apply (incl_app_mid _ [] _ _). intros x [].
    - destruct (bytes_eqb (trim nm) k); cbn [app]; apply incl_refl.
  Qed.

  Lemma new_deny_rule_extends en df pre post nm al dn1 dn2 r :
    deny_extends trim eqfold (mkConfig en df (pre ++ mkEntry nm al (dn1 ++ dn2) :: post))
                             (mkConfig en df (pre ++ mkEntry nm al (dn1 ++ r :: dn2) :: post)).
  Proof.
    split; [reflexivity|]. split; [reflexivity|]. intros k _. cbn [c_principals].
    rewrite !denies_of_app, !allows_of_app, !denies_of_cons, !allows_of_cons. cbn [e_name e_allow e_deny].
    split; [|apply incl_refl].
    apply incl_app_mid. destruct (bytes_eqb (trim nm) k); [|apply incl_refl].
    intros x Hx. rewrite in_app_iff in *. cbn [In]. tauto.
  Qed.

  Corollary add_allow_entry_monotone en df pre post nm rs p act res name :
    allows (new_authorizer (mkConfig en df (pre ++ post))) p act res name = true ->
    allows (new_authorizer (mkConfig en df (pre ++ mkEntry nm rs [] :: post))) p act res name = true.
  Proof. apply add_allow_monotone, new_allow_entry_extends. Qed.

  Corollary add_allow_rule_monotone en df pre post nm al1 al2 dn r p act res name :
    allows (new_authorizer (mkConfig en df (pre ++ mkEntry nm (al1 ++ al2) dn :: post))) p act res name = true ->
    allows (new_authorizer (mkConfig en df (pre ++ mkEntry nm (al1 ++ r :: al2) dn :: post))) p act res name = true.
  Proof. apply add_allow_monotone, new_allow_rule_extends. Qed.

  Corollary add_deny_entry_antitone en df pre post nm rs p act res name :
    allows (new_authorizer (mkConfig en df (pre ++ mkEntry nm [] rs :: post))) p act res name = true ->
    allows (new_authorizer (mkConfig en df (pre ++ post))) p act res name = true.
  Proof. apply add_deny_antitone, new_deny_entry_extends. Qed.

  Corollary add_deny_rule_antitone en df pre post nm al dn1 dn2 r p act res name :
    allows (new_authorizer (mkConfig en df (pre ++ mkEntry nm al (dn1 ++ r :: dn2) :: post))) p act res name = true ->
    allows (new_authorizer (mkConfig en df (pre ++ mkEntry nm al (dn1 ++ dn2) :: post))) p act res name = true.
  Proof. apply add_deny_antitone, new_deny_rule_extends. Qed.

  (* name patterns: what "prefix wildcard" means, for a rule name TrimSpace leaves alone *)
  Lemma has_prefix_app s p : has_prefix (p ++ s) p = true.
  Proof. induction p as [|x p IH]; cbn; [reflexivity|]. now rewrite Z.eqb_refl, IH. Qed.

  Lemma has_prefix_inv s p : has_prefix s p = true -> exists t, s = p ++ t.
  Proof.
    revert s; induction p as [|x p IH]; intros s H.
    - exists s. reflexivity.
    - destruct s as [|y s]; [discriminate|]. cbn in H. apply andb_true_iff in H as [H1 H2].
      apply Z.eqb_eq in H1. subst y. destruct (IH s H2) as [t Ht]. exists t. cbn. congruence.
  Qed.

  Lemma prefix_wildcard_matches pre name :
    pre <> [] -> trim (pre ++ star) = pre ++ star ->
    (name_matches trim (pre ++ star) name = true <-> exists t, name = pre ++ t).
  Proof.
    intros Hne Ht. unfold Acl.name_matches. rewrite Ht.
    assert (E1 : is_nil (pre ++ star) = false) by (destruct pre; [congruence|reflexivity]).
    assert (E2 : bytes_eqb (pre ++ star) star = false).
    { apply bytes_eqb_neq. intros H. destruct pre as [|x [|y pre]]; [congruence| |]; discriminate. }
    rewrite E1, E2. cbn [orb].
    unfold Acl.has_suffix_star, star. rewrite rev_app_distr. cbn [rev app]. rewrite Z.eqb_refl.
    rewrite removelast_last. split.
    - apply has_prefix_inv.
    - intros [t ->]. apply has_prefix_app.
  Qed.
End Broker.

(* The unpatched NewAuthorizer (later duplicate entry replaces the earlier one)
   violates "deny overrides" and both monotonicity clauses: the witness of the
   finding fixed by fixes/C23-merge-duplicate-principals.patch. *)
Definition w_rule_all : rule := mkRule star star star.
Definition w_alice : bytes := [97].
Definition w_cfg_deny : config := mkConfig true [] [mkEntry w_alice [] [w_rule_all]].
Definition w_cfg_both : config := mkConfig true [] [mkEntry w_alice [] [w_rule_all]; mkEntry w_alice [w_rule_all] []].

Lemma lastwins_refuted :
  (* a matching deny rule exists for the principal, yet the request is allowed *)
  allows ascii_trim ascii_eqfold (new_authorizer_lastwins ascii_trim ascii_eqfold w_cfg_both) w_alice [120] [121] [122] = true /\
  (* and the patched constructor denies it *)
  allows ascii_trim ascii_eqfold (new_authorizer ascii_trim ascii_eqfold w_cfg_both) w_alice [120] [121] [122] = false.
Proof. vm_compute. split; reflexivity. Qed.

Section Sql.
  Variable trim : bytes -> bytes.
  Variable pmatch : bytes -> bytes -> bool.

  Notation match_patterns := (match_patterns trim pmatch).
  Notation pat_match := (pat_match trim pmatch).
  Notation sql_allows := (sql_allows trim pmatch).
  Notation sql_show_topics := (sql_show_topics trim pmatch).

  Lemma match_patterns_existsb ps t : match_patterns ps t = existsb (pat_match t) ps.
  Proof.
    induction ps as [|p ps IH]; [reflexivity|]. cbn [Acl.match_patterns existsb]. unfold Acl.pat_match at 1.
    destruct (is_nil (trim p)); [exact IH|].
    destruct (bytes_eqb (trim p) star); [reflexivity|].
    destruct (pmatch (trim p) t); [reflexivity|].
    destruct (bytes_eqb (trim p) t); [reflexivity|]. exact IH.
  Qed.

  Theorem sql_deny_overrides al dn t p :
    In p dn -> pat_match t p = true -> sql_allows al dn t = false.
  Proof.
    intros Hp Hm. unfold Acl.sql_allows. rewrite match_patterns_existsb.
    assert (H : existsb (pat_match t) dn = true) by (apply existsb_exists; eauto).
    now rewrite H.
  Qed.

  Theorem sql_allow_then_default al dn t :
    (forall p, In p dn -> pat_match t p = false) ->
    ((exists p, In p al /\ pat_match t p = true) -> sql_allows al dn t = true) /\
    ((forall p, In p al -> pat_match t p = false) -> sql_allows al dn t = sql_default al).
  Proof.
    intros Hnd. unfold Acl.sql_allows, Acl.sql_default. rewrite !match_patterns_existsb.
    assert (E : existsb (pat_match t) dn = false).
    { destruct (existsb _ dn) eqn:E; [|reflexivity]. apply existsb_exists in E as [p [Hp Hm]].
      rewrite (Hnd p Hp) in Hm. discriminate. }
    rewrite E. split.
    - intros [p [Hp Hm]]. destruct al as [|a al]; [destruct Hp|]. cbn [is_nil].
      apply existsb_exists. eauto.
    - intros Hna. destruct al as [|a al]; [reflexivity|]. cbn [is_nil].
      destruct (existsb _ (a :: al)) eqn:E2; [|reflexivity]. apply existsb_exists in E2 as [p [Hp Hm]].
      rewrite (Hna p Hp) in Hm. discriminate.
  Qed.

  (* monotone in the allow list at equal default policy (both lists non-empty) *)
  Theorem sql_add_allow_monotone al al' dn t :
    al <> [] -> incl al al' -> sql_allows al dn t = true -> sql_allows al' dn t = true.
  Proof.
    intros Hne Hi. unfold Acl.sql_allows. rewrite !match_patterns_existsb.
    destruct (existsb _ dn); [discriminate|].
    destruct al as [|a al]; [congruence|]. destruct al' as [|a' al']; [destruct (Hi a (or_introl eq_refl))|].
    cbn [is_nil]. apply existsb_incl. exact Hi.
  Qed.

  Theorem sql_add_deny_antitone al dn dn' t :
    incl dn dn' -> sql_allows al dn' t = true -> sql_allows al dn t = true.
  Proof.
    intros Hi. unfold Acl.sql_allows. rewrite !match_patterns_existsb.
    destruct (existsb _ dn') eqn:E; [discriminate|]. now rewrite (existsb_false_incl _ _ _ Hi E).
  Qed.

  Theorem sql_show_add_allow_monotone al al' dn :
    al <> [] -> incl al al' -> sql_show_topics al dn = true -> sql_show_topics al' dn = true.
  Proof.
    intros Hne Hi. unfold Acl.sql_show_topics. rewrite !match_patterns_existsb.
    destruct (negb (is_nil dn)); [discriminate|].
    destruct al as [|a al]; [congruence|]. destruct al' as [|a' al']; [destruct (Hi a (or_introl eq_refl))|].
    cbn [is_nil]. apply existsb_incl. exact Hi.
  Qed.

  Theorem sql_show_add_deny_antitone al dn dn' :
    incl dn dn' -> sql_show_topics al dn' = true -> sql_show_topics al dn = true.
  Proof.
    intros Hi. unfold Acl.sql_show_topics.
    destruct dn' as [|d dn']; [|discriminate].
    destruct dn as [|d dn]; [auto|destruct (Hi d (or_introl eq_refl))].
  Qed.

  (* the scoping is necessary: going from an empty to a non-empty allow list flips
     the default, so access CAN be lost (stated so the scoping is not silent) *)
  Lemma sql_empty_allow_not_monotone :
    trim [97] = [97] -> trim [98] = [98] -> pmatch [98] [97] = false ->
    sql_allows [] [] [97] = true /\ sql_allows [[98]] [] [97] = false.
  Proof.
    intros H1 H2 H3. unfold Acl.sql_allows. cbn [Acl.match_patterns is_nil]. rewrite H2. cbn [is_nil].
    rewrite H3. cbn. split; reflexivity.
  Qed.
End Sql.

Lemma sql_add_allow_monotone_both trim pmatch al al' dn t :
  al <> [] -> incl al al' ->
  (sql_allows trim pmatch al dn t = true -> sql_allows trim pmatch al' dn t = true) /\
  (sql_show_topics trim pmatch al dn = true -> sql_show_topics trim pmatch al' dn = true).
Proof.
  intros H H0; split; [exact (sql_add_allow_monotone _ _ _ _ _ _ H H0) | exact (sql_show_add_allow_monotone _ _ _ _ _ H H0)].
Qed.

Lemma sql_add_deny_antitone_both trim pmatch al dn dn' t :
  incl dn dn' ->
  (sql_allows trim pmatch al dn' t = true -> sql_allows trim pmatch al dn t = true) /\
  (sql_show_topics trim pmatch al dn' = true -> sql_show_topics trim pmatch al dn = true).
Proof.
  intros H; split; [exact (sql_add_deny_antitone _ _ _ _ _ _ H) | exact (sql_show_add_deny_antitone _ _ _ _ _ H)].
Qed.
