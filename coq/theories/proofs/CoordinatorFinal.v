(* Last wave: cross-failover claims under store faults (with [synced], and witnesses that
   [synced] is necessary); offsets in a cluster change only by commits of members current
   in the lease holder's view. *)
From Coq Require Import Permutation ZifyBool.
From KS Require Import lib.Base model.Coordinator model.CoordinatorFaults model.CoordinatorCluster
  proofs.CoordinatorBase proofs.CoordinatorProofs proofs.CoordinatorFaults proofs.CoordinatorCluster.
Open Scope Z_scope.

Lemma failover_inv2 E s : inv2 E s -> inv2 E (failover s).
Proof. intros [Hm Hs]. split; cbn; [discriminate|exact Hs]. Qed.

(* the successor's view, when it can load the group *)
Lemma loadf_failover s now f g2 :
  loadf (failover s) now f = LGroup g2 -> cur (failover s) now = Some g2.
Proof.
  unfold loadf, cur, load, failover. cbn. destruct (f_load f); [discriminate|].
  destruct (s_store s); [|discriminate]. intros H. inversion H. reflexivity.
Qed.

Lemma c13f_fenced_across_failover E s o f mid gen now n0 g :
  inv2 E s -> synced E s -> cur s n0 = Some g ->
  ~ (In mid (keys g) /\ gen = g_gen g) ->
  (o = Sync mid gen now \/ o = Heartbeat mid gen now \/ exists t p off, o = Commit mid gen t p off now) ->
  reply_err_opt (snd (stepf E (failover s) o f)) <> NONE /\
  s_off (fst (stepf E (failover s) o f)) = s_off (failover s).
Proof.
  intros Hinv Hy Hc Hnc Ho. apply (c13f_fenced E (failover s) o f mid gen now); [exact Ho|].
  intros [g2 [Hl [Hin Hg]]]. apply loadf_failover in Hl.
  pose proof (inv2_synced_inv E s Hinv Hy) as Hi.
  destruct (c15_view_preserved E s n0 now g Hi Hc) as [g' [Hc' [Hv _]]].
  rewrite Hl in Hc'. inversion Hc'; subst g'.
  apply Hnc. split.
  - now rewrite (same_view_keys _ _ Hv).
  - destruct Hv as [V1 _]. lia.
Qed.

Lemma c12f_assignment_after_failover E s f mid now n0 g :
  inv2 E s -> synced E s -> cur s n0 = Some g -> g_phase g = PStable -> In mid (keys g) ->
  f_load f = false -> f_persist f = false ->
  exists s' g', stepf E (failover s) (Sync mid (g_gen g) now) f = (s', Some (RSync NONE (assignment_of g mid))) /\
                s_mem s' = Some g' /\ g_gen g' = g_gen g /\ same_view g g' /\ is_partition E g'.
Proof.
  intros Hinv Hy Hc Hst Hin Hfl Hfp.
  pose proof (inv2_synced_inv E s Hinv Hy) as Hi.
  destruct (c15_view_preserved E s n0 now g Hi Hc) as [g' [Hc' [Hv _]]].
  pose proof (failover_inv2 E s Hinv) as Hinv'.
  assert (loadf (failover s) now f = LGroup g') as Hl.
  { unfold cur, load in Hc'. unfold loadf. rewrite Hfl. cbn in *. destruct (s_store s); [|discriminate].
    now inversion Hc'. }
  assert (wf E g') as Hw by (eapply loadf_wf; eauto).
  pose proof (same_view_keys _ _ Hv) as Hk. pose proof Hv as [V1 [V2 [V3 [V4 V5]]]].
  assert (g_phase g' = PStable) as Hst' by congruence.
  assert (In mid (keys g')) as Hin' by (now rewrite <- Hk).
  destruct (sync_g_ok E g' mid Hw Hin' (or_introl Hst')) as [g2 [a [Heq [Hp2 Hg2]]]].
  pose proof (sync_g_spec E g' mid (g_gen g') Hw) as Hsp. rewrite Heq in Hsp. cbn in Hsp.
  destruct Hsp as [Hw2 [_ [_ [_ [_ [_ [_ [_ [_ [_ [Ha2 [Hsame _]]]]]]]]]]]].
  pose proof (Hsame Hst') as Hgx. subst g2.
  cbn [stepf]. rewrite V1, Hl, Heq. cbn. rewrite Hfp. cbn. rewrite commit_group_eq by exact Hw.
  exists (mkSt (Some g') (Some (pview E g')) (s_off (failover s))), g'.
  split; [rewrite Ha2, (V5 mid Hin); reflexivity|]. cbn. split; [reflexivity|]. split; [lia|].
  split; [exact Hv|]. now apply stable_partition.
Qed.

(* ---------- the hypothesis is necessary: witnesses ---------- *)
Definition wE : env := mkEnv [(0, [0; 1])] true.
Definition ok : fault := no_fault.
Definition wfail : fault := mkFault false true false.

(* two members Stable in generation 2; member 1 expires, the sweep's write FAILS; failover *)
Definition w13 : list (op * fault) :=
  [(Join (-1) 1 5000 0 [0] 0, ok); (Sync 1 1 0, ok); (Join (-1) 2 40000 0 [0] 0, ok);
   (Join 1 (-100) 5000 0 [0] 0, ok); (Sync 1 2 0, ok); (Heartbeat 2 2 5001, ok); (Cleanup 5001, wfail)].

Lemma c13_needs_synced :
  let s := runf wE w13 in
  ~ synced wE s /\
  option_map (fun g => (zmem 1 (keys g), g_gen g)) (cur s 5001) = Some (false, 3) /\
  snd (stepf wE (failover s) (Commit 1 2 0 0 9 5001) ok) = Some (RErr NONE) /\
  off_get (0, 0) (s_off (fst (stepf wE (failover s) (Commit 1 2 0 0 9 5001) ok))) = 9 /\
  off_get (0, 0) (s_off s) = 0.
Proof.
  cbn zeta. split.
  - intros H. vm_compute in H. discriminate.
  - vm_compute. repeat split.
Qed.

(* member 2 joins and the group rebalances to generation 2, but every write since generation 1
   fails; failover: member 1's sync of the generation it is in is refused by the successor *)
Definition w12 : list (op * fault) :=
  [(Join (-1) 1 40000 0 [0] 0, ok); (Sync 1 1 0, ok); (Join (-1) 2 40000 0 [0] 1, wfail);
   (Join 1 (-100) 40000 0 [0] 2, wfail); (Sync 1 2 3, wfail)].

Lemma c12_needs_synced :
  let s := runf wE w12 in
  ~ synced wE s /\
  option_map (fun g => (g_phase g, g_gen g, zmem 1 (keys g), assignment_of g 1)) (cur s 3) = Some (PStable, 2, true, [(0, [0])]) /\
  snd (stepf wE (failover s) (Sync 1 2 4) ok) = Some (RSync ILLEGAL_GENERATION []) /\
  snd (stepf wE (failover s) (Sync 1 1 4) ok) = Some (RSync NONE [(0, [0; 1])]).
Proof.
  cbn zeta. split.
  - intros H. vm_compute in H. discriminate.
  - vm_compute. repeat split.
Qed.

(* ---------- cluster histories: offsets change only by current members' commits ---------- *)
Lemma c13_cluster_offsets_step E c ev :
  cl_off (fst (cstep E c ev)) <> cl_off c ->
  exists b mid gen t p off now, ev = CReq b (Commit mid gen t p off now) /\
    current (holder_view c) now mid gen /\ snd (cstep E c ev) = CReply (RErr NONE) /\
    (cl_owner c = Some b \/ cl_owner c = None).
Proof.
  destruct ev as [b o|]; cbn [cstep]; [|intros H; exfalso; now apply H].
  assert (forall mem, mkSt mem (cl_store c) (cl_off c) = holder_view c ->
            cl_off (fst (serve E c b mem o)) <> cl_off c ->
            exists mid gen t p off now, o = Commit mid gen t p off now /\
              current (holder_view c) now mid gen /\ snd (serve E c b mem o) = CReply (RErr NONE)) as Hserve.
  { intros mem Hm H. unfold serve in *.
    pose proof (c13_offsets_only_by_commit E (holder_view c) o) as Hc. rewrite <- Hm in Hc.
    destruct (step E (mkSt mem (cl_store c) (cl_off c)) o) as [s' r] eqn:Es. cbn in *.
    destruct (Hc H) as [mid [gen [t [p [off [now [Ho [Hcur Hr]]]]]]]].
    exists mid, gen, t, p, off, now. rewrite <- Hm. split; [exact Ho|]. split; [exact Hcur|]. now rewrite Hr. }
  destruct (cl_owner c) as [b'|] eqn:Eo.
  - destruct (Nat.eqb b' b) eqn:Eb; [|intros H; exfalso; now apply H].
    apply Nat.eqb_eq in Eb. subst b'. intros H.
    destruct (Hserve (cl_cache c b)) as [mid [gen [t [p [off [now [Ho [Hcur Hr]]]]]]]];
      [unfold holder_view; now rewrite Eo|exact H|].
    exists b, mid, gen, t, p, off, now. subst o. auto.
  - destruct (is_sweep o) eqn:Esw; [intros H; exfalso; now apply H|]. intros H.
    destruct (Hserve None) as [mid [gen [t [p [off [now [Ho [Hcur Hr]]]]]]]];
      [unfold holder_view; now rewrite Eo|exact H|].
    exists b, mid, gen, t, p, off, now. subst o. auto.
Qed.

(* along every cluster history: each change of the committed offsets *)
Lemma c13_cluster_offsets_only_by_current_commit E evs1 ev :
  let c := crun E evs1 in
  cl_off (fst (cstep E c ev)) <> cl_off c ->
  exists b mid gen t p off now h, ev = CReq b (Commit mid gen t p off now) /\
    holder_view c = run E h /\ current (run E h) now mid gen /\
    snd (cstep E c ev) = CReply (RErr NONE).
Proof.
  cbn zeta. intros H. destruct (c13_cluster_offsets_step E _ ev H) as [b [mid [gen [t [p [off [now [Hev [Hcur [Hr _]]]]]]]]]].
  destruct (crun_refines E evs1) as [h Hh].
  exists b, mid, gen, t, p, off, now, h. rewrite <- Hh. auto.
Qed.
