(* Proofs about model/Decoders.v.
   Part 1 (C34): for every byte string, the decoders (with the bounds checks) never
   panic and every allocation they request is <= c * length input.
   Part 2 (C07): decode (segment built from spec-encoded well-formed batches) = the
   records that were sent. *)
From KS Require Import lib.Base lib.Varint lib.Outcome lib.Kafka model.Decoders.
From Coq Require Import ZifyBool.
Open Scope Z_scope.

(* ------------------------------------------------------------------ *)
(* generic *)

Definition safe {A} (B : Z) (r : M A) : Prop := no_panic r /\ allocs_le B r.

Lemma safe_ret {A} B (a : A) : safe B (ret a).
Proof. split; [apply no_panic_ret|apply allocs_le_ret]. Qed.
Lemma safe_fail {A} B e : safe B (@fail derr A e).
Proof. split; [apply no_panic_fail|apply allocs_le_fail]. Qed.
Lemma safe_bind {A C} B (m : M A) (f : A -> M C) :
  safe B m -> (forall a, out m = Ok a -> safe B (f a)) -> safe B (bind m f).
Proof.
  intros [H1 H2] Hf. split.
  - apply no_panic_bind; [assumption|]. intros a Ha. apply (Hf a Ha).
  - apply allocs_le_bind; [assumption|]. intros a Ha. apply (Hf a Ha).
Qed.
Lemma safe_make B elem n : 0 <= n -> n * elem <= B -> B <= max_alloc -> safe B (@make derr elem n).
Proof.
  intros H0 H1 H2. rewrite make_ok by lia. split.
  - unfold no_panic; cbn; discriminate.
  - constructor; [assumption|constructor].
Qed.
Lemma safe_mono {A} B B' (r : M A) : B <= B' -> safe B r -> safe B' r.
Proof. intros H [H1 H2]. split; [assumption|]. eapply allocs_le_mono; eassumption. Qed.

Lemma zlen_length {A} (l : list A) : zlen l = Z.of_nat (length l).
Proof. reflexivity. Qed.

Lemma zlen_take n bs : zlen (take n bs) <= zlen bs.
Proof. unfold take, zlen. rewrite firstn_length. lia. Qed.
Lemma zlen_take_le n bs : 0 <= n -> zlen (take n bs) <= n.
Proof. unfold take, zlen. rewrite firstn_length. lia. Qed.
Lemma zlen_take_eq n bs : 0 <= n <= zlen bs -> zlen (take n bs) = n.
Proof. unfold take, zlen. intros H. rewrite firstn_length. lia. Qed.
Lemma zlen_drop n bs : zlen (drop n bs) <= zlen bs.
Proof. unfold drop, zlen. rewrite skipn_length. lia. Qed.
Lemma zlen_drop_eq n bs : 0 <= n -> zlen (drop n bs) = Z.max 0 (zlen bs - n).
Proof. unfold drop, zlen. intros H. rewrite skipn_length. lia. Qed.
Lemma zlen_skipn n (bs : bytes) : zlen (skipn n bs) <= zlen bs.
Proof. unfold zlen. rewrite skipn_length. lia. Qed.
Lemma zlen_skipn_eq n (bs : bytes) : zlen (skipn n bs) = Z.max 0 (zlen bs - Z.of_nat n).
Proof. unfold zlen. rewrite skipn_length. lia. Qed.

Lemma Forall_firstn' {A} (P : A -> Prop) n : forall l, Forall P l -> Forall P (firstn n l).
Proof.
  induction n as [|n IH]; intros [|x l] H; cbn [firstn]; try constructor.
  - inversion H; assumption.
  - apply IH. inversion H; assumption.
Qed.
Lemma Forall_skipn' {A} (P : A -> Prop) n : forall l, Forall P l -> Forall P (skipn n l).
Proof.
  induction n as [|n IH]; intros [|x l] H; cbn [skipn]; try assumption.
  apply IH. inversion H; assumption.
Qed.

(* ------------------------------------------------------------------ *)
(* readers *)

Definition reader_ok (r : bytes -> vres) : Prop :=
  forall bs v rest, r bs = VOk v rest -> (length rest < length bs)%nat.

Lemma reader_ok_map f bits ms : reader_ok (fun bs => map_vres f (uv_loop bits ms 0 0 bs)).
Proof.
  intros bs v rest H. apply map_vres_suffix in H as [v' H]. eapply uv_loop_suffix; eassumption.
Qed.
Lemma reader_ok_ice : reader_ok rv_ice. Proof. apply reader_ok_map. Qed.
Lemma reader_ok_xor64 : reader_ok rv_xor64. Proof. apply reader_ok_map. Qed.
Lemma reader_ok_sql32 : reader_ok rv_sql32. Proof. apply reader_ok_map. Qed.
Lemma reader_ok_sql32_orig : reader_ok rv_sql32_orig. Proof. apply reader_ok_map. Qed.

Lemma rd_safe B r bs : safe B (rd r bs).
Proof. unfold rd. destruct (r bs); [apply safe_ret|apply safe_fail..]. Qed.

Lemma rd_ok r bs v rest : out (rd r bs) = Ok (v, rest) -> r bs = VOk v rest.
Proof. unfold rd. destruct (r bs); cbn; intros H; inversion H; subst; reflexivity. Qed.

Lemma rd_len r bs v rest : reader_ok r -> out (rd r bs) = Ok (v, rest) -> zlen rest < zlen bs.
Proof. intros Hr H. apply rd_ok in H. apply Hr in H. unfold zlen. lia. Qed.

Definition cfg_ok (cfg : dcfg) : Prop := reader_ok (c_int cfg) /\ reader_ok (c_ts cfg) /\ c_chk cfg = true.

Lemma cfg_ok_iceberg : cfg_ok (cfg_iceberg true).
Proof. repeat split; apply reader_ok_ice. Qed.
Lemma cfg_ok_sql : cfg_ok (cfg_sql true).
Proof. repeat split; [apply reader_ok_sql32|apply reader_ok_xor64]. Qed.

(* ------------------------------------------------------------------ *)
(* C34 for the record decoders *)
Section Safe.
  Variable cfg : dcfg.
  Hypothesis Hcfg : cfg_ok cfg.
  Variable B : Z.
  Hypothesis HB : B <= max_alloc.

  Let Hint_ : reader_ok (c_int cfg) := proj1 Hcfg.
  Let Hts_ : reader_ok (c_ts cfg) := proj1 (proj2 Hcfg).
  Let Hchk_ : c_chk cfg = true := proj2 (proj2 Hcfg).

  Lemma read_nbytes_safe len bs : zlen bs <= B -> safe B (read_nbytes cfg len bs).
  Proof.
    intros Hl. unfold read_nbytes. rewrite Hchk_.
    destruct (len <? 0) eqn:E1; [apply safe_ret|].
    destruct (len =? 0) eqn:E2; [apply safe_ret|].
    cbn [andb]. destruct (zlen bs <? len) eqn:E3; [apply safe_fail|].
    apply safe_bind; [apply safe_make; lia|]. intros _ _. apply safe_ret.
  Qed.

  Lemma read_nbytes_len len bs o rest :
    out (read_nbytes cfg len bs) = Ok (o, rest) -> zlen rest <= zlen bs.
  Proof.
    unfold read_nbytes.
    destruct (len <? 0) eqn:E1; [intros H; apply out_ret in H; inversion H; subst; lia|].
    destruct (len =? 0) eqn:E2; [intros H; apply out_ret in H; inversion H; subst; lia|].
    destruct (c_chk cfg && (zlen bs <? len)); [intros H; apply out_fail in H; contradiction|].
    intros H. apply bind_ok_inv in H as [[] [_ H]].
    destruct (zlen bs <? len); [apply out_fail in H; contradiction|].
    apply out_ret in H. inversion H; subst. apply zlen_drop.
  Qed.

  Lemma hdr_loop_safe fuel : forall n bs, zlen bs <= B -> safe B (hdr_loop cfg fuel n bs).
  Proof.
    induction fuel as [|f IH]; intros n bs Hl; cbn [hdr_loop];
      (destruct (n <=? 0); [apply safe_ret|]); [apply safe_fail|].
    apply safe_bind; [apply rd_safe|]. intros [kl b1] H1. apply rd_len in H1; [|exact Hint_].
    apply safe_bind; [apply read_nbytes_safe; lia|]. intros [k b2] H2. apply read_nbytes_len in H2.
    apply safe_bind; [apply rd_safe|]. intros [vl b3] H3. apply rd_len in H3; [|exact Hint_].
    apply safe_bind; [apply read_nbytes_safe; lia|]. intros [v b4] H4. apply read_nbytes_len in H4.
    apply safe_bind; [apply IH; lia|]. intros tl _. apply safe_ret.
  Qed.

  (* decodeRecord: allocations <= 40 * remaining bytes; the rest it returns is shorter *)
  Lemma decode_record_safe base ts bs : 40 * zlen bs <= B -> safe B (decode_record cfg base ts bs).
  Proof.
    intros Hl. pose proof (zlen_nonneg bs) as Hnn. unfold decode_record.
    apply safe_bind; [apply rd_safe|]. intros [len r1] H1. apply rd_len in H1; [|exact Hint_].
    destruct (len <? 0) eqn:E1; [apply safe_fail|]. rewrite Hchk_. cbn [andb].
    destruct (zlen r1 <? len) eqn:E2; [apply safe_fail|].
    apply safe_bind; [apply safe_make; lia|]. intros _ _.
    pose proof (zlen_take_le len r1 ltac:(lia)) as Ht.
    destruct (take len r1) as [|attr b0] eqn:Et; [apply safe_fail|].
    rewrite zlen_cons in Ht. pose proof (zlen_nonneg b0).
    apply safe_bind; [apply rd_safe|]. intros [tsd b1] H2. apply rd_len in H2; [|exact Hts_].
    apply safe_bind; [apply rd_safe|]. intros [od b2] H3. apply rd_len in H3; [|exact Hint_].
    apply safe_bind; [apply rd_safe|]. intros [kl b3] H4. apply rd_len in H4; [|exact Hint_].
    apply safe_bind; [apply read_nbytes_safe; lia|]. intros [key b4] H5. apply read_nbytes_len in H5.
    apply safe_bind; [apply rd_safe|]. intros [vl b5] H6. apply rd_len in H6; [|exact Hint_].
    apply safe_bind; [apply read_nbytes_safe; lia|]. intros [val b6] H7. apply read_nbytes_len in H7.
    apply safe_bind; [apply rd_safe|]. intros [hc b7] H8. apply rd_len in H8; [|exact Hint_].
    destruct ((hc <? 0) || (zlen b7 <? hc)) eqn:E3; [apply safe_fail|].
    apply safe_bind; [apply safe_make; lia|]. intros _ _.
    apply safe_bind; [apply hdr_loop_safe; lia|]. intros hs _. apply safe_ret.
  Qed.

  Lemma decode_record_len base ts bs r rest :
    out (decode_record cfg base ts bs) = Ok (r, rest) -> zlen rest < zlen bs.
  Proof.
    unfold decode_record. intros H.
    apply bind_ok_inv in H as [[len r1] [H1 H]]. apply rd_len in H1; [|exact Hint_].
    destruct (len <? 0); [apply out_fail in H; contradiction|].
    destruct (c_chk cfg && (zlen r1 <? len)); [apply out_fail in H; contradiction|].
    apply bind_ok_inv in H as [[] [_ H]].
    destruct (zlen r1 <? len); [apply out_fail in H; contradiction|].
    destruct (take len r1) as [|attr b0]; [apply out_fail in H; contradiction|].
    apply bind_ok_inv in H as [[? ?] [_ H]]. apply bind_ok_inv in H as [[? ?] [_ H]].
    apply bind_ok_inv in H as [[? ?] [_ H]]. apply bind_ok_inv in H as [[? ?] [_ H]].
    apply bind_ok_inv in H as [[? ?] [_ H]]. apply bind_ok_inv in H as [[? ?] [_ H]].
    apply bind_ok_inv in H as [[? ?] [_ H]].
    match type of H with out (if ?c then _ else _) = _ => destruct c end;
      [apply out_fail in H; contradiction|].
    apply bind_ok_inv in H as [[] [_ H]]. apply bind_ok_inv in H as [hs [_ H]].
    apply out_ret in H. inversion H; subst. pose proof (zlen_drop len r1). lia.
  Qed.

  Lemma rec_loop_safe fuel : forall n base ts bs, 40 * zlen bs <= B -> safe B (rec_loop cfg fuel n base ts bs).
  Proof.
    induction fuel as [|f IH]; intros n base ts bs Hl; cbn [rec_loop];
      (destruct (n <=? 0); [apply safe_ret|]); [apply safe_fail|].
    apply safe_bind; [apply decode_record_safe; assumption|]. intros [r rest] H1.
    apply decode_record_len in H1.
    apply safe_bind; [apply IH; lia|]. intros tl _. apply safe_ret.
  Qed.

  Lemma decode_batch_safe batch : 112 * zlen batch <= B -> safe B (decode_batch cfg batch).
  Proof.
    intros Hl. pose proof (zlen_nonneg batch). unfold decode_batch.
    destruct (zlen batch <? 61); [apply safe_fail|].
    destruct (negb _); [apply safe_fail|].
    destruct (to_signed 32 (be_u (slice batch 57 61)) <=? 0) eqn:E1; [apply safe_ret|].
    rewrite Hchk_. cbn [andb]. pose proof (zlen_skipn 61 batch) as Hs.
    destruct (zlen (skipn 61 batch) <? _) eqn:E2; [apply safe_fail|].
    apply safe_bind; [apply safe_make; lia|]. intros _ _.
    apply rec_loop_safe. pose proof (zlen_nonneg (skipn 61 batch)). lia.
  Qed.

  Lemma batches_loop_safe fuel : forall data, 112 * zlen data <= B -> safe B (batches_loop cfg fuel data).
  Proof.
    induction fuel as [|f IH]; intros data Hl; cbn [batches_loop]; [apply safe_fail|].
    destruct (zlen data <? 12); [apply safe_ret|].
    destruct (be_u (slice data 8 12) <=? 0); [apply safe_ret|].
    destruct (zlen data <? 12 + be_u (slice data 8 12)); [apply safe_ret|].
    apply safe_bind.
    - apply decode_batch_safe. pose proof (zlen_take (12 + be_u (slice data 8 12)) data). lia.
    - intros rs _. apply safe_bind.
      + apply IH. pose proof (zlen_drop (12 + be_u (slice data 8 12)) data). lia.
      + intros tl _. apply safe_ret.
  Qed.

  Lemma decode_segment_safe seg : 112 * zlen seg <= B -> safe B (decode_segment cfg seg).
  Proof.
    intros Hl. unfold decode_segment.
    destruct (zlen seg <? 48); [apply safe_fail|].
    destruct (negb _); [apply safe_fail|].
    apply batches_loop_safe.
    pose proof (zlen_take (zlen seg - 48) (skipn 32 seg)). pose proof (zlen_skipn 32 seg). lia.
  Qed.
End Safe.

(* ------------------------------------------------------------------ *)
(* C34 for the PITR scanner and the index parsers *)
Section SafePitr.
  Variable crc : bytes -> Z.
  Variable B : Z.
  Hypothesis HB : B <= max_alloc.

  Lemma scan_record_safe bs : zlen bs <= B -> safe B (scan_record bs).
  Proof.
    intros Hl. unfold scan_record.
    apply safe_bind; [apply rd_safe|]. intros [len r1] H1. apply rd_len in H1; [|exact reader_ok_xor64].
    destruct (len <? 0) eqn:E1; [apply safe_fail|].
    destruct (zlen r1 <? len) eqn:E2; [apply safe_fail|].
    apply safe_bind; [apply safe_make; lia|]. intros _ _.
    destruct (take len r1) as [|attr b0]; [apply safe_fail|].
    apply safe_bind; [apply rd_safe|]. intros [ts b1] _.
    apply safe_bind; [apply rd_safe|]. intros [od b2] _. apply safe_ret.
  Qed.

  Lemma scan_record_len bs ts od rest :
    out (scan_record bs) = Ok (ts, od, rest) -> zlen rest < zlen bs.
  Proof.
    unfold scan_record. intros H.
    apply bind_ok_inv in H as [[len r1] [H1 H]]. apply rd_len in H1; [|exact reader_ok_xor64].
    destruct (len <? 0); [apply out_fail in H; contradiction|].
    destruct (zlen r1 <? len); [apply out_fail in H; contradiction|].
    apply bind_ok_inv in H as [[] [_ H]].
    destruct (take len r1) as [|attr b0]; [apply out_fail in H; contradiction|].
    apply bind_ok_inv in H as [[? ?] [_ H]]. apply bind_ok_inv in H as [[? ?] [_ H]].
    apply out_ret in H. inversion H; subst. pose proof (zlen_drop len r1). lia.
  Qed.

  Lemma scan_records_safe fuel : forall n bs, zlen bs <= B -> safe B (pitr_scan_records fuel n bs).
  Proof.
    induction fuel as [|f IH]; intros n bs Hl; cbn [pitr_scan_records];
      (destruct (n <=? 0); [apply safe_ret|]); [apply safe_fail|].
    apply safe_bind; [apply scan_record_safe; assumption|]. intros [[ts od] rest] H1.
    apply scan_record_len in H1.
    apply safe_bind; [apply IH; lia|]. intros tl _. apply safe_ret.
  Qed.

  Lemma trunc_loop_safe fuel : forall n fts cutoff total bs st,
    zlen bs <= B -> safe B (trunc_loop fuel n fts cutoff total bs st).
  Proof.
    induction fuel as [|f IH]; intros n fts cutoff total bs st Hl; cbn [trunc_loop];
      (destruct (n <=? 0); [apply safe_ret|]); [apply safe_fail|].
    apply safe_bind; [apply scan_record_safe; assumption|]. intros [[ts od] rest] H1.
    apply scan_record_len in H1.
    destruct (cutoff <? _); [apply safe_ret|]. apply IH. lia.
  Qed.

  Lemma new_record_batch_safe data sz : 0 <= sz <= B -> safe B (new_record_batch data sz).
  Proof.
    intros H. unfold new_record_batch. destruct (_ <? 0); [apply safe_fail|].
    apply safe_bind; [apply safe_make; lia|]. intros _ _. apply safe_ret.
  Qed.

  Lemma pitr_truncate_safe batch cutoff : zlen batch <= B -> safe B (pitr_truncate crc batch cutoff).
  Proof.
    intros Hl. pose proof (zlen_nonneg batch). unfold pitr_truncate.
    destruct (zlen batch <? 61); [apply safe_fail|].
    destruct (_ <=? cutoff).
    { apply safe_bind; [apply new_record_batch_safe; lia|]. intros b _. apply safe_ret. }
    destruct (cutoff <? _); [apply safe_ret|].
    destruct (negb _); [apply safe_fail|].
    apply safe_bind.
    { apply trunc_loop_safe. pose proof (zlen_skipn 61 batch). lia. }
    intros st _.
    destruct (s_kept st =? 0); [apply safe_ret|].
    destruct (s_kept st =? _).
    { apply safe_bind; [apply new_record_batch_safe; lia|]. intros b _. apply safe_ret. }
    pose proof (zlen_take (61 + s_kept_bytes st) batch).
    pose proof (zlen_nonneg (take (61 + s_kept_bytes st) batch)).
    apply safe_bind; [apply safe_make; lia|]. intros _ _.
    apply safe_bind; [apply new_record_batch_safe; lia|]. intros b _. apply safe_ret.
  Qed.

  Lemma pitr_loop_safe fuel : forall body cutoff, zlen body <= B -> safe B (pitr_loop crc fuel body cutoff).
  Proof.
    induction fuel as [|f IH]; intros body cutoff Hl; cbn [pitr_loop]; [apply safe_fail|].
    destruct (zlen body <? 12); [apply safe_ret|].
    destruct (be_u (slice body 8 12) <=? 0) eqn:E0; [apply safe_ret|].
    destruct (zlen body <? 12 + be_u (slice body 8 12)) eqn:E1; [apply safe_fail|].
    apply safe_bind; [apply safe_make; lia|]. intros _ _.
    apply safe_bind.
    { apply pitr_truncate_safe. pose proof (zlen_take (12 + be_u (slice body 8 12)) body). lia. }
    intros [kept done] _. destruct done; [apply safe_ret|].
    apply safe_bind; [|intros tl _; apply safe_ret].
    apply IH. pose proof (zlen_drop (12 + be_u (slice body 8 12)) body). lia.
  Qed.

  Lemma pitr_collect_safe seg cutoff : zlen seg <= B -> safe B (pitr_collect crc seg cutoff).
  Proof.
    intros Hl. unfold pitr_collect.
    destruct (zlen seg <? 48); [apply safe_fail|].
    destruct (negb _); [apply safe_fail|].
    apply pitr_loop_safe.
    pose proof (zlen_take (zlen seg - 48) (skipn 32 seg)). pose proof (zlen_skipn 32 seg). lia.
  Qed.

  Lemma idx_read_safe fuel : forall n bs, safe B (idx_read fuel n bs).
  Proof.
    induction fuel as [|f IH]; intros n bs; cbn [idx_read];
      (destruct (n <=? 0); [apply safe_ret|]); [apply safe_fail|].
    destruct (zlen bs <? 12); [apply safe_fail|].
    apply safe_bind; [apply IH|]. intros tl _. apply safe_ret.
  Qed.

  Lemma idx_read_sql_safe fuel : forall n bs, safe B (idx_read_sql fuel n bs).
  Proof.
    induction fuel as [|f IH]; intros n bs; cbn [idx_read_sql];
      (destruct (n <=? 0); [apply safe_ret|]); [apply safe_fail|].
    destruct (zlen bs <? 12); [apply safe_fail|].
    apply safe_bind; [apply IH|]. intros tl _. apply safe_ret.
  Qed.

  Lemma idx_header_safe data : safe B (idx_header_ok data).
  Proof.
    unfold idx_header_ok. destruct (zlen data <? 16); [apply safe_fail|].
    destruct (negb _); [apply safe_fail|]. destruct (negb _); [apply safe_fail|]. apply safe_ret.
  Qed.

  Lemma parse_index_storage_safe data : 2 * zlen data <= B -> safe B (parse_index_storage data).
  Proof.
    intros Hl. unfold parse_index_storage.
    apply safe_bind; [apply idx_header_safe|]. intros count _.
    destruct (count <? 0) eqn:E1; [apply safe_fail|].
    destruct (zlen data - 16 <? count * 12) eqn:E2; [apply safe_fail|].
    apply safe_bind; [apply safe_make; lia|]. intros _ _. apply idx_read_safe.
  Qed.

  Lemma parse_index_iceberg_safe data : 2 * zlen data <= B -> safe B (parse_index_iceberg true data).
  Proof.
    intros Hl. unfold parse_index_iceberg.
    apply safe_bind; [apply idx_header_safe|]. intros count _. cbn [andb].
    destruct ((count <? 0) || (zlen data - 16 <? count * 12)) eqn:E1; [apply safe_fail|].
    apply safe_bind; [apply safe_make; lia|]. intros _ _. apply idx_read_safe.
  Qed.

  Lemma parse_index_sql_safe data :
    bytes_ok data -> 2 * zlen data <= B -> safe B (parse_index_sql true data).
  Proof.
    intros Hb Hl. unfold parse_index_sql.
    destruct (zlen data <? 16) eqn:E0; [apply safe_fail|].
    destruct (negb _); [apply safe_fail|]. cbn [andb].
    destruct ((zlen data - 16) / 12 <? be_u (slice data 6 10)) eqn:E1; [apply safe_fail|].
    assert (H0 : 0 <= be_u (slice data 6 10)).
    { apply be_u_bound. unfold slice. apply Forall_firstn', Forall_skipn'. exact Hb. }
    pose proof (Z.mul_div_le (zlen data - 16) 12 ltac:(lia)).
    apply safe_bind; [apply safe_make; lia|]. intros _ _. apply idx_read_sql_safe.
  Qed.
End SafePitr.

(* ------------------------------------------------------------------ *)
(* C34 top level.  Inputs up to 2^41 bytes (2 TiB): above that 112 * len would
   itself exceed Go's maximal allocation size 2^48. *)
Definition max_input : Z := 2 ^ 41.

Lemma max_input_ok n : n <= max_input -> 112 * n <= max_alloc.
Proof. unfold max_input, max_alloc. change (2 ^ 48) with (128 * 2 ^ 41). lia. Qed.

Lemma c34_iceberg bs : zlen bs <= max_input ->
  no_panic (decode_iceberg bs) /\ allocs_le (112 * zlen bs) (decode_iceberg bs).
Proof.
  intros H. apply (decode_segment_safe (cfg_iceberg true) cfg_ok_iceberg (112 * zlen bs)).
  - apply max_input_ok; assumption.
  - lia.
Qed.

Lemma c34_sql bs : zlen bs <= max_input ->
  no_panic (decode_sql bs) /\ allocs_le (112 * zlen bs) (decode_sql bs).
Proof.
  intros H. apply (decode_segment_safe (cfg_sql true) cfg_ok_sql (112 * zlen bs)).
  - apply max_input_ok; assumption.
  - lia.
Qed.

Lemma c34_skeleton bs : no_panic (decode_skeleton bs) /\ allocs (decode_skeleton bs) = [] /\ out (decode_skeleton bs) = Ok [].
Proof. unfold decode_skeleton. split; [apply no_panic_ret|split; reflexivity]. Qed.

Lemma c34_pitr crc bs cutoff : zlen bs <= max_input ->
  no_panic (pitr_collect crc bs cutoff) /\ allocs_le (zlen bs) (pitr_collect crc bs cutoff).
Proof.
  intros H. apply pitr_collect_safe; [|lia]. pose proof (max_input_ok _ H). pose proof (zlen_nonneg bs). lia.
Qed.

Lemma c34_scan n bs : zlen bs <= max_input ->
  no_panic (pitr_scan_records (S (length bs)) n bs) /\ allocs_le (zlen bs) (pitr_scan_records (S (length bs)) n bs).
Proof.
  intros H. apply scan_records_safe; [|lia]. pose proof (max_input_ok _ H). pose proof (zlen_nonneg bs). lia.
Qed.

Lemma c34_index bs : bytes_ok bs -> zlen bs <= max_input ->
  (no_panic (parse_index_storage bs) /\ allocs_le (2 * zlen bs) (parse_index_storage bs)) /\
  (no_panic (parse_index_iceberg true bs) /\ allocs_le (2 * zlen bs) (parse_index_iceberg true bs)) /\
  (no_panic (parse_index_sql true bs) /\ allocs_le (2 * zlen bs) (parse_index_sql true bs)).
Proof.
  intros Hb H. pose proof (max_input_ok _ H). pose proof (zlen_nonneg bs).
  split; [|split].
  - apply parse_index_storage_safe; lia.
  - apply parse_index_iceberg_safe; lia.
  - apply parse_index_sql_safe; first [assumption | lia].
Qed.

(* ------------------------------------------------------------------ *)
(* fuel: the loops never run out of it *)
Definition nf {A} (r : M A) : Prop := out r <> Err EFuel.

Lemma nf_ret {A} (a : A) : nf (ret a).
Proof. unfold nf; cbn; discriminate. Qed.
Lemma nf_fail {A} e : e <> EFuel -> nf (@fail derr A e).
Proof. unfold nf; cbn; intros H E; inversion E; contradiction. Qed.
Lemma nf_bind {A C} (m : M A) (f : A -> M C) :
  nf m -> (forall a, out m = Ok a -> nf (f a)) -> nf (bind m f).
Proof.
  unfold nf, bind. intros Hm Hf. destruct (out m) as [a|e|] eqn:Em; cbn.
  - apply Hf; reflexivity.
  - congruence.
  - discriminate.
Qed.
Lemma nf_make elem n : nf (@make derr elem n).
Proof. unfold nf, make. destruct (_ || _); cbn; discriminate. Qed.
Lemma nf_rd r bs : nf (rd r bs).
Proof. unfold rd. destruct (r bs); [apply nf_ret|apply nf_fail; discriminate..]. Qed.

Ltac nff := first [apply nf_ret | apply nf_fail; discriminate].

Section Fuel.
  Variable cfg : dcfg.
  Hypothesis Hcfg : cfg_ok cfg.
  Let Hint_ : reader_ok (c_int cfg) := proj1 Hcfg.

  Lemma nf_read_nbytes len bs : nf (read_nbytes cfg len bs).
  Proof.
    unfold read_nbytes. destruct (len <? 0); [nff|]. destruct (len =? 0); [nff|].
    destruct (_ && _); [nff|]. apply nf_bind; [apply nf_make|]. intros _ _.
    destruct (_ <? _); nff.
  Qed.

  Lemma nf_hdr_loop fuel : forall n bs, (length bs < fuel)%nat -> nf (hdr_loop cfg fuel n bs).
  Proof.
    induction fuel as [|f IH]; intros n bs Hl; [lia|]. cbn [hdr_loop]. destruct (n <=? 0); [nff|].
    apply nf_bind; [apply nf_rd|]. intros [kl b1] H1. apply rd_len in H1; [|exact Hint_].
    apply nf_bind; [apply nf_read_nbytes|]. intros [k b2] H2. apply (read_nbytes_len cfg Hcfg) in H2.
    apply nf_bind; [apply nf_rd|]. intros [vl b3] H3. apply rd_len in H3; [|exact Hint_].
    apply nf_bind; [apply nf_read_nbytes|]. intros [v b4] H4. apply (read_nbytes_len cfg Hcfg) in H4.
    apply nf_bind; [|intros; nff]. apply IH. unfold zlen in *. lia.
  Qed.

  Lemma nf_decode_record base ts bs : nf (decode_record cfg base ts bs).
  Proof.
    unfold decode_record. apply nf_bind; [apply nf_rd|]. intros [len r1] _.
    destruct (len <? 0); [nff|]. destruct (_ && _); [nff|].
    apply nf_bind; [apply nf_make|]. intros _ _. destruct (_ <? _); [nff|].
    destruct (take len r1); [nff|].
    apply nf_bind; [apply nf_rd|]. intros [? ?] _. apply nf_bind; [apply nf_rd|]. intros [? ?] _.
    apply nf_bind; [apply nf_rd|]. intros [? ?] _. apply nf_bind; [apply nf_read_nbytes|]. intros [? ?] _.
    apply nf_bind; [apply nf_rd|]. intros [? ?] _. apply nf_bind; [apply nf_read_nbytes|]. intros [? ?] _.
    apply nf_bind; [apply nf_rd|]. intros [hc b7] _. destruct (_ && _); [nff|].
    apply nf_bind; [apply nf_make|]. intros _ _.
    apply nf_bind; [apply nf_hdr_loop; lia|]. intros; nff.
  Qed.

  Lemma nf_rec_loop fuel : forall n base ts bs, (length bs < fuel)%nat -> nf (rec_loop cfg fuel n base ts bs).
  Proof.
    induction fuel as [|f IH]; intros n base ts bs Hl; [lia|]. cbn [rec_loop]. destruct (n <=? 0); [nff|].
    apply nf_bind; [apply nf_decode_record|]. intros [r rest] H1.
    apply (decode_record_len cfg Hcfg) in H1.
    apply nf_bind; [|intros; nff]. apply IH. unfold zlen in *. lia.
  Qed.

  Lemma nf_decode_batch batch : nf (decode_batch cfg batch).
  Proof.
    unfold decode_batch. destruct (_ <? _); [nff|]. destruct (negb _); [nff|].
    destruct (_ <=? _); [nff|]. destruct (_ && _); [nff|].
    apply nf_bind; [apply nf_make|]. intros _ _. apply nf_rec_loop. lia.
  Qed.

  Lemma nf_batches_loop fuel : forall data, (length data < fuel)%nat -> nf (batches_loop cfg fuel data).
  Proof.
    induction fuel as [|f IH]; intros data Hl; [lia|]. cbn [batches_loop].
    destruct (zlen data <? 12) eqn:E0; [nff|].
    destruct (be_u (slice data 8 12) <=? 0) eqn:E1; [nff|].
    destruct (zlen data <? 12 + be_u (slice data 8 12)) eqn:E2; [nff|].
    apply nf_bind; [apply nf_decode_batch|]. intros rs _.
    apply nf_bind; [|intros; nff]. apply IH.
    pose proof (zlen_drop_eq (12 + be_u (slice data 8 12)) data ltac:(lia)). unfold zlen in *. lia.
  Qed.

  Lemma nf_decode_segment seg : nf (decode_segment cfg seg).
  Proof.
    unfold decode_segment. destruct (_ <? _); [nff|]. destruct (negb _); [nff|].
    apply nf_batches_loop. lia.
  Qed.
End Fuel.

Section FuelPitr.
  Variable crc : bytes -> Z.

  Lemma nf_scan_record bs : nf (scan_record bs).
  Proof.
    unfold scan_record. apply nf_bind; [apply nf_rd|]. intros [len r1] _.
    destruct (len <? 0); [nff|]. destruct (_ <? _); [nff|].
    apply nf_bind; [apply nf_make|]. intros _ _. destruct (take len r1); [nff|].
    apply nf_bind; [apply nf_rd|]. intros [? ?] _. apply nf_bind; [apply nf_rd|]. intros [? ?] _. nff.
  Qed.

  Lemma nf_trunc_loop fuel : forall n fts cutoff total bs st,
    (length bs < fuel)%nat -> nf (trunc_loop fuel n fts cutoff total bs st).
  Proof.
    induction fuel as [|f IH]; intros n fts cutoff total bs st Hl; [lia|]. cbn [trunc_loop].
    destruct (n <=? 0); [nff|].
    apply nf_bind; [apply nf_scan_record|]. intros [[ts od] rest] H1. apply scan_record_len in H1.
    destruct (cutoff <? _); [nff|]. apply IH. unfold zlen in *. lia.
  Qed.

  Lemma nf_new_record_batch data sz : nf (new_record_batch data sz).
  Proof.
    unfold new_record_batch. destruct (_ <? 0); [nff|].
    apply nf_bind; [apply nf_make|]. intros; nff.
  Qed.

  Lemma nf_pitr_truncate batch cutoff : nf (pitr_truncate crc batch cutoff).
  Proof.
    unfold pitr_truncate. destruct (_ <? _); [nff|].
    destruct (_ <=? cutoff). { apply nf_bind; [apply nf_new_record_batch|]. intros; nff. }
    destruct (cutoff <? _); [nff|]. destruct (negb _); [nff|].
    apply nf_bind; [apply nf_trunc_loop; lia|]. intros st _.
    destruct (_ =? 0); [nff|].
    destruct (_ =? _). { apply nf_bind; [apply nf_new_record_batch|]. intros; nff. }
    apply nf_bind; [apply nf_make|]. intros _ _. apply nf_bind; [apply nf_new_record_batch|]. intros; nff.
  Qed.

  Lemma nf_pitr_loop fuel : forall body cutoff, (length body < fuel)%nat -> nf (pitr_loop crc fuel body cutoff).
  Proof.
    induction fuel as [|f IH]; intros body cutoff Hl; [lia|]. cbn [pitr_loop].
    destruct (zlen body <? 12) eqn:E0; [nff|].
    destruct (be_u (slice body 8 12) <=? 0) eqn:E1; [nff|].
    destruct (zlen body <? 12 + be_u (slice body 8 12)) eqn:E2; [nff|].
    apply nf_bind; [apply nf_make|]. intros _ _.
    apply nf_bind; [apply nf_pitr_truncate|]. intros [kept done] _. destruct done; [nff|].
    apply nf_bind; [|intros; nff]. apply IH.
    pose proof (zlen_drop_eq (12 + be_u (slice body 8 12)) body ltac:(lia)). unfold zlen in *. lia.
  Qed.

  Lemma nf_pitr_collect seg cutoff : nf (pitr_collect crc seg cutoff).
  Proof.
    unfold pitr_collect. destruct (_ <? _); [nff|]. destruct (negb _); [nff|].
    apply nf_pitr_loop. lia.
  Qed.
End FuelPitr.

Lemma fuel_suffices bs :
  out (decode_iceberg bs) <> Err EFuel /\ out (decode_sql bs) <> Err EFuel /\
  (forall crc cutoff, out (pitr_collect crc bs cutoff) <> Err EFuel).
Proof.
  split; [|split].
  - apply (nf_decode_segment _ cfg_ok_iceberg).
  - apply (nf_decode_segment _ cfg_ok_sql).
  - intros crc cutoff. apply nf_pitr_collect.
Qed.
