(* Proofs about model/Storage.v (C01, C02, C05, C06): one inductive invariant over
   every event list (every schedule x S3/store fault sequence x crash point). *)
From Coq Require Import ZifyBool.
From KS Require Import lib.Base model.Storage.
Open Scope Z_scope.

(* ------------------------------------------------------------------ S3 maps *)
Lemma lookup_put_same k v m : lookup k (put k v m) = Some v.
Proof.
  induction m as [|[k' v'] m IH]; cbn [put lookup].
  - now rewrite Z.eqb_refl.
  - destruct (k =? k') eqn:E; cbn [lookup]; [now rewrite Z.eqb_refl|].
    destruct (k <? k') eqn:L; cbn [lookup]; [now rewrite Z.eqb_refl|]. now rewrite E.
Qed.

Lemma lookup_put_other k k' v m : k' <> k -> lookup k' (put k v m) = lookup k' m.
Proof.
  intros N. induction m as [|[k0 v0] m IH]; cbn [put lookup].
  - destruct (k' =? k) eqn:E; [lia|reflexivity].
  - destruct (k =? k0) eqn:E; cbn [lookup].
    + assert (k = k0) by lia; subst. destruct (k' =? k0) eqn:E2; [lia|reflexivity].
    + destruct (k <? k0) eqn:L; cbn [lookup].
      * destruct (k' =? k) eqn:E2; [lia|reflexivity].
      * destruct (k' =? k0); [reflexivity|apply IH].
Qed.

Lemma has_put_same k v m : has k (put k v m) = true.
Proof. unfold has. now rewrite lookup_put_same. Qed.

Lemma has_put_mono k k' v m : has k' m = true -> has k' (put k v m) = true.
Proof.
  intros H. destruct (Z.eq_dec k' k) as [->|N]; [apply has_put_same|].
  unfold has in *. now rewrite lookup_put_other.
Qed.

Lemma lookup_in k v m : lookup k m = Some v -> In (k, v) m.
Proof.
  induction m as [|[k' v'] m IH]; cbn [lookup]; [discriminate|].
  destruct (k =? k') eqn:E; intros H.
  - inversion H; subst. assert (k = k') by lia; subst. now left.
  - right. now apply IH.
Qed.

Lemma lookup_keys k v m : lookup k m = Some v -> In k (map fst m).
Proof. intros H. apply lookup_in in H. now apply (in_map fst) in H. Qed.

(* ------------------------------------------------------------------ chains *)
Lemma chain_app lo a b hi :
  chain lo (a ++ b) hi <-> exists mid, chain lo a mid /\ chain mid b hi.
Proof.
  revert lo; induction a as [|x a IH]; intros lo; cbn [app chain].
  - split; [intros H; exists lo; now split|intros (mid & -> & H); exact H].
  - split.
    + intros (H1 & H2 & H3). apply IH in H3 as (mid & H3 & H4). exists mid. repeat split; assumption.
    + intros (mid & (H1 & H2 & H3) & H4). repeat split; try assumption. apply IH. now exists mid.
Qed.

Lemma chain_le lo a hi : chain lo a hi -> lo <= hi.
Proof.
  revert lo; induction a as [|x a IH]; intros lo; cbn [chain]; [lia|].
  intros (H1 & H2 & H3). apply IH in H3. lia.
Qed.

Lemma last_off_cons x y r : last_off (x :: y :: r) = last_off (y :: r).
Proof. reflexivity. Qed.

Lemma chain_last lo a hi :
  chain lo a hi -> a <> [] -> art_key a = lo /\ lo <= last_off a /\ hi = last_off a + 1.
Proof.
  revert lo; induction a as [|x a IH]; intros lo H N; [congruence|].
  cbn [chain] in H. destruct H as (H1 & H2 & H3). cbn [art_key].
  destruct a as [|y r].
  - cbn [chain] in H3. unfold last_off, b_last. cbn [last]. lia.
  - rewrite last_off_cons. destruct (IH _ H3) as (E1 & E2 & E3); [discriminate|]. lia.
Qed.

Lemma chain_in_last lo a hi b : chain lo a hi -> In b a -> lo <= b_base b /\ b_last b < hi /\ 0 <= b_lod b.
Proof.
  revert lo; induction a as [|x a IH]; intros lo H I; [contradiction|].
  cbn [chain] in H. destruct H as (H1 & H2 & H3). pose proof (chain_le _ _ _ H3) as L.
  destruct I as [->|I].
  - unfold b_last. lia.
  - destruct (IH _ H3 I) as (A & B & C). lia.
Qed.

Lemma chain_head lo a hi : chain lo a hi -> match a with b :: _ => b_base b | [] => hi end = lo.
Proof. destruct a; cbn [chain]; intuition lia. Qed.

(* ------------------------------------------------------------------ vocabulary *)
Definition below (bnd : option Z) (k : Z) : Prop :=
  match bnd with Some h => k < h | None => True end.

(* b sits in an S3 segment object that has an index object (and, while a log is live,
   lies below the write frontier h, where no upload can touch it any more) *)
Definition safe (bnd : option Z) (seg idx : smap) (b : batch) : Prop :=
  exists k bs, lookup k seg = Some bs /\ In b bs /\ has k idx = true /\ below bnd k.

Definition pubok (bnd : option Z) (seg idx : smap) (v : Z) : Prop :=
  v <= 0 \/ exists k bs, lookup k seg = Some bs /\ has k idx = true /\ below bnd k /\ v <= last_off bs + 1.

Lemma below_mono h h' k : h <= h' -> below (Some h) k -> below (Some h') k.
Proof. cbn; lia. Qed.

Lemma safe_mono h h' seg idx b : h <= h' -> safe (Some h) seg idx b -> safe (Some h') seg idx b.
Proof. intros L (k & bs & A & B & C & D). exists k, bs. cbn in *. repeat split; try assumption. lia. Qed.

Lemma safe_none bnd seg idx b : safe bnd seg idx b -> safe None seg idx b.
Proof. intros (k & bs & A & B & C & D). exists k, bs. cbn. auto. Qed.

Lemma pubok_mono h h' seg idx v : h <= h' -> pubok (Some h) seg idx v -> pubok (Some h') seg idx v.
Proof.
  intros L [H|(k & bs & A & B & C & D)]; [now left|right].
  exists k, bs. cbn in *. repeat split; try assumption. lia.
Qed.

Lemma pubok_none bnd seg idx v : pubok bnd seg idx v -> pubok None seg idx v.
Proof. intros [H|(k & bs & A & B & C & D)]; [now left|right]. exists k, bs. cbn. auto. Qed.

Lemma safe_put_seg h key v seg idx b :
  h <= key -> safe (Some h) seg idx b -> safe (Some h) (put key v seg) idx b.
Proof.
  intros L (k & bs & A & B & C & D). exists k, bs. cbn in D.
  rewrite lookup_put_other by lia. auto.
Qed.

Lemma safe_put_idx bnd key v seg idx b :
  safe bnd seg idx b -> safe bnd seg (put key v idx) b.
Proof.
  intros (k & bs & A & B & C & D). exists k, bs. repeat split; try assumption.
  now apply has_put_mono.
Qed.

Lemma pubok_put_seg h key v seg idx x :
  h <= key -> pubok (Some h) seg idx x -> pubok (Some h) (put key v seg) idx x.
Proof.
  intros L [H|(k & bs & A & B & C & D)]; [now left|right]. exists k, bs. cbn in C.
  rewrite lookup_put_other by lia. auto.
Qed.

Lemma pubok_put_idx bnd key v seg idx x :
  pubok bnd seg idx x -> pubok bnd seg (put key v idx) x.
Proof.
  intros [H|(k & bs & A & B & C & D)]; [now left|right]. exists k, bs.
  repeat split; try assumption. now apply has_put_mono.
Qed.

Lemma durable_of_safe bnd s b : safe bnd (s_seg s) (s_idx s) b -> durable s b.
Proof. intros (k & bs & A & B & C & D). exists k, bs. auto. Qed.

(* ------------------------------------------------------------------ invariant *)
Definition pc_ok (h : Z) (ow : option nat) (fl buf : list batch) (seg idx : smap) (t : nat) (p : pc) : Prop :=
  match p with
  | PIdle => True
  | PAppended b => safe (Some h) seg idx b \/ In b (fl ++ buf)
  | PUp o b sg ix =>
      ow = Some t /\ (sg = UOk -> lookup h seg = Some fl) /\ (ix = UOk -> has h idx = true) /\
      (safe (Some h) seg idx b \/ In b fl)
  | PCb o b v => safe (Some h) seg idx b /\ pubok (Some h) seg idx (v + 1) /\ 0 <= v
  | PRet b ok => ok = true -> safe (Some h) seg idx b
  end.

Definition complete (seg idx : smap) (k : Z) (bs : list batch) : Prop :=
  lookup k seg = Some bs /\ has k idx = true.

(* facts about S3 that hold whether or not a log is live *)
Record S3Inv (seg idx : smap) : Prop := mkS3Inv {
  s3_wf : forall k bs, lookup k seg = Some bs -> bs <> [] /\ chain k bs (last_off bs + 1) /\ 0 <= k;
  s3_ord : forall k bs k' bs', complete seg idx k bs -> complete seg idx k' bs' -> k < k' -> last_off bs < k'
}.

Record LInv (h : Z) (s : state) : Prop := mkLInv {
  li_hpos : 0 <= h;
  li_pend : chain h (s_fl s ++ s_buf s) (s_next s);
  li_done : chain (s_start s) (s_done s) h;
  li_done_safe : forall b, In b (s_done s) -> safe (Some h) (s_seg s) (s_idx s) b;
  li_nofl : s_owner s = None -> s_fl s = [];
  li_own : forall t, s_owner s = Some t -> s_fl s <> [] /\ exists o b sg ix, s_pcs s t = PUp o b sg ix;
  li_pcs : forall t, pc_ok h (s_owner s) (s_fl s) (s_buf s) (s_seg s) (s_idx s) t (s_pcs s t);
  li_acked : forall b, In b (s_acked s) -> safe (Some h) (s_seg s) (s_idx s) b;
  li_s3 : S3Inv (s_seg s) (s_idx s);
  li_seglt : forall k bs, complete (s_seg s) (s_idx s) k bs -> k < h -> last_off bs < h;
  li_k1 : forall k bs, complete (s_seg s) (s_idx s) k bs -> k <= h;
  li_store : pubok (Some h) (s_seg s) (s_idx s) (s_store s) /\ 0 <= s_store s;
  li_clast : forall v, s_clast s = Some v -> pubok (Some h) (s_seg s) (s_idx s) (v + 1) /\ 0 <= v;
  li_pubs : forall v, In v (s_pubs s) -> pubok (Some h) (s_seg s) (s_idx s) v /\ 0 <= v
}.

Record DInv (s : state) : Prop := mkDInv {
  di_acked : forall b, In b (s_acked s) -> safe None (s_seg s) (s_idx s) b;
  di_s3 : S3Inv (s_seg s) (s_idx s);
  di_store : pubok None (s_seg s) (s_idx s) (s_store s) /\ 0 <= s_store s;
  di_pubs : forall v, In v (s_pubs s) -> pubok None (s_seg s) (s_idx s) v /\ 0 <= v
}.

Definition Inv (s : state) : Prop :=
  if s_live s then exists h, LInv h s else DInv s.

Lemma pubok_le h seg idx v :
  0 <= h -> (forall k bs, complete seg idx k bs -> k < h -> last_off bs < h) ->
  pubok (Some h) seg idx v -> v <= h.
Proof.
  intros P L [H|(k & bs & A & B & C & D)]; [lia|]. cbn in C.
  specialize (L k bs (conj A B) C). lia.
Qed.

Lemma init_inv c : Inv (init c).
Proof.
  unfold Inv; cbn. exists 0. constructor; cbn; try tauto; try lia; try discriminate.
  - constructor; cbn; [discriminate|]. intros k bs k' bs' [H _]. discriminate.
  - intros k bs [H _]. discriminate.
  - intros k bs [H _]. discriminate.
  - split; [now left|lia].
Qed.

Ltac dinv I := destruct I as [li_hpos0 li_pend0 li_done0 li_done_safe0 li_nofl0 li_own0 li_pcs0 li_acked0 li_s30 li_seglt0 li_k10 li_store0 li_clast0 li_pubs0].

(* ------------------------------------------------------------------ frame lemmas *)
Lemma has_put_other k k' v m : k' <> k -> has k' (put k v m) = has k' m.
Proof. intros N. unfold has. now rewrite lookup_put_other. Qed.

Lemma pc_ok_buf h ow fl buf buf' seg idx t p :
  pc_ok h ow fl buf seg idx t p -> (forall b, In b buf -> In b buf') ->
  pc_ok h ow fl buf' seg idx t p.
Proof.
  intros H I. destruct p; cbn in *; try assumption.
  destruct H as [H|H]; [now left|right]. rewrite in_app_iff in *. intuition.
Qed.

Lemma pc_ok_step h h' ow ow' fl fl' buf buf' seg seg' idx idx' t p :
  pc_ok h ow fl buf seg idx t p ->
  (forall o b sg ix, p <> PUp o b sg ix) ->
  (forall b, safe (Some h) seg idx b -> safe (Some h') seg' idx' b) ->
  (forall v, pubok (Some h) seg idx v -> pubok (Some h') seg' idx' v) ->
  (forall b, In b (fl ++ buf) -> In b (fl' ++ buf') \/ safe (Some h') seg' idx' b) ->
  pc_ok h' ow' fl' buf' seg' idx' t p.
Proof.
  intros H NU S P I. destruct p; cbn in *.
  - trivial.
  - destruct H as [H|H]; [left; now apply S|]. destruct (I _ H); [now right|now left].
  - exfalso. eapply NU. reflexivity.
  - destruct H as (A & B & C). repeat split; auto.
  - intros E. apply S. now apply H.
Qed.

Lemma not_up_others h s t :
  (forall t', pc_ok h (s_owner s) (s_fl s) (s_buf s) (s_seg s) (s_idx s) t' (s_pcs s t')) ->
  (s_owner s = None \/ s_owner s = Some t) ->
  forall t', t' <> t -> forall o b sg ix, s_pcs s t' <> PUp o b sg ix.
Proof.
  intros P O t' N o b sg ix E. specialize (P t'). rewrite E in P. cbn in P.
  destruct P as (A & _). destruct O as [O|O]; rewrite O in A; [discriminate|]. inversion A. congruence.
Qed.

Lemma upd_same f t v : upd f t v t = v.
Proof. unfold upd. now rewrite Nat.eqb_refl. Qed.

Lemma upd_other f t v t' : t' <> t -> upd f t v t' = f t'.
Proof. intros N. unfold upd. destruct (Nat.eqb t' t) eqn:E; [apply Nat.eqb_eq in E; congruence|reflexivity]. Qed.

Lemma parse_hdr_lod raw lod cnt : parse_hdr raw = Some (lod, cnt) -> 0 <= lod.
Proof.
  unfold parse_hdr. destruct (zlen raw <? hdr_min); [discriminate|].
  destruct (be_i32 raw 23 <? 0) eqn:E; [discriminate|]. intros H; inversion H; subst. lia.
Qed.

Lemma chain_snoc lo a b hi :
  chain lo a hi -> b_base b = hi -> 0 <= b_lod b -> chain lo (a ++ [b]) (hi + b_lod b + 1).
Proof.
  intros C B L. apply chain_app. exists hi. split; [assumption|]. cbn. repeat split; auto.
Qed.

Lemma chain_art_key h fl buf n : chain h (fl ++ buf) n -> fl <> [] -> art_key fl = h.
Proof. destruct fl as [|b r]; [congruence|]. cbn. intuition. Qed.

(* ------------------------------------------------------------------ EAppend *)
Lemma inv_append h s t raw s' :
  s_live s = true -> LInv h s -> step s (EAppend t raw) = Some s' -> s_live s' = true /\ LInv h s'.
Proof.
  intros Lv I H. cbn [step] in H. rewrite Lv in H. cbn [negb] in H.
  destruct (s_pcs s t) eqn:Pt; try discriminate.
  destruct (parse_hdr raw) as [[lod cnt]|] eqn:Ph; [|inversion H; subst; auto].
  pose proof (parse_hdr_lod _ _ _ Ph) as Lod.
  set (b := mkBatch (s_next s) lod cnt raw) in *.
  dinv I.
  destruct (should_flush (s_cfg s) (s_buf s ++ [b]) && match s_owner s with None => true | Some _ => false end) eqn:SF;
    inversion H; subst; clear H; (split; [reflexivity|]).
  - (* threshold flush: drain *)
    apply andb_true_iff in SF as [_ SF].
    assert (Ow : s_owner s = None) by (destruct (s_owner s); [discriminate|reflexivity]).
    pose proof (li_nofl0 Ow) as Efl. rewrite Efl in *. cbn [app] in *.
    constructor; cbn;
      [ assumption
      | rewrite app_nil_r; replace (s_next s + lod + 1) with (s_next s + b_lod b + 1) by reflexivity;
        apply chain_snoc; auto
      | assumption | assumption
      | discriminate
      | intros t0 E; inversion E; subst; split; [destruct (s_buf s); discriminate|]; rewrite upd_same; eauto
      | | assumption | assumption | assumption | assumption | assumption | assumption | assumption ].
    intros t'. destruct (Nat.eq_dec t' t) as [->|N].
    + rewrite upd_same. cbn. repeat split; try discriminate. right. apply in_app_iff. right. now left.
    + rewrite upd_other by assumption.
      eapply pc_ok_step; [apply li_pcs0| | | |].
      * eapply (not_up_others h s t); [rewrite Efl; exact li_pcs0|now left|exact N].
      * auto.
      * auto.
      * intros b0 Hb. left. rewrite app_nil_r. apply in_app_iff. now left.
  - (* plain append *)
    constructor; cbn;
      [ assumption
      | rewrite app_assoc; replace (s_next s + lod + 1) with (s_next s + b_lod b + 1) by reflexivity;
        apply chain_snoc; auto
      | assumption | assumption | assumption
      | intros t0 E; destruct (li_own0 _ E) as (A & o & b0 & sg & ix & B); split; [assumption|];
        rewrite upd_other by congruence; eauto
      | | assumption | assumption | assumption | assumption | assumption | assumption | assumption ].
    intros t'. destruct (Nat.eq_dec t' t) as [->|N].
    + rewrite upd_same. cbn. right. rewrite !in_app_iff. right. right. now left.
    + rewrite upd_other by assumption. eapply pc_ok_buf; [apply li_pcs0|].
      intros b0 Hb. apply in_app_iff. now left.
Qed.


(* ------------------------------------------------------------------ EFlushBegin *)
Lemma inv_flushbegin h s t s' :
  s_live s = true -> LInv h s -> step s (EFlushBegin t) = Some s' -> s_live s' = true /\ LInv h s'.
Proof.
  intros Lv I H. cbn [step] in H. rewrite Lv in H. cbn [negb] in H.
  destruct (s_pcs s t) eqn:Pt; try discriminate.
  assert (Ow : s_owner s = None) by (destruct (s_owner s); [discriminate|reflexivity]).
  rewrite Ow in H. destruct I as [li_hpos0 li_pend0 li_done0 li_done_safe0 li_nofl0 li_own0 li_pcs0 li_acked0 li_s30 li_seglt0 li_k10 li_store0 li_clast0 li_pubs0].
  pose proof (li_nofl0 Ow) as Efl.
  pose proof (li_pcs0 t) as Pb. rewrite Pt in Pb. cbn in Pb.
  destruct (s_buf s) as [|b0 r] eqn:Eb.
  - (* nothing to drain *)
    assert (Sb : safe (Some h) (s_seg s) (s_idx s) b).
    { destruct Pb as [Pb|Pb]; [assumption|]. rewrite Efl in Pb. cbn in Pb. contradiction. }
    assert (forall p, pc_ok h (s_owner s) (s_fl s) (s_buf s) (s_seg s) (s_idx s) t p ->
            s_live (set_pc s t p) = true /\ LInv h (set_pc s t p)) as K.
    { intros p Pp. split; [exact Lv|]. constructor; cbn; try assumption.
      - rewrite Eb. assumption.
      - intros t0 E. rewrite Ow in E. discriminate.
      - intros t'. destruct (Nat.eq_dec t' t) as [->|N].
        + rewrite upd_same. exact Pp.
        + rewrite upd_other by assumption. rewrite Eb. apply li_pcs0. }
    destruct (s_clast s) as [v|] eqn:Ec; inversion H; subst; apply K; cbn.
    + destruct (li_clast0 _ eq_refl). auto.
    + auto.
  - (* drain *)
    inversion H; subst; clear H. split; [reflexivity|].
    rewrite Efl in *. cbn [app] in *.
    constructor; cbn;
      [ assumption | rewrite app_nil_r; assumption | assumption | assumption | discriminate
      | intros t0 E; inversion E; subst; split; [discriminate|]; rewrite upd_same; eauto
      | | assumption | assumption | assumption | assumption | assumption | assumption | assumption ].
    intros t'. destruct (Nat.eq_dec t' t) as [->|N].
    + rewrite upd_same. cbn. repeat split; try discriminate. destruct Pb; [now left|now right].
    + rewrite upd_other by assumption.
      eapply pc_ok_step; [apply li_pcs0| | | |].
      * eapply (not_up_others h s t); [rewrite Efl, Eb; exact li_pcs0|now left|exact N].
      * auto.
      * auto.
      * intros b1 Hb. left. rewrite app_nil_r. exact Hb.
Qed.



Lemma complete_put_seg seg idx h fl k bs :
  complete (put h fl seg) idx k bs -> (k = h /\ bs = fl) \/ (k <> h /\ complete seg idx k bs).
Proof.
  intros [A B]. destruct (Z.eq_dec k h) as [->|N].
  - rewrite lookup_put_same in A. inversion A. now left.
  - rewrite lookup_put_other in A by assumption. right. split; [assumption|]. split; assumption.
Qed.

Lemma complete_put_idx seg idx h fl k bs :
  complete seg (put h fl idx) k bs -> k = h \/ (k <> h /\ complete seg idx k bs).
Proof.
  intros [A B]. destruct (Z.eq_dec k h) as [->|N]; [now left|].
  rewrite has_put_other in B by assumption. right. split; [assumption|]. split; assumption.
Qed.

(* the owner's upload key is the frontier h; objects below it are never touched *)
Lemma s3inv_put_seg h seg idx fl :
  S3Inv seg idx -> 0 <= h -> fl <> [] -> chain h fl (last_off fl + 1) ->
  (forall k bs, complete seg idx k bs -> k < h -> last_off bs < h) ->
  (forall k bs, complete seg idx k bs -> k <= h) ->
  S3Inv (put h fl seg) idx /\
  (forall k bs, complete (put h fl seg) idx k bs -> k < h -> last_off bs < h) /\
  (forall k bs, complete (put h fl seg) idx k bs -> k <= h).
Proof.
  intros [W O] P N C L K. split; [constructor|split].
  - intros k bs A. destruct (Z.eq_dec k h) as [->|D].
    + rewrite lookup_put_same in A. inversion A; subst. auto.
    + rewrite lookup_put_other in A by assumption. auto.
  - intros k bs k' bs' A B Lt.
    apply complete_put_seg in A. apply complete_put_seg in B.
    destruct A as [[-> ->]|[Na A]], B as [[-> ->]|[Nb B]].
    + lia.
    + specialize (K _ _ B). lia.
    + apply (L _ _ A). lia.
    + eapply O; eauto.
  - intros k bs A Lt. apply complete_put_seg in A. destruct A as [[-> ->]|[Na A]]; [lia|]. eapply L; eauto.
  - intros k bs A. apply complete_put_seg in A. destruct A as [[-> ->]|[Na A]]; [lia|]. eapply K; eauto.
Qed.

Lemma s3inv_put_idx h seg idx fl :
  S3Inv seg idx ->
  (forall k bs, complete seg idx k bs -> k < h -> last_off bs < h) ->
  (forall k bs, complete seg idx k bs -> k <= h) ->
  S3Inv seg (put h fl idx) /\
  (forall k bs, complete seg (put h fl idx) k bs -> k < h -> last_off bs < h) /\
  (forall k bs, complete seg (put h fl idx) k bs -> k <= h).
Proof.
  intros [W O] L K. split; [constructor|split].
  - exact W.
  - intros k bs k' bs' A B Lt.
    apply complete_put_idx in A. apply complete_put_idx in B.
    destruct A as [->|[Na A]], B as [->|[Nb B]].
    + lia.
    + specialize (K _ _ B). lia.
    + apply (L _ _ A). lia.
    + eapply O; eauto.
  - intros k bs A Lt. apply complete_put_idx in A. destruct A as [->|[Na A]]; [lia|]. eapply L; eauto.
  - intros k bs A. apply complete_put_idx in A. destruct A as [->|[Na A]]; [lia|]. eapply K; eauto.
Qed.

Lemma fl_chain h fl buf n : chain h (fl ++ buf) n -> fl <> [] -> chain h fl (last_off fl + 1) /\ art_key fl = h.
Proof.
  intros C N. apply chain_app in C as (mid & C1 & C2).
  destruct (chain_last _ _ _ C1 N) as (A & B & D). subst mid. auto.
Qed.

(* ------------------------------------------------------------------ EUpSeg / EUpIdx *)
Lemma inv_upseg h s t ok s' :
  s_live s = true -> LInv h s -> step s (EUpSeg t ok) = Some s' -> s_live s' = true /\ LInv h s'.
Proof.
  intros Lv I H. cbn [step] in H. rewrite Lv in H. cbn [negb] in H.
  destruct (s_pcs s t) as [| |o b sg ix| |] eqn:Pt; try discriminate.
  destruct sg; try discriminate. inversion H; subst; clear H. split; [reflexivity|].
  dinv I.
  pose proof (li_pcs0 t) as Pb. rewrite Pt in Pb. cbn in Pb. destruct Pb as (Ow & _ & Pix & Pin).
  destruct (li_own0 _ Ow) as (Nfl & _).
  destruct (fl_chain _ _ _ _ li_pend0 Nfl) as (Cfl & Key).
  assert (forall t', t' <> t -> forall o b sg ix, s_pcs s t' <> PUp o b sg ix) as NU.
  { eapply not_up_others; eauto. }
  destruct ok; cbn [up_of].
  - rewrite Key.
    destruct (s3inv_put_seg h _ _ _ li_s30 li_hpos0 Nfl Cfl li_seglt0 li_k10) as (S3 & SL & K1).
    constructor; cbn;
      [ assumption | assumption | assumption
      | intros b0 Hb; apply safe_put_seg; [lia|auto]
      | assumption
      | intros t0 E; destruct (li_own0 _ E) as (A & _); split; [assumption|];
        rewrite Ow in E; inversion E; subst; rewrite upd_same; eauto
      |
      | intros b0 Hb; apply safe_put_seg; [lia|auto]
      | exact S3 | exact SL | exact K1
      | destruct li_store0; split; [apply pubok_put_seg; [lia|assumption]|assumption]
      | intros v E; destruct (li_clast0 _ E); split; [apply pubok_put_seg; [lia|assumption]|assumption]
      | intros v E; destruct (li_pubs0 _ E); split; [apply pubok_put_seg; [lia|assumption]|assumption] ].
    intros t'. destruct (Nat.eq_dec t' t) as [->|N].
    + rewrite upd_same. cbn. repeat split; auto.
      * intros _. apply lookup_put_same.
      * destruct Pin; [left; apply safe_put_seg; [lia|assumption]|now right].
    + rewrite upd_other by assumption.
      eapply pc_ok_step; [apply li_pcs0| apply NU; assumption | | | ].
      * intros b0 Hb; apply safe_put_seg; [lia|auto].
      * intros v Hv; apply pubok_put_seg; [lia|auto].
      * auto.
  - constructor; cbn; try assumption.
    + intros t0 E; destruct (li_own0 _ E) as (A & _); split; [assumption|].
      rewrite Ow in E; inversion E; subst; rewrite upd_same; eauto.
    + intros t'. destruct (Nat.eq_dec t' t) as [->|N].
      * rewrite upd_same. cbn. repeat split; auto. discriminate.
      * rewrite upd_other by assumption. apply li_pcs0.
Qed.

Lemma inv_upidx h s t ok s' :
  s_live s = true -> LInv h s -> step s (EUpIdx t ok) = Some s' -> s_live s' = true /\ LInv h s'.
Proof.
  intros Lv I H. cbn [step] in H. rewrite Lv in H. cbn [negb] in H.
  destruct (s_pcs s t) as [| |o b sg ix| |] eqn:Pt; try discriminate.
  destruct ix; try discriminate. inversion H; subst; clear H. split; [reflexivity|].
  dinv I.
  pose proof (li_pcs0 t) as Pb. rewrite Pt in Pb. cbn in Pb. destruct Pb as (Ow & Psg & _ & Pin).
  destruct (li_own0 _ Ow) as (Nfl & _).
  destruct (fl_chain _ _ _ _ li_pend0 Nfl) as (Cfl & Key).
  assert (forall t', t' <> t -> forall o b sg ix, s_pcs s t' <> PUp o b sg ix) as NU.
  { eapply not_up_others; eauto. }
  destruct ok; cbn [up_of].
  - rewrite Key.
    destruct (s3inv_put_idx h _ _ (s_fl s) li_s30 li_seglt0 li_k10) as (S3 & SL & K1).
    constructor; cbn;
      [ assumption | assumption | assumption
      | intros b0 Hb; apply safe_put_idx; auto
      | assumption
      | intros t0 E; destruct (li_own0 _ E) as (A & _); split; [assumption|];
        rewrite Ow in E; inversion E; subst; rewrite upd_same; eauto
      |
      | intros b0 Hb; apply safe_put_idx; auto
      | exact S3 | exact SL | exact K1
      | destruct li_store0; split; [apply pubok_put_idx; assumption|assumption]
      | intros v E; destruct (li_clast0 _ E); split; [apply pubok_put_idx; assumption|assumption]
      | intros v E; destruct (li_pubs0 _ E); split; [apply pubok_put_idx; assumption|assumption] ].
    intros t'. destruct (Nat.eq_dec t' t) as [->|N].
    + rewrite upd_same. cbn. repeat split; auto.
      * intros _. apply has_put_same.
      * destruct Pin; [left; apply safe_put_idx; assumption|now right].
    + rewrite upd_other by assumption.
      eapply pc_ok_step; [apply li_pcs0| apply NU; assumption | | | ].
      * intros b0 Hb; apply safe_put_idx; auto.
      * intros v Hv; apply pubok_put_idx; auto.
      * auto.
  - constructor; cbn; try assumption.
    + intros t0 E; destruct (li_own0 _ E) as (A & _); split; [assumption|].
      rewrite Ow in E; inversion E; subst; rewrite upd_same; eauto.
    + intros t'. destruct (Nat.eq_dec t' t) as [->|N].
      * rewrite upd_same. cbn. repeat split; auto. discriminate.
      * rewrite upd_other by assumption. apply li_pcs0.
Qed.

(* ------------------------------------------------------------------ ECommit *)
Lemma inv_commit h s t s' :
  s_live s = true -> LInv h s -> step s (ECommit t) = Some s' ->
  s_live s' = true /\ exists h', h <= h' /\ LInv h' s'.
Proof.
  intros Lv I H. cbn [step] in H. rewrite Lv in H. cbn [negb] in H.
  destruct (s_pcs s t) as [| |o b sg ix| |] eqn:Pt; try discriminate.
  destruct sg; try discriminate. destruct ix; try discriminate.
  inversion H; subst; clear H. split; [reflexivity|].
  dinv I.
  pose proof (li_pcs0 t) as Pb. rewrite Pt in Pb. cbn in Pb. destruct Pb as (Ow & Psg & Pix & Pin).
  specialize (Psg eq_refl). specialize (Pix eq_refl).
  destruct (li_own0 _ Ow) as (Nfl & _).
  destruct (fl_chain _ _ _ _ li_pend0 Nfl) as (Cfl & Key).
  apply chain_app in li_pend0 as (mid & C1 & C2).
  destruct (chain_last _ _ _ C1 Nfl) as (_ & Hle & Hmid). subst mid.
  set (h' := last_off (s_fl s) + 1) in *.
  assert (h < h') as Hlt by (unfold h'; lia).
  assert (forall b0, In b0 (s_fl s) -> safe (Some h') (s_seg s) (s_idx s) b0) as Sfl.
  { intros b0 Hb. exists h, (s_fl s). cbn. auto. }
  assert (pubok (Some h') (s_seg s) (s_idx s) h') as Ph.
  { right. exists h, (s_fl s). cbn. repeat split; auto. unfold h'. lia. }
  assert (forall t', t' <> t -> forall o b sg ix, s_pcs s t' <> PUp o b sg ix) as NU.
  { eapply not_up_others; eauto. }
  exists h'. split; [lia|].
  constructor; cbn;
    [ lia | exact C2
    | apply chain_app; exists h; split; assumption
    | intros b0 Hb; apply in_app_iff in Hb as [Hb|Hb]; [eapply safe_mono; [|apply li_done_safe0; assumption]; lia|auto]
    | reflexivity
    | discriminate
    |
    | intros b0 Hb; eapply safe_mono; [|apply li_acked0; assumption]; lia
    | assumption
    | intros k bs A Lt; pose proof (li_k10 _ _ A) as Kk; destruct (Z.eq_dec k h) as [->|Nk];
      [ destruct A as [A _]; rewrite Psg in A; inversion A; subst; unfold h'; lia
      | assert (last_off bs < h) by (apply (li_seglt0 _ _ A); lia); lia ]
    | intros k bs A; pose proof (li_k10 _ _ A); lia
    | destruct li_store0; split; [eapply pubok_mono; [|eassumption]; lia|assumption]
    | intros v E; inversion E; subst; split; [exact Ph|lia]
    | intros v E; destruct (li_pubs0 _ E); split; [eapply pubok_mono; [|eassumption]; lia|assumption] ].
  intros t'. destruct (Nat.eq_dec t' t) as [->|N].
  - rewrite upd_same. cbn. repeat split; [|exact Ph|lia].
    destruct Pin as [Pin|Pin]; [eapply safe_mono; [|eassumption]; lia|auto].
  - rewrite upd_other by assumption.
    eapply pc_ok_step; [apply li_pcs0| apply NU; assumption | | | ].
    + intros b0 Hb. eapply safe_mono; [|eassumption]. lia.
    + intros v Hv. eapply pubok_mono; [|eassumption]. lia.
    + intros b0 Hb. apply in_app_iff in Hb as [Hb|Hb]; [right; auto|left; exact Hb].
Qed.

(* ------------------------------------------------------------------ EFailReset *)
Lemma inv_failreset h s t s' :
  s_live s = true -> LInv h s -> step s (EFailReset t) = Some s' -> s_live s' = true /\ LInv h s'.
Proof.
  intros Lv I H. cbn [step] in H. rewrite Lv in H. cbn [negb] in H.
  destruct (s_pcs s t) as [| |o b sg ix| |] eqn:Pt; try discriminate.
  assert (s' = mkState (s_cfg s) true (s_next s) (s_fl s ++ s_buf s) None [] (s_clast s)
                       (s_seg s) (s_idx s) (s_store s) (upd (s_pcs s) t (PRet b false))
                       (s_start s) (s_done s) (s_acked s) (s_pubs s)) as ->.
  { destruct sg, ix; try discriminate; inversion H; reflexivity. }
  clear H. split; [reflexivity|].
  dinv I.
  pose proof (li_pcs0 t) as Pb. rewrite Pt in Pb. cbn in Pb. destruct Pb as (Ow & _).
  assert (forall t', t' <> t -> forall o b sg ix, s_pcs s t' <> PUp o b sg ix) as NU.
  { eapply not_up_others; eauto. }
  constructor; cbn; try assumption.
  - reflexivity.
  - discriminate.
  - intros t'. destruct (Nat.eq_dec t' t) as [->|N].
    + rewrite upd_same. cbn. discriminate.
    + rewrite upd_other by assumption.
      eapply pc_ok_step; [apply li_pcs0| apply NU; assumption | auto | auto | ].
      intros b0 Hb. left. exact Hb.
Qed.

(* ------------------------------------------------------------------ ECallback / ERespond *)
Lemma inv_callback h s t ok s' :
  s_live s = true -> LInv h s -> step s (ECallback t ok) = Some s' -> s_live s' = true /\ LInv h s'.
Proof.
  intros Lv I H. cbn [step] in H. rewrite Lv in H. cbn [negb] in H.
  destruct (s_pcs s t) as [| | |o b v|] eqn:Pt; try discriminate.
  inversion H; subst; clear H. split; [reflexivity|].
  dinv I.
  pose proof (li_pcs0 t) as Pb. rewrite Pt in Pb. cbn in Pb. destruct Pb as (Sb & Pv & Vp).
  constructor; cbn; try assumption.
  - intros t0 E. destruct (li_own0 _ E) as (A & o' & b' & sg & ix & B). split; [assumption|].
    rewrite upd_other; [eauto|]. intros ->. congruence.
  - intros t'. destruct (Nat.eq_dec t' t) as [->|N].
    + rewrite upd_same. destruct o; cbn; auto.
    + rewrite upd_other by assumption. apply li_pcs0.
  - destruct ok; [split; [assumption|lia]|assumption].
  - destruct ok; [|assumption]. intros x [<-|Hx]; [split; [assumption|lia]|auto].
Qed.

Lemma inv_respond h s t s' :
  s_live s = true -> LInv h s -> step s (ERespond t) = Some s' -> s_live s' = true /\ LInv h s'.
Proof.
  intros Lv I H. cbn [step] in H. rewrite Lv in H. cbn [negb] in H.
  destruct (s_pcs s t) as [| | | |b ok] eqn:Pt; try discriminate.
  inversion H; subst; clear H. split; [reflexivity|].
  dinv I.
  pose proof (li_pcs0 t) as Pb. rewrite Pt in Pb. cbn in Pb.
  constructor; cbn; try assumption.
  - intros t0 E. destruct (li_own0 _ E) as (A & o' & b' & sg & ix & B). split; [assumption|].
    rewrite upd_other; [eauto|]. intros ->. congruence.
  - intros t'. destruct (Nat.eq_dec t' t) as [->|N].
    + rewrite upd_same. exact I.
    + rewrite upd_other by assumption. apply li_pcs0.
  - destruct ok; [|assumption]. intros b0 Hb. apply in_app_iff in Hb as [Hb|[<-|[]]]; auto.
Qed.

(* ------------------------------------------------------------------ ECrash *)
Lemma inv_crash h s s' :
  s_live s = true -> LInv h s -> step s ECrash = Some s' -> s_live s' = false /\ DInv s'.
Proof.
  intros Lv I H. cbn [step] in H. rewrite Lv in H. cbn [negb] in H.
  inversion H; subst; clear H. split; [reflexivity|]. dinv I.
  constructor; cbn; try assumption.
  - intros b Hb. eapply safe_none. eauto.
  - destruct li_store0. split; [eapply pubok_none; eauto|assumption].
  - intros v E. destruct (li_pubs0 _ E). split; [eapply pubok_none; eauto|assumption].
Qed.


(* ------------------------------------------------------------------ RestoreFromS3 *)
Lemma scan_spec next seg idx keys : forall best r,
  restore_scan next seg idx keys best = Some r ->
  (forall k0 l0, best = Some (k0, l0) -> exists bs, complete seg idx k0 bs /\ l0 = last_off bs) ->
  (forall kb lb, r = Some (kb, lb) -> exists bs, complete seg idx kb bs /\ lb = last_off bs) /\
  (forall k bs, In k keys -> complete seg idx k bs -> exists kb lb, r = Some (kb, lb) /\ k <= kb) /\
  (forall k0 l0, best = Some (k0, l0) -> exists kb lb, r = Some (kb, lb) /\ k0 <= kb).
Proof.
  induction keys as [|k keys IH]; intros best r H B; cbn [restore_scan] in H.
  - inversion H; subst. split; [exact B|]. split; [intros ? ? []|].
    intros k0 l0 E. exists k0, l0. split; [assumption|lia].
  - destruct (lookup k seg) as [bs|] eqn:Lk.
    2:{ destruct (IH _ _ H B) as (R1 & R2 & R3). split; [exact R1|]. split; [|exact R3].
        intros k1 bs1 [<-|I] [C1 C2]; [congruence|]. apply (R2 k1 bs1 I). split; assumption. }
    destruct (has k idx) eqn:Hk.
    + set (best' := match best with
                    | Some (k0, _) => if k0 <? k then Some (k, last_off bs) else best
                    | None => Some (k, last_off bs) end) in *.
      assert (B' : forall k0 l0, best' = Some (k0, l0) -> exists bs0, complete seg idx k0 bs0 /\ l0 = last_off bs0).
      { intros k0 l0 E. unfold best' in E. destruct best as [[kk ll]|].
        - destruct (kk <? k); [inversion E; subst; exists bs; split; [split; assumption|reflexivity]|apply B; assumption].
        - inversion E; subst. exists bs. split; [split; assumption|reflexivity]. }
      destruct (IH _ _ H B') as (R1 & R2 & R3). split; [exact R1|]. split.
      * intros k1 bs1 [<-|I] C.
        -- unfold best' in R3. destruct best as [[kk ll]|].
           ++ destruct (kk <? k) eqn:E.
              ** destruct (R3 _ _ eq_refl) as (kb & lb & -> & L). exists kb, lb. split; [reflexivity|lia].
              ** destruct (R3 _ _ eq_refl) as (kb & lb & -> & L). exists kb, lb. split; [reflexivity|lia].
           ++ destruct (R3 _ _ eq_refl) as (kb & lb & -> & L). exists kb, lb. split; [reflexivity|lia].
        -- apply (R2 k1 bs1 I C).
      * intros k0 l0 E. subst best. unfold best' in R3. destruct (k0 <? k) eqn:E.
        -- destruct (R3 _ _ eq_refl) as (kb & lb & -> & L). exists kb, lb. split; [reflexivity|lia].
        -- apply (R3 _ _ eq_refl).
    + destruct (next <=? k); [|discriminate].
      destruct (IH _ _ H B) as (R1 & R2 & R3). split; [exact R1|]. split; [|exact R3].
      intros k1 bs1 [<-|I] [C1 C2]; [congruence|]. apply (R2 k1 bs1 I). split; assumption.
Qed.

Lemma restore_spec next seg idx :
  match restore next seg idx with
  | RErr => True
  | RNone => forall k bs, ~ complete seg idx k bs
  | RLast l => exists kb bsb, complete seg idx kb bsb /\ l = last_off bsb /\
                              forall k bs, complete seg idx k bs -> k <= kb
  end.
Proof.
  unfold restore. destruct (restore_scan next seg idx (map fst seg) None) as [[[kb lb]|]|] eqn:E; [| |exact I].
  - destruct (scan_spec _ _ _ _ _ _ E) as (R1 & R2 & _); [discriminate|].
    destruct (R1 _ _ eq_refl) as (bsb & C & ->). exists kb, bsb. repeat split; try apply C.
    intros k bs Ck. destruct (R2 k bs) as (kb' & lb' & Eq & L); [eapply lookup_keys; apply Ck|exact Ck|].
    inversion Eq; subst. exact L.
  - destruct (scan_spec _ _ _ _ _ _ E) as (_ & R2 & _); [discriminate|].
    intros k bs Ck. destruct (R2 k bs) as (kb' & lb' & Eq & L); [eapply lookup_keys; apply Ck|exact Ck|discriminate].
Qed.

Lemma inv_restart s ok s' :
  s_live s = false -> DInv s -> step s (ERestart ok) = Some s' -> Inv s'.
Proof.
  intros Lv [Da [W O] [Ds Dn] Dp] H. cbn [step] in H. rewrite Lv in H.
  pose proof (restore_spec (s_store s) (s_seg s) (s_idx s)) as R.
  destruct (restore (s_store s) (s_seg s) (s_idx s)) as [| |l] eqn:E.
  - inversion H; subst. unfold Inv. rewrite Lv. constructor; auto. constructor; auto.
  - inversion H; subst; clear H. unfold Inv; cbn. exists (s_store s).
    assert (forall b, ~ safe None (s_seg s) (s_idx s) b) as NS.
    { intros b (k & bs & A & B & C & _). apply (R k bs). split; assumption. }
    constructor; cbn; try tauto; try discriminate; try lia.
    + intros b Hb. exfalso. eapply NS. eauto.
    + constructor; assumption.
    + intros k bs C. exfalso. eapply R; eauto.
    + intros k bs C. exfalso. eapply R; eauto.
    + split; [|assumption]. destruct Ds as [Ds|(k & bs & A & B & _)]; [now left|]. exfalso. apply (R k bs). split; assumption.
    + intros v Ev. destruct (Dp _ Ev) as [[Dv|(k & bs & A & B & _)] Dv0]; [split; [now left|assumption]|]. exfalso. apply (R k bs). split; assumption.
  - destruct R as (kb & bsb & Cb & -> & Mx).
    destruct (W _ _ (proj1 Cb)) as (Nb & Chb & Kpos).
    destruct (chain_last _ _ _ Chb Nb) as (_ & Kle & _).
    set (l := last_off bsb) in *.
    set (h' := if s_store s <=? l then l + 1 else s_store s) in *.
    assert (l < h') as Lh by (unfold h'; destruct (s_store s <=? l) eqn:Q; lia).
    assert (s_store s <= h') as Sh by (unfold h'; destruct (s_store s <=? l) eqn:Q; lia).
    assert (forall k bs, complete (s_seg s) (s_idx s) k bs -> k < h' /\ last_off bs < h') as CB.
    { intros k bs C. pose proof (Mx _ _ C) as Lk. split; [lia|].
      destruct (Z.eq_dec k kb) as [->|Nk].
      - destruct C as [C _], Cb as [Cb _]. rewrite C in Cb. inversion Cb; subst. exact Lh.
      - assert (last_off bs < kb) by (eapply O; eauto; lia). lia. }
    assert (forall b, safe None (s_seg s) (s_idx s) b -> safe (Some h') (s_seg s) (s_idx s) b) as SS.
    { intros b (k & bs & A & B & C & _). exists k, bs. repeat split; auto. cbn. apply (CB k bs). split; assumption. }
    assert (forall v, pubok None (s_seg s) (s_idx s) v -> pubok (Some h') (s_seg s) (s_idx s) v) as PP.
    { intros v [Hv|(k & bs & A & B & _ & D)]; [now left|right]. exists k, bs. repeat split; auto. cbn. apply (CB k bs). split; assumption. }
    assert (pubok (Some h') (s_seg s) (s_idx s) (l + 1)) as PL.
    { right. exists kb, bsb. destruct Cb. repeat split; auto; cbn; lia. }
    inversion H; subst; clear H. unfold Inv; cbn. exists h'.
    constructor; cbn; try tauto; try discriminate; try lia.
    + intros b Hb. auto.
    + constructor; assumption.
    + intros k bs C _. apply (CB k bs C).
    + intros k bs C. destruct (CB k bs C). lia.
    + destruct ((s_store s <=? l) && ok) eqn:Q; [split; [exact PL|lia]|split; [auto|assumption]].
    + intros v Ev. inversion Ev; subst. split; [exact PL|lia].
    + destruct ((s_store s <=? l) && ok).
      * intros v [<-|Hv]; [split; [exact PL|lia]|]. destruct (Dp _ Hv). split; auto.
      * intros v Hv. destruct (Dp _ Hv). split; auto.
Qed.

Lemma inv_restartfault s s' :
  s_live s = false -> DInv s -> step s ERestartFault = Some s' -> Inv s'.
Proof.
  intros Lv D H. cbn [step] in H. rewrite Lv in H. inversion H; subst. unfold Inv. now rewrite Lv.
Qed.


(* ------------------------------------------------------------------ C06: no offset reuse *)
Lemma linv_bounds h s : LInv h s ->
  h <= s_next s /\
  (forall b, safe (Some h) (s_seg s) (s_idx s) b -> b_last b < h) /\
  (forall v, pubok (Some h) (s_seg s) (s_idx s) v -> v <= h).
Proof.
  intros I. dinv I. split; [eapply chain_le; eauto|]. split.
  - intros b (k & bs & A & B & C & D). cbn in D.
    destruct (s3_wf _ _ li_s30 _ _ A) as (_ & Ch & _).
    destruct (chain_in_last _ _ _ _ Ch B) as (_ & L & _).
    pose proof (li_seglt0 k bs (conj A C) D). lia.
  - intros v P. eapply pubok_le; eauto.
Qed.

(* ------------------------------------------------------------------ the invariant holds on every run *)
Lemma step_live_only s e s' : s_live s = false -> step s e = Some s' ->
  e = ERestartFault \/ exists ok, e = ERestart ok.
Proof.
  intros Lv H. destruct e; cbn [step] in H; rewrite Lv in H; cbn in H; try discriminate; eauto.
Qed.

Lemma step_inv s e s' : Inv s -> step s e = Some s' -> Inv s'.
Proof.
  intros I H. unfold Inv in I. destruct (s_live s) eqn:Lv.
  - destruct I as (h & I).
    assert (forall h', s_live s' = true /\ LInv h' s' -> Inv s') as K.
    { intros h' [L J]. unfold Inv. rewrite L. eauto. }
    destruct e.
    + eapply K, inv_append; eauto.
    + eapply K, inv_flushbegin; eauto.
    + eapply K, inv_upseg; eauto.
    + eapply K, inv_upidx; eauto.
    + destruct (inv_commit _ _ _ _ Lv I H) as (L & h' & _ & J). unfold Inv. rewrite L. eauto.
    + eapply K, inv_failreset; eauto.
    + eapply K, inv_callback; eauto.
    + eapply K, inv_respond; eauto.
    + destruct (inv_crash _ _ _ Lv I H) as (L & J). unfold Inv. now rewrite L.
    + cbn [step] in H. rewrite Lv in H. discriminate.
    + cbn [step] in H. rewrite Lv in H. discriminate.
  - destruct (step_live_only _ _ _ Lv H) as [->|[ok ->]].
    + eapply inv_restartfault; eauto.
    + eapply inv_restart; eauto.
Qed.

Lemma run_inv evs : forall s s', Inv s -> run s evs = Some s' -> Inv s'.
Proof.
  induction evs as [|e evs IH]; intros s s' I H; cbn [run] in H.
  - inversion H; subst; exact I.
  - destruct (step s e) as [s1|] eqn:E; [|discriminate]. eapply IH; [|exact H]. eapply step_inv; eauto.
Qed.

Theorem reach_inv c evs s : run (init c) evs = Some s -> Inv s.
Proof. apply run_inv, init_inv. Qed.

Lemma run_app evs1 : forall evs2 s s', run s (evs1 ++ evs2) = Some s' ->
  exists s1, run s evs1 = Some s1 /\ run s1 evs2 = Some s'.
Proof.
  induction evs1 as [|e evs1 IH]; intros evs2 s s' H; cbn [app run] in *.
  - eauto.
  - destruct (step s e) as [s0|]; [|discriminate]. apply IH. exact H.
Qed.

(* acknowledgements are never retracted *)
Lemma step_acked_incl s e s' : step s e = Some s' -> incl (s_acked s) (s_acked s').
Proof.
  intros H b Hb. destruct e; cbn [step] in H.
  all: try (destruct (negb (s_live s)); [discriminate|]).
  all: try (destruct (s_live s); [discriminate|]).
  - destruct (s_pcs s t); try discriminate. destruct (parse_hdr raw) as [[? ?]|]; [|inversion H; subst; exact Hb].
    destruct (should_flush _ _ && _); inversion H; subst; exact Hb.
  - destruct (s_pcs s t); try discriminate. destruct (s_owner s); try discriminate.
    destruct (s_buf s); [destruct (s_clast s)|]; inversion H; subst; exact Hb.
  - destruct (s_pcs s t) as [| |? ? sg ?| |]; try discriminate. destruct sg; try discriminate. inversion H; subst; exact Hb.
  - destruct (s_pcs s t) as [| |? ? ? ix| |]; try discriminate. destruct ix; try discriminate. inversion H; subst; exact Hb.
  - destruct (s_pcs s t) as [| |? ? sg ix| |]; try discriminate. destruct sg; try discriminate. destruct ix; try discriminate. inversion H; subst; exact Hb.
  - destruct (s_pcs s t) as [| |? ? sg ix| |]; try discriminate. destruct sg, ix; try discriminate; inversion H; subst; exact Hb.
  - destruct (s_pcs s t); try discriminate. inversion H; subst; exact Hb.
  - destruct (s_pcs s t) as [| | | |? ok]; try discriminate. inversion H; subst. cbn. destruct ok; [apply in_app_iff; now left|exact Hb].
  - inversion H; subst; exact Hb.
  - destruct (restore _ _ _); inversion H; subst; exact Hb.
  - inversion H; subst; exact Hb.
Qed.

Lemma run_acked_incl evs : forall s s', run s evs = Some s' -> incl (s_acked s) (s_acked s').
Proof.
  induction evs as [|e evs IH]; intros s s' H; cbn [run] in H.
  - inversion H; subst. apply incl_refl.
  - destruct (step s e) as [s1|] eqn:E; [|discriminate].
    eapply incl_tran; [eapply step_acked_incl; eauto|eapply IH; eauto].
Qed.

(* ------------------------------------------------------------------ C01 *)
Lemma inv_acked_durable s : Inv s -> forall b, In b (s_acked s) -> durable s b.
Proof.
  unfold Inv. intros I b Hb. destruct (s_live s).
  - destruct I as (h & I). eapply durable_of_safe. apply (li_acked _ _ I). exact Hb.
  - eapply durable_of_safe. apply (di_acked _ I). exact Hb.
Qed.

Theorem acked_durable c evs s :
  run (init c) evs = Some s -> forall b, In b (s_acked s) -> durable s b.
Proof. intros H. apply inv_acked_durable. eapply reach_inv; eauto. Qed.

(* whatever was acknowledged before a crash is durable in every later state, in
   particular after any restart (with any restore faults in between) *)
Theorem acked_survives c evs1 evs2 s1 s :
  run (init c) evs1 = Some s1 -> run s1 evs2 = Some s ->
  forall b, In b (s_acked s1) -> durable s b.
Proof.
  intros H1 H2 b Hb. apply inv_acked_durable.
  - eapply run_inv; [|exact H2]. eapply reach_inv; eauto.
  - eapply run_acked_incl; eauto.
Qed.

(* ------------------------------------------------------------------ C02 *)
Theorem assigned_chain c evs s :
  run (init c) evs = Some s -> s_live s = true -> chain (s_start s) (log s) (s_next s).
Proof.
  intros H Lv. pose proof (reach_inv _ _ _ H) as I. unfold Inv in I. rewrite Lv in I.
  destruct I as (h & I). unfold log. apply chain_app. exists h. split; [apply (li_done _ _ I)|apply (li_pend _ _ I)].
Qed.

Theorem no_gap c evs s :
  run (init c) evs = Some s -> s_live s = true ->
  forall b, In b (log s) -> durable s b \/ In b (s_fl s ++ s_buf s).
Proof.
  intros H Lv b Hb. pose proof (reach_inv _ _ _ H) as I. unfold Inv in I. rewrite Lv in I.
  destruct I as (h & I). unfold log in Hb. apply in_app_iff in Hb as [Hb|Hb]; [left|now right].
  eapply durable_of_safe. apply (li_done_safe _ _ I). exact Hb.
Qed.

(* an accepted append extends the log by one batch whose base is the previous end *)
Theorem append_extends c evs s t raw s' lod cnt :
  run (init c) evs = Some s -> step s (EAppend t raw) = Some s' -> parse_hdr raw = Some (lod, cnt) ->
  log s' = log s ++ [mkBatch (s_next s) lod cnt raw] /\ s_next s' = s_next s + lod + 1 /\ 0 <= lod.
Proof.
  intros H St Ph. pose proof (reach_inv _ _ _ H) as I. unfold Inv in I.
  cbn [step] in St. destruct (s_live s) eqn:Lv; [|discriminate]. cbn [negb] in St.
  destruct I as (h & I).
  destruct (s_pcs s t); try discriminate. rewrite Ph in St.
  split; [|split; [|eapply parse_hdr_lod; eauto]].
  - destruct (should_flush _ _ && _) eqn:SF; inversion St; subst; unfold log; cbn.
    + apply andb_true_iff in SF as [_ SF].
      assert (Ow : s_owner s = None) by (destruct (s_owner s); [discriminate|reflexivity]).
      rewrite (li_nofl _ _ I Ow). cbn. rewrite app_nil_r. now rewrite app_assoc.
    + now rewrite !app_assoc.
  - destruct (should_flush _ _ && _); inversion St; subst; reflexivity.
Qed.

Theorem rejected_append_no_effect s t raw s' :
  step s (EAppend t raw) = Some s' -> parse_hdr raw = None -> s' = s.
Proof.
  intros St Ph. cbn [step] in St. destruct (negb (s_live s)); [discriminate|].
  destruct (s_pcs s t); try discriminate. rewrite Ph in St. now inversion St.
Qed.

Lemma patched_base b : firstn 8 (b_bytes b) = be64 (b_base b).
Proof. reflexivity. Qed.

Theorem response_base c evs s :
  run (init c) evs = Some s -> forall b, In b (s_acked s) ->
  durable s b /\ firstn 8 (b_bytes b) = be64 (b_base b).
Proof. intros H b Hb. split; [eapply acked_durable; eauto|apply patched_base]. Qed.

(* consumer-visible extents: full statement, its refutation (concatenated batches)
   and the statement on record sets that hold a single frame *)
Definition visible_statement : Prop :=
  forall c evs s, run (init c) evs = Some s -> s_live s = true ->
    chain_ext (s_start s) (flat_map visible (log s)) (s_next s).

Lemma chain_ext_single lo bs hi :
  Forall (fun b => concatenated (b_bytes b) = false) bs -> chain lo bs hi ->
  chain_ext lo (flat_map visible bs) hi.
Proof.
  revert lo; induction bs as [|b bs IH]; intros lo F C; cbn [flat_map chain_ext]; [exact C|].
  inversion F as [|? ? Fb Fr]; subst. cbn [chain] in C. destruct C as (C1 & C2 & C3).
  unfold visible, trailing. rewrite Fb. cbn [app chain_ext]. repeat split; auto.
Qed.

Theorem visible_partial c evs s :
  run (init c) evs = Some s -> s_live s = true ->
  Forall (fun b => concatenated (b_bytes b) = false) (log s) ->
  chain_ext (s_start s) (flat_map visible (log s)) (s_next s).
Proof. intros H Lv F. apply chain_ext_single; [exact F|]. eapply assigned_chain; eauto. Qed.

Lemma chain_extb_ok lo xs hi : chain_ext lo xs hi -> chain_extb lo xs hi = true.
Proof.
  revert lo; induction xs as [|[b d] xs IH]; intros lo; cbn [chain_ext chain_extb]; [lia|].
  intros (A & B & C). rewrite (IH _ C). lia.
Qed.

(* two-frame record set: frame 1 = 2 records, frame 2 = 1 record (61-byte headers) *)
Definition hdr61 (bl lod cnt : Z) : bytes :=
  [0;0;0;0;0;0;0;0; 0;0;0;bl; 0;0;0;0; 2; 0;0;0;0; 0;0; 0;0;0;lod] ++ repeat 0 30 ++ [0;0;0;cnt].
Definition cat_raw : bytes := hdr61 49 1 2 ++ hdr61 49 0 1.
Definition visible_witness : list event := [EAppend 0%nat cat_raw].

Theorem visible_refuted : ~ visible_statement.
Proof.
  intros V. specialize (V (mkCfg 0 0 0 1) visible_witness).
  destruct (run (init (mkCfg 0 0 0 1)) visible_witness) as [s|] eqn:E; [|vm_compute in E; discriminate].
  specialize (V s eq_refl). assert (s_live s = true) as Lv by (vm_compute in E; inversion E; reflexivity).
  apply V in Lv. apply chain_extb_ok in Lv. vm_compute in E. inversion E; subst. vm_compute in Lv. discriminate.
Qed.

(* ------------------------------------------------------------------ C05 *)
Lemma s3_end_ge seg idx : 0 <= fold_right (fun kv a => if has (fst kv) idx then Z.max (last_off (snd kv) + 1) a else a) 0 seg.
Proof. induction seg as [|[k bs] seg IH]; cbn [fold_right fst snd]; [lia|]. destruct (has k idx); lia. Qed.

Lemma s3_end_in seg idx k bs : In (k, bs) seg -> has k idx = true ->
  last_off bs + 1 <= fold_right (fun kv a => if has (fst kv) idx then Z.max (last_off (snd kv) + 1) a else a) 0 seg.
Proof.
  induction seg as [|[k' bs'] seg IH]; intros I Hk; [contradiction|]. cbn [fold_right fst snd].
  destruct I as [E|I].
  - inversion E; subst. rewrite Hk. lia.
  - specialize (IH I Hk). destruct (has k' idx); lia.
Qed.

Lemma pubok_s3_end bnd s v : pubok bnd (s_seg s) (s_idx s) v -> v <= s3_end s.
Proof.
  intros [H|(k & bs & A & B & _ & D)]; unfold s3_end.
  - pose proof (s3_end_ge (s_seg s) (s_idx s)). lia.
  - pose proof (s3_end_in _ _ _ _ (lookup_in _ _ _ A) B). lia.
Qed.

Theorem not_ahead c evs s : run (init c) evs = Some s -> s_store s <= s3_end s.
Proof.
  intros H. pose proof (reach_inv _ _ _ H) as I. unfold Inv in I. destruct (s_live s).
  - destruct I as (h & I). eapply pubok_s3_end. apply (li_store _ _ I).
  - eapply pubok_s3_end. apply (di_store _ I).
Qed.

Theorem pubs_not_ahead c evs s : run (init c) evs = Some s -> forall v, In v (s_pubs s) -> v <= s3_end s.
Proof.
  intros H v Hv. pose proof (reach_inv _ _ _ H) as I. unfold Inv in I. destruct (s_live s).
  - destruct I as (h & I). eapply pubok_s3_end. apply (li_pubs _ _ I). exact Hv.
  - eapply pubok_s3_end. apply (di_pubs _ I). exact Hv.
Qed.

Definition monotone_statement : Prop :=
  forall c evs s, run (init c) evs = Some s -> nondecreasing_newest_first (s_pubs s).

Lemma nondecb_ok l : nondecreasing_newest_first l -> nondecb l = true.
Proof.
  induction l as [|x l IH]; cbn [nondecreasing_newest_first nondecb]; [reflexivity|].
  intros [A B]. rewrite (IH B). destruct l; [reflexivity|lia].
Qed.

Definition one_raw (m : Z) : bytes := hdr61 49 0 1 ++ [m].
Definition reorder_witness : list event :=
  [EAppend 0%nat (one_raw 1); EFlushBegin 0%nat; EUpSeg 0%nat true; EUpIdx 0%nat true; ECommit 0%nat;
   EAppend 1%nat (one_raw 2); EFlushBegin 1%nat; EUpSeg 1%nat true; EUpIdx 1%nat true; ECommit 1%nat;
   ECallback 1%nat true; ECallback 0%nat true].

Theorem monotone_refuted : ~ monotone_statement.
Proof.
  intros M. specialize (M (mkCfg 0 0 0 1) reorder_witness).
  destruct (run (init (mkCfg 0 0 0 1)) reorder_witness) as [s|] eqn:E; [|vm_compute in E; discriminate].
  specialize (M s eq_refl). apply nondecb_ok in M. vm_compute in E. inversion E; subst. vm_compute in M. discriminate.
Qed.
Theorem no_reuse c evs s :
  run (init c) evs = Some s -> s_live s = true ->
  (forall b, In b (s_acked s) -> b_last b < s_next s) /\
  (forall v, In v (s_pubs s) -> v <= s_next s) /\ s_store s <= s_next s.
Proof.
  intros H Lv. pose proof (reach_inv _ _ _ H) as I. unfold Inv in I. rewrite Lv in I.
  destruct I as (h & I). destruct (linv_bounds _ _ I) as (A & B & C). repeat split.
  - intros b Hb. specialize (B b (li_acked _ _ I b Hb)). lia.
  - intros v Hv. specialize (C v (proj1 (li_pubs _ _ I v Hv))). lia.
  - specialize (C _ (proj1 (li_store _ _ I))). lia.
Qed.

(* every batch acknowledged before a crash is, in any later live state, durable and
   below the next offset to be assigned; a new append gets exactly s_next as base *)
Theorem restart_complete c evs1 evs2 s1 s :
  run (init c) evs1 = Some s1 -> run s1 evs2 = Some s -> s_live s = true ->
  forall b, In b (s_acked s1) -> durable s b /\ b_last b < s_next s.
Proof.
  intros H1 H2 Lv b Hb.
  assert (run (init c) (evs1 ++ evs2) = Some s) as H.
  { clear -H1 H2. revert H1. generalize (init c). induction evs1 as [|e r IH]; intros s0 H1; cbn [app run] in *.
    - inversion H1; subst. exact H2.
    - destruct (step s0 e); [|discriminate]. apply IH. exact H1. }
  split; [exact (acked_survives _ _ _ _ _ H1 H2 b Hb)|].
  apply (proj1 (no_reuse _ _ _ H Lv)). exact (run_acked_incl _ _ _ H2 b Hb).
Qed.

(* ------------------------------------------------------------------ C05: monotone when callbacks do not overlap *)
Definition is_cb (p : pc) : bool := match p with PCb _ _ _ => true | _ => false end.
Definition cb_serial (s : state) : Prop :=
  forall t t', is_cb (s_pcs s t) = true -> is_cb (s_pcs s t') = true -> t = t'.

(* runs of one broker incarnation in which at most one onFlush callback is pending at
   any time (the complement of the hw-callback-reorder finding's schedule class) *)
Inductive reach_serial (c : cfg) : state -> Prop :=
| RS_init : reach_serial c (init c)
| RS_step s e s' : reach_serial c s -> e <> ECrash -> step s e = Some s' -> cb_serial s' -> reach_serial c s'.

Record MInv (s : state) : Prop := mkMInv {
  mi_live : s_live s = true;
  mi_hd : hd 0 (s_pubs s) = s_store s;
  mi_cb : forall t o b v, s_pcs s t = PCb o b v -> s_clast s = Some v;
  mi_cl : forall v, s_clast s = Some v -> s_store s <= v + 1;
  mi_nd : nondecreasing_newest_first (s_pubs s)
}.

Lemma nd_cons x l : nondecreasing_newest_first l -> hd 0 l <= x -> (l = [] -> True) ->
  match l with [] => True | y :: _ => y <= x end /\ nondecreasing_newest_first l.
Proof. intros N H _. split; [|exact N]. destruct l; [exact I|exact H]. Qed.

Lemma serial_others s t : cb_serial s -> is_cb (s_pcs s t) = true ->
  forall t', t' <> t -> is_cb (s_pcs s t') = false.
Proof.
  intros S C t' N. destruct (is_cb (s_pcs s t')) eqn:E; [|reflexivity]. exfalso. apply N. now apply S.
Qed.

Lemma minv_step c s e s' :
  reach_serial c s -> (exists h, LInv h s) -> MInv s -> e <> ECrash -> step s e = Some s' -> cb_serial s' -> MInv s'.
Proof.
  intros _ (h & I) M NC H S. destruct M as [Lv Hd Cb Cl Nd].
  destruct e; cbn [step] in H; rewrite Lv in H; cbn [negb] in H; try discriminate; try congruence.
  - (* EAppend *)
    destruct (s_pcs s t) eqn:Pt; try discriminate.
    destruct (parse_hdr raw) as [[lod cnt]|]; [|inversion H; subst; constructor; auto].
    destruct (should_flush _ _ && _); inversion H; subst; constructor; cbn; auto.
    all: intros t0 o b v E; destruct (Nat.eq_dec t0 t) as [->|N];
      [rewrite upd_same in E; discriminate|rewrite upd_other in E by assumption; eauto].
  - (* EFlushBegin *)
    destruct (s_pcs s t) eqn:Pt; try discriminate. destruct (s_owner s); try discriminate.
    destruct (s_buf s).
    + destruct (s_clast s) as [v|] eqn:Ec; inversion H; subst; constructor; cbn; auto.
      * intros t0 o b0 v0 E; destruct (Nat.eq_dec t0 t) as [->|N];
          [rewrite upd_same in E; inversion E; subst; exact Ec|rewrite upd_other in E by assumption; rewrite Ec; eauto].
      * rewrite Ec. exact Cl.
      * intros t0 o b0 v0 E; destruct (Nat.eq_dec t0 t) as [->|N];
          [rewrite upd_same in E; discriminate|rewrite upd_other in E by assumption; rewrite Ec; eauto].
      * rewrite Ec. exact Cl.
    + inversion H; subst; constructor; cbn; auto.
      intros t0 o bb v0 E; destruct (Nat.eq_dec t0 t) as [->|N];
        [rewrite upd_same in E; discriminate|rewrite upd_other in E by assumption; eauto].
  - (* EUpSeg *)
    destruct (s_pcs s t) as [| |o b sg ix| |] eqn:Pt; try discriminate. destruct sg; try discriminate.
    inversion H; subst; constructor; cbn; auto.
    intros t0 o0 b0 v0 E; destruct (Nat.eq_dec t0 t) as [->|N];
      [rewrite upd_same in E; discriminate|rewrite upd_other in E by assumption; eauto].
  - (* EUpIdx *)
    destruct (s_pcs s t) as [| |o b sg ix| |] eqn:Pt; try discriminate. destruct ix; try discriminate.
    inversion H; subst; constructor; cbn; auto.
    intros t0 o0 b0 v0 E; destruct (Nat.eq_dec t0 t) as [->|N];
      [rewrite upd_same in E; discriminate|rewrite upd_other in E by assumption; eauto].
  - (* ECommit: the new callback is the only one *)
    destruct (s_pcs s t) as [| |o b sg ix| |] eqn:Pt; try discriminate.
    destruct sg; try discriminate. destruct ix; try discriminate.
    inversion H; subst; clear H.
    assert (forall v, s_clast s = Some v -> v + 1 <= last_off (s_fl s) + 1) as Up.
    { intros v Ev. destruct (linv_bounds _ _ I) as (_ & _ & P).
      specialize (P _ (proj1 (li_clast _ _ I v Ev))).
      pose proof (li_pcs _ _ I t) as Pb. rewrite Pt in Pb. cbn in Pb. destruct Pb as (Ow & _).
      destruct (li_own _ _ I _ Ow) as (Nfl & _).
      pose proof (li_pend _ _ I) as Cp. apply chain_app in Cp as (mid & C1 & _).
      destruct (chain_last _ _ _ C1 Nfl) as (_ & L & _). lia. }
    constructor; cbn; auto.
    + intros t0 o0 b0 v0 E. destruct (Nat.eq_dec t0 t) as [->|N].
      * rewrite upd_same in E. inversion E; subst. reflexivity.
      * exfalso. pose proof (serial_others _ t S) as K. cbn in K. rewrite upd_same in K.
        specialize (K eq_refl t0 N). rewrite E in K. discriminate.
    + intros v E. inversion E; subst. destruct (s_clast s) as [v0|] eqn:Ec.
      * specialize (Cl _ eq_refl). specialize (Up _ eq_refl). lia.
      * destruct (linv_bounds _ _ I) as (_ & _ & P). specialize (P _ (proj1 (li_store _ _ I))).
        pose proof (li_pcs _ _ I t) as Pb. rewrite Pt in Pb. cbn in Pb. destruct Pb as (Ow & _).
        destruct (li_own _ _ I _ Ow) as (Nfl & _).
        pose proof (li_pend _ _ I) as Cp. apply chain_app in Cp as (mid & C1 & _).
        destruct (chain_last _ _ _ C1 Nfl) as (_ & L & _). lia.
  - (* EFailReset *)
    destruct (s_pcs s t) as [| |o b sg ix| |] eqn:Pt; try discriminate.
    assert (s_pcs s' = upd (s_pcs s) t (PRet b false) /\ s_live s' = true /\ s_pubs s' = s_pubs s /\
            s_store s' = s_store s /\ s_clast s' = s_clast s) as (E1 & E2 & E3 & E4 & E5).
    { destruct sg, ix; try discriminate; inversion H; subst; cbn; auto. }
    constructor; rewrite ?E1, ?E2, ?E3, ?E4, ?E5; auto.
    intros t0 o0 b0 v0 E; destruct (Nat.eq_dec t0 t) as [->|N];
      [rewrite upd_same in E; discriminate|rewrite upd_other in E by assumption; eauto].
  - (* ECallback *)
    destruct (s_pcs s t) as [| | |o b v|] eqn:Pt; try discriminate.
    pose proof (Cb _ _ _ _ Pt) as Ec. pose proof (Cl _ Ec) as Sv.
    inversion H; subst; clear H. constructor; cbn; auto.
    + destruct ok; [reflexivity|exact Hd].
    + intros t0 o0 b0 v0 E; destruct (Nat.eq_dec t0 t) as [->|N];
        [rewrite upd_same in E; destruct o; discriminate|rewrite upd_other in E by assumption; eauto].
    + intros v0 E. destruct ok; [|auto]. rewrite Ec in E. inversion E; subst. lia.
    + destruct ok; [|exact Nd]. cbn [nondecreasing_newest_first]. split; [|exact Nd].
      destruct (s_pubs s) as [|y r]; [exact Logic.I|]. cbn in Hd. lia.
  - (* ERespond *)
    destruct (s_pcs s t) as [| | | |b ok] eqn:Pt; try discriminate.
    inversion H; subst; constructor; cbn; auto.
    intros t0 o0 b0 v0 E; destruct (Nat.eq_dec t0 t) as [->|N];
      [rewrite upd_same in E; discriminate|rewrite upd_other in E by assumption; eauto].
Qed.

Lemma reach_serial_inv c s : reach_serial c s -> (exists h, LInv h s) /\ MInv s.
Proof.
  induction 1 as [|s e s' R [IL IM] NC St S].
  - split.
    + pose proof (init_inv c) as I. unfold Inv in I. exact I.
    + constructor; cbn; auto; try discriminate.
  - assert (MInv s') as M by (eapply minv_step; eauto). split; [|exact M].
    destruct IL as (h & IL). pose proof (step_inv s e s') as K. unfold Inv in K at 1.
    rewrite (mi_live _ IM) in K. specialize (K (ex_intro _ h IL) St). unfold Inv in K.
    rewrite (mi_live _ M) in K. exact K.
Qed.

Theorem monotone_partial c s : reach_serial c s -> nondecreasing_newest_first (s_pubs s).
Proof. intros R. apply (mi_nd _ (proj2 (reach_serial_inv _ _ R))). Qed.


(* ------------------------------------------------------------------ leftovers never block a restart *)
Definition orphan (seg idx : smap) (k : Z) : Prop := exists bs, lookup k seg = Some bs /\ has k idx = false.
Definition tiled (seg idx : smap) (h : Z) : Prop :=
  h = 0 \/ exists k bs, complete seg idx k bs /\ k < h /\ last_off bs + 1 = h.

Record TInv (h : Z) (s : state) : Prop := mkTInv {
  ti_tiled : tiled (s_seg s) (s_idx s) h;
  ti_orph : forall k, orphan (s_seg s) (s_idx s) k -> k = h
}.

Record TDead (h : Z) (s : state) : Prop := mkTDead {
  td_tiled : tiled (s_seg s) (s_idx s) h;
  td_orph : forall k, orphan (s_seg s) (s_idx s) k -> k = h;
  td_store : s_store s <= h;
  td_k1 : forall k bs, complete (s_seg s) (s_idx s) k bs -> k <= h;
  td_seglt : forall k bs, complete (s_seg s) (s_idx s) k bs -> k < h -> last_off bs < h
}.

Definition Inv2 (s : state) : Prop :=
  if s_live s then exists h, LInv h s /\ TInv h s else DInv s /\ exists h, TDead h s.

Lemma linv_unique h1 h2 s : LInv h1 s -> LInv h2 s -> h1 = h2.
Proof.
  intros A B. pose proof (chain_head _ _ _ (li_pend _ _ A)). pose proof (chain_head _ _ _ (li_pend _ _ B)). congruence.
Qed.

(* what a step does to S3 *)
Lemma step_s3 s e s' : step s e = Some s' ->
  (s_seg s' = s_seg s /\ s_idx s' = s_idx s) \/
  (exists t, e = EUpSeg t true /\ s_seg s' = put (art_key (s_fl s)) (s_fl s) (s_seg s) /\ s_idx s' = s_idx s) \/
  (exists t, e = EUpIdx t true /\ s_seg s' = s_seg s /\ s_idx s' = put (art_key (s_fl s)) (s_fl s) (s_idx s)).
Proof.
  intros H. destruct e; cbn [step] in H.
  all: try (destruct (negb (s_live s)); [discriminate|]).
  all: try (destruct (s_live s); [discriminate|]).
  - destruct (s_pcs s t); try discriminate. destruct (parse_hdr raw) as [[? ?]|]; [|inversion H; subst; auto].
    destruct (should_flush _ _ && _); inversion H; subst; auto.
  - destruct (s_pcs s t); try discriminate. destruct (s_owner s); try discriminate.
    destruct (s_buf s); [destruct (s_clast s)|]; inversion H; subst; auto.
  - destruct (s_pcs s t) as [| |? ? sg ?| |]; try discriminate. destruct sg; try discriminate.
    inversion H; subst; cbn. destruct ok; [right; left; eauto|auto].
  - destruct (s_pcs s t) as [| |? ? ? ix| |]; try discriminate. destruct ix; try discriminate.
    inversion H; subst; cbn. destruct ok; [right; right; eauto|auto].
  - destruct (s_pcs s t) as [| |? ? sg ix| |]; try discriminate. destruct sg; try discriminate. destruct ix; try discriminate. inversion H; subst; auto.
  - destruct (s_pcs s t) as [| |? ? sg ix| |]; try discriminate. destruct sg, ix; try discriminate; inversion H; subst; auto.
  - destruct (s_pcs s t); try discriminate. inversion H; subst; auto.
  - destruct (s_pcs s t) as [| | | |? ok]; try discriminate. inversion H; subst. auto.
  - inversion H; subst; auto.
  - destruct (restore _ _ _); inversion H; subst; auto.
  - inversion H; subst; auto.
Qed.

Lemma tinv_same h s s' : TInv h s -> s_seg s' = s_seg s -> s_idx s' = s_idx s -> TInv h s'.
Proof. intros [A B] E1 E2. constructor; rewrite E1, E2; assumption. Qed.

Lemma tinv_put_seg h s s' fl : TInv h s -> s_seg s' = put h fl (s_seg s) -> s_idx s' = s_idx s -> TInv h s'.
Proof.
  intros [A B] E1 E2. constructor; rewrite E1, E2.
  - destruct A as [A|(k & bs & [C1 C2] & L & E)]; [now left|right]. exists k, bs. repeat split; auto.
    rewrite lookup_put_other by lia. exact C1.
  - intros k (bs & L & Hn). destruct (Z.eq_dec k h) as [->|N]; [reflexivity|].
    rewrite lookup_put_other in L by assumption. apply B. exists bs. auto.
Qed.

Lemma tinv_put_idx h s s' fl : TInv h s -> s_seg s' = s_seg s -> s_idx s' = put h fl (s_idx s) -> TInv h s'.
Proof.
  intros [A B] E1 E2. constructor; rewrite E1, E2.
  - destruct A as [A|(k & bs & [C1 C2] & L & E)]; [now left|right]. exists k, bs. repeat split; auto.
    now apply has_put_mono.
  - intros k (bs & L & Hn). destruct (Z.eq_dec k h) as [->|N]; [reflexivity|].
    rewrite has_put_other in Hn by assumption. apply B. exists bs. auto.
Qed.

Lemma step_inv2_live h s e s' :
  s_live s = true -> LInv h s -> TInv h s -> step s e = Some s' -> Inv2 s'.
Proof.
  intros Lv I T H.
  assert (Inv s) as IS by (unfold Inv; rewrite Lv; eauto).
  pose proof (step_inv _ _ _ IS H) as IS'.
  destruct (Nat.eq_dec 0 0) as [_|]; [|congruence].
  destruct e.
  - destruct (inv_append _ _ _ _ _ Lv I H) as (L & J). unfold Inv2. rewrite L. exists h. split; [exact J|].
    destruct (step_s3 _ _ _ H) as [[E1 E2]|[(t0 & Q & _)|(t0 & Q & _)]]; try discriminate. eapply tinv_same; eauto.
  - destruct (inv_flushbegin _ _ _ _ Lv I H) as (L & J). unfold Inv2. rewrite L. exists h. split; [exact J|].
    destruct (step_s3 _ _ _ H) as [[E1 E2]|[(t0 & Q & _)|(t0 & Q & _)]]; try discriminate. eapply tinv_same; eauto.
  - destruct (inv_upseg _ _ _ _ _ Lv I H) as (L & J). unfold Inv2. rewrite L. exists h. split; [exact J|].
    destruct (step_s3 _ _ _ H) as [[E1 E2]|[(t0 & Q & E1 & E2)|(t0 & Q & _)]]; try discriminate; [eapply tinv_same; eauto|].
    assert (art_key (s_fl s) = h) as K.
    { cbn [step] in H. rewrite Lv in H. cbn [negb] in H. destruct (s_pcs s t) as [| |o b sg ix| |] eqn:Pt; try discriminate.
      pose proof (li_pcs _ _ I t) as Pb. rewrite Pt in Pb. cbn in Pb. destruct Pb as (Ow & _).
      destruct (li_own _ _ I _ Ow) as (Nfl & _). eapply chain_art_key; [apply (li_pend _ _ I)|exact Nfl]. }
    rewrite K in E1. eapply tinv_put_seg; eauto.
  - destruct (inv_upidx _ _ _ _ _ Lv I H) as (L & J). unfold Inv2. rewrite L. exists h. split; [exact J|].
    destruct (step_s3 _ _ _ H) as [[E1 E2]|[(t0 & Q & _)|(t0 & Q & E1 & E2)]]; try discriminate; [eapply tinv_same; eauto|].
    assert (art_key (s_fl s) = h) as K.
    { cbn [step] in H. rewrite Lv in H. cbn [negb] in H. destruct (s_pcs s t) as [| |o b sg ix| |] eqn:Pt; try discriminate.
      pose proof (li_pcs _ _ I t) as Pb. rewrite Pt in Pb. cbn in Pb. destruct Pb as (Ow & _).
      destruct (li_own _ _ I _ Ow) as (Nfl & _). eapply chain_art_key; [apply (li_pend _ _ I)|exact Nfl]. }
    rewrite K in E2. eapply tinv_put_idx; eauto.
  - (* commit *)
    destruct (inv_commit _ _ _ _ Lv I H) as (L & h' & Hle & J). unfold Inv2. rewrite L. exists h'. split; [exact J|].
    destruct (step_s3 _ _ _ H) as [[E1 E2]|[(t0 & Q & _)|(t0 & Q & _)]]; try discriminate.
    cbn [step] in H. rewrite Lv in H. cbn [negb] in H.
    destruct (s_pcs s t) as [| |o b sg ix| |] eqn:Pt; try discriminate.
    destruct sg; try discriminate. destruct ix; try discriminate.
    pose proof (li_pcs _ _ I t) as Pb. rewrite Pt in Pb. cbn in Pb. destruct Pb as (Ow & Psg & Pix & _).
    specialize (Psg eq_refl). specialize (Pix eq_refl).
    destruct (li_own _ _ I _ Ow) as (Nfl & _).
    pose proof (li_pend _ _ I) as Cp. apply chain_app in Cp as (mid & C1 & C2).
    destruct (chain_last _ _ _ C1 Nfl) as (_ & Lh & Hm). subst mid.
    assert (h' = last_off (s_fl s) + 1) as ->.
    { inversion H; subst. pose proof (chain_head _ _ _ (li_pend _ _ J)) as X. cbn in X.
      pose proof (chain_head _ _ _ C2) as Y. congruence. }
    constructor; rewrite E1, E2.
    + right. exists h, (s_fl s). repeat split; auto. lia.
    + intros k (bs & Lk & Hn). pose proof (ti_orph _ _ T k (ex_intro _ bs (conj Lk Hn))). subst k. congruence.
  - destruct (inv_failreset _ _ _ _ Lv I H) as (L & J). unfold Inv2. rewrite L. exists h. split; [exact J|].
    destruct (step_s3 _ _ _ H) as [[E1 E2]|[(t0 & Q & _)|(t0 & Q & _)]]; try discriminate. eapply tinv_same; eauto.
  - destruct (inv_callback _ _ _ _ _ Lv I H) as (L & J). unfold Inv2. rewrite L. exists h. split; [exact J|].
    destruct (step_s3 _ _ _ H) as [[E1 E2]|[(t0 & Q & _)|(t0 & Q & _)]]; try discriminate. eapply tinv_same; eauto.
  - destruct (inv_respond _ _ _ _ Lv I H) as (L & J). unfold Inv2. rewrite L. exists h. split; [exact J|].
    destruct (step_s3 _ _ _ H) as [[E1 E2]|[(t0 & Q & _)|(t0 & Q & _)]]; try discriminate. eapply tinv_same; eauto.
  - (* crash *)
    destruct (inv_crash _ _ _ Lv I H) as (L & J). unfold Inv2. rewrite L. split; [exact J|]. exists h.
    destruct (step_s3 _ _ _ H) as [[E1 E2]|[(t0 & Q & _)|(t0 & Q & _)]]; try discriminate.
    assert (s_store s' = s_store s) as E3.
    { cbn [step] in H. rewrite Lv in H. cbn [negb] in H. inversion H; reflexivity. }
    destruct (linv_bounds _ _ I) as (_ & _ & P).
    constructor; rewrite ?E1, ?E2, ?E3.
    + apply (ti_tiled _ _ T).
    + apply (ti_orph _ _ T).
    + apply P. apply (li_store _ _ I).
    + apply (li_k1 _ _ I).
    + apply (li_seglt _ _ I).
  - cbn [step] in H. rewrite Lv in H. discriminate.
  - cbn [step] in H. rewrite Lv in H. discriminate.
Qed.
Lemma scan_none next seg idx keys : forall best,
  restore_scan next seg idx keys best = None ->
  exists k, orphan seg idx k /\ k < next.
Proof.
  induction keys as [|k keys IH]; intros best H; cbn [restore_scan] in H; [discriminate|].
  destruct (lookup k seg) as [bs|] eqn:L; [|eauto].
  destruct (has k idx) eqn:Hk; [eauto|].
  destruct (next <=? k) eqn:Q; [eauto|]. exists k. split; [exists bs; auto|lia].
Qed.

Lemma restore_no_err s h : TDead h s -> restore (s_store s) (s_seg s) (s_idx s) <> RErr.
Proof.
  intros T E. unfold restore in E.
  destruct (restore_scan (s_store s) (s_seg s) (s_idx s) (map fst (s_seg s)) None) as [[[? ?]|]|] eqn:Q; try discriminate.
  apply scan_none in Q as (k & O & L). pose proof (td_orph _ _ T k O). pose proof (td_store _ _ T). lia.
Qed.

Lemma step_inv2_dead s e s' h :
  s_live s = false -> DInv s -> TDead h s -> step s e = Some s' -> Inv2 s'.
Proof.
  intros Lv D T H.
  destruct (step_live_only _ _ _ Lv H) as [->|[ok ->]].
  - cbn [step] in H. rewrite Lv in H. inversion H; subst. unfold Inv2. rewrite Lv. eauto.
  - pose proof (inv_restart _ _ _ Lv D H) as IS'.
    cbn [step] in H. rewrite Lv in H.
    pose proof (restore_spec (s_store s) (s_seg s) (s_idx s)) as R.
    pose proof (restore_no_err _ _ T) as NE.
    destruct T as [Tt To Ts Tk Tl].
    destruct D as [Da [W O] [Ds Dn] Dp].
    destruct (restore (s_store s) (s_seg s) (s_idx s)) as [| |l] eqn:E; [congruence| |].
    + (* nothing complete in S3 *)
      inversion H; subst; clear H. unfold Inv, Inv2 in *. cbn in *. destruct IS' as (h' & J). exists h'. split; [exact J|].
      assert (h' = s_store s) as -> by (pose proof (chain_head _ _ _ (li_pend _ _ J)) as X; cbn in X; congruence).
      assert (h = 0) as -> by (destruct Tt as [?|(k & bs & C & _)]; [assumption|exfalso; eapply R; eauto]).
      assert (s_store s = 0) as St by lia.
      constructor; cbn; rewrite St.
      * now left.
      * exact To.
    + destruct R as (kb & bsb & Cb & -> & Mx).
      inversion H; subst; clear H. unfold Inv, Inv2 in *. cbn in *. destruct IS' as (h' & J). exists h'. split; [exact J|].
      set (l := last_off bsb) in *.
      assert (h' = if s_store s <=? l then l + 1 else s_store s) as Eh
        by (pose proof (chain_head _ _ _ (li_pend _ _ J)) as X; cbn in X; congruence).
      destruct (W _ _ (proj1 Cb)) as (Nb & Chb & Kpos).
      destruct (chain_last _ _ _ Chb Nb) as (_ & Kle & _). fold l in Kle.
      pose proof (Tk _ _ Cb) as Kh.
      destruct (Z.eq_dec kb h) as [->|Nk].
      * (* the frontier object itself is complete: no orphan exists *)
        assert (h' = l + 1) as -> by (rewrite Eh; destruct (s_store s <=? l) eqn:Q; lia).
        constructor; cbn.
        -- right. exists h, bsb. repeat split; try apply Cb; lia.
        -- intros k Ok. pose proof (To k Ok). subst k. destruct Ok as (bs & _ & Hn). destruct Cb as [_ Hb]. congruence.
      * (* h is exactly the end of the complete objects *)
        assert (last_off bsb < h) as Ll by (apply (Tl _ _ Cb); lia).
        assert (h = l + 1) as Hh.
        { destruct Tt as [->|(k0 & bs0 & C0 & L0 & E0)]; [lia|].
          pose proof (Mx _ _ C0) as M0. destruct (Z.eq_dec k0 kb) as [->|N0].
          - destruct C0 as [C0 _], Cb as [Cb' _]. rewrite C0 in Cb'. inversion Cb'; subst. reflexivity.
          - assert (last_off bs0 < kb) by (eapply O; eauto; lia). lia. }
        assert (h' = h) as -> by (rewrite Eh; destruct (s_store s <=? l) eqn:Q; lia).
        constructor; cbn.
        -- right. exists kb, bsb. repeat split; try apply Cb; lia.
        -- exact To.
Qed.

Lemma step_inv2 s e s' : Inv2 s -> step s e = Some s' -> Inv2 s'.
Proof.
  intros I H. unfold Inv2 in I. destruct (s_live s) eqn:Lv.
  - destruct I as (h & I & T). eapply step_inv2_live; eauto.
  - destruct I as (D & h & T). eapply step_inv2_dead; eauto.
Qed.

Lemma init_inv2 c : Inv2 (init c).
Proof.
  pose proof (init_inv c) as I. unfold Inv, Inv2 in *. cbn in *. destruct I as (h & I). exists h. split; [exact I|].
  assert (h = 0) as -> by (pose proof (chain_head _ _ _ (li_pend _ _ I)) as X; cbn in X; congruence).
  constructor; cbn; [now left|]. intros k (bs & L & _). discriminate.
Qed.

Lemma run_inv2 evs : forall s s', Inv2 s -> run s evs = Some s' -> Inv2 s'.
Proof.
  induction evs as [|e evs IH]; intros s s' I H; cbn [run] in H.
  - inversion H; subst; exact I.
  - destruct (step s e) as [s1|] eqn:E; [|discriminate]. eapply IH; [|exact H]. eapply step_inv2; eauto.
Qed.

(* after any history, a restart that meets no transient fault succeeds: a leftover
   .kfs without .index never lies below the stored next_offset *)
Theorem restart_never_blocked c evs s ok :
  run (init c) evs = Some s -> s_live s = false ->
  exists s', step s (ERestart ok) = Some s' /\ s_live s' = true.
Proof.
  intros H Lv. pose proof (run_inv2 _ _ _ (init_inv2 c) H) as I. unfold Inv2 in I. rewrite Lv in I.
  destruct I as (D & h & T). pose proof (restore_no_err _ _ T) as NE.
  cbn [step]. rewrite Lv. destruct (restore (s_store s) (s_seg s) (s_idx s)); [congruence| |]; eexists; split; reflexivity.
Qed.


(* ------------------------------------------------------------------ fixed-width arithmetic of AppendBatch *)
Definition is_byte (x : Z) : Prop := 0 <= x < 256.

Lemma nth_byte d i : Forall is_byte d -> 0 <= nth i d 0 < 256.
Proof.
  intros F. destruct (Nat.lt_ge_cases i (length d)) as [L|L].
  - rewrite Forall_forall in F. apply F. now apply nth_In.
  - rewrite nth_overflow by assumption. lia.
Qed.

Lemma be_i32_range d i : Forall is_byte d -> - 2147483648 <= be_i32 d i < 2147483648.
Proof.
  intros F. unfold be_i32, be_u32, to_i32.
  pose proof (nth_byte d i F). pose proof (nth_byte d (i + 1) F).
  pose proof (nth_byte d (i + 2) F). pose proof (nth_byte d (i + 3) F).
  destruct (_ <? 2147483648) eqn:E; lia.
Qed.

Lemma wrap64_small z : - 9223372036854775808 <= z < 9223372036854775808 -> wrap64 z = z.
Proof. intros H. unfold wrap64. rewrite Z.mod_small by lia. lia. Qed.

(* the int64 computation of AppendBatch equals the model's base + lod + 1: no wrap for
   any accepted batch while offsets stay below 2^62 *)
Theorem advance_go_exact raw lod cnt base :
  Forall is_byte raw -> parse_hdr raw = Some (lod, cnt) -> 0 <= base < 4611686018427387904 ->
  0 <= lod < 2147483648 /\ advance_go base lod = base + lod + 1 /\ base < advance_go base lod.
Proof.
  intros F P B. pose proof (parse_hdr_lod _ _ _ P) as L0.
  assert (lod < 2147483648) as L1.
  { unfold parse_hdr in P. destruct (zlen raw <? hdr_min); [discriminate|].
    destruct (be_i32 raw 23 <? 0); [discriminate|]. inversion P; subst. apply be_i32_range; assumption. }
  split; [lia|]. unfold advance_go. rewrite (wrap64_small lod) by lia.
  rewrite (wrap64_small (base + lod)) by lia. rewrite wrap64_small by lia. lia.
Qed.

(* doing the +1 in int32 (before widening) is NOT the same: it moves the log backwards *)
Example advance_int32_wraps : wrap32 (2147483647 + 1) = - 2147483648 /\ advance_go 5 2147483647 = 2147483653.
Proof. vm_compute. split; reflexivity. Qed.


(* ------------------------------------------------------------------ C05: a regression needs an overtaken callback *)
Record GInv (s : state) (ov : nat -> bool) : Prop := mkGInv {
  gi_cl : forall cl, s_clast s = Some cl -> s_store s <= cl + 1;
  gi_cb : forall t o b v, s_pcs s t = PCb o b v -> exists cl, s_clast s = Some cl /\ v <= cl;
  gi_ov : forall t o b v, s_pcs s t = PCb o b v -> ov t = false -> s_store s <= v + 1;
  gi_hd : hd 0 (s_pubs s) = s_store s
}.

Definition GInv' (s : state) (ov : nat -> bool) : Prop :=
  if s_live s then GInv s ov else hd 0 (s_pubs s) = s_store s.

Tactic Notation "pcs_other" hyp(E) constr(t0) constr(t) ident(N) :=
  destruct (Nat.eq_dec t0 t) as [->|N];
  [rewrite upd_same in E; try discriminate|rewrite upd_other in E by assumption].

Lemma ginv_step s ov e s' : Inv s -> GInv' s ov -> step s e = Some s' -> GInv' s' (ov_step ov e).
Proof.
  intros IS G H. unfold GInv' in *. destruct (s_live s) eqn:Lv.
  - unfold Inv in IS. rewrite Lv in IS. destruct IS as (h & I). destruct G as [Gcl Gcb Gov Ghd].
    destruct e; cbn [step] in H; rewrite Lv in H; cbn [negb] in H; try discriminate.
    + (* EAppend *)
      destruct (s_pcs s t) eqn:Pt; try discriminate.
      destruct (parse_hdr raw) as [[lod cnt]|]; [|inversion H; subst; rewrite Lv; constructor; auto].
      destruct (should_flush _ _ && _); inversion H; subst; cbn; constructor; cbn; auto.
      all: intros t0 o b v E; pcs_other E t0 t N; eauto.
    + (* EFlushBegin *)
      destruct (s_pcs s t) eqn:Pt; try discriminate. destruct (s_owner s); try discriminate.
      destruct (s_buf s).
      * destruct (s_clast s) as [cl|] eqn:Ec; inversion H; subst; cbn; rewrite Lv; constructor; cbn; auto.
        -- rewrite Ec. exact Gcl.
        -- intros t0 o b0 v E. rewrite Ec. pcs_other E t0 t N; [inversion E; subst; exists v; split; [reflexivity|lia]|eauto].
        -- intros t0 o b0 v E Ho. pcs_other E t0 t N.
           ++ inversion E; subst. apply Gcl. reflexivity.
           ++ rewrite (proj2 (Nat.eqb_neq t0 t) N) in Ho. eauto.
        -- rewrite Ec. exact Gcl.
        -- intros t0 o b0 v E. pcs_other E t0 t N. rewrite Ec. eauto.
        -- intros t0 o b0 v E Ho. pcs_other E t0 t N. rewrite (proj2 (Nat.eqb_neq t0 t) N) in Ho. eauto.
      * inversion H; subst; cbn; constructor; cbn; auto.
        -- intros t0 o bb v E. pcs_other E t0 t N. eauto.
        -- intros t0 o bb v E Ho. pcs_other E t0 t N. rewrite (proj2 (Nat.eqb_neq t0 t) N) in Ho. eauto.
    + (* EUpSeg *)
      destruct (s_pcs s t) as [| |o b sg ix| |] eqn:Pt; try discriminate. destruct sg; try discriminate.
      inversion H; subst; cbn; constructor; cbn; auto.
      all: intros t0 o0 b0 v E; pcs_other E t0 t N; eauto.
    + (* EUpIdx *)
      destruct (s_pcs s t) as [| |o b sg ix| |] eqn:Pt; try discriminate. destruct ix; try discriminate.
      inversion H; subst; cbn; constructor; cbn; auto.
      all: intros t0 o0 b0 v E; pcs_other E t0 t N; eauto.
    + (* ECommit *)
      destruct (s_pcs s t) as [| |o b sg ix| |] eqn:Pt; try discriminate.
      destruct sg; try discriminate. destruct ix; try discriminate.
      inversion H; subst; clear H; cbn.
      pose proof (li_pcs _ _ I t) as Pb. rewrite Pt in Pb. cbn in Pb. destruct Pb as (Ow & _).
      destruct (li_own _ _ I _ Ow) as (Nfl & _).
      pose proof (li_pend _ _ I) as Cp. apply chain_app in Cp as (mid & C1 & _).
      destruct (chain_last _ _ _ C1 Nfl) as (_ & Lh & _).
      destruct (linv_bounds _ _ I) as (_ & _ & P).
      assert (s_store s <= last_off (s_fl s) + 1) as St by (specialize (P _ (proj1 (li_store _ _ I))); lia).
      assert (forall cl, s_clast s = Some cl -> cl <= last_off (s_fl s)) as Up.
      { intros cl Ev. specialize (P _ (proj1 (li_clast _ _ I cl Ev))). lia. }
      constructor; cbn; auto.
      * intros cl E. inversion E; subst. exact St.
      * intros t0 o0 b0 v E. exists (last_off (s_fl s)). split; [reflexivity|]. pcs_other E t0 t N.
        -- inversion E; subst. lia.
        -- destruct (Gcb _ _ _ _ E) as (cl & Ec & Lv0). specialize (Up _ Ec). lia.
      * intros t0 o0 b0 v E Ho. pcs_other E t0 t N.
        -- inversion E; subst. exact St.
        -- rewrite (proj2 (Nat.eqb_neq t0 t) N) in Ho. eauto.
    + (* EFailReset *)
      destruct (s_pcs s t) as [| |o b sg ix| |] eqn:Pt; try discriminate.
      assert (s_pcs s' = upd (s_pcs s) t (PRet b false) /\ s_live s' = true /\ s_pubs s' = s_pubs s /\
              s_store s' = s_store s /\ s_clast s' = s_clast s) as (E1 & E2 & E3 & E4 & E5).
      { destruct sg, ix; try discriminate; inversion H; subst; cbn; auto. }
      rewrite E2. constructor; rewrite ?E1, ?E3, ?E4, ?E5; auto.
      all: intros t0 o0 b0 v E; pcs_other E t0 t N; eauto.
    + (* ECallback *)
      destruct (s_pcs s t) as [| | |o b v|] eqn:Pt; try discriminate.
      destruct (Gcb _ _ _ _ Pt) as (cl & Ec & Lcl).
      inversion H; subst; clear H; cbn. destruct ok; constructor; cbn; auto.
      * intros cl0 E. rewrite Ec in E. inversion E; subst. lia.
      * intros t0 o0 b0 v0 E. pcs_other E t0 t N; [destruct o; discriminate|eauto].
      * intros t0 o0 b0 v0 E Ho. pcs_other E t0 t N; [destruct o; discriminate|].
        rewrite (proj2 (Nat.eqb_neq t0 t) N) in Ho. discriminate.
      * intros t0 o0 b0 v0 E. pcs_other E t0 t N; [destruct o; discriminate|eauto].
      * intros t0 o0 b0 v0 E Ho. pcs_other E t0 t N; [destruct o; discriminate|eauto].
    + (* ERespond *)
      destruct (s_pcs s t) as [| | | |b ok] eqn:Pt; try discriminate.
      inversion H; subst; cbn; constructor; cbn; auto.
      all: intros t0 o0 b0 v E; pcs_other E t0 t N; eauto.
    + (* ECrash *)
      inversion H; subst; cbn. exact Ghd.
  - unfold Inv in IS. rewrite Lv in IS.
    destruct (step_live_only _ _ _ Lv H) as [->|[ok ->]]; cbn [step] in H; rewrite Lv in H.
    + inversion H; subst. rewrite Lv. exact G.
    + pose proof (restore_spec (s_store s) (s_seg s) (s_idx s)) as R.
      destruct IS as [Da [W O] [Ds Dn] Dp].
      destruct (restore (s_store s) (s_seg s) (s_idx s)) as [| |l] eqn:E.
      * inversion H; subst. rewrite Lv. exact G.
      * inversion H; subst; cbn. constructor; cbn; auto; try discriminate.
      * destruct R as (kb & bsb & Cb & -> & Mx).
        destruct (W _ _ (proj1 Cb)) as (Nb & Chb & Kpos).
        destruct (chain_last _ _ _ Chb Nb) as (_ & Kle & _).
        assert (s_store s <= last_off bsb + 1) as Sl.
        { destruct Ds as [Ds|(k & bs & A & B & _ & D)]; [lia|].
          pose proof (Mx _ _ (conj A B)) as Lk. destruct (Z.eq_dec k kb) as [->|Nk].
          - destruct Cb as [Cb _]. rewrite A in Cb. inversion Cb; subst. lia.
          - assert (last_off bs < kb) by (eapply O; [split; eassumption|exact Cb|lia]). lia. }
        inversion H; subst; cbn. constructor; cbn; try discriminate.
        -- intros cl Ecl. inversion Ecl; subst. destruct ((s_store s <=? last_off bsb) && ok); lia.
        -- destruct ((s_store s <=? last_off bsb) && ok); [reflexivity|exact G].
Qed.

Lemma runG_inv evs : forall s ov s' ov', Inv s -> GInv' s ov -> runG s ov evs = Some (s', ov') -> Inv s' /\ GInv' s' ov'.
Proof.
  induction evs as [|e evs IH]; intros s ov s' ov' I G H; cbn [runG] in H.
  - inversion H; subst. auto.
  - destruct (step s e) as [s1|] eqn:E; [|discriminate].
    eapply IH; [eapply step_inv; eauto|eapply ginv_step; eauto|exact H].
Qed.

Lemma init_ginv c : GInv' (init c) (fun _ => false).
Proof. unfold GInv'; cbn. constructor; cbn; auto; discriminate. Qed.

(* In ANY run (any concurrency, faults, crashes, restarts): if a store update lowers
   next_offset, then while that update's callback was pending another thread's callback
   reached the store. A regression has no other cause. *)
Theorem regress_only_when_overtaken c evs s ov t s' :
  runG (init c) (fun _ => false) evs = Some (s, ov) ->
  step s (ECallback t true) = Some s' -> s_store s' < s_store s -> ov t = true.
Proof.
  intros H St Lt. destruct (runG_inv _ _ _ _ _ (init_inv c) (init_ginv c) H) as (I & G).
  cbn [step] in St. unfold GInv' in G. destruct (s_live s); [|discriminate]. cbn [negb] in St.
  destruct (s_pcs s t) as [| | |o b v|] eqn:Pt; try discriminate. inversion St; subst; cbn in Lt.
  destruct (ov t) eqn:Ho; [reflexivity|]. pose proof (gi_ov _ _ G _ _ _ _ Pt Ho). lia.
Qed.

(* only callbacks and the restart's offset sync write the store; the sync never lowers it *)
Theorem store_lowered_only_by_callback c evs s e s' :
  run (init c) evs = Some s -> step s e = Some s' -> s_store s' < s_store s ->
  exists t, e = ECallback t true.
Proof.
  intros H St Lt. destruct e; cbn [step] in St.
  all: try (destruct (negb (s_live s)); [discriminate|]).
  all: try (destruct (s_live s); [discriminate|]).
  - destruct (s_pcs s t); try discriminate. destruct (parse_hdr raw) as [[? ?]|]; [|inversion St; subst; lia].
    destruct (should_flush _ _ && _); inversion St; subst; cbn in Lt; lia.
  - destruct (s_pcs s t); try discriminate. destruct (s_owner s); try discriminate.
    destruct (s_buf s); [destruct (s_clast s)|]; inversion St; subst; cbn in Lt; lia.
  - destruct (s_pcs s t) as [| |? ? sg ?| |]; try discriminate. destruct sg; try discriminate. inversion St; subst; cbn in Lt; lia.
  - destruct (s_pcs s t) as [| |? ? ? ix| |]; try discriminate. destruct ix; try discriminate. inversion St; subst; cbn in Lt; lia.
  - destruct (s_pcs s t) as [| |? ? sg ix| |]; try discriminate. destruct sg; try discriminate. destruct ix; try discriminate. inversion St; subst; cbn in Lt; lia.
  - destruct (s_pcs s t) as [| |? ? sg ix| |]; try discriminate. destruct sg, ix; try discriminate; inversion St; subst; cbn in Lt; lia.
  - destruct (s_pcs s t); try discriminate. destruct ok; [eauto|]. inversion St; subst; cbn in Lt; lia.
  - destruct (s_pcs s t) as [| | | |? ok]; try discriminate. inversion St; subst; cbn in Lt; lia.
  - inversion St; subst; cbn in Lt; lia.
  - destruct (restore _ _ _) as [| |l]; inversion St; subst; cbn in Lt; try lia.
    destruct ((s_store s <=? l) && sync_ok) eqn:Q; lia.
  - inversion St; subst; lia.
Qed.
(* ------------------------------------------------------------------ C05: monotone whenever callbacks do not overlap *)
Inductive reach_serial_all (c : cfg) : state -> (nat -> bool) -> Prop :=
| RSA_init : reach_serial_all c (init c) (fun _ => false)
| RSA_step s ov e s' : reach_serial_all c s ov -> step s e = Some s' -> cb_serial s' ->
                       reach_serial_all c s' (ov_step ov e).

Lemma step_cb_origin s e s' x : step s e = Some s' -> is_cb (s_pcs s' x) = true ->
  is_cb (s_pcs s x) = true \/ e = ECommit x \/ e = EFlushBegin x.
Proof.
  intros H C. destruct e; cbn [step] in H.
  all: try (destruct (negb (s_live s)); [discriminate|]).
  all: try (destruct (s_live s); [discriminate|]).
  all: try (destruct (s_pcs s t) eqn:Pt; try discriminate).
  - destruct (parse_hdr raw) as [[? ?]|]; [|inversion H; subst; auto].
    destruct (should_flush _ _ && _); inversion H; subst; cbn in C;
      (destruct (Nat.eq_dec x t) as [->|N]; [rewrite upd_same in C; discriminate|rewrite upd_other in C by assumption; auto]).
  - destruct (s_owner s); try discriminate.
    destruct (s_buf s); [destruct (s_clast s)|]; inversion H; subst; cbn in C;
      (destruct (Nat.eq_dec x t) as [->|N]; [auto|rewrite upd_other in C by assumption; auto]).
  - destruct sg; try discriminate. inversion H; subst; cbn in C.
    destruct (Nat.eq_dec x t) as [->|N]; [rewrite upd_same in C; discriminate|rewrite upd_other in C by assumption; auto].
  - destruct ix; try discriminate. inversion H; subst; cbn in C.
    destruct (Nat.eq_dec x t) as [->|N]; [rewrite upd_same in C; discriminate|rewrite upd_other in C by assumption; auto].
  - destruct sg; try discriminate. destruct ix; try discriminate. inversion H; subst; cbn in C.
    destruct (Nat.eq_dec x t) as [->|N]; [auto|rewrite upd_other in C by assumption; auto].
  - destruct sg, ix; try discriminate; inversion H; subst; cbn in C;
      (destruct (Nat.eq_dec x t) as [->|N]; [rewrite upd_same in C; discriminate|rewrite upd_other in C by assumption; auto]).
  - inversion H; subst; cbn in C.
    destruct (Nat.eq_dec x t) as [->|N]; [rewrite upd_same in C; destruct o; discriminate|rewrite upd_other in C by assumption; auto].
  - inversion H; subst; cbn in C.
    destruct (Nat.eq_dec x t) as [->|N]; [rewrite upd_same in C; discriminate|rewrite upd_other in C by assumption; auto].
  - inversion H; subst; cbn in C. discriminate.
  - destruct (restore _ _ _); inversion H; subst; cbn in C; auto; discriminate.
  - inversion H; subst; auto.
Qed.

Record SInv (s : state) (ov : nat -> bool) : Prop := mkSInv {
  si_inv : Inv s;
  si_g : GInv' s ov;
  si_serial : cb_serial s;
  si_fresh : forall t, is_cb (s_pcs s t) = true -> ov t = false;
  si_nd : nondecreasing_newest_first (s_pubs s)
}.

Lemma nd_push x l : nondecreasing_newest_first l -> hd 0 l <= x -> (l = [] \/ True) -> nondecreasing_newest_first (x :: l).
Proof. intros N H _. cbn [nondecreasing_newest_first]. split; [|exact N]. destruct l; [exact I|exact H]. Qed.

Lemma sinv_step s ov e s' : SInv s ov -> step s e = Some s' -> cb_serial s' -> SInv s' (ov_step ov e).
Proof.
  intros [I G S F N] H S'. pose proof (ginv_step _ _ _ _ I G H) as G'.
  constructor; [eapply step_inv; eauto|exact G'|exact S'| |].
  - (* freshness of pending callbacks *)
    intros x C. destruct (step_cb_origin _ _ _ _ H C) as [C0|[->| ->]].
    + destruct e; cbn [ov_step]; auto.
      * destruct (Nat.eqb x t); auto.
      * destruct (Nat.eqb x t); auto.
      * destruct ok; auto. destruct (Nat.eqb x t) eqn:E; [auto|].
        exfalso. apply Nat.eqb_neq in E. apply E. apply S; [exact C0|].
        cbn [step] in H. destruct (negb (s_live s)); [discriminate|]. destruct (s_pcs s t); try discriminate. reflexivity.
    + cbn [ov_step]. now rewrite Nat.eqb_refl.
    + cbn [ov_step]. now rewrite Nat.eqb_refl.
  - (* published values stay non-decreasing *)
    unfold GInv' in G. destruct e; cbn [step] in H.
    all: try (destruct (s_live s) eqn:Lv; cbn [negb] in H; [|discriminate]).
    all: try (destruct (s_pcs s t) eqn:Pt; try discriminate).
    + destruct (parse_hdr raw) as [[? ?]|]; [|inversion H; subst; auto].
      destruct (should_flush _ _ && _); inversion H; subst; auto.
    + destruct (s_owner s); try discriminate. destruct (s_buf s); [destruct (s_clast s)|]; inversion H; subst; auto.
    + destruct sg; try discriminate. inversion H; subst; auto.
    + destruct ix; try discriminate. inversion H; subst; auto.
    + destruct sg; try discriminate. destruct ix; try discriminate. inversion H; subst; auto.
    + destruct sg, ix; try discriminate; inversion H; subst; auto.
    + inversion H; subst; cbn. destruct ok; [|exact N].
      apply nd_push; [exact N| |auto]. rewrite (gi_hd _ _ G).
      apply (gi_ov _ _ G _ _ _ _ Pt). apply F. now rewrite Pt.
    + inversion H; subst; auto.
    + inversion H; subst; auto.
    + destruct (s_live s) eqn:Lv; [discriminate|].
      destruct (restore _ _ _) as [| |l]; inversion H; subst; cbn; auto.
      destruct ((s_store s <=? l) && sync_ok) eqn:Q; [|exact N].
      apply nd_push; [exact N| |auto]. rewrite G. lia.
    + destruct (s_live s); [discriminate|]. inversion H; subst; auto.
Qed.

Lemma reach_serial_all_inv c s ov : reach_serial_all c s ov -> SInv s ov.
Proof.
  induction 1 as [|s ov e s' R IH St S].
  - constructor; [apply init_inv|apply init_ginv| | |exact I].
    + intros t t' C. cbn in C. discriminate.
    + intros t C. cbn in C. discriminate.
  - eapply sinv_step; eauto.
Qed.

(* runs -- with crashes, restarts, S3/store faults, empty-flush publishes, any number of
   producers -- in which at most one onFlush callback is pending at any time never lower
   the published offset *)
Theorem monotone_serial c s ov : reach_serial_all c s ov -> nondecreasing_newest_first (s_pubs s).
Proof. intros R. apply (si_nd _ _ (reach_serial_all_inv _ _ _ R)). Qed.

(* second refutation witness: the victim is an EMPTY Flush's re-publish *)
Definition empty_publish_witness : list event :=
  [EAppend 0%nat (one_raw 1); EAppend 1%nat (one_raw 2); EFlushBegin 0%nat; EUpSeg 0%nat true; EUpIdx 0%nat true;
   ECommit 0%nat; ECallback 0%nat true; ERespond 0%nat; EFlushBegin 1%nat;
   EAppend 2%nat (one_raw 3); EFlushBegin 2%nat; EUpSeg 2%nat true; EUpIdx 2%nat true; ECommit 2%nat;
   ECallback 2%nat true; ECallback 1%nat true].

Theorem monotone_refuted_empty_publish :
  exists s, run (init (mkCfg 0 0 0 1)) empty_publish_witness = Some s /\
            s_pubs s = [2; 3; 2] /\ s_pcs s 1%nat = PRet (mkBatch 1 0 1 (one_raw 2)) true.
Proof. eexists. split; [vm_compute; reflexivity|]. split; reflexivity. Qed.


(* ------------------------------------------------------------------ C06: offsets shown to consumers *)
(* handleFetch (flushOnAck mode) bounds what it serves by the metadata store's next_offset
   read at fetch time: the offsets a consumer can have been shown in state s are those
   below [fetch_limit s]. *)
Definition fetch_limit (s : state) : Z := s_store s.

Lemma run_runG evs : forall s ov s', run s evs = Some s' -> exists ov', runG s ov evs = Some (s', ov').
Proof.
  induction evs as [|e evs IH]; intros s ov s' H; cbn [run runG] in *.
  - inversion H; subst. eauto.
  - destruct (step s e) as [s1|]; [|discriminate]. eauto.
Qed.

Lemma step_pubs_incl s e s' : step s e = Some s' -> incl (s_pubs s) (s_pubs s').
Proof.
  intros H v Hv. destruct e; cbn [step] in H.
  all: try (destruct (negb (s_live s)); [discriminate|]).
  all: try (destruct (s_live s); [discriminate|]).
  - destruct (s_pcs s t); try discriminate. destruct (parse_hdr raw) as [[? ?]|]; [|inversion H; subst; exact Hv].
    destruct (should_flush _ _ && _); inversion H; subst; exact Hv.
  - destruct (s_pcs s t); try discriminate. destruct (s_owner s); try discriminate.
    destruct (s_buf s); [destruct (s_clast s)|]; inversion H; subst; exact Hv.
  - destruct (s_pcs s t) as [| |? ? sg ?| |]; try discriminate. destruct sg; try discriminate. inversion H; subst; exact Hv.
  - destruct (s_pcs s t) as [| |? ? ? ix| |]; try discriminate. destruct ix; try discriminate. inversion H; subst; exact Hv.
  - destruct (s_pcs s t) as [| |? ? sg ix| |]; try discriminate. destruct sg; try discriminate. destruct ix; try discriminate. inversion H; subst; exact Hv.
  - destruct (s_pcs s t) as [| |? ? sg ix| |]; try discriminate. destruct sg, ix; try discriminate; inversion H; subst; exact Hv.
  - destruct (s_pcs s t); try discriminate. inversion H; subst; cbn. destruct ok; [now right|exact Hv].
  - destruct (s_pcs s t) as [| | | |? ok]; try discriminate. inversion H; subst; exact Hv.
  - inversion H; subst; exact Hv.
  - destruct (restore _ _ _) as [| |l]; inversion H; subst; cbn; try exact Hv.
    destruct ((s_store s <=? l) && sync_ok); [now right|exact Hv].
  - inversion H; subst; exact Hv.
Qed.

Lemma run_pubs_incl evs : forall s s', run s evs = Some s' -> incl (s_pubs s) (s_pubs s').
Proof.
  induction evs as [|e evs IH]; intros s s' H; cbn [run] in H.
  - inversion H; subst. apply incl_refl.
  - destruct (step s e) as [s1|] eqn:E; [|discriminate].
    eapply incl_tran; [eapply step_pubs_incl; eauto|eapply IH; eauto].
Qed.

Lemma store_is_last_pub c evs s : run (init c) evs = Some s -> s_store s = hd 0 (s_pubs s).
Proof.
  intros H. destruct (run_runG _ _ (fun _ => false) _ H) as (ov & HG).
  destruct (runG_inv _ _ _ _ _ (init_inv c) (init_ginv c) HG) as (_ & G).
  unfold GInv' in G. destruct (s_live s); [symmetry; apply (gi_hd _ _ G)|symmetry; exact G].
Qed.

(* every offset a consumer was ever shown (below the fetch limit of some earlier state s1)
   was, at that time, held by S3 segments with an index, and in every later live state --
   after any crashes and restarts -- lies below the next offset to be assigned: it is
   never given to another record. *)
Theorem served_never_reassigned c evs1 evs2 s1 s :
  run (init c) evs1 = Some s1 -> run s1 evs2 = Some s -> s_live s = true ->
  fetch_limit s1 <= s3_end s1 /\ fetch_limit s1 <= s_next s.
Proof.
  intros H1 H2 Lv. split; [eapply not_ahead; eauto|]. unfold fetch_limit.
  assert (run (init c) (evs1 ++ evs2) = Some s) as H.
  { clear -H1 H2. revert H1. generalize (init c). induction evs1 as [|e r IH]; intros s0 H1; cbn [app run] in *.
    - inversion H1; subst. exact H2.
    - destruct (step s0 e); [|discriminate]. apply IH. exact H1. }
  rewrite (store_is_last_pub _ _ _ H1).
  destruct (no_reuse _ _ _ H Lv) as (_ & P & _).
  destruct (s_pubs s1) as [|v r] eqn:E; cbn [hd].
  - pose proof (reach_inv _ _ _ H) as I. unfold Inv in I. rewrite Lv in I. destruct I as (h & I).
    pose proof (li_hpos _ _ I). pose proof (chain_le _ _ _ (li_pend _ _ I)). lia.
  - apply P. eapply run_pubs_incl; [exact H2|]. rewrite E. now left.
Qed.

(* ------------------------------------------------------------------ C02: stored bytes = appended bytes *)
Definition all_in (A : list batch) (s : state) : Prop :=
  (forall b, In b (s_buf s) -> In b A) /\ (forall b, In b (s_fl s) -> In b A) /\
  (forall k bs b, lookup k (s_seg s) = Some bs -> In b bs -> In b A).

Lemma lookup_put_cases k k' v m bs : lookup k' (put k v m) = Some bs -> (k' = k /\ bs = v) \/ lookup k' m = Some bs.
Proof.
  intros H. destruct (Z.eq_dec k' k) as [->|N].
  - rewrite lookup_put_same in H. inversion H. now left.
  - rewrite lookup_put_other in H by assumption. now right.
Qed.

Lemma all_in_step A s e s' : all_in A s -> step s e = Some s' -> all_in (A ++ new_batch s e) s'.
Proof.
  intros (Hb & Hf & Hs) H.
  assert (forall b, In b A -> In b (A ++ new_batch s e)) as Up by (intros; apply in_app_iff; now left).
  destruct e; cbn [step] in H.
  all: try (destruct (negb (s_live s)); [discriminate|]).
  all: try (destruct (s_live s); [discriminate|]).
  all: try (destruct (s_pcs s t) eqn:Pt; try discriminate).
  - cbn [new_batch]. destruct (parse_hdr raw) as [[lod cnt]|]; [|inversion H; subst; rewrite app_nil_r; repeat split; auto].
    assert (In (mkBatch (s_next s) lod cnt raw) (A ++ [mkBatch (s_next s) lod cnt raw])) as New by (apply in_app_iff; right; now left).
    destruct (should_flush _ _ && _); inversion H; subst; cbn; repeat split; cbn.
    all: try solve [intros bb [] | intros bb Hin; apply in_app_iff in Hin as [Hin|[Hin|[]]]; [apply in_app_iff; left; auto|subst bb; exact New] | intros; apply in_app_iff; left; eauto].
  - cbn [new_batch]. rewrite app_nil_r. destruct (s_owner s); try discriminate.
    destruct (s_buf s) eqn:Eb; [destruct (s_clast s)|]; inversion H; subst; cbn; repeat split; cbn; auto.
    all: try (rewrite Eb; auto). intros bb [].
  - cbn [new_batch]. rewrite app_nil_r. destruct sg; try discriminate. inversion H; subst; cbn; repeat split; cbn; auto.
    intros k bs bb L Hin. destruct ok; [|eauto]. apply lookup_put_cases in L as [[-> ->]|L]; eauto.
  - cbn [new_batch]. rewrite app_nil_r. destruct ix; try discriminate. inversion H; subst; cbn; repeat split; cbn; auto.
  - cbn [new_batch]. rewrite app_nil_r. destruct sg; try discriminate. destruct ix; try discriminate.
    inversion H; subst; cbn; repeat split; cbn; auto. intros bb [].
  - cbn [new_batch]. rewrite app_nil_r.
    assert (s_buf s' = s_fl s ++ s_buf s /\ s_fl s' = [] /\ s_seg s' = s_seg s) as (E1 & E2 & E3).
    { destruct sg, ix; try discriminate; inversion H; subst; cbn; auto. }
    repeat split; rewrite ?E1, ?E2, ?E3; auto.
    + intros bb Hin. apply in_app_iff in Hin as [Hin|Hin]; auto.
    + intros bb [].
  - cbn [new_batch]. rewrite app_nil_r. inversion H; subst; cbn; repeat split; cbn; auto.
  - cbn [new_batch]. rewrite app_nil_r. inversion H; subst; cbn; repeat split; cbn; auto.
  - cbn [new_batch]. rewrite app_nil_r. inversion H; subst; cbn; repeat split; cbn; auto; intros bb [].
  - cbn [new_batch]. rewrite app_nil_r. destruct (restore _ _ _); inversion H; subst; cbn; repeat split; cbn; auto; intros bb [].
  - cbn [new_batch]. rewrite app_nil_r. inversion H; subst; repeat split; auto.
Qed.

Lemma all_in_run evs : forall A s s', all_in A s -> run s evs = Some s' -> all_in (A ++ appended s evs) s'.
Proof.
  induction evs as [|e evs IH]; intros A s s' HA H; cbn [run appended] in *.
  - inversion H; subst. now rewrite app_nil_r.
  - destruct (step s e) as [s1|] eqn:E; [|discriminate]. rewrite app_assoc.
    apply IH; [|exact H]. eapply all_in_step; eauto.
Qed.

Lemma appended_parse evs : forall s b, In b (appended s evs) ->
  parse_hdr (b_raw b) = Some (b_lod b, b_count b).
Proof.
  induction evs as [|e evs IH]; intros s b H; cbn [appended] in H; [contradiction|].
  destruct (step s e) as [s1|]; [|contradiction]. apply in_app_iff in H as [H|H]; [|eauto].
  destruct e; cbn [new_batch] in H; try contradiction.
  destruct (parse_hdr raw) as [[lod cnt]|] eqn:P; [|contradiction]. destruct H as [<-|[]]. exact P.
Qed.

Lemma bytes_shape b : 8 <= zlen (b_raw b) ->
  firstn 8 (b_bytes b) = be64 (b_base b) /\ skipn 8 (b_bytes b) = skipn 8 (b_raw b) /\
  length (b_bytes b) = length (b_raw b).
Proof.
  intros L. split; [reflexivity|]. split; [reflexivity|].
  unfold b_bytes, patch. rewrite app_length, skipn_length. unfold zlen in L. cbn [be64 length]. lia.
Qed.

(* every S3 segment body is the concatenation, in offset order, of accepted record sets'
   bytes in which ONLY the first 8 bytes (base offset) were replaced: nothing dropped,
   added or shifted, whatever the batchLength fields say *)
Theorem stored_bytes_are_appended_bytes c evs s k bs :
  run (init c) evs = Some s -> lookup k (s_seg s) = Some bs ->
  seg_body bs = flat_map b_bytes bs /\ bs <> [] /\ chain k bs (last_off bs + 1) /\
  Forall (fun b => In b (appended (init c) evs) /\
                   firstn 8 (b_bytes b) = be64 (b_base b) /\
                   skipn 8 (b_bytes b) = skipn 8 (b_raw b) /\
                   length (b_bytes b) = length (b_raw b)) bs.
Proof.
  intros H L. split; [reflexivity|].
  pose proof (reach_inv _ _ _ H) as I. unfold Inv in I.
  assert (S3Inv (s_seg s) (s_idx s)) as S3 by (destruct (s_live s); [destruct I as (h & I); apply (li_s3 _ _ I)|apply (di_s3 _ I)]).
  destruct (s3_wf _ _ S3 _ _ L) as (N & Ch & _). split; [exact N|]. split; [exact Ch|].
  assert (all_in ([] ++ appended (init c) evs) s) as (_ & _ & As).
  { apply all_in_run; [|exact H]. repeat split; cbn; intros; try contradiction; discriminate. }
  cbn [app] in As. apply Forall_forall. intros b Hb. specialize (As _ _ _ L Hb). split; [exact As|].
  apply bytes_shape. pose proof (appended_parse _ _ _ As) as P. unfold parse_hdr in P.
  destruct (zlen (b_raw b) <? hdr_min) eqn:E; [discriminate|]. unfold hdr_min in E. lia.
Qed.

(* ------------------------------------------------------------------ C05: each open finding is reachable *)
(* hw-callback-reorder: both callbacks come from commits (non-empty flushes); thread 0's
   was overtaken by thread 1's and then lowers the store *)
Theorem reorder_reachable :
  match runG (init (mkCfg 0 0 0 1)) (fun _ => false) (removelast reorder_witness) with
  | Some (s, ov) =>
      ov 0%nat = true /\ (exists b, s_pcs s 0%nat = PCb FromFlush b 0) /\ s_store s = 2 /\
      (exists s', step s (ECallback 0%nat true) = Some s' /\ s_store s' = 1)
  | None => False
  end.
Proof. vm_compute. repeat split; eexists; try reflexivity. split; reflexivity. Qed.

(* hw-empty-flush-publish-reorder: thread 1's callback was created by its EMPTY Flush
   (EFlushBegin, buffer empty) with the then-current committed offset 1 *)
Theorem empty_publish_reorder_reachable :
  match runG (init (mkCfg 0 0 0 1)) (fun _ => false) (removelast empty_publish_witness) with
  | Some (s, ov) =>
      ov 1%nat = true /\ (exists b, s_pcs s 1%nat = PCb FromFlush b 1) /\ s_store s = 3 /\
      (exists s', step s (ECallback 1%nat true) = Some s' /\ s_store s' = 2)
  | None => False
  end.
Proof. vm_compute. repeat split; eexists; try reflexivity. split; reflexivity. Qed.
