(* Proofs about model/Storage.v (C01, C02, C05, C06): one inductive invariant over
   every event list (every schedule x S3/store fault sequence x crash point). *)
From Coq Require Import ZifyBool.
From KS Require Import lib.Base model.Storage.
Open Scope Z_scope.

(* ------------------------------------------------------------------ S3 maps *)
Lemma lookup_put_same k v m : lookup k (put k v m) = Some v.
Proof.
  induction m as [|[k' v'] m IH]; cbn [put lookup].
  - now rewrite Z.eqb_refl.
  - destruct (k =? k') eqn:E; cbn [lookup]; [now rewrite Z.eqb_refl|].
    destruct (k <? k') eqn:L; cbn [lookup]; [now rewrite Z.eqb_refl|]. now rewrite E.
Qed.

Lemma lookup_put_other k k' v m : k' <> k -> lookup k' (put k v m) = lookup k' m.
Proof.
  intros N. induction m as [|[k0 v0] m IH]; cbn [put lookup].
  - destruct (k' =? k) eqn:E; [lia|reflexivity].
  - destruct (k =? k0) eqn:E; cbn [lookup].
    + assert (k = k0) by lia; subst. destruct (k' =? k0) eqn:E2; [lia|reflexivity].
    + destruct (k <? k0) eqn:L; cbn [lookup].
      * destruct (k' =? k) eqn:E2; [lia|reflexivity].
      * destruct (k' =? k0); [reflexivity|apply IH].
Qed.

Lemma has_put_same k v m : has k (put k v m) = true.
Proof. unfold has. now rewrite lookup_put_same. Qed.

Lemma has_put_mono k k' v m : has k' m = true -> has k' (put k v m) = true.
Proof.
  intros H. destruct (Z.eq_dec k' k) as [->|N]; [apply has_put_same|].
  unfold has in *. now rewrite lookup_put_other.
Qed.

Lemma lookup_in k v m : lookup k m = Some v -> In (k, v) m.
Proof.
  induction m as [|[k' v'] m IH]; cbn [lookup]; [discriminate|].
  destruct (k =? k') eqn:E; intros H.
  - inversion H; subst. assert (k = k') by lia; subst. now left.
  - right. now apply IH.
Qed.

Lemma lookup_keys k v m : lookup k m = Some v -> In k (map fst m).
Proof. intros H. apply lookup_in in H. now apply (in_map fst) in H. Qed.

(* ------------------------------------------------------------------ chains *)
Lemma chain_app lo a b hi :
  chain lo (a ++ b) hi <-> exists mid, chain lo a mid /\ chain mid b hi.
Proof.
  revert lo; induction a as [|x a IH]; intros lo; cbn [app chain].
  - split; [intros H; exists lo; now split|intros (mid & -> & H); exact H].
  - split.
    + intros (H1 & H2 & H3). apply IH in H3 as (mid & H3 & H4). exists mid. repeat split; assumption.
    + intros (mid & (H1 & H2 & H3) & H4). repeat split; try assumption. apply IH. now exists mid.
Qed.

Lemma chain_le lo a hi : chain lo a hi -> lo <= hi.
Proof.
  revert lo; induction a as [|x a IH]; intros lo; cbn [chain]; [lia|].
  intros (H1 & H2 & H3). apply IH in H3. lia.
Qed.

Lemma last_off_cons x y r : last_off (x :: y :: r) = last_off (y :: r).
Proof. reflexivity. Qed.

Lemma chain_last lo a hi :
  chain lo a hi -> a <> [] -> art_key a = lo /\ lo <= last_off a /\ hi = last_off a + 1.
Proof.
  revert lo; induction a as [|x a IH]; intros lo H N; [congruence|].
  cbn [chain] in H. destruct H as (H1 & H2 & H3). cbn [art_key].
  destruct a as [|y r].
  - cbn [chain] in H3. unfold last_off, b_last. cbn [last]. lia.
  - rewrite last_off_cons. destruct (IH _ H3) as (E1 & E2 & E3); [discriminate|]. lia.
Qed.

Lemma chain_in_last lo a hi b : chain lo a hi -> In b a -> lo <= b_base b /\ b_last b < hi /\ 0 <= b_lod b.
Proof.
  revert lo; induction a as [|x a IH]; intros lo H I; [contradiction|].
  cbn [chain] in H. destruct H as (H1 & H2 & H3). pose proof (chain_le _ _ _ H3) as L.
  destruct I as [->|I].
  - unfold b_last. lia.
  - destruct (IH _ H3 I) as (A & B & C). lia.
Qed.

Lemma chain_head lo a hi : chain lo a hi -> match a with b :: _ => b_base b | [] => hi end = lo.
Proof. destruct a; cbn [chain]; intuition lia. Qed.

(* ------------------------------------------------------------------ vocabulary *)
Definition below (bnd : option Z) (k : Z) : Prop :=
  match bnd with Some h => k < h | None => True end.

(* b sits in an S3 segment object that has an index object (and, while a log is live,
   lies below the write frontier h, where no upload can touch it any more) *)
Definition safe (bnd : option Z) (seg idx : smap) (b : batch) : Prop :=
  exists k bs, lookup k seg = Some bs /\ In b bs /\ has k idx = true /\ below bnd k.

Definition pubok (bnd : option Z) (seg idx : smap) (v : Z) : Prop :=
  v <= 0 \/ exists k bs, lookup k seg = Some bs /\ has k idx = true /\ below bnd k /\ v <= last_off bs + 1.

Lemma below_mono h h' k : h <= h' -> below (Some h) k -> below (Some h') k.
Proof. cbn; lia. Qed.

Lemma safe_mono h h' seg idx b : h <= h' -> safe (Some h) seg idx b -> safe (Some h') seg idx b.
Proof. intros L (k & bs & A & B & C & D). exists k, bs. cbn in *. repeat split; try assumption. lia. Qed.

Lemma safe_none bnd seg idx b : safe bnd seg idx b -> safe None seg idx b.
Proof. intros (k & bs & A & B & C & D). exists k, bs. cbn. auto. Qed.

Lemma pubok_mono h h' seg idx v : h <= h' -> pubok (Some h) seg idx v -> pubok (Some h') seg idx v.
Proof.
  intros L [H|(k & bs & A & B & C & D)]; [now left|right].
  exists k, bs. cbn in *. repeat split; try assumption. lia.
Qed.

Lemma pubok_none bnd seg idx v : pubok bnd seg idx v -> pubok None seg idx v.
Proof. intros [H|(k & bs & A & B & C & D)]; [now left|right]. exists k, bs. cbn. auto. Qed.

Lemma safe_put_seg h key v seg idx b :
  h <= key -> safe (Some h) seg idx b -> safe (Some h) (put key v seg) idx b.
Proof.
  intros L (k & bs & A & B & C & D). exists k, bs. cbn in D.
  rewrite lookup_put_other by lia. auto.
Qed.

Lemma safe_put_idx bnd key v seg idx b :
  safe bnd seg idx b -> safe bnd seg (put key v idx) b.
Proof.
  intros (k & bs & A & B & C & D). exists k, bs. repeat split; try assumption.
  now apply has_put_mono.
Qed.

Lemma pubok_put_seg h key v seg idx x :
  h <= key -> pubok (Some h) seg idx x -> pubok (Some h) (put key v seg) idx x.
Proof.
  intros L [H|(k & bs & A & B & C & D)]; [now left|right]. exists k, bs. cbn in C.
  rewrite lookup_put_other by lia. auto.
Qed.

Lemma pubok_put_idx bnd key v seg idx x :
  pubok bnd seg idx x -> pubok bnd seg (put key v idx) x.
Proof.
  intros [H|(k & bs & A & B & C & D)]; [now left|right]. exists k, bs.
  repeat split; try assumption. now apply has_put_mono.
Qed.

Lemma durable_of_safe bnd s b : safe bnd (s_seg s) (s_idx s) b -> durable s b.
Proof. intros (k & bs & A & B & C & D). exists k, bs. auto. Qed.

(* ------------------------------------------------------------------ invariant *)
Definition pc_ok (h : Z) (ow : option nat) (fl buf : list batch) (seg idx : smap) (t : nat) (p : pc) : Prop :=
  match p with
  | PIdle => True
  | PAppended b => safe (Some h) seg idx b \/ In b (fl ++ buf)
  | PUp o b sg ix =>
      ow = Some t /\ (sg = UOk -> lookup h seg = Some fl) /\ (ix = UOk -> has h idx = true) /\
      (safe (Some h) seg idx b \/ In b fl)
  | PCb o b v => safe (Some h) seg idx b /\ pubok (Some h) seg idx (v + 1) /\ 0 <= v
  | PRet b ok => ok = true -> safe (Some h) seg idx b
  end.

Definition complete (seg idx : smap) (k : Z) (bs : list batch) : Prop :=
  lookup k seg = Some bs /\ has k idx = true.

(* facts about S3 that hold whether or not a log is live *)
Record S3Inv (seg idx : smap) : Prop := mkS3Inv {
  s3_wf : forall k bs, lookup k seg = Some bs -> bs <> [] /\ chain k bs (last_off bs + 1) /\ 0 <= k;
  s3_ord : forall k bs k' bs', complete seg idx k bs -> complete seg idx k' bs' -> k < k' -> last_off bs < k'
}.

Record LInv (h : Z) (s : state) : Prop := mkLInv {
  li_hpos : 0 <= h;
  li_pend : chain h (s_fl s ++ s_buf s) (s_next s);
  li_done : chain (s_start s) (s_done s) h;
  li_done_safe : forall b, In b (s_done s) -> safe (Some h) (s_seg s) (s_idx s) b;
  li_nofl : s_owner s = None -> s_fl s = [];
  li_own : forall t, s_owner s = Some t -> s_fl s <> [] /\ exists o b sg ix, s_pcs s t = PUp o b sg ix;
  li_pcs : forall t, pc_ok h (s_owner s) (s_fl s) (s_buf s) (s_seg s) (s_idx s) t (s_pcs s t);
  li_acked : forall b, In b (s_acked s) -> safe (Some h) (s_seg s) (s_idx s) b;
  li_s3 : S3Inv (s_seg s) (s_idx s);
  li_seglt : forall k bs, complete (s_seg s) (s_idx s) k bs -> k < h -> last_off bs < h;
  li_k1 : forall k bs, complete (s_seg s) (s_idx s) k bs -> k <= h;
  li_store : pubok (Some h) (s_seg s) (s_idx s) (s_store s) /\ 0 <= s_store s;
  li_clast : forall v, s_clast s = Some v -> pubok (Some h) (s_seg s) (s_idx s) (v + 1) /\ 0 <= v;
  li_pubs : forall v, In v (s_pubs s) -> 0 <= v
}.

Record DInv (s : state) : Prop := mkDInv {
  di_acked : forall b, In b (s_acked s) -> safe None (s_seg s) (s_idx s) b;
  di_s3 : S3Inv (s_seg s) (s_idx s);
  di_store : pubok None (s_seg s) (s_idx s) (s_store s) /\ 0 <= s_store s;
  di_pubs : forall v, In v (s_pubs s) -> 0 <= v
}.

Definition Inv (s : state) : Prop :=
  if s_live s then exists h, LInv h s else DInv s.

Lemma pubok_le h seg idx v :
  0 <= h -> (forall k bs, complete seg idx k bs -> k < h -> last_off bs < h) ->
  pubok (Some h) seg idx v -> v <= h.
Proof.
  intros P L [H|(k & bs & A & B & C & D)]; [lia|]. cbn in C.
  specialize (L k bs (conj A B) C). lia.
Qed.

Lemma init_inv c : Inv (init c).
Proof.
  unfold Inv; cbn. exists 0. constructor; cbn; try tauto; try lia; try discriminate.
  - constructor; cbn; [discriminate|]. intros k bs k' bs' [H _]. discriminate.
  - intros k bs [H _]. discriminate.
  - intros k bs [H _]. discriminate.
  - split; [now left|lia].
Qed.

(* ------------------------------------------------------------------ frame lemmas *)
Lemma has_put_other k k' v m : k' <> k -> has k' (put k v m) = has k' m.
Proof. intros N. unfold has. now rewrite lookup_put_other. Qed.

Lemma pc_ok_buf h ow fl buf buf' seg idx t p :
  pc_ok h ow fl buf seg idx t p -> (forall b, In b buf -> In b buf') ->
  pc_ok h ow fl buf' seg idx t p.
Proof.
  intros H I. destruct p; cbn in *; try assumption.
  destruct H as [H|H]; [now left|right]. rewrite in_app_iff in *. intuition.
Qed.

Lemma pc_ok_step h h' ow ow' fl fl' buf buf' seg seg' idx idx' t p :
  pc_ok h ow fl buf seg idx t p ->
  (forall o b sg ix, p <> PUp o b sg ix) ->
  (forall b, safe (Some h) seg idx b -> safe (Some h') seg' idx' b) ->
  (forall v, pubok (Some h) seg idx v -> pubok (Some h') seg' idx' v) ->
  (forall b, In b (fl ++ buf) -> In b (fl' ++ buf') \/ safe (Some h') seg' idx' b) ->
  pc_ok h' ow' fl' buf' seg' idx' t p.
Proof.
  intros H NU S P I. destruct p; cbn in *.
  - trivial.
  - destruct H as [H|H]; [left; now apply S|]. destruct (I _ H); [now right|now left].
  - exfalso. eapply NU. reflexivity.
  - destruct H as (A & B & C). repeat split; auto.
  - intros E. apply S. now apply H.
Qed.

Lemma not_up_others h s t :
  (forall t', pc_ok h (s_owner s) (s_fl s) (s_buf s) (s_seg s) (s_idx s) t' (s_pcs s t')) ->
  (s_owner s = None \/ s_owner s = Some t) ->
  forall t', t' <> t -> forall o b sg ix, s_pcs s t' <> PUp o b sg ix.
Proof.
  intros P O t' N o b sg ix E. specialize (P t'). rewrite E in P. cbn in P.
  destruct P as (A & _). destruct O as [O|O]; rewrite O in A; [discriminate|]. inversion A. congruence.
Qed.

Lemma upd_same f t v : upd f t v t = v.
Proof. unfold upd. now rewrite Nat.eqb_refl. Qed.

Lemma upd_other f t v t' : t' <> t -> upd f t v t' = f t'.
Proof. intros N. unfold upd. destruct (Nat.eqb t' t) eqn:E; [apply Nat.eqb_eq in E; congruence|reflexivity]. Qed.

Lemma parse_hdr_lod raw lod cnt : parse_hdr raw = Some (lod, cnt) -> 0 <= lod.
Proof.
  unfold parse_hdr. destruct (zlen raw <? hdr_min); [discriminate|].
  destruct (be_i32 raw 23 <? 0) eqn:E; [discriminate|]. intros H; inversion H; subst. lia.
Qed.

Lemma chain_snoc lo a b hi :
  chain lo a hi -> b_base b = hi -> 0 <= b_lod b -> chain lo (a ++ [b]) (hi + b_lod b + 1).
Proof.
  intros C B L. apply chain_app. exists hi. split; [assumption|]. cbn. repeat split; auto.
Qed.

Lemma chain_art_key h fl buf n : chain h (fl ++ buf) n -> fl <> [] -> art_key fl = h.
Proof. destruct fl as [|b r]; [congruence|]. cbn. intuition. Qed.

(* ------------------------------------------------------------------ EAppend *)
Lemma inv_append h s t raw s' :
  s_live s = true -> LInv h s -> step s (EAppend t raw) = Some s' -> s_live s' = true /\ LInv h s'.
Proof.
  intros Lv I H. cbn [step] in H. rewrite Lv in H. cbn [negb] in H.
  destruct (s_pcs s t) eqn:Pt; try discriminate.
  destruct (parse_hdr raw) as [[lod cnt]|] eqn:Ph; [|inversion H; subst; auto].
  pose proof (parse_hdr_lod _ _ _ Ph) as Lod.
  set (b := mkBatch (s_next s) lod cnt raw) in *.
  destruct I.
  destruct (should_flush (s_cfg s) (s_buf s ++ [b]) && match s_owner s with None => true | Some _ => false end) eqn:SF;
    inversion H; subst; clear H; (split; [reflexivity|]).
  - (* threshold flush: drain *)
    apply andb_true_iff in SF as [_ SF].
    assert (Ow : s_owner s = None) by (destruct (s_owner s); [discriminate|reflexivity]).
    pose proof (li_nofl0 Ow) as Efl. rewrite Efl in *. cbn [app] in *.
    constructor; cbn;
      [ assumption
      | rewrite app_nil_r; replace (s_next s + lod + 1) with (s_next s + b_lod b + 1) by reflexivity;
        apply chain_snoc; auto
      | assumption | assumption
      | discriminate
      | intros t0 E; inversion E; subst; split; [destruct (s_buf s); discriminate|]; rewrite upd_same; eauto
      | | assumption | assumption | assumption | assumption | assumption | assumption | assumption ].
    intros t'. destruct (Nat.eq_dec t' t) as [->|N].
    + rewrite upd_same. cbn. repeat split; try discriminate. right. apply in_app_iff. right. now left.
    + rewrite upd_other by assumption.
      eapply pc_ok_step; [apply li_pcs0| | | |].
      * eapply (not_up_others h s t); [rewrite Efl; exact li_pcs0|now left|exact N].
      * auto.
      * auto.
      * intros b0 Hb. left. rewrite app_nil_r. apply in_app_iff. now left.
  - (* plain append *)
    constructor; cbn;
      [ assumption
      | rewrite app_assoc; replace (s_next s + lod + 1) with (s_next s + b_lod b + 1) by reflexivity;
        apply chain_snoc; auto
      | assumption | assumption | assumption
      | intros t0 E; destruct (li_own0 _ E) as (A & o & b0 & sg & ix & B); split; [assumption|];
        rewrite upd_other by congruence; eauto
      | | assumption | assumption | assumption | assumption | assumption | assumption | assumption ].
    intros t'. destruct (Nat.eq_dec t' t) as [->|N].
    + rewrite upd_same. cbn. right. rewrite !in_app_iff. right. right. now left.
    + rewrite upd_other by assumption. eapply pc_ok_buf; [apply li_pcs0|].
      intros b0 Hb. apply in_app_iff. now left.
Qed.
