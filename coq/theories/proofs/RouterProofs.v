(* Proofs about model/Router.v (C20): with the watch resumed at r_rev+1 the table is,
   at every moment, exactly the table a full read at revision r_rev would produce;
   hence it equals the current etcd contents as soon as nothing is pending. *)
From KS Require Import lib.Base lib.Strings lib.RevKV model.Router.
Open Scope Z_scope.

(* ---------- small list facts ---------- *)
Lemma Forall_firstn {A} (P : A -> Prop) n l : Forall P l -> Forall P (firstn n l).
Proof.
  revert l; induction n as [|n IH]; intros l H; cbn; [constructor|].
  destruct l; [constructor|]. inversion H; subst. constructor; auto.
Qed.

Lemma Forall_skipn {A} (P : A -> Prop) n l : Forall P l -> Forall P (skipn n l).
Proof.
  revert l; induction n as [|n IH]; intros l H; cbn; [assumption|].
  destruct l; [constructor|]. inversion H; subst. auto.
Qed.

Lemma firstn_app_le {A} (l1 l2 : list A) n : (n <= length l1)%nat -> firstn n (l1 ++ l2) = firstn n l1.
Proof.
  intros H. rewrite firstn_app. replace (n - length l1)%nat with O by lia.
  cbn. apply app_nil_r.
Qed.

Section Generic.
Variable rk : bytes -> option bytes.
Variable good : bytes -> Prop.
Hypothesis rk_inj : forall k k' r, good k -> good k' -> rk k = Some r -> rk k' = Some r -> k = k'.

(* ---------- what loadAll computes, entry by entry ---------- *)
Definition g (r : bytes) (o : option bytes) (e : bytes * bytes) : option bytes :=
  match rk (fst e) with
  | Some r' => if bytes_eqb r r' then Some (snd e) else o
  | None => o
  end.

Definition pget (kv : kvmap) (r : bytes) : option bytes := fold_left (g r) kv None.

Lemma project_fold kv acc r :
  mget (fold_left (fun acc e => match rk (fst e) with Some r => mset acc r (snd e) | None => acc end) kv acc) r
  = fold_left (g r) kv (mget acc r).
Proof.
  revert acc; induction kv as [|e kv IH]; intros acc; cbn [fold_left]; [reflexivity|].
  rewrite IH. f_equal. unfold g. destruct (rk (fst e)); [|reflexivity].
  now rewrite mget_mset.
Qed.

Lemma project_get kv r : mget (project rk kv) r = pget kv r.
Proof. unfold project, pget. now rewrite project_fold. Qed.

Definition wf (kv : kvmap) : Prop := NoDup (map fst kv) /\ forall k, In k (map fst kv) -> good k.

Lemma fold_g_none kv r o :
  (forall k, In k (map fst kv) -> rk k <> Some r) -> fold_left (g r) kv o = o.
Proof.
  revert o; induction kv as [|[k0 v0] kv IH]; intros o H; cbn [fold_left]; [reflexivity|].
  rewrite IH.
  - unfold g; cbn [fst snd]. destruct (rk k0) eqn:E; [|reflexivity].
    destruct (bytes_eqb r b) eqn:B; [|reflexivity].
    apply bytes_eqb_eq in B. subst b. exfalso. apply (H k0); [now left|assumption].
  - intros k Hk. apply H. now right.
Qed.

Lemma fold_g_good kv k r o :
  wf kv -> good k -> rk k = Some r ->
  fold_left (g r) kv o = match mget kv k with Some v => Some v | None => o end.
Proof.
  revert o; induction kv as [|[k0 v0] kv IH]; intros o [Hd Hg] Gk Rk; cbn [fold_left mget]; [reflexivity|].
  cbn [map fst] in Hd, Hg. inversion Hd as [|? ? Hn Hd']; subst.
  assert (wf kv) as W by (split; [assumption|intros x Hx; apply Hg; now right]).
  destruct (bytes_eqb k k0) eqn:E.
  - apply bytes_eqb_eq in E. subst k0.
    rewrite (IH _ W Gk Rk).
    assert (mget kv k = None) as -> by (now apply mget_none_keys).
    unfold g; cbn [fst snd]. now rewrite Rk, bytes_eqb_refl.
  - rewrite (IH _ W Gk Rk). f_equal.
    unfold g; cbn [fst snd]. destruct (rk k0) eqn:R0; [|reflexivity].
    destruct (bytes_eqb r b) eqn:B; [|reflexivity].
    apply bytes_eqb_eq in B. subst b. exfalso.
    apply bytes_eqb_neq in E. apply E. apply (rk_inj k k0 r); auto. apply Hg. now left.
Qed.

(* either some present key maps to r (then pget is that key's value) or none does *)
Lemma pget_char kv r :
  wf kv ->
  (exists k, In k (map fst kv) /\ rk k = Some r /\ pget kv r = mget kv k) \/
  ((forall k, In k (map fst kv) -> rk k <> Some r) /\ pget kv r = None).
Proof.
  intros W.
  destruct (existsb (fun e => opt_eqb bytes_eqb (rk (fst e)) (Some r)) kv) eqn:X.
  - left. apply existsb_exists in X as [[k v] [Hin Hr]]. cbn [fst] in Hr.
    destruct (rk k) eqn:Rk; cbn in Hr; [|discriminate]. apply bytes_eqb_eq in Hr. subst b.
    assert (In k (map fst kv)) as Hk by (apply in_map_iff; exists (k, v); auto).
    exists k. repeat split; auto.
    unfold pget. rewrite (fold_g_good kv k r None W); auto; [|apply W; assumption].
    destruct (mget kv k); reflexivity.
  - right. assert (forall k, In k (map fst kv) -> rk k <> Some r) as N.
    { intros k Hk Rk. apply in_map_iff in Hk as [[k' v] [Ek Hin]]. cbn in Ek. subst k'.
      assert (existsb (fun e => opt_eqb bytes_eqb (rk (fst e)) (Some r)) kv = true); [|congruence].
      apply existsb_exists. exists (k, v). split; [assumption|]. cbn [fst]. rewrite Rk. cbn.
      apply bytes_eqb_refl. }
    split; [assumption|]. unfold pget. now apply fold_g_none.
Qed.

Lemma in_keys_mget kv k : In k (map fst kv) -> mget kv k <> None.
Proof. intros H N. apply mget_none_keys in N. contradiction. Qed.

Lemma pget_change kv kv' r :
  wf kv -> wf kv' ->
  (forall k, rk k = Some r -> mget kv' k = mget kv k) -> pget kv' r = pget kv r.
Proof.
  intros W W' H.
  destruct (pget_char kv' r W') as [[k [Hk [Rk E]]]|[N E]]; rewrite E.
  - rewrite (H k Rk).
    destruct (pget_char kv r W) as [[k2 [Hk2 [Rk2 E2]]]|[N2 E2]]; rewrite E2.
    + assert (k = k2) as -> by (apply (rk_inj k k2 r); auto; [apply W'|apply W]; assumption).
      reflexivity.
    + destruct (mget kv k) eqn:G; [|reflexivity]. exfalso.
      apply (N2 k); [|assumption].
      destruct (in_dec (list_eq_dec Z.eq_dec) k (map fst kv)) as [i|n]; [exact i|].
      apply mget_none_keys in n. congruence.
  - destruct (pget_char kv r W) as [[k2 [Hk2 [Rk2 E2]]]|[N2 E2]]; rewrite E2; [|reflexivity].
    rewrite <- (H k2 Rk2). symmetry. apply mget_none_keys. intros Hin. now apply (N k2).
Qed.

Lemma wf_apply_ev kv e : wf kv -> good (ev_key e) -> wf (apply_ev kv e).
Proof.
  intros [Hd Hg] G. destruct e as [k v|k]; cbn [apply_ev ev_key] in *.
  - split; [now apply mset_nodup|]. intros x Hx. apply mset_keys in Hx as [->|Hx]; auto.
  - split; [now apply mdel_nodup|]. intros x Hx. apply mdel_keys in Hx as [_ Hx]. auto.
Qed.

(* the core commutation: applying a watch event to the table = reloading after the event *)
Lemma apply_route_equiv R kv e :
  wf kv -> good (ev_key e) ->
  map_equiv R (project rk kv) ->
  map_equiv (apply_route rk R e) (project rk (apply_ev kv e)).
Proof.
  intros W G H r'. pose proof (wf_apply_ev kv e W G) as W'.
  rewrite project_get. destruct e as [k v|k]; cbn [apply_route apply_ev ev_key] in *.
  - destruct (rk k) eqn:Rk.
    + rewrite mget_mset. destruct (bytes_eqb r' b) eqn:E.
      * apply bytes_eqb_eq in E. subst b. unfold pget.
        rewrite (fold_g_good _ k r' None W' G Rk), mget_mset, bytes_eqb_refl. reflexivity.
      * rewrite H, project_get. symmetry. apply pget_change; auto.
        intros k2 Rk2. rewrite mget_mset. destruct (bytes_eqb k2 k) eqn:E2; [|reflexivity].
        apply bytes_eqb_eq in E2. subst k2. rewrite Rk in Rk2. inversion Rk2; subst.
        rewrite bytes_eqb_refl in E. discriminate.
    + rewrite H, project_get. symmetry. apply pget_change; auto.
      intros k2 Rk2. rewrite mget_mset. destruct (bytes_eqb k2 k) eqn:E2; [|reflexivity].
      apply bytes_eqb_eq in E2. subst k2. congruence.
  - destruct (rk k) eqn:Rk.
    + rewrite mget_mdel. destruct (bytes_eqb r' b) eqn:E.
      * apply bytes_eqb_eq in E. subst b. unfold pget.
        rewrite (fold_g_good _ k r' None W' G Rk), mget_mdel, bytes_eqb_refl. reflexivity.
      * rewrite H, project_get. symmetry. apply pget_change; auto.
        intros k2 Rk2. rewrite mget_mdel. destruct (bytes_eqb k2 k) eqn:E2; [|reflexivity].
        apply bytes_eqb_eq in E2. subst k2. rewrite Rk in Rk2. inversion Rk2; subst.
        rewrite bytes_eqb_refl in E. discriminate.
    + rewrite H, project_get. symmetry. apply pget_change; auto.
      intros k2 Rk2. rewrite mget_mdel. destruct (bytes_eqb k2 k) eqn:E2; [|reflexivity].
      apply bytes_eqb_eq in E2. subst k2. congruence.
Qed.

Definition good_evs (evs : list kvev) : Prop := Forall (fun e => good (ev_key e)) evs.
Definition good_log (log : list (list kvev)) : Prop := Forall good_evs log.

Lemma apply_evs_equiv evs : forall R kv,
  wf kv -> good_evs evs -> map_equiv R (project rk kv) ->
  wf (apply_evs kv evs) /\
  map_equiv (fold_left (apply_route rk) evs R) (project rk (apply_evs kv evs)).
Proof.
  induction evs as [|e evs IH]; intros R kv W G H; cbn [fold_left apply_evs]; [split; assumption|].
  inversion G; subst. apply IH; auto.
  - now apply wf_apply_ev.
  - now apply apply_route_equiv.
Qed.

Lemma apply_routes_equiv revs : forall R kv,
  wf kv -> good_log revs -> map_equiv R (project rk kv) ->
  wf (replay kv revs) /\ map_equiv (apply_routes rk R revs) (project rk (replay kv revs)).
Proof.
  induction revs as [|evs revs IH]; intros R kv W G H; cbn [apply_routes replay fold_left]; [split; assumption|].
  inversion G; subst.
  destruct (apply_evs_equiv evs R kv W) as [W1 H1]; auto.
  apply IH; auto.
Qed.

Lemma wf_nil : wf [].
Proof. split; [constructor|intros k []]. Qed.

Lemma wf_replay log : good_log log -> wf (replay [] log).
Proof.
  intros G. destruct (apply_routes_equiv log [] [] wf_nil G) as [W _]; [|exact W].
  intros k. reflexivity.
Qed.

(* ---------- the store keeps good keys ---------- *)
Lemma effective_good m ops : good_evs ops -> good_evs (effective m ops).
Proof.
  revert m; induction ops as [|[k v|k] ops IH]; intros m G; cbn [effective]; [constructor| |];
    inversion G; subst.
  - constructor; [assumption|]. now apply IH.
  - destruct (mget m k); [constructor; [assumption|]|]; now apply IH.
Qed.

Lemma commit_good s ops : good_log (s_log s) -> good_evs ops -> good_log (s_log (commit s ops)).
Proof.
  intros G Go. unfold commit. pose proof (effective_good (kv_now s) ops Go) as Ge.
  destruct (effective (kv_now s) ops) eqn:E; [assumption|].
  cbn [s_log]. apply Forall_app. split; [assumption|]. constructor; [assumption|constructor].
Qed.

Lemma commit_log_ext s ops : exists x, s_log (commit s ops) = s_log s ++ x.
Proof.
  unfold commit. destruct (effective (kv_now s) ops).
  - exists []. now rewrite app_nil_r.
  - eexists. reflexivity.
Qed.

Lemma kv_at_ext s s' r x :
  s_log s' = s_log s ++ x -> (r <= s_rev s)%nat -> kv_at s' r = kv_at s r.
Proof. intros E H. unfold kv_at. rewrite E. now rewrite firstn_app_le. Qed.

(* ---------- the invariant ---------- *)
Definition good_event (e : event) : Prop :=
  match e with
  | EPut k _ => good k
  | EDel k => good k
  | ETxn ops => good_evs ops
  | _ => True
  end.

Definition Inv (w : world) : Prop :=
  let s := w_store w in
  let r := w_router w in
  good_log (s_log s) /\
  (r_pc r <> PcInit ->
     map_equiv (r_routes r) (project rk (kv_at s (r_rev r))) /\
     (r_rev r <= s_rev s)%nat /\
     (r_pc r = PcWatching -> r_seen r = r_rev r)).

Lemma inv_init : Inv init.
Proof. split; [constructor|]. cbn. congruence. Qed.

(* a store-only event: the log is extended, the router is untouched *)
Lemma inv_store_ext w s' x :
  Inv w -> s_log s' = s_log (w_store w) ++ x -> good_log (s_log s') ->
  Inv (set_store w s').
Proof.
  intros [G I] E G'. split; [exact G'|]. cbn [w_router w_store set_store]. intros Hpc.
  destruct (I Hpc) as [H1 [H2 H3]]. repeat split.
  - rewrite (kv_at_ext (w_store w) s' _ x E H2). exact H1.
  - unfold s_rev in *. rewrite E, app_length. lia.
  - exact H3.
Qed.

Lemma inv_step w e w' :
  Inv w -> good_event e -> step rk true w e = Some w' -> Inv w'.
Proof.
  intros I Ge St. pose proof I as [G Ir].
  destruct e; cbn [step] in St; cbn [good_event] in Ge.
  - (* EPut *) inversion St; subst.
    destruct (commit_log_ext (w_store w) [KPut k v]) as [x E].
    apply (inv_store_ext w _ x I E). apply commit_good; auto. constructor; [assumption|constructor].
  - (* EDel *) inversion St; subst.
    destruct (commit_log_ext (w_store w) [KDel k]) as [x E].
    apply (inv_store_ext w _ x I E). apply commit_good; auto. constructor; [assumption|constructor].
  - (* ETxn *) inversion St; subst.
    destruct (commit_log_ext (w_store w) ops) as [x E].
    apply (inv_store_ext w _ x I E). now apply commit_good.
  - (* EOther *) inversion St; subst.
    apply (inv_store_ext w _ [[]] I); [reflexivity|].
    cbn [commit_other s_log]. apply Forall_app. split; [assumption|]. constructor; constructor.
  - (* ECompact *) inversion St; subst.
    apply (inv_store_ext w _ [[]] I); [reflexivity|].
    cbn [commit_other s_log]. apply Forall_app. split; [assumption|]. constructor; constructor.
  - (* ECompactAt *)
    destruct ((s_compact (w_store w) <? r) && (r <=? s_rev (w_store w)))%nat; inversion St; subst; [|exact I].
    apply (inv_store_ext w _ [] I); cbn [s_log]; [now rewrite app_nil_r|exact G].
  - (* ELoadOk *)
    assert (Inv (set_router w (mkRouter (project rk (kv_now (w_store w))) (s_rev (w_store w)) O PcLoaded))) as R.
    { split; [exact G|]. cbn [w_router w_store set_router r_pc r_routes r_rev r_seen]. intros _.
      repeat split; [|lia|discriminate].
      unfold kv_at, kv_now, s_rev. rewrite firstn_all. intros k; reflexivity. }
    destruct (r_pc (w_router w)); inversion St; subst; exact R.
  - (* ELoadFail *)
    destruct (r_pc (w_router w)) eqn:P; inversion St; subst; [exact I|].
    split; [exact G|]. cbn [w_router w_store set_router r_pc r_routes r_rev r_seen]. intros _.
    destruct Ir as [H1 [H2 _]]; [congruence|]. repeat split; auto. discriminate.
  - (* EWatchStart *)
    destruct (r_pc (w_router w)) eqn:P; try discriminate.
    destruct Ir as [H1 [H2 _]]; [congruence|].
    destruct (S (r_rev (w_router w)) <? s_compact (w_store w))%nat; inversion St; subst;
      (split; [exact G|]); cbn [w_router w_store set_router r_pc r_routes r_rev r_seen]; intros _;
      repeat split; auto; discriminate.
  - (* EDeliver *)
    destruct (r_pc (w_router w)) eqn:P; try discriminate.
    destruct n as [|n]; [discriminate|].
    destruct Ir as [H1 [H2 H3]]; [congruence|]. specialize (H3 eq_refl).
    destruct (take_revs (skipn (r_seen (w_router w)) (s_log (w_store w))) (S n)) as [c|] eqn:T; [|discriminate].
    inversion St; subst. clear St.
    split; [exact G|]. cbn [w_router w_store set_router r_pc r_routes r_rev r_seen]. intros _.
    pose proof (take_revs_le _ _ _ T) as Hc. rewrite skipn_length in Hc.
    rewrite H3 in *. unfold s_rev in *.
    replace (Nat.max (r_rev (w_router w)) (r_rev (w_router w) + c)) with (r_rev (w_router w) + c)%nat by lia.
    repeat split; [|lia].
    unfold kv_at. rewrite firstn_add, replay_app.
    apply apply_routes_equiv.
    + apply wf_replay. now apply Forall_firstn.
    + apply Forall_firstn. now apply Forall_skipn.
    + exact H1.
  - (* EStreamClosed *)
    destruct (r_pc (w_router w)) eqn:P; try discriminate. inversion St; subst.
    split; [exact G|]. cbn [w_router w_store set_router r_pc r_routes r_rev r_seen]. intros _.
    destruct Ir as [H1 [H2 _]]; [congruence|]. repeat split; auto. discriminate.
Qed.

Lemma inv_run evs : forall w w',
  Inv w -> Forall good_event evs -> run rk true w evs = Some w' -> Inv w'.
Proof.
  induction evs as [|e evs IH]; intros w w' I G R; cbn [run] in R.
  - inversion R; subst. exact I.
  - inversion G; subst. destruct (step rk true w e) as [w1|] eqn:S; [|discriminate].
    apply (IH w1 w'); auto. eapply inv_step; eauto.
Qed.

(* at every moment the table is the image of one etcd revision (never a mix) *)
Theorem snapshot_consistent evs w :
  Forall good_event evs -> run rk true init evs = Some w ->
  r_pc (w_router w) <> PcInit ->
  exists rev, (rev <= s_rev (w_store w))%nat /\
    map_equiv (r_routes (w_router w)) (project rk (kv_at (w_store w) rev)).
Proof.
  intros G R P. destruct (inv_run evs init w inv_init G R) as [_ I].
  destruct (I P) as [H1 [H2 _]]. exists (r_rev (w_router w)). split; assumption.
Qed.

(* convergence *)
Theorem converges evs w :
  Forall good_event evs -> run rk true init evs = Some w -> quiescent w ->
  map_equiv (r_routes (w_router w)) (etcd_routes rk w).
Proof.
  intros G R [P Q]. destruct (inv_run evs init w inv_init G R) as [_ I].
  destruct I as [H1 [H2 H3]]; [congruence|]. specialize (H3 P).
  unfold etcd_routes. intros k. rewrite H1. f_equal. f_equal.
  unfold kv_at, kv_now. rewrite <- H3.
  rewrite <- (firstn_skipn (r_seen (w_router w)) (s_log (w_store w))) at 2.
  rewrite replay_app. symmetry. apply replay_empties. exact Q.
Qed.

End Generic.

(* ---------- the two key translations ---------- *)

Lemma rk_group_inj k k' r : rk_group k = Some r -> rk_group k' = Some r -> k = k'.
Proof. destruct k, k'; cbn; congruence. Qed.

Lemma split_last_spec sep l a b : split_last sep l = Some (a, b) -> l = a ++ sep :: b.
Proof.
  revert a b; induction l as [|x l IH]; intros a b H; cbn in H; [discriminate|].
  destruct (split_last sep l) as [[a' b']|] eqn:E.
  - inversion H; subst. cbn. f_equal. now apply IH.
  - destruct (x =? sep) eqn:X; [|discriminate]. inversion H; subst.
    apply Z.eqb_eq in X. subst. reflexivity.
Qed.

Lemma split_last_no_sep sep l a b : split_last sep l = Some (a, b) -> ~ In sep b.
Proof.
  revert a b; induction l as [|x l IH]; intros a b H; cbn in H; [discriminate|].
  destruct (split_last sep l) as [[a' b']|] eqn:E.
  - inversion H; subst. eapply IH; eauto.
  - destruct (x =? sep) eqn:X; [|discriminate]. inversion H; subst. clear H IH X.
    induction b as [|y b IHb]; [intros []|].
    cbn in E. destruct (split_last sep b) as [[? ?]|]; [discriminate|].
    destruct (y =? sep) eqn:Y; [discriminate|].
    intros [->|Hin]; [rewrite Z.eqb_refl in Y; discriminate|]. now apply IHb.
Qed.

(* canonical partition lease key: "topic/<decimal of the number it parses to>" — what
   partitionLeaseKey (fmt "%s/%s/%d") writes *)
Definition canonicalb (k : bytes) : bool :=
  match split_last slash k with
  | Some (t, ps) => match parse_int32 ps with Some p => bytes_eqb ps (dec p) | None => false end
  | None => false
  end.

Definition canonical (k : bytes) : Prop := canonicalb k = true.

Lemma rk_part_inj k k' r :
  canonical k -> canonical k' -> rk_part k = Some r -> rk_part k' = Some r -> k = k'.
Proof.
  unfold canonical, canonicalb, rk_part. intros C C' R R'.
  destruct (split_last slash k) as [[t ps]|] eqn:S; [|discriminate].
  destruct (split_last slash k') as [[t' ps']|] eqn:S'; [|discriminate].
  destruct (parse_int32 ps) as [p|] eqn:P; [|discriminate].
  destruct (parse_int32 ps') as [p'|] eqn:P'; [|discriminate].
  apply bytes_eqb_eq in C, C'.
  apply split_last_spec in S, S'. subst k k'.
  destruct t as [|t0 t]; [discriminate|]. destruct ps as [|c ps]; [discriminate|].
  destruct t' as [|t0' t']; [discriminate|]. destruct ps' as [|c' ps']; [discriminate|].
  inversion R; inversion R'; subst r. clear R R'.
  assert ((t0' :: t') = (t0 :: t) /\ dec p' = dec p) as [Et Ed].
  { apply (split_last_sep colon); auto; apply dec_no_sep; apply colon_not_dec. }
  apply dec_inj in Ed. subst p'. rewrite Et, C, C'. reflexivity.
Qed.
