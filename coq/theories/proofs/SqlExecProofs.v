(* Proofs about model/SqlExec.v: pruning soundness, characterisation of the record
   loop (LIMIT / TAIL / ORDER BY), soundness of the statistics discovery attaches. *)
From Coq Require Import Permutation ZifyBool.
From KS Require Import lib.Base model.SqlExec.
Open Scope Z_scope.

(* ---------- pruning ---------- *)

Lemma range_prune_sound smin smax qmin qmax v :
  range_matches smin smax qmin qmax = false ->
  opt_le smin v -> opt_ge smax v ->
  ge_opt v qmin && le_opt v qmax = false.
Proof.
  unfold range_matches, opt_le, opt_ge, ge_opt, le_opt, is_none.
  destruct smin, smax, qmin, qmax; cbn; intros H H1 H2; try discriminate;
    repeat match goal with
           | H : context [if ?c then _ else _] |- _ => destruct c eqn:?
           end; try discriminate; lia.
Qed.

Lemma filter_none {A} (f : A -> bool) l : (forall x, In x l -> f x = false) -> filter f l = [].
Proof.
  induction l as [|a l IH]; cbn; intros H; [reflexivity|].
  rewrite (H a (or_introl eq_refl)). apply IH. intros x Hx. apply H. now right.
Qed.

Lemma seg_pruned_no_rows q sg :
  stats_sound sg -> seg_selected q sg = true -> seg_kept q sg = false -> seg_rows q sg = [].
Proof.
  intros Hs Hsel Hk. unfold seg_rows. rewrite filter_none; [reflexivity|].
  intros r Hr. destruct (Hs r Hr) as (A & B & C & D).
  unfold seg_kept in Hk. rewrite Hsel in Hk. cbn [andb] in Hk.
  unfold rec_matches.
  destruct (range_matches (g_min_off sg) (g_max_off sg) (q_omin q) (q_omax q)) eqn:Eo.
  - cbn [andb] in Hk. pose proof (range_prune_sound _ _ _ _ (r_ts r) Hk C D) as H.
    destruct (ge_opt (r_ts r) (q_tmin q)), (le_opt (r_ts r) (q_tmax q)); cbn in *; try discriminate; reflexivity.
  - pose proof (range_prune_sound _ _ _ _ (r_off r) Eo A B) as H.
    destruct (ge_opt (r_ts r) (q_tmin q)), (le_opt (r_ts r) (q_tmax q)),
             (ge_opt (r_off r) (q_omin q)), (le_opt (r_off r) (q_omax q)); cbn in *; try discriminate; reflexivity.
Qed.

Theorem pruning_sound q segs :
  Forall stats_sound segs -> collected q segs = matching q segs.
Proof.
  unfold collected, matching, filter_segments.
  induction segs as [|sg segs IH]; intros Hall; [reflexivity|].
  inversion Hall as [|? ? Hs Hrest]; subst. cbn [filter].
  destruct (seg_selected q sg) eqn:Esel.
  - destruct (seg_kept q sg) eqn:Ek; cbn [flat_map].
    + now rewrite IH.
    + rewrite (seg_pruned_no_rows q sg Hs Esel Ek). cbn. now apply IH.
  - assert (Ek : seg_kept q sg = false) by (unfold seg_kept; now rewrite Esel).
    rewrite Ek. now apply IH.
Qed.

(* ---------- the loop ---------- *)

Lemma scan_rows_app q : forall a b st,
  scan_rows q st (a ++ b) =
  match scan_rows q st a with inl st' => scan_rows q st' b | inr out => inr out end.
Proof.
  induction a as [|r a IH]; intros b st; cbn; [reflexivity|].
  destruct (scan_row q st r); [apply IH|reflexivity].
Qed.

Lemma scan_segs_flat q : forall segs st,
  scan_segs q st segs = scan_rows q st (flat_map (seg_rows q) segs).
Proof.
  induction segs as [|sg segs IH]; intros st; cbn; [reflexivity|].
  rewrite scan_rows_app. destruct (scan_rows q st (seg_rows q sg)); [apply IH|reflexivity].
Qed.

(* plain mode: the first [eff_limit] rows *)
Lemma scan_plain q : q_order q = None -> tail_count q <= 0 ->
  forall rows st, 0 <= sc_sent st < eff_limit q ->
  scan_rows q st rows =
    if zlen rows <? eff_limit q - sc_sent st
    then inl (mkScan (sc_sent st + zlen rows) (sc_out st ++ rows) (sc_tail st) (sc_rows st))
    else inr (sc_out st ++ firstn (Z.to_nat (eff_limit q - sc_sent st)) rows).
Proof.
  intros Ho Ht. induction rows as [|r rows IH]; intros st Hs.
  - cbn [scan_rows]. rewrite zlen_nil.
    destruct (0 <? eff_limit q - sc_sent st) eqn:E; [|lia].
    destruct st; cbn. now rewrite Z.add_0_r, app_nil_r.
  - cbn [scan_rows]. unfold scan_row. rewrite Ho.
    destruct (0 <? tail_count q) eqn:E0; [lia|].
    rewrite zlen_cons. pose proof (zlen_nonneg rows) as Hn.
    destruct (eff_limit q <=? sc_sent st + 1) eqn:E1.
    + destruct (1 + zlen rows <? eff_limit q - sc_sent st) eqn:E2; [lia|].
      assert (Hone : eff_limit q - sc_sent st = 1) by lia. rewrite Hone. reflexivity.
    + rewrite IH by (cbn; lia). cbn [sc_sent sc_out sc_tail sc_rows].
      destruct (zlen rows <? eff_limit q - (sc_sent st + 1)) eqn:E2;
        destruct (1 + zlen rows <? eff_limit q - sc_sent st) eqn:E3; try lia.
      * rewrite <- app_assoc. cbn [app]. f_equal. f_equal. lia.
      * rewrite <- app_assoc. cbn [app]. f_equal. f_equal.
        replace (Z.to_nat (eff_limit q - sc_sent st)) with (S (Z.to_nat (eff_limit q - (sc_sent st + 1)))) by lia.
        reflexivity.
Qed.

Lemma firstn_short {A} (l : list A) n : zlen l <= Z.of_nat n -> firstn n l = l.
Proof. unfold zlen. intros H. apply firstn_all2. lia. Qed.

(* tail mode: the last [tail_count] rows *)
Lemma lastn_step {A} (l : list A) (r : A) (n : nat) : (1 <= n)%nat ->
  (if zlen (lastn n l) <? Z.of_nat n then lastn n l ++ [r] else tl (lastn n l) ++ [r]) = lastn n (l ++ [r]).
Proof.
  intros Hn. unfold lastn, zlen. rewrite skipn_length, app_length. cbn [length].
  destruct (Nat.le_gt_cases n (length l)) as [Hge|Hlt].
  - replace (Z.of_nat (length l - (length l - n)) <? Z.of_nat n) with false by lia.
    replace (length l + 1 - n)%nat with (S (length l - n)) by lia.
    rewrite skipn_app. replace (S (length l - n) - length l)%nat with 0%nat by lia. cbn [skipn].
    f_equal. generalize (length l - n)%nat as k. intros k. revert l Hge.
    clear. intros l _. revert l. induction k as [|k IH]; intros l.
    + destruct l; reflexivity.
    + destruct l as [|a l]; [reflexivity|]. cbn [skipn]. rewrite IH. destruct l; reflexivity.
  - replace (length l - n)%nat with 0%nat by lia. cbn [skipn].
    replace (Z.of_nat (length l - 0) <? Z.of_nat n) with true by lia.
    replace (length l + 1 - n)%nat with 0%nat by lia. reflexivity.
Qed.

Lemma scan_tail q : q_order q = None -> 0 < tail_count q ->
  forall rows pre st, sc_tail st = lastn (Z.to_nat (tail_count q)) pre ->
  scan_rows q st rows =
    inl (mkScan (sc_sent st) (sc_out st) (lastn (Z.to_nat (tail_count q)) (pre ++ rows)) (sc_rows st)).
Proof.
  intros Ho Ht. induction rows as [|r rows IH]; intros pre st Hst.
  - cbn. rewrite app_nil_r, <- Hst. now destruct st.
  - cbn [scan_rows]. unfold scan_row. rewrite Ho.
    destruct (0 <? tail_count q) eqn:E0; [|lia].
    rewrite (IH (pre ++ [r])).
    + cbn [sc_sent sc_out sc_rows]. now rewrite <- app_assoc.
    + cbn [sc_tail]. unfold append_tail. destruct (tail_count q <=? 0) eqn:E1; [lia|].
      rewrite Hst. rewrite <- (lastn_step pre r (Z.to_nat (tail_count q))) by lia.
      rewrite Z2Nat.id by lia. reflexivity.
Qed.

(* order mode: everything is collected *)
Lemma scan_order q desc : q_order q = Some desc ->
  forall rows st, scan_rows q st rows =
    inl (mkScan (sc_sent st) (sc_out st) (sc_tail st) (sc_rows st ++ rows)).
Proof.
  intros Ho. induction rows as [|r rows IH]; intros st.
  - cbn. rewrite app_nil_r. now destruct st.
  - cbn [scan_rows]. unfold scan_row. rewrite Ho. rewrite IH. cbn. now rewrite <- app_assoc.
Qed.

Lemma eff_limit_pos q : 1 <= q_default_limit q -> 1 <= eff_limit q.
Proof.
  intros H. unfold eff_limit.
  destruct (q_tail q), (q_limit q); cbn;
    match goal with |- context [if ?c then _ else _] => destruct c eqn:E end; lia.
Qed.

Theorem select_plain q segs :
  Forall stats_sound segs -> 1 <= q_default_limit q ->
  window_invalid q = false -> q_order q = None -> tail_count q <= 0 ->
  select q segs = Rows (spec_plain q segs).
Proof.
  intros Hs Hd Hw Ho Ht. unfold select, spec_plain. rewrite Hw, Ho.
  rewrite scan_segs_flat. fold (collected q segs). rewrite (pruning_sound q segs Hs).
  pose proof (eff_limit_pos q Hd) as Hl.
  rewrite (scan_plain q Ho Ht) by (cbn; lia). cbn [sc_sent sc_out].
  rewrite Z.sub_0_r. destruct (zlen (matching q segs) <? eff_limit q) eqn:E.
  - cbn [sc_out]. destruct (0 <? tail_count q) eqn:E0; [lia|]. cbn.
    rewrite firstn_short by lia. reflexivity.
  - reflexivity.
Qed.

Lemma lastn_nil {A} n : @lastn A n [] = [].
Proof. unfold lastn. apply skipn_nil. Qed.

Theorem select_tail q segs :
  Forall stats_sound segs -> window_invalid q = false -> q_order q = None -> 0 < tail_count q ->
  select q segs = Rows (spec_tail q segs).
Proof.
  intros Hs Hw Ho Ht. unfold select, spec_tail. rewrite Hw, Ho.
  rewrite scan_segs_flat. fold (collected q segs). rewrite (pruning_sound q segs Hs).
  rewrite (scan_tail q Ho Ht (matching q segs) []) by (cbn [sc_tail]; now rewrite lastn_nil).
  cbn [sc_tail]. destruct (0 <? tail_count q) eqn:E0; [reflexivity|lia].
Qed.

(* ---------- ORDER BY ---------- *)

Lemma insert_perm desc r l : Permutation (insert_row desc r l) (r :: l).
Proof.
  induction l as [|x l IH]; cbn; [reflexivity|].
  destruct (ts_less desc r x); [reflexivity|].
  rewrite IH. apply perm_swap.
Qed.

Lemma sort_perm desc l : Permutation (sort_rows desc l) l.
Proof.
  induction l as [|r l IH]; cbn; [reflexivity|].
  rewrite insert_perm. now constructor.
Qed.

Lemma ts_le_total desc x y : ts_less desc x y = false -> ts_le desc y x.
Proof. unfold ts_less, ts_le. destruct desc; lia. Qed.

Lemma ts_less_le desc x y : ts_less desc x y = true -> ts_le desc x y.
Proof. unfold ts_less, ts_le. destruct desc; lia. Qed.

Lemma ts_le_trans desc x y z : ts_le desc x y -> ts_le desc y z -> ts_le desc x z.
Proof. unfold ts_le. destruct desc; lia. Qed.

Lemma insert_sorted desc r l : ts_sorted desc l -> ts_sorted desc (insert_row desc r l).
Proof.
  induction l as [|x l IH]; cbn; intros Hs; [split; [intros y []|exact I]|].
  destruct Hs as [Hx Hs]. destruct (ts_less desc r x) eqn:E.
  - cbn. split; [|split; assumption].
    intros y [<-|Hy]; [now apply ts_less_le|].
    eapply ts_le_trans; [apply ts_less_le; exact E|now apply Hx].
  - cbn. split; [|now apply IH].
    intros y Hy. apply (Permutation_in _ (insert_perm desc r l)) in Hy.
    destruct Hy as [<-|Hy]; [now apply ts_le_total|now apply Hx].
Qed.

Lemma sort_sorted desc l : ts_sorted desc (sort_rows desc l).
Proof. induction l as [|r l IH]; cbn; [exact I|now apply insert_sorted]. Qed.

Theorem select_order q segs desc :
  Forall stats_sound segs -> window_invalid q = false -> q_order q = Some desc -> tail_count q <= 0 ->
  exists out, select q segs = Rows out /\ order_result desc (eff_limit q) (matching q segs) out.
Proof.
  intros Hs Hw Ho Ht. unfold select. rewrite Hw, Ho.
  destruct (0 <? tail_count q) eqn:E0; [lia|].
  rewrite scan_segs_flat. fold (collected q segs). rewrite (pruning_sound q segs Hs).
  rewrite (scan_order q desc Ho). cbn [sc_rows app].
  eexists. split; [reflexivity|].
  exists (sort_rows desc (matching q segs)). split; [apply sort_perm|]. split; [apply sort_sorted|reflexivity].
Qed.

Lemma ts_sorted_app desc a b :
  ts_sorted desc (a ++ b) -> ts_sorted desc a /\ forall x y, In x a -> In y b -> ts_le desc x y.
Proof.
  induction a as [|h a IH]; cbn; intros Hs; [split; [exact I|intros x y []]|].
  destruct Hs as [Hh Hs]. destruct (IH Hs) as [Ha Hab]. split.
  - split; [|exact Ha]. intros y Hy. apply Hh. apply in_or_app. now left.
  - intros x y [<-|Hx] Hy; [apply Hh; apply in_or_app; now right|now apply Hab].
Qed.

(* any ORDER BY result is sorted, consists of rows of the input, and the rows left out
   do not come before any returned row *)
Theorem order_result_minimal desc limit rows out :
  order_result desc limit rows out ->
  exists rest, Permutation (out ++ rest) rows /\ ts_sorted desc out /\
               (forall o r, In o out -> In r rest -> ts_le desc o r) /\
               (zlen out = if (0 <? limit) && (limit <? zlen rows) then limit else zlen rows).
Proof.
  intros (s & Hp & Hs & ->). unfold truncate.
  assert (Hlen : zlen s = zlen rows) by (unfold zlen; now rewrite (Permutation_length Hp)).
  rewrite <- Hlen.
  destruct ((0 <? limit) && (limit <? zlen s)) eqn:E.
  - exists (skipn (Z.to_nat limit) s). rewrite firstn_skipn. split; [exact Hp|].
    rewrite <- (firstn_skipn (Z.to_nat limit) s) in Hs. destruct (ts_sorted_app _ _ _ Hs) as [A B].
    split; [exact A|]. split; [exact B|].
    unfold zlen in *. rewrite firstn_length. lia.
  - exists []. rewrite app_nil_r. split; [exact Hp|]. split; [exact Hs|]. split; [intros o r _ []|reflexivity].
Qed.

(* ---------- discovery ---------- *)

Lemma discover_one_sound w rest :
  (forall r, In r (w_recs w) -> w_base w <= r_off r /\
             match next_base w rest with Some nb => r_off r < nb | None => True end) ->
  footer_sound w -> stats_sound (discover_one w rest).
Proof.
  intros Hc Hf r Hr. cbn [discover_one g_recs g_min_off g_max_off g_min_ts g_max_ts] in *.
  destruct (Hc r Hr) as [Hb Hn]. unfold footer_sound in Hf.
  destruct (w_footer w) as [[[[mint maxt] mino] maxo]|].
  - destruct (Hf r Hr) as [Ht Ho]. cbn.
    destruct (next_base w rest) as [nb|]; [destruct (0 <? nb) eqn:E|]; cbn; repeat split; lia.
  - cbn. destruct (next_base w rest) as [nb|]; [destruct (0 <? nb) eqn:E|]; cbn; repeat split; lia.
Qed.

Theorem discovery_stats_sound ws :
  contiguous ws -> Forall footer_sound ws -> Forall stats_sound (discover ws).
Proof.
  induction ws as [|w rest IH]; cbn [discover contiguous]; intros Hc Hf; [constructor|].
  destruct Hc as [Hw Hc]. inversion Hf; subst. constructor.
  - now apply discover_one_sound.
  - now apply IH.
Qed.

(* ---------- discovery cache ---------- *)

Lemma cache_call_inv enabled max_entries st expired fresh :
  st = None \/ st = Some fresh ->
  fst (cache_call enabled max_entries st expired fresh) = fresh /\
  (snd (cache_call enabled max_entries st expired fresh) = None \/
   snd (cache_call enabled max_entries st expired fresh) = Some fresh).
Proof.
  intros Hst. unfold cache_call. destruct enabled; cbn [negb]; [|split; [reflexivity|exact Hst]].
  destruct Hst as [->| ->].
  - cbn. split; [reflexivity|]. destruct ((0 <? max_entries) && (max_entries <? zlen fresh)); auto.
  - destruct fresh as [|x l].
    + cbn. split; [reflexivity|].
      match goal with |- context [if ?c then _ else _] => destruct c end; auto.
    + destruct expired; cbn [fst snd].
      * split; [reflexivity|]. destruct ((0 <? max_entries) && (max_entries <? zlen (x :: l))); auto.
      * split; [reflexivity|]. now right.
Qed.

(* over an unchanged bucket every call returns the wrapped lister's listing, whatever the
   pattern of hits, misses and expiries *)
Theorem cache_transparent enabled max_entries fresh : forall calls st,
  st = None \/ st = Some fresh ->
  Forall (fun l => l = fresh) (cache_calls enabled max_entries st fresh calls).
Proof.
  induction calls as [|e calls IH]; intros st Hst; cbn [cache_calls]; [constructor|].
  destruct (cache_call_inv enabled max_entries st e fresh Hst) as [H1 H2].
  destruct (cache_call enabled max_entries st e fresh) as [l st'] eqn:E. cbn [fst snd] in *.
  constructor; [exact H1|]. now apply IH.
Qed.

(* ---------- the time index builder ---------- *)

Definition bounds (acc : Z * Z * Z * Z) (r : rec) : Prop :=
  let '(mint, maxt, mino, maxo) := acc in
  mint <= r_ts r <= maxt /\ mino <= r_off r <= maxo.

Definition widens (a b : Z * Z * Z * Z) : Prop :=
  let '(mint, maxt, mino, maxo) := a in
  let '(mint', maxt', mino', maxo') := b in
  mint' <= mint /\ maxt <= maxt' /\ mino' <= mino /\ maxo <= maxo'.

Lemma scan_step_widens acc r : widens acc (scan_step acc r) /\ bounds (scan_step acc r) r.
Proof.
  destruct acc as [[[mint maxt] mino] maxo]. unfold scan_step, widens, bounds.
  destruct (r_ts r <? mint) eqn:E1, (maxt <? r_ts r) eqn:E2,
           (r_off r <? mino) eqn:E3, (maxo <? r_off r) eqn:E4; lia.
Qed.

Lemma widens_trans a b c : widens a b -> widens b c -> widens a c.
Proof.
  destruct a as [[[? ?] ?] ?], b as [[[? ?] ?] ?], c as [[[? ?] ?] ?]. unfold widens. lia.
Qed.

Lemma widens_bounds a b r : widens a b -> bounds a r -> bounds b r.
Proof.
  destruct a as [[[? ?] ?] ?], b as [[[? ?] ?] ?]. unfold widens, bounds. lia.
Qed.

Lemma scan_fold recs : forall acc,
  widens acc (fold_left scan_step recs acc) /\
  forall r, In r recs -> bounds (fold_left scan_step recs acc) r.
Proof.
  induction recs as [|x recs IH]; intros acc; cbn [fold_left].
  - split; [destruct acc as [[[? ?] ?] ?]; unfold widens; lia|intros r []].
  - destruct (scan_step_widens acc x) as [Hw Hb]. destruct (IH (scan_step acc x)) as [Hw' Hb'].
    split; [eapply widens_trans; eauto|].
    intros r [<-|Hr]; [eapply widens_bounds; eauto|now apply Hb'].
Qed.

(* a footer written by the builder bounds the records it was built from *)
Theorem scan_segment_sound w :
  w_footer w = scan_segment (w_recs w) -> footer_sound w.
Proof.
  intros Hf. unfold footer_sound. rewrite Hf. unfold scan_segment.
  destruct (w_recs w) as [|r0 rest] eqn:Er; [exact I|].
  destruct (scan_fold rest (r_ts r0, r_ts r0, r_off r0, r_off r0)) as [Hw Hb].
  destruct (fold_left scan_step rest (r_ts r0, r_ts r0, r_off r0, r_off r0)) as [[[mint maxt] mino] maxo] eqn:E.
  intros r [<-|Hr].
  - unfold widens in Hw. lia.
  - specialize (Hb r Hr). unfold bounds in Hb. exact Hb.
Qed.

Theorem discovery_stats_sound_built ws :
  contiguous ws ->
  Forall (fun w => w_footer w = None \/ w_footer w = scan_segment (w_recs w)) ws ->
  Forall stats_sound (discover ws).
Proof.
  intros Hc Hf. apply discovery_stats_sound; [exact Hc|].
  rewrite Forall_forall in *. intros w Hw. destruct (Hf w Hw) as [Hn|Hs].
  - unfold footer_sound. now rewrite Hn.
  - now apply scan_segment_sound.
Qed.
