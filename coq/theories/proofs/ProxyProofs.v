(* Proofs about model/Proxy.v.  Part A: C28 (metadata replies). *)
From KS Require Import lib.Base model.Proxy.
Open Scope Z_scope.

(* ------------------------------------------------------------------ *)
(* Part A: C28                                                         *)
(* ------------------------------------------------------------------ *)

(* -- specification predicates -- *)
Definition all_zero (l : list Z) : Prop := Forall (fun x => x = 0) l.

Definition part_only_proxy (p : mpart) : Prop :=
  mp_leader p = 0 /\ all_zero (mp_replicas p) /\ all_zero (mp_isr p) /\ all_zero (mp_offline p).

(* every broker entry is the proxy (node 0, advertised host/port); the controller is
   node 0 or absent (-1); every partition leader / replica / ISR / offline-replica id
   is node 0 *)
Definition only_proxy (host : bytes) (port : Z) (c : cluster) : Prop :=
  Forall (fun b => b = mkMBroker 0 host port) (cl_brokers c) /\
  (cl_controller c = 0 \/ cl_controller c = -1) /\
  Forall (fun t => Forall part_only_proxy (mt_parts t)) (cl_topics c).

(* a coordinator reply names the proxy, or names nobody and carries an error *)
Definition coord_only_proxy (host : bytes) (port : Z) (co : coord) : Prop :=
  (co_node co = 0 /\ co_host co = host /\ co_port co = port) \/
  (co_node co = -1 /\ co_err co <> 0 /\ co_host co = [] /\ co_port co = 0).

(* the topology of a topic entry: name, id, error code, and per partition
   (partition id, error code, leader epoch) *)
Definition topo (t : mtopic) : Z * option bytes * bytes * list (Z * Z * Z) :=
  (mt_err t, mt_name t, mt_id t, map (fun p => (mp_id p, mp_err p, mp_epoch p)) (mt_parts t)).

Definition req_all (r : mreq) : Prop := mr_all r = true.

Definition req_by_name (r : mreq) : Prop :=
  mr_all r = false /\ mr_topics r <> [] /\
  Forall (fun t : option bytes * bytes => is_zero_id (snd t) = true /\ fst t <> None) (mr_topics r).

Definition req_by_id (r : mreq) : Prop :=
  mr_all r = false /\ mr_topics r <> [] /\
  Forall (fun t : option bytes * bytes => is_zero_id (snd t) = false) (mr_topics r).

Definition req_name (t : option bytes * bytes) : bytes :=
  match fst t with Some n => n | None => [] end.

Definition name_answer (c : cluster) (n : bytes) (rt : mtopic) : Prop :=
  (exists ct, In ct (cl_topics c) /\ mt_name ct = Some n /\ topo rt = topo ct) \/
  ((forall ct, In ct (cl_topics c) -> mt_name ct <> Some n) /\
   topo rt = (ERR_UNKNOWN_TOPIC_OR_PARTITION, Some n, zero_id, [])).

Definition id_answer (c : cluster) (id : bytes) (rt : mtopic) : Prop :=
  (exists ct, In ct (cl_topics c) /\ mt_id ct = id /\ topo rt = topo ct) \/
  ((forall ct, In ct (cl_topics c) -> mt_id ct <> id) /\
   topo rt = (ERR_UNKNOWN_TOPIC_ID, None, id, [])).

(* -- only the proxy is named -- *)
Lemma rewrite_part_only_proxy p : part_only_proxy (rewrite_part p).
Proof.
  unfold part_only_proxy, rewrite_part, all_zero; cbn. repeat split; repeat constructor.
Qed.

Lemma build_response_only_proxy m host port : only_proxy host port (build_response m host port).
Proof.
  unfold only_proxy, build_response, build_response_with; cbn [cl_brokers cl_controller cl_topics].
  split; [repeat constructor|]. split; [now left|].
  apply Forall_forall. intros t Ht. apply in_map_iff in Ht as [t0 [<- _]].
  unfold rewrite_topic; cbn [mt_parts]. apply Forall_forall. intros p Hp.
  apply in_map_iff in Hp as [p0 [<- _]]. apply rewrite_part_only_proxy.
Qed.

Lemma metadata_only_proxy c r host port : only_proxy host port (handle_metadata c r host port).
Proof. apply build_response_only_proxy. Qed.

Lemma not_ready_only_proxy r host port : only_proxy host port (not_ready_metadata r).
Proof.
  unfold only_proxy, not_ready_metadata; cbn [cl_brokers cl_controller cl_topics].
  split; [constructor|]. split; [now right|].
  apply Forall_forall. intros t Ht. apply in_map_iff in Ht as [t0 [<- _]]. cbn. constructor.
Qed.

(* what a client decodes at any version still names only the proxy *)
Lemma wire_only_proxy v host port c : only_proxy host port c -> only_proxy host port (wire_cluster v c).
Proof.
  unfold only_proxy, wire_cluster; cbn [cl_brokers cl_controller cl_topics].
  intros [Hb [Hc Ht]]. split; [exact Hb|]. split.
  - destruct (v <? 1); [now right|exact Hc].
  - apply Forall_forall. intros t Hin. apply in_map_iff in Hin as [t0 [<- Hin]].
    rewrite Forall_forall in Ht. specialize (Ht _ Hin).
    unfold wire_topic; cbn [mt_parts]. apply Forall_forall. intros p Hp.
    apply in_map_iff in Hp as [p0 [<- Hp]]. rewrite Forall_forall in Ht. specialize (Ht _ Hp).
    destruct Ht as [H1 [H2 [H3 H4]]]. unfold part_only_proxy, wire_part; cbn.
    repeat split; try assumption. destruct (v <? 5); [constructor|assumption].
Qed.

Lemma coordinator_only_proxy host port :
  coord_only_proxy host port (handle_find_coordinator host port) /\
  coord_only_proxy host port not_ready_coordinator.
Proof.
  split; [left; cbn; auto|right; cbn; repeat split; discriminate].
Qed.

(* the unfixed builder leaks the real leader: witness used by the harness corpus *)
Definition leak_cluster : cluster :=
  mkCluster [mkMBroker 3 [98] 9092] 3
    [mkMTopic 5 (Some [116]) [1;0;0;0;0;0;0;0;0;0;0;0;0;0;0;0] false
       [mkMPart 0 0 3 7 [3;4] [3] []]] None.

Lemma unfixed_leaks :
  ~ only_proxy [112] 9092 (handle_metadata_unfixed leak_cluster (mkMReq true []) [112] 9092).
Proof.
  unfold only_proxy. intros [_ [_ H]]. vm_compute in H.
  inversion H as [|? ? H1 _]; subst. inversion H1 as [|? ? H2 _]; subst.
  destruct H2 as [H2 _]. cbn in H2. discriminate.
Qed.

(* -- topology kept -- *)
Lemma topo_rewrite t : topo (rewrite_topic t) = topo t.
Proof.
  unfold topo, rewrite_topic; cbn [mt_err mt_name mt_id mt_parts]. f_equal.
  rewrite map_map. apply map_ext. intros p. reflexivity.
Qed.

Lemma topo_all c r host port :
  req_all r -> map topo (cl_topics (handle_metadata c r host port)) = map topo (cl_topics c).
Proof.
  unfold req_all, handle_metadata, load_metadata. intros ->. cbn.
  rewrite map_map. apply map_ext. intros t. apply topo_rewrite.
Qed.

Lemma find_last_some {A} (f : A -> bool) l x : find_last f l = Some x -> In x l /\ f x = true.
Proof.
  induction l as [|y l IH]; cbn; [discriminate|].
  destruct (find_last f l) as [z|] eqn:E.
  - intros H; inversion H; subst. destruct (IH eq_refl) as [H1 H2]. split; [now right|exact H2].
  - destruct (f y) eqn:Fy; [|discriminate]. intros H; inversion H; subst. split; [now left|exact Fy].
Qed.

Lemma find_last_none {A} (f : A -> bool) l : find_last f l = None -> forall x, In x l -> f x = false.
Proof.
  induction l as [|y l IH]; cbn; [intros _ x []|].
  destruct (find_last f l) as [z|] eqn:E; [discriminate|].
  destruct (f y) eqn:Fy; [discriminate|]. intros _ x [<-|Hx]; [exact Fy|now apply IH].
Qed.

Lemma name_eqb_true a n : name_eqb a n = true <-> a = Some n.
Proof.
  destruct a as [x|]; cbn; [|split; discriminate].
  rewrite bytes_eqb_eq. split; [now intros ->|now intros [= ->]].
Qed.

Lemma scan_names_by_name ts acc :
  Forall (fun t : option bytes * bytes => is_zero_id (snd t) = true /\ fst t <> None) ts ->
  scan_names ts acc = (false, acc ++ map req_name ts).
Proof.
  revert acc; induction ts as [|[n id] ts IH]; intros acc H; cbn [scan_names map].
  - now rewrite app_nil_r.
  - inversion H as [|? ? [Hz Hn] Hr]; subst. cbn [fst snd] in Hz, Hn. rewrite Hz. cbn [negb].
    destruct n as [x|]; [|congruence]. rewrite IH by assumption.
    unfold req_name at 2; cbn [fst]. now rewrite <- app_assoc.
Qed.

Lemma topo_by_name c r host port :
  req_by_name r ->
  Forall2 (name_answer c) (map req_name (mr_topics r)) (cl_topics (handle_metadata c r host port)).
Proof.
  intros [Hall [Hne Hf]]. unfold handle_metadata, load_metadata. rewrite Hall.
  rewrite scan_names_by_name by assumption. cbn [app].
  destruct (map req_name (mr_topics r)) as [|n0 ns] eqn:En.
  { destruct (mr_topics r); [congruence|discriminate]. }
  unfold store_metadata. cbn [build_response build_response_with cl_topics].
  unfold build_response, build_response_with; cbn [cl_topics].
  generalize (n0 :: ns). intros names. unfold filter_topics. rewrite map_map.
  induction names as [|n names IH]; cbn [map]; constructor; [|exact IH].
  destruct (find_last (fun t => name_eqb (mt_name t) n) (cl_topics c)) as [ct|] eqn:E.
  - left. apply find_last_some in E as [Hin Hn]. apply name_eqb_true in Hn.
    exists ct. repeat split; try assumption. apply topo_rewrite.
  - right. split.
    + intros ct Hin Hn. pose proof (find_last_none _ _ E ct Hin) as Hf'. cbn in Hf'.
      apply name_eqb_true in Hn. congruence.
    + reflexivity.
Qed.

Lemma scan_names_by_id ts acc :
  ts <> [] -> Forall (fun t : option bytes * bytes => is_zero_id (snd t) = false) ts ->
  fst (scan_names ts acc) = true.
Proof.
  destruct ts as [|[n id] ts]; [congruence|]. intros _ H. inversion H as [|? ? Hz _]; subst.
  cbn [snd] in Hz. cbn [scan_names]. now rewrite Hz.
Qed.

Lemma topo_by_id c r host port :
  req_by_id r ->
  Forall2 (id_answer c) (map snd (mr_topics r)) (cl_topics (handle_metadata c r host port)).
Proof.
  intros [Hall [Hne Hf]]. unfold handle_metadata, load_metadata. rewrite Hall.
  pose proof (scan_names_by_id (mr_topics r) [] Hne Hf) as Hs.
  destruct (scan_names (mr_topics r) []) as [u names]. cbn in Hs. subst u.
  unfold build_response, build_response_with; cbn [cl_topics]. clear Hne Hall.
  induction (mr_topics r) as [|[n id] ts IH]; cbn [filter_ids flat_map map snd]; [constructor|].
  inversion Hf as [|? ? Hz Hr]; subst. cbn [snd] in Hz. rewrite Hz.
  destruct (find_last (fun ct => bytes_eqb (mt_id ct) id) (cl_topics c)) as [ct|] eqn:E;
    cbn [app map].
  - constructor; [|now apply IH]. left. apply find_last_some in E as [Hin He].
    apply bytes_eqb_eq in He. exists ct. repeat split; try assumption. apply topo_rewrite.
  - constructor; [|now apply IH]. right. split; [|reflexivity].
    intros ct Hin He. pose proof (find_last_none _ _ E ct Hin) as Hf'. cbn in Hf'.
    apply bytes_eqb_neq in Hf'. contradiction.
Qed.

(* not-ready metadata replies keep the requested names / ids and invent no partitions *)
Lemma not_ready_topics r :
  map (fun t => (mt_name t, mt_id t, mt_parts t)) (cl_topics (not_ready_metadata r)) =
  map (fun t : option bytes * bytes => (fst t, snd t, [])) (if mr_all r then [] else mr_topics r).
Proof. unfold not_ready_metadata; cbn. rewrite map_map. reflexivity. Qed.
