(* Proofs about model/Proxy.v.  Part A: C28 (metadata replies). *)
From KS Require Import lib.Base model.Proxy.
Open Scope Z_scope.

(* ------------------------------------------------------------------ *)
(* Part A: C28                                                         *)
(* ------------------------------------------------------------------ *)

(* -- specification predicates -- *)
Definition all_zero (l : list Z) : Prop := Forall (fun x => x = 0) l.

Definition part_only_proxy (p : mpart) : Prop :=
  mp_leader p = 0 /\ all_zero (mp_replicas p) /\ all_zero (mp_isr p) /\ all_zero (mp_offline p).

(* every broker entry is the proxy (node 0, advertised host/port); the controller is
   node 0 or absent (-1); every partition leader / replica / ISR / offline-replica id
   is node 0 *)
Definition only_proxy (host : bytes) (port : Z) (c : cluster) : Prop :=
  Forall (fun b => b = mkMBroker 0 host port) (cl_brokers c) /\
  (cl_controller c = 0 \/ cl_controller c = -1) /\
  Forall (fun t => Forall part_only_proxy (mt_parts t)) (cl_topics c).

(* a coordinator reply names the proxy, or names nobody and carries an error *)
Definition coord_only_proxy (host : bytes) (port : Z) (co : coord) : Prop :=
  (co_node co = 0 /\ co_host co = host /\ co_port co = port) \/
  (co_node co = -1 /\ co_err co <> 0 /\ co_host co = [] /\ co_port co = 0).

(* the topology of a topic entry: name, id, error code, and per partition
   (partition id, error code, leader epoch) *)
Definition topo (t : mtopic) : Z * option bytes * bytes * list (Z * Z * Z) :=
  (mt_err t, mt_name t, mt_id t, map (fun p => (mp_id p, mp_err p, mp_epoch p)) (mt_parts t)).

Definition req_all (r : mreq) : Prop := mr_all r = true.

Definition req_by_name (r : mreq) : Prop :=
  mr_all r = false /\ mr_topics r <> [] /\
  Forall (fun t : option bytes * bytes => is_zero_id (snd t) = true /\ fst t <> None) (mr_topics r).

Definition req_by_id (r : mreq) : Prop :=
  mr_all r = false /\ mr_topics r <> [] /\
  Forall (fun t : option bytes * bytes => is_zero_id (snd t) = false) (mr_topics r).

Definition req_name (t : option bytes * bytes) : bytes :=
  match fst t with Some n => n | None => [] end.

Definition name_answer (c : cluster) (n : bytes) (rt : mtopic) : Prop :=
  (exists ct, In ct (cl_topics c) /\ mt_name ct = Some n /\ topo rt = topo ct) \/
  ((forall ct, In ct (cl_topics c) -> mt_name ct <> Some n) /\
   topo rt = (ERR_UNKNOWN_TOPIC_OR_PARTITION, Some n, zero_id, [])).

Definition id_answer (c : cluster) (id : bytes) (rt : mtopic) : Prop :=
  (exists ct, In ct (cl_topics c) /\ mt_id ct = id /\ topo rt = topo ct) \/
  ((forall ct, In ct (cl_topics c) -> mt_id ct <> id) /\
   topo rt = (ERR_UNKNOWN_TOPIC_ID, None, id, [])).

(* -- only the proxy is named -- *)
Lemma rewrite_part_only_proxy p : part_only_proxy (rewrite_part p).
Proof.
  unfold part_only_proxy, rewrite_part, all_zero; cbn. repeat split; repeat constructor.
Qed.

Lemma build_response_only_proxy m host port : only_proxy host port (build_response m host port).
Proof.
  unfold only_proxy, build_response, build_response_with; cbn [cl_brokers cl_controller cl_topics].
  split; [repeat constructor|]. split; [now left|].
  apply Forall_forall. intros t Ht. apply in_map_iff in Ht as [t0 [<- _]].
  unfold rewrite_topic; cbn [mt_parts]. apply Forall_forall. intros p Hp.
  apply in_map_iff in Hp as [p0 [<- _]]. apply rewrite_part_only_proxy.
Qed.

Lemma metadata_only_proxy c r host port : only_proxy host port (handle_metadata c r host port).
Proof. apply build_response_only_proxy. Qed.

Lemma not_ready_only_proxy r host port : only_proxy host port (not_ready_metadata r).
Proof.
  unfold only_proxy, not_ready_metadata; cbn [cl_brokers cl_controller cl_topics].
  split; [constructor|]. split; [now right|].
  apply Forall_forall. intros t Ht. apply in_map_iff in Ht as [t0 [<- _]]. cbn. constructor.
Qed.

(* what a client decodes at any version still names only the proxy *)
Lemma wire_only_proxy v host port c : only_proxy host port c -> only_proxy host port (wire_cluster v c).
Proof.
  unfold only_proxy, wire_cluster; cbn [cl_brokers cl_controller cl_topics].
  intros [Hb [Hc Ht]]. split; [exact Hb|]. split.
  - destruct (v <? 1); [now right|exact Hc].
  - apply Forall_forall. intros t Hin. apply in_map_iff in Hin as [t0 [<- Hin]].
    rewrite Forall_forall in Ht. specialize (Ht _ Hin).
    unfold wire_topic; cbn [mt_parts]. apply Forall_forall. intros p Hp.
    apply in_map_iff in Hp as [p0 [<- Hp]]. rewrite Forall_forall in Ht. specialize (Ht _ Hp).
    destruct Ht as [H1 [H2 [H3 H4]]]. unfold part_only_proxy, wire_part; cbn.
    repeat split; try assumption. destruct (v <? 5); [constructor|assumption].
Qed.

Lemma conn_metadata_only_proxy ok c r host port v :
  match conn_metadata ok c r host port with
  | Some resp => only_proxy host port resp /\ only_proxy host port (wire_cluster v resp)
  | None => True
  end.
Proof.
  unfold conn_metadata. destruct ok; [|exact I].
  split; [apply metadata_only_proxy|apply wire_only_proxy, metadata_only_proxy].
Qed.

Lemma coordinator_only_proxy host port :
  coord_only_proxy host port (handle_find_coordinator host port) /\
  coord_only_proxy host port not_ready_coordinator.
Proof.
  split; [left; cbn; auto|right; cbn; repeat split; discriminate].
Qed.

(* the unfixed builder leaks the real leader: witness used by the harness corpus *)
Definition leak_cluster : cluster :=
  mkCluster [mkMBroker 3 [98] 9092] 3
    [mkMTopic 5 (Some [116]) [1;0;0;0;0;0;0;0;0;0;0;0;0;0;0;0] false
       [mkMPart 0 0 3 7 [3;4] [3] []]] None.

Lemma unfixed_leaks :
  ~ only_proxy [112] 9092 (handle_metadata_unfixed leak_cluster (mkMReq true []) [112] 9092).
Proof.
  unfold only_proxy. intros [_ [_ H]]. vm_compute in H.
  inversion H as [|? ? H1 _]; subst. inversion H1 as [|? ? H2 _]; subst.
  destruct H2 as [H2 _]. cbn in H2. discriminate.
Qed.

(* -- topology kept -- *)
Lemma topo_rewrite t : topo (rewrite_topic t) = topo t.
Proof.
  unfold topo, rewrite_topic; cbn [mt_err mt_name mt_id mt_parts]. f_equal.
  rewrite map_map. apply map_ext. intros p. reflexivity.
Qed.

Lemma topo_all c r host port :
  req_all r -> map topo (cl_topics (handle_metadata c r host port)) = map topo (cl_topics c).
Proof.
  unfold req_all, handle_metadata, load_metadata. intros ->. cbn.
  rewrite map_map. apply map_ext. intros t. apply topo_rewrite.
Qed.

Lemma find_last_some {A} (f : A -> bool) l x : find_last f l = Some x -> In x l /\ f x = true.
Proof.
  induction l as [|y l IH]; cbn; [discriminate|].
  destruct (find_last f l) as [z|] eqn:E.
  - intros H; inversion H; subst. destruct (IH eq_refl) as [H1 H2]. split; [now right|exact H2].
  - destruct (f y) eqn:Fy; [|discriminate]. intros H; inversion H; subst. split; [now left|exact Fy].
Qed.

Lemma find_last_none {A} (f : A -> bool) l : find_last f l = None -> forall x, In x l -> f x = false.
Proof.
  induction l as [|y l IH]; cbn; [intros _ x []|].
  destruct (find_last f l) as [z|] eqn:E; [discriminate|].
  destruct (f y) eqn:Fy; [discriminate|]. intros _ x [<-|Hx]; [exact Fy|now apply IH].
Qed.

Lemma name_eqb_true a n : name_eqb a n = true <-> a = Some n.
Proof.
  destruct a as [x|]; cbn; [|split; discriminate].
  rewrite bytes_eqb_eq. split; [now intros ->|now intros [= ->]].
Qed.

Lemma scan_names_by_name ts acc :
  Forall (fun t : option bytes * bytes => is_zero_id (snd t) = true /\ fst t <> None) ts ->
  scan_names ts acc = (false, acc ++ map req_name ts).
Proof.
  revert acc; induction ts as [|[n id] ts IH]; intros acc H; cbn [scan_names map].
  - now rewrite app_nil_r.
  - inversion H as [|? ? [Hz Hn] Hr]; subst. cbn [fst snd] in Hz, Hn. rewrite Hz. cbn [negb].
    destruct n as [x|]; [|congruence]. rewrite IH by assumption.
    unfold req_name at 2; cbn [fst]. now rewrite <- app_assoc.
Qed.

Lemma topo_by_name c r host port :
  req_by_name r ->
  Forall2 (name_answer c) (map req_name (mr_topics r)) (cl_topics (handle_metadata c r host port)).
Proof.
  intros [Hall [Hne Hf]]. unfold handle_metadata, load_metadata. rewrite Hall.
  rewrite scan_names_by_name by assumption. cbn [app].
  destruct (map req_name (mr_topics r)) as [|n0 ns] eqn:En.
  { destruct (mr_topics r); [congruence|discriminate]. }
  unfold store_metadata. cbn [build_response build_response_with cl_topics].
  unfold build_response, build_response_with; cbn [cl_topics].
  generalize (n0 :: ns). intros names. unfold filter_topics. rewrite map_map.
  induction names as [|n names IH]; cbn [map]; constructor; [|exact IH].
  destruct (find_last (fun t => name_eqb (mt_name t) n) (cl_topics c)) as [ct|] eqn:E.
  - left. apply find_last_some in E as [Hin Hn]. apply name_eqb_true in Hn.
    exists ct. repeat split; try assumption. apply topo_rewrite.
  - right. split.
    + intros ct Hin Hn. pose proof (find_last_none _ _ E ct Hin) as Hf'. cbn in Hf'.
      apply name_eqb_true in Hn. congruence.
    + reflexivity.
Qed.

Lemma scan_names_by_id ts acc :
  ts <> [] -> Forall (fun t : option bytes * bytes => is_zero_id (snd t) = false) ts ->
  fst (scan_names ts acc) = true.
Proof.
  destruct ts as [|[n id] ts]; [congruence|]. intros _ H. inversion H as [|? ? Hz _]; subst.
  cbn [snd] in Hz. cbn [scan_names]. now rewrite Hz.
Qed.

Lemma topo_by_id c r host port :
  req_by_id r ->
  Forall2 (id_answer c) (map snd (mr_topics r)) (cl_topics (handle_metadata c r host port)).
Proof.
  intros [Hall [Hne Hf]]. unfold handle_metadata, load_metadata. rewrite Hall.
  pose proof (scan_names_by_id (mr_topics r) [] Hne Hf) as Hs.
  destruct (scan_names (mr_topics r) []) as [u names]. cbn in Hs. subst u.
  unfold build_response, build_response_with; cbn [cl_topics]. clear Hne Hall.
  induction (mr_topics r) as [|[n id] ts IH]; cbn [filter_ids flat_map map snd]; [constructor|].
  inversion Hf as [|? ? Hz Hr]; subst. cbn [snd] in Hz. rewrite Hz.
  destruct (find_last (fun ct => bytes_eqb (mt_id ct) id) (cl_topics c)) as [ct|] eqn:E;
    cbn [app map].
  - constructor; [|now apply IH]. left. apply find_last_some in E as [Hin He].
    apply bytes_eqb_eq in He. exists ct. repeat split; try assumption. apply topo_rewrite.
  - constructor; [|now apply IH]. right. split; [|reflexivity].
    intros ct Hin He. pose proof (find_last_none _ _ E ct Hin) as Hf'. cbn in Hf'.
    apply bytes_eqb_neq in Hf'. contradiction.
Qed.

(* not-ready metadata replies keep the requested names / ids and invent no partitions *)
Lemma not_ready_topics r :
  map (fun t => (mt_name t, mt_id t, mt_parts t)) (cl_topics (not_ready_metadata r)) =
  map (fun t : option bytes * bytes => (fst t, snd t, [])) (if mr_all r then [] else mr_topics r).
Proof. unfold not_ready_metadata; cbn. rewrite map_map. reflexivity. Qed.

(* ------------------------------------------------------------------ *)
(* Part B: C27                                                         *)
(* ------------------------------------------------------------------ *)
From Coq Require Import Permutation.

Definition keyp (E : env) (x : topic * Z) : tpk := (key E (fst x), snd x).
Definition rkeyp (E : env) (x : rpart) : tpk := (rkey E (fst (fst x)), snd (fst x)).

(* the (topic key, partition) of every entry of a merged response *)
Definition mkeys (E : env) (m : merged) : list tpk := map (rkeyp E) (merged_ents m).
(* ... of every partition in a list of groups *)
Definition gtps (E : env) (gs : list group) : list tpk := flat_map (fun g => sub_tps E (g_sub g)) gs.
Definition mtopics (m : merged) : list topic := map fst m.
Definition sub_topics (s : subreq) : list topic := map fst s.
Definition gtopics (gs : list group) : list topic := flat_map (fun g => sub_topics (g_sub g)) gs.

Lemma sub_tps_cons E t ps s :
  sub_tps E ((t, ps) :: s) = map (fun p => (key E t, p)) ps ++ sub_tps E s.
Proof.
  unfold sub_tps, flatten. cbn [flat_map fst snd]. rewrite map_app, map_map. reflexivity.
Qed.

Lemma sub_tps_app E s1 s2 : sub_tps E (s1 ++ s2) = sub_tps E s1 ++ sub_tps E s2.
Proof. unfold sub_tps, flatten. now rewrite flat_map_app, map_app. Qed.

Lemma mkeys_cons E e es m :
  mkeys E ((e, es) :: m) = map (fun pc : Z * Z => (rkey E e, fst pc)) es ++ mkeys E m.
Proof.
  unfold mkeys, merged_ents. cbn [flat_map fst snd]. rewrite map_app, map_map. reflexivity.
Qed.

Section Generic.
Variable E : env.
(* [ok] delimits the topic records that occur: those of the request and those of the
   backends' replies.  On them, the merge match (findOrAdd...TopicResponse) must agree
   with the key the proxy files partitions under. *)
Variable ok : topic -> Prop.
Hypothesis Hcompat : forall e q, ok e -> ok q -> (same E e q = true <-> rkey E e = rkey E q).

(* request-side topics: additionally their request key is their reply key *)
Definition okq (t : topic) : Prop := ok t /\ key E t = rkey E t.

(* ---- merging ---- *)
Lemma add_part_perm m q pc :
  Forall ok (mtopics m) -> ok q ->
  Permutation (mkeys E (add_part E m q pc)) ((rkey E q, fst pc) :: mkeys E m) /\
  Forall ok (mtopics (add_part E m q pc)).
Proof.
  intros Hm Hq. induction m as [|[e es] m IH]; cbn [add_part].
  - split; [|repeat constructor; assumption]. rewrite mkeys_cons. cbn. apply Permutation_refl.
  - inversion Hm as [|? ? He Hm']; subst. cbn [fst] in He.
    destruct (same E e q) eqn:Hs.
    + split; [|exact Hm]. rewrite !mkeys_cons, map_app. cbn [map fst].
      apply (Hcompat e q He Hq) in Hs. rewrite Hs. rewrite <- app_assoc. cbn [app].
      apply Permutation_sym, Permutation_middle.
    + destruct (IH Hm') as [IH1 IH2]. split.
      * rewrite !mkeys_cons. eapply perm_trans; [apply Permutation_app_head; exact IH1|].
        apply Permutation_sym, Permutation_middle.
      * constructor; assumption.
Qed.

Lemma ensure_topic_keys m q :
  Forall ok (mtopics m) -> ok q ->
  mkeys E (ensure_topic E m q) = mkeys E m /\ Forall ok (mtopics (ensure_topic E m q)).
Proof.
  intros Hm Hq. induction m as [|[e es] m IH]; cbn [ensure_topic].
  - split; [reflexivity|repeat constructor; assumption].
  - inversion Hm as [|? ? He Hm']; subst. destruct (same E e q); [split; [reflexivity|exact Hm]|].
    destruct (IH Hm') as [IH1 IH2]. split; [now rewrite !mkeys_cons, IH1|constructor; assumption].
Qed.

Lemma add_parts_perm t code ps m :
  Forall ok (mtopics m) -> okq t ->
  let m' := fold_left (fun m p => add_part E m t (p, code)) ps m in
  Permutation (mkeys E m') (mkeys E m ++ map (fun p => (key E t, p)) ps) /\ Forall ok (mtopics m').
Proof.
  intros Hm [Ht Hk]. revert m Hm. induction ps as [|p ps IH]; intros m Hm; cbn [fold_left map].
  - split; [now rewrite app_nil_r|exact Hm].
  - destruct (add_part_perm m t (p, code) Hm Ht) as [H1 H2].
    destruct (IH _ H2) as [H3 H4]. split; [|exact H4].
    eapply perm_trans; [exact H3|]. rewrite Hk.
    eapply perm_trans; [apply Permutation_app_tail; exact H1|]. cbn [fst].
    rewrite <- Hk. cbn [app]. apply Permutation_middle.
Qed.

Lemma add_error_all_perm s code m :
  Forall ok (mtopics m) -> Forall okq (sub_topics s) ->
  Permutation (mkeys E (add_error_all E m s code)) (mkeys E m ++ sub_tps E s) /\
  Forall ok (mtopics (add_error_all E m s code)).
Proof.
  unfold add_error_all. revert m. induction s as [|[t ps] s IH]; intros m Hm Hs; cbn [fold_left].
  - split; [unfold sub_tps; cbn; now rewrite app_nil_r|exact Hm].
  - inversion Hs as [|? ? Ht Hs']; subst. cbn [fst snd] in *.
    destruct (ensure_topic_keys m t Hm (proj1 Ht)) as [H1 H2].
    destruct (add_parts_perm t code ps _ H2 Ht) as [H3 H4]. cbv zeta in H3, H4.
    destruct (IH _ H4 Hs') as [H5 H6]. split; [|exact H6].
    eapply perm_trans; [exact H5|]. rewrite sub_tps_cons, app_assoc.
    apply Permutation_app_tail. rewrite <- H1. exact H3.
Qed.

(* ---- one reply part / one result ---- *)
Definition MF (s : st) : list tpk := mkeys E (s_merged s) ++ s_failed s.

Lemma process_part_perm s x :
  Forall ok (mtopics (s_merged s)) -> ok (fst (fst x)) ->
  Permutation (MF (process_part E s x)) (rkeyp E x :: MF s) /\
  Forall ok (mtopics (s_merged (process_part E s x))).
Proof.
  intros Hm Hx. destruct x as [[t p] code]. unfold process_part, MF, rkeyp. cbn [fst snd] in *.
  destruct (code =? ERR_NOT_LEADER); cbn [s_merged s_failed].
  - split; [|exact Hm]. rewrite app_assoc. apply Permutation_sym, Permutation_cons_append.
  - destruct (add_part_perm (s_merged s) t (p, code) Hm Hx) as [H1 H2]. split; [|exact H2].
    eapply perm_trans; [apply Permutation_app_tail; exact H1|]. reflexivity.
Qed.

Lemma process_parts_perm parts s :
  Forall ok (mtopics (s_merged s)) -> Forall (fun x : rpart => ok (fst (fst x))) parts ->
  Permutation (MF (fold_left (process_part E) parts s)) (map (rkeyp E) parts ++ MF s) /\
  Forall ok (mtopics (s_merged (fold_left (process_part E) parts s))).
Proof.
  revert s. induction parts as [|x parts IH]; intros s Hm Hp; cbn [fold_left map app].
  - split; [reflexivity|exact Hm].
  - inversion Hp as [|? ? Hx Hp']; subst.
    destruct (process_part_perm s x Hm Hx) as [H1 H2]. destruct (IH _ H2 Hp') as [H3 H4].
    split; [|exact H4]. eapply perm_trans; [exact H3|].
    eapply perm_trans; [apply Permutation_app_head; exact H1|]. apply Permutation_sym, Permutation_middle.
Qed.

Lemma process_error_perm last s sub :
  Forall ok (mtopics (s_merged s)) -> Forall okq (sub_topics sub) ->
  Permutation (MF (process_error E last s sub)) (sub_tps E sub ++ MF s) /\
  Forall ok (mtopics (s_merged (process_error E last s sub))).
Proof.
  intros Hm Hs. unfold process_error, MF.
  destruct (e_fetch E && negb last); cbn [s_merged s_failed].
  - split; [|exact Hm]. rewrite app_assoc. apply Permutation_app_comm.
  - destruct (add_error_all_perm sub ERR_REQUEST_TIMED_OUT _ Hm Hs) as [H1 H2]. split; [|exact H2].
    eapply perm_trans; [apply Permutation_app_tail; exact H1|].
    rewrite <- app_assoc. eapply perm_trans; [apply Permutation_app_comm|].
    rewrite <- app_assoc. apply Permutation_app_head, Permutation_app_comm.
Qed.

(* a backend reply answers exactly the partitions of the sub-request (as the proxy keys
   them) and uses topic records on which merge match and key agree *)
Definition reply_complete (sub : subreq) (o : outcome) : Prop :=
  match o with
  | Reply parts => Permutation (map (rkeyp E) parts) (sub_tps E sub) /\
                   Forall (fun x : rpart => ok (fst (fst x))) parts
  | _ => True
  end.

Definition result_ok (r : group * option (bytes * outcome)) : Prop :=
  Forall okq (sub_topics (g_sub (fst r))) /\
  match snd r with Some (_, o) => reply_complete (g_sub (fst r)) o | None => True end.

Lemma process_result_perm last k s r :
  Forall ok (mtopics (s_merged s)) -> result_ok r ->
  Permutation (MF (process_result E last k s r)) (sub_tps E (g_sub (fst r)) ++ MF s) /\
  Forall ok (mtopics (s_merged (process_result E last k s r))).
Proof.
  intros Hm [Hq Ho]. unfold process_result. destruct (snd r) as [[a o]|].
  - destruct o as [parts| | |].
    + destruct Ho as [Hp Hok].
      pose proof (process_parts_perm parts
        (mkSt (s_routes s) (s_rr s) (s_seen s) (s_merged s) (s_failed s)
              (s_log s ++ [mkLog k a (g_sub (fst r)) (Reply parts)])) Hm Hok) as [H1 H2].
      split; [|exact H2]. eapply perm_trans; [exact H1|]. apply Permutation_app_tail. exact Hp.
    + apply (process_error_perm last (mkSt _ _ _ _ _ _) _ Hm Hq).
    + apply (process_error_perm last (mkSt _ _ _ _ _ _) _ Hm Hq).
    + apply (process_error_perm last (mkSt _ _ _ _ _ _) _ Hm Hq).
  - apply process_error_perm; assumption.
Qed.

Definition rtps (rs : list (group * option (bytes * outcome))) : list tpk :=
  flat_map (fun r : group * option (bytes * outcome) => sub_tps E (g_sub (fst r))) rs.

Lemma process_results_perm last k rs s :
  Forall ok (mtopics (s_merged s)) -> Forall result_ok rs ->
  Permutation (MF (fold_left (process_result E last k) rs s)) (rtps rs ++ MF s) /\
  Forall ok (mtopics (s_merged (fold_left (process_result E last k) rs s))).
Proof.
  revert s. induction rs as [|r rs IH]; intros s Hm Hr; cbn [fold_left rtps flat_map app].
  - split; [reflexivity|exact Hm].
  - inversion Hr as [|? ? Hr1 Hr2]; subst.
    destruct (process_result_perm last k s r Hm Hr1) as [H1 H2]. destruct (IH _ H2 Hr2) as [H3 H4].
    split; [|exact H4]. eapply perm_trans; [exact H3|]. fold (rtps rs).
    eapply perm_trans; [apply Permutation_app_head; exact H1|].
    rewrite !app_assoc. apply Permutation_app_tail, Permutation_app_comm.
Qed.

End Generic.

Section Generic2.
Variable E : env.
Variable ok : topic -> Prop.
Hypothesis Hcompat : forall e q, ok e -> ok q -> (same E e q = true <-> rkey E e = rkey E q).
Variable backend : backend_fn.
(* every reply answers exactly the partitions of its sub-request *)
Hypothesis Hbackend : forall k a n sub, reply_complete E ok sub (backend k a n sub).

Notation okq := (okq E ok).
Notation MF := (MF E).

Lemma connect_all_fst dial gs tried rr :
  map fst (fst (connect_all E dial gs tried rr)) = gs.
Proof.
  revert tried rr. induction gs as [|g gs IH]; intros tried rr; cbn [connect_all]; [reflexivity|].
  destruct (connect_for_addr E dial (g_addr g) tried rr) as [r rr1].
  specialize (IH (match r with Some a => a :: tried | None => tried end) rr1).
  destruct (connect_all E dial gs _ rr1) as [rest rr2]. cbn [fst map] in *. now rewrite IH.
Qed.

Lemma send_all_ok k work seen :
  Forall (fun w : group * option bytes => Forall okq (sub_topics (g_sub (fst w)))) work ->
  map fst (fst (send_all backend k work seen)) = map fst work /\
  Forall (result_ok E ok) (fst (send_all backend k work seen)).
Proof.
  revert seen. induction work as [|[g [a|]] work IH]; intros seen Hw; cbn [send_all].
  - split; [reflexivity|constructor].
  - inversion Hw as [|? ? Hg Hw']; subst. specialize (IH (seen_bump a seen) Hw').
    destruct (send_all backend k work (seen_bump a seen)) as [rs seen']. cbn [fst map] in *.
    destruct IH as [IH1 IH2]. split; [now rewrite IH1|]. constructor; [|exact IH2].
    split; [exact Hg|]. cbn [snd fst]. apply Hbackend.
  - inversion Hw as [|? ? Hg Hw']; subst. specialize (IH seen Hw').
    destruct (send_all backend k work seen) as [rs seen']. cbn [fst map] in *.
    destruct IH as [IH1 IH2]. split; [now rewrite IH1|]. constructor; [|exact IH2].
    split; [exact Hg|exact I].
Qed.

Lemma filter_partition_perm {A} (f : A -> bool) l :
  Permutation (filter f l ++ filter (fun x => negb (f x)) l) l.
Proof.
  induction l as [|x l IH]; cbn [filter]; [constructor|].
  destruct (f x); cbn [negb app].
  - now constructor.
  - eapply perm_trans; [apply Permutation_sym, Permutation_middle|]. now constructor.
Qed.

Lemma rtps_gtps rs : rtps E rs = gtps E (map fst rs).
Proof. unfold rtps, gtps. induction rs as [|r rs IH]; cbn [flat_map map]; [reflexivity|now rewrite IH]. Qed.

Lemma Forall_okq_groups gs :
  Forall okq (gtopics gs) -> Forall (fun g => Forall okq (sub_topics (g_sub g))) gs.
Proof.
  induction gs as [|g gs IH]; cbn [gtopics flat_map]; intros H; constructor.
  - apply Forall_app in H. tauto.
  - apply IH. apply Forall_app in H. tauto.
Qed.

Lemma attempt_perm dial last k s gs :
  Forall ok (mtopics (s_merged s)) -> Forall okq (gtopics gs) ->
  let s1 := attempt E dial backend last k s gs in
  Permutation (MF s1) (gtps E gs ++ mkeys E (s_merged s)) /\ Forall ok (mtopics (s_merged s1)).
Proof.
  intros Hm Hg. unfold attempt.
  pose proof (connect_all_fst (dial k) gs [] (s_rr s)) as Hc.
  destruct (connect_all E (dial k) gs [] (s_rr s)) as [work rr1]. cbn [fst] in Hc.
  assert (Hw : Forall (fun w : group * option bytes => Forall okq (sub_topics (g_sub (fst w)))) work).
  { apply Forall_okq_groups in Hg. rewrite <- Hc in Hg. rewrite Forall_map in Hg. exact Hg. }
  pose proof (send_all_ok k work (s_seen s) Hw) as [Hs1 Hs2].
  destruct (send_all backend k work (s_seen s)) as [results seen1]. cbn [fst] in Hs1, Hs2.
  set (f := fun r : group * option (bytes * outcome) => is_none (snd r)).
  assert (Hperm : Permutation (filter f results ++ filter (fun r => negb (f r)) results) results)
    by apply filter_partition_perm.
  assert (Hok : Forall (result_ok E ok) (filter f results ++ filter (fun r => negb (f r)) results)).
  { rewrite Forall_forall in *. intros r Hr. apply Hs2. eapply Permutation_in; [exact Hperm|exact Hr]. }
  pose proof (process_results_perm E ok Hcompat last k _
    (mkSt (s_routes s) rr1 seen1 (s_merged s) [] (s_log s)) Hm Hok) as [H1 H2].
  cbv zeta. split; [|exact H2]. eapply perm_trans; [exact H1|].
  unfold ProxyProofs.MF. cbn [s_merged s_failed]. rewrite app_nil_r.
  apply Permutation_app_tail. rewrite rtps_gtps.
  unfold gtps. apply Permutation_flat_map. rewrite <- Hc, <- Hs1. apply Permutation_map. exact Hperm.
Qed.

(* ---- grouping ---- *)
Lemma sub_insert_perm s t p :
  Permutation (sub_tps E (sub_insert E s t p)) ((key E t, p) :: sub_tps E s) /\
  (Forall okq (sub_topics s) -> okq t -> Forall okq (sub_topics (sub_insert E s t p))).
Proof.
  induction s as [|[t' ps] s [IH1 IH2]]; cbn [sub_insert].
  - split; [rewrite sub_tps_cons; cbn; reflexivity|intros _ Ht; cbn; constructor; [exact Ht|constructor]].
  - destruct (bytes_eqb (key E t') (key E t)) eqn:Ek.
    + apply bytes_eqb_eq in Ek. split.
      * rewrite !sub_tps_cons, map_app. cbn [map]. rewrite Ek, <- app_assoc. cbn [app].
        apply Permutation_sym, Permutation_middle.
      * intros Hs _. exact Hs.
    + split.
      * rewrite !sub_tps_cons. eapply perm_trans; [apply Permutation_app_head; exact IH1|].
        apply Permutation_sym, Permutation_middle.
      * intros Hs Ht. inversion Hs; subst. constructor; [assumption|]. now apply IH2.
Qed.

Lemma grp_insert_perm gs addr t p :
  Permutation (gtps E (grp_insert E gs addr t p)) ((key E t, p) :: gtps E gs) /\
  (Forall okq (gtopics gs) -> okq t -> Forall okq (gtopics (grp_insert E gs addr t p))).
Proof.
  induction gs as [|g gs [IH1 IH2]]; cbn [grp_insert].
  - split.
    + unfold gtps; cbn [flat_map g_sub]. rewrite sub_tps_cons. cbn. reflexivity.
    + intros _ Ht. cbn. constructor; [exact Ht|constructor].
  - destruct (bytes_eqb (g_addr g) addr).
    + destruct (sub_insert_perm (g_sub g) t p) as [H1 H2]. split.
      * unfold gtps; cbn [flat_map g_sub]. fold (gtps E gs).
        eapply perm_trans; [apply Permutation_app_tail; exact H1|]. reflexivity.
      * intros Hs Ht. cbn [gtopics flat_map g_sub] in *. apply Forall_app in Hs as [Hs1 Hs2].
        apply Forall_app; split; [now apply H2|exact Hs2].
    + split.
      * unfold gtps; cbn [flat_map]. fold (gtps E gs) (gtps E (grp_insert E gs addr t p)).
        eapply perm_trans; [apply Permutation_app_head; exact IH1|].
        apply Permutation_sym, Permutation_middle.
      * intros Hs Ht. cbn [gtopics flat_map] in *. apply Forall_app in Hs as [Hs1 Hs2].
        apply Forall_app; split; [exact Hs1|now apply IH2].
Qed.

Lemma group_fold_perm rs (items : list (topic * Z)) gs :
  let gs' := fold_left (fun gs (x : topic * Z) =>
                 grp_insert E gs (owner_addr E rs (fst x) (snd x)) (fst x) (snd x)) items gs in
  Permutation (gtps E gs') (gtps E gs ++ map (keyp E) items) /\
  (Forall okq (gtopics gs) -> Forall okq (map fst items) -> Forall okq (gtopics gs')).
Proof.
  revert gs. induction items as [|x items IH]; intros gs; cbn [fold_left map].
  - split; [now rewrite app_nil_r|tauto].
  - destruct (grp_insert_perm gs (owner_addr E rs (fst x) (snd x)) (fst x) (snd x)) as [H1 H2].
    destruct (IH (grp_insert E gs (owner_addr E rs (fst x) (snd x)) (fst x) (snd x))) as [H3 H4].
    cbv zeta in *. split.
    + eapply perm_trans; [exact H3|]. eapply perm_trans; [apply Permutation_app_tail; exact H1|].
      cbn [app]. apply Permutation_middle.
    + intros Hg Hi. inversion Hi; subst. apply H4; [now apply H2|assumption].
Qed.

Lemma flatten_topics r x : In x (flatten r) -> In (fst x) (sub_topics r).
Proof.
  unfold flatten, sub_topics. intros H. apply in_flat_map in H as [[t ps] [H1 H2]].
  cbn [fst snd] in H2. apply in_map_iff in H2 as [p [<- _]]. cbn [fst].
  apply in_map_iff. exists (t, ps). split; [reflexivity|exact H1].
Qed.

Lemma group_by_perm rs r incl :
  Permutation (gtps E (group_by E rs r incl)) (map (keyp E) (filter (included E incl) (flatten r))) /\
  (Forall okq (sub_topics r) -> Forall okq (gtopics (group_by E rs r incl))).
Proof.
  unfold group_by.
  destruct (group_fold_perm rs (filter (included E incl) (flatten r)) []) as [H1 H2]. cbv zeta in *.
  split; [exact H1|]. intros Hr. apply H2; [constructor|].
  apply Forall_forall. intros t Ht. apply in_map_iff in Ht as [x [<- Hx]].
  apply filter_In in Hx as [Hx _]. rewrite Forall_forall in Hr. apply Hr. now apply flatten_topics.
Qed.

Lemma sub_tps_flatten r : sub_tps E r = map (keyp E) (flatten r).
Proof. reflexivity. Qed.

Lemma mem_tpk_In x l : mem_tpk x l = true <-> In x l.
Proof.
  unfold mem_tpk. rewrite existsb_exists. split.
  - intros [y [Hy He]]. unfold tpk_eqb in He. apply andb_true_iff in He as [H1 H2].
    apply bytes_eqb_eq in H1. apply Z.eqb_eq in H2. destruct x, y; cbn in *; subst. exact Hy.
  - intros H. exists x. split; [exact H|]. unfold tpk_eqb. now rewrite bytes_eqb_refl, Z.eqb_refl.
Qed.

Lemma NoDup_map_filter {A B} (f : A -> B) (g : A -> bool) l : NoDup (map f l) -> NoDup (map f (filter g l)).
Proof.
  induction l as [|x l IH]; cbn [map filter]; intros H; [constructor|].
  inversion H as [|? ? Hn Hd]; subst. destruct (g x); cbn [map]; [|now apply IH].
  constructor; [|now apply IH]. intros Hin. apply Hn. apply in_map_iff in Hin as [y [Hy Hin]].
  apply filter_In in Hin as [Hin _]. apply in_map_iff. now exists y.
Qed.

(* regrouping the failed partitions: exactly the failed ones, once each *)
Lemma regroup_items_perm r F :
  NoDup (sub_tps E r) -> NoDup F -> (forall x, In x F -> In x (sub_tps E r)) ->
  Permutation (map (keyp E) (filter (included E (Some F)) (flatten r))) F.
Proof.
  intros Hr HF Hsub. apply NoDup_Permutation; [now apply NoDup_map_filter|exact HF|].
  intros x. split.
  - intros H. apply in_map_iff in H as [y [<- Hy]]. apply filter_In in Hy as [_ Hy].
    unfold included in Hy. now apply mem_tpk_In in Hy.
  - intros H. pose proof (Hsub x H) as Hx. rewrite sub_tps_flatten in Hx.
    apply in_map_iff in Hx as [y [<- Hy]]. apply in_map_iff. exists y. split; [reflexivity|].
    apply filter_In. split; [exact Hy|]. unfold included. now apply mem_tpk_In.
Qed.

End Generic2.

Section Generic3.
Variable E : env.
Variable ok : topic -> Prop.
Hypothesis Hcompat : forall e q, ok e -> ok q -> (same E e q = true <-> rkey E e = rkey E q).
Variable backend : backend_fn.
Hypothesis Hbackend : forall k a n sub, reply_complete E ok sub (backend k a n sub).
Variable dial : Z -> bytes -> bool.
Variable ord : ord_fn.
(* Go map iteration: any order of the groups *)
Hypothesis Hord : forall k gs, Permutation (ord k gs) gs.
Variable req : subreq.
(* the request names each topic-partition once (under the proxy's own keying) *)
Hypothesis Hnodup : NoDup (sub_tps E req).
Hypothesis Hreq_ok : Forall (okq E ok) (sub_topics req).

Notation okq := (okq E ok).
Notation MF := (MF E).

Lemma NoDup_app_r {A} (l l' : list A) : NoDup (l ++ l') -> NoDup l'.
Proof. induction l as [|x l IH]; cbn; [tauto|]. intros H. inversion H; subst. now apply IH. Qed.

Lemma filter_none {A} (f : A -> bool) l : (forall x, In x l -> f x = false) -> filter f l = [].
Proof.
  induction l as [|x l IH]; cbn; [reflexivity|]. intros H. rewrite (H x) by now left.
  apply IH. intros y Hy. apply H. now right.
Qed.

Lemma gtopics_perm gs gs' : Permutation gs gs' -> Forall okq (gtopics gs') -> Forall okq (gtopics gs).
Proof.
  intros Hp H. eapply Permutation_Forall; [|exact H]. unfold gtopics.
  apply Permutation_flat_map, Permutation_sym, Hp.
Qed.

Lemma loop_exit fuel : forall k s gs,
  Forall ok (mtopics (s_merged s)) -> Forall okq (gtopics gs) ->
  Permutation (mkeys E (s_merged s) ++ gtps E gs) (sub_tps E req) ->
  let s' := loop E dial backend ord req (S fuel) k s gs in
  Permutation (MF s') (sub_tps E req) /\ Forall ok (mtopics (s_merged s')).
Proof.
  induction fuel as [|fuel IH]; intros k s gs Hm Hg Hinv; cbn [loop].
  - set (s1 := attempt E dial backend true k s (ord k gs)).
    assert (H1 : Permutation (MF s1) (sub_tps E req) /\ Forall ok (mtopics (s_merged s1))).
    { destruct (attempt_perm E ok Hcompat backend Hbackend dial true k s (ord k gs) Hm
                  (gtopics_perm _ _ (Hord k gs) Hg)) as [A B]. split; [|exact B].
      eapply perm_trans; [exact A|]. eapply perm_trans; [apply Permutation_app_comm|].
      eapply perm_trans; [|exact Hinv]. apply Permutation_app_head.
      unfold gtps. apply Permutation_flat_map, Hord. }
    fold s1. destruct (s_failed s1); [exact H1|].
    destruct (group_by E (s_routes s1) req (Some (t :: l))); exact H1.
  - set (s1 := attempt E dial backend false k s (ord k gs)).
    assert (H1 : Permutation (MF s1) (sub_tps E req) /\ Forall ok (mtopics (s_merged s1))).
    { destruct (attempt_perm E ok Hcompat backend Hbackend dial false k s (ord k gs) Hm
                  (gtopics_perm _ _ (Hord k gs) Hg)) as [A B]. split; [|exact B].
      eapply perm_trans; [exact A|]. eapply perm_trans; [apply Permutation_app_comm|].
      eapply perm_trans; [|exact Hinv]. apply Permutation_app_head.
      unfold gtps. apply Permutation_flat_map, Hord. }
    fold s1. destruct H1 as [H1 H2]. destruct (s_failed s1) as [|f F] eqn:EF; [split; assumption|].
    destruct (group_by_perm E ok (s_routes s1) req (Some (f :: F))) as [G1 G2].
    destruct (group_by E (s_routes s1) req (Some (f :: F))) as [|g gs'] eqn:EG; [split; assumption|].
    apply IH; [exact H2|now apply G2|].
    assert (Hnd : NoDup (MF s1)) by (eapply Permutation_NoDup; [apply Permutation_sym; exact H1|exact Hnodup]).
    unfold ProxyProofs.MF in Hnd, H1. rewrite EF in Hnd, H1.
    eapply perm_trans; [|exact H1]. apply Permutation_app_head.
    eapply perm_trans; [exact G1|]. apply regroup_items_perm; [exact Hnodup| |].
    + apply NoDup_app_r in Hnd. exact Hnd.
    + intros x Hx. eapply Permutation_in; [exact H1|]. apply in_or_app. now right.
Qed.

(* ---- the tail ---- *)
Lemma filter_map_comm {A B} (f : B -> bool) (g : A -> B) l :
  filter f (map g l) = map g (filter (fun x => f (g x)) l).
Proof. induction l as [|x l IH]; cbn [map filter]; [reflexivity|]. destruct (f (g x)); cbn [map]; now rewrite IH. Qed.

Lemma tail_inner F t ps m :
  Forall ok (mtopics m) -> okq t ->
  let m' := fold_left (fun m p => if mem_tpk (key E t, p) F then add_part E m t (p, ERR_NOT_LEADER) else m) ps m in
  Permutation (mkeys E m') (mkeys E m ++ map (fun p => (key E t, p)) (filter (fun p => mem_tpk (key E t, p) F) ps)) /\
  Forall ok (mtopics m').
Proof.
  intros Hm Ht. revert m Hm. induction ps as [|p ps IH]; intros m Hm; cbn [fold_left filter].
  - split; [cbn; now rewrite app_nil_r|exact Hm].
  - destruct (mem_tpk (key E t, p) F).
    + destruct (add_part_perm E ok Hcompat m t (p, ERR_NOT_LEADER) Hm (proj1 Ht)) as [H1 H2].
      destruct (IH _ H2) as [H3 H4]. split; [|exact H4]. eapply perm_trans; [exact H3|].
      eapply perm_trans; [apply Permutation_app_tail; exact H1|]. cbn [fst map].
      rewrite <- (proj2 Ht). cbn [app]. apply Permutation_middle.
    + now apply IH.
Qed.

Lemma no_key_no_mem F k : existsb (fun f : tpk => bytes_eqb (fst f) k) F = false ->
  forall p, mem_tpk (k, p) F = false.
Proof.
  intros H p. destruct (mem_tpk (k, p) F) eqn:Em; [|reflexivity].
  apply mem_tpk_In in Em. assert (existsb (fun f : tpk => bytes_eqb (fst f) k) F = true).
  { apply existsb_exists. exists (k, p). split; [exact Em|apply bytes_eqb_refl]. }
  congruence.
Qed.

Definition tail_step (F : list tpk) (m : merged) (tp : topic * list Z) : merged :=
  let t := fst tp in
  if existsb (fun f : tpk => bytes_eqb (fst f) (key E t)) F
  then fold_left (fun m p => if mem_tpk (key E t, p) F then add_part E m t (p, ERR_NOT_LEADER) else m)
                 (snd tp) (ensure_topic E m t)
  else m.

Lemma tail_fold F r m :
  Forall ok (mtopics m) -> Forall okq (sub_topics r) ->
  Permutation (mkeys E (fold_left (tail_step F) r m))
              (mkeys E m ++ map (keyp E) (filter (included E (Some F)) (flatten r))) /\
  Forall ok (mtopics (fold_left (tail_step F) r m)).
Proof.
  revert m. induction r as [|[t ps] r IH]; intros m Hm Hr; cbn [fold_left].
  - split; [cbn; now rewrite app_nil_r|exact Hm].
  - inversion Hr as [|? ? Ht Hr']; subst. cbn [fst] in Ht.
    assert (Hflat : map (keyp E) (filter (included E (Some F)) (flatten ((t, ps) :: r))) =
                    map (fun p => (key E t, p)) (filter (fun p => mem_tpk (key E t, p) F) ps) ++
                    map (keyp E) (filter (included E (Some F)) (flatten r))).
    { unfold flatten at 1. cbn [flat_map fst snd]. fold (flatten r).
      rewrite filter_app, map_app. f_equal. rewrite filter_map_comm, map_map. reflexivity. }
    rewrite Hflat. clear Hflat.
    assert (Hstep : Permutation (mkeys E (tail_step F m (t, ps)))
               (mkeys E m ++ map (fun p => (key E t, p)) (filter (fun p => mem_tpk (key E t, p) F) ps)) /\
             Forall ok (mtopics (tail_step F m (t, ps)))).
    { unfold tail_step. cbn [fst snd].
      destruct (existsb (fun f : tpk => bytes_eqb (fst f) (key E t)) F) eqn:Ex.
      - destruct (ensure_topic_keys E ok m t Hm (proj1 Ht)) as [K1 K2].
        destruct (tail_inner F t ps _ K2 Ht) as [K3 K4]. cbv zeta in *. split; [|exact K4].
        rewrite <- K1. exact K3.
      - split; [|exact Hm].
        rewrite filter_none; [cbn; now rewrite app_nil_r|].
        intros p _. now rewrite (no_key_no_mem F _ Ex p). }
    destruct Hstep as [S1 S2]. destruct (IH _ S2 Hr') as [I1 I2]. split; [|exact I2].
    eapply perm_trans; [exact I1|]. rewrite app_assoc. apply Permutation_app_tail. exact S1.
Qed.

Lemma tail_is_fold s : tail E req s = fold_left (tail_step (s_failed s)) req (s_merged s).
Proof. reflexivity. Qed.

Lemma tail_perm s :
  Forall ok (mtopics (s_merged s)) -> Permutation (MF s) (sub_tps E req) ->
  Permutation (mkeys E (tail E req s)) (sub_tps E req).
Proof.
  intros Hm Hinv. rewrite tail_is_fold.
  destruct (tail_fold (s_failed s) req (s_merged s) Hm Hreq_ok) as [H1 _].
  eapply perm_trans; [exact H1|]. eapply perm_trans; [|exact Hinv]. unfold ProxyProofs.MF.
  apply Permutation_app_head.
  assert (Hnd : NoDup (MF s)) by (eapply Permutation_NoDup; [apply Permutation_sym; exact Hinv|exact Hnodup]).
  apply regroup_items_perm; [exact Hnodup| |].
  - unfold ProxyProofs.MF in Hnd. now apply NoDup_app_r in Hnd.
  - intros x Hx. eapply Permutation_in; [exact Hinv|]. apply in_or_app. now right.
Qed.

Lemma filter_true {A} (f : A -> bool) l : (forall x, f x = true) -> filter f l = l.
Proof. intros H. induction l as [|x l IH]; cbn; [reflexivity|]. now rewrite H, IH. Qed.

(* the merged response of forwardProduce / forwardFetch holds exactly the requested
   topic-partitions, for any positive number of attempts *)
Lemma forward_exactly_once maxr rs rr :
  (maxr >= 1)%nat ->
  let s := loop E dial backend ord req maxr 0 (init_st rs rr) (group_by E rs req None) in
  Permutation (mkeys E (tail E req s)) (sub_tps E req).
Proof.
  intros Hmax. destruct maxr as [|fuel]; [lia|]. cbv zeta.
  destruct (group_by_perm E ok rs req None) as [G1 G2].
  destruct (loop_exit fuel 0 (init_st rs rr) (group_by E rs req None)) as [L1 L2].
  - constructor.
  - now apply G2.
  - cbn [init_st s_merged mkeys merged_ents flat_map map app].
    eapply perm_trans; [exact G1|]. rewrite filter_true by reflexivity. apply Permutation_refl.
  - now apply tail_perm.
Qed.

End Generic3.

(* ---- instances ---- *)
Definition ord_ok (ord : ord_fn) : Prop := forall k gs, Permutation (ord k gs) gs.
Definition replies_complete (E : env) (ok : topic -> Prop) (backend : backend_fn) : Prop :=
  forall k a n sub, reply_complete E ok sub (backend k a n sub).
Definition distinct_tps (E : env) (req : subreq) : Prop := NoDup (sub_tps E req).

(* produce: topics are names; match and key are the name *)
Lemma produce_compat E : e_fetch E = false ->
  forall e q, True -> True -> (same E e q = true <-> rkey E e = rkey E q).
Proof. intros Hf e q _ _. unfold same, rkey. rewrite Hf. apply bytes_eqb_eq. Qed.

Lemma produce_exactly_once E dial backend ord maxr rs rr req :
  e_fetch E = false -> (maxr >= 1)%nat -> distinct_tps E req -> ord_ok ord ->
  replies_complete E (fun _ => True) backend ->
  Permutation (mkeys E (fst (forward E dial backend ord maxr rs rr req))) (sub_tps E req).
Proof.
  intros Hf Hmax Hnd Hord Hb. unfold forward. cbn [fst].
  assert (Hr : resolve_req E req = req) by (unfold resolve_req; now rewrite Hf). rewrite Hr.
  apply (forward_exactly_once E (fun _ => True) (produce_compat E Hf) backend Hb dial ord Hord req Hnd); [|exact Hmax].
  apply Forall_forall. intros t _. split; [exact I|]. unfold key, rkey. now rewrite Hf.
Qed.

(* fetch, general form: [ok] covers the resolved request's topics and the replies'
   topics; on them merge match and key agree; request topics have key = reply key *)
Lemma fetch_exactly_once E (ok : topic -> Prop) dial backend ord maxr rs rr req :
  (forall e q, ok e -> ok q -> (same E e q = true <-> rkey E e = rkey E q)) ->
  Forall (okq E ok) (sub_topics (resolve_req E req)) ->
  (maxr >= 1)%nat -> distinct_tps E (resolve_req E req) -> ord_ok ord ->
  replies_complete E ok backend ->
  Permutation (mkeys E (fst (forward E dial backend ord maxr rs rr req))) (sub_tps E (resolve_req E req)).
Proof.
  intros Hc Hq Hmax Hnd Hord Hb. unfold forward. cbn [fst].
  now apply (forward_exactly_once E ok Hc backend Hb dial ord Hord (resolve_req E req) Hnd Hq).
Qed.

(* fetch by name (versions up to 12): every topic has a non-empty name and no id *)
Definition named (t : topic) : Prop := is_zero_id (t_id t) = true /\ t_name t <> [].

Lemma is_empty_false b : b <> [] -> is_empty b = false.
Proof. destruct b; [congruence|reflexivity]. Qed.

Lemma named_rkey E t : e_fetch E = true -> named t -> rkey E t = t_name t /\ key E t = t_name t.
Proof.
  intros Hf [_ Hn]. unfold rkey, key, reply_name, fetch_key. rewrite Hf.
  now rewrite !(is_empty_false _ Hn).
Qed.

Lemma named_compat E : e_fetch E = true ->
  forall e q, named e -> named q -> (same E e q = true <-> rkey E e = rkey E q).
Proof.
  intros Hf e q He Hq. destruct (named_rkey E e Hf He) as [-> _]. destruct (named_rkey E q Hf Hq) as [-> _].
  unfold same. rewrite Hf. destruct Hq as [Hz _]. rewrite Hz. cbn [negb]. apply bytes_eqb_eq.
Qed.

Lemma named_resolve_req E req : Forall named (sub_topics req) -> resolve_req E req = req.
Proof.
  intros H. unfold resolve_req. destruct (e_fetch E); [|reflexivity].
  induction req as [|[t ps] req IH]; cbn [map]; [reflexivity|].
  inversion H as [|? ? Ht Hr]; subst. cbn [fst] in *. destruct Ht as [_ Hn].
  rewrite (is_empty_false _ Hn). cbn [andb]. now rewrite IH.
Qed.

Lemma fetch_by_name_exactly_once E dial backend ord maxr rs rr req :
  e_fetch E = true -> Forall named (sub_topics req) ->
  (maxr >= 1)%nat -> distinct_tps E req -> ord_ok ord ->
  replies_complete E named backend ->
  Permutation (mkeys E (fst (forward E dial backend ord maxr rs rr req))) (sub_tps E req).
Proof.
  intros Hf Hn Hmax Hnd Hord Hb.
  pose proof (fetch_exactly_once E named dial backend ord maxr rs rr req (named_compat E Hf)) as H.
  rewrite (named_resolve_req E req Hn) in H. apply H; try assumption.
  apply Forall_forall. intros t Ht. rewrite Forall_forall in Hn. specialize (Hn t Ht).
  split; [exact Hn|]. destruct (named_rkey E t Hf Hn) as [-> ->]. reflexivity.
Qed.

(* consequence in counting form: exactly one entry for a requested topic-partition, none
   for any other *)
Definition tpk_dec : forall a b : tpk, {a = b} + {a <> b}.
Proof. decide equality; [apply Z.eq_dec|apply (list_eq_dec Z.eq_dec)]. Defined.

Lemma perm_count_one (l req : list tpk) :
  Permutation l req -> NoDup req ->
  forall x, count_occ tpk_dec l x = if in_dec tpk_dec x req then 1%nat else 0%nat.
Proof.
  intros Hp Hn x. rewrite (Permutation_count_occ tpk_dec l req) in Hp. rewrite Hp.
  destruct (in_dec tpk_dec x req) as [Hi|Hi].
  - now apply NoDup_count_occ'.
  - now apply count_occ_not_In.
Qed.

(* ---- success only if a backend replied success ---- *)
Section Sound.
Variable E : env.

(* entry x = (topic, partition, code) stems from a logged backend reply that reported
   code 0 for that partition under a topic the entry's topic record matches *)
Definition from_reply (log : list logent) (x : rpart) : Prop :=
  exists e parts t', In e log /\ l_out e = Reply parts /\ In (t', snd (fst x), 0) parts /\
    (fst (fst x) = t' \/ same E (fst (fst x)) t' = true).

Definition sound (log : list logent) (m : merged) : Prop :=
  forall x, In x (merged_ents m) -> snd x = 0 -> from_reply log x.

Lemma merged_ents_cons e es m :
  merged_ents ((e, es) :: m) = map (fun pc : Z * Z => (e, fst pc, snd pc)) es ++ merged_ents m.
Proof. reflexivity. Qed.

Lemma add_part_in m q pc x :
  In x (merged_ents (add_part E m q pc)) ->
  In x (merged_ents m) \/
  (snd (fst x) = fst pc /\ snd x = snd pc /\ (fst (fst x) = q \/ same E (fst (fst x)) q = true)).
Proof.
  induction m as [|[e es] m IH]; cbn [add_part].
  - rewrite merged_ents_cons. cbn. intros [<-|[]]. right. cbn. auto.
  - destruct (same E e q) eqn:Hs; rewrite !merged_ents_cons; intros H; apply in_app_or in H as [H|H].
    + rewrite map_app in H. apply in_app_or in H as [H|H].
      * left. apply in_or_app. now left.
      * cbn in H. destruct H as [<-|[]]. right. cbn. auto.
    + left. apply in_or_app. now right.
    + left. apply in_or_app. now left.
    + destruct (IH H) as [H'|H']; [left; apply in_or_app; now right|now right].
Qed.

Lemma ensure_in m q x : In x (merged_ents (ensure_topic E m q)) -> In x (merged_ents m).
Proof.
  induction m as [|[e es] m IH]; cbn [ensure_topic].
  - cbn. tauto.
  - destruct (same E e q); [tauto|]. rewrite !merged_ents_cons. intros H.
    apply in_app_or in H as [H|H]; apply in_or_app; [now left|right; now apply IH].
Qed.

Lemma add_parts_in t code ps m x :
  In x (merged_ents (fold_left (fun m p => add_part E m t (p, code)) ps m)) ->
  In x (merged_ents m) \/ snd x = code.
Proof.
  revert m. induction ps as [|p ps IH]; intros m; cbn [fold_left]; [tauto|].
  intros H. destruct (IH _ H) as [H'|H']; [|now right].
  destruct (add_part_in _ _ _ _ H') as [H''|[_ [H'' _]]]; [now left|now right].
Qed.

Lemma add_error_all_in s code m x :
  In x (merged_ents (add_error_all E m s code)) -> In x (merged_ents m) \/ snd x = code.
Proof.
  unfold add_error_all. revert m. induction s as [|[t ps] s IH]; intros m; cbn [fold_left]; [tauto|].
  intros H. destruct (IH _ H) as [H'|H']; [|now right]. cbn [fst snd] in H'.
  destruct (add_parts_in _ _ _ _ _ H') as [H''|H'']; [|now right]. left. now apply ensure_in in H''.
Qed.

Lemma from_reply_mono log l x : from_reply log x -> from_reply (log ++ l) x.
Proof.
  intros [e [parts [t' [H1 H2]]]]. exists e, parts, t'. split; [apply in_or_app; now left|exact H2].
Qed.

Lemma sound_mono log l m : sound log m -> sound (log ++ l) m.
Proof. intros H x Hx Hz. apply from_reply_mono. now apply H. Qed.

Definition logged (log : list logent) (x : rpart) : Prop :=
  exists e parts, In e log /\ l_out e = Reply parts /\ In x parts.

Lemma process_part_sound s x :
  logged (s_log s) x -> sound (s_log s) (s_merged s) ->
  sound (s_log (process_part E s x)) (s_merged (process_part E s x)) /\
  s_log (process_part E s x) = s_log s.
Proof.
  intros [e [parts [H1 [H2 H3]]]] Hs. destruct x as [[t p] code]. unfold process_part.
  destruct (code =? ERR_NOT_LEADER); cbn [s_log s_merged]; [split; [exact Hs|reflexivity]|].
  split; [|reflexivity]. intros y Hy Hz. apply add_part_in in Hy as [Hy|[Hp [Hc Ht]]]; [now apply Hs|].
  cbn [fst snd] in Hp, Hc. exists e, parts, t. split; [exact H1|]. split; [exact H2|].
  split; [|exact Ht]. rewrite Hp. rewrite Hz in Hc. now rewrite Hc.
Qed.

Lemma process_parts_sound parts s :
  (forall x, In x parts -> logged (s_log s) x) -> sound (s_log s) (s_merged s) ->
  sound (s_log (fold_left (process_part E) parts s)) (s_merged (fold_left (process_part E) parts s)).
Proof.
  revert s. induction parts as [|x parts IH]; intros s Hl Hs; cbn [fold_left]; [exact Hs|].
  destruct (process_part_sound s x (Hl x (or_introl eq_refl)) Hs) as [H1 H2].
  apply IH; [|exact H1]. intros y Hy. rewrite H2. apply Hl. now right.
Qed.

Lemma process_error_sound last s sub :
  sound (s_log s) (s_merged s) ->
  sound (s_log (process_error E last s sub)) (s_merged (process_error E last s sub)).
Proof.
  intros Hs. unfold process_error. destruct (e_fetch E && negb last); cbn [s_log s_merged]; [exact Hs|].
  intros x Hx Hz. apply add_error_all_in in Hx as [Hx|Hx]; [now apply Hs|].
  unfold ERR_REQUEST_TIMED_OUT in Hx. lia.
Qed.

Lemma process_result_sound last k s r :
  sound (s_log s) (s_merged s) ->
  sound (s_log (process_result E last k s r)) (s_merged (process_result E last k s r)).
Proof.
  intros Hs. unfold process_result. destruct (snd r) as [[a o]|]; [|now apply process_error_sound].
  set (s1 := mkSt (s_routes s) (s_rr s) (s_seen s) (s_merged s) (s_failed s)
                  (s_log s ++ [mkLog k a (g_sub (fst r)) o])).
  assert (Hs1 : sound (s_log s1) (s_merged s1)) by (cbn; now apply sound_mono).
  destruct o as [parts| | |]; try (now apply process_error_sound).
  apply process_parts_sound; [|exact Hs1]. intros x Hx.
  exists (mkLog k a (g_sub (fst r)) (Reply parts)), parts. cbn [s_log s1 l_out].
  split; [apply in_or_app; right; now left|]. split; [reflexivity|exact Hx].
Qed.

Lemma process_results_sound last k rs s :
  sound (s_log s) (s_merged s) ->
  sound (s_log (fold_left (process_result E last k) rs s)) (s_merged (fold_left (process_result E last k) rs s)).
Proof.
  revert s. induction rs as [|r rs IH]; intros s Hs; cbn [fold_left]; [exact Hs|].
  apply IH. now apply process_result_sound.
Qed.

Lemma attempt_sound dial backend last k s gs :
  sound (s_log s) (s_merged s) ->
  sound (s_log (attempt E dial backend last k s gs)) (s_merged (attempt E dial backend last k s gs)).
Proof.
  intros Hs. unfold attempt. destruct (connect_all E (dial k) gs [] (s_rr s)) as [work rr1].
  destruct (send_all backend k work (s_seen s)) as [results seen1].
  apply process_results_sound. exact Hs.
Qed.

Lemma loop_sound dial backend ord req fuel : forall k s gs,
  sound (s_log s) (s_merged s) ->
  sound (s_log (loop E dial backend ord req fuel k s gs)) (s_merged (loop E dial backend ord req fuel k s gs)).
Proof.
  induction fuel as [|fuel IH]; intros k s gs Hs; cbn [loop]; [exact Hs|].
  set (s1 := attempt E dial backend (match fuel with O => true | _ => false end) k s (ord k gs)).
  assert (H1 : sound (s_log s1) (s_merged s1)) by now apply attempt_sound.
  destruct (s_failed s1); [exact H1|].
  destruct (group_by E (s_routes s1) req (Some (t :: l))); [exact H1|]. now apply IH.
Qed.

Lemma tail_step_in F m tp x :
  In x (merged_ents (tail_step E F m tp)) -> In x (merged_ents m) \/ snd x = ERR_NOT_LEADER.
Proof.
  unfold tail_step. destruct (existsb _ F); [|tauto].
  generalize (ensure_topic E m (fst tp)) (ensure_in m (fst tp) x). intros m0 H0.
  assert (forall ps m1, In x (merged_ents (fold_left
            (fun m p => if mem_tpk (key E (fst tp), p) F then add_part E m (fst tp) (p, ERR_NOT_LEADER) else m) ps m1)) ->
          In x (merged_ents m1) \/ snd x = ERR_NOT_LEADER) as Hfold.
  { induction ps as [|p ps IH]; intros m1; cbn [fold_left]; [tauto|].
    intros H. destruct (IH _ H) as [H'|H']; [|now right].
    destruct (mem_tpk (key E (fst tp), p) F); [|now left].
    destruct (add_part_in _ _ _ _ H') as [H''|[_ [H'' _]]]; [now left|now right]. }
  intros H. destruct (Hfold _ _ H) as [H'|H']; [left; now apply H0|now right].
Qed.

Lemma tail_sound req s : sound (s_log s) (s_merged s) -> sound (s_log s) (tail E req s).
Proof.
  intros Hs. rewrite tail_is_fold. generalize (s_merged s) Hs. clear Hs.
  induction req as [|tp req IH]; intros m Hs; cbn [fold_left]; [exact Hs|].
  apply IH. intros x Hx Hz. apply tail_step_in in Hx as [Hx|Hx]; [now apply Hs|].
  unfold ERR_NOT_LEADER in Hx. lia.
Qed.

(* every success entry of the merged response stems from a backend's success reply —
   no hypothesis on the request, the replies, the order or the number of attempts *)
Lemma forward_success_sound dial backend ord maxr rs rr req :
  let r := forward E dial backend ord maxr rs rr req in
  forall x, In x (merged_ents (fst r)) -> snd x = 0 -> from_reply (s_log (snd r)) x.
Proof.
  cbv zeta. unfold forward. cbn [fst snd]. apply tail_sound. apply loop_sound.
  intros x []. 
Qed.

End Sound.

(* ---- produce: a partition is sent again only after a NOT_LEADER reply for it ---- *)
Section Resend.
Variable E : env.
Hypothesis Hprod : e_fetch E = false.

(* at attempt j a backend replied NOT_LEADER_OR_FOLLOWER for topic-partition x *)
Definition rejected (log : list logent) (j : Z) (x : tpk) : Prop :=
  exists e parts t, In e log /\ l_attempt e = j /\ l_out e = Reply parts /\
    In (t, snd x, ERR_NOT_LEADER) parts /\ rkey E t = fst x.

(* every sub-request sent at an attempt j > 0 contains only partitions rejected at j-1 *)
Definition resend_ok (log : list logent) : Prop :=
  forall e, In e log -> forall x, In x (sub_tps E (l_sub e)) ->
    l_attempt e = 0 \/ rejected log (l_attempt e - 1) x.

Lemma rejected_mono log l j x : rejected log j x -> rejected (log ++ l) j x.
Proof.
  intros [e [parts [t [H1 H2]]]]. exists e, parts, t. split; [apply in_or_app; now left|exact H2].
Qed.

Lemma process_part_failed s x y :
  In y (s_failed (process_part E s x)) ->
  In y (s_failed s) \/ (snd x = ERR_NOT_LEADER /\ y = rkeyp E x).
Proof.
  destruct x as [[t p] code]. unfold process_part. destruct (code =? ERR_NOT_LEADER) eqn:Ec; cbn [s_failed]; [|tauto].
  intros H. apply in_app_or in H as [H|[<-|[]]]; [now left|]. right. apply Z.eqb_eq in Ec. now split.
Qed.

Lemma process_part_log s x : s_log (process_part E s x) = s_log s.
Proof. destruct x as [[t p] code]. unfold process_part. now destruct (code =? ERR_NOT_LEADER). Qed.

Lemma process_parts_failed parts s y :
  In y (s_failed (fold_left (process_part E) parts s)) ->
  In y (s_failed s) \/ exists x, In x parts /\ snd x = ERR_NOT_LEADER /\ y = rkeyp E x.
Proof.
  revert s. induction parts as [|x parts IH]; intros s; cbn [fold_left]; [tauto|].
  intros H. destruct (IH _ H) as [H'|[x' [H1 H2]]].
  - apply process_part_failed in H' as [H'|H']; [now left|]. right. exists x. split; [now left|exact H'].
  - right. exists x'. split; [now right|exact H2].
Qed.

Lemma process_parts_log parts s : s_log (fold_left (process_part E) parts s) = s_log s.
Proof.
  revert s. induction parts as [|x parts IH]; intros s; cbn [fold_left]; [reflexivity|].
  now rewrite IH, process_part_log.
Qed.

Lemma process_error_produce last s sub :
  s_failed (process_error E last s sub) = s_failed s /\ s_log (process_error E last s sub) = s_log s.
Proof. unfold process_error. rewrite Hprod. cbn. split; reflexivity. Qed.

(* one result: the log grows by at most the entry of this send; new failed partitions
   were rejected in that entry *)
Lemma process_result_resend last k s r :
  let s' := process_result E last k s r in
  (exists new, s_log s' = s_log s ++ new /\
               Forall (fun e => l_attempt e = k /\ l_sub e = g_sub (fst r)) new) /\
  (forall y, In y (s_failed s') -> In y (s_failed s) \/ rejected (s_log s') k y).
Proof.
  cbv zeta. unfold process_result. destruct (snd r) as [[a o]|].
  - set (ent := mkLog k a (g_sub (fst r)) o).
    set (s1 := mkSt (s_routes s) (s_rr s) (s_seen s) (s_merged s) (s_failed s) (s_log s ++ [ent])).
    destruct o as [parts| | |].
    + split.
      * exists [ent]. rewrite process_parts_log. split; [reflexivity|]. repeat constructor.
      * intros y Hy. apply process_parts_failed in Hy as [Hy|[x [H1 [H2 H3]]]]; [now left|]. right.
        rewrite process_parts_log. exists ent, parts, (fst (fst x)). cbn [s_log s1].
        split; [apply in_or_app; right; now left|]. split; [reflexivity|]. split; [reflexivity|].
        subst y. unfold rkeyp. cbn [fst snd]. split; [|reflexivity].
        destruct x as [[t p] c]. cbn [fst snd] in *. now subst c.
    + destruct (process_error_produce last s1 (g_sub (fst r))) as [-> ->]. split.
      * exists [ent]. split; [reflexivity|]. repeat constructor.
      * intros y Hy. now left.
    + destruct (process_error_produce last s1 (g_sub (fst r))) as [-> ->]. split.
      * exists [ent]. split; [reflexivity|]. repeat constructor.
      * intros y Hy. now left.
    + destruct (process_error_produce last s1 (g_sub (fst r))) as [-> ->]. split.
      * exists [ent]. split; [reflexivity|]. repeat constructor.
      * intros y Hy. now left.
  - destruct (process_error_produce last s (g_sub (fst r))) as [-> ->]. split.
    + exists []. split; [now rewrite app_nil_r|constructor].
    + intros y Hy. now left.
Qed.

Lemma process_results_resend last k rs s :
  let s' := fold_left (process_result E last k) rs s in
  (exists new, s_log s' = s_log s ++ new /\
               Forall (fun e => l_attempt e = k /\ In (l_sub e) (map (fun r => g_sub (fst r)) rs)) new) /\
  (forall y, In y (s_failed s') -> In y (s_failed s) \/ rejected (s_log s') k y).
Proof.
  cbv zeta. revert s. induction rs as [|r rs IH]; intros s; cbn [fold_left].
  - split; [exists []; split; [now rewrite app_nil_r|constructor]|]. intros y Hy. now left.
  - destruct (process_result_resend last k s r) as [[new1 [L1 F1]] R1]. cbv zeta in *.
    destruct (IH (process_result E last k s r)) as [[new2 [L2 F2]] R2]. split.
    + exists (new1 ++ new2). split; [now rewrite L2, L1, app_assoc|]. apply Forall_app. split.
      * eapply Forall_impl; [|exact F1]. intros e [A B]. split; [exact A|]. cbn [map]. left. now rewrite B.
      * eapply Forall_impl; [|exact F2]. intros e [A B]. split; [exact A|]. cbn [map]. now right.
    + intros y Hy. destruct (R2 y Hy) as [H|H]; [|now right].
      destruct (R1 y H) as [H'|H']; [now left|]. right. rewrite L2. now apply rejected_mono.
Qed.

Lemma attempt_resend dial backend last k s gs :
  let s1 := attempt E dial backend last k s gs in
  (exists new, s_log s1 = s_log s ++ new /\
               Forall (fun e => l_attempt e = k /\ In (l_sub e) (map g_sub gs)) new) /\
  (forall y, In y (s_failed s1) -> rejected (s_log s1) k y).
Proof.
  cbv zeta. unfold attempt.
  pose proof (connect_all_fst E (dial k) gs [] (s_rr s)) as Hc.
  destruct (connect_all E (dial k) gs [] (s_rr s)) as [work rr1]. cbn [fst] in Hc.
  assert (Hs : map fst (fst (send_all backend k work (s_seen s))) = map fst work).
  { clear Hc. generalize (s_seen s). induction work as [|[g [a|]] work IH]; intros seen; cbn [send_all]; [reflexivity| |].
    - specialize (IH (seen_bump a seen)). destruct (send_all backend k work (seen_bump a seen)). cbn [fst map] in *. now rewrite IH.
    - specialize (IH seen). destruct (send_all backend k work seen). cbn [fst map] in *. now rewrite IH. }
  destruct (send_all backend k work (s_seen s)) as [results seen1]. cbn [fst] in Hs.
  set (f := fun r : group * option (bytes * outcome) => is_none (snd r)).
  set (ordered := filter f results ++ filter (fun r => negb (f r)) results).
  destruct (process_results_resend last k ordered
              (mkSt (s_routes s) rr1 seen1 (s_merged s) [] (s_log s))) as [[new [L F]] R].
  cbv zeta in *. cbn [s_log s_failed] in *. split.
  - exists new. split; [exact L|]. eapply Forall_impl; [|exact F]. intros e [A B]. split; [exact A|].
    apply in_map_iff in B as [r [Br Bi]]. apply in_map_iff. exists (fst r). split; [exact Br|].
    rewrite <- Hc, <- Hs. apply in_map. unfold ordered in Bi.
    apply in_app_or in Bi as [Bi|Bi]; apply filter_In in Bi; tauto.
  - intros y Hy. destruct (R y Hy) as [[]|H]. exact H.
Qed.

Lemma in_gtps_sub gs g x : In g gs -> In x (sub_tps E (g_sub g)) -> In x (gtps E gs).
Proof. intros Hg Hx. unfold gtps. apply in_flat_map. now exists g. Qed.

Lemma loop_resend dial backend ord req (Hord : ord_ok ord) fuel : forall k s gs,
  resend_ok (s_log s) ->
  (k = 0 \/ forall x, In x (gtps E gs) -> rejected (s_log s) (k - 1) x) ->
  resend_ok (s_log (loop E dial backend ord req fuel k s gs)).
Proof.
  induction fuel as [|fuel IH]; intros k s gs Hr Hg; cbn [loop]; [exact Hr|].
  set (last := match fuel with O => true | _ => false end).
  destruct (attempt_resend dial backend last k s (ord k gs)) as [[new [L F]] R]. cbv zeta in *.
  set (s1 := attempt E dial backend last k s (ord k gs)) in *.
  assert (H1 : resend_ok (s_log s1)).
  { rewrite L. intros e He x Hx. apply in_app_or in He as [He|He].
    - destruct (Hr e He x Hx) as [H|H]; [now left|right; now apply rejected_mono].
    - rewrite Forall_forall in F. destruct (F e He) as [Ha Hs]. rewrite Ha.
      destruct Hg as [->|Hg]; [now left|]. right. apply rejected_mono. apply Hg.
      apply in_map_iff in Hs as [g [Hg1 Hg2]]. rewrite <- Hg1 in Hx.
      eapply in_gtps_sub; [|exact Hx]. eapply Permutation_in; [apply Hord|exact Hg2]. }
  destruct (s_failed s1) as [|f F1] eqn:EF; [exact H1|].
  destruct (group_by_perm E (fun _ => True) (s_routes s1) req (Some (f :: F1))) as [G1 _].
  destruct (group_by E (s_routes s1) req (Some (f :: F1))) as [|g gs'] eqn:EG; [exact H1|].
  apply IH; [exact H1|]. right. intros x Hx. replace (k + 1 - 1) with k by lia. apply R.
  eapply Permutation_in in Hx; [|exact G1]. apply in_map_iff in Hx as [y [<- Hy]].
  apply filter_In in Hy as [_ Hy]. unfold included in Hy. now apply mem_tpk_In in Hy.
Qed.

Lemma forward_resend dial backend ord maxr rs rr req :
  ord_ok ord -> resend_ok (s_log (snd (forward E dial backend ord maxr rs rr req))).
Proof.
  intros Hord. unfold forward. cbn [snd]. apply loop_resend; [exact Hord| |now left].
  intros e [].
Qed.

End Resend.
