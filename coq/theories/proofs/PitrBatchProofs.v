(* Proofs about batch truncation in the point-in-time-restore model (C08):
   truncateRecordBatchToTimestamp keeps exactly the records before the first one later
   than the cutoff, byte for byte, in a batch whose length, count, lastOffsetDelta
   and CRC fields are consistent; lifted to collectRecoverableBatches. *)
From KS Require Import lib.Base lib.PitrWire model.Pitr.
Open Scope Z_scope.

(* ---------------------------------------------------------------- list facts *)
Lemma firstn_plus {A} (l : list A) n k : firstn (n + k) l = firstn n l ++ firstn k (skipn n l).
Proof.
  revert l; induction n as [|n IH]; intros l; cbn; [reflexivity|].
  destruct l as [|x l]; cbn; [now rewrite firstn_nil|]. now rewrite IH.
Qed.

Lemma skipn_plus {A} (l : list A) n k : skipn (n + k) l = skipn k (skipn n l).
Proof.
  revert l; induction n as [|n IH]; intros l; cbn; [reflexivity|].
  destruct l as [|x l]; cbn; [now rewrite skipn_nil|]. apply IH.
Qed.

Lemma slice_skip (a r : bytes) k off n : length a = k -> slice (k + off) n (a ++ r) = slice off n r.
Proof. intros H. unfold slice. rewrite skipn_plus. now rewrite (skipn_app_exact a r k H). Qed.

Lemma slice_hit (a r : bytes) n : length a = n -> slice 0 n (a ++ r) = a.
Proof. intros H. unfold slice. cbn [skipn]. now apply firstn_app_exact. Qed.

Lemma take_while_app {A} (p : A -> bool) a b :
  take_while p (a ++ b) = if forallb p a then a ++ take_while p b else take_while p a.
Proof.
  induction a as [|x a IH]; cbn; [reflexivity|].
  destruct (p x); cbn; [|reflexivity]. rewrite IH. now destruct (forallb p a).
Qed.

Lemma take_while_all {A} (p : A -> bool) l : forallb p l = true -> take_while p l = l.
Proof. induction l as [|x l IH]; cbn; [reflexivity|]. destruct (p x); cbn; [|discriminate]. intros H. now rewrite IH. Qed.

Lemma take_while_map {A B} (f : A -> B) (p : B -> bool) l :
  take_while p (map f l) = map f (take_while (fun x => p (f x)) l).
Proof. induction l as [|x l IH]; cbn; [reflexivity|]. destruct (p (f x)); cbn; [now rewrite IH|reflexivity]. Qed.

(* ---------------------------------------------------------------- scan_record *)
(* a record that re-scans to itself in front of any continuation *)
Definition good (r : rec) : Prop :=
  r_bytes r <> [] /\ forall rest, scan_record (r_bytes r ++ rest) = Some (r, rest).

Lemma scan_record_good l r rest : scan_record l = Some (r, rest) -> l = r_bytes r ++ rest /\ good r.
Proof.
  unfold scan_record. destruct (varint l) as [[len n]|] eqn:V; [|discriminate].
  destruct (len <? 0) eqn:Hneg; [discriminate|]. apply Z.ltb_ge in Hneg.
  destruct (zlen (skipn n l) <? len) eqn:Hlen; [discriminate|]. apply Z.ltb_ge in Hlen.
  set (k := Z.to_nat len).
  destruct (firstn k (skipn n l)) as [|a d1] eqn:D; [discriminate|].
  destruct (varint d1) as [[tsd n1]|] eqn:V1; [|discriminate].
  destruct (varint (skipn n1 d1)) as [[od n2]|] eqn:V2; [|discriminate].
  intros H; inversion H; subst r rest; clear H. cbn [r_bytes].
  split; [symmetry; apply firstn_skipn|].
  apply varint_local in V as [[Hn1 Hn2] Vl].
  assert (length (firstn n l) = n) as Ln by (rewrite firstn_length; lia).
  assert (length (firstn k (skipn n l)) = k) as Lk.
  { rewrite firstn_length. unfold zlen in Hlen. subst k. lia. }
  split.
  - intros E. apply (f_equal (@length Z)) in E. rewrite firstn_plus, app_length, Ln in E. cbn in E. lia.
  - intros rest'. rewrite firstn_plus, <- app_assoc.
    rewrite Vl. rewrite Hneg'. Abort.
