(* Proofs about batch truncation in the point-in-time-restore model (C08):
   truncateRecordBatchToTimestamp keeps exactly the records before the first one later
   than the cutoff, byte for byte, in a batch whose length, count, lastOffsetDelta
   and CRC fields are consistent; lifted to collectRecoverableBatches. *)
From KS Require Import lib.Base lib.PitrWire model.Pitr.
Open Scope Z_scope.

(* ---------------------------------------------------------------- list facts *)
Lemma firstn_plus {A} (l : list A) n k : firstn (n + k) l = firstn n l ++ firstn k (skipn n l).
Proof.
  revert l; induction n as [|n IH]; intros l; cbn; [reflexivity|].
  destruct l as [|x l]; cbn; [now rewrite firstn_nil|]. now rewrite IH.
Qed.

Lemma skipn_plus {A} (l : list A) n k : skipn (n + k) l = skipn k (skipn n l).
Proof.
  revert l; induction n as [|n IH]; intros l; cbn; [reflexivity|].
  destruct l as [|x l]; cbn; [now rewrite skipn_nil|]. apply IH.
Qed.

Lemma slice_skip (a r : bytes) k off n : length a = k -> slice (k + off) n (a ++ r) = slice off n r.
Proof. intros H. unfold slice. rewrite skipn_plus. now rewrite (skipn_app_exact a r k H). Qed.

Lemma slice_hit (a r : bytes) n : length a = n -> slice 0 n (a ++ r) = a.
Proof. intros H. unfold slice. cbn [skipn]. now apply firstn_app_exact. Qed.

Lemma take_while_app {A} (p : A -> bool) a b :
  take_while p (a ++ b) = if forallb p a then a ++ take_while p b else take_while p a.
Proof.
  induction a as [|x a IH]; cbn; [reflexivity|].
  destruct (p x); cbn; [|reflexivity]. rewrite IH. now destruct (forallb p a).
Qed.

Lemma take_while_all {A} (p : A -> bool) l : forallb p l = true -> take_while p l = l.
Proof. induction l as [|x l IH]; cbn; [reflexivity|]. destruct (p x); cbn; [|discriminate]. intros H. now rewrite IH. Qed.

Lemma take_while_map {A B} (f : A -> B) (p : B -> bool) l :
  take_while p (map f l) = map f (take_while (fun x => p (f x)) l).
Proof. induction l as [|x l IH]; cbn; [reflexivity|]. destruct (p (f x)); cbn; [now rewrite IH|reflexivity]. Qed.

(* ---------------------------------------------------------------- int64 round trip *)
Lemma be_dec_enc_mod n : forall v acc, be_dec (be_enc n v) acc = acc * 256 ^ Z.of_nat n + v mod 256 ^ Z.of_nat n.
Proof.
  induction n as [|n IH]; intros v acc.
  - cbn. rewrite Z.mod_1_r. lia.
  - cbn [be_enc]. rewrite be_dec_app. cbn [be_dec]. rewrite IH.
    rewrite Nat2Z.inj_succ, Z.pow_succ_r by lia.
    rewrite (Z.rem_mul_r v 256 (256 ^ Z.of_nat n)) by lia. lia.
Qed.
Ltac pows := change (2 ^ (64 - 1)) with 9223372036854775808 in *; change (2 ^ 64) with 18446744073709551616 in *; change (2 ^ 63) with 9223372036854775808 in *.
Lemma wrap_s_range v : - 2 ^ 63 <= wrap_s 64 v < 2 ^ 63.
Proof.
  unfold wrap_s, to_signed. pows. pose proof (Z.mod_pos_bound v 18446744073709551616 ltac:(lia)) as H.
  destruct (v mod 18446744073709551616 <? 9223372036854775808) eqn:E; [apply Z.ltb_lt in E|apply Z.ltb_ge in E]; lia.
Qed.
Lemma i64_enc v : - 2 ^ 63 <= v < 2 ^ 63 -> i64 (be_enc 8 v) = v.
Proof.
  intros H. unfold i64, be_u. rewrite be_dec_enc_mod. cbn [Z.of_nat Pos.of_succ_nat Pos.succ]. 
  change (256 ^ 8) with 18446744073709551616. unfold to_signed. pows.
  destruct (Z_lt_dec v 0) as [Hn|Hp].
  - replace (v mod 18446744073709551616) with (v + 18446744073709551616) by (apply Z.mod_unique with (q := -1); lia).
    destruct (0 * 18446744073709551616 + (v + 18446744073709551616) <? 9223372036854775808) eqn:E; [apply Z.ltb_lt in E; lia|lia].
  - rewrite Z.mod_small by lia.
    destruct (0 * 18446744073709551616 + v <? 9223372036854775808) eqn:E; [lia|apply Z.ltb_ge in E; lia].
Qed.

(* ---------------------------------------------------------------- scan_record *)
(* a record that re-scans to itself in front of any continuation *)
Definition good (r : rec) : Prop :=
  r_bytes r <> [] /\ forall rest, scan_record (r_bytes r ++ rest) = Some (r, rest).

Lemma scan_record_good l r rest : scan_record l = Some (r, rest) -> l = r_bytes r ++ rest /\ good r.
Proof.
  unfold scan_record. destruct (varint l) as [[len n]|] eqn:V; [|discriminate].
  destruct (len <? 0) eqn:Hneg; [discriminate|]. apply Z.ltb_ge in Hneg.
  destruct (zlen (skipn n l) <? len) eqn:Hlen; [discriminate|]. apply Z.ltb_ge in Hlen.
  set (k := Z.to_nat len).
  destruct (firstn k (skipn n l)) as [|a d1] eqn:D; [discriminate|].
  destruct (varint d1) as [[tsd n1]|] eqn:V1; [|discriminate].
  destruct (varint (skipn n1 d1)) as [[od n2]|] eqn:V2; [|discriminate].
  intros H; inversion H; subst r rest; clear H. cbn [r_bytes].
  split; [symmetry; apply firstn_skipn|].
  apply varint_local in V as [[Hn1 Hn2] Vl].
  assert (length (firstn n l) = n) as Ln by (rewrite firstn_length; lia).
  assert (length (firstn k (skipn n l)) = k) as Lk.
  { rewrite firstn_length. unfold zlen in Hlen. subst k. lia. }
  split.
  - intros E. apply (f_equal (@length Z)) in E. cbn [r_bytes] in E.
    rewrite firstn_plus, app_length, Ln in E. cbn in E. lia.
  - intros rest'. cbn [r_bytes]. rewrite firstn_plus, <- app_assoc.
    set (A := firstn n l) in *. set (B := firstn k (skipn n l)) in *.
    unfold scan_record. rewrite Vl.
    assert ((len <? 0) = false) as -> by (apply Z.ltb_ge; lia).
    rewrite (skipn_app_exact A (B ++ rest') n Ln).
    assert ((zlen (B ++ rest') <? len) = false) as ->.
    { apply Z.ltb_ge. unfold zlen. rewrite app_length, Lk. subst k. lia. }
    fold k. rewrite (firstn_app_exact B rest' k Lk). rewrite D, V1, V2.
    f_equal. f_equal.
    + f_equal. rewrite firstn_plus. rewrite (firstn_app_exact A _ n Ln), (skipn_app_exact A _ n Ln).
      rewrite <- D. now rewrite (firstn_app_exact B rest' k Lk).
    + rewrite skipn_plus, (skipn_app_exact A _ n Ln). rewrite <- D. apply (skipn_app_exact B rest' k Lk).
Qed.

(* ---------------------------------------------------------------- record lists *)
Lemma parse_good : forall f cnt data rs, parse_records f cnt data = Some rs ->
  Forall good rs /\ zlen rs = Z.max 0 cnt.
Proof.
  induction f as [|f IH]; intros cnt data rs H; cbn in H; [discriminate|].
  destruct (cnt <=? 0) eqn:Hc.
  - inversion H; subst. split; [constructor|]. apply Z.leb_le in Hc. cbn. lia.
  - apply Z.leb_gt in Hc. destruct (scan_record data) as [[r rest]|] eqn:S; [|discriminate].
    destruct (parse_records f (cnt - 1) rest) as [rs'|] eqn:P; [|discriminate].
    inversion H; subst. apply IH in P as [P1 P2]. apply scan_record_good in S as [_ G].
    split; [constructor; assumption|]. rewrite zlen_cons. lia.
Qed.

Definition keep_p (first T : Z) (r : rec) : bool := rec_ts first r <=? T.

Lemma scan_keep_parse : forall f cnt data first T rs, parse_records f cnt data = Some rs ->
  scan_keep f cnt data first T = Some (take_while (keep_p first T) rs).
Proof.
  induction f as [|f IH]; intros cnt data first T rs H; cbn in H; [discriminate|]. cbn [scan_keep].
  destruct (cnt <=? 0); [inversion H; reflexivity|].
  destruct (scan_record data) as [[r rest]|]; [|discriminate].
  destruct (parse_records f (cnt - 1) rest) as [rs'|] eqn:P; [|discriminate].
  inversion H; subst. cbn [take_while]. unfold keep_p at 1.
  destruct (T <? rec_ts first r) eqn:E.
  - apply Z.ltb_lt in E. destruct (rec_ts first r <=? T) eqn:E2; [apply Z.leb_le in E2; lia|reflexivity].
  - apply Z.ltb_ge in E. destruct (rec_ts first r <=? T) eqn:E2; [|apply Z.leb_gt in E2; lia].
    now rewrite (IH _ _ first T _ P).
Qed.

Lemma parse_concat : forall rs, Forall good rs -> forall f rest, (length rs < f)%nat ->
  parse_records f (zlen rs) (concat (map r_bytes rs) ++ rest) = Some rs.
Proof.
  induction rs as [|r rs IH]; intros G f rest Hf; destruct f as [|f]; try lia; cbn [parse_records].
  - reflexivity.
  - rewrite zlen_cons. pose proof (zlen_nonneg rs) as Hn.
    destruct (1 + zlen rs <=? 0) eqn:E; [apply Z.leb_le in E; lia|].
    inversion G as [|? ? [_ Gr] G']; subst. cbn [map concat]. rewrite <- app_assoc, Gr.
    replace (1 + zlen rs - 1) with (zlen rs) by lia.
    rewrite IH; [reflexivity|assumption|cbn in Hf; lia].
Qed.

Lemma concat_len_ge rs : Forall good rs -> (length rs <= length (concat (map r_bytes rs)))%nat.
Proof.
  induction 1 as [|r rs [Hne _] _ IH]; cbn; [lia|]. rewrite app_length.
  destruct (r_bytes r); [contradiction|]. cbn. lia.
Qed.

Lemma take_while_forall {A} (P : A -> Prop) p l : Forall P l -> Forall P (take_while p l).
Proof. induction 1; cbn; [constructor|]. destruct (p x); constructor; assumption. Qed.

Lemma take_while_len {A} (p : A -> bool) l : zlen (take_while p l) <= zlen l.
Proof.
  induction l as [|x l IH]; cbn [take_while]; [lia|]. destruct (p x); rewrite ?zlen_cons; [lia|].
  rewrite zlen_nil. pose proof (zlen_nonneg l). lia.
Qed.

Lemma take_while_full {A} (p : A -> bool) l : zlen (take_while p l) = zlen l -> take_while p l = l.
Proof.
  induction l as [|x l IH]; cbn [take_while]; [reflexivity|]. destruct (p x).
  - rewrite !zlen_cons. intros H. f_equal. apply IH. lia.
  - rewrite zlen_cons, zlen_nil. pose proof (zlen_nonneg l). lia.
Qed.

(* ---------------------------------------------------------------- the header *)
Definition hdr_wf (h : hdr) : Prop :=
  length (h_base h) = 8%nat /\ length (h_len h) = 4%nat /\ length (h_ple h) = 5%nat /\
  length (h_crc h) = 4%nat /\ length (h_attr h) = 2%nat /\ length (h_lod h) = 4%nat /\
  length (h_first h) = 8%nat /\ length (h_max h) = 8%nat /\ length (h_mid h) = 14%nat /\
  length (h_cnt h) = 4%nat.

Ltac explode l := repeat (destruct l as [|? l]; [discriminate|]); destruct l; [|discriminate].

Lemma render_facts h data : hdr_wf h ->
  split_header (render h data) = (h, data) /\
  skipn 21 (render h data) = tail21 h data /\
  zlen (render h data) = 61 + zlen data.
Proof.
  destruct h as [c0 c1 c2 c3 c4 c5 c6 c7 c8 c9]. unfold hdr_wf. cbn [h_base h_len h_ple h_crc h_attr h_lod h_first h_max h_mid h_cnt].
  intros (H0 & H1 & H2 & H3 & H4 & H5 & H6 & H7 & H8 & H9).
  explode c0. explode c1. explode c2. explode c3. explode c4. explode c5. explode c6. explode c7. explode c8. explode c9.
  repeat split.
  unfold render, tail21, zlen. cbn [h_base h_len h_ple h_crc h_attr h_lod h_first h_max h_mid h_cnt app length]. lia.
Qed.

Lemma split_wf b : 61 <= zlen b -> hdr_wf (fst (split_header b)).
Proof.
  unfold zlen. intros H. unfold split_header, hdr_wf. cbn [fst h_base h_len h_ple h_crc h_attr h_lod h_first h_max h_mid h_cnt].
  repeat split; apply slice_length; lia.
Qed.

Lemma max_ts_le first T : forall rs m,
  max_ts first m rs <= T <-> m <= T /\ forallb (keep_p first T) rs = true.
Proof.
  induction rs as [|r rs IH]; intros m; cbn [max_ts forallb].
  - split; [intros H; split; [assumption|reflexivity]|tauto].
  - rewrite IH. unfold keep_p at 2. destruct (m <? rec_ts first r) eqn:E.
    + apply Z.ltb_lt in E. split.
      * intros [H1 H2]. split; [lia|]. apply andb_true_iff. split; [apply Z.leb_le; lia|assumption].
      * intros [H1 H2]. apply andb_true_iff in H2 as [H2 H3]. apply Z.leb_le in H2. tauto.
    + apply Z.ltb_ge in E. split.
      * intros [H1 H2]. split; [lia|]. apply andb_true_iff. split; [apply Z.leb_le; lia|assumption].
      * intros [H1 H2]. apply andb_true_iff in H2 as [H2 H3]. tauto.
Qed.

Section Batch.
Variable crc : bytes -> Z.

(* the header fields the property names, for a batch holding the records rs *)
Definition valid_fields (b' : bytes) (rs : list rec) : Prop :=
  slice 8 4 b' = be_enc 4 (zlen b' - 12) /\
  slice 17 4 b' = be_enc 4 (crc (skipn 21 b')) /\
  slice 23 4 b' = be_enc 4 (r_od (last rs (mkRec [] 0 0))) /\
  slice 57 4 b' = be_enc 4 (zlen rs).

Theorem truncate_spec b T keep done :
  hdr_consistent b -> truncate_batch crc b T = Ok (keep, done) ->
  exists base first rs, batch_view b = Some (base, first, rs) /\
    let kept := take_while (keep_p first T) rs in
    match keep with
    | None => kept = []
    | Some b' => kept <> [] /\ batch_view b' = Some (base, first, kept) /\ (b' = b \/ valid_fields b' kept) /\
                 hdr_consistent b'
    end /\
    (done = false <-> kept = rs).
Proof.
  intros Hcons. pose proof Hcons as [Hlen Hc]. destruct (batch_view b) as [[[base first] rs]|] eqn:V; [|contradiction].
  destruct Hc as (Hne & Hsz & Hfirst & Hmax & Hattr & Hlod).
  intros H. exists base, first, rs. split; [reflexivity|]. cbn zeta.
  pose proof V as V0.
  unfold batch_view in V. assert ((zlen b <? 61) = false) as L61 by (apply Z.ltb_ge; lia). rewrite L61 in V.
  cbn [split_header h_base h_first h_cnt] in V.
  set (data := skipn 61 b) in *.
  destruct (parse_records (S (length data)) (i32 (slice 57 4 b)) data) as [rs0|] eqn:P; [|discriminate].
  injection V as Eb Ef Er. subst rs0.
  pose proof (parse_good _ _ _ _ P) as [G Hcnt].
  assert (0 < zlen rs) as Hpos.
  { destruct rs; [contradiction|]. rewrite zlen_cons. pose proof (zlen_nonneg rs). lia. }
  assert (i32 (slice 57 4 b) = zlen rs) as Hc32 by lia.
  unfold truncate_batch in H. rewrite L61 in H. cbn [split_header] in H. fold data in H.
  cbn [h_base h_len h_ple h_crc h_attr h_lod h_first h_max h_mid h_cnt] in H.
  rewrite Ef in H. rewrite Hmax in H.
  set (kept := take_while (keep_p first T) rs).
  destruct (max_ts first first rs <=? T) eqn:Emax.
  { (* whole batch before the cutoff *)
    apply Z.leb_le in Emax. apply max_ts_le in Emax as [_ Hall].
    unfold new_batch in H. assert ((b_lod b <? 0) = false) as Hl0 by (apply Z.ltb_ge; lia). rewrite Hl0 in H.
    injection H as <- <-. assert (kept = rs) as Hk by (apply take_while_all; exact Hall).
    rewrite Hk. split; [|tauto]; split; [assumption|]; split; [assumption|]; split; [now left|exact Hcons]. }
  apply Z.leb_gt in Emax.
  destruct (T <? first) eqn:Efirst.
  { apply Z.ltb_lt in Efirst. injection H as <- <-.
    assert (kept = []) as Hk.
    { subst kept. destruct rs as [|r0 rs']; [contradiction|]. cbn [take_while hd] in *. unfold keep_p.
      rewrite Hfirst. destruct (first <=? T) eqn:E; [apply Z.leb_le in E; lia|reflexivity]. }
    rewrite Hk. split; [reflexivity|]. split; [discriminate|]. intros E. symmetry in E. contradiction. }
  apply Z.ltb_ge in Efirst.
  rewrite Hattr in H. cbn [Z.eqb negb] in H.
  rewrite (scan_keep_parse _ _ _ first T _ P) in H. fold kept in H.
  destruct (zlen kept =? 0) eqn:E0.
  { apply Z.eqb_eq in E0. injection H as <- <-.
    assert (kept = []) as Hk by (destruct kept; [reflexivity|rewrite zlen_cons in E0; pose proof (zlen_nonneg kept); lia]).
    rewrite Hk. split; [reflexivity|]. split; [discriminate|]. intros E. symmetry in E. contradiction. }
  apply Z.eqb_neq in E0.
  rewrite Hc32 in H.
  destruct (zlen kept =? zlen rs) eqn:Eall.
  { (* impossible under the guard: every record kept although maxTimestamp > T *)
    apply Z.eqb_eq in Eall. apply take_while_full in Eall. exfalso.
    assert (forallb (keep_p first T) rs = true) as Hall.
    { fold kept in Eall. clear - Eall. subst kept. induction rs as [|r rs IH]; [reflexivity|].
      cbn [take_while] in Eall. cbn [forallb]. destruct (keep_p first T r); [|discriminate].
      injection Eall as Eall. now rewrite IH. }
    assert (max_ts first first rs <= T) by (apply max_ts_le; split; [lia|assumption]). lia. }
  apply Z.eqb_neq in Eall.
  (* the rewritten batch *)
  set (data' := concat (map r_bytes kept)) in *.
  match type of H with new_batch (render ?hh _) _ = _ => set (h2 := hh) in * end.
  pose proof (split_wf b Hlen) as Wb. unfold split_header, hdr_wf in Wb.
  cbn [fst h_base h_len h_ple h_crc h_attr h_lod h_first h_max h_mid h_cnt] in Wb.
  destruct Wb as (W0 & W1 & W2 & W3 & W4 & W5 & W6 & W7 & W8 & W9).
  assert (hdr_wf h2) as W.
  { unfold hdr_wf, h2. cbn [h_base h_len h_ple h_crc h_attr h_lod h_first h_max h_mid h_cnt].
    rewrite !be_enc_length. repeat split; assumption. }
  destruct (render_facts h2 data' W) as (R1 & R2 & R3).
  unfold new_batch in H. destruct (b_lod (render h2 data') <? 0) eqn:Elod; [discriminate|]. apply Z.ltb_ge in Elod.
  injection H as <- <-.
  assert (Forall good kept) as Gk by (apply take_while_forall; exact G).
  pose proof (take_while_len (keep_p first T) rs) as Hle. fold kept in Hle.
  pose proof (zlen_nonneg kept) as Hk0.
  split; [|split; [discriminate|intros E; rewrite E in Eall; lia]].
  split; [intros E; rewrite E in E0; cbn in E0; lia|].
  assert (batch_view (render h2 data') = Some (base, first, kept)) as Vb'.
  { unfold batch_view. assert ((zlen (render h2 data') <? 61) = false) as -> by (apply Z.ltb_ge; pose proof (zlen_nonneg data'); lia).
    rewrite R1. unfold h2 at 1. cbn [h_cnt]. rewrite i32_enc by lia.
    pose proof (parse_concat kept Gk (S (length data')) []) as PC. rewrite app_nil_r in PC. fold data' in PC.
    rewrite PC by (pose proof (concat_len_ge kept Gk); fold data' in H; lia).
    unfold h2. cbn [h_base h_first]. now rewrite Eb, Ef. }
  assert (fst (split_header (render h2 data')) = h2) as F by (now rewrite R1).
  unfold split_header in F. cbn [fst] in F.
  pose proof (f_equal h_len F) as F1. pose proof (f_equal h_crc F) as F3. pose proof (f_equal h_attr F) as F4.
  pose proof (f_equal h_lod F) as F5. pose proof (f_equal h_max F) as F7. pose proof (f_equal h_cnt F) as F9.
  cbn [h_len h_crc h_attr h_lod h_max h_cnt] in F1, F3, F4, F5, F7, F9.
  split; [exact Vb'|]. split.
  - right. unfold valid_fields. repeat split.
    + rewrite F1, R3. unfold h2. cbn [h_len]. reflexivity.
    + rewrite F3, R2. unfold h2. cbn [h_crc]. reflexivity.
    + rewrite F5. reflexivity.
    + rewrite F9. reflexivity.
  - (* the output satisfies the guard again *)
    unfold hdr_consistent. split; [pose proof (zlen_nonneg data'); lia|]. rewrite Vb'.
    assert (- 2 ^ 63 <= first < 2 ^ 63) as Rf by (rewrite <- Hfirst; apply wrap_s_range).
    assert (forall l m, - 2 ^ 63 <= m < 2 ^ 63 -> - 2 ^ 63 <= max_ts first m l < 2 ^ 63) as Rm.
    { induction l as [|r l IHl]; intros m Hm; cbn [max_ts]; [exact Hm|]. apply IHl.
      destruct (m <? rec_ts first r); [apply wrap_s_range|exact Hm]. }
    repeat split.
    + intros E; rewrite E in E0; cbn in E0; lia.
    + lia.
    + destruct rs as [|r0 rs']; [contradiction|]. cbn [hd] in Hfirst. subst kept. cbn [take_while] in *.
      destruct (keep_p first T r0); [exact Hfirst|cbn in E0; lia].
    + rewrite F7. unfold h2. cbn [h_max]. apply i64_enc, Rm, Rf.
    + rewrite F4. unfold h2. cbn [h_attr]. exact Hattr.
    + exact Elod.
Qed.

End Batch.

(* ---------------------------------------------------------------- segment body *)
Lemma slice_app_l (a r : bytes) off n : (off + n <= length a)%nat -> slice off n (a ++ r) = slice off n a.
Proof.
  intros H. unfold slice. rewrite skipn_app. rewrite firstn_app.
  replace (n - length (skipn off a))%nat with 0%nat by (rewrite skipn_length; lia).
  cbn [firstn]. apply app_nil_r.
Qed.

Lemma take_while_all_inv {A} (p : A -> bool) l : take_while p l = l -> forallb p l = true.
Proof.
  induction l as [|x l IH]; cbn; [reflexivity|]. destruct (p x); [|discriminate].
  intros H. injection H as H. now apply IH.
Qed.

Definition recs_of (b : bytes) : list (Z * Z * bytes) :=
  match batch_records b with Some l => l | None => [] end.

Section Segment.
Variable crc : bytes -> Z.

(* a source frame: batchLength = len - 12 and the guard on the header *)
Definition frame_ok (b : bytes) : Prop := be_u (slice 8 4 b) = zlen b - 12 /\ hdr_consistent b.

(* an output batch is a source batch, or a rewritten one with consistent fields *)
Definition out_ok (bs : list bytes) (b' : bytes) : Prop :=
  (In b' bs \/ exists base first rs', batch_view b' = Some (base, first, rs') /\ valid_fields crc b' rs') /\
  hdr_consistent b'.

Lemma recs_view b base first rs : batch_view b = Some (base, first, rs) -> recs_of b = map (rview base first) rs.
Proof. intros V. unfold recs_of, batch_records. now rewrite V. Qed.

Lemma ts_ok_view T base first rs :
  take_while (ts_ok T) (map (rview base first) rs) = map (rview base first) (take_while (keep_p first T) rs).
Proof. rewrite take_while_map. reflexivity. Qed.

Theorem collect_spec T : forall bs fuel out,
  Forall frame_ok bs -> (length bs < fuel)%nat ->
  collect crc fuel (concat bs) T = Ok out ->
  concat (map recs_of out) = take_while (ts_ok T) (concat (map recs_of bs)) /\ Forall (out_ok bs) out.
Proof.
  induction bs as [|b bs IH]; intros fuel out HF Hfuel H; destruct fuel as [|fuel]; try lia; cbn [collect concat] in H.
  - cbn in H. injection H as <-. split; [reflexivity|constructor].
  - inversion HF as [|? ? [Hbl Hc] HF']; subst.
    pose proof Hc as [Hlen _]. unfold zlen in Hlen.
    assert ((zlen (b ++ concat bs) <? 12) = false) as E1 by (apply Z.ltb_ge; rewrite zlen_app; pose proof (zlen_nonneg (concat bs)); unfold zlen at 1; lia).
    rewrite E1 in H. rewrite (slice_app_l b (concat bs) 8 4) in H by lia. rewrite Hbl in H.
    assert ((zlen b - 12 <=? 0) = false) as E2 by (apply Z.leb_gt; unfold zlen; lia). rewrite E2 in H.
    replace (12 + (zlen b - 12)) with (zlen b) in H by lia.
    assert ((zlen (b ++ concat bs) <? zlen b) = false) as E3 by (apply Z.ltb_ge; rewrite zlen_app; pose proof (zlen_nonneg (concat bs)); lia).
    rewrite E3 in H. unfold zlen in H at 1 2. rewrite Nat2Z.id in H.
    rewrite (firstn_app_exact b (concat bs) _ eq_refl), (skipn_app_exact b (concat bs) _ eq_refl) in H.
    destruct (truncate_batch crc b T) as [[keep done]|] eqn:Tr; [|discriminate].
    destruct (truncate_spec crc b T keep done Hc Tr) as (base & first & rs & V & Hkeep & Hdone).
    cbn zeta in Hkeep, Hdone. set (kept := take_while (keep_p first T) rs) in *.
    cbn [map concat]. rewrite (recs_view _ _ _ _ V). rewrite take_while_app, ts_ok_view. fold kept.
    assert (forallb (ts_ok T) (map (rview base first) rs) = true <-> kept = rs) as Hall.
    { assert (forallb (ts_ok T) (map (rview base first) rs) = forallb (keep_p first T) rs) as ->.
      { clear. induction rs as [|r rs IHr]; cbn [map forallb]; [reflexivity|]. now rewrite IHr. }
      split; [apply take_while_all|apply take_while_all_inv]. }
    assert (out_pre : forall pre, match keep with Some b' => [b'] | None => [] end = pre ->
              concat (map recs_of pre) = map (rview base first) kept /\ Forall (out_ok (b :: bs)) pre).
    { intros pre <-. destruct keep as [b'|].
      - destruct Hkeep as (Hk1 & Vb' & Hval & Hcb'). cbn [map concat]. rewrite (recs_view _ _ _ _ Vb'), app_nil_r.
        split; [reflexivity|]. constructor; [|constructor].
        split; [|exact Hcb']. destruct Hval as [->|Hval]; [left; now left|right; eauto].
      - rewrite Hkeep. split; [reflexivity|constructor]. }
    destruct done.
    + injection H as <-. destruct (out_pre _ eq_refl) as [O1 O2]. split; [|exact O2].
      rewrite O1. destruct (forallb (ts_ok T) (map (rview base first) rs)) eqn:Ef; [|reflexivity].
      pose proof (proj1 Hall eq_refl) as Ek. destruct Hdone as [_ Hd]. specialize (Hd Ek). discriminate.
    + destruct (collect crc fuel (concat bs) T) as [rest|] eqn:Co; [|discriminate]. injection H as <-.
      destruct (IH fuel rest HF' ltac:(cbn in Hfuel; lia) Co) as [I1 I2].
      destruct (out_pre _ eq_refl) as [O1 O2].
      destruct Hdone as [Hd _]. specialize (Hd eq_refl).
      rewrite (proj2 Hall Hd). rewrite map_app, concat_app, O1, I1, Hd. split; [reflexivity|].
      apply Forall_app. split; [exact O2|].
      eapply Forall_impl; [|exact I2]. intros x [[Hin|Hx] Hcx]; (split; [|exact Hcx]); [left; now right|right; exact Hx].
Qed.

End Segment.

(* ---------------------------------------------------------------- the restore plan *)
Definition seg_body (seg : bytes) : bytes := firstn (length seg - 48) (skipn 32 seg).

(* a well-formed source segment: 32-byte header with the magic, the frames, 16-byte footer *)
Definition seg_wf (seg : bytes) (bs : list bytes) : Prop :=
  exists hd ft, seg = hd ++ concat bs ++ ft /\ length hd = 32%nat /\ length ft = 16%nat /\
                firstn 4 hd = magic_kafs /\ Forall frame_ok bs.

Lemma seg_body_eq hd body ft : length hd = 32%nat -> length ft = 16%nat -> seg_body (hd ++ body ++ ft) = body.
Proof.
  intros H1 H2. unfold seg_body. rewrite (skipn_app_exact hd _ 32 H1).
  rewrite !app_length, H1, H2. replace (32 + (length body + 16) - 48)%nat with (length body) by lia.
  now apply firstn_app_exact.
Qed.

Lemma frames_len bs : Forall frame_ok bs -> (length bs <= length (concat bs))%nat.
Proof.
  induction 1 as [|b bs [_ [Hl _]] _ IH]; cbn; [lia|]. rewrite app_length. unfold zlen in Hl. lia.
Qed.

Section Plan.
Variable crc : bytes -> Z.

Theorem plan_spec seg bs ix T created : seg_wf seg bs ->
  match build_plan crc seg ix T created with
  | Err => True
  | Ok None => take_while (ts_ok T) (concat (map recs_of bs)) = []
  | Ok (Some a) =>
      exists out, out <> [] /\ seg_body (a_seg a) = concat out /\
        concat (map recs_of out) = take_while (ts_ok T) (concat (map recs_of bs)) /\
        Forall (out_ok crc bs) out /\ a_base a = b_base (hd [] out)
  end.
Proof.
  intros (hd0 & ft & -> & Hh & Hf & Hm & HF). unfold build_plan.
  destruct (index_interval ix) as [iv|]; [|exact I].
  unfold collect_segment.
  assert ((zlen (hd0 ++ concat bs ++ ft) <? 48) = false) as ->.
  { apply Z.ltb_ge. unfold zlen. rewrite !app_length, Hh, Hf. lia. }
  assert (firstn 4 (hd0 ++ concat bs ++ ft) = magic_kafs) as ->.
  { rewrite firstn_app, Hh. cbn [Nat.sub firstn]. now rewrite app_nil_r. }
  cbn [bytes_eqb magic_kafs Z.eqb Pos.eqb andb negb].
  fold (seg_body (hd0 ++ concat bs ++ ft)). rewrite (seg_body_eq _ _ _ Hh Hf).
  destruct (collect crc (S (length (concat bs))) (concat bs) T) as [out|] eqn:Co; [|exact I].
  pose proof (frames_len bs HF) as Hfl.
  destruct (collect_spec crc T bs (S (length (concat bs))) out HF ltac:(lia) Co) as [C1 C2].
  destruct out as [|o out'].
  - cbn in C1. now rewrite <- C1.
  - exists (o :: out'). split; [discriminate|]. split; [|split; [exact C1|split; [exact C2|reflexivity]]].
    unfold build_segment. cbn [a_seg]. apply seg_body_eq.
    + rewrite !app_length, !be_enc_length. reflexivity.
    + rewrite !app_length, !be_enc_length. reflexivity.
Qed.

End Plan.
