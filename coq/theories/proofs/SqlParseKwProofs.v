(* Keyword-case variants (ASCII case changed outside quoted literals only) parse
   alike: the relation survives every trimming / slicing step between Parse's
   argument and the text handed to parseTSFilters, so the timestamp oracle only
   has to be insensitive to the case of text outside quoted literals. *)
From Coq Require Import ZifyBool.
From KS Require Import lib.Base model.SqlParse proofs.SqlParseCaseProofs proofs.SqlProxyStringProofs.
Open Scope Z_scope.

Notation L := ascii_lower.

Lemma kv_ceq : forall a b q, kwvar_go q a b -> L a = L b.
Proof.
  induction a as [|x a IH]; intros [|y b] q H; cbn [kwvar_go] in H; try contradiction; [reflexivity|].
  destruct H as [Hx Hr]. rewrite !L_cons. f_equal; [destruct q; congruence|eapply IH; eauto].
Qed.

Lemma kv_firstn : forall n a b q, kwvar_go q a b -> kwvar_go q (firstn n a) (firstn n b).
Proof.
  induction n as [|n IH]; intros a b q H; [exact I|].
  destruct a as [|x a], b as [|y b]; cbn [kwvar_go] in H; try contradiction; [exact I|].
  cbn [firstn kwvar_go]. destruct H as [Hx Hr]. split; [exact Hx|now apply IH].
Qed.

Lemma kv_skipn : forall n a b q, kwvar_go q a b -> (forall x, In x (firstn n a) -> x <> 39) ->
  kwvar_go q (skipn n a) (skipn n b).
Proof.
  induction n as [|n IH]; intros a b q H Hn; [exact H|].
  destruct a as [|x a], b as [|y b]; cbn [kwvar_go] in H; try contradiction; [exact I|].
  cbn [skipn]. destruct H as [Hx Hr]. cbn [firstn] in Hn.
  assert ((x =? 39) = false) as E by (specialize (Hn x (or_introl eq_refl)); lia).
  rewrite E in Hr. apply IH; [exact Hr|]. intros z Hz. apply Hn. now right.
Qed.

Lemma sp_len_noq l k : sp_len l = S k -> forall x, In x (firstn (S k) l) -> x <> 39.
Proof.
  destruct l as [|b [|c [|d r]]]; cbn [sp_len]; try discriminate.
  - destruct (ascii_space b) eqn:E; [|discriminate]. intros H; inversion H; subst.
    intros x [<-|[]]. unfold ascii_space in E. lia.
  - destruct (ascii_space b) eqn:E.
    { intros H; inversion H; subst. intros x [<-|[]]. unfold ascii_space in E. lia. }
    destruct ((b =? 194) && ((c =? 133) || (c =? 160))) eqn:E2; [|discriminate].
    intros H; inversion H; subst. intros x [<-|[<-|[]]]; lia.
  - destruct (ascii_space b) eqn:E.
    { intros H; inversion H; subst. intros x [<-|[]]. unfold ascii_space in E. lia. }
    destruct ((b =? 194) && ((c =? 133) || (c =? 160))) eqn:E2.
    { intros H; inversion H; subst. intros x [<-|[<-|[]]]; lia. }
    destruct ((b =? 225) && (c =? 154) && (d =? 128)) eqn:E3.
    { intros H; inversion H; subst. intros x [<-|[<-|[<-|[]]]]; lia. }
    destruct ((b =? 226) && (c =? 128) && ((128 <=? d) && (d <=? 138) || (d =? 168) || (d =? 169) || (d =? 175))) eqn:E4.
    { intros H; inversion H; subst. intros x [<-|[<-|[<-|[]]]]; lia. }
    destruct ((b =? 226) && (c =? 129) && (d =? 159)) eqn:E5.
    { intros H; inversion H; subst. intros x [<-|[<-|[<-|[]]]]; lia. }
    destruct ((b =? 227) && (c =? 128) && (d =? 128)) eqn:E6; [|discriminate].
    intros H; inversion H; subst. intros x [<-|[<-|[<-|[]]]]; lia.
Qed.

Lemma sp_len_ceq a b : L a = L b -> sp_len a = sp_len b.
Proof. intros H. now rewrite <- (sp_len_L a), H, sp_len_L. Qed.

Lemma kv_trim_left_n : forall n a b q, (length a <= n)%nat -> kwvar_go q a b ->
  kwvar_go q (trim_left a) (trim_left b).
Proof.
  induction n as [|n IH]; intros a b q Hn H.
  - destruct a; [|cbn in Hn; lia]. destruct b; [exact I|contradiction].
  - pose proof (sp_len_ceq a b (kv_ceq a b q H)) as Hsp.
    destruct (sp_len a) as [|k] eqn:E.
    + rewrite (trim_left_word a E), (trim_left_word b (eq_sym Hsp)). exact H.
    + rewrite (trim_left_ws a k E), (trim_left_ws b k (eq_sym Hsp)). apply IH.
      * rewrite skipn_length. destruct a; [discriminate|]. cbn [length] in *. lia.
      * apply kv_skipn; [exact H|now apply sp_len_noq].
Qed.

Lemma kv_prefix a b q ya yb Wa Wb : kwvar_go q a b -> a = ya ++ Wa -> b = yb ++ Wb -> length ya = length yb ->
  kwvar_go q ya yb.
Proof.
  intros H -> -> Hl. apply (kv_firstn (length ya)) in H.
  rewrite firstn_app, firstn_all, Nat.sub_diag, app_nil_r in H.
  rewrite Hl, firstn_app, firstn_all, Nat.sub_diag, app_nil_r in H. exact H.
Qed.

Lemma kv_trim_space a b q : kwvar_go q a b -> kwvar_go q (trim_space a) (trim_space b).
Proof.
  intros H. pose proof (kv_trim_left_n (length a) a b q ltac:(lia) H) as Hl.
  unfold trim_space. destruct (trim_right_spec (trim_left a)) as [Wa [_ [Ha _]]].
  destruct (trim_right_spec (trim_left b)) as [Wb [_ [Hb _]]].
  apply (kv_prefix _ _ q _ _ Wa Wb Hl Ha Hb).
  apply ceq_length. change (ceq (trim_space a) (trim_space b)). apply ceq_trim_space. exact (kv_ceq _ _ _ H).
Qed.

Lemma trim_semi_prefix y : exists W, y = trim_semi y ++ W.
Proof.
  rewrite trim_semi_alt. destruct (rev y) as [|x r] eqn:E; [exists []; now rewrite app_nil_r|].
  destruct (x =? 59); [|exists []; now rewrite app_nil_r].
  exists [x]. apply (f_equal (@rev Z)) in E. rewrite rev_involutive in E. exact E.
Qed.

Lemma kv_trim_semi a b q : kwvar_go q a b -> kwvar_go q (trim_semi a) (trim_semi b).
Proof.
  intros H. destruct (trim_semi_prefix a) as [Wa Ha], (trim_semi_prefix b) as [Wb Hb].
  apply (kv_prefix _ _ q _ _ Wa Wb H Ha Hb).
  apply ceq_length. apply ceq_trim_semi. exact (kv_ceq _ _ _ H).
Qed.

Lemma prefix_noq : forall p l, has_prefix (L l) p = true -> (forall c, In c p -> c <> 39) ->
  forall x, In x (firstn (length p) l) -> x <> 39.
Proof.
  induction p as [|c p IH]; intros l H Hp x Hx; [destruct Hx|].
  destruct l as [|b l]; [discriminate|]. rewrite L_cons in H. cbn [has_prefix] in H.
  apply andb_true_iff in H as [Hb Hr]. cbn [length firstn] in Hx. destruct Hx as [<-|Hx].
  - specialize (Hp c (or_introl eq_refl)). apply Z.eqb_eq in Hb. unfold lower_byte in Hb.
    destruct ((65 <=? b) && (b <=? 90)) eqn:E; [|congruence].
    intros ->. discriminate E.
  - eapply IH; eauto. intros c' Hc'. apply Hp. now right.
Qed.

Section KeywordVariants.
Variable ulower : bytes -> bytes.
Variable ts_err : bytes -> bool.
Variable jexpr_ok : bytes -> bool.
Hypothesis ulower_ci : forall a b, L a = L b -> ulower a = ulower b.
Hypothesis jexpr_ok_ci : forall a b, L a = L b -> jexpr_ok a = jexpr_ok b.
(* parseTSFilters only has to ignore the case of text outside quoted literals *)
Hypothesis ts_err_kw : forall a b, kwvar a b -> ts_err a = ts_err b.

Lemma parse_select_ts_ext (ts1 ts2 : bytes -> bool) raw lower fs : ts1 raw = ts2 raw ->
  parse_select ulower ts1 jexpr_ok raw lower fs = parse_select ulower ts2 jexpr_ok raw lower fs.
Proof. intros H. unfold parse_select. rewrite H. reflexivity. Qed.

Lemma parse_select_kw raw raw' lower fs : kwvar raw raw' ->
  norm_res (parse_select ulower ts_err jexpr_ok raw lower fs) =
  norm_res (parse_select ulower ts_err jexpr_ok raw' lower fs).
Proof.
  intros H. set (ts' := fun _ : bytes => ts_err raw').
  rewrite (parse_select_ts_ext ts_err ts' raw lower fs) by (unfold ts'; now apply ts_err_kw).
  rewrite (parse_select_ts_ext ts_err ts' raw' lower fs) by reflexivity.
  apply (parse_select_ci ulower ts' jexpr_ok ulower_ci (fun _ _ _ => eq_refl) jexpr_ok_ci).
  exact (kv_ceq _ _ _ H).
Qed.

Lemma parse_f_kw : forall fuel q q', kwvar q q' ->
  norm_res (parse_f L ulower ts_err jexpr_ok fuel q) = norm_res (parse_f L ulower ts_err jexpr_ok fuel q').
Proof.
  induction fuel as [|fuel IH]; intros q q' H; [reflexivity|]. cbn [parse_f].
  pose proof (kv_trim_space _ _ _ H) as K0. pose proof (kv_ceq _ _ _ K0) as H0.
  rewrite (ceq_is_nil _ _ H0). destruct (is_nil (trim_space q')); [reflexivity|].
  pose proof (kv_trim_semi _ _ _ K0) as K1. pose proof (kv_ceq _ _ _ K1) as H1.
  rewrite H1. destruct (fields (L (trim_semi (trim_space q')))) as [|f0 fs'] eqn:Ef; [reflexivity|].
  destruct (bytes_eqb f0 kw_show); [reflexivity|].
  destruct (bytes_eqb f0 kw_describe); [reflexivity|].
  destruct (bytes_eqb f0 kw_select); [now apply parse_select_kw|].
  destruct (bytes_eqb f0 kw_explain); [|reflexivity].
  pose proof (kv_trim_space _ _ _ K1) as K2. pose proof (kv_ceq _ _ _ K2) as H2.
  rewrite H2. destruct (negb (has_prefix (L (trim_space (trim_semi (trim_space q')))) kw_explain)) eqn:Ep; [reflexivity|].
  apply negb_false_iff in Ep.
  unfold slice_from, slice. rewrite (ceq_zlen _ _ H2).
  destruct ((0 <=? 7) && (7 <=? zlen (trim_space (trim_semi (trim_space q')))) &&
            (zlen (trim_space (trim_semi (trim_space q'))) <=? zlen (trim_space (trim_semi (trim_space q'))))) eqn:Eb;
    [|reflexivity].
  cbn [idx]. pose proof (ceq_zlen _ _ H2) as Hz. rewrite !firstn_all2 by (rewrite skipn_length; unfold zlen in *; lia).
  assert (kwvar (skipn 7 (trim_space (trim_semi (trim_space q)))) (skipn 7 (trim_space (trim_semi (trim_space q'))))) as K3.
  { apply (kv_skipn 7); [exact K2|]. rewrite <- H2 in Ep.
    apply (prefix_noq kw_explain _ Ep). intros c Hc. cbn in Hc.
    repeat (destruct Hc as [<-|Hc]; [lia|]). destruct Hc. }
  change (Z.to_nat 7) with 7%nat.
  pose proof (kv_trim_space _ _ _ K3) as K4. rewrite (ceq_is_nil _ _ (kv_ceq _ _ _ K4)).
  destruct (is_nil (trim_space (skipn 7 (trim_space (trim_semi (trim_space q')))))); [reflexivity|].
  apply norm_explain. now apply IH.
Qed.

Theorem parse_keyword_variant q q' : kwvar q q' ->
  norm_res (parse ulower ts_err jexpr_ok q) = norm_res (parse ulower ts_err jexpr_ok q').
Proof.
  intros H. unfold parse, parse_with. rewrite (ceq_length q q' (kv_ceq _ _ _ H)). now apply parse_f_kw.
Qed.
End KeywordVariants.
