(* findIndexEntry (with fixes/C04-find-index-entry-floor.patch) returns the FLOOR
   entry of an index whose offsets are strictly increasing. *)
From Coq Require Import ZifyBool.
From KS Require Import lib.Base model.ReadPath proofs.ReadPathProofs.
Open Scope Z_scope.

Definition sorted_offs (es : list ientry) : Prop :=
  forall i j, 0 <= i < j -> j < zlen es -> ie_off (nth_entry es i) < ie_off (nth_entry es j).

Lemma sorted_le es i j : sorted_offs es -> 0 <= i <= j -> j < zlen es ->
  ie_off (nth_entry es i) <= ie_off (nth_entry es j).
Proof.
  intros Hs Hij Hj. destruct (Z.eq_dec i j) as [->|Hne]; [lia|].
  pose proof (Hs i j ltac:(lia) Hj). lia.
Qed.

Lemma bsearch_floor es o : sorted_offs es -> forall fuel lo hi f,
  0 <= lo -> hi < zlen es -> lo <= f <= hi -> f + 1 < zlen es ->
  ie_off (nth_entry es f) <= o < ie_off (nth_entry es (f + 1)) ->
  hi - lo < Z.of_nat fuel ->
  bsearch true fuel es o lo hi = nth_entry es f.
Proof.
  intros Hs. induction fuel as [|fuel IH]; intros lo hi f Hlo Hhi Hf Hf1 Hfo Hfuel; [lia|].
  cbn [bsearch]. destruct (hi <? lo) eqn:E0; [lia|].
  set (mid := (lo + hi) / 2).
  assert (Hm : lo <= mid <= hi) by (subst mid; split; [apply Z.div_le_lower_bound|apply Z.div_le_upper_bound]; lia).
  clearbody mid.
  assert (Hlt : mid < f -> ie_off (nth_entry es mid) < ie_off (nth_entry es f)) by (intros; apply Hs; lia).
  assert (Hgt : f < mid -> ie_off (nth_entry es (f + 1)) <= ie_off (nth_entry es mid)) by (intros; apply sorted_le; [assumption|lia|lia]).
  destruct (ie_off (nth_entry es mid) =? o) eqn:E1.
  - assert (mid = f).
    { destruct (Z.lt_trichotomy mid f) as [H|[H|H]]; [specialize (Hlt H); lia|assumption|specialize (Hgt H); lia]. }
    congruence.
  - destruct (ie_off (nth_entry es mid) <? o) eqn:E2.
    + assert (Hmf : mid <= f).
      { destruct (Z.le_gt_cases mid f) as [H|H]; [assumption|]. assert (H' : f < mid) by lia. specialize (Hgt H'). lia. }
      destruct (mid + 1 <? zlen es) eqn:E3; [|lia]. cbn [andb].
      destruct (o <? ie_off (nth_entry es (mid + 1))) eqn:E4.
      * destruct (Z.eq_dec mid f) as [->|Hne]; [reflexivity|].
        pose proof (sorted_le es (mid + 1) f Hs ltac:(lia) ltac:(lia)). lia.
      * assert (mid <> f) by (intros ->; lia). apply IH; lia.
    + assert (f < mid).
      { destruct (Z.le_gt_cases mid f) as [H|H]; [|lia]. destruct (Z.eq_dec mid f) as [->|Hne]; [lia|].
        assert (H' : mid < f) by lia. specialize (Hlt H'). lia. }
      apply IH; lia.
Qed.

Lemma floor_exists es o : forall n : nat,
  ie_off (nth_entry es 0) <= o -> o < ie_off (nth_entry es (Z.of_nat n)) ->
  exists f, 0 <= f < Z.of_nat n /\ ie_off (nth_entry es f) <= o < ie_off (nth_entry es (f + 1)).
Proof.
  induction n as [|n IH]; intros H0 Hn; [cbn in Hn; lia|].
  destruct (Z.lt_ge_cases o (ie_off (nth_entry es (Z.of_nat n)))) as [H|H].
  - destruct (IH H0 H) as (f & Hf & Hfo). exists f. split; [lia|exact Hfo].
  - exists (Z.of_nat n). split; [lia|]. replace (Z.of_nat n + 1) with (Z.of_nat (S n)) by lia. lia.
Qed.

Lemma in_nth_entry es e : In e es -> exists i, 0 <= i < zlen es /\ e = nth_entry es i.
Proof.
  intros H. apply (In_nth _ _ entry0) in H as (n & Hn & <-). exists (Z.of_nat n).
  unfold nth_entry, zlen. rewrite Nat2Z.id. split; [lia|reflexivity].
Qed.

Lemma find_entry_unfold e0 r o :
  find_entry (e0 :: r) o =
  if o <=? ie_off e0 then e0
  else if ie_off (nth_entry (e0 :: r) (zlen (e0 :: r) - 1)) <=? o then nth_entry (e0 :: r) (zlen (e0 :: r) - 1)
  else bsearch true (S (length (e0 :: r))) (e0 :: r) o 0 (zlen (e0 :: r) - 1).
Proof. reflexivity. Qed.

(* the entry Read starts from is the greatest entry at or below the offset *)
Theorem find_entry_floor es o : sorted_offs es -> es <> [] -> ie_off (nth_entry es 0) <= o ->
  let e := find_entry es o in
  In e es /\ ie_off e <= o /\ forall e', In e' es -> ie_off e' <= o -> ie_off e' <= ie_off e.
Proof.
  intros Hs Hne H0 e. split; [apply find_entry_in; exact Hne|].
  assert (Hex : exists e0 r, es = e0 :: r) by (destruct es as [|e0 r]; [congruence|eauto]).
  destruct Hex as (e0 & r & Ees).
  assert (Hn0 : nth_entry es 0 = e0) by (rewrite Ees; reflexivity).
  pose proof H0 as H0'. rewrite Hn0 in H0'.
  assert (Hl : 1 <= zlen es) by (rewrite Ees, zlen_cons; pose proof (zlen_nonneg r); lia).
  assert (Hfe : e = if o <=? ie_off e0 then e0
                    else if ie_off (nth_entry es (zlen es - 1)) <=? o then nth_entry es (zlen es - 1)
                    else bsearch true (S (length es)) es o 0 (zlen es - 1)).
  { subst e. rewrite Ees. apply find_entry_unfold. }
  clearbody e.
  destruct (o <=? ie_off e0) eqn:E1.
  - subst e. split; [lia|]. intros e' Hin Hle.
    apply in_nth_entry in Hin as (i & Hi & ->).
    destruct (Z.eq_dec i 0) as [->|Hi0]; [rewrite Hn0; lia|]. pose proof (Hs 0 i ltac:(lia) ltac:(lia)) as Hq.
    rewrite Hn0 in Hq. lia.
  - destruct (ie_off (nth_entry es (zlen es - 1)) <=? o) eqn:E2.
    + subst e. split; [lia|]. intros e' Hin _. apply in_nth_entry in Hin as (i & Hi & ->).
      apply sorted_le; [assumption|lia|lia].
    + destruct (floor_exists es o (Z.to_nat (zlen es - 1))) as (f & Hf & Hfo); [lia|rewrite Z2Nat.id by lia; lia|].
      rewrite Z2Nat.id in Hf by lia.
      rewrite (bsearch_floor es o Hs _ 0 (zlen es - 1) f) in Hfe; try lia.
      2: { unfold zlen. lia. }
      subst e. split; [lia|]. intros e' Hin Hle. apply in_nth_entry in Hin as (i & Hi & ->).
      destruct (Z.le_gt_cases i f) as [Hif|Hif]; [apply sorted_le; [assumption|lia|lia]|].
      pose proof (sorted_le es (f + 1) i Hs ltac:(lia) ltac:(lia)). lia.
Qed.

(* the index BuildSegment writes has strictly increasing offsets *)
Fixpoint ssorted (es : list ientry) : Prop :=
  match es with [] => True | e :: r => Forall (fun x => ie_off e < ie_off x) r /\ ssorted r end.

Lemma build_index_lb iv : forall bs since first pos lo, chain lo bs ->
  Forall (fun e => lo <= ie_off e) (build_index iv since first pos bs).
Proof.
  induction bs as [|b r IH]; intros since first pos lo Hc; cbn [build_index]; [constructor|].
  cbn [chain] in Hc. destruct Hc as (H1 & H2 & H3 & H4).
  assert (Hr : Forall (fun e => lo <= ie_off e)
                 (build_index iv ((if first || (iv <=? since) then 0 else since) + b_count b) false (pos + zlen (b_bytes b)) r)).
  { eapply Forall_impl; [|apply (IH _ _ _ _ H4)]. cbn. unfold b_last. intros; lia. }
  destruct (first || (iv <=? since)); [constructor; [cbn; lia|exact Hr]|exact Hr].
Qed.

Lemma build_index_ssorted iv : forall bs since first pos lo, chain lo bs ->
  ssorted (build_index iv since first pos bs).
Proof.
  induction bs as [|b r IH]; intros since first pos lo Hc; cbn [build_index]; [exact I|].
  cbn [chain] in Hc. destruct Hc as (H1 & H2 & H3 & H4).
  destruct (first || (iv <=? since)); [|eapply IH; exact H4].
  cbn [ssorted]. split; [|eapply IH; exact H4].
  eapply Forall_impl; [|apply (build_index_lb iv _ _ _ _ _ H4)]. cbn. unfold b_last. intros; lia.
Qed.

Lemma nth_entry_cons e r i : 1 <= i -> nth_entry (e :: r) i = nth_entry r (i - 1).
Proof.
  intros H. unfold nth_entry. replace (Z.to_nat i) with (S (Z.to_nat (i - 1))) by lia. reflexivity.
Qed.

Lemma ssorted_sorted es : ssorted es -> sorted_offs es.
Proof.
  induction es as [|e r IH]; intros Hs i j Hij Hj.
  - unfold zlen in Hj. cbn in Hj. lia.
  - cbn [ssorted] in Hs. destruct Hs as [Hf Hs]. rewrite zlen_cons in Hj.
    rewrite (nth_entry_cons e r j) by lia.
    destruct (Z.eq_dec i 0) as [->|Hi].
    + change (nth_entry (e :: r) 0) with e. rewrite Forall_forall in Hf. apply Hf. apply nth_entry_in. lia.
    + rewrite (nth_entry_cons e r i) by lia. apply IH; [exact Hs|lia|lia].
Qed.

(* on every reachable log: the entry Read starts from, in the segment that serves the
   offset, is the greatest index entry at or below the (snapped) offset *)
Theorem read_entry_is_floor iv rq start ops o s o' :
  Forall valid_op ops ->
  let l := run (init_log iv rq start) ops in
  find_segment (l_segs l) o = Some (s, o') ->
  let e := find_entry (s_entries s) o' in
  In e (s_entries s) /\ ie_off e <= o' /\
  forall e', In e' (s_entries s) -> ie_off e' <= o' -> ie_off e' <= ie_off e.
Proof.
  intros Hv l Hfs. assert (Hi : inv start l) by (apply inv_run; [exact Hv|apply inv_init]).
  destruct Hi as [Hc _ Hs _ _ _]. rewrite live_eq in Hc.
  apply find_segment_some in Hfs as (A & B & Esegs & _ & Ho').
  rewrite Esegs in Hs. apply Forall_app in Hs as [_ HsB]. inversion HsB as [|? ? [Hne (c & r & Hseg)] _]; subst.
  rewrite Esegs, seg_batches_app, seg_batches_cons in Hc. rewrite <- !app_assoc in Hc.
  apply chain_app in Hc as [_ Hc2]. apply chain_app in Hc2 as [Hcs _].
  assert (Hent : s_entries s = build_index (norm_interval (l_interval l)) 0 true segment_header_len (s_batches s))
    by (rewrite Hseg at 1; reflexivity).
  assert (Hbase : s_base s = first_base (s_batches s)) by (rewrite Hseg at 1; reflexivity).
  destruct (s_batches s) as [|b0 rb] eqn:Ebs; [congruence|].
  destruct (build_index_first (norm_interval (l_interval l)) 0 segment_header_len b0 rb) as (tl & Htl).
  apply find_entry_floor.
  - rewrite Hent. apply ssorted_sorted. eapply build_index_ssorted. exact Hcs.
  - rewrite Hent, Htl. congruence.
  - rewrite Hent, Htl. change (nth_entry (_ :: tl) 0) with (mkEntry (b_base b0) segment_header_len).
    cbn [ie_off first_base] in *. lia.
Qed.
