(* Proofs about the operator model (model/Operator.v). *)
From Coq Require Import String.
From KS Require Import lib.Base lib.Strings model.Operator.
Open Scope Z_scope.

(* ---------- seqZ ---------- *)
Lemma seqZ_length n : length (seqZ n) = Z.to_nat n.
Proof. unfold seqZ. now rewrite map_length, seq_length. Qed.

Lemma seqZ_zlen n : 0 <= n -> zlen (seqZ n) = n.
Proof. intros H. unfold zlen. rewrite seqZ_length. lia. Qed.

Lemma seqZ_nth n i d : 0 <= i < n -> nth (Z.to_nat i) (seqZ n) d = i.
Proof.
  intros H. unfold seqZ.
  rewrite (nth_indep _ d (Z.of_nat 0)) by (rewrite map_length, seq_length; lia).
  rewrite map_nth. rewrite seq_nth by lia. lia.
Qed.

Lemma seqZ_in n x : In x (seqZ n) <-> 0 <= x < n.
Proof.
  unfold seqZ. rewrite in_map_iff. split.
  - intros (k & <- & Hk). apply in_seq in Hk. lia.
  - intros H. exists (Z.to_nat x). split; [lia|]. apply in_seq. lia.
Qed.

Lemma map_map_seqZ {A} (f : Z -> A) (g : A -> Z) n : (forall i, g (f i) = i) -> map g (map f (seqZ n)) = seqZ n.
Proof. intros H. rewrite map_map. rewrite <- (map_id (seqZ n)) at 2. apply map_ext. exact H. Qed.

(* ---------- metadata vs StatefulSet ---------- *)
Section WithTrim.
Variable trim : bytes -> bytes.

Lemma admissible_replicas sp r : sp_replicas sp = Some r -> 1 <= r -> meta_replicas sp = r.
Proof. intros H Hr. unfold meta_replicas. rewrite H. destruct (r >? 0) eqn:E; lia. Qed.

Lemma pod_dns_meta sp i : pod_dns (sts_of trim sp) i = meta_pod_host sp i.
Proof.
  unfold pod_dns, pod_name, meta_pod_host, sts_of. cbn [sts_name sts_service sts_ns].
  change (str "-broker-") with (str "-broker" ++ str "-").
  now rewrite <- !app_assoc.
Qed.

Theorem brokers_match sp topics m :
  admissible sp -> build_meta trim sp topics = Done m ->
  let s := sts_of trim sp in
  zlen (m_brokers m) = sts_replicas s /\
  map b_id (m_brokers m) = seqZ (sts_replicas s) /\
  forall i, 0 <= i < sts_replicas s ->
    nth (Z.to_nat i) (m_brokers m) (mkBroker (-1) [] 0) =
    mkBroker i (match sts_env_host s with Some h => h | None => pod_dns s i end) (meta_port sp).
Proof.
  intros (r & Hr & Hrange) H s. unfold build_meta in H.
  destruct (existsb _ topics); [discriminate|]. inversion H as [Hm]. clear H. cbn [m_brokers].
  rewrite (admissible_replicas sp r Hr) by lia.
  assert (Hs : sts_replicas s = r) by (unfold s, sts_of; cbn; now rewrite Hr).
  rewrite Hs. split; [|split].
  - unfold zlen. rewrite map_length, seqZ_length. lia.
  - now apply map_map_seqZ.
  - intros i Hi.
    set (f := fun i => mkBroker i (meta_host trim sp i) (meta_port sp)).
    rewrite (nth_indep _ _ (f 0)) by (rewrite map_length, seqZ_length; lia).
    rewrite map_nth. rewrite seqZ_nth by lia. unfold f. f_equal.
    unfold meta_host. rewrite (admissible_replicas sp r Hr) by lia.
    unfold s at 1. unfold sts_of. cbn [sts_env_host]. rewrite Hr.
    destruct ((r >? 1) || negb (nonempty (trim (sp_host sp)))); [|reflexivity].
    fold (sts_of trim sp). fold s. unfold s. now rewrite pod_dns_meta.
Qed.

Theorem leaders_valid sp topics m :
  admissible sp -> build_meta trim sp topics = Done m ->
  forall mt p, In mt (m_topics m) -> In p (mt_parts mt) ->
    In (p_leader p) (map b_id (m_brokers m)) /\
    incl (p_replicas p) (map b_id (m_brokers m)) /\ incl (p_isr p) (map b_id (m_brokers m)).
Proof.
  intros (r & Hr & Hrange) H mt p Hmt Hp. unfold build_meta in H.
  destruct (existsb _ topics); [discriminate|]. inversion H as [Hm]. clear H. subst m. cbn [m_topics m_brokers] in *.
  rewrite (admissible_replicas sp r Hr) in * by lia.
  rewrite map_map_seqZ by reflexivity.
  apply in_map_iff in Hmt as (t & <- & Ht). cbn [mt_parts] in Hp.
  unfold build_parts in Hp. apply in_map_iff in Hp as (i & <- & Hi). cbn [p_leader p_replicas p_isr].
  unfold build_replica_ids. destruct (r <=? 0) eqn:E; [lia|].
  rewrite seqZ_zlen by lia.
  split; [|split; apply incl_refl].
  apply seqZ_in in Hi.
  assert (0 <= i mod r < r) as Hmod by (apply Z.mod_pos_bound; lia).
  rewrite seqZ_nth by exact Hmod. now apply seqZ_in.
Qed.

Theorem partitions_dense sp topics m :
  build_meta trim sp topics = Done m ->
  map mt_name (m_topics m) = map t_name topics /\
  Forall2 (fun mt t => map p_id (mt_parts mt) = seqZ (t_parts t) /\ zlen (mt_parts mt) = t_parts t) (m_topics m) topics.
Proof.
  intros H. unfold build_meta in H.
  destruct (existsb (fun t => t_parts t <? 0) topics) eqn:E; [discriminate|]. inversion H as [Hm]. clear H Hm. cbn [m_topics].
  generalize (build_replica_ids (meta_replicas sp)) as ids. intros ids.
  split; [now rewrite map_map|].
  assert (forall t, In t topics -> 0 <= t_parts t) as Hpos.
  { intros t Ht. destruct (t_parts t <? 0) eqn:E2; [|lia].
    assert (existsb (fun t => t_parts t <? 0) topics = true) by (apply existsb_exists; eauto). congruence. }
  clear E. induction topics as [|t ts IH]; cbn [map]; constructor.
  - cbn [mt_parts]. unfold build_parts. split.
    + now apply map_map_seqZ.
    + unfold zlen. rewrite map_length, seqZ_length. specialize (Hpos t (or_introl eq_refl)). lia.
  - apply IH. intros t' Ht'. apply Hpos. now right.
Qed.

Theorem no_panic sp topics :
  topics_admissible topics -> exists m, build_meta trim sp topics = Done m.
Proof.
  intros H. unfold build_meta.
  destruct (existsb (fun t => t_parts t <? 0) topics) eqn:E; [|eexists; reflexivity].
  apply existsb_exists in E as (t & Ht & Hneg). unfold topics_admissible in H.
  rewrite Forall_forall in H. specialize (H t Ht). lia.
Qed.

End WithTrim.

(* ---------- bucket names ---------- *)
Lemma alnum_okc c : alnum c = true -> okc c = true.
Proof. intros H. unfold okc. now rewrite H. Qed.

Lemma okc_not_dash c : okc c = true -> (c =? dash) = false -> alnum c = true.
Proof. unfold okc. intros H1 H2. rewrite H2, orb_false_r in H1. exact H1. Qed.

Lemma sanitize_loop_ok rs : forall b, forallb okc (sanitize_loop rs b) = true.
Proof.
  induction rs as [|r rs IH]; intros b; cbn [sanitize_loop]; [reflexivity|].
  destruct (alnum r) eqn:E.
  - cbn [forallb]. now rewrite (alnum_okc r E), IH.
  - destruct b; [apply IH|]. cbn [forallb]. now rewrite IH.
Qed.

Lemma dd_hd l : forall c t, drop_dashes l = c :: t -> (c =? dash) = false.
Proof.
  induction l as [|a l IH]; intros c t; cbn [drop_dashes]; [discriminate|].
  destruct (a =? dash) eqn:E; [apply IH|]. intros H. inversion H; subst. exact E.
Qed.

Lemma dd_forallb p l : forallb p l = true -> forallb p (drop_dashes l) = true.
Proof.
  induction l as [|a l IH]; cbn [drop_dashes]; [auto|]. intros H.
  destruct (a =? dash); [|exact H]. cbn in H. apply andb_true_iff in H as [_ H]. now apply IH.
Qed.

Lemma trd_hd l : forall c t, trim_right_dash l = c :: t -> exists l', l = c :: l'.
Proof.
  destruct l as [|a l]; intros c t; cbn [trim_right_dash]; [discriminate|].
  destruct (trim_right_dash l); [destruct (a =? dash); [discriminate|]|]; intros H; inversion H; subst; eauto.
Qed.

Lemma trd_last l : forall c t, trim_right_dash l = c :: t -> (last (c :: t) 0 =? dash) = false.
Proof.
  induction l as [|a l IH]; intros c t; cbn [trim_right_dash]; [discriminate|].
  destruct (trim_right_dash l) as [|y r] eqn:E.
  - destruct (a =? dash) eqn:E2; [discriminate|]. intros H. inversion H; subst. exact E2.
  - intros H. inversion H; subst. change (last (c :: y :: r) 0) with (last (y :: r) 0). now apply (IH y r).
Qed.

Lemma trd_forallb p l : forallb p l = true -> forallb p (trim_right_dash l) = true.
Proof.
  induction l as [|a l IH]; cbn [trim_right_dash]; [auto|]. intros H.
  cbn in H. apply andb_true_iff in H as [Ha H]. specialize (IH H).
  destruct (trim_right_dash l) as [|y r].
  - destruct (a =? dash); [reflexivity|]. cbn. now rewrite Ha.
  - cbn [forallb]. rewrite Ha. exact IH.
Qed.

Lemma trd_len l : (length (trim_right_dash l) <= length l)%nat.
Proof.
  induction l as [|a l IH]; cbn [trim_right_dash]; [auto|].
  destruct (trim_right_dash l) as [|y r].
  - destruct (a =? dash); cbn; lia.
  - cbn [length] in *. lia.
Qed.

Lemma forallb_firstn {A} (p : A -> bool) n l : forallb p l = true -> forallb p (firstn n l) = true.
Proof.
  revert l; induction n as [|n IH]; intros [|a l]; cbn; auto.
  intros H. apply andb_true_iff in H as [Ha H]. now rewrite Ha, IH.
Qed.

Lemma forallb_last {A} (p : A -> bool) l d : l <> [] -> forallb p l = true -> p (last l d) = true.
Proof.
  induction l as [|a l IH]; intros Hne H; [contradiction|].
  cbn in H. apply andb_true_iff in H as [Ha H].
  destruct l as [|b l]; [exact Ha|]. change (last (a :: b :: l) d) with (last (b :: l) d).
  apply IH; [discriminate|exact H].
Qed.

Lemma s3_validb_sound b : s3_validb b = true -> s3_valid b.
Proof.
  unfold s3_validb, s3_valid. intros H.
  repeat (apply andb_true_iff in H as [H ?]). repeat split; try assumption; lia.
Qed.

Lemma prefix_valid : s3_valid bucket_prefix.
Proof. apply s3_validb_sound. vm_compute. reflexivity. Qed.

Lemma valid_of out :
  forallb okc out = true ->
  (forall c t, out = c :: t -> (c =? dash) = false /\ (last out 0 =? dash) = false) ->
  min_bucket_len <= zlen out <= max_bucket_len -> s3_valid out.
Proof.
  intros Hok Hends Hlen. unfold s3_valid. split; [exact Hlen|]. split; [exact Hok|].
  destruct out as [|c t]; [unfold min_bucket_len in Hlen; cbn in Hlen; lia|].
  destruct (Hends c t eq_refl) as [H1 H2]. split.
  - cbn [hd]. apply okc_not_dash; [|exact H1]. cbn in Hok. now apply andb_true_iff in Hok as [Hc _].
  - apply okc_not_dash; [|exact H2]. apply forallb_last; [discriminate|exact Hok].
Qed.

Theorem sanitize_core_valid rs : s3_valid (sanitize_core rs).
Proof.
  unfold sanitize_core. destruct rs as [|r0 rs']; [exact prefix_valid|].
  set (x := sanitize_loop (r0 :: rs') false).
  assert (Hx : forallb okc x = true) by apply sanitize_loop_ok.
  set (out := trim_dash x).
  assert (Hout_ok : forallb okc out = true) by (unfold out, trim_dash; now apply trd_forallb, dd_forallb).
  assert (Hout_hd : forall c t, out = c :: t -> (c =? dash) = false).
  { intros c t E. unfold out, trim_dash in E. destruct (trd_hd _ _ _ E) as (l' & E'). now apply (dd_hd x c l'). }
  destruct (zlen out >? max_bucket_len) eqn:Elen.
  - set (out2 := trim_right_dash (firstn (Z.to_nat max_bucket_len) out)).
    destruct (zlen out2 <? min_bucket_len) eqn:E3; [exact prefix_valid|].
    apply valid_of.
    + unfold out2. now apply trd_forallb, forallb_firstn.
    + intros c t E. split.
      * unfold out2 in E. destruct (trd_hd _ _ _ E) as (l' & E').
        destruct out as [|c0 t0]; [destruct (Z.to_nat max_bucket_len); discriminate|].
        unfold max_bucket_len in E'. cbn in E'. inversion E'; subst. now apply (Hout_hd c t0).
      * rewrite E. unfold out2 in E. now apply (trd_last _ _ _ E).
    + split; [lia|]. unfold out2, zlen.
      pose proof (trd_len (firstn (Z.to_nat max_bucket_len) out)) as H1.
      pose proof (firstn_le_length (Z.to_nat max_bucket_len) out) as H2. unfold max_bucket_len in *. lia.
  - destruct (zlen out <? min_bucket_len) eqn:E3; [exact prefix_valid|].
    apply valid_of; [exact Hout_ok| |lia].
    intros c t E. split; [now apply (Hout_hd c t)|].
    rewrite E. unfold out, trim_dash in E. now apply (trd_last _ _ _ E).
Qed.

Theorem bucket_valid trim lower_trim name ns : s3_valid (default_bucket trim lower_trim name ns).
Proof.
  unfold default_bucket. destruct (nonempty (trim name)), (nonempty (trim ns));
    try exact prefix_valid; unfold sanitize; apply sanitize_core_valid.
Qed.

(* the unfixed function exceeded the limit *)
Lemma orig_too_long :
  let rs := bucket_prefix ++ [dash] ++ repeat 97 63 ++ [dash] ++ repeat 98 50 in
  zlen (sanitize_core_orig rs) = 128 /\ s3_validb (sanitize_core_orig rs) = false /\ s3_validb (sanitize_core rs) = true.
Proof. vm_compute. repeat split. Qed.
