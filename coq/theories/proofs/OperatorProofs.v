(* Proofs about the operator model (model/Operator.v). *)
From Coq Require Import String.
From KS Require Import lib.Base lib.Strings model.Operator.
Open Scope Z_scope.

(* ---------- seqZ ---------- *)
Lemma seqZ_length n : length (seqZ n) = Z.to_nat n.
Proof. unfold seqZ. now rewrite map_length, seq_length. Qed.

Lemma seqZ_zlen n : 0 <= n -> zlen (seqZ n) = n.
Proof. intros H. unfold zlen. rewrite seqZ_length. lia. Qed.

Lemma seqZ_nth n i d : 0 <= i < n -> nth (Z.to_nat i) (seqZ n) d = i.
Proof.
  intros H. unfold seqZ.
  rewrite (nth_indep _ d (Z.of_nat 0)) by (rewrite map_length, seq_length; lia).
  rewrite map_nth. rewrite seq_nth by lia. lia.
Qed.

Lemma seqZ_in n x : In x (seqZ n) <-> 0 <= x < n.
Proof.
  unfold seqZ. rewrite in_map_iff. split.
  - intros (k & <- & Hk). apply in_seq in Hk. lia.
  - intros H. exists (Z.to_nat x). split; [lia|]. apply in_seq. lia.
Qed.

Lemma map_map_seqZ {A} (f : Z -> A) (g : A -> Z) n : (forall i, g (f i) = i) -> map g (map f (seqZ n)) = seqZ n.
Proof. intros H. rewrite map_map. rewrite <- (map_id (seqZ n)) at 2. apply map_ext. exact H. Qed.

(* ---------- metadata vs StatefulSet ---------- *)
Section WithTrim.
Variable trim : bytes -> bytes.

Lemma admissible_replicas sp r : sp_replicas sp = Some r -> 1 <= r -> meta_replicas sp = r.
Proof. intros H Hr. unfold meta_replicas. rewrite H. destruct (r >? 0) eqn:E; lia. Qed.

Lemma pod_dns_meta sp i : pod_dns (sts_of trim sp) i = meta_pod_host sp i.
Proof.
  unfold pod_dns, pod_name, meta_pod_host, sts_of. cbn [sts_name sts_service sts_ns].
  change (str "-broker-") with (str "-broker" ++ str "-").
  now rewrite <- !app_assoc.
Qed.

Theorem brokers_match sp topics m :
  admissible sp -> build_meta trim sp topics = Done m ->
  let s := sts_of trim sp in
  zlen (m_brokers m) = sts_replicas s /\
  map b_id (m_brokers m) = seqZ (sts_replicas s) /\
  forall i, 0 <= i < sts_replicas s ->
    nth (Z.to_nat i) (m_brokers m) (mkBroker (-1) [] 0) =
    mkBroker i (match sts_env_host s with Some h => h | None => pod_dns s i end) (meta_port sp).
Proof.
  intros (r & Hr & Hrange) H s. unfold build_meta in H.
  destruct (existsb _ topics); [discriminate|]. inversion H as [Hm]. clear H. cbn [m_brokers].
  rewrite (admissible_replicas sp r Hr) by lia.
  assert (Hs : sts_replicas s = r) by (unfold s, sts_of; cbn; now rewrite Hr).
  rewrite Hs. split; [|split].
  - unfold zlen. rewrite map_length, seqZ_length. lia.
  - now apply map_map_seqZ.
  - intros i Hi.
    set (f := fun i => mkBroker i (meta_host trim sp i) (meta_port sp)).
    rewrite (nth_indep _ _ (f 0)) by (rewrite map_length, seqZ_length; lia).
    rewrite map_nth. rewrite seqZ_nth by lia. unfold f. f_equal.
    unfold meta_host. rewrite (admissible_replicas sp r Hr) by lia.
    unfold s at 1. unfold sts_of. cbn [sts_env_host]. rewrite Hr.
    destruct ((r >? 1) || negb (nonempty (trim (sp_host sp)))); [|reflexivity].
    fold (sts_of trim sp). fold s. unfold s. now rewrite pod_dns_meta.
Qed.

Theorem leaders_valid sp topics m :
  admissible sp -> build_meta trim sp topics = Done m ->
  forall mt p, In mt (m_topics m) -> In p (mt_parts mt) ->
    In (p_leader p) (map b_id (m_brokers m)) /\
    incl (p_replicas p) (map b_id (m_brokers m)) /\ incl (p_isr p) (map b_id (m_brokers m)).
Proof.
  intros (r & Hr & Hrange) H mt p Hmt Hp. unfold build_meta in H.
  destruct (existsb _ topics); [discriminate|]. inversion H as [Hm]. clear H. subst m. cbn [m_topics m_brokers] in *.
  rewrite (admissible_replicas sp r Hr) in * by lia.
  rewrite map_map_seqZ by reflexivity.
  apply in_map_iff in Hmt as (t & <- & Ht). cbn [mt_parts] in Hp.
  unfold build_parts in Hp. apply in_map_iff in Hp as (i & <- & Hi). cbn [p_leader p_replicas p_isr].
  unfold build_replica_ids. destruct (r <=? 0) eqn:E; [lia|].
  rewrite seqZ_zlen by lia.
  split; [|split; apply incl_refl].
  apply seqZ_in in Hi.
  assert (0 <= i mod r < r) as Hmod by (apply Z.mod_pos_bound; lia).
  rewrite seqZ_nth by exact Hmod. now apply seqZ_in.
Qed.

Theorem partitions_dense sp topics m :
  build_meta trim sp topics = Done m ->
  map mt_name (m_topics m) = map t_name topics /\
  Forall2 (fun mt t => map p_id (mt_parts mt) = seqZ (t_parts t) /\ zlen (mt_parts mt) = t_parts t) (m_topics m) topics.
Proof.
  intros H. unfold build_meta in H.
  destruct (existsb (fun t => t_parts t <? 0) topics) eqn:E; [discriminate|]. inversion H as [Hm]. clear H Hm. cbn [m_topics].
  generalize (build_replica_ids (meta_replicas sp)) as ids. intros ids.
  split; [now rewrite map_map|].
  assert (forall t, In t topics -> 0 <= t_parts t) as Hpos.
  { intros t Ht. destruct (t_parts t <? 0) eqn:E2; [|lia].
    assert (existsb (fun t => t_parts t <? 0) topics = true) by (apply existsb_exists; eauto). congruence. }
  clear E. induction topics as [|t ts IH]; cbn [map]; constructor.
  - cbn [mt_parts]. unfold build_parts. split.
    + now apply map_map_seqZ.
    + unfold zlen. rewrite map_length, seqZ_length. specialize (Hpos t (or_introl eq_refl)). lia.
  - apply IH. intros t' Ht'. apply Hpos. now right.
Qed.

Theorem no_panic sp topics :
  topics_admissible topics -> exists m, build_meta trim sp topics = Done m.
Proof.
  intros H. unfold build_meta.
  destruct (existsb (fun t => t_parts t <? 0) topics) eqn:E; [|eexists; reflexivity].
  apply existsb_exists in E as (t & Ht & Hneg). unfold topics_admissible in H.
  rewrite Forall_forall in H. specialize (H t Ht). lia.
Qed.

End WithTrim.

(* ---------- bucket names ---------- *)
Lemma alnum_okc c : alnum c = true -> okc c = true.
Proof. intros H. unfold okc. now rewrite H. Qed.

Lemma okc_not_dash c : okc c = true -> (c =? dash) = false -> alnum c = true.
Proof. unfold okc. intros H1 H2. rewrite H2, orb_false_r in H1. exact H1. Qed.

Lemma sanitize_loop_ok rs : forall b, forallb okc (sanitize_loop rs b) = true.
Proof.
  induction rs as [|r rs IH]; intros b; cbn [sanitize_loop]; [reflexivity|].
  destruct (alnum r) eqn:E.
  - cbn [forallb]. now rewrite (alnum_okc r E), IH.
  - destruct b; [apply IH|]. cbn [forallb]. now rewrite IH.
Qed.

Lemma dd_hd l : forall c t, drop_dashes l = c :: t -> (c =? dash) = false.
Proof.
  induction l as [|a l IH]; intros c t; cbn [drop_dashes]; [discriminate|].
  destruct (a =? dash) eqn:E; [apply IH|]. intros H. inversion H; subst. exact E.
Qed.

Lemma dd_forallb p l : forallb p l = true -> forallb p (drop_dashes l) = true.
Proof.
  induction l as [|a l IH]; cbn [drop_dashes]; [auto|]. intros H.
  destruct (a =? dash); [|exact H]. cbn in H. apply andb_true_iff in H as [_ H]. now apply IH.
Qed.

Lemma trd_hd l : forall c t, trim_right_dash l = c :: t -> exists l', l = c :: l'.
Proof.
  destruct l as [|a l]; intros c t; cbn [trim_right_dash]; [discriminate|].
  destruct (trim_right_dash l); [destruct (a =? dash); [discriminate|]|]; intros H; inversion H; subst; eauto.
Qed.

Lemma trd_last l : forall c t, trim_right_dash l = c :: t -> (last (c :: t) 0 =? dash) = false.
Proof.
  induction l as [|a l IH]; intros c t; cbn [trim_right_dash]; [discriminate|].
  destruct (trim_right_dash l) as [|y r] eqn:E.
  - destruct (a =? dash) eqn:E2; [discriminate|]. intros H. inversion H; subst. exact E2.
  - intros H. inversion H; subst. change (last (c :: y :: r) 0) with (last (y :: r) 0). now apply (IH y r).
Qed.

Lemma trd_forallb p l : forallb p l = true -> forallb p (trim_right_dash l) = true.
Proof.
  induction l as [|a l IH]; cbn [trim_right_dash]; [auto|]. intros H.
  cbn in H. apply andb_true_iff in H as [Ha H]. specialize (IH H).
  destruct (trim_right_dash l) as [|y r].
  - destruct (a =? dash); [reflexivity|]. cbn. now rewrite Ha.
  - cbn [forallb]. rewrite Ha. exact IH.
Qed.

Lemma trd_len l : (length (trim_right_dash l) <= length l)%nat.
Proof.
  induction l as [|a l IH]; cbn [trim_right_dash]; [auto|].
  destruct (trim_right_dash l) as [|y r].
  - destruct (a =? dash); cbn; lia.
  - cbn [length] in *. lia.
Qed.

Lemma forallb_firstn {A} (p : A -> bool) n l : forallb p l = true -> forallb p (firstn n l) = true.
Proof.
  revert l; induction n as [|n IH]; intros [|a l]; cbn; auto.
  intros H. apply andb_true_iff in H as [Ha H]. now rewrite Ha, IH.
Qed.

Lemma forallb_last {A} (p : A -> bool) l d : l <> [] -> forallb p l = true -> p (last l d) = true.
Proof.
  induction l as [|a l IH]; intros Hne H; [contradiction|].
  cbn in H. apply andb_true_iff in H as [Ha H].
  destruct l as [|b l]; [exact Ha|]. change (last (a :: b :: l) d) with (last (b :: l) d).
  apply IH; [discriminate|exact H].
Qed.

Lemma s3_validb_sound b : s3_validb b = true -> s3_valid b.
Proof.
  unfold s3_validb, s3_valid. intros H.
  repeat (apply andb_true_iff in H as [H ?]). repeat split; try assumption; lia.
Qed.

Lemma prefix_valid : s3_valid bucket_prefix.
Proof. apply s3_validb_sound. vm_compute. reflexivity. Qed.

Lemma valid_of out :
  forallb okc out = true ->
  (forall c t, out = c :: t -> (c =? dash) = false /\ (last out 0 =? dash) = false) ->
  min_bucket_len <= zlen out <= max_bucket_len -> s3_valid out.
Proof.
  intros Hok Hends Hlen. unfold s3_valid. split; [exact Hlen|]. split; [exact Hok|].
  destruct out as [|c t]; [unfold min_bucket_len in Hlen; cbn in Hlen; lia|].
  destruct (Hends c t eq_refl) as [H1 H2]. split.
  - cbn [hd]. apply okc_not_dash; [|exact H1]. cbn in Hok. now apply andb_true_iff in Hok as [Hc _].
  - apply okc_not_dash; [|exact H2]. apply forallb_last; [discriminate|exact Hok].
Qed.

Theorem sanitize_core_valid rs : s3_valid (sanitize_core rs).
Proof.
  unfold sanitize_core. destruct rs as [|r0 rs']; [exact prefix_valid|].
  set (x := sanitize_loop (r0 :: rs') false).
  assert (Hx : forallb okc x = true) by apply sanitize_loop_ok.
  set (out := trim_dash x).
  assert (Hout_ok : forallb okc out = true) by (unfold out, trim_dash; now apply trd_forallb, dd_forallb).
  assert (Hout_hd : forall c t, out = c :: t -> (c =? dash) = false).
  { intros c t E. unfold out, trim_dash in E. destruct (trd_hd _ _ _ E) as (l' & E'). now apply (dd_hd x c l'). }
  destruct (zlen out >? max_bucket_len) eqn:Elen.
  - set (out2 := trim_right_dash (firstn (Z.to_nat max_bucket_len) out)).
    destruct (zlen out2 <? min_bucket_len) eqn:E3; [exact prefix_valid|].
    apply valid_of.
    + unfold out2. now apply trd_forallb, forallb_firstn.
    + intros c t E. split.
      * unfold out2 in E. destruct (trd_hd _ _ _ E) as (l' & E').
        destruct out as [|c0 t0]; [destruct (Z.to_nat max_bucket_len); discriminate|].
        unfold max_bucket_len in E'. cbn in E'. inversion E'; subst. now apply (Hout_hd c t0).
      * rewrite E. unfold out2 in E. now apply (trd_last _ _ _ E).
    + split; [lia|]. unfold out2, zlen.
      pose proof (trd_len (firstn (Z.to_nat max_bucket_len) out)) as H1.
      pose proof (firstn_le_length (Z.to_nat max_bucket_len) out) as H2. unfold max_bucket_len in *. lia.
  - destruct (zlen out <? min_bucket_len) eqn:E3; [exact prefix_valid|].
    apply valid_of; [exact Hout_ok| |lia].
    intros c t E. split; [now apply (Hout_hd c t)|].
    rewrite E. unfold out, trim_dash in E. now apply (trd_last _ _ _ E).
Qed.

Theorem bucket_valid trim lower_trim name ns : s3_valid (default_bucket trim lower_trim name ns).
Proof.
  unfold default_bucket. destruct (nonempty (trim name)), (nonempty (trim ns));
    try exact prefix_valid; unfold sanitize; apply sanitize_core_valid.
Qed.

(* the unfixed function exceeded the limit *)
Lemma orig_too_long :
  let rs := bucket_prefix ++ [dash] ++ repeat 97 63 ++ [dash] ++ repeat 98 50 in
  zlen (sanitize_core_orig rs) = 128 /\ s3_validb (sanitize_core_orig rs) = false /\ s3_validb (sanitize_core rs) = true.
Proof. vm_compute. repeat split. Qed.

(* ---------- the publish path ---------- *)
Lemma live_in ids x : live ids x = true -> In x ids.
Proof. unfold live. intros H. apply existsb_exists in H as (y & Hy & E). apply Z.eqb_eq in E. now subst. Qed.

Lemma all_live_incl ids l : all_live ids l = true -> incl l ids.
Proof. unfold all_live. intros H x Hx. rewrite forallb_forall in H. apply live_in. now apply H. Qed.

Lemma reassign_part_ok ids i p : ids <> [] -> part_ok ids (reassign_part ids i p).
Proof.
  intros Hne. unfold part_ok, reassign_part. cbn [p_leader p_replicas p_isr]. repeat split.
  - destruct (live ids (p_leader p)) eqn:E; [now apply live_in|].
    apply nth_In. apply Nat.mod_upper_bound. destruct ids; [contradiction|discriminate].
  - destruct (all_live ids (p_replicas p)) eqn:E; [now apply all_live_incl|apply incl_refl].
  - destruct (all_live ids (p_isr p)) eqn:E; [now apply all_live_incl|apply incl_refl].
Qed.

Lemma reassign_from_ok ids : ids <> [] -> forall ps i p, In p (reassign_from ids i ps) -> part_ok ids p.
Proof.
  intros Hne. induction ps as [|q ps IH]; intros i p Hin; [contradiction|].
  destruct Hin as [<-|Hin]; [now apply reassign_part_ok|]. now apply (IH (S i)).
Qed.

Lemma reassign_from_ids ids : forall ps i, map p_id (reassign_from ids i ps) = map p_id ps.
Proof. induction ps as [|q ps IH]; intros i; cbn; [reflexivity|]. now rewrite IH. Qed.

Lemma reassign_from_len ids : forall ps i, length (reassign_from ids i ps) = length ps.
Proof. induction ps as [|q ps IH]; intros i; cbn; [reflexivity|]. now rewrite IH. Qed.

Definition topic_ok (ids : list Z) (mt : mtopic) : Prop :=
  dense (mt_parts mt) /\ forall p, In p (mt_parts mt) -> part_ok ids p.

Lemma reassign_topic_ok brokers name err ps :
  brokers <> [] -> dense ps -> topic_ok (map b_id brokers) (mkMTopic name err (reassign brokers ps)).
Proof.
  intros Hne Hd. unfold topic_ok, reassign. cbn [mt_parts]. destruct brokers as [|b bs]; [contradiction|].
  set (ids := map b_id (b :: bs)). split.
  - unfold dense, zlen in *. now rewrite reassign_from_ids, reassign_from_len.
  - intros p Hp. apply (reassign_from_ok ids) in Hp; [exact Hp|discriminate].
Qed.

Lemma set_parts_forall (P : mtopic -> Prop) ps : (forall name err, P (mkMTopic name err ps)) ->
  forall ts idx, Forall P ts -> Forall P (set_parts idx ps ts).
Proof.
  intros Hp. induction ts as [|t ts IH]; intros idx H; [destruct idx; constructor|].
  inversion H; subst. destruct idx; cbn; constructor; auto.
Qed.

Lemma merge_step_ok brokers next0 acc t :
  brokers <> [] -> dense (mt_parts t) -> Forall (topic_ok (map b_id brokers)) acc ->
  Forall (topic_ok (map b_id brokers)) (merge_step true brokers next0 acc t).
Proof.
  intros Hne Hd Hacc. unfold merge_step.
  destruct (negb (nonempty (mt_name t)) || negb (mt_err t =? 0)); [exact Hacc|].
  destruct (find_idx (mt_name t) next0 0) as [idx|].
  - destruct (length (parts_at idx acc) <? length (mt_parts t))%nat; [|exact Hacc].
    apply set_parts_forall; [|exact Hacc]. intros name err. now apply reassign_topic_ok.
  - apply Forall_app. split; [exact Hacc|]. constructor; [|constructor]. now apply reassign_topic_ok.
Qed.

Lemma merge_fold_ok brokers next0 ets : brokers <> [] -> Forall (fun t => dense (mt_parts t)) ets ->
  forall acc, Forall (topic_ok (map b_id brokers)) acc ->
  Forall (topic_ok (map b_id brokers)) (fold_left (merge_step true brokers next0) ets acc).
Proof.
  intros Hne Hd. induction Hd as [|t ets Ht _ IH]; intros acc Hacc; cbn [fold_left]; [exact Hacc|].
  apply IH. now apply merge_step_ok.
Qed.

Lemma meta_ok_forall m : meta_ok m <-> Forall (topic_ok (broker_ids m)) (m_topics m).
Proof. unfold meta_ok, topic_ok. rewrite Forall_forall. reflexivity. Qed.

Theorem merge_ok next existing :
  m_brokers next <> [] -> meta_ok next -> Forall (fun t => dense (mt_parts t)) (m_topics existing) ->
  meta_ok (merge next existing) /\ m_brokers (merge next existing) = m_brokers next.
Proof.
  intros Hne Hn He. unfold merge, merge_gen. destruct (m_topics existing) as [|t ets] eqn:E; [auto|].
  split; [|reflexivity]. apply meta_ok_forall. unfold broker_ids. cbn [m_brokers m_topics].
  apply merge_fold_ok; auto. now apply meta_ok_forall.
Qed.

Lemma seq_add n : forall s, seq s n = map (fun k => (s + k)%nat) (seq 0 n).
Proof.
  induction n as [|n IH]; intros s; cbn [seq map]; [reflexivity|].
  f_equal; [lia|]. rewrite (IH (S s)), (IH 1%nat), map_map. apply map_ext. intros k. lia.
Qed.

Lemma seqZ_app a b : 0 <= a <= b -> seqZ a ++ map (fun i => a + i) (seqZ (b - a)) = seqZ b.
Proof.
  intros H. unfold seqZ. replace (Z.to_nat b) with (Z.to_nat a + Z.to_nat (b - a))%nat by lia.
  rewrite seq_app, map_app. f_equal. cbn [Nat.add]. rewrite (seq_add _ (Z.to_nat a)), !map_map.
  apply map_ext. intros k. lia.
Qed.

Section PublishProofs.
Variable trim : bytes -> bytes.

Lemma build_meta_ok sp topics m :
  admissible sp -> topics_admissible topics -> build_meta trim sp topics = Done m ->
  meta_ok m /\ m_brokers m <> [] /\ broker_ids m = seqZ (sts_replicas (sts_of trim sp)).
Proof.
  intros Ha Ht H. pose proof (brokers_match trim sp topics m Ha H) as (Hlen & Hids & _).
  pose proof (leaders_valid trim sp topics m Ha H) as Hl.
  pose proof (partitions_dense trim sp topics m H) as (_ & Hd).
  destruct Ha as (r & Hr & Hrange).
  assert (Hs : sts_replicas (sts_of trim sp) = r) by (unfold sts_of; cbn; now rewrite Hr).
  split; [|split].
  - intros mt Hmt. split.
    + clear Hl Hlen Hids H. revert Hmt Hd. generalize (m_topics m) as mts. intros mts Hmt Hd. revert Hmt.
      induction Hd as [|mt' t mts ts [H1 H2] _ IH]; intros Hmt; [destruct Hmt|].
      destruct Hmt as [<-|Hmt]; [|idtac]. 2:{ apply IH; [|exact Hmt]. inversion Ht; assumption. } unfold dense. rewrite H2. exact H1.
    + intros p Hp. exact (Hl mt p Hmt Hp).
  - intros E. cbv zeta in Hlen. rewrite E, Hs in Hlen. unfold zlen in Hlen. cbn [length] in Hlen. lia.
  - exact Hids.
Qed.

Definition pinv (m : meta) : Prop := meta_ok m /\ (m_brokers m = [] -> m_topics m = []).

Lemma pinv0 : pinv meta0.
Proof. split; [intros mt []|reflexivity]. Qed.

Lemma pinv_dense m : pinv m -> Forall (fun t => dense (mt_parts t)) (m_topics m).
Proof. intros [H _]. apply Forall_forall. intros t Ht. now apply H. Qed.

Lemma default_leader_in m : m_brokers m <> [] -> In (default_leader m) (broker_ids m).
Proof. unfold default_leader, broker_ids. destruct (m_brokers m); [contradiction|]. intros _. now left. Qed.

Lemma new_parts_ok ids l from to : In l ids -> forall p, In p (new_parts l from to) -> part_ok ids p.
Proof.
  intros Hl p Hp. unfold new_parts in Hp. apply in_map_iff in Hp as (i & <- & _).
  unfold part_ok. cbn. repeat split; try (intros x [<-|[]]); assumption.
Qed.

Lemma new_parts_dense l ps n : dense ps -> zlen ps <= n -> dense (ps ++ new_parts l (zlen ps) n).
Proof.
  intros Hd Hn. unfold dense in *. pose proof (zlen_nonneg ps) as Hnn.
  rewrite map_app, Hd, zlen_app. set (k := zlen ps) in *.
  assert (Hl : zlen (new_parts l k n) = n - k).
  { unfold new_parts, zlen. rewrite map_length, seqZ_length. lia. }
  rewrite Hl. replace (k + (n - k)) with n by lia.
  unfold new_parts. rewrite map_map. cbn [p_id]. apply seqZ_app. lia.
Qed.

Lemma grow_ok ids l name n ts : In l ids -> Forall (topic_ok ids) ts -> Forall (topic_ok ids) (grow_in l name n ts).
Proof.
  intros Hl H. induction H as [|t ts Ht Hts IH]; cbn [grow_in]; [constructor|].
  destruct (bytes_eqb name (mt_name t)); [|constructor; assumption].
  constructor; [|assumption]. destruct (n <=? zlen (mt_parts t)) eqn:E; [exact Ht|].
  destruct Ht as [Hd Hp]. split; cbn [mt_parts].
  - apply new_parts_dense; [assumption|lia].
  - intros p Hin. apply in_app_or in Hin as [Hin|Hin]; [now apply Hp|now apply (new_parts_ok ids l (zlen (mt_parts t)) n Hl)].
Qed.

Lemma grow_nonempty l name n ts : ts <> [] -> grow_in l name n ts <> [].
Proof. destruct ts as [|t ts]; [contradiction|]. intros _. cbn. destruct (bytes_eqb name (mt_name t)); discriminate. Qed.

Lemma delete_ok (P : mtopic -> Prop) name ts : Forall P ts -> Forall P (delete_first name ts).
Proof.
  induction 1 as [|t ts Ht H IH]; cbn; [constructor|].
  destruct (bytes_eqb name (mt_name t)); [assumption|constructor; assumption].
Qed.

Lemma set_err_ok ids name code ts : Forall (topic_ok ids) ts -> Forall (topic_ok ids) (set_err name code ts).
Proof.
  induction 1 as [|t ts Ht H IH]; cbn; [constructor|].
  destruct (bytes_eqb name (mt_name t)); constructor; assumption.
Qed.

Lemma pstep_inv m e : pevent_admissible e -> pinv m -> pinv (pstep trim true m e).
Proof.
  intros Ha [Hok Hb]. destruct e as [sp topics|name n|name n|name|name code]; cbn [pstep].
  - destruct Ha as [Ha Ht]. destruct (build_meta trim sp topics) as [|next] eqn:E; [now split|].
    destruct (build_meta_ok sp topics next Ha Ht E) as (Hn & Hne & _).
    destruct (merge_ok next m Hne Hn (pinv_dense m (conj Hok Hb))) as [H1 H2]. unfold merge in H1, H2.
    split; [exact H1|]. intros E2. rewrite H2 in E2. contradiction.
  - split.
    + apply meta_ok_forall. cbn. destruct (m_topics m) as [|t ts] eqn:Et; [constructor|].
      assert (m_brokers m <> []) as Hne by (intros E; specialize (Hb E); discriminate).
      rewrite <- Et. apply grow_ok; [now apply default_leader_in|]. now apply meta_ok_forall.
    + cbn. intros E. rewrite (Hb E). reflexivity.
  - destruct (m_brokers m) as [|b bs] eqn:Eb.
    + destruct (n <=? 0); destruct (nonempty name); cbn [negb orb]; (split; [assumption|intros _; exact (Hb eq_refl)]).
    + assert (Hm : pinv m) by (split; [assumption|rewrite Eb; discriminate]).
      destruct (n <=? 0) eqn:En; cbn [orb]; [exact Hm|].
      destruct (nonempty name); cbn [negb orb]; [|exact Hm].
      destruct (find_idx name (m_topics m) 0); [exact Hm|].
      split; [|cbn; rewrite Eb; discriminate].
      apply meta_ok_forall. unfold broker_ids. cbn [m_brokers m_topics with_topics].
      apply Forall_app. split; [now apply meta_ok_forall|]. constructor; [|constructor].
      assert (In (default_leader m) (broker_ids m)) as Hl by (apply default_leader_in; rewrite Eb; discriminate).
      split; cbn [mt_parts].
      * pose proof (new_parts_dense (default_leader m) [] n) as H. cbn [app] in H. apply H; [reflexivity|].
        rewrite zlen_nil. lia.
      * intros p Hp. now apply (new_parts_ok (broker_ids m) (default_leader m) 0 n Hl).
  - split; [|cbn; intros E; now rewrite (Hb E)].
    apply meta_ok_forall. cbn. apply delete_ok. now apply meta_ok_forall.
  - split; [|cbn; intros E; now rewrite (Hb E)].
    apply meta_ok_forall. cbn. apply set_err_ok. now apply meta_ok_forall.
Qed.

Theorem published_valid es : Forall pevent_admissible es -> meta_ok (prun trim true meta0 es).
Proof.
  intros H. assert (forall m, pinv m -> pinv (prun trim true m es)) as Hrun.
  { induction H as [|e es He _ IH]; intros m Hm; cbn [prun]; [exact Hm|]. apply IH. now apply pstep_inv. }
  exact (proj1 (Hrun meta0 pinv0)).
Qed.

(* right after a publish the broker list is exactly the spec's replicas *)
Theorem published_brokers es sp topics :
  Forall pevent_admissible es -> admissible sp -> topics_admissible topics ->
  let m := prun trim true meta0 (es ++ [PPublish sp topics]) in
  meta_ok m /\ broker_ids m = seqZ (sts_replicas (sts_of trim sp)).
Proof.
  intros Hes Ha Ht m. split.
  - apply published_valid. apply Forall_app. split; [exact Hes|]. constructor; [now split|constructor].
  - unfold m. clear m. revert Hes. generalize meta0. induction es as [|e es IH]; intros m0 Hes.
    + cbn [app prun pstep]. destruct (no_panic trim sp topics Ht) as (next & E). rewrite E.
      destruct (build_meta_ok sp topics next Ha Ht E) as (_ & _ & Hb).
      unfold merge_gen. destruct (m_topics m0); [exact Hb|]. unfold broker_ids in *. cbn. exact Hb.
    + cbn [app prun]. inversion Hes; subst. now apply IH.
Qed.

End PublishProofs.

(* the unfixed merge published a leader that is not a listed broker:
   3 replicas, topic x with 3 partitions published; a broker grows x to 6; scale to 2; publish *)
Lemma merge_orig_refuted :
  let id := fun b : bytes => b in
  let x := [120] in
  let sp3 := mkSpec [100] [110] (Some 3) [] None [] in
  let sp2 := mkSpec [100] [110] (Some 2) [] None [] in
  let es := [PPublish sp3 [mkTopic x 3]; PGrow x 6; PPublish sp2 [mkTopic x 3]] in
  meta_okb (prun id false meta0 es) = false /\ broker_ids (prun id false meta0 es) = [0; 1] /\
  meta_okb (prun id true meta0 es) = true /\
  map (fun t => zlen (mt_parts t)) (m_topics (prun id true meta0 es)) = [6].
Proof. vm_compute. repeat split. Qed.
