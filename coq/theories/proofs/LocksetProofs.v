(* Proofs about the lock-discipline model (C41). *)
From Coq Require Import ZifyBool.
From KS Require Import lib.Base lib.Strings model.Cache proofs.CacheProofs model.Lockset.
Open Scope Z_scope.

(* invariant: the cache model's own invariant, and every handed-out buffer id is an
   allocated buffer (so it is never the buffer a later SetSegment allocates) *)
Definition linv (s : state) : Prop :=
  Inv (st_cache s) /\ forall t id, holds s t id = true -> (id < length (c_heap (st_cache s)))%nat.

Lemma linv_init cap : linv (init cap).
Proof. split; [apply inv_new|]. intros t id H. discriminate. Qed.

Lemma linv_init_cold cap pubs : linv (init_cold cap pubs).
Proof. split; [apply inv_new|]. intros t id H. discriminate. Qed.

Lemma holds_cons s t id t' id' c p cr :
  holds (mkSt c ((t', id') :: st_hand s) p cr) t id = true ->
  (t' = t /\ id' = id) \/ holds s t id = true.
Proof.
  unfold holds. cbn. intros H. apply orb_true_iff in H as [H|H]; [left|right; exact H].
  apply andb_true_iff in H as [H1 H2]. apply Z.eqb_eq in H1. apply Nat.eqb_eq in H2. auto.
Qed.

Lemma linv_step s t a s' : linv s -> step s t a = Some s' -> linv s'.
Proof.
  intros [Hc Hh] H. unfold step in H. destruct (negb (enabled s t a)); [discriminate|].
  injection H as H; subst s'.
  destruct a; try (split; assumption).
  - (* ACacheSet *) split; cbn [st_cache];
      change (set (st_cache s) (make_key topic part base) data) with (fst (Cache.step (st_cache s) (OSet topic part base data))).
    + apply (inv_step _ (OSet topic part base data)), Hc.
    + intros t' id Hhold. destruct (heap_step (st_cache s) (OSet topic part base data)) as [ext E].
      rewrite E, app_length. specialize (Hh t' id Hhold). lia.
  - (* ACacheGet *)
    pose proof (inv_step (st_cache s) (OGet topic part base) Hc) as Hc'.
    destruct (heap_step (st_cache s) (OGet topic part base)) as [ext E].
    pose proof (get_id_valid (st_cache s) (make_key topic part base)) as V.
    change (Cache.step (st_cache s) (OGet topic part base)) with (get (st_cache s) (make_key topic part base)) in *.
    destruct (get (st_cache s) (make_key topic part base)) as [c' r] eqn:G.
    cbn [fst snd] in *. split; [exact Hc'|]. cbn [st_cache].
    intros t' id Hhold. destruct r as [id0|].
    + apply holds_cons in Hhold as [[_ <-]|Hhold].
      * apply V; [exact Hc|reflexivity].
      * rewrite E, app_length. specialize (Hh t' id Hhold). lia.
    + rewrite E, app_length. specialize (Hh t' id Hhold). lia.
Qed.

Lemma linv_run evs : forall s s', linv s -> run s evs = Some s' -> linv s'.
Proof.
  induction evs as [|[t a] evs IH]; intros s s' Hi H; cbn in H.
  - inversion H; subst; exact Hi.
  - destruct (step s t a) as [s1|] eqn:E; [|discriminate]. eapply IH; [|exact H]. eapply linv_step; eauto.
Qed.

Lemma lock_eqb_refl k : lock_eqb k k = true.
Proof. destruct k; cbn; try reflexivity; apply Z.eqb_refl. Qed.

Ltac eqbs :=
  repeat match goal with
         | |- context [(?x =? ?y)%Z] =>
             let E := fresh "E" in destruct (x =? y)%Z eqn:E; [apply Z.eqb_eq in E|apply Z.eqb_neq in E]; cbn
         | |- context [Nat.eqb ?x ?y] =>
             let E := fresh "E" in destruct (Nat.eqb x y) eqn:E; [apply Nat.eqb_eq in E|apply Nat.eqb_neq in E]; cbn
         end.

(* any two enabled steps of different threads that conflict hold a common lock *)
Theorem lockset_discipline : forall cap pubs evs s,
  run (init_cold cap pubs) evs = Some s ->
  forall t1 a1 t2 a2, t1 <> t2 ->
    enabled s t1 a1 = true -> enabled s t2 a2 = true ->
    conflict (footprint s a1) (footprint s a2) = true ->
    common_lock (footprint s a1) (footprint s a2) = true.
Proof.
  intros cap pubs evs s Hrun t1 a1 t2 a2 Hne H1 H2 Hc.
  pose proof (linv_run evs _ _ (linv_init_cold cap pubs) Hrun) as [_ Hh].
  revert Hc.
  destruct a1, a2; cbn [footprint conflict common_lock mem_loc existsb loc_eqb lock_eqb snd fst orb andb];
    try (intros; reflexivity); try (intros; discriminate).
  all: eqbs; try (intros; reflexivity); try (intros; discriminate).
  all: intros _; exfalso; cbn [enabled] in H1, H2; subst;
    repeat match goal with H : _ && _ = true |- _ => apply andb_true_iff in H as [? ?] end;
    try (match goal with H : holds _ _ _ = true |- _ => apply Hh in H; lia end);
    try (match goal with H : negb (published ?s ?l) = true, H' : published ?s ?l = true |- _ => rewrite H' in H; discriminate end);
    try (destruct (creator_of _ _); try discriminate;
         repeat match goal with H : (_ =? _) = true |- _ => apply Z.eqb_eq in H end; congruence);
    try congruence.
Qed.

(* every step that touches the location of a lock-guarded field holds that lock,
   except the single-flight creator's initialisation of a log nobody else can reach *)
Theorem guard_locks_held : forall g l x k s a,
  guard_loc g l = Some (x, k) -> touches s a x = true -> holds_lock s a k = true \/ is_init a = true.
Proof.
  intros g l x k s a Hg. destruct g; cbn in Hg; try discriminate; injection Hg as <- <-;
    unfold touches, holds_lock, is_init; destruct a;
    cbn [footprint mem_loc existsb loc_eqb lock_eqb snd fst orb andb];
    eqbs; intros; subst; rewrite ?Z.eqb_refl; cbn; auto; try discriminate; try congruence.
Qed.
