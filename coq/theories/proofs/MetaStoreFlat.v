(* The etcd key space is ONE flat map from byte-string keys. model/MetaStore.v keeps one map
   per key family; this file justifies that view: for '/'-free names the families' keys never
   coincide, no family's delete prefix or key parser reaches into another family, and every
   operation on the flat map projects to the same operation on the family maps. *)
From Coq Require Import String.
From KS Require Import lib.Base lib.Strings lib.Paths model.MetaStore
  proofs.MetaStoreProofs proofs.MetaStoreKeys proofs.MetaStoreParse.
Open Scope Z_scope.

Definition snapshot_key : bytes := lit "/kafscale/metadata/snapshot".

(* ---------------------------------------------------------------- shapes of the families *)
Inductive family := FNoff | FCfg | FPstate | FGroup | FCoff | FAssign | FSnapshot.

Definition key_of (f : family) (g t : bytes) (p : Z) : bytes :=
  match f with
  | FNoff => offset_key t p
  | FCfg => topic_config_key t
  | FPstate => partition_state_key t p
  | FGroup => group_key g
  | FCoff => coff_key g t p
  | FAssign => assignment_key t p
  | FSnapshot => snapshot_key
  end.

Definition top_of (f : family) : Z :=   (* which /kafscale/<x> subtree *)
  match f with
  | FNoff | FCfg | FPstate => 0
  | FGroup | FCoff => 1
  | FAssign => 2
  | FSnapshot => 3
  end.

(* keys of different subtrees differ, whatever the names are *)
Lemma subtree_differs f f' g t p g' t' p' :
  top_of f <> top_of f' -> key_of f g t p <> key_of f' g' t' p'.
Proof.
  intros Hne E. destruct f, f'; cbn [top_of] in Hne; try congruence; clear Hne;
    unfold key_of, offset_key, topic_config_key, partition_state_key, group_key, coff_key, assignment_key,
           snapshot_key, topics_pfx, consumers_pfx, assignments_pfx in E;
    apply (f_equal (firstn 11)) in E; vm_compute in E; discriminate.
Qed.

Lemma strip_topics t x t' x' : noslash t -> noslash t' ->
  topics_pfx ++ slash :: t ++ slash :: x = topics_pfx ++ slash :: t' ++ slash :: x' -> t = t' /\ x = x'.
Proof. intros Ht Ht'. now apply topics_tail_inj. Qed.

(* inside the topics subtree *)
Lemma noff_cfg_differ t p t' : noslash t -> noslash t' -> offset_key t p <> topic_config_key t'.
Proof.
  intros Ht Ht' E. unfold offset_key, topic_config_key in E.
  change (lit "/partitions/") with (slash :: lit "partitions/") in E.
  change (lit "/config") with (slash :: lit "config") in E. cbn [app] in E.
  apply strip_topics in E as [_ E]; auto. vm_compute in E. discriminate.
Qed.

Lemma pstate_cfg_differ t p t' : noslash t -> noslash t' -> partition_state_key t p <> topic_config_key t'.
Proof.
  intros Ht Ht' E. unfold partition_state_key, topic_config_key in E.
  change (lit "/partitions/") with (slash :: lit "partitions/") in E.
  change (lit "/config") with (slash :: lit "config") in E. cbn [app] in E.
  apply strip_topics in E as [_ E]; auto. vm_compute in E. discriminate.
Qed.

Lemma noff_pstate_differ t p t' p' : noslash t -> noslash t' -> offset_key t p <> partition_state_key t' p'.
Proof.
  intros Ht Ht' E. unfold offset_key, partition_state_key in E.
  change (lit "/partitions/") with (slash :: lit "partitions/") in E. cbn [app] in E.
  apply strip_topics in E as [_ E]; auto. apply app_inv_head in E.
  change (lit "/next_offset") with (slash :: lit "next_offset") in E.
  assert (In slash (dec p')) as Hin by (rewrite <- E; apply in_or_app; right; now left).
  now apply (dec_no_sep p' slash slash_not_dec).
Qed.

(* inside the consumers subtree *)
Lemma group_coff_differ g g' t p : noslash g -> noslash g' -> group_key g <> coff_key g' t p.
Proof.
  intros Hg Hg' E. unfold group_key, coff_key in E. apply app_inv_head in E.
  apply (f_equal (@tl Z)) in E. cbn [tl] in E.
  change (lit "/metadata") with (slash :: lit "metadata") in E.
  change (lit "/offsets/") with (slash :: lit "offsets/") in E. cbn [app] in E.
  apply split_first_sep in E as [_ E]; auto. vm_compute in E. discriminate.
Qed.

Definition names_noslash (g t : bytes) : Prop := noslash g /\ noslash t.

(* keys of two different families never coincide *)
Theorem families_disjoint f f' g t p g' t' p' :
  f <> f' -> names_noslash g t -> names_noslash g' t' ->
  key_of f g t p <> key_of f' g' t' p'.
Proof.
  intros Hne [Hg Ht] [Hg' Ht'].
  destruct (Z.eq_dec (top_of f) (top_of f')) as [Et|Et]; [|now apply subtree_differs].
  destruct f, f'; cbn [top_of] in Et; try congruence; try discriminate; cbn [key_of].
  - now apply noff_cfg_differ.
  - now apply noff_pstate_differ.
  - intros E. symmetry in E. revert E. now apply noff_cfg_differ.
  - intros E. symmetry in E. revert E. now apply pstate_cfg_differ.
  - intros E. symmetry in E. revert E. now apply noff_pstate_differ.
  - now apply pstate_cfg_differ.
  - now apply group_coff_differ.
  - intros E. symmetry in E. revert E. now apply group_coff_differ.
Qed.

(* the prefix DeleteTopic removes lies inside the topics subtree: it covers no key of the
   consumers / assignments / snapshot families (whatever the names), and inside the topics
   subtree only keys of that very topic (delete_prefix_free / delete_prefix_own) *)
Theorem delete_prefix_stays_in_topics n f g t p :
  top_of f <> 0 -> has_prefix (topic_delete_prefix n) (key_of f g t p) = false.
Proof.
  intros Hf. destruct (has_prefix _ _) eqn:E; [|reflexivity].
  apply has_prefix_spec in E as [r E]. exfalso.
  destruct f; cbn [top_of] in Hf; try congruence; clear Hf;
    unfold key_of, group_key, coff_key, assignment_key, snapshot_key, topic_delete_prefix,
           topics_pfx, consumers_pfx, assignments_pfx in E;
    apply (f_equal (firstn 11)) in E; rewrite <- !app_assoc in E; vm_compute in E; discriminate.
Qed.

(* the two parsers that scan the shared /kafscale/consumers subtree tell the two families apart *)
Lemma parse_group_of_coff g t p : name_ok g -> name_ok t -> int32_ok p = true ->
  parse_group_key (coff_key g t p) = None.
Proof.
  intros [Hg Hgs] [Ht Hts] Hp. unfold parse_group_key, coff_key.
  replace (consumers_pfx ++ slash :: g ++ lit "/offsets/" ++ t ++ slash :: dec p)
    with ((consumers_pfx ++ [slash]) ++ g ++ lit "/offsets/" ++ t ++ slash :: dec p)
    by (rewrite <- app_assoc; reflexivity).
  rewrite strip_prefix_app.
  destruct (strip_suffix (lit "/metadata") (g ++ lit "/offsets/" ++ t ++ slash :: dec p)) as [x|] eqn:E; [|reflexivity].
  (* the key would end in "/metadata", but it ends in a decimal number *)
  unfold strip_suffix in E. destruct (strip_prefix _ _) as [y|] eqn:E2; [|discriminate].
  exfalso. clear E.
  assert (exists r, rev (g ++ lit "/offsets/" ++ t ++ slash :: dec p) = rev (lit "/metadata") ++ r) as [r Hr].
  { apply has_prefix_spec. unfold has_prefix. now rewrite E2. }
  rewrite !app_assoc in Hr. change (slash :: dec p) with ([slash] ++ dec p) in Hr.
  rewrite app_assoc, rev_app_distr in Hr.
  pose proof (dec_nonempty p) as Hne. pose proof (dec_chars p) as Hc.
  destruct (rev (dec p)) as [|c rest] eqn:Er.
  - apply (f_equal (@rev Z)) in Er. rewrite rev_involutive in Er. cbn in Er. congruence.
  - assert (In c (dec p)) as Hin by (apply in_rev; rewrite Er; now left).
    rewrite forallb_forall in Hc. specialize (Hc c Hin).
    cbn in Hr. inversion Hr as [Hc97]. subst c. vm_compute in Hc. discriminate.
Qed.

Lemma parse_coff_of_group g : name_ok g -> parse_coff_key (group_key g) = None.
Proof.
  intros [Hg Hgs]. unfold parse_coff_key, group_key.
  replace (consumers_pfx ++ slash :: g ++ lit "/metadata")
    with ((consumers_pfx ++ [slash]) ++ g ++ slash :: lit "metadata")
    by (rewrite <- app_assoc; reflexivity).
  rewrite strip_prefix_app, split_on_app_sep, (split_on_nosep slash g Hgs).
  rewrite (split_on_nosep slash (lit "metadata")) by (vm_compute; intuition discriminate).
  reflexivity.
Qed.

(* ---------------------------------------------------------------- the flat key space *)
Inductive fval := VOff (z : Z) | VCfg (c : cfg) | VPst (x : bytes * Z) | VGrp (g : group) | VCof (x : Z * bytes).

Definition flat := list (bytes * fval).      (* one map: key bytes -> value *)

Definition opt_or {A} (a b : option A) : option A := match a with Some _ => a | None => b end.

(* what the family maps of a model state say about a key of the flat space *)
Definition flat_get (s : etcd) (k : bytes) : option fval :=
  opt_or (option_map VOff (aget bytes_eqb k (et_noff s)))
 (opt_or (option_map VCfg (aget bytes_eqb k (et_cfg s)))
 (opt_or (option_map VPst (aget bytes_eqb k (et_pstate s)))
 (opt_or (option_map VGrp (aget bytes_eqb k (et_groups s)))
         (option_map VCof (aget bytes_eqb k (et_coff s)))))).

(* F is the flat etcd content that the per-family maps of s are a view of *)
Definition represents (F : flat) (s : etcd) : Prop := forall k, aget bytes_eqb k F = flat_get s k.

(* every key stored in a family map has that family's shape, with '/'-free names *)
Definition keys_shaped {V} (f : family) (m : list (bytes * V)) : Prop :=
  forall k, In k (map fst m) -> exists g t p, names_noslash g t /\ k = key_of f g t p.

Record shaped (s : etcd) : Prop := mkShaped {
  sh_noff : keys_shaped FNoff (et_noff s);
  sh_cfg : keys_shaped FCfg (et_cfg s);
  sh_pstate : keys_shaped FPstate (et_pstate s);
  sh_groups : keys_shaped FGroup (et_groups s);
  sh_coff : keys_shaped FCoff (et_coff s) }.

Lemma aget_notin {V} k (m : list (bytes * V)) : ~ In k (map fst m) -> aget bytes_eqb k m = None.
Proof.
  induction m as [|[k' v] m IH]; intros H; [reflexivity|]. cbn in *.
  destruct (bytes_eqb k k') eqn:E; [apply bytes_eqb_eq in E; subst; tauto|]. apply IH. tauto.
Qed.

Lemma absent_in_other {V} f f' (m : list (bytes * V)) g t p :
  f <> f' -> names_noslash g t -> keys_shaped f' m -> aget bytes_eqb (key_of f g t p) m = None.
Proof.
  intros Hne Hn Hs. apply aget_notin. intros Hin. destruct (Hs _ Hin) as (g' & t' & p' & Hn' & E).
  now apply (families_disjoint f f' g t p g' t' p' Hne Hn Hn').
Qed.

Lemma shaped_put {V} f (m : list (bytes * V)) g t p v :
  names_noslash g t -> keys_shaped f m -> keys_shaped f (aput bytes_eqb (key_of f g t p) v m).
Proof.
  intros Hn Hs k Hin. induction m as [|[k' v'] m IH]; cbn in Hin.
  - destruct Hin as [<-|[]]. now exists g, t, p.
  - destruct (bytes_eqb (key_of f g t p) k'); cbn in Hin.
    + destruct Hin as [<-|Hin]; [now exists g, t, p|]. apply Hs. now right.
    + destruct Hin as [<-|Hin]; [apply Hs; now left|]. apply IH; [|exact Hin].
      intros k2 H2. apply Hs. now right.
Qed.

(* ---------- simulation: a Put on the flat map is the Put on the key's own family map ---------- *)
Ltac flat_put_tac Hr Hs Hn :=
  let k' := fresh "k'" in
  intros k';
  match goal with |- aget _ _ (aput _ ?k _ _) = _ =>
    destruct (bytes_eqb k' k) eqn:E;
    [ apply bytes_eqb_eq in E; subst k'; rewrite (aget_aput_same _ bytes_eqb_eq)
    | apply bytes_eqb_neq in E; rewrite (aget_aput_other _ bytes_eqb_eq _ _ _ _ E), Hr ] end;
  unfold flat_get; cbn [eset_noff eset_cfg eset_pstate eset_groups eset_coff et_noff et_cfg et_pstate et_groups et_coff].

Ltac kill f f' m g t p Hnn Hs :=
  let H := fresh "Habs" in
  assert (aget bytes_eqb (key_of f g t p) m = None) as H
    by (apply (absent_in_other f f'); [discriminate | exact Hnn | apply Hs]);
  cbn [key_of] in H; rewrite H; clear H.

Theorem flat_put_noff F s t p z : represents F s -> shaped s -> noslash t ->
  represents (aput bytes_eqb (offset_key t p) (VOff z) F)
             (eset_noff s (aput bytes_eqb (offset_key t p) z (et_noff s))).
Proof.
  intros Hr Hs Hn. flat_put_tac Hr Hs Hn.
  - now rewrite (aget_aput_same _ bytes_eqb_eq).
  - now rewrite (aget_aput_other _ bytes_eqb_eq _ _ _ _ E).
Qed.

Theorem flat_put_cfg F s t c : represents F s -> shaped s -> noslash t ->
  represents (aput bytes_eqb (topic_config_key t) (VCfg c) F)
             (eset_cfg s (aput bytes_eqb (topic_config_key t) c (et_cfg s))).
Proof.
  intros Hr Hs Hn. assert (names_noslash [] t) as Hnn by (split; [intros []|exact Hn]). flat_put_tac Hr Hs Hn.
  - kill FCfg FNoff (et_noff s) (@nil Z) t 0 Hnn Hs.
    now rewrite (aget_aput_same _ bytes_eqb_eq).
  - now rewrite (aget_aput_other _ bytes_eqb_eq _ _ _ _ E).
Qed.

Theorem flat_put_pstate F s t p x : represents F s -> shaped s -> noslash t ->
  represents (aput bytes_eqb (partition_state_key t p) (VPst x) F)
             (eset_pstate s (aput bytes_eqb (partition_state_key t p) x (et_pstate s))).
Proof.
  intros Hr Hs Hn. assert (names_noslash [] t) as Hnn by (split; [intros []|exact Hn]). flat_put_tac Hr Hs Hn.
  - kill FPstate FNoff (et_noff s) (@nil Z) t p Hnn Hs.
    kill FPstate FCfg (et_cfg s) (@nil Z) t p Hnn Hs.
    now rewrite (aget_aput_same _ bytes_eqb_eq).
  - now rewrite (aget_aput_other _ bytes_eqb_eq _ _ _ _ E).
Qed.

Theorem flat_put_group F s g v : represents F s -> shaped s -> noslash g ->
  represents (aput bytes_eqb (group_key g) (VGrp v) F)
             (eset_groups s (aput bytes_eqb (group_key g) v (et_groups s))).
Proof.
  intros Hr Hs Hn. assert (names_noslash g []) as Hnn by (split; [exact Hn|intros []]). flat_put_tac Hr Hs Hn.
  - kill FGroup FNoff (et_noff s) g (@nil Z) 0 Hnn Hs.
    kill FGroup FCfg (et_cfg s) g (@nil Z) 0 Hnn Hs.
    kill FGroup FPstate (et_pstate s) g (@nil Z) 0 Hnn Hs.
    now rewrite (aget_aput_same _ bytes_eqb_eq).
  - now rewrite (aget_aput_other _ bytes_eqb_eq _ _ _ _ E).
Qed.

Theorem flat_put_coff F s g t p x : represents F s -> shaped s -> names_noslash g t ->
  represents (aput bytes_eqb (coff_key g t p) (VCof x) F)
             (eset_coff s (aput bytes_eqb (coff_key g t p) x (et_coff s))).
Proof.
  intros Hr Hs Hn. pose proof Hn as Hnn. flat_put_tac Hr Hs Hn.
  - kill FCoff FNoff (et_noff s) g t p Hnn Hs.
    kill FCoff FCfg (et_cfg s) g t p Hnn Hs.
    kill FCoff FPstate (et_pstate s) g t p Hnn Hs.
    kill FCoff FGroup (et_groups s) g t p Hnn Hs.
    now rewrite (aget_aput_same _ bytes_eqb_eq).
  - now rewrite (aget_aput_other _ bytes_eqb_eq _ _ _ _ E).
Qed.

(* a Get on the flat map is the Get on the key's own family map *)
Theorem flat_get_coff F s g t p : represents F s -> shaped s -> names_noslash g t ->
  aget bytes_eqb (coff_key g t p) F = option_map VCof (aget bytes_eqb (coff_key g t p) (et_coff s)).
Proof.
  intros Hr Hs Hn. pose proof Hn as Hnn. rewrite Hr. unfold flat_get.
  kill FCoff FNoff (et_noff s) g t p Hnn Hs.
  kill FCoff FCfg (et_cfg s) g t p Hnn Hs.
  kill FCoff FPstate (et_pstate s) g t p Hnn Hs.
  kill FCoff FGroup (et_groups s) g t p Hnn Hs.
  reflexivity.
Qed.

(* ---------- a ranged / conditional Delete on the flat map ---------- *)
Lemma flat_delete_if F s drop : represents F s ->
  represents (adel_if drop F)
    (mkEtcd (et_meta s) (adel_if drop (et_noff s)) (adel_if drop (et_cfg s)) (adel_if drop (et_pstate s))
            (adel_if drop (et_groups s)) (adel_if drop (et_coff s))).
Proof.
  intros Hr k. rewrite (aget_adel_if _ bytes_eqb_eq), Hr. unfold flat_get. cbn [et_noff et_cfg et_pstate et_groups et_coff].
  rewrite !(aget_adel_if _ bytes_eqb_eq). now destruct (drop k).
Qed.

Lemma adel_if_untouched {V} drop (m : list (bytes * V)) :
  (forall k, In k (map fst m) -> drop k = false) -> adel_if drop m = m.
Proof.
  unfold adel_if. induction m as [|[k v] m IH]; intros H; [reflexivity|]. cbn [filter fst].
  rewrite (H k) by now left. cbn [negb]. f_equal. apply IH. intros k' Hk. apply H. now right.
Qed.

(* DeleteTopic's prefix delete on the flat map only reaches the three topic families *)
Theorem flat_delete_topic_prefix F s n : represents F s -> shaped s ->
  represents (adel_if (has_prefix (topic_delete_prefix n)) F)
    (mkEtcd (et_meta s) (adel_if (has_prefix (topic_delete_prefix n)) (et_noff s))
            (adel_if (has_prefix (topic_delete_prefix n)) (et_cfg s))
            (adel_if (has_prefix (topic_delete_prefix n)) (et_pstate s))
            (et_groups s) (et_coff s)).
Proof.
  intros Hr Hs. pose proof (flat_delete_if F s (has_prefix (topic_delete_prefix n)) Hr) as H.
  rewrite (adel_if_untouched _ (et_groups s)) in H.
  - rewrite (adel_if_untouched _ (et_coff s)) in H; [exact H|].
    intros k Hk. destruct (sh_coff _ Hs k Hk) as (g & t & p & _ & ->).
    now apply (delete_prefix_stays_in_topics n FCoff g t p).
  - intros k Hk. destruct (sh_groups _ Hs k Hk) as (g & t & p & _ & ->).
    now apply (delete_prefix_stays_in_topics n FGroup g t p).
Qed.

(* the empty etcd *)
Lemma represents_init b : represents [] (et_new b) /\ shaped (et_new b).
Proof. split; [intros k; reflexivity|]. constructor; intros k []. Qed.
