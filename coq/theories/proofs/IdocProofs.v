(* Proofs about the IDoc explode model (model/Idoc.v). *)
From KS Require Import lib.Base model.Idoc.
Open Scope Z_scope.

(* ---------- maps ---------- *)
Lemma alookup_aremove_same k m : alookup k (aremove k m) = None.
Proof.
  induction m as [|[k' v] m IH]; cbn; [reflexivity|].
  destruct (bytes_eqb k k') eqn:E; [exact IH|]. cbn. rewrite E. exact IH.
Qed.

Lemma alookup_aremove_other k k' m : k <> k' -> alookup k (aremove k' m) = alookup k m.
Proof.
  intros Hne. induction m as [|[k2 v] m IH]; cbn; [reflexivity|].
  destruct (bytes_eqb k' k2) eqn:E.
  - apply bytes_eqb_eq in E. subst k2.
    destruct (bytes_eqb k k') eqn:E2; [apply bytes_eqb_eq in E2; contradiction|]. exact IH.
  - cbn. destruct (bytes_eqb k k2); [reflexivity|exact IH].
Qed.

Lemma alookup_aput k k' v m :
  alookup k (aput k' v m) = if bytes_eqb k k' then Some v else alookup k m.
Proof.
  unfold aput. cbn. destruct (bytes_eqb k k') eqn:E; [reflexivity|].
  apply alookup_aremove_other. now apply bytes_eqb_neq.
Qed.

(* ---------- induction principle for the nested tree type ---------- *)
Section NodeInd.
  Variable P : node -> Prop.
  Hypothesis Htext : forall s, P (NText s).
  Hypothesis Hother : P NOther.
  Hypothesis Helem : forall name attrs kids, Forall P kids -> P (NElem name attrs kids).
  Fixpoint node_ind' (n : node) : P n :=
    match n with
    | NText s => Htext s
    | NOther => Hother
    | NElem name attrs kids =>
        Helem name attrs kids
          ((fix go (l : list node) : Forall P l :=
              match l with
              | [] => Forall_nil P
              | k :: l' => Forall_cons k (node_ind' k) (go l')
              end) kids)
    end.
End NodeInd.

Section WithTrim.
Variable trim : bytes -> bytes.

Notation step := (step trim).
Notation run := (run trim).
Notation node_value := (node_value trim).
Notation field_spec := (field_spec trim).
Notation field_step := (field_step trim).
Notation fields_of := (fields_of trim).
Notation spec_segs := (spec_segs trim).
Notation names_field := (names_field trim).

Lemma run_app z st a b : run z st (a ++ b) = run z (run z st a) b.
Proof. revert st; induction a as [|t a IH]; intros st; cbn; [reflexivity|apply IH]. Qed.

(* ---------- routing: holds for EVERY token list ---------- *)
Definition routes_inv (z : sets) (st : state) : Prop :=
  forall r, st_route st r = routed_spec z r (st_segs st).

Lemma filter_snoc {A} (p : A -> bool) l x : filter p (l ++ [x]) = if p x then filter p l ++ [x] else filter p l.
Proof. rewrite filter_app. cbn. destruct (p x); [reflexivity|apply app_nil_r]. Qed.

Lemma routes_step z st t : routes_inv z st -> routes_inv z (step z st t).
Proof.
  intros H. destruct t as [name attrs|s| |]; cbn [Idoc.step].
  - intros r. specialize (H r). destruct r; exact H.
  - destruct (st_stack st) as [|fr rest]; [exact H|]. intros r. specialize (H r). destruct r; exact H.
  - destruct (st_stack st) as [|fr rest]; [exact H|].
    intros r. specialize (H r). unfold routed_spec in *.
    destruct r; cbn [st_route st_segs st_items st_partners st_statuses st_dates route_set s_name] in *;
      rewrite filter_snoc; cbn [s_name]; unfold add_if; rewrite H; reflexivity.
  - exact H.
Qed.

Lemma routes_run z ts : forall st, routes_inv z st -> routes_inv z (run z st ts).
Proof. induction ts as [|t ts IH]; intros st H; cbn; [exact H|]. apply IH. now apply routes_step. Qed.

Lemma routes_inv0 z : routes_inv z state0.
Proof. intros r. destruct r; reflexivity. Qed.

Theorem routes_exact z ts r :
  st_route (run z state0 ts) r = routed_spec z r (st_segs (run z state0 ts)).
Proof. apply routes_run. apply routes_inv0. Qed.

(* ---------- fields ---------- *)
Lemma fold_fields_lookup kids : forall m k,
  alookup k (fold_left field_step kids m) =
  match field_spec kids k with Some v => Some v | None => alookup k m end.
Proof.
  induction kids as [|c ks IH]; intros m k; cbn [fold_left Idoc.field_spec]; [reflexivity|].
  rewrite IH. destruct (field_spec ks k) as [v|]; [reflexivity|].
  destruct c as [s| |nm attrs kk]; cbn [Idoc.field_step Idoc.names_field]; try reflexivity.
  destruct (is_empty (node_value (NElem nm attrs kk))) eqn:E; cbn [negb].
  - rewrite andb_false_r. reflexivity.
  - rewrite andb_true_r. rewrite alookup_aput. destruct (bytes_eqb k nm); reflexivity.
Qed.

Theorem fields_spec kids k : alookup k (fields_of kids) = field_spec kids k.
Proof.
  unfold Idoc.fields_of. rewrite fold_fields_lookup. destruct (field_spec kids k); reflexivity.
Qed.

(* ---------- post-order ---------- *)
(* effect of one child node on the frame of its parent *)
Definition frame_after1 (fr : frame) (n : node) : frame :=
  match n with
  | NText s => mkFrame (f_name fr) (f_path fr) (f_attrs fr) (f_value fr ++ s) (f_fields fr)
  | NOther => fr
  | NElem nm _ _ =>
      if is_empty (node_value n) then fr else
      match f_fields fr with
      | Some fl => mkFrame (f_name fr) (f_path fr) (f_attrs fr) (f_value fr) (Some (aput nm (node_value n) fl))
      | None => fr
      end
  end.

Lemma frame_after1_name fr n : f_name (frame_after1 fr n) = f_name fr.
Proof.
  destruct n as [s| |nm attrs kk]; cbn; try reflexivity.
  destruct (is_empty _); [reflexivity|]. destruct (f_fields fr); reflexivity.
Qed.

Lemma frame_after_name kids : forall fr, f_name (fold_left frame_after1 kids fr) = f_name fr.
Proof. induction kids as [|c ks IH]; intros fr; cbn; [reflexivity|]. rewrite IH. apply frame_after1_name. Qed.

Lemma frame_after_path kids : forall fr, f_path (fold_left frame_after1 kids fr) = f_path fr.
Proof.
  induction kids as [|c ks IH]; intros fr; cbn; [reflexivity|]. rewrite IH.
  destruct c as [s| |nm attrs kk]; cbn; try reflexivity.
  destruct (is_empty _); [reflexivity|]. destruct (f_fields fr); reflexivity.
Qed.

Lemma frame_after_attrs kids : forall fr, f_attrs (fold_left frame_after1 kids fr) = f_attrs fr.
Proof.
  induction kids as [|c ks IH]; intros fr; cbn; [reflexivity|]. rewrite IH.
  destruct c as [s| |nm attrs kk]; cbn; try reflexivity.
  destruct (is_empty _); [reflexivity|]. destruct (f_fields fr); reflexivity.
Qed.

Lemma frame_after_value kids : forall fr,
  f_value (fold_left frame_after1 kids fr) = f_value fr ++ own_text kids.
Proof.
  induction kids as [|c ks IH]; intros fr; cbn [fold_left own_text flat_map]; [now rewrite app_nil_r|].
  rewrite IH. destruct c as [s| |nm attrs kk]; cbn [frame_after1 f_value].
  - now rewrite app_assoc.
  - reflexivity.
  - cbn [app]. destruct (is_empty _); [reflexivity|]. destruct (f_fields fr); reflexivity.
Qed.

Lemma frame_after_fields kids : forall fr,
  f_fields (fold_left frame_after1 kids fr) =
  match f_fields fr with Some fl => Some (fold_left field_step kids fl) | None => None end.
Proof.
  induction kids as [|c ks IH]; intros fr; cbn [fold_left]; [destruct (f_fields fr); reflexivity|].
  rewrite IH. destruct c as [s| |nm attrs kk]; cbn [frame_after1 f_fields Idoc.field_step]; try reflexivity.
  destruct (is_empty (node_value (NElem nm attrs kk))); [reflexivity|].
  destruct (f_fields fr) eqn:E; cbn [f_fields]; rewrite ?E; reflexivity.
Qed.

Definition anc_of (stack : list frame) : list bytes := rev (map f_name stack).

(* the state after a subtree has been consumed below frame fr *)
Definition upd (z : sets) (st : state) (fr' : frame) (rest : list frame) (segs : list segment) : state :=
  mkState (fr' :: rest) (st_header st) (st_segs st ++ segs)
          (st_items st ++ routed_spec z RItems segs) (st_partners st ++ routed_spec z RPartners segs)
          (st_statuses st ++ routed_spec z RStatuses segs) (st_dates st ++ routed_spec z RDates segs).

Definition node_ok (z : sets) (n : node) : Prop :=
  forall st fr rest h, st_stack st = fr :: rest -> st_header st = Some h ->
    run z st (tokens n) = upd z st (frame_after1 fr n) rest (spec_segs z (anc_of (fr :: rest)) n).

Lemma upd_nil z st fr rest : st_stack st = fr :: rest -> upd z st fr rest [] = st.
Proof.
  intros H. destruct st as [stk hd sg it pa sa da]. cbn in H. subst stk.
  unfold upd, routed_spec. cbn. now rewrite !app_nil_r.
Qed.

Lemma routed_spec_app z r a b : routed_spec z r (a ++ b) = routed_spec z r a ++ routed_spec z r b.
Proof. unfold routed_spec. apply filter_app. Qed.

Lemma upd_upd z st fr1 fr2 rest a b :
  upd z (upd z st fr1 rest a) fr2 rest b = upd z st fr2 rest (a ++ b).
Proof.
  unfold upd. cbn. rewrite !routed_spec_app, <- !app_assoc. reflexivity.
Qed.

Lemma kids_ok z kids : Forall (node_ok z) kids ->
  forall st fr rest h, st_stack st = fr :: rest -> st_header st = Some h ->
    run z st (flat_map tokens kids) =
    upd z st (fold_left frame_after1 kids fr) rest (flat_map (spec_segs z (anc_of (fr :: rest))) kids).
Proof.
  induction 1 as [|c ks Hc Hks IH]; intros st fr rest h Hs Hh; cbn [flat_map fold_left].
  - symmetry. now apply upd_nil.
  - rewrite run_app. rewrite (Hc st fr rest h Hs Hh).
    rewrite (IH (upd z st (frame_after1 fr c) rest (spec_segs z (anc_of (fr :: rest)) c)) (frame_after1 fr c) rest h);
      [|reflexivity|exact Hh].
    rewrite upd_upd. unfold anc_of. cbn [map]. rewrite frame_after1_name. reflexivity.
Qed.

Lemma add_if_routed z r seg l flat :
  add_if (mem (s_name seg) (route_set z r)) seg (l ++ routed_spec z r flat) = l ++ routed_spec z r (flat ++ [seg]).
Proof.
  unfold routed_spec. rewrite filter_snoc. unfold add_if.
  destruct (mem (s_name seg) (route_set z r)); [now rewrite app_assoc|reflexivity].
Qed.

Lemma all_nodes_ok z : forall n, node_ok z n.
Proof.
  apply node_ind'.
  - intros s st fr rest h Hs Hh. cbn [tokens Idoc.run Idoc.step]. rewrite Hs. cbn [spec_segs Idoc.spec_segs frame_after1].
    destruct st as [stk hd sg it pa sa da]. cbn in *. subst. unfold upd, routed_spec. cbn. now rewrite !app_nil_r.
  - intros st fr rest h Hs Hh. cbn [tokens Idoc.run Idoc.step Idoc.spec_segs frame_after1].
    symmetry. now apply upd_nil.
  - intros name attrs kids Hk st fr rest h Hs Hh.
    cbn [tokens]. cbn [Idoc.run]. rewrite run_app.
    set (fr0 := mkFrame name (build_path (fr :: rest) name) (attrs_to_map attrs) []
                        (if is_routed z name then Some [] else None)).
    pose (st1 := mkState (fr0 :: fr :: rest) (Some h) (st_segs st) (st_items st) (st_partners st) (st_statuses st) (st_dates st)).
    assert (Hst1 : step z st (TStart name attrs) = st1).
    { cbn [Idoc.step]. rewrite Hh, Hs. reflexivity. }
    rewrite Hst1.
    rewrite (kids_ok z kids Hk st1 fr0 (fr :: rest) h eq_refl eq_refl).
    cbn [Idoc.run]. unfold upd at 1. unfold st1. cbn [Idoc.step st_stack st_header st_segs st_items st_partners st_statuses st_dates].
    set (fr0' := fold_left frame_after1 kids fr0).
    assert (Hn : f_name fr0' = name) by (unfold fr0'; now rewrite frame_after_name).
    assert (Hp : f_path fr0' = join_slash (anc_of (fr :: rest) ++ [name])).
    { unfold fr0'. rewrite frame_after_path. reflexivity. }
    assert (Ha : f_attrs fr0' = attrs_to_map attrs) by (unfold fr0'; now rewrite frame_after_attrs).
    assert (Hv : f_value fr0' = own_text kids) by (unfold fr0'; now rewrite frame_after_value).
    assert (Hf : f_fields fr0' = if is_routed z name then Some (fields_of kids) else None).
    { unfold fr0'. rewrite frame_after_fields. cbn. destruct (is_routed z name); reflexivity. }
    rewrite Hn, Hp, Ha, Hv, Hf.
    assert (Hanc : anc_of (fr0 :: fr :: rest) = anc_of (fr :: rest) ++ [name]) by reflexivity.
    rewrite Hanc.
    cbn [Idoc.spec_segs]. unfold upd. cbn [st_header st_segs st_items st_partners st_statuses st_dates s_name].
    set (seg := mkSeg name (join_slash (anc_of (fr :: rest) ++ [name])) (attrs_to_map attrs) (trim (own_text kids))
                      (if is_routed z name then Some (fields_of kids) else None)).
    set (flat := flat_map (spec_segs z (anc_of (fr :: rest) ++ [name])) kids).
    change name with (s_name seg) at 2 3 4 5.
    rewrite (add_if_routed z RItems), (add_if_routed z RPartners), (add_if_routed z RStatuses), (add_if_routed z RDates).
    rewrite <- app_assoc. rewrite Hh.
    f_equal.
    (* the parent frame *)
    cbn [frame_after1 Idoc.node_value].
    destruct (is_empty (trim (own_text kids))); [reflexivity|].
    destruct (f_fields fr); reflexivity.
Qed.

(* tokens outside the root element (prolog, comments, white space) change nothing *)
Lemma outside_ignored z st nodes :
  st_stack st = [] -> Forall (fun n => is_elem n = false) nodes -> run z st (flat_map tokens nodes) = st.
Proof.
  intros Hs H. induction H as [|n ns Hn _ IH]; cbn [flat_map]; [reflexivity|].
  rewrite run_app. destruct n as [s| |nm a k]; cbn in Hn; try discriminate; cbn [tokens Idoc.run Idoc.step].
  - rewrite Hs. exact IH.
  - exact IH.
Qed.

Theorem explode_tree z pre name attrs kids post :
  Forall (fun n => is_elem n = false) pre -> Forall (fun n => is_elem n = false) post ->
  let doc := NElem name attrs kids in
  let st := run z state0 (flat_map tokens pre ++ tokens doc ++ flat_map tokens post) in
  st_segs st = spec_segs z [] doc /\ st_stack st = [] /\
  st_header st = Some (name, attrs_to_map attrs) /\
  length (st_segs st) = elem_count doc.
Proof.
  intros Hpre Hpost doc st.
  assert (Hrun : st = mkState [] (Some (name, attrs_to_map attrs)) (spec_segs z [] doc)
                         (routed_spec z RItems (spec_segs z [] doc)) (routed_spec z RPartners (spec_segs z [] doc))
                         (routed_spec z RStatuses (spec_segs z [] doc)) (routed_spec z RDates (spec_segs z [] doc))).
  { unfold st. rewrite run_app, (outside_ignored z state0 pre eq_refl Hpre).
    rewrite run_app.
    assert (Hdoc : run z state0 (tokens doc) =
                   mkState [] (Some (name, attrs_to_map attrs)) (spec_segs z [] doc)
                         (routed_spec z RItems (spec_segs z [] doc)) (routed_spec z RPartners (spec_segs z [] doc))
                         (routed_spec z RStatuses (spec_segs z [] doc)) (routed_spec z RDates (spec_segs z [] doc))).
    { unfold doc. cbn [tokens]. cbn [Idoc.run]. rewrite run_app.
      set (fr0 := mkFrame name (build_path [] name) (attrs_to_map attrs) [] (if is_routed z name then Some [] else None)).
      pose (st1 := mkState [fr0] (Some (name, attrs_to_map attrs)) [] [] [] [] []).
      assert (Hst1 : step z state0 (TStart name attrs) = st1) by reflexivity.
      rewrite Hst1.
      assert (Hk : Forall (node_ok z) kids) by (apply Forall_forall; intros n _; apply all_nodes_ok).
      rewrite (kids_ok z kids Hk st1 fr0 [] (name, attrs_to_map attrs) eq_refl eq_refl).
      cbn [Idoc.run]. unfold upd at 1. unfold st1. cbn [Idoc.step st_stack st_header st_segs st_items st_partners st_statuses st_dates app].
      set (fr0' := fold_left frame_after1 kids fr0).
      assert (Hn : f_name fr0' = name) by (unfold fr0'; now rewrite frame_after_name).
      assert (Hp : f_path fr0' = join_slash ([] ++ [name])) by (unfold fr0'; now rewrite frame_after_path).
      assert (Ha : f_attrs fr0' = attrs_to_map attrs) by (unfold fr0'; now rewrite frame_after_attrs).
      assert (Hv : f_value fr0' = own_text kids) by (unfold fr0'; now rewrite frame_after_value).
      assert (Hf : f_fields fr0' = if is_routed z name then Some (fields_of kids) else None).
      { unfold fr0'. rewrite frame_after_fields. cbn. destruct (is_routed z name); reflexivity. }
      rewrite Hn, Hp, Ha, Hv, Hf.
      assert (Hanc : anc_of [fr0] = [] ++ [name]) by reflexivity. rewrite Hanc.
      cbn [Idoc.spec_segs].
      set (seg := mkSeg name (join_slash ([] ++ [name])) (attrs_to_map attrs) (trim (own_text kids))
                        (if is_routed z name then Some (fields_of kids) else None)).
      set (flat := flat_map (spec_segs z ([] ++ [name])) kids).
      pose proof (add_if_routed z RItems seg [] flat) as E1.
      pose proof (add_if_routed z RPartners seg [] flat) as E2.
      pose proof (add_if_routed z RStatuses seg [] flat) as E3.
      pose proof (add_if_routed z RDates seg [] flat) as E4.
      cbn [app route_set] in E1, E2, E3, E4. cbn [s_name app].
      rewrite E1, E2, E3, E4. reflexivity. }
    rewrite Hdoc. apply outside_ignored; [reflexivity|exact Hpost]. }
  rewrite Hrun. cbn [st_segs st_stack st_header]. repeat split.
  (* counting *)
  clear. unfold doc. generalize (@nil bytes) as anc.
  generalize (NElem name attrs kids) as n. clear.
  apply (node_ind' (fun n => forall anc, length (spec_segs z anc n) = elem_count n)).
  - reflexivity.
  - reflexivity.
  - intros name attrs kids H anc. cbn [Idoc.spec_segs elem_count]. rewrite app_length. cbn [length].
    rewrite Nat.add_1_r. f_equal. generalize (anc ++ [name]) as a. clear anc.
    induction H as [|c ks Hc _ IH]; intros a; cbn [flat_map map list_sum]; [reflexivity|].
    rewrite app_length, Hc, IH. reflexivity.
Qed.

(* names come out in post-order, each element once *)
Fixpoint postorder_names (n : node) : list bytes :=
  match n with
  | NElem name _ kids => flat_map postorder_names kids ++ [name]
  | _ => []
  end.

Lemma spec_names z : forall n anc, map s_name (spec_segs z anc n) = postorder_names n.
Proof.
  apply (node_ind' (fun n => forall anc, map s_name (spec_segs z anc n) = postorder_names n)).
  - reflexivity.
  - reflexivity.
  - intros name attrs kids H anc. cbn [Idoc.spec_segs postorder_names]. rewrite map_app. cbn [map s_name]. f_equal.
    generalize (anc ++ [name]) as a. clear anc.
    induction H as [|c ks Hc _ IH]; intros a; cbn [flat_map]; [reflexivity|].
    rewrite map_app, Hc, IH. reflexivity.
Qed.

(* ---------- the document-level function ---------- *)
Definition wf_doc (pre : list node) (doc : node) (post : list node) : Prop :=
  Forall (fun n => is_elem n = false) pre /\ Forall (fun n => is_elem n = false) post /\ is_elem doc = true.

Theorem explode_doc_ok c pre doc post st :
  wf_doc pre doc post -> explode_doc trim c pre doc post = Ok st ->
  let z := build_sets trim c in
  st_segs st = spec_segs z [] doc /\
  map s_name (st_segs st) = postorder_names doc /\
  length (st_segs st) = elem_count doc /\
  (forall r, st_route st r = routed_spec z r (st_segs st)).
Proof.
  intros (Hpre & Hpost & He) H z. unfold explode_doc in H.
  destruct (autoclose_hit doc); [discriminate|]. inversion H as [Hst]. clear H.
  destruct doc as [s| |name attrs kids]; try discriminate.
  destruct (explode_tree z pre name attrs kids post Hpre Hpost) as (H1 & _ & _ & H4).
  fold z. split; [exact H1|]. split; [rewrite H1; apply spec_names|]. split; [exact H4|].
  intros r. apply routes_exact.
Qed.

Theorem explode_doc_total c pre doc post :
  autoclose_hit doc = false -> exists st, explode_doc trim c pre doc post = Ok st.
Proof. intros H. unfold explode_doc. rewrite H. eexists. reflexivity. Qed.

End WithTrim.
