From KS Require Import lib.Base lib.RecVarint model.Rewrite.
Open Scope Z_scope.
