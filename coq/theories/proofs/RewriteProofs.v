(* Proofs about model/Rewrite.v.
   Record level: every unflagged record comes out identical; a flagged record keeps
   attributes, timestamp delta, offset delta, key, loses exactly its LFS_BLOB headers and
   gets as value the encoding of an envelope whose key is the fresh key handed out for it,
   whose object (in the store, now and after any later uploads of the request) is the
   original value, with size and SHA-256 of that value.
   Batch level: a batch without flagged record is returned as is (same Raw bytes); a
   rewritten batch is the kmsg encoding of a header that differs from the input header
   only in Length, CRC, the codec bits and the payload, with Length = len - 12 and
   CRC = crc32c(bytes[21:]), NumRecords = number of records, payload = compress(encode records);
   under the codec round-trip hypotheses its records decode back to the rewritten list. *)
From KS Require Import lib.Base lib.RecVarint model.Rewrite.
Open Scope Z_scope.

Lemma be_len w v : length (be w v) = w.
Proof. revert v; induction w as [|w IH]; intros v; cbn; [reflexivity|]. rewrite app_length, IH. cbn. lia. Qed.

Definition batch_tail (b : batch) : bytes :=
  be 2 (b_attrs b) ++ be 4 (b_lod b) ++ be 8 (b_fts b) ++ be 8 (b_mts b) ++ be 8 (b_pid b) ++
  be 2 (b_pepoch b) ++ be 4 (b_fseq b) ++ be 4 (b_num b) ++ b_recs b.
Definition batch_head (b : batch) : bytes :=
  be 8 (b_first b) ++ be 4 (b_len b) ++ be 4 (b_ple b) ++ be 1 (b_magic b) ++ be 4 (b_crc b).

Lemma enc_batch_split b : enc_batch b = batch_head b ++ batch_tail b.
Proof. unfold enc_batch, batch_head, batch_tail. now rewrite <- !app_assoc. Qed.

Lemma batch_head_len b : length (batch_head b) = 21%nat.
Proof. unfold batch_head. now rewrite !app_length, !be_len. Qed.

Lemma skipn_21_enc b : skipn 21 (enc_batch b) = batch_tail b.
Proof.
  rewrite enc_batch_split. rewrite <- (batch_head_len b).
  rewrite skipn_app, skipn_all, Nat.sub_diag. reflexivity.
Qed.

Lemma enc_batch_len b : zlen (enc_batch b) = 61 + zlen (b_recs b).
Proof.
  unfold zlen, enc_batch. rewrite !app_length, !be_len. lia.
Qed.

(* ---------- fixed-width big-endian integers and the batch header round trip ---------- *)
Lemma ube_app l x : ube (l ++ [x]) = ube l * 256 + x.
Proof. unfold ube. rewrite fold_left_app. reflexivity. Qed.

Lemma ube_be w : forall v, ube (be w v) = v mod 256 ^ Z.of_nat w.
Proof.
  induction w as [|w IH]; intros v.
  - cbn. now rewrite Z.mod_1_r.
  - cbn [be]. rewrite ube_app, IH. rewrite Nat2Z.inj_succ, Z.pow_succ_r by lia.
    assert (0 < 256 ^ Z.of_nat w) by (apply Z.pow_pos_nonneg; lia).
    rewrite (Z.rem_mul_r v 256 (256 ^ Z.of_nat w)) by lia. lia.
Qed.

Lemma sbe_be w h v :
  256 ^ Z.of_nat w = 2 * h -> - h <= v < h -> sbe (be w v) = v.
Proof.
  intros Hm Hv. unfold sbe. rewrite ube_be. unfold zlen. rewrite be_len, Hm.
  replace (2 * h / 2) with h by (rewrite Z.mul_comm, Z.div_mul; lia).
  destruct (Z_lt_le_dec v 0) as [Hneg|Hpos].
  - assert (v mod (2 * h) = v + 2 * h) as ->.
    { symmetry. apply (Z.mod_unique v (2 * h) (-1)); lia. }
    assert (v + 2 * h <? h = false) as -> by (apply Z.ltb_ge; lia). lia.
  - rewrite Z.mod_small by lia. assert (v <? h = true) as -> by (apply Z.ltb_lt; lia). reflexivity.
Qed.

Lemma take_app n a rest : length a = n -> take n (a ++ rest) = Some (a, rest).
Proof.
  intros H. unfold take. rewrite app_length, H.
  assert ((n + length rest <? n)%nat = false) as -> by (apply Nat.ltb_ge; lia).
  rewrite <- H. rewrite firstn_app, firstn_all, Nat.sub_diag, skipn_app, skipn_all, Nat.sub_diag.
  cbn [firstn skipn app]. now rewrite app_nil_r.
Qed.

(* header fields within the ranges of their Go types *)
Definition hdr_in_range (b : batch) : Prop :=
  - 9223372036854775808 <= b_first b < 9223372036854775808 /\
  - 2147483648 <= b_ple b < 2147483648 /\ - 128 <= b_magic b < 128 /\
  - 32768 <= b_attrs b < 32768 /\ - 2147483648 <= b_lod b < 2147483648 /\
  - 9223372036854775808 <= b_fts b < 9223372036854775808 /\
  - 9223372036854775808 <= b_mts b < 9223372036854775808 /\
  - 9223372036854775808 <= b_pid b < 9223372036854775808 /\
  - 32768 <= b_pepoch b < 32768 /\ - 2147483648 <= b_fseq b < 2147483648.

Lemma dec_enc_batch b :
  hdr_in_range b -> - 2147483648 <= b_crc b < 2147483648 -> - 2147483648 <= b_num b < 2147483648 ->
  b_len b = 49 + zlen (b_recs b) -> b_len b < 2147483648 ->
  dec_batch (enc_batch b) = Some b.
Proof.
  intros (H0 & H2 & H3 & H5 & H6 & H7 & H8 & H9 & H10 & H11) H4 H12 Hlen Hlt.
  pose proof (zlen_nonneg (b_recs b)) as Hr.
  unfold enc_batch, dec_batch.
  repeat (rewrite take_app by apply be_len; cbv beta iota).
  rewrite (sbe_be 8 9223372036854775808 (b_first b)) by (try reflexivity; lia).
  rewrite (sbe_be 4 2147483648 (b_len b)) by (try reflexivity; lia).
  rewrite (sbe_be 4 2147483648 (b_ple b)) by (try reflexivity; lia).
  rewrite (sbe_be 1 128 (b_magic b)) by (try reflexivity; lia).
  rewrite (sbe_be 4 2147483648 (b_crc b)) by (try reflexivity; lia).
  rewrite (sbe_be 2 32768 (b_attrs b)) by (try reflexivity; lia).
  rewrite (sbe_be 4 2147483648 (b_lod b)) by (try reflexivity; lia).
  rewrite (sbe_be 8 9223372036854775808 (b_fts b)) by (try reflexivity; lia).
  rewrite (sbe_be 8 9223372036854775808 (b_mts b)) by (try reflexivity; lia).
  rewrite (sbe_be 8 9223372036854775808 (b_pid b)) by (try reflexivity; lia).
  rewrite (sbe_be 2 32768 (b_pepoch b)) by (try reflexivity; lia).
  rewrite (sbe_be 4 2147483648 (b_fseq b)) by (try reflexivity; lia).
  rewrite (sbe_be 4 2147483648 (b_num b)) by (try reflexivity; lia).
  cbv zeta. rewrite Hlen.
  replace (49 + zlen (b_recs b) - 49) with (zlen (b_recs b)) by lia.
  assert (zlen (b_recs b) <? 0 = false) as -> by (apply Z.ltb_ge; lia).
  rewrite Z.ltb_irrefl. cbn [orb].
  unfold zlen. rewrite Nat2Z.id, firstn_all.
  destruct b; cbn in *. subst. reflexivity.
Qed.

(* ---------- framing: splitting a partition into batches and joining them again ---------- *)
Definition framed (bt : batch * bytes) : Prop :=
  12 <= zlen (snd bt) /\ sbe (firstn 4 (skipn 8 (snd bt))) = zlen (snd bt) - 12 /\
  dec_batch (snd bt) = Some (fst bt).

Lemma split_step fuel buf : buf <> [] ->
  split_batches (S fuel) buf =
    if zlen buf <? 12 then None else
    let len := sbe (firstn 4 (skipn 8 buf)) in
    let total := 12 + len in
    if (len <? 0) || (zlen buf <? total) then None else
    let bb := firstn (Z.to_nat total) buf in
    match dec_batch bb with
    | None => None
    | Some b =>
        match split_batches fuel (skipn (Z.to_nat total) buf) with
        | None => None
        | Some l => Some ((b, bb) :: l)
        end
    end.
Proof. destruct buf; [contradiction|reflexivity]. Qed.

Lemma len_field_prefix (raw rest : bytes) : 12 <= zlen raw ->
  firstn 4 (skipn 8 (raw ++ rest)) = firstn 4 (skipn 8 raw).
Proof.
  intros H. unfold zlen in H. rewrite skipn_app, firstn_app, skipn_length.
  replace (4 - (length raw - 8))%nat with 0%nat by lia.
  rewrite firstn_O. now rewrite app_nil_r.
Qed.

Lemma split_framed : forall bts fuel,
  Forall framed bts -> (length (join_batches bts) < fuel)%nat ->
  split_batches fuel (join_batches bts) = Some bts.
Proof.
  induction bts as [|[b raw] bts IH]; intros fuel Hf Hfuel.
  - destruct fuel; reflexivity.
  - inversion Hf as [|? ? Hh Ht]; subst. destruct Hh as (H12 & Hlen & Hdec). cbn [fst snd] in *.
    unfold join_batches in *. cbn [flat_map snd] in *. fold (join_batches bts) in *.
    destruct fuel as [|fuel]; [lia|].
    assert (raw ++ join_batches bts <> []) as Hne.
    { destruct raw; [unfold zlen in H12; cbn in H12; lia|discriminate]. }
    rewrite split_step by exact Hne. rewrite len_field_prefix by exact H12. rewrite Hlen.
    pose proof (zlen_nonneg (join_batches bts)) as Hr.
    assert (zlen (raw ++ join_batches bts) <? 12 = false) as -> by (apply Z.ltb_ge; rewrite zlen_app; lia).
    cbv zeta.
    assert (zlen raw - 12 <? 0 = false) as -> by (apply Z.ltb_ge; lia).
    replace (12 + (zlen raw - 12)) with (zlen raw) by lia.
    assert (zlen (raw ++ join_batches bts) <? zlen raw = false) as -> by (apply Z.ltb_ge; rewrite zlen_app; lia).
    cbn [orb]. assert (Z.to_nat (zlen raw) = length raw) as -> by (unfold zlen; apply Nat2Z.id).
    rewrite firstn_app, firstn_all, Nat.sub_diag, skipn_app, skipn_all, Nat.sub_diag.
    cbn [firstn skipn app]. rewrite app_nil_r, Hdec.
    rewrite IH; [reflexivity|exact Ht|]. rewrite app_length in Hfuel.
    assert (0 < length raw)%nat by (unfold zlen in H12; lia). lia.
Qed.

Lemma split_gives_framed : forall fuel buf bts, split_batches fuel buf = Some bts -> Forall framed bts.
Proof.
  induction fuel as [|fuel IH]; intros buf bts H.
  - destruct buf; cbn in H; [inversion H; constructor|discriminate].
  - destruct buf as [|x buf]; [cbn in H; inversion H; constructor|].
    rewrite split_step in H by discriminate.
    destruct (zlen (x :: buf) <? 12) eqn:E12; [discriminate|]. apply Z.ltb_ge in E12.
    cbv zeta in H. remember (sbe (firstn 4 (skipn 8 (x :: buf)))) as len eqn:Elen.
    remember (12 + len) as total eqn:Etot.
    destruct ((len <? 0) || (zlen (x :: buf) <? total)) eqn:Eo; [discriminate|].
    apply orb_false_iff in Eo as [E1 E2]. apply Z.ltb_ge in E1. apply Z.ltb_ge in E2.
    destruct (dec_batch (firstn (Z.to_nat total) (x :: buf))) as [b|] eqn:Ed; [|discriminate].
    destruct (split_batches fuel (skipn (Z.to_nat total) (x :: buf))) as [l|] eqn:El; [|discriminate].
    injection H as Hb. subst bts. constructor; [|eapply IH; eauto].
    unfold framed. cbn [fst snd].
    assert (Hl : zlen (firstn (Z.to_nat total) (x :: buf)) = total).
    { unfold zlen in *. rewrite firstn_length_le by lia. lia. }
    rewrite Hl. split; [lia|]. split; [|exact Ed].
    replace (total - 12) with len by lia. rewrite Elen.
    rewrite skipn_firstn_comm, firstn_firstn. f_equal. f_equal. lia.
Qed.

Lemma wrap32_range z : - 2147483648 <= wrap32 z < 2147483648.
Proof. unfold wrap32. pose proof (Z.mod_pos_bound (z + 2147483648) 4294967296). lia. Qed.
Lemma wrap16_range z : - 32768 <= wrap16 z < 32768.
Proof. unfold wrap16. pose proof (Z.mod_pos_bound (z + 32768) 65536). lia. Qed.

Lemma len_field_enc b : firstn 4 (skipn 8 (enc_batch b)) = be 4 (b_len b).
Proof.
  unfold enc_batch.
  rewrite skipn_app, skipn_all2 by (rewrite be_len; lia). rewrite be_len. cbn [Nat.sub skipn app].
  rewrite firstn_app, firstn_all2 by (rewrite be_len; lia). rewrite be_len. cbn [Nat.sub firstn].
  now rewrite app_nil_r.
Qed.

(* ---------- lfsDropHeader: headers are a LIST; every entry with exactly this key goes ---------- *)
Inductive sublist {A} : list A -> list A -> Prop :=
| sub_nil : sublist [] []
| sub_keep x l l' : sublist l l' -> sublist (x :: l) (x :: l')
| sub_skip x l l' : sublist l l' -> sublist l (x :: l').

Lemma drop_header_filter k hs :
  drop_header k hs = filter (fun h => negb (bytes_eqb (h_key h) k)) hs.
Proof. reflexivity. Qed.

Lemma drop_header_none k hs : find_header k (drop_header k hs) = None.
Proof.
  induction hs as [|h hs IH]; cbn; [reflexivity|].
  destruct (bytes_eqb (h_key h) k) eqn:E; cbn; [exact IH|]. now rewrite E.
Qed.

Lemma drop_header_in k hs h : In h (drop_header k hs) <-> In h hs /\ h_key h <> k.
Proof.
  unfold drop_header. rewrite filter_In. split; intros [H1 H2]; split; try exact H1.
  - apply negb_true_iff, bytes_eqb_neq in H2. exact H2.
  - apply negb_true_iff, bytes_eqb_neq. exact H2.
Qed.

Lemma drop_header_sublist k hs : sublist (drop_header k hs) hs.
Proof.
  induction hs as [|h hs IH]; cbn; [constructor|].
  destruct (negb (bytes_eqb (h_key h) k)); constructor; exact IH.
Qed.

(* a key other than the flag key is untouched, including its multiplicity and order *)
Lemma drop_header_other k k' hs : k' <> k ->
  filter (fun h => bytes_eqb (h_key h) k') (drop_header k hs) = filter (fun h => bytes_eqb (h_key h) k') hs.
Proof.
  intros Hne. induction hs as [|h hs IH]; cbn; [reflexivity|].
  destruct (bytes_eqb (h_key h) k) eqn:E; cbn.
  - apply bytes_eqb_eq in E. assert (bytes_eqb (h_key h) k' = false) as -> by (apply bytes_eqb_neq; congruence). exact IH.
  - destruct (bytes_eqb (h_key h) k'); [f_equal|]; exact IH.
Qed.

Lemma store_get_skip key p new s :
  ~ In key (map fst new) -> store_get key (new ++ (key, p) :: s) = Some p.
Proof.
  induction new as [|[k v] new IH]; intros Hn; cbn.
  - now rewrite bytes_eqb_refl.
  - destruct (bytes_eqb k key) eqn:E.
    + apply bytes_eqb_eq in E. exfalso. apply Hn. cbn. now left.
    + apply IH. intros H. apply Hn. cbn. now right.
Qed.

(* the state only grows: consumed oracle entries <-> objects put, most recent first *)
Definition ext (st st' : ust) : Prop :=
  exists used new, u_supply st = used ++ u_supply st' /\ u_store st' = new ++ u_store st /\
                   map fst new = rev (map fst used).

Lemma ext_refl st : ext st st.
Proof. exists [], []. repeat split. Qed.

Lemma ext_trans a b c : ext a b -> ext b c -> ext a c.
Proof.
  intros (u1 & n1 & A1 & A2 & A3) (u2 & n2 & B1 & B2 & B3).
  exists (u1 ++ u2), (n2 ++ n1). repeat split.
  - rewrite A1, B1. now rewrite app_assoc.
  - rewrite B2, A2. now rewrite app_assoc.
  - rewrite !map_app, rev_app_distr, A3, B3. reflexivity.
Qed.

Section Proofs.
  Variable decode_rec : bytes -> option rec.
  Variable decompress : Z -> bytes -> option bytes.
  Variable compress : Z -> bytes -> bytes * Z.
  Variable crc32c : bytes -> Z.
  Variable hashf : Z -> bytes -> bytes.
  Variable enc_env : envelope -> bytes.

  Notation process_record := (process_record hashf enc_env).
  Notation process_records := (process_records hashf enc_env).
  Notation process_batch := (process_batch decode_rec decompress compress crc32c hashf enc_env).
  Notation process_batches := (process_batches decode_rec decompress compress crc32c hashf enc_env).
  Notation process_partition := (process_partition decode_rec decompress compress crc32c hashf enc_env).
  Notation rebuild_batch := (rebuild_batch crc32c).
  Notation batch_records := (batch_records decode_rec decompress).
  Notation read_records := (read_records decode_rec).
  Notation compress_records := (compress_records compress).

  (* ---------- one record ---------- *)
  Lemma process_record_unflagged cfg st r :
    flagged r = false -> process_record cfg st r = Ok (r, st, false).
  Proof.
    unfold flagged, Rewrite.process_record. destruct (find_header s_LFS_BLOB (r_hdrs r)); [discriminate|reflexivity].
  Qed.

  Definition flagged_spec (cfg : config) (st st' : ust) (r r' : rec) : Prop :=
    r_attr r' = r_attr r /\ r_ts r' = r_ts r /\ r_off r' = r_off r /\ r_key r' = r_key r /\
    r_hdrs r' = drop_header s_LFS_BLOB (r_hdrs r) /\
    exists key created env,
      u_supply st = (key, created) :: u_supply st' /\
      u_store st' = (key, optb (r_val r)) :: u_store st /\
      r_val r' = Some (enc_env env) /\ e_key env = key /\ e_bucket env = c_bucket cfg /\
      e_size env = zlen (optb (r_val r)) /\ e_sha env = hashf 0 (optb (r_val r)).

  Lemma process_record_flagged cfg st r r' st' ch :
    flagged r = true -> process_record cfg st r = Ok (r', st', ch) ->
    ch = true /\ flagged_spec cfg st st' r r'.
  Proof.
    unfold flagged, Rewrite.process_record. intros Hf H.
    destruct (find_header s_LFS_BLOB (r_hdrs r)) as [lfsv|]; [|discriminate].
    destruct (resolve_alg cfg (header_value s_LFS_BLOB_ALG (r_hdrs r))) as [alg|]; [|discriminate].
    destruct (nonempty (trim_space (optb lfsv)) && (alg =? 3)); [discriminate|].
    destruct (c_max_blob cfg <? zlen (optb (r_val r))); [discriminate|].
    destruct (u_supply st) as [|[key created] sup] eqn:Es; [discriminate|].
    destruct (match u_faults st with [] => (false, []) | f :: fs => (f, fs) end) as [fl faults'].
    destruct fl; [discriminate|].
    match type of H with (if ?c then _ else _) = _ => destruct c end; [discriminate|].
    match type of H with (if ?c then _ else _) = _ => destruct c end; [discriminate|].
    inversion H; subst; clear H. split; [reflexivity|].
    unfold flagged_spec. cbn. repeat split.
    exists key, created. eexists. cbn. repeat split. exact Es.
  Qed.

  Lemma process_record_ext cfg st r r' st' ch :
    process_record cfg st r = Ok (r', st', ch) -> ext st st'.
  Proof.
    intros H. destruct (flagged r) eqn:Hf.
    - destruct (process_record_flagged _ _ _ _ _ _ Hf H) as (_ & _ & _ & _ & _ & _ & key & created & env & H1 & H2 & _).
      exists [(key, created)], [(key, optb (r_val r))]. repeat split; assumption.
    - rewrite process_record_unflagged in H by exact Hf. inversion H; subst. apply ext_refl.
  Qed.

  (* what C31 says about one input/output record pair, [store] being the object store at
     the end of the request *)
  Definition rec_rel (cfg : config) (store : list (bytes * bytes)) (r r' : rec) : Prop :=
    if flagged r then
      r_attr r' = r_attr r /\ r_ts r' = r_ts r /\ r_off r' = r_off r /\ r_key r' = r_key r /\
      r_hdrs r' = drop_header s_LFS_BLOB (r_hdrs r) /\ flagged r' = false /\
      exists env, r_val r' = Some (enc_env env) /\ e_bucket env = c_bucket cfg /\
                  store_get (e_key env) store = Some (optb (r_val r)) /\
                  e_size env = zlen (optb (r_val r)) /\ e_sha env = hashf 0 (optb (r_val r))
    else r' = r.

  Lemma process_records_ext cfg : forall rs st rs' st' ch,
    process_records cfg st rs = Ok (rs', st', ch) -> ext st st'.
  Proof.
    induction rs as [|r rs IH]; intros st rs' st' ch H; cbn in H.
    - inversion H; subst. apply ext_refl.
    - destruct (process_record cfg st r) as [[[r1 st1] ch1]| |] eqn:E1; try discriminate.
      destruct (process_records cfg st1 rs) as [[[rs2 st2] ch2]| |] eqn:E2; try discriminate.
      inversion H; subst. eapply ext_trans; [eapply process_record_ext; eauto|eapply IH; eauto].
  Qed.

  Lemma process_records_spec cfg : forall rs st rs' st' ch stF,
    process_records cfg st rs = Ok (rs', st', ch) ->
    NoDup (map fst (u_supply st)) -> ext st' stF ->
    Forall2 (rec_rel cfg (u_store stF)) rs rs'.
  Proof.
    induction rs as [|r rs IH]; intros st rs' st' ch stF H Hnd HF; cbn in H.
    - inversion H; subst. constructor.
    - destruct (process_record cfg st r) as [[[r1 st1] ch1]| |] eqn:E1; try discriminate.
      destruct (process_records cfg st1 rs) as [[[rs2 st2] ch2]| |] eqn:E2; try discriminate.
      inversion H; subst; clear H.
      pose proof (process_record_ext _ _ _ _ _ _ E1) as X1.
      pose proof (process_records_ext _ _ _ _ _ _ E2) as X2.
      constructor.
      + unfold rec_rel. destruct (flagged r) eqn:Hf.
        * destruct (process_record_flagged _ _ _ _ _ _ Hf E1) as (_ & A1 & A2 & A3 & A4 & A5 & key & created & env & S1 & S2 & V & K & B & Sz & Sh).
          assert (Hnf : flagged r1 = false) by (unfold flagged; rewrite A5, drop_header_none; reflexivity).
          repeat split; try assumption. exists env. repeat split; try assumption.
          destruct (ext_trans _ _ _ X2 HF) as (used & new & U1 & U2 & U3).
          rewrite U2, S2, K. apply store_get_skip.
          rewrite U3, <- in_rev. rewrite S1 in Hnd. cbn in Hnd. inversion Hnd as [|? ? Hn Hd]; subst.
          rewrite U1, map_app in Hn. intros Hin. apply Hn. apply in_or_app. now left.
        * rewrite process_record_unflagged in E1 by exact Hf. now inversion E1.
      + eapply IH; [exact E2| |exact HF].
        destruct (flagged r) eqn:Hf.
        * destruct (process_record_flagged _ _ _ _ _ _ Hf E1) as (_ & _ & _ & _ & _ & _ & key & created & env & S1 & _).
          rewrite S1 in Hnd. cbn in Hnd. now inversion Hnd.
        * rewrite process_record_unflagged in E1 by exact Hf. inversion E1; subst. exact Hnd.
  Qed.

  Lemma process_records_length cfg : forall rs st rs' st' ch,
    process_records cfg st rs = Ok (rs', st', ch) -> length rs' = length rs.
  Proof.
    induction rs as [|r rs IH]; intros st rs' st' ch H; cbn in H.
    - now inversion H.
    - destruct (process_record cfg st r) as [[[r1 st1] ch1]| |]; try discriminate.
      destruct (process_records cfg st1 rs) as [[[rs2 st2] ch2]| |] eqn:E2; try discriminate.
      inversion H; subst. cbn. f_equal. eapply IH; eauto.
  Qed.

  (* ---------- one batch ---------- *)
  Definition same_header (b b' : batch) : Prop :=
    b_first b' = b_first b /\ b_ple b' = b_ple b /\ b_magic b' = b_magic b /\ b_lod b' = b_lod b /\
    b_fts b' = b_fts b /\ b_mts b' = b_mts b /\ b_pid b' = b_pid b /\ b_pepoch b' = b_pepoch b /\
    b_fseq b' = b_fseq b.

  Lemma rebuild_batch_valid b payload used n b' raw' :
    rebuild_batch b payload used n = (b', raw') ->
    raw' = enc_batch b' /\ same_header b b' /\
    b_len b' = wrap32 (zlen raw' - 12) /\
    b_crc b' = wrap32 (crc32c (skipn 21 raw')) /\
    b_attrs b' = wrap16 (b_attrs b - (b_attrs b) mod 8 + used) /\
    b_num b' = wrap32 n /\ b_recs b' = payload.
  Proof.
    unfold Rewrite.rebuild_batch. intros H. apply pair_equal_spec in H. destruct H as [Hb Hr].
    subst raw'. subst b'.
    split; [reflexivity|]. split; [unfold same_header; cbn [b_first b_ple b_magic b_lod b_fts b_mts b_pid b_pepoch b_fseq]; repeat split|].
    cbn [b_len b_crc b_attrs b_num b_recs].
    split; [rewrite !enc_batch_len; reflexivity|].
    split; [rewrite !skipn_21_enc; reflexivity|].
    repeat split.
  Qed.

  Lemma process_batch_unchanged cfg st bt bt' st' :
    process_batch cfg st bt = Ok (bt', st', false) -> bt' = bt.
  Proof.
    unfold Rewrite.process_batch. intros H.
    destruct (batch_records (fst bt)) as [records|]; [|discriminate].
    destruct (b_num (fst bt) <? 0); [discriminate|].
    destruct records as [|r0 records]; [now inversion H|].
    destruct (process_records cfg st (r0 :: records)) as [[[rs' st1] ch]| |]; try discriminate.
    destruct (negb ch); [now inversion H|].
    destruct (compress_records (b_attrs (fst bt) mod 8) (enc_records rs')) as [payload used].
    destruct (rebuild_batch (fst bt) payload used (zlen rs')) as [b3 raw3]. inversion H.
  Qed.

  Definition batch_spec (cfg : config) (st st' : ust) (b b' : batch) (raw' : bytes) : Prop :=
    exists rs rs' used,
      batch_records b = Some rs /\
      process_records cfg st rs = Ok (rs', st', true) /\
      compress_records ((b_attrs b) mod 8) (enc_records rs') = (b_recs b', used) /\
      raw' = enc_batch b' /\ same_header b b' /\
      b_len b' = wrap32 (zlen raw' - 12) /\
      b_crc b' = wrap32 (crc32c (skipn 21 raw')) /\
      b_attrs b' = wrap16 (b_attrs b - (b_attrs b) mod 8 + used) /\
      b_num b' = wrap32 (zlen rs').

  Lemma process_batch_changed cfg st b raw b' raw' st' :
    process_batch cfg st (b, raw) = Ok ((b', raw'), st', true) -> batch_spec cfg st st' b b' raw'.
  Proof.
    unfold Rewrite.process_batch. cbn [fst]. intros H.
    destruct (batch_records b) as [records|] eqn:Eb; [|discriminate].
    destruct (b_num b <? 0); [discriminate|].
    destruct records as [|r0 records]; [inversion H|].
    destruct (process_records cfg st (r0 :: records)) as [[[rs' st1] ch]| |] eqn:Ep; try discriminate.
    destruct ch; cbn [negb] in H; [|inversion H].
    destruct (compress_records (b_attrs b mod 8) (enc_records rs')) as [payload used] eqn:Ec.
    destruct (rebuild_batch b payload used (zlen rs')) as [b3 raw3] eqn:Er.
    inversion H; subst; clear H.
    destruct (rebuild_batch_valid _ _ _ _ _ _ Er) as (R1 & R2 & R3 & R4 & R5 & R6 & R7).
    exists (r0 :: records), rs', used. rewrite R7.
    split; [exact Eb|]. split; [exact Ep|]. split; [exact Ec|]. split; [exact R1|]. split; [exact R2|].
    split; [exact R3|]. split; [exact R4|]. split; [exact R5|exact R6].
  Qed.

  Lemma process_batch_ext cfg st bt bt' st' ch :
    process_batch cfg st bt = Ok (bt', st', ch) -> ext st st'.
  Proof.
    unfold Rewrite.process_batch. intros H.
    destruct (batch_records (fst bt)) as [records|]; [|discriminate].
    destruct (b_num (fst bt) <? 0); [discriminate|].
    destruct records as [|r0 records]; [inversion H; subst; apply ext_refl|].
    destruct (process_records cfg st (r0 :: records)) as [[[rs' st1] c]| |] eqn:Ep; try discriminate.
    apply process_records_ext in Ep.
    destruct (negb c); [inversion H; subst; exact Ep|].
    destruct (compress_records (b_attrs (fst bt) mod 8) (enc_records rs')) as [payload used].
    inversion H; subst. exact Ep.
  Qed.

  (* ---------- a partition ---------- *)
  Lemma process_partition_unchanged cfg st p p' st' :
    process_partition cfg st p = Ok (p', st', false) -> p' = p.
  Proof.
    unfold Rewrite.process_partition. intros H. destruct p as [|x p]; [now inversion H|].
    destruct (split_batches (S (length (x :: p))) (x :: p)) as [bts|]; [|discriminate].
    destruct (process_batches cfg st bts) as [[[bts' st1] ch]| |]; try discriminate.
    destruct ch; now inversion H.
  Qed.

  Lemma process_records_unflagged cfg : forall rs st rs' st' ch,
    process_records cfg st rs = Ok (rs', st', ch) ->
    Forall2 (fun r r' => flagged r = false -> r' = r) rs rs'.
  Proof.
    induction rs as [|r rs IH]; intros st rs' st' ch H; cbn in H.
    - inversion H; subst. constructor.
    - destruct (process_record cfg st r) as [[[r1 st1] ch1]| |] eqn:E1; try discriminate.
      destruct (process_records cfg st1 rs) as [[[rs2 st2] ch2]| |] eqn:E2; try discriminate.
      inversion H; subst. constructor; [|eapply IH; eauto].
      intros Hf. rewrite process_record_unflagged in E1 by exact Hf. now inversion E1.
  Qed.

  Theorem unflagged_unchanged cfg :
    (forall st rs rs' st' ch,
       process_records cfg st rs = Ok (rs', st', ch) ->
       length rs' = length rs /\
       Forall2 (fun r r' => flagged r = false -> r' = r) rs rs') /\
    (forall st bt bt' st', process_batch cfg st bt = Ok (bt', st', false) -> bt' = bt) /\
    (forall st p p' st', process_partition cfg st p = Ok (p', st', false) -> p' = p).
  Proof.
    split; [|split].
    - intros st rs rs' st' ch H. split; [eapply process_records_length; eauto|eapply process_records_unflagged; eauto].
    - intros. eapply process_batch_unchanged; eauto.
    - intros. eapply process_partition_unchanged; eauto.
  Qed.

  (* ---------- lifting to batches, partitions and the whole request ---------- *)
  Lemma NoDup_suffix {A} (u l : list A) : NoDup (u ++ l) -> NoDup l.
  Proof. induction u as [|x u IH]; cbn; intros H; [exact H|]. inversion H; subst. auto. Qed.

  Lemma ext_nodup st st' : ext st st' -> NoDup (map fst (u_supply st)) -> NoDup (map fst (u_supply st')).
  Proof. intros (used & new & U1 & _ & _) H. rewrite U1, map_app in H. eapply NoDup_suffix; eauto. Qed.

  Lemma process_records_nochange cfg : forall rs st rs' st',
    process_records cfg st rs = Ok (rs', st', false) ->
    rs' = rs /\ st' = st /\ Forall (fun r => flagged r = false) rs.
  Proof.
    induction rs as [|r rs IH]; intros st rs' st' H; cbn in H.
    - inversion H; subst. auto.
    - destruct (process_record cfg st r) as [[[r1 st1] ch1]| |] eqn:E1; try discriminate.
      destruct (process_records cfg st1 rs) as [[[rs2 st2] ch2]| |] eqn:E2; try discriminate.
      inversion H as [[Hr Hs Hc]]; subst. apply orb_false_iff in Hc as [-> ->].
      destruct (flagged r) eqn:Hf.
      + destruct (process_record_flagged _ _ _ _ _ _ Hf E1) as [Hx _]. discriminate.
      + rewrite process_record_unflagged in E1 by exact Hf. inversion E1; subst.
        destruct (IH _ _ _ E2) as (-> & -> & Hall). auto.
  Qed.

  Definition rebuilt (b : batch) (rs' : list rec) (bt' : batch * bytes) : Prop :=
    exists used,
      compress_records ((b_attrs b) mod 8) (enc_records rs') = (b_recs (fst bt'), used) /\
      snd bt' = enc_batch (fst bt') /\ same_header b (fst bt') /\
      b_len (fst bt') = wrap32 (zlen (snd bt') - 12) /\
      b_crc (fst bt') = wrap32 (crc32c (skipn 21 (snd bt'))) /\
      b_attrs (fst bt') = wrap16 (b_attrs b - (b_attrs b) mod 8 + used) /\
      b_num (fst bt') = wrap32 (zlen rs').

  (* what C31 says about one input/output batch pair: the records (as the proxy decodes
     them) are related by [rec_rel]; the batch is either returned as is, or re-encoded *)
  Definition batch_ok (cfg : config) (store : list (bytes * bytes)) (bt bt' : batch * bytes) : Prop :=
    exists rs rs',
      batch_records (fst bt) = Some rs /\ Forall2 (rec_rel cfg store) rs rs' /\
      ((bt' = bt /\ rs' = rs /\ Forall (fun r => flagged r = false) rs) \/ rebuilt (fst bt) rs' bt').

  Lemma process_batch_ok cfg st bt bt' st' ch stF :
    process_batch cfg st bt = Ok (bt', st', ch) ->
    NoDup (map fst (u_supply st)) -> ext st' stF ->
    batch_ok cfg (u_store stF) bt bt'.
  Proof.
    intros H Hnd HF. destruct ch.
    - destruct bt as [b raw], bt' as [b' raw'].
      destruct (process_batch_changed _ _ _ _ _ _ _ H) as (rs & rs' & used & B1 & B2 & B3 & B4 & B5 & B6 & B7 & B8 & B9).
      exists rs, rs'. split; [exact B1|]. split; [eapply process_records_spec; eauto|].
      right. exists used. cbn [fst snd]. repeat (split; [assumption|]). assumption.
    - pose proof (process_batch_unchanged _ _ _ _ _ H) as ->.
      unfold Rewrite.process_batch in H.
      destruct (batch_records (fst bt)) as [records|] eqn:Eb; [|discriminate].
      destruct (b_num (fst bt) <? 0); [discriminate|].
      destruct records as [|r0 records].
      { exists [], []. split; [exact Eb|]. split; [constructor|]. left. auto. }
      destruct (process_records cfg st (r0 :: records)) as [[[rs' st1] c]| |] eqn:Ep; try discriminate.
      destruct c.
      { cbn [negb] in H. destruct (compress_records (b_attrs (fst bt) mod 8) (enc_records rs')) as [payload used].
        destruct (rebuild_batch (fst bt) payload used (zlen rs')). inversion H. }
      cbn [negb] in H. inversion H; subst st1.
      destruct (process_records_nochange _ _ _ _ _ Ep) as (-> & _ & Hall).
      exists (r0 :: records), (r0 :: records). split; [exact Eb|].
      split; [eapply process_records_spec; eauto|]. left. auto.
  Qed.

  Lemma process_batches_ext cfg : forall bts st bts' st' ch,
    process_batches cfg st bts = Ok (bts', st', ch) -> ext st st'.
  Proof.
    induction bts as [|bt bts IH]; intros st bts' st' ch H; cbn in H.
    - inversion H; subst. apply ext_refl.
    - destruct (process_batch cfg st bt) as [[[bt1 st1] ch1]| |] eqn:E1; try discriminate.
      destruct (process_batches cfg st1 bts) as [[[l st2] ch2]| |] eqn:E2; try discriminate.
      inversion H; subst. eapply ext_trans; [eapply process_batch_ext; eauto|eapply IH; eauto].
  Qed.

  Lemma process_batches_ok cfg : forall bts st bts' st' ch stF,
    process_batches cfg st bts = Ok (bts', st', ch) ->
    NoDup (map fst (u_supply st)) -> ext st' stF ->
    Forall2 (batch_ok cfg (u_store stF)) bts bts' /\ (ch = false -> bts' = bts).
  Proof.
    induction bts as [|bt bts IH]; intros st bts' st' ch stF H Hnd HF; cbn in H.
    - inversion H; subst. split; [constructor|reflexivity].
    - destruct (process_batch cfg st bt) as [[[bt1 st1] ch1]| |] eqn:E1; try discriminate.
      destruct (process_batches cfg st1 bts) as [[[l st2] ch2]| |] eqn:E2; try discriminate.
      inversion H; subst; clear H.
      pose proof (process_batch_ext _ _ _ _ _ _ E1) as X1.
      pose proof (process_batches_ext _ _ _ _ _ _ E2) as X2.
      destruct (IH _ _ _ _ stF E2 (ext_nodup _ _ X1 Hnd) HF) as [IH1 IH2].
      split.
      + constructor; [|exact IH1]. eapply process_batch_ok; [exact E1|exact Hnd|eapply ext_trans; eauto].
      + intros Hc. apply orb_false_iff in Hc as [-> ->]. rewrite (IH2 eq_refl).
        now rewrite (process_batch_unchanged _ _ _ _ _ E1).
  Qed.

  Lemma split_join : forall fuel buf bts, split_batches fuel buf = Some bts -> join_batches bts = buf.
  Proof.
    induction fuel as [|fuel IH]; intros buf bts H.
    - destruct buf; cbn in H; [inversion H; reflexivity|discriminate].
    - destruct buf as [|x buf]; [cbn in H; inversion H; reflexivity|].
      cbn [split_batches] in H.
      destruct (zlen (x :: buf) <? 12); [discriminate|].
      set (len := sbe (firstn 4 (skipn 8 (x :: buf)))) in *.
      destruct ((len <? 0) || (zlen (x :: buf) <? 12 + len)); [discriminate|].
      destruct (dec_batch (firstn (Z.to_nat (12 + len)) (x :: buf))) as [b|]; [|discriminate].
      destruct (split_batches fuel (skipn (Z.to_nat (12 + len)) (x :: buf))) as [l|] eqn:El; [|discriminate].
      inversion H; subst. unfold join_batches. cbn [flat_map snd].
      fold (join_batches l). rewrite (IH _ _ El). apply firstn_skipn.
  Qed.

  (* one partition of the request *)
  Definition partition_ok (cfg : config) (store : list (bytes * bytes)) (p p' : bytes) : Prop :=
    exists bts bts',
      split_batches (S (length p)) p = Some bts /\ p' = join_batches bts' /\
      Forall2 (batch_ok cfg store) bts bts'.

  Lemma process_partition_ext cfg st p p' st' ch :
    process_partition cfg st p = Ok (p', st', ch) -> ext st st'.
  Proof.
    unfold Rewrite.process_partition. intros H. destruct p as [|x p]; [inversion H; subst; apply ext_refl|].
    destruct (split_batches (S (length (x :: p))) (x :: p)) as [bts|]; [|discriminate].
    destruct (process_batches cfg st bts) as [[[bts' st1] c]| |] eqn:Eb; try discriminate.
    apply process_batches_ext in Eb. destruct c; inversion H; subst; exact Eb.
  Qed.

  Lemma process_partition_ok cfg st p p' st' ch stF :
    process_partition cfg st p = Ok (p', st', ch) ->
    NoDup (map fst (u_supply st)) -> ext st' stF ->
    partition_ok cfg (u_store stF) p p'.
  Proof.
    unfold Rewrite.process_partition. intros H Hnd HF. destruct p as [|x p].
    { inversion H; subst. exists [], []. repeat split. constructor. }
    destruct (split_batches (S (length (x :: p))) (x :: p)) as [bts|] eqn:Es; [|discriminate].
    destruct (process_batches cfg st bts) as [[[bts' st1] c]| |] eqn:Eb; try discriminate.
    exists bts, bts'. split; [exact Es|].
    destruct c; inversion H; subst.
    - split; [reflexivity|]. eapply process_batches_ok; eauto.
    - destruct (process_batches_ok _ _ _ _ _ _ stF Eb Hnd HF) as [Hok Heq].
      rewrite (Heq eq_refl) in *. split; [symmetry; eapply split_join; eauto|exact Hok].
  Qed.

  Notation process_partitions := (process_partitions decode_rec decompress compress crc32c hashf enc_env).

  Lemma process_partitions_ext cfg : forall ps st ps' st' ch,
    process_partitions cfg st ps = Ok (ps', st', ch) -> ext st st'.
  Proof.
    induction ps as [|p ps IH]; intros st ps' st' ch H; cbn in H.
    - inversion H; subst. apply ext_refl.
    - destruct (process_partition cfg st p) as [[[p1 st1] ch1]| |] eqn:E1; try discriminate.
      destruct (process_partitions cfg st1 ps) as [[[l st2] ch2]| |] eqn:E2; try discriminate.
      inversion H; subst. eapply ext_trans; [eapply process_partition_ext; eauto|eapply IH; eauto].
  Qed.

  (* the whole request: every partition, every batch, every record, w.r.t. the object store
     at the end of the request *)
  Theorem request_ok cfg : forall ps st ps' st' ch,
    process_partitions cfg st ps = Ok (ps', st', ch) ->
    NoDup (map fst (u_supply st)) ->
    forall stF, ext st' stF -> Forall2 (partition_ok cfg (u_store stF)) ps ps'.
  Proof.
    induction ps as [|p ps IH]; intros st ps' st' ch H Hnd stF HF; cbn in H.
    - inversion H; subst. constructor.
    - destruct (process_partition cfg st p) as [[[p1 st1] ch1]| |] eqn:E1; try discriminate.
      destruct (process_partitions cfg st1 ps) as [[[l st2] ch2]| |] eqn:E2; try discriminate.
      inversion H; subst; clear H.
      pose proof (process_partition_ext _ _ _ _ _ _ E1) as X1.
      pose proof (process_partitions_ext _ _ _ _ _ _ E2) as X2.
      constructor.
      + eapply process_partition_ok; [exact E1|exact Hnd|eapply ext_trans; eauto].
      + eapply IH; [exact E2|eapply ext_nodup; eauto|exact HF].
  Qed.

  (* ---------- the rewritten partition splits again into exactly the rewritten batches ---------- *)
  Lemma rebuilt_framed b rs' bt' :
    rebuilt b rs' bt' -> hdr_in_range b -> zlen (snd bt') - 12 < 2147483648 -> framed bt'.
  Proof.
    intros (used & _ & Hraw & Hsame & Hlen & Hcrc & Hattr & Hnum) Hr Hsz.
    destruct bt' as [b' raw']. cbn [fst snd] in *.
    destruct Hsame as (S0 & S2 & S3 & S6 & S7 & S8 & S9 & S10 & S11).
    destruct Hr as (R0 & R2 & R3 & R5 & R6 & R7 & R8 & R9 & R10 & R11).
    pose proof (zlen_nonneg (b_recs b')) as Hp.
    assert (Hl : zlen raw' = 61 + zlen (b_recs b')) by (rewrite Hraw; apply enc_batch_len).
    assert (Hlen' : b_len b' = 49 + zlen (b_recs b')).
    { rewrite Hlen, wrap32_id by lia. lia. }
    unfold framed. cbn [fst snd]. split; [lia|]. split.
    - rewrite Hraw at 1. rewrite len_field_enc.
      rewrite (sbe_be 4 2147483648 (b_len b')) by (try reflexivity; lia). lia.
    - rewrite Hraw. apply dec_enc_batch; try lia.
      + unfold hdr_in_range. rewrite S0, S2, S3, S6, S7, S8, S9, S10, S11, Hattr.
        pose proof (wrap16_range (b_attrs b - b_attrs b mod 8 + used)). repeat split; lia.
      + rewrite Hcrc. apply wrap32_range.
      + rewrite Hnum. apply wrap32_range.
  Qed.

  Theorem partition_resplit cfg store p bts bts' :
    split_batches (S (length p)) p = Some bts ->
    Forall2 (batch_ok cfg store) bts bts' ->
    Forall (fun bt => hdr_in_range (fst bt)) bts ->
    Forall (fun bt' => zlen (snd bt') - 12 < 2147483648) bts' ->
    split_batches (S (length (join_batches bts'))) (join_batches bts') = Some bts'.
  Proof.
    intros Hs Hok Hr Hsz. apply split_gives_framed in Hs.
    apply split_framed; [|lia].
    revert Hs Hr Hsz. induction Hok as [|bt bt' bts bts' H1 H2 IH]; intros Hs Hr Hsz; [constructor|].
    inversion Hs; subst. inversion Hr; subst. inversion Hsz; subst.
    constructor; [|apply IH; assumption].
    destruct H1 as (rs & rs' & _ & _ & [[-> _]|Hreb]); [assumption|].
    eapply rebuilt_framed; eauto.
  Qed.

  (* ---------- re-decoding the rewritten records ---------- *)
  Definition wf_rec (r : rec) : Prop := zlen (enc_record_body r) < 2147483648.

  Hypothesis decode_encode : forall r, wf_rec r -> decode_rec (enc_record r) = Some r.

  Lemma read_records_encode : forall rs rest,
    Forall wf_rec rs -> read_records (length rs) (enc_records rs ++ rest) = rs.
  Proof.
    induction rs as [|r rs IH]; intros rest Hwf; [reflexivity|].
    inversion Hwf as [|? ? Hr Hrs]; subst.
    cbn [length Rewrite.read_records enc_records flat_map]. fold (enc_records rs).
    pose proof (zlen_nonneg (enc_record_body r)) as Hpos. unfold wf_rec in Hr.
    set (pv := put_varint (zlen (enc_record_body r))).
    assert (Henc : enc_record r = pv ++ enc_record_body r).
    { unfold enc_record, pv. now rewrite wrap32_id by lia. }
    rewrite <- app_assoc. rewrite Henc at 1. rewrite <- app_assoc.
    unfold pv at 1. rewrite lfs_varint_put by lia. fold pv.
    assert (zlen (enc_record_body r) <? 0 = false) as -> by (apply Z.ltb_ge; lia).
    assert (zlen (enc_record r ++ enc_records rs ++ rest) <?
            zlen pv + zlen (enc_record_body r) = false) as ->.
    { apply Z.ltb_ge. rewrite Henc, !zlen_app. pose proof (zlen_nonneg (enc_records rs)). pose proof (zlen_nonneg rest). lia. }
    cbn [orb].
    assert (Z.to_nat (zlen pv + zlen (enc_record_body r)) = length (enc_record r)) as Hn.
    { rewrite Henc, <- zlen_app. unfold zlen. now rewrite Nat2Z.id. }
    rewrite Hn. rewrite firstn_app, firstn_all, Nat.sub_diag. cbn [firstn].
    rewrite app_nil_r. rewrite skipn_app, skipn_all, Nat.sub_diag. cbn [skipn app].
    rewrite decode_encode by exact Hr. f_equal. apply IH. exact Hrs.
  Qed.

  Hypothesis compress_roundtrip : forall c raw out used,
    1 <= c <= 4 -> compress c raw = (out, used) -> used = c /\ decompress c out = Some raw.

  (* the rewritten batch decodes (kmsg + kgo, the same functions the proxy uses) to the
     rewritten records, and keeps its codec *)
  Lemma rewritten_batch_decodes cfg st st' b raw b' raw' :
    process_batch cfg st (b, raw) = Ok ((b', raw'), st', true) ->
    0 <= (b_attrs b) mod 8 <= 4 -> -32768 <= b_attrs b < 32768 ->
    exists rs rs',
      batch_records b = Some rs /\ process_records cfg st rs = Ok (rs', st', true) /\
      (Forall wf_rec rs' -> zlen rs' < 2147483648 ->
       (b_attrs b') mod 8 = (b_attrs b) mod 8 /\ batch_records b' = Some rs').
  Proof.
    intros H Hc Ha. apply process_batch_changed in H.
    destruct H as (rs & rs' & used & B1 & B2 & B3 & _ & _ & _ & _ & B8 & B9).
    exists rs, rs'. split; [exact B1|]. split; [exact B2|]. intros Hwf Hn.
    unfold Rewrite.compress_records in B3.
    assert (Hused : used = (b_attrs b) mod 8 /\
                    (if (b_attrs b) mod 8 =? 0 then Some (b_recs b') else decompress ((b_attrs b) mod 8) (b_recs b')) = Some (enc_records rs')).
    { destruct ((b_attrs b) mod 8 =? 0) eqn:E0.
      - inversion B3; subst. apply Z.eqb_eq in E0. auto.
      - apply Z.eqb_neq in E0.
        assert ((1 <=? b_attrs b mod 8) && (b_attrs b mod 8 <=? 4) = true) as Hr.
        { apply andb_true_iff. split; apply Z.leb_le; lia. }
        rewrite Hr in B3. apply compress_roundtrip in B3; [|lia]. destruct B3; auto. }
    destruct Hused as [-> Hdec].
    assert (Hattr : b_attrs b' mod 8 = b_attrs b mod 8).
    { rewrite B8. replace (b_attrs b - b_attrs b mod 8 + b_attrs b mod 8) with (b_attrs b) by lia.
      now rewrite wrap16_id. }
    split; [exact Hattr|].
    unfold Rewrite.batch_records. rewrite Hattr, Hdec. f_equal.
    rewrite B9, wrap32_id by (pose proof (zlen_nonneg rs'); lia).
    unfold zlen. rewrite Nat2Z.id. rewrite <- (app_nil_r (enc_records rs')).
    apply read_records_encode. exact Hwf.
  Qed.
End Proofs.
