(* Proofs about model/Rewrite.v.
   Record level: every unflagged record comes out identical; a flagged record keeps
   attributes, timestamp delta, offset delta, key, loses exactly its LFS_BLOB headers and
   gets as value the encoding of an envelope whose key is the fresh key handed out for it,
   whose object (in the store, now and after any later uploads of the request) is the
   original value, with size and SHA-256 of that value.
   Batch level: a batch without flagged record is returned as is (same Raw bytes); a
   rewritten batch is the kmsg encoding of a header that differs from the input header
   only in Length, CRC, the codec bits and the payload, with Length = len - 12 and
   CRC = crc32c(bytes[21:]), NumRecords = number of records, payload = compress(encode records);
   under the codec round-trip hypotheses its records decode back to the rewritten list. *)
From KS Require Import lib.Base lib.RecVarint model.Rewrite.
Open Scope Z_scope.

Lemma be_len w v : length (be w v) = w.
Proof. revert v; induction w as [|w IH]; intros v; cbn; [reflexivity|]. rewrite app_length, IH. cbn. lia. Qed.

Definition batch_tail (b : batch) : bytes :=
  be 2 (b_attrs b) ++ be 4 (b_lod b) ++ be 8 (b_fts b) ++ be 8 (b_mts b) ++ be 8 (b_pid b) ++
  be 2 (b_pepoch b) ++ be 4 (b_fseq b) ++ be 4 (b_num b) ++ b_recs b.
Definition batch_head (b : batch) : bytes :=
  be 8 (b_first b) ++ be 4 (b_len b) ++ be 4 (b_ple b) ++ be 1 (b_magic b) ++ be 4 (b_crc b).

Lemma enc_batch_split b : enc_batch b = batch_head b ++ batch_tail b.
Proof. unfold enc_batch, batch_head, batch_tail. now rewrite <- !app_assoc. Qed.

Lemma batch_head_len b : length (batch_head b) = 21%nat.
Proof. unfold batch_head. now rewrite !app_length, !be_len. Qed.

Lemma skipn_21_enc b : skipn 21 (enc_batch b) = batch_tail b.
Proof.
  rewrite enc_batch_split. rewrite <- (batch_head_len b).
  rewrite skipn_app, skipn_all, Nat.sub_diag. reflexivity.
Qed.

Lemma enc_batch_len b : zlen (enc_batch b) = 61 + zlen (b_recs b).
Proof.
  unfold zlen, enc_batch. rewrite !app_length, !be_len. lia.
Qed.

Lemma store_get_skip key p new s :
  ~ In key (map fst new) -> store_get key (new ++ (key, p) :: s) = Some p.
Proof.
  induction new as [|[k v] new IH]; intros Hn; cbn.
  - now rewrite bytes_eqb_refl.
  - destruct (bytes_eqb k key) eqn:E.
    + apply bytes_eqb_eq in E. exfalso. apply Hn. cbn. now left.
    + apply IH. intros H. apply Hn. cbn. now right.
Qed.

(* the state only grows: consumed oracle entries <-> objects put, most recent first *)
Definition ext (st st' : ust) : Prop :=
  exists used new, u_supply st = used ++ u_supply st' /\ u_store st' = new ++ u_store st /\
                   map fst new = rev (map fst used).

Lemma ext_refl st : ext st st.
Proof. exists [], []. repeat split. Qed.

Lemma ext_trans a b c : ext a b -> ext b c -> ext a c.
Proof.
  intros (u1 & n1 & A1 & A2 & A3) (u2 & n2 & B1 & B2 & B3).
  exists (u1 ++ u2), (n2 ++ n1). repeat split.
  - rewrite A1, B1. now rewrite app_assoc.
  - rewrite B2, A2. now rewrite app_assoc.
  - rewrite !map_app, rev_app_distr, A3, B3. reflexivity.
Qed.

Section Proofs.
  Variable decode_rec : bytes -> option rec.
  Variable decompress : Z -> bytes -> option bytes.
  Variable compress : Z -> bytes -> bytes * Z.
  Variable crc32c : bytes -> Z.
  Variable hashf : Z -> bytes -> bytes.
  Variable enc_env : envelope -> bytes.

  Notation process_record := (process_record hashf enc_env).
  Notation process_records := (process_records hashf enc_env).
  Notation process_batch := (process_batch decode_rec decompress compress crc32c hashf enc_env).
  Notation process_batches := (process_batches decode_rec decompress compress crc32c hashf enc_env).
  Notation process_partition := (process_partition decode_rec decompress compress crc32c hashf enc_env).
  Notation rebuild_batch := (rebuild_batch crc32c).
  Notation batch_records := (batch_records decode_rec decompress).
  Notation read_records := (read_records decode_rec).
  Notation compress_records := (compress_records compress).

  (* ---------- one record ---------- *)
  Lemma process_record_unflagged cfg st r :
    flagged r = false -> process_record cfg st r = Ok (r, st, false).
  Proof.
    unfold flagged, Rewrite.process_record. destruct (find_header s_LFS_BLOB (r_hdrs r)); [discriminate|reflexivity].
  Qed.

  Definition flagged_spec (cfg : config) (st st' : ust) (r r' : rec) : Prop :=
    r_attr r' = r_attr r /\ r_ts r' = r_ts r /\ r_off r' = r_off r /\ r_key r' = r_key r /\
    r_hdrs r' = drop_header s_LFS_BLOB (r_hdrs r) /\
    exists key created env,
      u_supply st = (key, created) :: u_supply st' /\
      u_store st' = (key, optb (r_val r)) :: u_store st /\
      r_val r' = Some (enc_env env) /\ e_key env = key /\ e_bucket env = c_bucket cfg /\
      e_size env = zlen (optb (r_val r)) /\ e_sha env = hashf 0 (optb (r_val r)).

  Lemma process_record_flagged cfg st r r' st' ch :
    flagged r = true -> process_record cfg st r = Ok (r', st', ch) ->
    ch = true /\ flagged_spec cfg st st' r r'.
  Proof.
    unfold flagged, Rewrite.process_record. intros Hf H.
    destruct (find_header s_LFS_BLOB (r_hdrs r)) as [lfsv|]; [|discriminate].
    destruct (resolve_alg cfg (header_value s_LFS_BLOB_ALG (r_hdrs r))) as [alg|]; [|discriminate].
    destruct (nonempty (trim_space (optb lfsv)) && (alg =? 3)); [discriminate|].
    destruct (c_max_blob cfg <? zlen (optb (r_val r))); [discriminate|].
    destruct (u_supply st) as [|[key created] sup] eqn:Es; [discriminate|].
    destruct (match u_faults st with [] => (false, []) | f :: fs => (f, fs) end) as [fl faults'].
    destruct (c_chunk cfg <? zlen (optb (r_val r))); [discriminate|].
    destruct fl; [discriminate|].
    match type of H with (if ?c then _ else _) = _ => destruct c end; [discriminate|].
    match type of H with (if ?c then _ else _) = _ => destruct c end; [discriminate|].
    inversion H; subst; clear H. split; [reflexivity|].
    unfold flagged_spec. cbn. repeat split.
    exists key, created. eexists. cbn. repeat split. exact Es.
  Qed.

  Lemma process_record_ext cfg st r r' st' ch :
    process_record cfg st r = Ok (r', st', ch) -> ext st st'.
  Proof.
    intros H. destruct (flagged r) eqn:Hf.
    - destruct (process_record_flagged _ _ _ _ _ _ Hf H) as (_ & _ & _ & _ & _ & _ & key & created & env & H1 & H2 & _).
      exists [(key, created)], [(key, optb (r_val r))]. repeat split; assumption.
    - rewrite process_record_unflagged in H by exact Hf. inversion H; subst. apply ext_refl.
  Qed.

  (* what C31 says about one input/output record pair, [store] being the object store at
     the end of the request *)
  Definition rec_rel (cfg : config) (store : list (bytes * bytes)) (r r' : rec) : Prop :=
    if flagged r then
      r_attr r' = r_attr r /\ r_ts r' = r_ts r /\ r_off r' = r_off r /\ r_key r' = r_key r /\
      r_hdrs r' = drop_header s_LFS_BLOB (r_hdrs r) /\
      exists env, r_val r' = Some (enc_env env) /\ e_bucket env = c_bucket cfg /\
                  store_get (e_key env) store = Some (optb (r_val r)) /\
                  e_size env = zlen (optb (r_val r)) /\ e_sha env = hashf 0 (optb (r_val r))
    else r' = r.

  Lemma process_records_ext cfg : forall rs st rs' st' ch,
    process_records cfg st rs = Ok (rs', st', ch) -> ext st st'.
  Proof.
    induction rs as [|r rs IH]; intros st rs' st' ch H; cbn in H.
    - inversion H; subst. apply ext_refl.
    - destruct (process_record cfg st r) as [[[r1 st1] ch1]| |] eqn:E1; try discriminate.
      destruct (process_records cfg st1 rs) as [[[rs2 st2] ch2]| |] eqn:E2; try discriminate.
      inversion H; subst. eapply ext_trans; [eapply process_record_ext; eauto|eapply IH; eauto].
  Qed.

  Lemma process_records_spec cfg : forall rs st rs' st' ch stF,
    process_records cfg st rs = Ok (rs', st', ch) ->
    NoDup (map fst (u_supply st)) -> ext st' stF ->
    Forall2 (rec_rel cfg (u_store stF)) rs rs'.
  Proof.
    induction rs as [|r rs IH]; intros st rs' st' ch stF H Hnd HF; cbn in H.
    - inversion H; subst. constructor.
    - destruct (process_record cfg st r) as [[[r1 st1] ch1]| |] eqn:E1; try discriminate.
      destruct (process_records cfg st1 rs) as [[[rs2 st2] ch2]| |] eqn:E2; try discriminate.
      inversion H; subst; clear H.
      pose proof (process_record_ext _ _ _ _ _ _ E1) as X1.
      pose proof (process_records_ext _ _ _ _ _ _ E2) as X2.
      constructor.
      + unfold rec_rel. destruct (flagged r) eqn:Hf.
        * destruct (process_record_flagged _ _ _ _ _ _ Hf E1) as (_ & A1 & A2 & A3 & A4 & A5 & key & created & env & S1 & S2 & V & K & B & Sz & Sh).
          repeat split; try assumption. exists env. repeat split; try assumption.
          destruct (ext_trans _ _ _ X2 HF) as (used & new & U1 & U2 & U3).
          rewrite U2, S2, K. apply store_get_skip.
          rewrite U3, <- in_rev. rewrite S1 in Hnd. cbn in Hnd. inversion Hnd as [|? ? Hn Hd]; subst.
          rewrite U1, map_app in Hn. intros Hin. apply Hn. apply in_or_app. now left.
        * rewrite process_record_unflagged in E1 by exact Hf. now inversion E1.
      + eapply IH; [exact E2| |exact HF].
        destruct (flagged r) eqn:Hf.
        * destruct (process_record_flagged _ _ _ _ _ _ Hf E1) as (_ & _ & _ & _ & _ & _ & key & created & env & S1 & _).
          rewrite S1 in Hnd. cbn in Hnd. now inversion Hnd.
        * rewrite process_record_unflagged in E1 by exact Hf. inversion E1; subst. exact Hnd.
  Qed.

  Lemma process_records_length cfg : forall rs st rs' st' ch,
    process_records cfg st rs = Ok (rs', st', ch) -> length rs' = length rs.
  Proof.
    induction rs as [|r rs IH]; intros st rs' st' ch H; cbn in H.
    - now inversion H.
    - destruct (process_record cfg st r) as [[[r1 st1] ch1]| |]; try discriminate.
      destruct (process_records cfg st1 rs) as [[[rs2 st2] ch2]| |] eqn:E2; try discriminate.
      inversion H; subst. cbn. f_equal. eapply IH; eauto.
  Qed.

  (* ---------- one batch ---------- *)
  Definition same_header (b b' : batch) : Prop :=
    b_first b' = b_first b /\ b_ple b' = b_ple b /\ b_magic b' = b_magic b /\ b_lod b' = b_lod b /\
    b_fts b' = b_fts b /\ b_mts b' = b_mts b /\ b_pid b' = b_pid b /\ b_pepoch b' = b_pepoch b /\
    b_fseq b' = b_fseq b.

  Lemma rebuild_batch_valid b payload used n b' raw' :
    rebuild_batch b payload used n = (b', raw') ->
    raw' = enc_batch b' /\ same_header b b' /\
    b_len b' = wrap32 (zlen raw' - 12) /\
    b_crc b' = wrap32 (crc32c (skipn 21 raw')) /\
    b_attrs b' = wrap16 (b_attrs b - (b_attrs b) mod 8 + used) /\
    b_num b' = wrap32 n /\ b_recs b' = payload.
  Proof.
    unfold Rewrite.rebuild_batch. intros H. apply pair_equal_spec in H. destruct H as [Hb Hr].
    subst raw'. subst b'.
    split; [reflexivity|]. split; [unfold same_header; cbn [b_first b_ple b_magic b_lod b_fts b_mts b_pid b_pepoch b_fseq]; repeat split|].
    cbn [b_len b_crc b_attrs b_num b_recs].
    split; [rewrite !enc_batch_len; reflexivity|].
    split; [rewrite !skipn_21_enc; reflexivity|].
    repeat split.
  Qed.

  Lemma process_batch_unchanged cfg st bt bt' st' :
    process_batch cfg st bt = Ok (bt', st', false) -> bt' = bt.
  Proof.
    unfold Rewrite.process_batch. intros H.
    destruct (batch_records (fst bt)) as [records|]; [|discriminate].
    destruct (b_num (fst bt) <? 0); [discriminate|].
    destruct records as [|r0 records]; [now inversion H|].
    destruct (process_records cfg st (r0 :: records)) as [[[rs' st1] ch]| |]; try discriminate.
    destruct (negb ch); [now inversion H|].
    destruct (compress_records (b_attrs (fst bt) mod 8) (enc_records rs')) as [payload used].
    destruct (rebuild_batch (fst bt) payload used (zlen rs')) as [b3 raw3]. inversion H.
  Qed.

  Definition batch_spec (cfg : config) (st st' : ust) (b b' : batch) (raw' : bytes) : Prop :=
    exists rs rs' used,
      batch_records b = Some rs /\
      process_records cfg st rs = Ok (rs', st', true) /\
      compress_records ((b_attrs b) mod 8) (enc_records rs') = (b_recs b', used) /\
      raw' = enc_batch b' /\ same_header b b' /\
      b_len b' = wrap32 (zlen raw' - 12) /\
      b_crc b' = wrap32 (crc32c (skipn 21 raw')) /\
      b_attrs b' = wrap16 (b_attrs b - (b_attrs b) mod 8 + used) /\
      b_num b' = wrap32 (zlen rs').

  Lemma process_batch_changed cfg st b raw b' raw' st' :
    process_batch cfg st (b, raw) = Ok ((b', raw'), st', true) -> batch_spec cfg st st' b b' raw'.
  Proof.
    unfold Rewrite.process_batch. cbn [fst]. intros H.
    destruct (batch_records b) as [records|] eqn:Eb; [|discriminate].
    destruct (b_num b <? 0); [discriminate|].
    destruct records as [|r0 records]; [inversion H|].
    destruct (process_records cfg st (r0 :: records)) as [[[rs' st1] ch]| |] eqn:Ep; try discriminate.
    destruct ch; cbn [negb] in H; [|inversion H].
    destruct (compress_records (b_attrs b mod 8) (enc_records rs')) as [payload used] eqn:Ec.
    destruct (rebuild_batch b payload used (zlen rs')) as [b3 raw3] eqn:Er.
    inversion H; subst; clear H.
    destruct (rebuild_batch_valid _ _ _ _ _ _ Er) as (R1 & R2 & R3 & R4 & R5 & R6 & R7).
    exists (r0 :: records), rs', used. rewrite R7.
    split; [exact Eb|]. split; [exact Ep|]. split; [exact Ec|]. split; [exact R1|]. split; [exact R2|].
    split; [exact R3|]. split; [exact R4|]. split; [exact R5|exact R6].
  Qed.

  Lemma process_batch_ext cfg st bt bt' st' ch :
    process_batch cfg st bt = Ok (bt', st', ch) -> ext st st'.
  Proof.
    unfold Rewrite.process_batch. intros H.
    destruct (batch_records (fst bt)) as [records|]; [|discriminate].
    destruct (b_num (fst bt) <? 0); [discriminate|].
    destruct records as [|r0 records]; [inversion H; subst; apply ext_refl|].
    destruct (process_records cfg st (r0 :: records)) as [[[rs' st1] c]| |] eqn:Ep; try discriminate.
    apply process_records_ext in Ep.
    destruct (negb c); [inversion H; subst; exact Ep|].
    destruct (compress_records (b_attrs (fst bt) mod 8) (enc_records rs')) as [payload used].
    inversion H; subst. exact Ep.
  Qed.

  (* ---------- a partition ---------- *)
  Lemma process_partition_unchanged cfg st p p' st' :
    process_partition cfg st p = Ok (p', st', false) -> p' = p.
  Proof.
    unfold Rewrite.process_partition. intros H. destruct p as [|x p]; [now inversion H|].
    destruct (split_batches (S (length (x :: p))) (x :: p)) as [bts|]; [|discriminate].
    destruct (process_batches cfg st bts) as [[[bts' st1] ch]| |]; try discriminate.
    destruct ch; now inversion H.
  Qed.

  Lemma process_records_unflagged cfg : forall rs st rs' st' ch,
    process_records cfg st rs = Ok (rs', st', ch) ->
    Forall2 (fun r r' => flagged r = false -> r' = r) rs rs'.
  Proof.
    induction rs as [|r rs IH]; intros st rs' st' ch H; cbn in H.
    - inversion H; subst. constructor.
    - destruct (process_record cfg st r) as [[[r1 st1] ch1]| |] eqn:E1; try discriminate.
      destruct (process_records cfg st1 rs) as [[[rs2 st2] ch2]| |] eqn:E2; try discriminate.
      inversion H; subst. constructor; [|eapply IH; eauto].
      intros Hf. rewrite process_record_unflagged in E1 by exact Hf. now inversion E1.
  Qed.

  Theorem unflagged_unchanged cfg :
    (forall st rs rs' st' ch,
       process_records cfg st rs = Ok (rs', st', ch) ->
       length rs' = length rs /\
       Forall2 (fun r r' => flagged r = false -> r' = r) rs rs') /\
    (forall st bt bt' st', process_batch cfg st bt = Ok (bt', st', false) -> bt' = bt) /\
    (forall st p p' st', process_partition cfg st p = Ok (p', st', false) -> p' = p).
  Proof.
    split; [|split].
    - intros st rs rs' st' ch H. split; [eapply process_records_length; eauto|eapply process_records_unflagged; eauto].
    - intros. eapply process_batch_unchanged; eauto.
    - intros. eapply process_partition_unchanged; eauto.
  Qed.

  (* ---------- re-decoding the rewritten records ---------- *)
  Definition wf_rec (r : rec) : Prop := zlen (enc_record_body r) < 2147483648.

  Hypothesis decode_encode : forall r, wf_rec r -> decode_rec (enc_record r) = Some r.

  Lemma read_records_encode : forall rs rest,
    Forall wf_rec rs -> read_records (length rs) (enc_records rs ++ rest) = rs.
  Proof.
    induction rs as [|r rs IH]; intros rest Hwf; [reflexivity|].
    inversion Hwf as [|? ? Hr Hrs]; subst.
    cbn [length Rewrite.read_records enc_records flat_map]. fold (enc_records rs).
    pose proof (zlen_nonneg (enc_record_body r)) as Hpos. unfold wf_rec in Hr.
    set (pv := put_varint (zlen (enc_record_body r))).
    assert (Henc : enc_record r = pv ++ enc_record_body r).
    { unfold enc_record, pv. now rewrite wrap32_id by lia. }
    rewrite <- app_assoc. rewrite Henc at 1. rewrite <- app_assoc.
    unfold pv at 1. rewrite lfs_varint_put by lia. fold pv.
    assert (zlen (enc_record_body r) <? 0 = false) as -> by (apply Z.ltb_ge; lia).
    assert (zlen (enc_record r ++ enc_records rs ++ rest) <?
            zlen pv + zlen (enc_record_body r) = false) as ->.
    { apply Z.ltb_ge. rewrite Henc, !zlen_app. pose proof (zlen_nonneg (enc_records rs)). pose proof (zlen_nonneg rest). lia. }
    cbn [orb].
    assert (Z.to_nat (zlen pv + zlen (enc_record_body r)) = length (enc_record r)) as Hn.
    { rewrite Henc, <- zlen_app. unfold zlen. now rewrite Nat2Z.id. }
    rewrite Hn. rewrite firstn_app, firstn_all, Nat.sub_diag. cbn [firstn].
    rewrite app_nil_r. rewrite skipn_app, skipn_all, Nat.sub_diag. cbn [skipn app].
    rewrite decode_encode by exact Hr. f_equal. apply IH. exact Hrs.
  Qed.

  Hypothesis compress_roundtrip : forall c raw out used,
    1 <= c <= 4 -> compress c raw = (out, used) -> used = c /\ decompress c out = Some raw.

  (* the rewritten batch decodes (kmsg + kgo, the same functions the proxy uses) to the
     rewritten records, and keeps its codec *)
  Lemma rewritten_batch_decodes cfg st st' b raw b' raw' :
    process_batch cfg st (b, raw) = Ok ((b', raw'), st', true) ->
    0 <= (b_attrs b) mod 8 <= 4 -> -32768 <= b_attrs b < 32768 ->
    exists rs rs',
      batch_records b = Some rs /\ process_records cfg st rs = Ok (rs', st', true) /\
      (Forall wf_rec rs' -> zlen rs' < 2147483648 ->
       (b_attrs b') mod 8 = (b_attrs b) mod 8 /\ batch_records b' = Some rs').
  Proof.
    intros H Hc Ha. apply process_batch_changed in H.
    destruct H as (rs & rs' & used & B1 & B2 & B3 & _ & _ & _ & _ & B8 & B9).
    exists rs, rs'. split; [exact B1|]. split; [exact B2|]. intros Hwf Hn.
    unfold Rewrite.compress_records in B3.
    assert (Hused : used = (b_attrs b) mod 8 /\
                    (if (b_attrs b) mod 8 =? 0 then Some (b_recs b') else decompress ((b_attrs b) mod 8) (b_recs b')) = Some (enc_records rs')).
    { destruct ((b_attrs b) mod 8 =? 0) eqn:E0.
      - inversion B3; subst. apply Z.eqb_eq in E0. auto.
      - apply Z.eqb_neq in E0.
        assert ((1 <=? b_attrs b mod 8) && (b_attrs b mod 8 <=? 4) = true) as Hr.
        { apply andb_true_iff. split; apply Z.leb_le; lia. }
        rewrite Hr in B3. apply compress_roundtrip in B3; [|lia]. destruct B3; auto. }
    destruct Hused as [-> Hdec].
    assert (Hattr : b_attrs b' mod 8 = b_attrs b mod 8).
    { rewrite B8. replace (b_attrs b - b_attrs b mod 8 + b_attrs b mod 8) with (b_attrs b) by lia.
      now rewrite wrap16_id. }
    split; [exact Hattr|].
    unfold Rewrite.batch_records. rewrite Hattr, Hdec. f_equal.
    rewrite B9, wrap32_id by (pose proof (zlen_nonneg rs'); lia).
    unfold zlen. rewrite Nat2Z.id. rewrite <- (app_nil_r (enc_records rs')).
    apply read_records_encode. exact Hwf.
  Qed.
End Proofs.
