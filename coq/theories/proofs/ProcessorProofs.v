(* Proofs about model/Processor.v: the checkpoint invariant and delivery after a
   fault-free cycle, for every store kind, decoder, deterministic drop predicate,
   universe of segments and event list (= any number of cycles with any faults). *)
From Coq Require Import Sorted.
From KS Require Import lib.Base model.Processor.
Open Scope Z_scope.

Lemma lookup_update_same p v m : lookup p (update p v m) = Some v.
Proof.
  induction m as [|[k w] m IH]; cbn.
  - now rewrite Z.eqb_refl.
  - destruct (k =? p) eqn:E; cbn; rewrite E; [reflexivity|exact IH].
Qed.

Lemma lookup_update_other p q v m : q <> p -> lookup q (update p v m) = lookup q m.
Proof.
  intros Hne. induction m as [|[k w] m IH]; cbn.
  - destruct (p =? q) eqn:E; [apply Z.eqb_eq in E; congruence|reflexivity].
  - destruct (k =? p) eqn:E; cbn.
    + apply Z.eqb_eq in E. subst k. destruct (p =? q) eqn:E2; [apply Z.eqb_eq in E2; congruence|reflexivity].
    + destruct (k =? q); [reflexivity|exact IH].
Qed.

Lemma sorted_app_lt (a b : list Z) :
  StronglySorted Z.lt (a ++ b) -> forall x y, In x a -> In y b -> x < y.
Proof.
  induction a as [|h a IH]; cbn; intros Hs x y Hx Hy; [contradiction|].
  inversion Hs as [|? ? Hs' Hall]; subst.
  destruct Hx as [->|Hx].
  - rewrite Forall_forall in Hall. apply Hall. apply in_or_app. now right.
  - now apply IH.
Qed.

Lemma sorted_app_r (a b : list Z) : StronglySorted Z.lt (a ++ b) -> StronglySorted Z.lt b.
Proof.
  induction a as [|h a IH]; cbn; intros Hs; [exact Hs|].
  inversion Hs; subst. now apply IH.
Qed.

Section Proofs.
  Variable kind : store_kind.
  Variable decode : Z -> list rec.
  Variable keep : rec -> bool.
  Variable segs : list seg.
  Hypothesis Huni : universe_ok decode segs.

  Definition recs_of (sg : seg) : list rec := decode (s_id sg).

  (* every record of the segment that is not deterministically dropped has reached the sink *)
  Definition seg_done (w : list (Z * Z)) (sg : seg) : Prop :=
    forall r, In r (recs_of sg) -> keep r = true -> In (s_part sg, r_off r) w.

  (* the checkpoint never is at or beyond an unwritten record *)
  Definition inv (st : state) : Prop :=
    forall p c, lookup p (st_commit st) = Some c ->
    forall sg r, In sg segs -> s_part sg = p -> In r (recs_of sg) -> keep r = true ->
                 r_off r <= c -> In (p, r_off r) (st_written st).

  Lemma seg_done_mono w w' sg : incl w w' -> seg_done w sg -> seg_done w' sg.
  Proof. intros Hi Hd r Hr Hk. apply Hi. now apply Hd. Qed.

  Lemma rec_part sg r : In sg segs -> In r (recs_of sg) -> r_part r = s_part sg /\ 0 <= r_off r.
  Proof. intros. now apply (proj1 Huni). Qed.

  (* records of later segments of the partition have larger offsets *)
  Lemma later_larger p done sg rest r r' sg' :
    filter (part_is p) segs = done ++ sg :: rest ->
    In r (recs_of sg) -> In sg' rest -> In r' (recs_of sg') -> r_off r < r_off r'.
  Proof.
    intros Hf Hr Hs' Hr'.
    pose proof (proj2 Huni p) as Hs. rewrite Hf in Hs.
    rewrite flat_map_app, map_app in Hs. apply sorted_app_r in Hs.
    cbn [flat_map] in Hs. rewrite map_app in Hs.
    apply (sorted_app_lt _ _ Hs).
    - apply in_map. exact Hr.
    - apply in_map. apply in_flat_map. exists sg'. split; assumption.
  Qed.

  Section OneSegment.
    Variable p : Z.
    Variables (done rest : list seg) (sg : seg).
    Hypothesis Hsplit : filter (part_is p) segs = done ++ sg :: rest.

    Lemma sg_in : In sg segs /\ s_part sg = p.
    Proof.
      assert (H : In sg (filter (part_is p) segs)) by (rewrite Hsplit; apply in_or_app; right; now left).
      apply filter_In in H. destruct H as [H1 H2]. split; [exact H1|]. now apply Z.eqb_eq in H2.
    Qed.

    Lemma seg_done_after st :
      inv st ->
      seg_done (st_written st ++ map (fun r => (r_part r, r_off r))
                  (filter keep (filter_records (load_offset kind st (s_part sg)) (recs_of sg)))) sg.
    Proof.
      intros Hinv r Hr Hk. destruct sg_in as [Hin Hp].
      destruct (rec_part sg r Hin Hr) as [Hrp Hnn].
      destruct (load_offset kind st (s_part sg) <? r_off r) eqn:E.
      - apply in_or_app. right. apply in_map_iff. exists r. split; [now rewrite Hrp|].
        apply filter_In. split; [|exact Hk]. apply filter_In. split; [exact Hr|exact E].
      - apply Z.ltb_ge in E. apply in_or_app. left. unfold load_offset in E.
        destruct kind; [lia|].
        destruct (lookup (s_part sg) (st_commit st)) as [c|] eqn:El; [|lia].
        eapply Hinv; eauto.
    Qed.

    Lemma inv_add_written st rs : inv st -> inv (add_written st rs).
    Proof.
      intros Hinv q c Hl sg' r H1 H2 H3 H4 H5. cbn. apply in_or_app. left. eapply Hinv; eauto.
    Qed.

    Lemma inv_after_commit st l :
      inv st -> (forall d, In d done -> seg_done (st_written st) d) ->
      let kept := filter keep (filter_records (load_offset kind st (s_part sg)) (recs_of sg)) in
      In l kept ->
      inv (store_offset kind (add_written st kept) (r_part l) (r_off l)).
    Proof.
      intros Hinv Hdone kept Hl. destruct sg_in as [Hin Hp].
      assert (Hlr : In l (recs_of sg)).
      { apply filter_In in Hl. destruct Hl as [Hl _]. apply filter_In in Hl. tauto. }
      destruct (rec_part sg l Hin Hlr) as [Hlp _].
      unfold store_offset. destruct kind eqn:Ek; [now apply inv_add_written|].
      intros q c Hlk sg' r Hs' Hq Hr Hk Hle. cbn [st_commit st_written add_written] in *.
      destruct (Z.eq_dec q (r_part l)) as [->|Hne].
      - rewrite lookup_update_same in Hlk. inversion Hlk; subst c. clear Hlk.
        assert (Hf : In sg' (filter (part_is p) segs)).
        { apply filter_In. split; [exact Hs'|]. unfold part_is. apply Z.eqb_eq. congruence. }
        rewrite Hsplit in Hf. apply in_app_or in Hf. destruct Hf as [Hd|[He|Hrest]].
        + apply in_or_app. left. rewrite <- Hq. now apply Hdone.
        + subst sg'. rewrite Hlp. pose proof (seg_done_after st Hinv r Hr Hk) as H.
          rewrite Ek in H. exact H.
        + pose proof (later_larger p done sg rest l r sg' Hsplit Hlr Hrest Hr). lia.
      - rewrite lookup_update_other in Hlk by congruence.
        apply in_or_app. left. eapply Hinv; eauto.
    Qed.

    Lemma process_seg_ok st f st' go :
      inv st -> (forall d, In d done -> seg_done (st_written st) d) ->
      process_seg kind decode keep st sg f = (st', go) ->
      inv st' /\ incl (st_written st) (st_written st') /\ st_lease st' = st_lease st /\
      (go = true -> seg_done (st_written st') sg) /\ (f = FNone -> go = true).
    Proof.
      intros Hinv Hdone Hp.
      assert (Hsame : (st, false) = (st', go) ->
                inv st' /\ incl (st_written st) (st_written st') /\ st_lease st' = st_lease st /\
                (go = true -> seg_done (st_written st') sg)).
      { intros E. inversion E; subst. repeat split; auto using incl_refl; try discriminate. }
      pose proof (seg_done_after st Hinv) as Hsd.
      pose proof (inv_after_commit st) as Hic. cbv zeta in Hic.
      unfold process_seg in Hp. fold (recs_of sg) in Hp.
      set (kept := filter keep (filter_records (load_offset kind st (s_part sg)) (recs_of sg))) in *.
      assert (Hwr : forall l, In l kept ->
                inv (store_offset kind (add_written st kept) (r_part l) (r_off l)) /\
                incl (st_written st) (st_written (store_offset kind (add_written st kept) (r_part l) (r_off l))) /\
                st_lease (store_offset kind (add_written st kept) (r_part l) (r_off l)) = st_lease st /\
                seg_done (st_written (store_offset kind (add_written st kept) (r_part l) (r_off l))) sg).
      { intros l Hl. split; [now apply Hic|].
        unfold store_offset. destruct kind; cbn; (split; [apply incl_appl, incl_refl|split; [reflexivity|exact Hsd]]). }
      assert (Hw1 : inv (add_written st kept) /\ incl (st_written st) (st_written (add_written st kept)) /\
                    st_lease (add_written st kept) = st_lease st /\
                    seg_done (st_written (add_written st kept)) sg).
      { split; [now apply inv_add_written|]. cbn. split; [apply incl_appl, incl_refl|split; [reflexivity|exact Hsd]]. }
      assert (Hnil : kept = [] -> seg_done (st_written st) sg).
      { intros E. rewrite E in Hsd. cbn in Hsd. now rewrite app_nil_r in Hsd. }
      destruct f; cbn [is_lfs_fault andb] in Hp.
      - (* FNone *)
        destruct kept as [|r0 k'] eqn:Ek.
        + inversion Hp; subst. repeat split; auto using incl_refl.
        + inversion Hp; subst. destruct (Hwr (last (r0 :: k') r0)) as (A & B & C & D).
          { destruct (@exists_last _ (r0 :: k')) as (l0 & x & Ex); [discriminate|].
            rewrite Ex. rewrite last_last. apply in_or_app. right. now left. }
          repeat split; auto.
      - (* FLoad *) destruct (Hsame Hp) as (A & B & C & D). repeat split; auto; try discriminate.
      - (* FDecode *) destruct (Hsame Hp) as (A & B & C & D). repeat split; auto; try discriminate.
      - (* FLfs *)
        destruct (existsb r_lfs (filter_records (load_offset kind st (s_part sg)) (recs_of sg))).
        + destruct (Hsame Hp) as (A & B & C & D). repeat split; auto; try discriminate.
        + destruct kept as [|r0 k'] eqn:Ek.
          * inversion Hp; subst. repeat split; auto using incl_refl; try discriminate.
          * inversion Hp; subst. destruct (Hwr (last (r0 :: k') r0)) as (A & B & C & D).
            { destruct (@exists_last _ (r0 :: k')) as (l0 & x & Ex); [discriminate|].
              rewrite Ex. rewrite last_last. apply in_or_app. right. now left. }
            repeat split; auto; try discriminate.
      - (* FSink *)
        destruct kept as [|r0 k'] eqn:Ek.
        + inversion Hp; subst. repeat split; auto using incl_refl; try discriminate.
        + destruct (Hsame Hp) as (A & B & C & D). repeat split; auto; try discriminate.
      - (* FCommitPre *)
        destruct kept as [|r0 k'] eqn:Ek.
        + inversion Hp; subst. repeat split; auto using incl_refl; try discriminate.
        + inversion Hp; subst. destruct Hw1 as (A & B & C & D). repeat split; auto; try discriminate.
      - (* FCommitPost *)
        destruct kept as [|r0 k'] eqn:Ek.
        + inversion Hp; subst. repeat split; auto using incl_refl; try discriminate.
        + inversion Hp; subst. destruct (Hwr (last (r0 :: k') r0)) as (A & B & C & D).
          { destruct (@exists_last _ (r0 :: k')) as (l0 & x & Ex); [discriminate|].
            rewrite Ex. rewrite last_last. apply in_or_app. right. now left. }
          repeat split; auto; try discriminate.
    Qed.
  End OneSegment.

  Lemma filter_cons_listed p sg ok f (l : list listed) :
    filter (part_is p) (map listed_seg ((sg, ok, f) :: l)) =
    if s_part sg =? p then sg :: filter (part_is p) (map listed_seg l)
    else filter (part_is p) (map listed_seg l).
  Proof. reflexivity. Qed.

  Lemma pass_ok p : forall l st done,
    (exists t, filter (part_is p) segs = done ++ filter (part_is p) (map listed_seg l) ++ t) ->
    inv st -> (forall d, In d done -> seg_done (st_written st) d) ->
    inv (pass kind decode keep st p l) /\
    incl (st_written st) (st_written (pass kind decode keep st p l)) /\
    st_lease (pass kind decode keep st p l) = st_lease st /\
    ((forall x, In x l -> snd x = FNone) ->
     forall d, In d (done ++ filter (part_is p) (map listed_seg l)) ->
               seg_done (st_written (pass kind decode keep st p l)) d).
  Proof.
    induction l as [|[[sg ok] f] l IH]; intros st done [t Ht] Hinv Hdone.
    - cbn. repeat split; auto using incl_refl. intros _ d Hd. rewrite app_nil_r in Hd. now apply Hdone.
    - cbn [pass]. rewrite filter_cons_listed in Ht. rewrite filter_cons_listed.
      destruct (s_part sg =? p) eqn:E.
      + destruct (process_seg kind decode keep st sg f) as [st1 go] eqn:Ep.
        assert (Hsplit : filter (part_is p) segs = done ++ sg :: (filter (part_is p) (map listed_seg l) ++ t)) by exact Ht.
        destruct (process_seg_ok p done _ sg Hsplit st f st1 go Hinv Hdone Ep) as (A & B & C & D & F).
        destruct go.
        * destruct (IH st1 (done ++ [sg])) as (A' & B' & C' & D').
          { exists t. rewrite <- app_assoc. exact Hsplit. }
          { exact A. }
          { intros d Hd. apply in_app_or in Hd. destruct Hd as [Hd|[<-|[]]].
            - eapply seg_done_mono; [exact B|now apply Hdone].
            - now apply D. }
          split; [exact A'|]. split; [eapply incl_tran; eauto|]. split; [congruence|].
          intros Hall d Hd. apply D'.
          { intros x Hx. apply Hall. now right. }
          { rewrite <- app_assoc. exact Hd. }
        * split; [exact A|]. split; [exact B|]. split; [exact C|].
          intros Hall. specialize (Hall (sg, ok, f) (or_introl eq_refl)). cbn in Hall.
          specialize (F Hall). discriminate.
      + destruct (IH st done) as (A' & B' & C' & D'); [now exists t|exact Hinv|exact Hdone|].
        repeat split; auto. intros Hall d Hd. apply D'.
        { intros x Hx. apply Hall. now right. }
        { exact Hd. }
  Qed.

  Lemma inv_with_lease st le : inv st -> inv (with_lease st le).
  Proof. intros H. exact H. Qed.

  Lemma step_inv st e : inv st -> event_ok segs e -> inv (step kind decode keep st e).
  Proof.
    intros Hinv Hok. destruct e as [[l|]|]; cbn [step]; auto.
    destruct (match st_lease st with Some p => Some p | None => claim l end) as [p|]; [|exact Hinv].
    destruct (Hok p) as [t Ht].
    apply (pass_ok p l (with_lease st (Some p)) []); [now exists t|exact Hinv|intros d []].
  Qed.

  Lemma run_inv evs : forall st, inv st -> Forall (event_ok segs) evs -> inv (run kind decode keep st evs).
  Proof.
    induction evs as [|e evs IH]; intros st Hinv Hall; [exact Hinv|].
    inversion Hall; subst. cbn. apply IH; [now apply step_inv|assumption].
  Qed.

  Lemma inv_init : inv init.
  Proof. intros p c H. discriminate. Qed.

  Theorem checkpoint_safe : forall evs,
    Forall (event_ok segs) evs ->
    let st := run kind decode keep init evs in
    forall p c, lookup p (st_commit st) = Some c ->
    forall sg r, In sg segs -> s_part sg = p -> In r (decode (s_id sg)) -> keep r = true ->
                 r_off r <= c -> In (p, r_off r) (st_written st).
  Proof. intros evs Hall. exact (run_inv evs init inv_init Hall). Qed.

  Lemma claim_clean l0 s : claim (map (fun sg => (sg, true, FNone)) (s :: l0)) = Some (s_part s).
  Proof. reflexivity. Qed.

  Theorem eventually_all : forall evs,
    Forall (event_ok segs) evs -> segs <> [] ->
    let st' := step kind decode keep (run kind decode keep init evs) (clean_cycle segs) in
    exists p, st_lease st' = Some p /\
      forall sg r, In sg segs -> s_part sg = p -> In r (decode (s_id sg)) -> keep r = true ->
                   In (p, r_off r) (st_written st').
  Proof.
    intros evs Hall Hne. set (st := run kind decode keep init evs).
    assert (Hinv : inv st) by (exact (run_inv evs init inv_init Hall)).
    unfold clean_cycle. cbn [step].
    set (l := map (fun sg : seg => (sg, true, FNone)) segs).
    assert (Hle : exists p, match st_lease st with Some p => Some p | None => claim l end = Some p).
    { destruct (st_lease st) as [q|]; [now exists q|]. destruct segs as [|s l0]; [congruence|].
      exists (s_part s). reflexivity. }
    destruct Hle as [p Hle]. rewrite Hle. cbv zeta.
    assert (Hmap : map listed_seg l = segs).
    { unfold l. rewrite map_map. cbn. apply map_id. }
    destruct (pass_ok p l (with_lease st (Some p)) []) as (A & B & C & D).
    { exists []. rewrite Hmap. cbn. now rewrite app_nil_r. }
    { exact Hinv. }
    { intros d []. }
    exists p. split; [exact C|].
    intros sg r Hs Hp Hr Hk.
    assert (Hfn : forall x : listed, In x l -> snd x = FNone).
    { intros x Hx. unfold l in Hx. apply in_map_iff in Hx. destruct Hx as (? & <- & _). reflexivity. }
    assert (Hin : In sg ([] ++ filter (part_is p) (map listed_seg l))).
    { cbn. rewrite Hmap. apply filter_In. split; [exact Hs|]. unfold part_is. now apply Z.eqb_eq. }
    pose proof (D Hfn sg Hin r Hr Hk) as Hd. rewrite Hp in Hd. exact Hd.
  Qed.
End Proofs.
