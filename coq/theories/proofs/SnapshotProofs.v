(* Proofs about model/Snapshot.v (C21). *)
From KS Require Import lib.Base model.Snapshot.
Open Scope Z_scope.

(* ---------- basic facts ---------- *)
Lemma snap_eqb_eq a b : snap_eqb a b = true -> a = b.
Proof.
  unfold snap_eqb. revert b; induction a as [|[t m] a IH]; intros [|[t' m'] b] H; cbn in H;
    try reflexivity; try discriminate.
  apply andb_true_iff in H as [H1 H2]. apply andb_true_iff in H1 as [Ht Hm].
  apply bytes_eqb_eq in Ht. apply Z.eqb_eq in Hm. cbn in Ht, Hm. subst. f_equal. now apply IH.
Qed.

Lemma has_mono s t k k' : has s t k -> k' <= k -> has s t k'.
Proof. intros [m [Hi Hk]] H. exists m. split; [assumption|lia]. Qed.

Lemma hasb_has s t k : hasb s t k = true -> has s t k.
Proof.
  unfold hasb. intros H. apply existsb_exists in H as [[t' m] [Hi H]]. cbn [fst snd] in H.
  apply andb_true_iff in H as [Ht Hk]. apply bytes_eqb_eq in Ht. subst t'.
  exists m. split; [assumption|lia].
Qed.

Lemma count_of_in s t m : count_of s t = Some m -> In (t, m) s.
Proof.
  induction s as [|[t' m'] s IH]; cbn; [discriminate|].
  destruct (bytes_eqb t t') eqn:E.
  - apply bytes_eqb_eq in E. subst. intros H; inversion H; subst. now left.
  - intros H. right. now apply IH.
Qed.

Lemma count_of_none s t m : count_of s t = None -> ~ In (t, m) s.
Proof.
  induction s as [|[t' m'] s IH]; cbn; [tauto|].
  destruct (bytes_eqb t t') eqn:E; [discriminate|].
  intros H [Hi|Hi]; [|now apply IH].
  inversion Hi; subst. rewrite bytes_eqb_refl in E. discriminate.
Qed.

(* raising the first entry of t never lowers what the snapshot has *)
Lemma set_first_has s t n cur :
  count_of s t = Some cur -> cur <= n ->
  forall t' k, has s t' k -> has (set_first s t n) t' k.
Proof.
  induction s as [|[t0 m0] s IH]; cbn [count_of set_first]; [discriminate|].
  intros C Hn t' k [m [Hi Hk]].
  destruct (bytes_eqb t t0) eqn:E.
  - apply bytes_eqb_eq in E. subst t0. inversion C; subst m0.
    destruct Hi as [Hi|Hi].
    + inversion Hi; subst. exists n. split; [now left|lia].
    + exists m. split; [now right|assumption].
  - destruct Hi as [Hi|Hi].
    + inversion Hi; subst. exists m. split; [now left|assumption].
    + destruct (IH C Hn t' k) as [m' [Hi' Hk']]; [exists m; auto|].
      exists m'. split; [now right|assumption].
Qed.

Lemma set_first_in s t n cur : count_of s t = Some cur -> In (t, n) (set_first s t n).
Proof.
  induction s as [|[t0 m0] s IH]; cbn [count_of set_first]; [discriminate|].
  destruct (bytes_eqb t t0) eqn:E.
  - apply bytes_eqb_eq in E. subst. intros _. now left.
  - intros C. right. now apply IH.
Qed.

Lemma count_of_set_first s t n t' :
  count_of (set_first s t n) t' = None <-> count_of s t' = None.
Proof.
  induction s as [|[t0 m0] s IH]; cbn [count_of set_first]; [tauto|].
  destruct (bytes_eqb t t0) eqn:E; cbn [count_of].
  - destruct (bytes_eqb t' t0); [split; discriminate|tauto].
  - destruct (bytes_eqb t' t0); [split; discriminate|exact IH].
Qed.

Lemma count_of_app s1 s2 t :
  count_of (s1 ++ s2) t = match count_of s1 t with Some m => Some m | None => count_of s2 t end.
Proof.
  induction s1 as [|[t0 m0] s1 IH]; cbn [app count_of]; [reflexivity|].
  destruct (bytes_eqb t t0); [reflexivity|exact IH].
Qed.

Lemma remove_first_in s t t' m : t' <> t -> In (t', m) s -> In (t', m) (remove_first s t).
Proof.
  intros N. induction s as [|[t0 m0] s IH]; cbn [remove_first]; [tauto|].
  destruct (bytes_eqb t t0) eqn:E.
  - apply bytes_eqb_eq in E. subst t0. intros [Hi|Hi]; [inversion Hi; congruence|assumption].
  - intros [Hi|Hi]; [now left|right; now apply IH].
Qed.

(* ---------- the three broker operations keep the acknowledged topics ---------- *)
Lemma create_covers s t n s' acks :
  create_local s t n = (ROk, s') -> covers s acks -> covers s' (acks ++ [(t, n)]) /\ t <> [].
Proof.
  unfold create_local. destruct (negb (valid_name t) || (n <=? 0)) eqn:V; [discriminate|].
  destruct (mem_name s t); [discriminate|].
  intros H; inversion H; subst. intros C.
  split; [|intros ->; cbn in V; discriminate].
  intros t' k Hi. apply in_app_iff in Hi as [Hi|[Hi|[]]].
  - destruct (C t' k Hi) as [m [Hm Hk]]. exists m. split; [apply in_app_iff; now left|assumption].
  - inversion Hi; subst. exists k. split; [apply in_app_iff; right; now left|lia].
Qed.

Lemma grow_covers s t n s' acks :
  grow_local s t n = (ROk, s') -> covers s acks -> covers s' (acks ++ [(t, n)]) /\ t <> [].
Proof.
  unfold grow_local. destruct t as [|c t]; [discriminate|]. destruct (n <=? 0); [discriminate|].
  destruct (count_of s (c :: t)) as [cur|] eqn:C; [|discriminate].
  destruct (n <=? cur) eqn:L; [discriminate|].
  intros H; inversion H; subst. intros Cv. split; [|discriminate].
  intros t' k Hi. apply in_app_iff in Hi as [Hi|[Hi|[]]].
  - apply (set_first_has s (c :: t) n cur C); [lia|]. now apply Cv.
  - inversion Hi; subst. exists k. split; [|lia]. eapply set_first_in; eauto.
Qed.

Lemma delete_covers s t s' acks :
  delete_local s t = (ROk, s') -> covers s acks -> covers s' (drop_acks acks t).
Proof.
  unfold delete_local. destruct (mem_name s t); [|discriminate].
  intros H; inversion H; subst. intros C t' k Hi.
  unfold drop_acks in Hi. apply filter_In in Hi as [Hi Hn]. cbn [fst] in Hn.
  apply negb_true_iff in Hn. apply bytes_eqb_neq in Hn.
  destruct (C t' k Hi) as [m [Hm Hk]]. exists m. split; [|assumption].
  apply remove_first_in; [congruence|assumption].
Qed.

(* ---------- the patched merge never loses or shrinks a topic of the existing snapshot ---------- *)
Definition mstep (next : snap) (acc : snap) (e : bytes * Z) : snap :=
  match fst e with
  | [] => acc
  | _ => if mem_name next (fst e) then bump true acc (fst e) (snd e) else acc ++ [e]
  end.

Lemma bump_has acc t m t' k : has acc t' k -> has (bump true acc t m) t' k.
Proof.
  unfold bump. destruct (count_of acc t) as [cur|] eqn:C; [|tauto].
  destruct (cur <? m) eqn:L; [|tauto]. intros H.
  apply (set_first_has acc t m cur C); [lia|assumption].
Qed.

Lemma mstep_has next acc e t' k : has acc t' k -> has (mstep next acc e) t' k.
Proof.
  unfold mstep. destruct (fst e); [tauto|]. destruct (mem_name next _).
  - apply bump_has.
  - intros [m [Hi Hk]]. exists m. split; [apply in_app_iff; now left|assumption].
Qed.

Lemma mstep_names next acc e t : mem_name acc t = true -> mem_name (mstep next acc e) t = true.
Proof.
  unfold mstep, mem_name. destruct (fst e) eqn:F; [tauto|]. destruct (count_of next (z :: b)).
  - unfold bump. destruct (count_of acc (z :: b)) as [cur|]; [|tauto].
    destruct (cur <? snd e); [|tauto].
    intros H. destruct (count_of (set_first acc (z :: b) (snd e)) t) eqn:C; [reflexivity|].
    apply count_of_set_first in C. rewrite C in H. discriminate.
  - rewrite count_of_app. destruct (count_of acc t); [reflexivity|discriminate].
Qed.

Lemma fold_mstep_has next ex : forall acc t' k,
  has acc t' k -> has (fold_left (mstep next) ex acc) t' k.
Proof.
  induction ex as [|e ex IH]; intros acc t' k H; cbn [fold_left]; [assumption|].
  apply IH. now apply mstep_has.
Qed.

Lemma fold_mstep_names next ex : forall acc t,
  mem_name acc t = true -> mem_name (fold_left (mstep next) ex acc) t = true.
Proof.
  induction ex as [|e ex IH]; intros acc t H; cbn [fold_left]; [assumption|].
  apply IH. now apply mstep_names.
Qed.

Lemma mstep_self next acc t m :
  t <> [] -> (forall x, mem_name next x = true -> mem_name acc x = true) ->
  has (mstep next acc (t, m)) t m.
Proof.
  intros Nt Hn. unfold mstep. cbn [fst snd]. destruct t as [|c t]; [congruence|].
  destruct (mem_name next (c :: t)) eqn:M.
  - specialize (Hn _ M). unfold mem_name in Hn. unfold bump.
    destruct (count_of acc (c :: t)) as [cur|] eqn:C; [|discriminate].
    destruct (cur <? m) eqn:L.
    + exists m. split; [eapply set_first_in; eauto|lia].
    + exists cur. split; [now apply count_of_in|lia].
  - exists m. split; [apply in_app_iff; right; now left|lia].
Qed.

Lemma fold_mstep_covers next ex : forall acc,
  (forall x, mem_name next x = true -> mem_name acc x = true) ->
  forall t m, In (t, m) ex -> t <> [] -> has (fold_left (mstep next) ex acc) t m.
Proof.
  induction ex as [|e ex IH]; intros acc Hn t m Hi Nt; [destruct Hi|].
  cbn [fold_left]. destruct Hi as [Hi|Hi].
  - subst e. apply fold_mstep_has. now apply mstep_self.
  - apply IH; auto. intros x Hx. apply mstep_names. now apply Hn.
Qed.

Theorem merge_never_shrinks next ex t m :
  In (t, m) ex -> t <> [] -> has (merge true next ex) t m.
Proof.
  intros Hi Nt. unfold merge. destruct ex as [|e ex]; [destruct Hi|].
  change (has (fold_left (mstep next) (e :: ex) next) t m).
  apply fold_mstep_covers; auto.
Qed.

(* ---------- invariant ---------- *)
Definition op_inv (w : world) : Prop :=
  match w_op w with
  | Some (mkOp next _ (Some r)) =>
      r <= w_rev w /\
      (r = w_rev w -> match w_etcd w with
                      | Some ex => forall t m, In (t, m) ex -> t <> [] -> has next t m
                      | None => True
                      end)
  | _ => True
  end.

(* a CreatePartitions between its two parts names a non-empty topic *)
Definition pg_inv (pg : list (option (bytes * Z))) : Prop :=
  forall b t n, nth_error pg b = Some (Some (t, n)) -> t <> [].

Definition Inv (w : world) : Prop :=
  acks_hold w /\ (forall t n, In (t, n) (w_acks w) -> t <> []) /\ op_inv w /\ pg_inv (w_pgrow w).

Lemma nth_error_set_nth {A} (l : list A) i x j y :
  nth_error (set_nth l i x) j = Some y -> y = x \/ nth_error l j = Some y.
Proof.
  revert i j; induction l as [|a l IH]; intros i j H; cbn [set_nth] in H.
  - destruct i; now right.
  - destruct i as [|i]; destruct j as [|j]; cbn [nth_error] in *.
    + inversion H. now left.
    + now right.
    + now right.
    + now apply IH in H.
Qed.

Lemma pg_inv_repeat n : pg_inv (repeat None n).
Proof.
  intros b t k H. apply nth_error_In in H. apply repeat_spec in H. discriminate.
Qed.

Lemma inv_init brokers s0 : Inv (init brokers s0).
Proof.
  split; [reflexivity|]. split; [intros t n []|]. split; [exact I|]. apply pg_inv_repeat.
Qed.

(* a broker put: the operator's pending read (if any) is now stale *)
Lemma op_inv_put w b loc pg acks : op_inv w -> op_inv (put_local w b loc pg acks).
Proof.
  unfold op_inv, put_local. cbn [w_op w_rev w_etcd].
  destruct (w_op w) as [[next att [r|]]|]; auto. intros [H _]. split; [lia|]. intros E. lia.
Qed.

Lemma acks_nonempty_app (acks : list (bytes * Z)) t n :
  (forall t' n', In (t', n') acks -> t' <> []) -> t <> [] ->
  forall t' n', In (t', n') (acks ++ [(t, n)]) -> t' <> [].
Proof.
  intros H Nt t' n' Hi. apply in_app_iff in Hi as [Hi|[Hi|[]]]; [eauto|]. inversion Hi; subst. assumption.
Qed.

Lemma covers_nil_acks s : covers s [].
Proof. intros t n []. Qed.

Lemma grow_ok_nonempty s t n s' : grow_local s t n = (ROk, s') -> t <> [].
Proof.
  unfold grow_local. destruct t; [discriminate|]. discriminate.
Qed.

Lemma inv_step w e w' r :
  Inv w -> derivedb w e = true -> step true w e = Some (w', r) -> Inv w'.
Proof.
  intros [A [N [O G]]] D S. destruct e; cbn [step derivedb] in S, D.
  - (* BCreate *)
    destruct (nth_error (w_local w) b) as [loc|] eqn:L; [|discriminate].
    destruct (create_local loc t n) as [[| | |] loc'] eqn:C; inversion S; subst; try (repeat split; assumption).
    unfold freshb in D. rewrite L in D. unfold acks_hold in A.
    assert (covers loc (w_acks w)) as Cv.
    { destruct (w_etcd w) as [s|]; [apply snap_eqb_eq in D; subst; assumption|]. rewrite A. apply covers_nil_acks. }
    destruct (create_covers _ _ _ _ _ C Cv) as [Cv' Nt].
    split; [exact Cv'|]. split; [now apply acks_nonempty_app|]. split; [now apply op_inv_put|exact G].
  - (* BGrowLocal *)
    destruct (nth_error (w_local w) b) as [loc|]; [|discriminate].
    destruct (nth_error (w_pgrow w) b) as [[|]|]; try discriminate.
    destruct (grow_local loc t n) as [[| | |] loc'] eqn:GL; inversion S; subst; try (repeat split; assumption).
    split; [exact A|]. split; [exact N|]. split; [exact O|].
    cbn [w_pgrow]. intros b' t' n' H. apply nth_error_set_nth in H as [H|H].
    + inversion H; subst. eapply grow_ok_nonempty; eauto.
    + eapply G; eauto.
  - (* BGrowPersist *)
    destruct (nth_error (w_local w) b) as [loc|] eqn:L; [|discriminate].
    destruct (nth_error (w_pgrow w) b) as [[[t n]|]|] eqn:P; try discriminate.
    inversion S; subst. clear S. unfold acks_hold in A.
    assert (t <> []) as Nt by (eapply G; eauto).
    assert (pg_inv (set_nth (w_pgrow w) b None)) as G'.
    { intros b' t' n' H. apply nth_error_set_nth in H as [H|H]; [discriminate|eapply G; eauto]. }
    destruct (w_etcd w) as [s|] eqn:E.
    + destruct (grow_local s t n) as [[| | |] s'] eqn:GL; try discriminate.
      apply snap_eqb_eq in D. subst s'.
      destruct (grow_covers _ _ _ _ _ GL A) as [Cv' _].
      split; [exact Cv'|]. split; [now apply acks_nonempty_app|]. split; [now apply op_inv_put|exact G'].
    + apply hasb_has in D. rewrite A. cbn [app].
      split; [|split; [|split; [now apply op_inv_put|exact G']]].
      * unfold acks_hold, put_local. cbn [w_etcd w_acks]. intros t' k [Hi|[]]. inversion Hi; subst. exact D.
      * intros t' k [Hi|[]]. inversion Hi; subst. exact Nt.
  - (* BDelete *)
    destruct (nth_error (w_local w) b) as [loc|] eqn:L; [|discriminate].
    destruct (delete_local loc t) as [[| | |] loc'] eqn:C; inversion S; subst; try (repeat split; assumption).
    unfold freshb in D. rewrite L in D. unfold acks_hold in A.
    assert (covers loc (w_acks w)) as Cv.
    { destruct (w_etcd w) as [s|]; [apply snap_eqb_eq in D; subst; assumption|]. rewrite A. apply covers_nil_acks. }
    split; [exact (delete_covers _ _ _ _ C Cv)|]. split; [|split; [now apply op_inv_put|exact G]].
    intros t' k Hi. unfold drop_acks in Hi. apply filter_In in Hi as [Hi _]. eauto.
  - (* BRefresh *)
    destruct (nth_error (w_local w) b); [|discriminate].
    destruct (w_etcd w) eqn:E; inversion S; subst; try (repeat split; assumption).
    split; [|split; [exact N|split; [|exact G]]].
    + unfold acks_hold in *. cbn [w_etcd w_acks]. now rewrite E in A.
    + unfold op_inv in *. cbn [w_op w_rev w_etcd]. now rewrite E in O.
  - (* OStart *)
    destruct (w_op w); [discriminate|]. inversion S; subst.
    split; [exact A|]. split; [exact N|]. split; [exact I|exact G].
  - (* OGet *)
    destruct (w_op w) as [[next att [rd|]]|] eqn:Op; try discriminate.
    inversion S; subst. clear S.
    split; [exact A|]. split; [exact N|]. split; [|exact G].
    unfold op_inv. cbn [w_op w_rev w_etcd]. split; [lia|]. intros _.
    destruct (w_etcd w) as [ex|]; [|exact I].
    intros t m Hi Nt. now apply merge_never_shrinks.
  - (* OTxn *)
    destruct (w_op w) as [[next att [rd|]]|] eqn:Op; try discriminate.
    unfold op_inv in O. rewrite Op in O. destruct O as [Hle Hcov].
    destruct (rd =? w_rev w) eqn:R.
    + apply Z.eqb_eq in R. specialize (Hcov R). inversion S; subst. clear S.
      split; [|split; [exact N|split; [exact I|exact G]]].
      unfold acks_hold in *. cbn [w_etcd w_acks].
      destruct (w_etcd w) as [ex|].
      * intros t k Hi. destruct (A t k Hi) as [m [Hm Hk]].
        apply (has_mono next t m); [|assumption]. apply Hcov; eauto.
      * rewrite A. apply covers_nil_acks.
    + destruct (att + 1 <? 5); inversion S; subst;
        (split; [exact A|split; [exact N|split; [exact I|exact G]]]).
Qed.

Lemma inv_run evs : forall w w',
  Inv w -> derived_run true w evs = true -> run true w evs = Some w' -> Inv w'.
Proof.
  induction evs as [|e evs IH]; intros w w' I D R; cbn [run derived_run] in *.
  - inversion R; subst. exact I.
  - apply andb_true_iff in D as [D1 D2].
    destruct (step true w e) as [[w1 r]|] eqn:S; [|discriminate].
    apply (IH w1 w'); auto. eapply inv_step; eauto.
Qed.

(* C21 on the complement of the known findings' class: every broker put is derived *)
Theorem acked_persist_partial brokers s0 evs w :
  derived_run true (init brokers s0) evs = true ->
  run true (init brokers s0) evs = Some w -> acks_hold w.
Proof. intros D R. exact (proj1 (inv_run evs _ _ (inv_init brokers s0) D R)). Qed.

(* after a refresh a broker's Metadata() has every acknowledged topic the etcd snapshot has *)
Theorem refresh_agrees w b w' r s :
  acks_hold w -> w_etcd w = Some s -> step true w (BRefresh b) = Some (w', r) ->
  nth_error (w_local w') b = Some s /\ covers s (w_acks w').
Proof.
  intros A E S. cbn [step] in S. destruct (nth_error (w_local w) b) as [loc|] eqn:L; [|discriminate].
  rewrite E in S. inversion S; subst. cbn [w_local w_acks]. split.
  - clear - L. revert b L. induction (w_local w) as [|x l IH]; intros [|b] L; cbn in *; try discriminate; auto.
  - unfold acks_hold in A. now rewrite E in A.
Qed.

(* ---------- WatchDeliver: once every broker's refresh has run after the last write,
   every broker's copy is the etcd snapshot ---------- *)
Lemma nth_error_set_nth_eq {A} (l : list A) i x y :
  nth_error l i = Some y -> nth_error (set_nth l i x) i = Some x.
Proof.
  revert i; induction l as [|a l IH]; intros [|i] H; cbn in *; try discriminate; auto.
Qed.

Lemma nth_error_set_nth_neq {A} (l : list A) i j x : i <> j -> nth_error (set_nth l i x) j = nth_error l j.
Proof.
  revert i j; induction l as [|a l IH]; intros [|i] [|j] H; cbn; auto; try congruence.
Qed.

Lemma set_nth_length {A} (l : list A) i x : length (set_nth l i x) = length l.
Proof. revert i; induction l as [|a l IH]; intros [|i]; cbn; auto. Qed.

Lemma refreshes_run bs : forall w s,
  w_etcd w = Some s -> (forall b, In b bs -> (b < length (w_local w))%nat) ->
  exists w', run true w (map BRefresh bs) = Some w' /\
    w_etcd w' = Some s /\ w_acks w' = w_acks w /\ length (w_local w') = length (w_local w) /\
    (forall b loc, nth_error (w_local w') b = Some loc ->
        (In b bs -> loc = s) /\ (~ In b bs -> nth_error (w_local w) b = Some loc)).
Proof.
  induction bs as [|b bs IH]; intros w s E Hb; cbn [map run].
  - exists w. repeat split; auto. intros [].
  - cbn [step]. destruct (nth_error (w_local w) b) as [lb|] eqn:L.
    2:{ apply nth_error_None in L. specialize (Hb b (or_introl eq_refl)). lia. }
    rewrite E.
    set (w1 := mkWorld (Some s) (w_rev w) (set_nth (w_local w) b s) (w_pgrow w) (w_op w) (w_acks w)).
    destruct (IH w1 s) as [w' [R [E' [A' [Len H]]]]].
    + reflexivity.
    + intros b' Hi. cbn [w1 w_local]. rewrite set_nth_length. apply Hb. now right.
    + exists w'. split; [exact R|]. split; [exact E'|]. split; [exact A'|].
      split; [rewrite Len; cbn [w1 w_local]; apply set_nth_length|].
      intros b' loc Hn. destruct (H b' loc Hn) as [H1 H2]. split.
      * intros [->|Hi]; [|now apply H1].
        destruct (in_dec Nat.eq_dec b' bs) as [i|n]; [now apply H1|].
        specialize (H2 n). cbn [w1 w_local] in H2.
        rewrite (nth_error_set_nth_eq _ _ _ _ L) in H2. congruence.
      * intros Hn'. assert (b <> b') by (intros ->; apply Hn'; now left).
        assert (~ In b' bs) as Hn2 by (intros Hi; apply Hn'; now right).
        specialize (H2 Hn2). cbn [w1 w_local] in H2. now rewrite nth_error_set_nth_neq in H2.
Qed.

Theorem watch_deliver_quiesces w s :
  acks_hold w -> w_etcd w = Some s ->
  exists w', run true w (deliver_all (length (w_local w))) = Some w' /\
    quiesced w' /\ w_etcd w' = Some s /\
    (forall b loc, nth_error (w_local w') b = Some loc -> covers loc (w_acks w')).
Proof.
  intros A E. destruct (refreshes_run (seq 0 (length (w_local w))) w s E) as [w' [R [E' [A' [Len H]]]]].
  - intros b Hi. apply in_seq in Hi. lia.
  - exists w'. split; [exact R|].
    assert (forall b loc, nth_error (w_local w') b = Some loc -> loc = s) as Q.
    { intros b loc Hn. apply (H b loc Hn). apply in_seq.
      assert (b < length (w_local w'))%nat by (apply nth_error_Some; congruence). lia. }
    split; [unfold quiesced; rewrite E'; exact Q|]. split; [exact E'|].
    intros b loc Hn. rewrite (Q b loc Hn), A'. unfold acks_hold in A. now rewrite E in A.
Qed.
