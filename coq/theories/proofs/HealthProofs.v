(* Proofs for C25: rating monotone in (average latency, error rate) for every
   threshold configuration; the monitor's samples/state after any history are exactly
   the in-window samples among the last MaxSamples; the handler gate. *)
From Coq Require Import Floats.
From Coq Require Import String.
From KS Require Import lib.Base lib.Strings model.Health model.Dispatch gen.DispatchTable.
Open Scope Z_scope.

(* ---------- float <= is transitive (needs the stdlib's specification axiom
   FloatAxioms.leb_spec, which relates the primitive to SpecFloat.SFleb) ---------- *)
Ltac pcmp :=
  repeat match goal with
  | H : context [Pos.compare_cont Eq ?a ?b] |- _ => change (Pos.compare_cont Eq a b) with (Pos.compare a b) in H
  | |- context [Pos.compare_cont Eq ?a ?b] => change (Pos.compare_cont Eq a b) with (Pos.compare a b)
  end;
  repeat match goal with
  | H : context [(?a ?= ?b)%positive] |- _ => destruct (Pos.compare_spec a b); cbn in H; try discriminate H
  | |- context [(?a ?= ?b)%positive] => destruct (Pos.compare_spec a b); cbn
  end.

Lemma SFleb_trans x y z : SFleb x y = true -> SFleb y z = true -> SFleb x z = true.
Proof.
  unfold SFleb, SFcompare.
  destruct x as [sx|sx| |sx mx ex], y as [sy|sy| |sy my ey], z as [sz|sz| |sz mz ez];
    try discriminate; try reflexivity;
    repeat match goal with s : bool |- _ => destruct s end; try discriminate; try reflexivity; cbn;
    repeat match goal with |- context [?a ?= ?b] => destruct (Z.compare_spec a b) end;
    cbn; try discriminate; try reflexivity; intros; subst; try lia; pcmp; subst; try reflexivity; try lia.
Qed.

Lemma fleb_trans x y z : PrimFloat.leb x y = true -> PrimFloat.leb y z = true -> PrimFloat.leb x z = true.
Proof. rewrite !leb_spec. apply SFleb_trans. Qed.

(* ---------- rating monotone ---------- *)
Theorem rate_monotone c avg avg' er er' :
  avg <= avg' -> PrimFloat.leb er er' = true ->
  rank (rate c avg er) <= rank (rate c avg' er').
Proof.
  intros Ha He. unfold rate.
  assert (L : forall t, (t <=? avg) = true -> (t <=? avg') = true) by (intros t H; apply Z.leb_le in H; apply Z.leb_le; lia).
  assert (F : forall t, PrimFloat.leb t er = true -> PrimFloat.leb t er' = true) by (intros t H; exact (fleb_trans _ _ _ H He)).
  destruct (h_lcrit c <=? avg) eqn:E1.
  - rewrite (L _ E1). cbn. lia.
  - destruct (PrimFloat.leb (h_ecrit c) er) eqn:E2.
    + rewrite (F _ E2). rewrite !orb_true_r. cbn. lia.
    + cbn [orb]. destruct (h_lwarn c <=? avg) eqn:E3.
      * rewrite (L _ E3). cbn [orb]. destruct (_ || _); cbn; lia.
      * destruct (PrimFloat.leb (h_ewarn c) er) eqn:E4.
        -- rewrite (F _ E4). rewrite !orb_true_r. destruct (_ || _); cbn; lia.
        -- cbn [orb]. destruct (_ || _); [cbn; lia|]. destruct (_ || _); cbn; lia.
Qed.

(* the rating looks at nothing but the two aggregates of the sample list *)
Lemma classify_aggregates c l l' :
  l <> [] -> l' <> [] -> avg_latency l = avg_latency l' -> error_rate l = error_rate l' ->
  classify c l = classify c l'.
Proof.
  intros H H' Ha He. destruct l; [congruence|]. destruct l'; [congruence|].
  unfold classify. now rewrite Ha, He.
Qed.

(* latency side at the sample level: same number of samples, larger latency sum
   (no int64 overflow), same error rate => not a better rating *)
Lemma wrap64_id z : -9223372036854775808 <= z < 9223372036854775808 -> wrap64 z = z.
Proof. intros H. unfold wrap64. rewrite Z.mod_small by lia. lia. Qed.

Definition lat_sum (l : list sample) : Z := fold_right (fun s a => s_lat s + a) 0 l.

Theorem latency_monotone c l l' :
  l <> [] -> length l = length l' ->
  0 <= lat_sum l <= lat_sum l' -> lat_sum l' < 9223372036854775808 ->
  PrimFloat.leb (error_rate l) (error_rate l') = true ->
  rank (classify c l) <= rank (classify c l').
Proof.
  intros Hne Hlen Hs Hb He.
  destruct l as [|s l]; [congruence|]. destruct l' as [|s' l']; [discriminate|].
  unfold classify. apply rate_monotone; [|exact He].
  unfold avg_latency, total_latency. fold (lat_sum (s :: l)). fold (lat_sum (s' :: l')).
  rewrite !wrap64_id by lia. unfold zlen. rewrite <- Hlen.
  assert (0 < Z.of_nat (length (s :: l))) by (cbn [length]; lia).
  rewrite !Z.quot_div_nonneg by lia. apply Z.div_le_mono; lia.
Qed.

(* ---------- window ---------- *)
Fixpoint sorted (l : list sample) : Prop :=
  match l with
  | [] => True
  | s :: l' => match l' with [] => True | s' :: _ => s_ts s <= s_ts s' end /\ sorted l'
  end.

(* number of leading samples that are not after the cutoff *)
Fixpoint cnt (c : Z) (l : list sample) : nat :=
  match l with
  | [] => O
  | s :: l' => if c <? s_ts s then O else S (cnt c l')
  end.

Lemma cnt_le c l : (cnt c l <= length l)%nat.
Proof. induction l as [|s l IH]; cbn; [lia|]. destruct (c <? s_ts s); lia. Qed.

Lemma drop_old_skipn c l : drop_old c l = skipn (cnt c l) l.
Proof. induction l as [|s l IH]; cbn; [reflexivity|]. destruct (c <? s_ts s); [reflexivity|exact IH]. Qed.

Lemma sorted_tail s l : sorted (s :: l) -> sorted l.
Proof. cbn. tauto. Qed.

Lemma sorted_head_le s l x : sorted (s :: l) -> In x l -> s_ts s <= s_ts x.
Proof.
  revert s; induction l as [|y l IH]; intros s Hs Hx; [destruct Hx|].
  destruct Hs as [Hle Hs]. destruct Hx as [->|Hx]; [exact Hle|].
  specialize (IH y Hs Hx). lia.
Qed.

Lemma cnt_after c s l : sorted (s :: l) -> c < s_ts s -> cnt c l = O.
Proof.
  intros Hs Hc. destruct l as [|y l]; [reflexivity|]. cbn.
  assert (s_ts s <= s_ts y) by (apply (sorted_head_le s (y :: l)); [exact Hs|now left]).
  destruct (c <? s_ts y) eqn:E; [reflexivity|]. apply Z.ltb_ge in E. lia.
Qed.

Lemma drop_old_skipn_sorted c l : forall k, sorted l ->
  drop_old c (skipn k l) = skipn (Nat.max k (cnt c l)) l.
Proof.
  induction l as [|s l IH]; intros k Hs.
  - rewrite !skipn_nil. reflexivity.
  - destruct k as [|k].
    + cbn [skipn Nat.max]. apply drop_old_skipn.
    + cbn [skipn]. rewrite (IH k (sorted_tail _ _ Hs)). cbn [cnt].
      destruct (c <? s_ts s) eqn:E.
      * apply Z.ltb_lt in E. rewrite (cnt_after c s l Hs E). rewrite !Nat.max_0_r. reflexivity.
      * cbn [Nat.max skipn]. reflexivity.
Qed.

Lemma sorted_skipn k l : sorted l -> sorted (skipn k l).
Proof.
  revert l; induction k as [|k IH]; intros l Hs; [exact Hs|].
  destruct l as [|s l]; [exact I|]. cbn [skipn]. apply IH. exact (sorted_tail _ _ Hs).
Qed.

Lemma drop_old_filter c l : sorted l -> drop_old c l = filter (fun s => c <? s_ts s) l.
Proof.
  induction l as [|s l IH]; intros Hs; [reflexivity|]. cbn [drop_old filter].
  destruct (c <? s_ts s) eqn:E.
  - f_equal. symmetry. apply Z.ltb_lt in E.
    assert (Hall : forall x, In x l -> (c <? s_ts x) = true).
    { intros x Hx. apply Z.ltb_lt. pose proof (sorted_head_le s l x Hs Hx). lia. }
    clear -Hall. induction l as [|y l IH]; [reflexivity|]. cbn [filter].
    rewrite (Hall y (or_introl eq_refl)). f_equal. apply IH. intros x Hx. apply Hall. now right.
  - apply IH. exact (sorted_tail _ _ Hs).
Qed.

Lemma sorted_snoc l s : sorted l -> (forall x, In x l -> s_ts x <= s_ts s) -> sorted (l ++ [s]).
Proof.
  induction l as [|y l IH]; intros Hs Hb; [cbn; tauto|].
  cbn [app]. split.
  - destruct l as [|z l]; cbn [app].
    + apply Hb. now left.
    + exact (proj1 Hs).
  - apply IH; [exact (sorted_tail _ _ Hs)|]. intros x Hx. apply Hb. now right.
Qed.

Lemma cnt_app_le c l s : (cnt c l <= cnt c (l ++ [s]))%nat.
Proof. induction l as [|y l IH]; cbn; [lia|]. destruct (c <? s_ts y); lia. Qed.

Lemma cnt_mono c c' l : c <= c' -> (cnt c l <= cnt c' l)%nat.
Proof.
  intros Hc. induction l as [|y l IH]; cbn; [lia|].
  destruct (c <? s_ts y) eqn:E; [lia|]. apply Z.ltb_ge in E.
  destruct (c' <? s_ts y) eqn:E'; [apply Z.ltb_lt in E'; lia|lia].
Qed.

Lemma skipn_skipn' {A} a b (l : list A) : skipn a (skipn b l) = skipn (b + a) l.
Proof.
  revert l; induction b as [|b IH]; intros l; [reflexivity|].
  destruct l as [|x l]; [now rewrite !skipn_nil|]. cbn [skipn Nat.add]. apply IH.
Qed.

Section Window.
  Variable c : hcfg.
  Hypothesis Hmax : 1 <= h_max c.

  Let mx := Z.to_nat (h_max c).

  (* the index form of the statement's sample set *)
  Definition widx (now : Z) (all : list sample) : nat :=
    Nat.max (length all - mx) (cnt (now - h_window c) all).

  Lemma last_n_skipn_snoc k all s : (k <= length all)%nat ->
    (if h_max c <? zlen (skipn k all ++ [s]) then last_n (h_max c) (skipn k all ++ [s]) else skipn k all ++ [s]) =
    skipn (Nat.max k (length (all ++ [s]) - mx)) (all ++ [s]).
  Proof.
    intros Hk.
    assert (E : skipn k all ++ [s] = skipn k (all ++ [s])).
    { rewrite skipn_app. replace (k - length all)%nat with O by lia. reflexivity. }
    rewrite E. unfold last_n, zlen. rewrite skipn_length, app_length. cbn [length]. fold mx.
    destruct (h_max c <? _) eqn:El.
    - apply Z.ltb_lt in El. rewrite skipn_skipn'. f_equal. unfold mx in *. lia.
    - apply Z.ltb_ge in El. f_equal. unfold mx in *. lia.
  Qed.

  (* invariant: the monitor holds exactly skipn (widx t all) all *)
  Lemma run_inv : forall evs m all t,
    sorted all -> (forall x, In x all -> s_ts x <= t) ->
    m_samples m = skipn (widx t all) all -> m_state m = classify c (m_samples m) ->
    times_ok t evs ->
    let m' := fold_left (hstep c) evs m in
    let all' := all ++ recorded evs in
    let t' := match rev evs with e :: _ => ev_time e | [] => t end in
    sorted all' /\ m_samples m' = skipn (widx t' all') all' /\ m_state m' = classify c (m_samples m').
  Proof.
    induction evs as [|e evs IH]; intros m all t Hs Hb Hm Hst Ht.
    - cbn. rewrite app_nil_r. auto.
    - destruct Ht as [Hte Ht]. cbn [fold_left].
      assert (Hk : (widx t all <= length all)%nat).
      { unfold widx. pose proof (cnt_le (t - h_window c) all). lia. }
      set (m1 := hstep c m e).
      assert (H1 : exists all1, all1 = all ++ recorded [e] /\ sorted all1 /\
                   (forall x, In x all1 -> s_ts x <= ev_time e) /\
                   m_samples m1 = skipn (widx (ev_time e) all1) all1 /\ m_state m1 = classify c (m_samples m1)).
      { destruct e as [now lat err | now]; cbn [ev_time] in *.
        - exists (all ++ [mkSample now lat err]). split; [reflexivity|].
          assert (Hs1 : sorted (all ++ [mkSample now lat err])).
          { apply sorted_snoc; [exact Hs|]. intros x Hx. cbn. specialize (Hb x Hx). lia. }
          split; [exact Hs1|]. split.
          { intros x Hx. apply in_app_iff in Hx as [Hx|[<-|[]]]; [specialize (Hb x Hx); lia|cbn; lia]. }
          unfold m1. cbn [hstep m_samples m_state]. split; [|reflexivity].
          rewrite Hm. rewrite (last_n_skipn_snoc _ _ _ Hk).
          rewrite (drop_old_skipn_sorted _ _ _ Hs1). f_equal. unfold widx.
          pose proof (cnt_app_le (t - h_window c) all (mkSample now lat err)).
          pose proof (cnt_mono (t - h_window c) (now - h_window c) (all ++ [mkSample now lat err])).
          rewrite app_length in *. cbn [length] in *. lia.
        - exists all. split; [cbn; now rewrite app_nil_r|]. split; [exact Hs|]. split.
          { intros x Hx. specialize (Hb x Hx). lia. }
          unfold m1. cbn [hstep m_samples m_state]. split; [|reflexivity].
          rewrite Hm. rewrite (drop_old_skipn_sorted _ _ _ Hs). f_equal. unfold widx.
          pose proof (cnt_mono (t - h_window c) (now - h_window c) all). lia. }
      destruct H1 as [all1 [Ea [Hs1 [Hb1 [Hm1 Hst1]]]]].
      specialize (IH m1 all1 (ev_time e) Hs1 Hb1 Hm1 Hst1 Ht). cbn zeta in IH.
      assert (Eall : all1 ++ recorded evs = all ++ recorded (e :: evs)).
      { rewrite Ea, <- app_assoc. f_equal. destruct e; reflexivity. }
      rewrite Eall in IH.
      assert (Et : match rev evs with e0 :: _ => ev_time e0 | [] => ev_time e end =
                   match rev (e :: evs) with e0 :: _ => ev_time e0 | [] => t end).
      { cbn [rev]. destruct (rev evs) as [|e0 r]; reflexivity. }
      rewrite Et in IH. exact IH.
  Qed.

  Lemma widx_in_window now all : sorted all ->
    skipn (widx now all) all = in_window c now all.
  Proof.
    intros Hs. unfold in_window, last_n. fold mx.
    rewrite <- (drop_old_filter _ _ (sorted_skipn _ _ Hs)).
    rewrite (drop_old_skipn_sorted _ _ _ Hs). reflexivity.
  Qed.

  (* After ANY history on a non-decreasing clock the monitor holds exactly the samples
     inside the window among the last MaxSamples recorded, and its state is the rating
     of exactly those samples. *)
  Theorem window_only evs :
    times_ok 0 evs ->
    let m := hrun c evs in
    m_samples m = in_window c (last_time evs) (recorded evs) /\
    m_state m = classify c (in_window c (last_time evs) (recorded evs)).
  Proof.
    intros Ht.
    pose proof (run_inv evs new_monitor [] 0 I (fun x H => match H with end)) as H.
    cbn [new_monitor m_samples m_state app] in H.
    specialize (H eq_refl eq_refl Ht). cbn zeta in H. destruct H as [Hs [Hm Hst]].
    unfold hrun. cbn zeta.
    assert (Et : match rev evs with e :: _ => ev_time e | [] => 0 end = last_time evs) by reflexivity.
    rewrite Et in Hm. rewrite (widx_in_window _ _ Hs) in Hm. split; [exact Hm|]. now rewrite Hst, Hm.
  Qed.

  (* two histories with the same in-window samples are rated the same *)
  Corollary window_only_eq evs evs' :
    times_ok 0 evs -> times_ok 0 evs' ->
    in_window c (last_time evs) (recorded evs) = in_window c (last_time evs') (recorded evs') ->
    m_state (hrun c evs) = m_state (hrun c evs').
  Proof.
    intros H H' E. destruct (window_only evs H) as [_ ->]. destruct (window_only evs' H') as [_ ->]. now rewrite E.
  Qed.
End Window.

(* ---------- gate ---------- *)
Lemma bp_code_nonzero s : bp_code s <> 0.
Proof. destruct s; cbn; lia. Qed.

Theorem produce_gate e :
  pe_gate e <> Healthy ->
  rejected (produce_partition e) /\
  (pe_allowed e = true -> pe_etcd e = true -> pe_lease e = LeaseOk ->
   produce_partition e = PReject (bp_code (pe_code e))).
Proof.
  intros Hg. unfold produce_partition, rejected.
  destruct (pe_allowed e); cbn [negb]; [|split; [exists 29; split; [reflexivity|lia]|discriminate]].
  destruct (pe_etcd e); cbn [negb]; [|split; [exists 7; split; [reflexivity|lia]|discriminate]].
  destruct (pe_lease e); try (split; [eexists; split; [reflexivity|lia]|discriminate]).
  destruct (pe_gate e) eqn:G; [congruence| |]; cbn;
    (split; [exists (bp_code (pe_code e)); split; [reflexivity|apply bp_code_nonzero]|reflexivity]).
Qed.

Theorem fetch_gate e :
  pe_gate e <> Healthy ->
  rejected (fetch_partition e) /\
  (pe_allowed e = true -> fetch_partition e = PReject (bp_code (pe_code e))).
Proof.
  intros Hg. unfold fetch_partition, rejected.
  destruct (pe_allowed e); cbn [negb]; [|split; [exists 29; split; [reflexivity|lia]|discriminate]].
  destruct (pe_gate e) eqn:G; [congruence| |];
    (split; [exists (bp_code (pe_code e)); split; [reflexivity|apply bp_code_nonzero]|reflexivity]).
Qed.

(* request level: every partition of every topic (lists: any shape) *)
Theorem gate_request ts :
  (forall t e, In t ts -> In e t -> pe_gate e <> Healthy) ->
  Forall (Forall rejected) (produce_request ts) /\ Forall (Forall rejected) (fetch_request ts).
Proof.
  intros H. unfold produce_request, fetch_request. split; apply Forall_map; apply Forall_forall; intros t Ht;
    apply Forall_map; apply Forall_forall; intros e He.
  - exact (proj1 (produce_gate e (H t e Ht He))).
  - exact (proj1 (fetch_gate e (H t e Ht He))).
Qed.

(* when the state is stable across the two reads the code is the state's own code *)
Lemma bp_code_values s : s <> Healthy -> bp_code s = match s with Degraded => 7 | _ => -1 end.
Proof. destruct s; reflexivity. Qed.

(* a healthy gate lets an authorised, leased partition through: the gate is not vacuous *)
Lemma gate_open e :
  pe_allowed e = true -> pe_etcd e = true -> pe_lease e = LeaseOk -> pe_gate e = Healthy ->
  produce_partition e = PProceed /\ fetch_partition e = PProceed.
Proof. intros A B C D. unfold produce_partition, fetch_partition. rewrite A, B, C, D. split; reflexivity. Qed.

(* the Produce and Fetch rows of the table regenerated from cmd/broker/main.go carry the
   guard order the gate model assumes: ACL -> etcd -> lease -> S3 health (produce) and
   ACL -> S3 health (fetch), every one a per-item `skip` guard inside the partition loop,
   before the partition log is touched. Guards whose verdict is only stored (`flag`) and the
   exact name of the log accessor are irrelevant to the gate, so this obligation (kept here,
   not in DispatchProofs) does not depend on the other dispatch cases or on other fixes. *)
Definition gate_row_ok (k : string) (expected : list (string * string)) : bool :=
  match find_row (codes k) dispatch_table with
  | Some (g, c) =>
      guards_eqb (filter (fun x => negb (bytes_eqb (snd x) (codes "flag"))) g)
                 (map (fun x => (codes (fst x), codes (snd x))) expected) &&
      (bytes_eqb c (codes "h.getPartitionLog") || bytes_eqb c (codes "h.partitionLog"))
  | None => false
  end.

Lemma gate_rows_in_source :
  gate_row_ok "Produce" [("acquirePartitionLeases", "pre"); ("allowTopic[topic.Topic]:ActionProduce", "skip"); ("etcdAvailable", "skip");
                         ("leaseErrors", "skip"); ("s3Health.State!=S3StateHealthy", "skip")]%string = true /\
  gate_row_ok "Fetch" [("resolved[topicName]", "pre"); ("allowTopic[topicName]:ActionFetch", "skip");
                       ("s3Health.State:S3StateDegraded|S3StateUnavailable", "skip")]%string = true.
Proof. vm_compute. split; reflexivity. Qed.
