(* Proofs about the copy loop of the point-in-time-restore model (C08): every segment
   object a successful (or failed) restore leaves under the target prefix is justified:
   it existed before, or it is a byte-identical copy of the source segment object with
   the same partition and base offset, or it is the segment build_plan rewrote from a
   source segment object of the same partition. *)
From KS Require Import lib.Base lib.PitrWire model.Pitr proofs.PitrProofs.
Open Scope Z_scope.

Section Copy.
Variable crc : bytes -> Z.

Definition justified (s0 : store) (T : Z) (k : key) (v : bytes) : Prop :=
  s_get s0 (seg_key 0 (k_part k) (k_base k)) = Some v \/
  exists base sb ib created a,
    s_get s0 (seg_key 0 (k_part k) base) = Some sb /\
    build_plan crc sb ib T created = Ok (Some a) /\ k_base k = a_base a /\ v = a_seg a.

Definition cinv (s0 : store) (T : Z) (w : world) : Prop :=
  (forall k, k_space k = 0 -> s_get (w_objs w) k = s_get s0 k) /\
  (forall k v, k_space k = 1 -> k_idx k = false -> s_get (w_objs w) k = Some v ->
               s_get s0 k = Some v \/ justified s0 T k v).

Lemma cinv_same s0 T w w' : w_objs w' = w_objs w -> cinv s0 T w -> cinv s0 T w'.
Proof. unfold cinv. intros ->. auto. Qed.

Lemma w_get_some w k v w1 : w_get w k None = (Ok v, w1) -> s_get (w_objs w) k = Some v /\ w_objs w1 = w_objs w.
Proof.
  unfold w_get. pose proof (tick_objs w) as [H1 _]. destruct (tick w) as [f w0]; cbn [snd] in H1.
  destruct f; [discriminate|]. destruct (s_get (w_objs w0) k) eqn:G; [|discriminate].
  intros H; inversion H; subst. rewrite <- H1. auto.
Qed.

Lemma w_put_cinv s0 T w k v :
  k_space k = 1 -> (k_idx k = false -> justified s0 T k v) -> cinv s0 T w -> cinv s0 T (snd (w_put w k v)).
Proof.
  intros Hk Hj [J1 J2]. unfold w_put. pose proof (tick_objs w) as [H1 _]. destruct (tick w) as [f w0]; cbn [snd] in H1.
  destruct f; cbn [snd].
  - apply (cinv_same s0 T w); [exact H1|split; assumption].
  - split; cbn [w_objs].
    + intros k' Hk'. rewrite s_get_put. destruct (key_eqb k' k) eqn:E.
      * apply key_eqb_eq in E; subst. lia.
      * rewrite H1. now apply J1.
    + intros k' v' Hk' Hi' G. rewrite s_get_put in G. destruct (key_eqb k' k) eqn:E.
      * apply key_eqb_eq in E; subst k'. injection G as <-. right. now apply Hj.
      * rewrite H1 in G. now apply J2.
Qed.

Lemma copy_loop_cinv s0 p lc T : forall segs w i copied n last ok w' copied' n' last',
  copy_loop crc w p segs i lc T copied n last = (ok, w', copied', n', last') ->
  cinv s0 T w -> cinv s0 T w'.
Proof.
  induction segs as [|g segs IH]; intros w i copied n last ok w' copied' n' last' H Hi; cbn [copy_loop] in H.
  - inversion H; subst; auto.
  - destruct (lc <? i)%nat; [inversion H; subst; auto|].
    destruct (w_get w (seg_key 0 p (g_base g)) None) as [r1 w1] eqn:G1.
    pose proof (w_get_same w (seg_key 0 p (g_base g)) None) as [A1 _]. rewrite G1 in A1. cbn [snd] in A1.
    destruct r1 as [sb|]; [|inversion H; subst; eapply cinv_same; eauto].
    apply w_get_some in G1 as [S1 _].
    destruct (w_get w1 (idx_key 0 p (g_base g)) None) as [r2 w2] eqn:G2.
    pose proof (w_get_same w1 (idx_key 0 p (g_base g)) None) as [B1 _]. rewrite G2 in B1. cbn [snd] in B1.
    assert (cinv s0 T w2) as Hi2 by (eapply cinv_same; [|exact Hi]; congruence).
    destruct r2 as [ib|]; [|inversion H; subst; auto].
    assert (s_get s0 (seg_key 0 p (g_base g)) = Some sb) as S0 by (destruct Hi as [J1 _]; rewrite <- J1; auto).
    destruct (if (i =? lc)%nat then build_plan crc sb ib T (g_created g)
              else Ok (Some (mkArt sb ib (g_base g) (g_last g)))) as [[a|]|] eqn:Pl;
      [|inversion H; subst; auto|inversion H; subst; auto].
    assert (justified s0 T (seg_key 1 p (a_base a)) (a_seg a)) as Hj.
    { destruct (i =? lc)%nat.
      - right. exists (g_base g), sb, ib, (g_created g), a. cbn [k_part k_base seg_key]. auto.
      - injection Pl as <-. left. cbn [k_part k_base seg_key a_base a_seg]. exact S0. }
    pose proof (w_put_cinv s0 T w2 (seg_key 1 p (a_base a)) (a_seg a) eq_refl (fun _ => Hj) Hi2) as C1.
    destruct (w_put w2 (seg_key 1 p (a_base a)) (a_seg a)) as [ok3 w3]; cbn [snd] in C1.
    destruct ok3; cbn [negb] in H; [|inversion H; subst; auto].
    pose proof (w_put_cinv s0 T w3 (idx_key 1 p (a_base a)) (a_idx a) eq_refl ltac:(cbn; discriminate) C1) as C2.
    destruct (w_put w3 (idx_key 1 p (a_base a)) (a_idx a)) as [ok4 w4]; cbn [snd] in C2.
    destruct ok4; cbn [negb] in H; [|inversion H; subst; auto].
    eapply IH; eauto.
Qed.

Lemma copy_parts_cinv s0 all T : forall parts w copied summ ok w' copied' summ',
  copy_parts crc w parts all T copied summ = (ok, w', copied', summ') ->
  cinv s0 T w -> cinv s0 T w'.
Proof.
  induction parts as [|p parts IH]; intros w copied summ ok w' copied' summ' H Hi; cbn [copy_parts] in H.
  - inversion H; subst; auto.
  - destruct (copy_loop crc w p _ 0 _ T copied 0 (-1)) as [[[[ok1 w1] c1] n1] l1] eqn:E.
    apply (copy_loop_cinv s0) in E; [|exact Hi].
    destruct ok1; [eapply IH; eauto|inversion H; subst; auto].
Qed.

(* every segment object under the target prefix after a successful restore existed
   before or is justified *)
Theorem restore_objects_justified : forall s0 faults T parts summ w',
  restore crc (mkW s0 faults false) T parts = (Ok summ, w') ->
  forall k v, k_space k = 1 -> k_idx k = false -> s_get (w_objs w') k = Some v ->
    s_get s0 k = Some v \/ justified s0 T k v.
Proof.
  intros s0 faults T parts summ w' H. unfold restore in H.
  set (w := mkW s0 faults false) in *.
  pose proof (w_list_same w 1) as [A1 _]. destruct (w_list w 1) as [r0 w0]; cbn [snd] in A1.
  destruct r0 as [existing|]; [|discriminate].
  destruct (existsb _ existing); [discriminate|].
  pose proof (w_list_same w0 0) as [B1 _]. destruct (w_list w0 0) as [r1 w1]; cbn [snd] in B1.
  destruct r1 as [objs|]; [|discriminate].
  pose proof (inspect_all_same objs w1) as [C1 _]. destruct (inspect_all w1 objs) as [r2 w2]; cbn [snd] in C1.
  destruct r2 as [all|]; [|discriminate].
  match type of H with context [copy_parts crc w2 ?ps ?sel T [] []] =>
    destruct (copy_parts crc w2 ps sel T [] []) as [[[ok w3] copied] summ0] eqn:E end.
  destruct ok; [|discriminate]. injection H as _ <-.
  apply (copy_parts_cinv s0) in E.
  - destruct E as [_ J2]. exact J2.
  - assert (w_objs w2 = s0) as Es by (rewrite C1, B1, A1; reflexivity).
    split; [intros k _; now rewrite Es|]. intros k v _ _ G. left. now rewrite Es in G.
Qed.

End Copy.
