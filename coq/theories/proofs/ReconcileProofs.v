(* Proofs about the reconcile IR (C42): a closure whose target reads are dominated is
   a fixed "write map" applied on top of the incoming object, hence idempotent and a
   function of the inputs only. *)
From KS Require Import model.Reconcile.
Open Scope string_scope.

Section Proofs.
Variable value : Type.
Variable inputs : string -> value.
Variable fe : Z -> list value -> list (option value) -> value.
Variable fc : Z -> list value -> list (option value) -> bool.
Variable fu : Z -> list value -> option value -> value.
Hypothesis fu_idem : forall i ins v, fu i ins (Some (fu i ins v)) = fu i ins v.

Notation obj := (obj value).
Notation run := (run value inputs fe fc).
Notation mutate := (mutate value inputs fe fc fu).
Notation eval := (eval value inputs fe).
Notation test := (test value inputs fc).

(* [s] overridden by the write map [w] *)
Definition over (s w : obj) : obj := fun q => match w q with Some v => Some v | None => s q end.

Definition known (k : list path) (w : obj) : Prop := forall q, In q k -> w q <> None.

Lemma mem_In q k : mem q k = true -> In q k.
Proof.
  unfold mem. rewrite existsb_exists. intros [x [H1 H2]]. apply String.eqb_eq in H2. now subst.
Qed.

Lemma reads_agree (rs : list path) k (st s w : obj) :
  subset rs k = true -> known k w -> (forall q, st q = over s w q) -> map st rs = map w rs.
Proof.
  intros Hs Hk Hst. unfold subset in Hs. rewrite forallb_forall in Hs.
  apply map_ext_in. intros q Hq. rewrite Hst. unfold over.
  specialize (Hk q (mem_In _ _ (Hs q Hq))). now destruct (w q).
Qed.

(* the central lemma: running on [s] overridden by [w] = overriding [s] by the run on [w] *)
Lemma run_over : forall p k k' (w : obj) (s st : obj),
  dom_ok k p = Some k' -> known k w -> (forall q, st q = over s w q) ->
  (forall q, run p st q = over s (run p w) q) /\ known k' (run p w).
Proof.
  induction p as [|a IHa b IHb|x e|c t IHt f IHf]; intros k k' w s st Hd Hk Hst; cbn in Hd.
  - inversion Hd; subst. split; [exact Hst|exact Hk].
  - destruct (dom_ok k a) as [k1|] eqn:Ea; [|discriminate].
    destruct (IHa _ _ _ _ _ Ea Hk Hst) as [H1 H2].
    cbn [Reconcile.run]. apply (IHb _ _ _ s _ Hd H2 H1).
  - destruct (subset (e_reads e) k) eqn:Es; [|discriminate]. inversion Hd; subst k'.
    assert (eval e st = eval e w) as Ev.
    { unfold Reconcile.eval. now rewrite (reads_agree _ _ _ _ _ Es Hk Hst). }
    split.
    + intros q. cbn [Reconcile.run]. unfold set, over. rewrite Ev.
      destruct (String.eqb q x); [reflexivity|]. rewrite Hst. reflexivity.
    + intros q [Hq|Hq]; cbn [Reconcile.run]; unfold set.
      * subst. now rewrite String.eqb_refl.
      * destruct (String.eqb q x); [discriminate|]. now apply Hk.
  - destruct (subset (e_reads c) k) eqn:Es; [|discriminate].
    destruct (dom_ok k t) as [kt|] eqn:Et; [|discriminate].
    destruct (dom_ok k f) as [kf|] eqn:Ef; [|discriminate]. inversion Hd; subst k'.
    assert (test c st = test c w) as Ev.
    { unfold Reconcile.test. now rewrite (reads_agree _ _ _ _ _ Es Hk Hst). }
    cbn [Reconcile.run]. rewrite Ev. destruct (test c w).
    + destruct (IHt _ _ _ _ _ Et Hk Hst) as [H1 H2]. split; [exact H1|].
      intros q Hq. (* paths known before the branch stay known: they are never removed *)
      clear - Hk Hq IHt Et. revert q Hq. 
      assert (forall p k k' (w : obj), dom_ok k p = Some k' -> known k w -> known k (run p w)) as Mono.
      { clear. induction p as [|a IHa b IHb|x e|c t IHt f IHf]; intros k k' w Hd Hk; cbn in Hd; cbn [Reconcile.run].
        - exact Hk.
        - destruct (dom_ok k a) as [k1|] eqn:Ea; [|discriminate].
          intros q Hq. 
          assert (known k (run a w)) as K1 by (eapply IHa; eauto).
          (* dom_ok from k1 ⊇ k: rerun monotonicity with the smaller set is not available,
             so use that run b never removes a binding *)
          clear - K1 Hq. revert q Hq.
          assert (forall p (o : obj) q, o q <> None -> run p o q <> None) as Keep.
          { clear. induction p as [|a IHa b IHb|x e|c t IHt f IHf]; intros o q Ho; cbn [Reconcile.run].
            - exact Ho.
            - apply IHb, IHa, Ho.
            - unfold set. destruct (String.eqb q x); [discriminate|exact Ho].
            - destruct (test c o); [apply IHt|apply IHf]; exact Ho. }
          intros q Hq. apply Keep, K1, Hq.
        - destruct (subset (e_reads e) k); [|discriminate].
          intros q Hq. unfold set. destruct (String.eqb q x); [discriminate|now apply Hk].
        - destruct (subset (e_reads c) k); [|discriminate].
          destruct (dom_ok k t) eqn:Et; [|discriminate]. destruct (dom_ok k f) eqn:Ef; [|discriminate].
          destruct (test c w); [eapply IHt|eapply IHf]; eauto. }
      eapply Mono; eauto.
    + destruct (IHf _ _ _ _ _ Ef Hk Hst) as [H1 H2]. split; [exact H1|].
      assert (forall p (o : obj) q, o q <> None -> run p o q <> None) as Keep.
      { clear. induction p as [|a IHa b IHb|x e|c t IHt f IHf]; intros o q Ho; cbn [Reconcile.run].
        - exact Ho.
        - apply IHb, IHa, Ho.
        - unfold set. destruct (String.eqb q x); [discriminate|exact Ho].
        - destruct (test c o); [apply IHt|apply IHf]; exact Ho. }
      intros q Hq. apply Keep, Hk, Hq.
Qed.

(* the write map of a body: what it assigns when started from the empty object *)
Definition wmap (p : prog) : obj := run p (empty value).

Lemma body_is_override p k' : dom_ok [] p = Some k' ->
  forall s q, run p s q = over s (wmap p) q.
Proof.
  intros Hd s q. eapply (run_over p [] k' (empty value) s s Hd).
  - intros x [].
  - intros x. reflexivity.
Qed.

(* paths never assigned are untouched *)
Lemma run_frame p : forall (o : obj) q, ~ In q (assigned p) -> run p o q = o q.
Proof.
  induction p as [|a IHa b IHb|x e|c t IHt f IHf]; intros o q Hn; cbn [Reconcile.run]; cbn in Hn.
  - reflexivity.
  - rewrite IHb, IHa; auto; intros H; apply Hn, in_or_app; auto.
  - unfold set. destruct (String.eqb q x) eqn:E; [|reflexivity]. apply String.eqb_eq in E. exfalso. apply Hn. left. now subst.
  - destruct (test c o); [apply IHt|apply IHf]; intros H; apply Hn, in_or_app; auto.
Qed.

Lemma In_mem q k : In q k -> mem q k = true.
Proof. intros H. unfold mem. rewrite existsb_exists. exists q. split; [assumption|apply String.eqb_refl]. Qed.

(* C42_idempotent: mutating twice = mutating once, on every object, pointwise *)
Theorem mutate_idempotent c : target_reads_dominated c = true ->
  forall o q, mutate c (mutate c o) q = mutate c o q.
Proof.
  unfold target_reads_dominated, Reconcile.mutate.
  destruct (dom_ok [] (c_body c)) as [k'|] eqn:Hd; [|discriminate].
  pose proof (body_is_override _ _ Hd) as B.
  destruct (c_upd c) as [[u e]|]; cbn [run_upd].
  - intros H o q. apply andb_true_iff in H as [Hu He].
    destruct (e_reads e); [|discriminate].
    assert (wmap (c_body c) u = None) as Wu.
    { unfold wmap. rewrite run_frame; [reflexivity|]. intros Hin. apply In_mem in Hin. rewrite Hin in Hu. discriminate. }
    unfold set. destruct (String.eqb q u) eqn:E.
    + f_equal. rewrite !B. unfold over at 1 3. rewrite Wu. rewrite String.eqb_refl.
      unfold over. rewrite Wu. apply fu_idem.
    + rewrite !B. unfold over. destruct (wmap (c_body c) q) eqn:Wq; [reflexivity|].
      rewrite E. rewrite B. unfold over. now rewrite Wq.
  - intros _ o q. rewrite !B. unfold over. destruct (wmap (c_body c) q) eqn:Wq; [reflexivity|].
    rewrite B. unfold over. now rewrite Wq.
Qed.

(* C42_depends_only_on_inputs: every path the body assigns on this input gets a value
   that does not depend on the object it started from *)
Theorem body_depends_only_on_inputs c : target_reads_dominated c = true ->
  forall o o' q, wmap (c_body c) q <> None ->
    run (c_body c) o q = run (c_body c) o' q /\ run (c_body c) o q = wmap (c_body c) q.
Proof.
  unfold target_reads_dominated.
  destruct (dom_ok [] (c_body c)) as [k'|] eqn:Hd; [|discriminate]. intros _ o o' q Hq.
  rewrite !(body_is_override _ _ Hd). unfold over. destruct (wmap (c_body c) q); [auto|contradiction].
Qed.

End Proofs.
