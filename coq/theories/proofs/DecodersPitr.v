(* C07, restore scanner: the contract of collectRecoverableBatches (model: pitr_collect)
   on segments of well-formed, header-consistent batches, for every cut-off. *)
From KS Require Import lib.Base lib.Varint lib.Outcome lib.Kafka model.Decoders
  proofs.DecodersProofs proofs.DecodersRoundtrip.
From Coq Require Import ZifyBool.
Open Scope Z_scope.

(* ---------- spec side ---------- *)
Definition rec_ts (fts : Z) (r : krecord) : Z := fts + kr_ts_delta r.

(* the records before the first one whose timestamp is > cutoff *)
Fixpoint kept_prefix (fts cutoff : Z) (rs : list krecord) : list krecord :=
  match rs with
  | [] => []
  | r :: rs' => if cutoff <? rec_ts fts r then [] else r :: kept_prefix fts cutoff rs'
  end.

Definition max_ts_of (fts : Z) (rs : list krecord) : Z :=
  fold_left (fun m r => Z.max m (rec_ts fts r)) rs fts.
Definition last_delta_of (rs : list krecord) : Z := kr_off_delta (last rs (mkKRec 0 0 0 None None [])).

(* the batch restricted to a prefix of its records, header rewritten accordingly *)
Definition cut_batch (b : kbatch) (p : list krecord) : kbatch :=
  mkKBatch (kb_base b) (kb_leader_epoch b) (kb_attrs b) (last_delta_of p) (kb_first_ts b)
           (max_ts_of (kb_first_ts b) p) (kb_pid b) (kb_pepoch b) (kb_seq b) p.

(* header-consistent: record 0 sits at firstTimestamp, maxTimestamp is the true maximum,
   lastOffsetDelta and the offset deltas are non-negative *)
Definition pitr_wf (b : kbatch) : Prop :=
  batch_wf b /\ 0 <= kb_last_delta b < 2 ^ 31 /\
  (exists r0 rs, kb_records b = r0 :: rs /\ kr_ts_delta r0 = 0) /\
  kb_max_ts b = max_ts_of (kb_first_ts b) (kb_records b) /\
  Forall (fun r => 0 <= kr_off_delta r) (kb_records b).

(* what truncateRecordBatchToTimestamp must return for one batch: (kept batch, done) *)
Definition trunc_spec (b : kbatch) (cutoff : Z) : option kbatch * bool :=
  if kb_max_ts b <=? cutoff then (Some b, false)
  else match kept_prefix (kb_first_ts b) cutoff (kb_records b) with
       | [] => (None, true)
       | p => (Some (cut_batch b p), true)
       end.

Fixpoint collect_spec (bs : list kbatch) (cutoff : Z) : list kbatch :=
  match bs with
  | [] => []
  | b :: bs' =>
      let '(o, done) := trunc_spec b cutoff in
      (match o with Some x => [x] | None => [] end) ++ (if done then [] else collect_spec bs' cutoff)
  end.

(* ---------- the record loop ---------- *)
Definition summary (fts : Z) (l : list krecord) : scan_st :=
  mkScan (zlen l) (zlen (enc_records l)) (match l with [] => 0 | _ => last_delta_of l end) (max_ts_of fts l).

Lemma enc_records_app a b : enc_records (a ++ b) = enc_records a ++ enc_records b.
Proof. unfold enc_records. rewrite map_app, concat_app. reflexivity. Qed.

Lemma max_ts_snoc fts l r : max_ts_of fts (l ++ [r]) = Z.max (max_ts_of fts l) (rec_ts fts r).
Proof. unfold max_ts_of. rewrite fold_left_app. reflexivity. Qed.

Lemma last_delta_snoc l r : last_delta_of (l ++ [r]) = kr_off_delta r.
Proof. unfold last_delta_of. rewrite last_last. reflexivity. Qed.

Lemma summary_snoc fts l r total rest :
  total = zlen (enc_records (l ++ r :: rest)) ->
  mkScan (s_kept (summary fts l) + 1) (total - zlen (enc_records rest)) (kr_off_delta r)
         (Z.max (s_max_ts (summary fts l)) (rec_ts fts r)) = summary fts (l ++ [r]).
Proof.
  intros ->. unfold summary. cbn [s_kept s_max_ts].
  rewrite max_ts_snoc, last_delta_snoc.
  replace (l ++ r :: rest) with ((l ++ [r]) ++ rest) by (rewrite <- app_assoc; reflexivity).
  rewrite (enc_records_app (l ++ [r]) rest), !zlen_app, zlen_cons, zlen_nil.
  destruct (l ++ [r]) eqn:E; [destruct l; discriminate|]. f_equal; lia.
Qed.

(* the for-loop of truncateRecordBatchToTimestamp, started after [done] records *)
Lemma trunc_loop_spec fts cutoff total : forall todo done fuel,
  Forall record_wf todo -> Forall (fun r => in_signed 64 (rec_ts fts r)) todo ->
  total = zlen (enc_records (done ++ todo)) -> (length todo <= fuel)%nat ->
  out (trunc_loop fuel (zlen todo) fts cutoff total (enc_records todo) (summary fts done))
  = Ok (summary fts (done ++ kept_prefix fts cutoff todo)).
Proof.
  induction todo as [|r todo IH]; intros done fuel Hwf Hr Ht Hf.
  - cbn [kept_prefix]. rewrite app_nil_r. destruct fuel; reflexivity.
  - destruct fuel as [|f]; [cbn [length] in Hf; lia|]. cbn [trunc_loop]. rewrite zlen_cons.
    pose proof (zlen_nonneg todo) as Hnn. destruct (1 + zlen todo <=? 0) eqn:E; [lia|].
    inversion Hwf as [|? ? Hw Hwf']; subst. inversion Hr as [|? ? Hi Hr']; subst.
    unfold enc_records at 1. cbn [map concat]. fold (enc_records todo).
    rewrite (out_bind_ok _ _ _ (scan_record_rt r (enc_records todo) Hw)).
    cbn [kept_prefix]. fold (rec_ts fts r). rewrite to_signed_wrap by (exact Hi || lia).
    destruct (cutoff <? rec_ts fts r) eqn:E2.
    + rewrite app_nil_r. reflexivity.
    + replace (1 + zlen todo - 1) with (zlen todo) by lia.
      rewrite (summary_snoc fts done r _ todo eq_refl).
      replace (done ++ r :: kept_prefix fts cutoff todo) with ((done ++ [r]) ++ kept_prefix fts cutoff todo)
        by (rewrite <- app_assoc; reflexivity).
      apply IH; try assumption.
      * rewrite <- app_assoc. reflexivity.
      * cbn [length] in Hf. lia.
Qed.

Lemma kept_prefix_split fts cutoff rs : exists q, rs = kept_prefix fts cutoff rs ++ q.
Proof.
  induction rs as [|r rs [q IH]]; [exists []; reflexivity|]. cbn [kept_prefix].
  destruct (cutoff <? rec_ts fts r); [exists (r :: rs); reflexivity|]. exists q. cbn [app]. congruence.
Qed.

(* ---------- header surgery on the 61-byte form ---------- *)
Lemma enc_batch_hdr crc b :
  enc_batch crc b =
  hdr61 (kb_base b) (9 + zlen (enc_batch_tail b)) (kb_leader_epoch b) (crc (enc_batch_tail b)) (kb_attrs b)
        (kb_last_delta b) (kb_first_ts b) (kb_max_ts b) (kb_pid b) (kb_pepoch b) (kb_seq b)
        (zlen (kb_records b)) (enc_records (kb_records b)).
Proof. pose proof (enc_batch_eq crc b []) as H. rewrite !app_nil_r in H. exact H. Qed.

Lemma hdr61_lod base len ple crcv attrs lod fts mts pid pep seq cnt rest :
  be_u (slice (hdr61 base len ple crcv attrs lod fts mts pid pep seq cnt rest) 23 27) = lod mod 256 ^ Z.of_nat 4.
Proof.
  unfold hdr61; cbn [be_put app]; unfold slice; cbn [Nat.sub skipn firstn]. exact (be_u_put 4 lod).
Qed.

Lemma take_hdr61 base len ple crcv attrs lod fts mts pid pep seq cnt rest k : 0 <= k ->
  take (61 + k) (hdr61 base len ple crcv attrs lod fts mts pid pep seq cnt rest)
  = hdr61 base len ple crcv attrs lod fts mts pid pep seq cnt (take k rest).
Proof.
  intros Hk. unfold take. rewrite Z2Nat.inj_add by lia. change (Z.to_nat 61) with 61%nat.
  unfold hdr61. cbn [be_put app Nat.add firstn]. reflexivity.
Qed.

Lemma patch_hdr61 base len ple crcv attrs lod fts mts pid pep seq cnt rest len' lod' mts' cnt' crc' :
  patch (patch (patch (patch (patch (hdr61 base len ple crcv attrs lod fts mts pid pep seq cnt rest)
     8 (be_put 4 len')) 23 (be_put 4 lod')) 35 (be_put 8 mts')) 57 (be_put 4 cnt')) 17 (be_put 4 crc')
  = hdr61 base len' ple crc' attrs lod' fts mts' pid pep seq cnt' rest.
Proof. unfold hdr61, patch. cbn [be_put app length Nat.add firstn skipn]. reflexivity. Qed.

Lemma patch4_tail base len ple crcv attrs lod fts mts pid pep seq cnt rest len' lod' mts' cnt' :
  skipn 21 (patch (patch (patch (patch (hdr61 base len ple crcv attrs lod fts mts pid pep seq cnt rest)
     8 (be_put 4 len')) 23 (be_put 4 lod')) 35 (be_put 8 mts')) 57 (be_put 4 cnt'))
  = be_put 2 attrs ++ be_put 4 lod' ++ be_put 8 fts ++ be_put 8 mts' ++ be_put 8 pid ++ be_put 2 pep ++
    be_put 4 seq ++ be_put 4 cnt' ++ rest.
Proof. unfold hdr61, patch. cbn [be_put app length Nat.add firstn skipn]. reflexivity. Qed.

(* ---------- facts about the kept prefix ---------- *)
Lemma kept_all_le fts cutoff rs : kept_prefix fts cutoff rs = rs -> Forall (fun r => rec_ts fts r <= cutoff) rs.
Proof.
  induction rs as [|r rs IH]; intros H; [constructor|]. cbn [kept_prefix] in H.
  destruct (cutoff <? rec_ts fts r) eqn:E; [discriminate|]. inversion H as [H1]. rewrite H1.
  constructor; [lia|apply IH; exact H1].
Qed.

Lemma max_ts_le fts c rs : Forall (fun r => rec_ts fts r <= c) rs -> forall m, m <= c ->
  fold_left (fun m r => Z.max m (rec_ts fts r)) rs m <= c.
Proof. induction 1 as [|r rs Hr _ IH]; intros m Hm; cbn [fold_left]; [exact Hm|]. apply IH. lia. Qed.

Lemma max_ts_ge fts rs : forall m, m <= fold_left (fun m r => Z.max m (rec_ts fts r)) rs m.
Proof. induction rs as [|r rs IH]; intros m; cbn [fold_left]; [lia|]. specialize (IH (Z.max m (rec_ts fts r))). lia. Qed.

Lemma all_le_kept fts cutoff rs : Forall (fun r => rec_ts fts r <= cutoff) rs -> kept_prefix fts cutoff rs = rs.
Proof.
  induction 1 as [|r rs Hr _ IH]; [reflexivity|]. cbn [kept_prefix].
  destruct (cutoff <? rec_ts fts r) eqn:E; [lia|]. rewrite IH. reflexivity.
Qed.

Lemma max_ts_all_le_gen fts rs : forall m,
  Forall (fun r => rec_ts fts r <= fold_left (fun m r => Z.max m (rec_ts fts r)) rs m) rs.
Proof.
  induction rs as [|r rs IH]; intros m; [constructor|]. cbn [fold_left]. constructor.
  - pose proof (max_ts_ge fts rs (Z.max m (rec_ts fts r))). lia.
  - apply IH.
Qed.
Lemma max_ts_all_le fts rs : Forall (fun r => rec_ts fts r <= max_ts_of fts rs) rs.
Proof. apply max_ts_all_le_gen. Qed.

Lemma kept_prefix_in fts cutoff rs r : In r (kept_prefix fts cutoff rs) -> In r rs.
Proof.
  destruct (kept_prefix_split fts cutoff rs) as [q Hq]. intros H. rewrite Hq. apply in_or_app. left. exact H.
Qed.

Lemma last_in (l : list krecord) d : l <> [] -> In (last l d) l.
Proof.
  induction l as [|x l IH]; [congruence|]. intros _. destruct l as [|y l]; [left; reflexivity|].
  right. apply IH. discriminate.
Qed.

Lemma nonempty_len {A} (l : list A) : l <> [] -> 1 <= zlen l.
Proof. destruct l as [|x l']; [congruence|]. intros _. rewrite zlen_cons. pose proof (zlen_nonneg l'). lia. Qed.

(* ---------- one batch ---------- *)
Definition enc_opt (crc : bytes -> Z) (o : option kbatch) : option bytes :=
  match o with Some b => Some (enc_batch crc b) | None => None end.

Lemma pow31_alloc z : z < 2 ^ 31 -> z * 1 <= max_alloc.
Proof. unfold max_alloc. change (2 ^ 48) with (2 ^ 31 * 2 ^ 17). lia. Qed.

Lemma new_record_batch_ok data sz :
  0 <= to_signed 32 (be_u (slice data 23 27)) -> 0 <= sz < 2 ^ 31 ->
  out (new_record_batch data sz) = Ok data.
Proof.
  intros H Hs. unfold new_record_batch. destruct (_ <? 0) eqn:E; [lia|].
  rewrite make_ok by (try apply pow31_alloc; lia). reflexivity.
Qed.

Lemma pitr_truncate_spec crc b cutoff : pitr_wf b ->
  out (pitr_truncate crc (enc_batch crc b) cutoff)
  = Ok (enc_opt crc (fst (trunc_spec b cutoff)), snd (trunc_spec b cutoff)).
Proof.
  intros (Hwf & Hlod & (r0 & rs0 & Hrs & Hd0) & Hmax & Hoff).
  pose proof Hwf as (Hbase & Hfts & Hmts & Hattr & Hcomp & Hn & Hsz & Hrw & Hr).
  assert (Hrts : Forall (fun r => in_signed 64 (rec_ts (kb_first_ts b) r)) (kb_records b)).
  { eapply Forall_impl; [|exact Hr]. intros r [_ H]. exact H. }
  pose proof (enc_records_len (kb_records b)) as Hrl.
  pose proof (zlen_nonneg (enc_records (kb_records b))) as Hnn.
  pose proof (zlen_enc_batch crc b) as Hzl.
  assert (Hlodf : to_signed 32 (be_u (slice (enc_batch crc b) 23 27)) = kb_last_delta b).
  { rewrite enc_batch_hdr, hdr61_lod. change (256 ^ Z.of_nat 4) with (2 ^ 32).
    fold (wrap_s 32 (kb_last_delta b)). apply to_signed_wrap; [lia|]. unfold in_signed. change (32 - 1) with 31. lia. }
  destruct (hdr61_fields (kb_base b) (9 + zlen (enc_batch_tail b)) (kb_leader_epoch b) (crc (enc_batch_tail b))
              (kb_attrs b) (kb_last_delta b) (kb_first_ts b) (kb_max_ts b) (kb_pid b) (kb_pepoch b) (kb_seq b)
              (zlen (kb_records b)) (enc_records (kb_records b))) as (F1 & F2 & F3 & F4 & F5 & F6 & F7 & F8).
  cbv zeta in *. rewrite <- enc_batch_hdr in *.
  unfold pitr_truncate, trunc_spec. rewrite F8, F3, F4, F5, F6, F7.
  change (256 ^ Z.of_nat 8) with (2 ^ 64). change (256 ^ Z.of_nat 4) with (2 ^ 32). change (256 ^ Z.of_nat 2) with (2 ^ 16).
  destruct (61 + zlen (enc_records (kb_records b)) <? 61) eqn:E0; [lia|].
  fold (wrap_s 64 (kb_first_ts b)). fold (wrap_s 64 (kb_max_ts b)). fold (wrap_s 32 (zlen (kb_records b))).
  rewrite !to_signed_wrap by (assumption || lia || (unfold in_signed; change (32 - 1) with 31; lia)).
  destruct (kb_max_ts b <=? cutoff) eqn:Em.
  { (* whole batch, scan continues *)
    rewrite (out_bind_ok _ _ (enc_batch crc b)); [reflexivity|].
    apply new_record_batch_ok; [rewrite Hlodf; lia|lia]. }
  set (fts := kb_first_ts b) in *. set (rs := kb_records b) in *.
  assert (Hr0 : rec_ts fts r0 = fts) by (unfold rec_ts; lia).
  destruct (cutoff <? fts) eqn:Ef.
  { (* the batch starts after the cut-off *)
    rewrite Hrs. cbn [kept_prefix]. rewrite Hr0, Ef. reflexivity. }
  rewrite (Z.mod_small (kb_attrs b)) by lia. rewrite Hcomp. cbn [Z.eqb negb].
  (* the record loop *)
  pose proof (trunc_loop_spec fts cutoff (zlen (enc_records rs)) rs [] (S (length (enc_records rs)))
                Hrw Hrts eq_refl ltac:(unfold zlen in Hrl; lia)) as HL.
  change (summary fts []) with (mkScan 0 0 0 fts) in HL. cbn [app] in HL.
  rewrite (out_bind_ok _ _ _ HL).
  remember (kept_prefix fts cutoff rs) as p eqn:Hp.
  destruct (kept_prefix_split fts cutoff rs) as [q Hq]. rewrite <- Hp in Hq.
  assert (Hpne : p <> []).
  { rewrite Hp, Hrs. cbn [kept_prefix]. rewrite Hr0, Ef. discriminate. }
  pose proof (f_equal (@zlen krecord) Hq) as Hzq. rewrite zlen_app in Hzq.
  pose proof (f_equal enc_records Hq) as Heq. rewrite enc_records_app in Heq.
  assert (Hqne : q <> []).
  { intros ->. rewrite app_nil_r in Hq. rewrite Hp in Hq. symmetry in Hq. apply kept_all_le in Hq.
    pose proof (max_ts_le fts cutoff rs Hq fts ltac:(lia)) as Hle. unfold max_ts_of in Hmax. lia. }
  assert (Hzp : 0 < zlen p < zlen rs).
  { pose proof (nonempty_len p Hpne). pose proof (nonempty_len q Hqne). lia. }
  cbn [s_kept s_kept_bytes s_lod s_max_ts summary].
  destruct (zlen p =? 0) eqn:E1; [lia|]. destruct (zlen p =? zlen rs) eqn:E2; [lia|].
  (* the rewritten batch *)
  assert (Hpin : forall r, In r p -> In r rs) by (intros r; rewrite Hp; apply kept_prefix_in).
  assert (Hlastin : In (last p (mkKRec 0 0 0 None None [])) rs) by (apply Hpin, last_in, Hpne).
  assert (Hlod' : 0 <= last_delta_of p < 2 ^ 31).
  { unfold last_delta_of. rewrite Forall_forall in Hoff, Hrw. specialize (Hoff _ Hlastin).
    destruct (Hrw _ Hlastin) as (_ & _ & Hod & _). unfold in_signed in Hod. change (32 - 1) with 31 in Hod. lia. }
  assert (Hep : zlen (enc_records p) <= zlen (enc_records rs)).
  { rewrite Heq, zlen_app. pose proof (zlen_nonneg (enc_records q)). lia. }
  pose proof (zlen_nonneg (enc_records p)) as Hnp.
  assert (Ht0 : take (61 + zlen (enc_records p)) (enc_batch crc b)
                = hdr61 (kb_base b) (9 + zlen (enc_batch_tail b)) (kb_leader_epoch b) (crc (enc_batch_tail b)) (kb_attrs b)
                        (kb_last_delta b) fts (kb_max_ts b) (kb_pid b) (kb_pepoch b) (kb_seq b) (zlen rs) (enc_records p)).
  { rewrite enc_batch_hdr, take_hdr61 by lia. f_equal. fold rs. rewrite Heq. apply take_app. }
  rewrite Ht0. rewrite hdr61_len.
  rewrite make_ok by (try apply pow31_alloc; lia). rewrite out_bind_ok with (a := tt) by reflexivity.
  rewrite patch4_tail, patch_hdr61.
  destruct p as [|p0 p'] eqn:Ep; [congruence|]. rewrite <- Ep in *.
  assert (Hres : hdr61 (kb_base b) (61 + zlen (enc_records p) - 12) (kb_leader_epoch b)
                   (crc (be_put 2 (kb_attrs b) ++ be_put 4 (last_delta_of p) ++ be_put 8 fts ++ be_put 8 (max_ts_of fts p) ++
                         be_put 8 (kb_pid b) ++ be_put 2 (kb_pepoch b) ++ be_put 4 (kb_seq b) ++ be_put 4 (zlen p) ++ enc_records p))
                   (kb_attrs b) (last_delta_of p) fts (max_ts_of fts p) (kb_pid b) (kb_pepoch b) (kb_seq b) (zlen p) (enc_records p)
                 = enc_batch crc (cut_batch b p)).
  { rewrite enc_batch_hdr. unfold cut_batch. cbn [kb_base kb_leader_epoch kb_attrs kb_last_delta kb_first_ts kb_max_ts kb_pid kb_pepoch kb_seq kb_records].
    rewrite zlen_batch_tail. cbn [kb_records]. unfold enc_batch_tail.
    cbn [kb_base kb_leader_epoch kb_attrs kb_last_delta kb_first_ts kb_max_ts kb_pid kb_pepoch kb_seq kb_records].
    f_equal. lia. }
  rewrite Hres.
  rewrite (out_bind_ok _ _ (enc_batch crc (cut_batch b p))); [rewrite Ep; reflexivity|].
  apply new_record_batch_ok; [|lia].
  rewrite enc_batch_hdr, hdr61_lod. change (256 ^ Z.of_nat 4) with (2 ^ 32). cbn [cut_batch kb_last_delta].
  fold (wrap_s 32 (last_delta_of p)). rewrite to_signed_wrap; [lia|lia|]. unfold in_signed. change (32 - 1) with 31. lia.
Qed.

(* ---------- the segment ---------- *)
Lemma pitr_loop_spec crc cutoff bs : forall fuel, Forall pitr_wf bs -> (length bs < fuel)%nat ->
  out (pitr_loop crc fuel (enc_batches crc bs) cutoff) = Ok (map (enc_batch crc) (collect_spec bs cutoff)).
Proof.
  induction bs as [|b bs IH]; intros fuel Hwf Hf.
  - destruct fuel; [lia|]. reflexivity.
  - destruct fuel as [|f]; [lia|]. inversion Hwf as [|? ? Hb Hwf']; subst.
    pose proof Hb as (Hbw & _). pose proof Hbw as (Hbase & Hfts & Hmts & Hattr & Hcomp & Hn & Hsz & Hrw & Hr).
    unfold enc_batches. cbn [map concat]. fold (enc_batches crc bs). cbn [pitr_loop].
    pose proof (zlen_enc_batch crc b) as Hlen. pose proof (zlen_batch_tail b) as Htl.
    pose proof (zlen_nonneg (enc_records (kb_records b))) as Hnn.
    pose proof (zlen_nonneg (enc_batches crc bs)) as Hnn2.
    assert (Hbl : be_u (slice (enc_batch crc b ++ enc_batches crc bs) 8 12) = 9 + zlen (enc_batch_tail b)).
    { rewrite enc_batch_eq.
      destruct (hdr61_fields (kb_base b) (9 + zlen (enc_batch_tail b)) (kb_leader_epoch b) (crc (enc_batch_tail b))
                  (kb_attrs b) (kb_last_delta b) (kb_first_ts b) (kb_max_ts b) (kb_pid b) (kb_pepoch b) (kb_seq b)
                  (zlen (kb_records b)) (enc_records (kb_records b) ++ enc_batches crc bs)) as (_ & F2 & _).
      cbv zeta in F2. rewrite F2. change (256 ^ Z.of_nat 4) with (2 ^ 32).
      apply Z.mod_small. change (2 ^ 32) with (2 * 2 ^ 31). lia. }
    rewrite Hbl, zlen_app.
    destruct (zlen (enc_batch crc b) + zlen (enc_batches crc bs) <? 12) eqn:E0; [lia|].
    destruct (9 + zlen (enc_batch_tail b) <=? 0) eqn:E1; [lia|].
    destruct (zlen (enc_batch crc b) + zlen (enc_batches crc bs) <? 12 + (9 + zlen (enc_batch_tail b))) eqn:E2; [lia|].
    replace (12 + (9 + zlen (enc_batch_tail b))) with (zlen (enc_batch crc b)) by lia.
    rewrite make_ok by (try apply pow31_alloc; lia). rewrite out_bind_ok with (a := tt) by reflexivity.
    rewrite take_app, drop_app.
    rewrite (out_bind_ok _ _ _ (pitr_truncate_spec crc b cutoff Hb)).
    cbn [collect_spec]. destruct (trunc_spec b cutoff) as [o done]. cbn [fst snd].
    destruct done.
    + destruct o; cbn [enc_opt app map]; rewrite ?app_nil_r; reflexivity.
    + rewrite (out_bind_ok _ _ _ (IH f Hwf' ltac:(cbn [length] in Hf; lia))).
      destruct o; cbn [enc_opt app map out ret]; rewrite ?map_app; reflexivity.
Qed.

Lemma enc_batches_len crc bs : (length bs <= length (enc_batches crc bs))%nat.
Proof.
  induction bs as [|b bs IH]; [cbn; lia|].
  unfold enc_batches. cbn [map concat]. fold (enc_batches crc bs). rewrite app_length.
  pose proof (zlen_enc_batch crc b) as H. pose proof (zlen_nonneg (enc_records (kb_records b))).
  unfold zlen in *. cbn [length]. lia.
Qed.

Lemma pitr_collect_spec crc bs base count created crcv last cutoff : Forall pitr_wf bs ->
  out (pitr_collect crc (seg_header base count created ++ enc_batches crc bs ++ seg_footer crcv last) cutoff)
  = Ok (map (enc_batch crc) (collect_spec bs cutoff)).
Proof.
  intros Hwf. unfold pitr_collect.
  assert (Hl : zlen (seg_header base count created ++ enc_batches crc bs ++ seg_footer crcv last)
               = 48 + zlen (enc_batches crc bs)).
  { unfold seg_header, seg_footer, magic_kafs, magic_end. rewrite !zlen_app, !zlen_be_put.
    change (zlen [75; 65; 70; 83]) with 4. change (zlen [69; 78; 68; 33]) with 4. lia. }
  rewrite Hl. pose proof (zlen_nonneg (enc_batches crc bs)) as Hnn.
  destruct (48 + zlen (enc_batches crc bs) <? 48) eqn:E0; [lia|].
  assert (Hs : skipn 32 (seg_header base count created ++ enc_batches crc bs ++ seg_footer crcv last)
               = enc_batches crc bs ++ seg_footer crcv last).
  { unfold seg_header, magic_kafs. cbn [be_put app skipn]. reflexivity. }
  assert (Hm : firstn 4 (seg_header base count created ++ enc_batches crc bs ++ seg_footer crcv last) = magic_kafs).
  { unfold seg_header, magic_kafs. cbn [app firstn]. reflexivity. }
  rewrite Hm, Hs, bytes_eqb_refl. cbn [negb].
  replace (48 + zlen (enc_batches crc bs) - 48) with (zlen (enc_batches crc bs)) by lia.
  rewrite take_app. apply pitr_loop_spec; [assumption|]. pose proof (enc_batches_len crc bs). lia.
Qed.

(* ---------- the contract on records ---------- *)
Definition recs_of (b : kbatch) : list (Z * Z) :=
  map (fun r => (kb_base b + kr_off_delta r, rec_ts (kb_first_ts b) r)) (kb_records b).

(* (offset, timestamp) pairs before the first one whose timestamp is > cutoff *)
Fixpoint take_le (cutoff : Z) (l : list (Z * Z)) : list (Z * Z) :=
  match l with
  | [] => []
  | x :: l' => if cutoff <? snd x then [] else x :: take_le cutoff l'
  end.

Lemma take_le_map cutoff base fts rs :
  take_le cutoff (map (fun r => (base + kr_off_delta r, rec_ts fts r)) rs)
  = map (fun r => (base + kr_off_delta r, rec_ts fts r)) (kept_prefix fts cutoff rs).
Proof.
  induction rs as [|r rs IH]; [reflexivity|]. cbn [map take_le kept_prefix snd].
  destruct (cutoff <? rec_ts fts r); [reflexivity|]. cbn [map]. rewrite IH. reflexivity.
Qed.

Lemma take_le_all cutoff l1 l2 : take_le cutoff l1 = l1 -> take_le cutoff (l1 ++ l2) = l1 ++ take_le cutoff l2.
Proof.
  induction l1 as [|x l1 IH]; intros H; [reflexivity|]. cbn [take_le app] in *.
  destruct (cutoff <? snd x) eqn:E; [discriminate|]. inversion H as [H1]. rewrite H1. rewrite IH by exact H1. reflexivity.
Qed.

Lemma take_le_cut cutoff l1 l2 : take_le cutoff l1 <> l1 -> take_le cutoff (l1 ++ l2) = take_le cutoff l1.
Proof.
  induction l1 as [|x l1 IH]; intros H; [exfalso; apply H; reflexivity|]. cbn [take_le app] in *.
  destruct (cutoff <? snd x) eqn:E; [reflexivity|]. f_equal. apply IH. intros E2. apply H. rewrite E2. reflexivity.
Qed.

Lemma collect_spec_contract cutoff bs : Forall pitr_wf bs ->
  concat (map recs_of (collect_spec bs cutoff)) = take_le cutoff (concat (map recs_of bs)).
Proof.
  induction 1 as [|b bs Hb _ IH]; [reflexivity|].
  destruct Hb as (_ & _ & (r0 & rs0 & Hrs & Hd0) & Hmax & _).
  cbn [collect_spec map concat]. unfold trunc_spec.
  set (f := fun r => (kb_base b + kr_off_delta r, rec_ts (kb_first_ts b) r)).
  assert (Hk : take_le cutoff (recs_of b) = map f (kept_prefix (kb_first_ts b) cutoff (kb_records b)))
    by apply take_le_map.
  destruct (kb_max_ts b <=? cutoff) eqn:Em.
  - assert (Hall : kept_prefix (kb_first_ts b) cutoff (kb_records b) = kb_records b).
    { apply all_le_kept. pose proof (max_ts_all_le (kb_first_ts b) (kb_records b)) as Hle.
      eapply Forall_impl; [|exact Hle]. cbn beta. intros r Hr. lia. }
    rewrite Hall in Hk. cbn [app map concat]. rewrite take_le_all by exact Hk. rewrite IH. reflexivity.
  - assert (Hne : take_le cutoff (recs_of b) <> recs_of b).
    { rewrite Hk. unfold recs_of. fold f. intros Heq.
      assert (Hlen : length (kept_prefix (kb_first_ts b) cutoff (kb_records b)) = length (kb_records b))
        by (rewrite <- (map_length f), Heq, map_length; reflexivity).
      destruct (kept_prefix_split (kb_first_ts b) cutoff (kb_records b)) as [q Hq].
      assert (q = []) as ->.
      { apply (f_equal (@length krecord)) in Hq. rewrite app_length in Hq. destruct q; [reflexivity|cbn [length] in Hq; lia]. }
      rewrite app_nil_r in Hq. symmetry in Hq. apply kept_all_le in Hq.
      pose proof (max_ts_le (kb_first_ts b) cutoff (kb_records b) Hq) as Hle. unfold max_ts_of in Hmax.
      destruct (Z_le_gt_dec (kb_first_ts b) cutoff) as [Hf|Hf].
      - specialize (Hle _ Hf). lia.
      - rewrite Hrs in Hq. inversion Hq as [|? ? H0 _]; subst. unfold rec_ts in H0. lia. }
    rewrite take_le_cut by exact Hne. rewrite Hk.
    destruct (kept_prefix (kb_first_ts b) cutoff (kb_records b)) as [|p0 p'] eqn:Ep; [reflexivity|].
    cbn [app map concat]. rewrite app_nil_r. reflexivity.
Qed.

(* every returned batch is an input batch unchanged, or an input batch cut to its kept prefix *)
Lemma collect_spec_shape cutoff bs :
  Forall (fun k => exists b, In b bs /\
            (k = b \/ k = cut_batch b (kept_prefix (kb_first_ts b) cutoff (kb_records b))))
         (collect_spec bs cutoff).
Proof.
  induction bs as [|b bs IH]; [constructor|]. cbn [collect_spec]. unfold trunc_spec.
  assert (IH' : Forall (fun k => exists b0, In b0 (b :: bs) /\
            (k = b0 \/ k = cut_batch b0 (kept_prefix (kb_first_ts b0) cutoff (kb_records b0)))) (collect_spec bs cutoff)).
  { eapply Forall_impl; [|exact IH]. intros k (b0 & Hin & Hk). exists b0. split; [right; exact Hin|exact Hk]. }
  destruct (kb_max_ts b <=? cutoff).
  - cbn [app]. constructor; [exists b; split; [left; reflexivity|left; reflexivity]|exact IH'].
  - destruct (kept_prefix (kb_first_ts b) cutoff (kb_records b)) as [|p0 p'] eqn:Ep; [constructor|].
    cbn [app]. constructor; [|constructor]. exists b. split; [left; reflexivity|right; rewrite Ep; reflexivity].
Qed.

Lemma c07_pitr_contract crc bs base count created crcv last cutoff : Forall pitr_wf bs ->
  out (pitr_collect crc (seg_header base count created ++ enc_batches crc bs ++ seg_footer crcv last) cutoff)
    = Ok (map (enc_batch crc) (collect_spec bs cutoff)) /\
  concat (map recs_of (collect_spec bs cutoff)) = take_le cutoff (concat (map recs_of bs)) /\
  Forall (fun k => exists b, In b bs /\
            (k = b \/ k = cut_batch b (kept_prefix (kb_first_ts b) cutoff (kb_records b))))
         (collect_spec bs cutoff).
Proof.
  intros H. split; [apply pitr_collect_spec; exact H|]. split; [apply collect_spec_contract; exact H|apply collect_spec_shape].
Qed.
