(* C03 / C04 across restarts (model/ReadRestore.v). *)
From Coq Require Import ZifyBool.
From KS Require Import lib.Base model.ReadPath model.ReadRestore proofs.ReadPathProofs.
Open Scope Z_scope.

Lemma last_seg_next_snoc a s : last_seg_next (a ++ [s]) = s_last s + 1.
Proof.
  unfold last_seg_next. destruct (a ++ [s]) eqn:E; [destruct a; discriminate|]. rewrite <- E.
  now rewrite List.last_last.
Qed.

Lemma seg_batches_hi lo iv segs : segs <> [] -> chain lo (seg_batches segs) -> Forall (seg_ok iv) segs ->
  hi_of lo (seg_batches segs) = last_seg_next segs.
Proof.
  intros Hne Hc Hok. destruct (exists_last Hne) as (a & s & ->). rewrite last_seg_next_snoc.
  apply Forall_app in Hok as [_ Hs]. inversion Hs as [|? ? [Hn (c & r & Hseg)] _]; subst.
  rewrite seg_batches_app, hi_of_app. change (seg_batches [s]) with (s_batches s ++ []). rewrite app_nil_r.
  rewrite (hi_of_last _ _ Hn). rewrite Hseg at 2. reflexivity.
Qed.

Lemma inv_restore start l sn : inv start l -> inv (Z.min start sn) (restore l sn).
Proof.
  intros [Hc Hn Hs Hf Hts _]. rewrite live_eq in Hc. apply chain_app in Hc as [Hc _].
  assert (Hl : live (restore l sn) = seg_batches (l_segs l)).
  { unfold live, restore, flushing_batches. cbn [l_segs l_inflight l_buffer]. now rewrite !app_nil_r. }
  constructor; cbn [restore l_interval l_segs l_inflight l_next].
  - rewrite Hl. eapply chain_weaken; [|exact Hc]. lia.
  - rewrite Hl. destruct (l_segs l) as [|s0 r] eqn:E.
    + cbn. lia.
    + rewrite <- E in *. assert (Hne : l_segs l <> []) by (rewrite E; congruence).
      assert (Hc' : chain (Z.min start sn) (seg_batches (l_segs l))) by (eapply chain_weaken; [|exact Hc]; lia).
      rewrite (seg_batches_hi _ _ _ Hne Hc' Hs). lia.
  - exact Hs.
  - intros; discriminate.
  - exact Hts.
  - eexists. unfold flushing_batches. cbn [l_inflight l_buffer app tightc hi_of]. split; [exact I|reflexivity].
Qed.

Lemma restore_interval l sn : l_interval (restore l sn) = l_interval l.
Proof. reflexivity. Qed.

Lemma inv_xrun xs : forall start l, Forall valid_xop xs -> inv start l -> exists start', inv start' (xrun l xs).
Proof.
  induction xs as [|x xs IH]; intros start l Hv Hi; cbn [xrun fold_left]; [eauto|].
  inversion Hv; subst. destruct x as [o|sn]; cbn [xstep].
  - eapply IH; [assumption|]. apply inv_step; eassumption.
  - eapply IH; [assumption|]. apply inv_restore; eassumption.
Qed.

Theorem read_sound_restart v iv rq start xs cached o max d :
  Forall valid_xop xs ->
  let l := xrun (init_log iv rq start) xs in
  read_gen v true l cached o max = ROk d -> is_run (live l) o d.
Proof.
  intros Hv l Hr. destruct (inv_xrun xs start _ Hv (inv_init iv rq start)) as (start' & Hi).
  destruct (read_shape _ _ _ _ _ _ _ Hi Hr) as (pre & mid & rest & n & El & Hp & Hm & _ & Hd & Hn & _).
  exists pre, (mid ++ rest), n. repeat split; try assumption. subst d. now apply ztake_len_ge1.
Qed.

Theorem read_paths_agree_restart v iv rq start xs o max :
  Forall valid_xop xs ->
  let l := xrun (init_log iv rq start) xs in
  read_gen v true l true o max = read_gen v true l false o max.
Proof.
  intros Hv l. destruct (inv_xrun xs start _ Hv (inv_init iv rq start)) as (start' & Hi).
  change (inv start' l) in Hi. clearbody l.
  unfold read_gen. destruct (find_segment (l_segs l) o) as [[s o']|] eqn:E; [|reflexivity].
  apply find_segment_some in E as (A & B & Esegs & _). destruct Hi as [_ _ Hs _ _ _].
  rewrite Esegs in Hs. apply Forall_app in Hs as [_ Hs]. inversion Hs as [|? ? [_ (c & r & Hseg)] _]; subst.
  symmetry. apply paths_agree_seg. rewrite Hseg. reflexivity.
Qed.

Theorem read_progress_partial_restart v iv rq start xs cached o max :
  v_floor v = true ->
  Forall valid_xop xs ->
  let l := xrun (init_log iv rq start) xs in
  0 < max -> (exists b, In b (live l) /\ o <= b_last b) ->
  entry_distance l o < max ->
  exists d, read_gen v true l cached o max = ROk d /\ progress_run (live l) o d.
Proof.
  intros Hvf Hv l Hmax Hex Hdist. destruct (inv_xrun xs start _ Hv (inv_init iv rq start)) as (start' & Hi).
  change (inv start' l) in Hi. clearbody l.
  destruct (read_ok v start' l cached o max Hi Hex) as (d & Hr). exists d. split; [exact Hr|].
  destruct (read_shape _ _ _ _ _ _ _ Hi Hr) as (pre & mid & rest & n & El & Hp & Hm & Hrest & Hd & Hn & Hed & Hnm & _).
  exists pre, mid, rest, n. repeat split; try assumption.
  - apply Forall_app; split; assumption.
  - subst d. rewrite zlen_ztake by lia. specialize (Hnm Hmax). specialize (Hed Hvf). lia.
Qed.

Theorem read_progress_restart iv rq start xs cached o max :
  Forall valid_xop xs ->
  let l := xrun (init_log iv rq start) xs in
  0 < max -> (exists b, In b (live l) /\ o <= b_last b) ->
  exists d, read l cached o max = ROk d /\ progress_run (live l) o d.
Proof.
  intros Hv l Hmax Hex. destruct (inv_xrun xs start _ Hv (inv_init iv rq start)) as (start' & Hi).
  exact (progress_of_shape VFull start' l cached o max eq_refl Hi Hmax Hex).
Qed.

(* ---------- the listing prefix of a partition matches no other partition's keys ---------- *)
From KS Require Import lib.Strings.

Lemma has_prefix_app_same a x y : has_prefix (a ++ x) (a ++ y) = has_prefix x y.
Proof. induction a as [|c a IH]; cbn [app has_prefix]; [reflexivity|]. now rewrite Z.eqb_refl. Qed.

Lemma has_prefix_true pre k : has_prefix pre k = true -> exists tail, k = pre ++ tail.
Proof.
  revert k; induction pre as [|x pre IH]; intros k H; [exists k; reflexivity|].
  destruct k as [|y k]; cbn [has_prefix] in H; [discriminate|].
  apply andb_true_iff in H as [E H]. apply Z.eqb_eq in E. subst y.
  destruct (IH _ H) as (tail & ->). exists tail. reflexivity.
Qed.

Theorem listing_isolated ns topic p p' base :
  has_prefix (part_prefix ns topic p) (seg_key ns topic p' base) = true -> p = p'.
Proof.
  unfold seg_key, part_prefix. intros H.
  replace (ns ++ slash :: topic ++ slash :: dec p ++ [slash])
    with ((ns ++ slash :: topic ++ [slash]) ++ dec p ++ [slash]) in H
    by (repeat (first [rewrite <- app_assoc | progress cbn [app]]); reflexivity).
  replace ((ns ++ slash :: topic ++ slash :: dec p' ++ [slash]) ++ [115; 101; 103; 109; 101; 110; 116; 45] ++ pad20 (dec base) ++ [46; 107; 102; 115])
    with ((ns ++ slash :: topic ++ [slash]) ++ dec p' ++ slash :: ([115; 101; 103; 109; 101; 110; 116; 45] ++ pad20 (dec base) ++ [46; 107; 102; 115])) in H
    by (repeat (first [rewrite <- app_assoc | progress cbn [app]]); reflexivity).
  rewrite has_prefix_app_same in H. apply has_prefix_true in H as (tail & E).
  rewrite <- app_assoc in E. cbn [app] in E. symmetry in E.
  apply split_first_sep in E as [E _]; [now apply dec_inj| |]; apply dec_no_sep; reflexivity.
Qed.
