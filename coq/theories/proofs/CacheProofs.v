(* Proofs about model/Cache.v. *)
From KS Require Import lib.Base lib.Strings model.Cache.
Open Scope Z_scope.

(* ---------- make_key is injective ---------- *)
Lemma make_key_inj t p b t' p' b' :
  make_key t p b = make_key t' p' b' -> t = t' /\ p = p' /\ b = b'.
Proof.
  unfold make_key; intros E.
  (* split at the last colon: dec b has none *)
  change (t ++ colon :: dec p ++ colon :: dec b) with (t ++ (colon :: dec p) ++ colon :: dec b) in E.
  change (t' ++ colon :: dec p' ++ colon :: dec b') with (t' ++ (colon :: dec p') ++ colon :: dec b') in E.
  rewrite !app_assoc in E.
  apply split_last_sep in E as [E1 E2];
    [| apply dec_no_sep; exact colon_not_dec | apply dec_no_sep; exact colon_not_dec].
  apply dec_inj in E2.
  apply split_last_sep in E1 as [E3 E4];
    [| apply dec_no_sep; exact colon_not_dec | apply dec_no_sep; exact colon_not_dec].
  apply dec_inj in E4. auto.
Qed.

(* ---------- sums, keys ---------- *)
Definition sum_l (h : list bytes) (l : list (bytes * nat)) : Z :=
  fold_right (fun e acc => zlen (buf h (snd e)) + acc) 0 l.

Lemma sum_l_nil h : sum_l h [] = 0. Proof. reflexivity. Qed.
Lemma sum_l_cons h e l : sum_l h (e :: l) = zlen (buf h (snd e)) + sum_l h l. Proof. reflexivity. Qed.
Global Opaque sum_l.

Lemma held_sum c : held c = sum_l (c_heap c) (c_lru c).
Proof. reflexivity. Qed.

Lemma sum_l_app h l1 l2 : sum_l h (l1 ++ l2) = sum_l h l1 + sum_l h l2.
Proof. induction l1 as [|e l1 IH]; cbn [app]; rewrite ?sum_l_nil, ?sum_l_cons; [lia|]. rewrite IH. lia. Qed.

Lemma sum_l_nonneg h l : 0 <= sum_l h l.
Proof. induction l as [|e l IH]; rewrite ?sum_l_nil, ?sum_l_cons; [lia|]. pose proof (zlen_nonneg (buf h (snd e))). lia. Qed.

Definition ids_ok (h : list bytes) (l : list (bytes * nat)) : Prop :=
  Forall (fun e => (snd e < length h)%nat) l.

Lemma buf_app_l h ext id : (id < length h)%nat -> buf (h ++ ext) id = buf h id.
Proof. intros H. unfold buf. now rewrite app_nth1. Qed.

Lemma buf_app_new h d : buf (h ++ [d]) (length h) = d.
Proof. unfold buf. rewrite app_nth2 by lia. now rewrite Nat.sub_diag. Qed.

Lemma sum_l_ext h ext l : ids_ok h l -> sum_l (h ++ ext) l = sum_l h l.
Proof.
  induction l as [|e l IH]; intros H; rewrite ?sum_l_nil, ?sum_l_cons; [reflexivity|].
  inversion H; subst. rewrite IH by assumption. now rewrite buf_app_l.
Qed.

Lemma ids_ok_ext h ext l : ids_ok h l -> ids_ok (h ++ ext) l.
Proof.
  unfold ids_ok. intros H. eapply Forall_impl; [|exact H].
  intros e He. cbn in *. rewrite app_length. lia.
Qed.

Definition keys (l : list (bytes * nat)) : list bytes := map fst l.

Lemma find_key_none k l : find_key k l = None <-> ~ In k (keys l).
Proof.
  induction l as [|[k' b] l IH]; cbn; [tauto|].
  destruct (bytes_eqb k k') eqn:E.
  - apply bytes_eqb_eq in E. subst. split; [discriminate|]. intros H; exfalso; apply H; auto.
  - apply bytes_eqb_neq in E. rewrite IH. split; intros H; [intros [H1|H1]; [congruence|auto]|auto].
Qed.

Lemma find_key_in k l b : find_key k l = Some b -> In (k, b) l.
Proof.
  induction l as [|[k' b'] l IH]; cbn; [discriminate|].
  destruct (bytes_eqb k k') eqn:E.
  - apply bytes_eqb_eq in E. intros H; inversion H; subst. auto.
  - intros H. right. auto.
Qed.

Lemma remove_key_sum h k l b :
  find_key k l = Some b -> sum_l h (remove_key k l) = sum_l h l - zlen (buf h b).
Proof.
  induction l as [|[k' b'] l IH]; cbn [find_key remove_key]; [discriminate|].
  destruct (bytes_eqb k k') eqn:E.
  - intros H; inversion H; subst. rewrite sum_l_cons. cbn [snd]. lia.
  - intros H. rewrite !sum_l_cons. rewrite IH by assumption. lia.
Qed.

Lemma remove_key_subset k l e : In e (remove_key k l) -> In e l.
Proof.
  induction l as [|[k' b'] l IH]; cbn; [tauto|].
  destruct (bytes_eqb k k'); cbn; intuition.
Qed.

Lemma remove_key_keys k l : NoDup (keys l) -> ~ In k (keys (remove_key k l)) /\ NoDup (keys (remove_key k l)).
Proof.
  induction l as [|[k' b'] l IH]; cbn; intros H; [split; [tauto|constructor]|].
  inversion H as [|? ? Hn Hd]; subst.
  destruct (bytes_eqb k k') eqn:E.
  - apply bytes_eqb_eq in E; subst. auto.
  - apply bytes_eqb_neq in E. destruct (IH Hd) as [I1 I2]. cbn. split.
    + intros [H1|H1]; [congruence|auto].
    + constructor; [|assumption]. intros Hin. apply Hn.
      unfold keys in *. apply in_map_iff in Hin as [e [He1 He2]].
      apply in_map_iff. exists e. split; [assumption|]. eapply remove_key_subset; eauto.
Qed.

Lemma ids_ok_remove h k l : ids_ok h l -> ids_ok h (remove_key k l).
Proof.
  unfold ids_ok. rewrite !Forall_forall. intros H e He. apply H. eapply remove_key_subset; eauto.
Qed.

(* ---------- eviction ---------- *)
Lemma evict_spec cap h l size :
  0 < cap -> size = sum_l h l ->
  let r := evict cap size h l in
  fst r = sum_l h (snd r) /\ fst r <= cap /\ exists pre, l = pre ++ snd r.
Proof.
  intros Hc. revert size. induction l as [|[k b] l IH]; intros size Hs; cbn [evict].
  - rewrite sum_l_nil in Hs. subst. cbn [fst snd]. rewrite sum_l_nil.
    split; [reflexivity|]. split; [lia|]. exists []; reflexivity.
  - rewrite sum_l_cons in Hs. cbn [snd] in Hs. destruct (cap <? size) eqn:E.
    + destruct (IH (size - zlen (buf h b))) as [I1 [I2 [pre I3]]]; [lia|].
      split; [assumption|]. split; [assumption|]. exists ((k, b) :: pre). cbn [app]. now rewrite <- I3.
    + apply Z.ltb_ge in E. cbn [fst snd]. rewrite sum_l_cons. cbn [snd].
      split; [lia|]. split; [lia|]. exists []; reflexivity.
Qed.

Lemma suffix_ids_ok h pre l : ids_ok h (pre ++ l) -> ids_ok h l.
Proof. unfold ids_ok. intros H. apply Forall_app in H. tauto. Qed.

Lemma suffix_nodup pre (l : list (bytes * nat)) : NoDup (keys (pre ++ l)) -> NoDup (keys l).
Proof.
  unfold keys. rewrite map_app. induction (map fst pre) as [|x p IH]; cbn; [auto|].
  intros H. inversion H; auto.
Qed.

(* ---------- the invariant ---------- *)
Record Inv (c : cache) : Prop := {
  inv_cap : 0 < c_cap c;
  inv_size : c_size c = held c;
  inv_le : held c <= c_cap c;
  inv_ids : ids_ok (c_heap c) (c_lru c);
  inv_nodup : NoDup (keys (c_lru c))
}.

Lemma inv_new cap : Inv (new_cache cap).
Proof.
  unfold new_cache. constructor; cbn.
  - destruct (cap <=? 0) eqn:E; [lia|]. apply Z.leb_gt in E. lia.
  - reflexivity.
  - unfold held; cbn. destruct (cap <=? 0) eqn:E; [lia|]. apply Z.leb_gt in E. lia.
  - constructor.
  - constructor.
Qed.

Lemma inv_get c k : Inv c -> Inv (fst (get c k)).
Proof.
  intros [H1 H2 H3 H4 H5]. unfold get. destruct (find_key k (c_lru c)) as [b|] eqn:F; cbn [fst].
  - assert (sum_l (c_heap c) (remove_key k (c_lru c) ++ [(k, b)]) = held c) as Hs.
    { rewrite sum_l_app, (remove_key_sum _ _ _ b F), sum_l_cons, sum_l_nil. cbn [snd].
      rewrite held_sum. lia. }
    constructor; rewrite ?held_sum; cbn [c_cap c_size c_lru c_heap]; try assumption.
    + lia.
    + lia.
    + unfold ids_ok. apply Forall_app. split; [apply ids_ok_remove; assumption|].
      constructor; [|constructor]. cbn [snd]. apply find_key_in in F.
      unfold ids_ok in H4. rewrite Forall_forall in H4. apply (H4 _ F).
    + destruct (remove_key_keys k _ H5) as [R1 R2]. unfold keys. rewrite map_app. cbn [map fst].
      apply NoDup_snoc; assumption.
  - constructor; assumption.
Qed.

Lemma set_tail c d l1 size1 :
  0 < c_cap c ->
  ids_ok (c_heap c ++ [d]) l1 -> size1 = sum_l (c_heap c ++ [d]) l1 -> NoDup (keys l1) ->
  Inv (let '(size2, l2) := evict (c_cap c) size1 (c_heap c ++ [d]) l1 in
       mkCache (c_cap c) size2 l2 (c_heap c ++ [d])).
Proof.
  intros H1 Hids Hsz Hnd.
  pose proof (evict_spec (c_cap c) (c_heap c ++ [d]) l1 size1 H1 Hsz) as E. cbn zeta in E.
  destruct (evict (c_cap c) size1 (c_heap c ++ [d]) l1) as [size2 l2]. cbn [fst snd] in E.
  destruct E as [E1 [E2 [pre E3]]].
  constructor; rewrite ?held_sum; cbn [c_cap c_size c_lru c_heap]; try assumption.
  - lia.
  - rewrite E3 in Hids. eapply suffix_ids_ok; eauto.
  - rewrite E3 in Hnd. eapply suffix_nodup; eauto.
Qed.

Lemma inv_set c k d : Inv c -> Inv (set c k d).
Proof.
  intros [H1 H2 H3 H4 H5]. unfold set.
  destruct (find_key k (c_lru c)) as [b|] eqn:F.
  - apply set_tail; [assumption| | |].
    + unfold ids_ok. apply Forall_app. split.
      * apply ids_ok_ext, ids_ok_remove; assumption.
      * constructor; [|constructor]. cbn [snd]. rewrite app_length. cbn [length]. lia.
    + rewrite sum_l_app.
      rewrite sum_l_ext by (apply ids_ok_remove; assumption).
      rewrite (remove_key_sum _ _ _ b F), sum_l_cons, sum_l_nil. cbn [snd].
      rewrite buf_app_new, H2, held_sum. lia.
    + destruct (remove_key_keys k _ H5) as [R1 R2]. unfold keys. rewrite map_app. cbn [map fst].
      apply NoDup_snoc; assumption.
  - apply set_tail; [assumption| | |].
    + unfold ids_ok. apply Forall_app. split.
      * apply ids_ok_ext; assumption.
      * constructor; [|constructor]. cbn [snd]. rewrite app_length. cbn [length]. lia.
    + rewrite sum_l_app. rewrite sum_l_ext by assumption.
      rewrite sum_l_cons, sum_l_nil. cbn [snd]. rewrite buf_app_new, H2, held_sum. lia.
    + unfold keys. rewrite map_app. cbn [map fst]. apply NoDup_snoc; [|assumption]. now apply find_key_none.
Qed.

Lemma inv_step c o : Inv c -> Inv (fst (step c o)).
Proof. destruct o; cbn; intros H; [apply inv_set | apply inv_get]; assumption. Qed.

Lemma run_cons c o ops : run c (o :: ops) = run (fst (step c o)) ops.
Proof. reflexivity. Qed.

Lemma run_app c ops1 ops2 : run c (ops1 ++ ops2) = run (run c ops1) ops2.
Proof. unfold run. now rewrite fold_left_app. Qed.

Lemma inv_run c ops : Inv c -> Inv (run c ops).
Proof.
  revert c; induction ops as [|o ops IH]; intros c H; [assumption|].
  rewrite run_cons. apply IH. now apply inv_step.
Qed.

Theorem capacity_respected cap ops :
  let c := run (new_cache cap) ops in held c <= c_cap c /\ c_size c = held c.
Proof.
  cbn zeta. pose proof (inv_run _ ops (inv_new cap)) as [H1 H2 H3 H4 H5]. auto.
Qed.

Lemma cap_step c o : c_cap (fst (step c o)) = c_cap c.
Proof.
  destruct o as [t p b d|t p b]; cbn [step fst].
  - unfold set. destruct (find_key _ _);
      match goal with |- context [evict ?a ?b ?c ?d] => destruct (evict a b c d) end; reflexivity.
  - unfold get. destruct (find_key _ _); reflexivity.
Qed.

Lemma cap_constant c ops : c_cap (run c ops) = c_cap c.
Proof.
  revert c; induction ops as [|o ops IH]; intros c; [reflexivity|].
  rewrite run_cons, IH. apply cap_step.
Qed.

(* ---------- hand-outs are stable: the heap only grows ---------- *)
Lemma heap_step c o : exists ext, c_heap (fst (step c o)) = c_heap c ++ ext.
Proof.
  destruct o as [t p b d|t p b]; cbn.
  - unfold set. destruct (find_key _ _);
      match goal with |- context [evict ?a ?b ?c ?d] => destruct (evict a b c d) end;
      cbn; eexists; reflexivity.
  - unfold get. destruct (find_key _ _); cbn; exists []; now rewrite app_nil_r.
Qed.

Lemma heap_run c ops : exists ext, c_heap (run c ops) = c_heap c ++ ext.
Proof.
  revert c; induction ops as [|o ops IH]; intros c.
  - exists []; cbn; now rewrite app_nil_r.
  - destruct (IH (fst (step c o))) as [e1 H1]. destruct (heap_step c o) as [e2 H2].
    exists (e2 ++ e1). rewrite run_cons, H1, H2. now rewrite app_assoc.
Qed.

Lemma get_id_valid c k id : Inv c -> snd (get c k) = Some id -> (id < length (c_heap (fst (get c k))))%nat.
Proof.
  intros [H1 H2 H3 H4 H5]. unfold get. destruct (find_key k (c_lru c)) as [b|] eqn:F; cbn; [|discriminate].
  intros E; inversion E; subst. apply find_key_in in F.
  unfold ids_ok in H4. rewrite Forall_forall in H4. apply (H4 _ F).
Qed.

Theorem handout_stable cap ops1 t p b id ops2 :
  let c0 := run (new_cache cap) ops1 in
  let c1 := fst (step c0 (OGet t p b)) in
  snd (step c0 (OGet t p b)) = Some id ->
  (id < length (c_heap c1))%nat /\
  buf (c_heap (run c1 ops2)) id = buf (c_heap c1) id.
Proof.
  cbn zeta. intros H. cbn [step] in *.
  pose proof (inv_run _ ops1 (inv_new cap)) as HI.
  pose proof (get_id_valid _ _ _ HI H) as Hid. split; [assumption|].
  destruct (heap_run (fst (get (run (new_cache cap) ops1) (make_key t p b))) ops2) as [ext E].
  rewrite E. now apply buf_app_l.
Qed.

(* ---------- lookups return the last value set under the same API key ---------- *)
Fixpoint last_set_rev (rops : list op) (t : bytes) (p b : Z) : option bytes :=
  match rops with
  | [] => None
  | OSet t' p' b' d :: r =>
      if bytes_eqb t t' && (p =? p') && (b =? b') then Some d else last_set_rev r t p b
  | OGet _ _ _ :: r => last_set_rev r t p b
  end.
Definition last_set (ops : list op) (t : bytes) (p b : Z) : option bytes :=
  last_set_rev (rev ops) t p b.

(* every cached entry holds the last value set for its key *)
Definition Fresh (ops : list op) (c : cache) : Prop :=
  forall t p b id, In (make_key t p b, id) (c_lru c) ->
    last_set ops t p b = Some (buf (c_heap c) id).

Definition KeysWf (c : cache) : Prop :=
  forall k id, In (k, id) (c_lru c) -> exists t p b, k = make_key t p b.

Lemma last_set_snoc_get ops t' p' b' t p b :
  last_set (ops ++ [OGet t' p' b']) t p b = last_set ops t p b.
Proof. unfold last_set. rewrite rev_app_distr. reflexivity. Qed.

Lemma last_set_snoc_set ops t' p' b' d t p b :
  last_set (ops ++ [OSet t' p' b' d]) t p b =
  if bytes_eqb t t' && (p =? p') && (b =? b') then Some d else last_set ops t p b.
Proof. unfold last_set. rewrite rev_app_distr. reflexivity. Qed.

Lemma key_eqb_spec t p b t' p' b' :
  bytes_eqb t t' && (p =? p') && (b =? b') = true <-> make_key t p b = make_key t' p' b'.
Proof.
  split.
  - intros H. apply andb_true_iff in H as [H H3]. apply andb_true_iff in H as [H1 H2].
    apply bytes_eqb_eq in H1. apply Z.eqb_eq in H2, H3. now subst.
  - intros H. apply make_key_inj in H as [-> [-> ->]].
    now rewrite bytes_eqb_refl, !Z.eqb_refl.
Qed.

Lemma in_remove_key_neq k l k' id : NoDup (keys l) -> In (k', id) (remove_key k l) -> k' <> k.
Proof.
  intros Hnd Hin E. subst. destruct (remove_key_keys k l Hnd) as [R _]. apply R.
  unfold keys. apply in_map_iff. exists (k, id). auto.
Qed.

Lemma fresh_step ops c o :
  Inv c -> Fresh ops c -> Fresh (ops ++ [o]) (fst (step c o)).
Proof.
  intros HI HF. pose proof HI as [H1 H2 H3 H4 H5].
  destruct o as [t' p' b' d|t' p' b']; cbn [step fst].
  - (* set *)
    unfold Fresh. intros t p b id Hin. rewrite last_set_snoc_set.
    unfold set in Hin |- *.
    set (k := make_key t' p' b') in *.
    set (heap' := c_heap c ++ [d]) in *.
    assert (forall l1 size1,
      (forall t p b id, In (make_key t p b, id) l1 ->
         (id = length (c_heap c) /\ make_key t p b = k) \/
         (make_key t p b <> k /\ In (make_key t p b, id) (c_lru c))) ->
      let r := evict (c_cap c) size1 heap' l1 in
      In (make_key t p b, id) (snd r) ->
      (if bytes_eqb t t' && (p =? p') && (b =? b') then Some d else last_set ops t p b)
        = Some (buf heap' id)) as Gen.
    { intros l1 size1 Hl1 r Hr.
      assert (In (make_key t p b, id) l1) as Hin1.
      { clear - Hr. subst r. revert size1 Hr. induction l1 as [|[kk bb] l1 IH]; intros size1 Hr; cbn in *; [assumption|].
        destruct (c_cap c <? size1); cbn in *; [right; eapply IH; eauto|assumption]. }
      destruct (Hl1 _ _ _ _ Hin1) as [[Hid Hk]|[Hk Hold]].
      - subst id. unfold heap'. rewrite buf_app_new.
        apply key_eqb_spec in Hk. now rewrite Hk.
      - destruct (bytes_eqb t t' && (p =? p') && (b =? b')) eqn:E.
        + apply key_eqb_spec in E. contradiction.
        + rewrite (HF _ _ _ _ Hold). f_equal. unfold heap'. symmetry. apply buf_app_l.
          unfold ids_ok in H4. rewrite Forall_forall in H4. apply (H4 _ Hold). }
    destruct (find_key k (c_lru c)) as [bb|] eqn:F.
    + match type of Hin with context [evict ?a ?b ?c ?d] =>
        pose proof (Gen d b) as G; destruct (evict a b c d) as [s2 l2] eqn:EV end.
      cbn in Hin. cbn. apply G; [|exact Hin].
      intros t0 p0 b0 id0 Hi. apply in_app_or in Hi as [Hi|Hi].
      * right. split; [eapply in_remove_key_neq; eauto|eapply remove_key_subset; eauto].
      * left. cbn in Hi. destruct Hi as [Hi|[]]. inversion Hi; subst. auto.
    + match type of Hin with context [evict ?a ?b ?c ?d] =>
        pose proof (Gen d b) as G; destruct (evict a b c d) as [s2 l2] eqn:EV end.
      cbn in Hin. cbn. apply G; [|exact Hin].
      intros t0 p0 b0 id0 Hi. apply in_app_or in Hi as [Hi|Hi].
      * right. split; [|assumption]. intros E. apply find_key_none in F. apply F.
        unfold keys. apply in_map_iff. exists (make_key t0 p0 b0, id0). split; [cbn; congruence|assumption].
      * left. cbn in Hi. destruct Hi as [Hi|[]]. inversion Hi; subst. auto.
  - (* get *)
    unfold Fresh. intros t p b id Hin. rewrite last_set_snoc_get.
    unfold get in Hin |- *. destruct (find_key (make_key t' p' b') (c_lru c)) as [bb|] eqn:F; cbn [fst c_lru c_heap] in *.
    + apply in_app_or in Hin as [Hin|Hin].
      * apply HF. eapply remove_key_subset; eauto.
      * destruct Hin as [Hin|[]]. inversion Hin as [[Hk Hid]]. subst id.
        apply find_key_in in F. rewrite Hk in F. now apply HF.
    + now apply HF.
Qed.

Lemma fresh_run cap ops : Fresh ops (run (new_cache cap) ops).
Proof.
  induction ops as [|o ops IH] using rev_ind.
  - intros t p b id []. 
  - rewrite run_app. change (run ?c [o]) with (fst (step c o)). apply fresh_step; [|assumption]. apply inv_run, inv_new.
Qed.

Theorem lookup_latest cap ops t p b d :
  lookup (run (new_cache cap) ops) t p b = Some d -> last_set ops t p b = Some d.
Proof.
  unfold lookup, get. set (c := run (new_cache cap) ops).
  destruct (find_key (make_key t p b) (c_lru c)) as [id|] eqn:F; cbn; [|discriminate].
  intros E; inversion E; subst. apply find_key_in in F. exact (fresh_run cap ops _ _ _ _ F).
Qed.
