(* Proofs about model/ProxyProto.v (C26). *)
From KS Require Import lib.Base lib.Wire model.ProxyProto.
From Coq Require Import ZifyBool.
Open Scope Z_scope.

(* ---------------------------------------------------------------- slices *)
Lemma gslice_ok (l : bytes) lo hi : 0 <= lo -> lo <= hi -> hi <= zlen l ->
  gslice l lo hi = Ok (ztake (hi - lo) (zdrop lo l)).
Proof.
  intros H1 H2 H3. unfold gslice.
  replace ((0 <=? lo) && (lo <=? hi) && (hi <=? zlen l)) with true by lia. reflexivity.
Qed.

Lemma zlen_slice (l : bytes) lo hi : 0 <= lo -> lo <= hi -> hi <= zlen l ->
  zlen (ztake (hi - lo) (zdrop lo l)) = hi - lo.
Proof.
  intros H1 H2 H3. rewrite zlen_ztake; [reflexivity|]. rewrite zlen_zdrop by lia. lia.
Qed.

Lemma list_len2 (l : bytes) : zlen l = 2 -> exists a b, l = [a; b].
Proof.
  destruct l as [|a [|b [|c l]]]; unfold zlen; cbn [length]; intros H; try lia. eauto.
Qed.

Lemma port_at_ok p i : 0 <= i -> i + 2 <= zlen p -> exists v, port_at p i = Ok v.
Proof.
  intros H1 H2. unfold port_at. rewrite gslice_ok by lia. cbn [bind].
  destruct (list_len2 (ztake (i + 2 - i) (zdrop i p))) as (a & b & E).
  { rewrite zlen_slice by lia. lia. }
  rewrite E. eauto.
Qed.

Definition safe {A} (o : outcome A) : Prop :=
  match o with Panic _ => False | OutOfFuel => False | _ => True end.

Lemma parse_inet_safe p : safe (parse_inet p).
Proof.
  unfold parse_inet. destruct (zlen p <? 12) eqn:E; [exact I|].
  rewrite !gslice_ok by lia. cbn [bind].
  destruct (port_at_ok p 8) as [sp ->]; [lia|lia|].
  destruct (port_at_ok p 10) as [dp ->]; [lia|lia|]. exact I.
Qed.

Lemma parse_inet6_safe p : safe (parse_inet6 p).
Proof.
  unfold parse_inet6. destruct (zlen p <? 36) eqn:E; [exact I|].
  rewrite !gslice_ok by lia. cbn [bind].
  destruct (port_at_ok p 32) as [sp ->]; [lia|lia|].
  destruct (port_at_ok p 34) as [dp ->]; [lia|lia|]. exact I.
Qed.

Lemma read_line_safe s : forall room acc, safe (fst (read_line s room acc)).
Proof.
  induction s as [|b s IH]; intros [|k] acc; cbn [read_line fst]; try exact I.
  destruct (b =? 10); [exact I|apply IH].
Qed.

Lemma parse_v1_line_safe line : safe (parse_v1_line line).
Proof.
  unfold parse_v1_line. destruct (fields line) as [|p0 [|p1 ps]]; try exact I.
  destruct (is_unknown p1); [exact I|].
  destruct ps as [|a [|b [|c [|d ps]]]]; exact I.
Qed.

Lemma parse_v1_safe s : safe (fst (parse_v1 s)).
Proof.
  unfold parse_v1. pose proof (read_line_safe s 256 []) as H.
  destruct (read_line s 256 []) as [[line|e|w|] rest]; cbn [fst] in *; try exact I; try contradiction.
  apply parse_v1_line_safe.
Qed.

Lemma parse_v2_safe hn s : bytes_ok s -> safe (fst (parse_v2 hn s)).
Proof.
  intros Hs. unfold parse_v2. destruct (zlen s <? 16) eqn:E16; [exact I|].
  assert (zlen (ztake 16 s) = 16) as L16 by (apply zlen_ztake; lia).
  rewrite gslice_ok by lia.
  destruct (negb (bytes_eqb (ztake (12 - 0) (zdrop 0 (ztake 16 s))) SIG12)); [exact I|].
  pose proof (be16_range _ _ (nth_byte_ok (ztake 16 s) 14 (bytes_ok_ztake 16 s Hs))
                             (nth_byte_ok (ztake 16 s) 15 (bytes_ok_ztake 16 s Hs))) as Hl.
  destruct (be16 (nth 14 (ztake 16 s) 0) (nth 15 (ztake 16 s) 0) <? 0) eqn:El; [lia|].
  destruct (zlen (zdrop 16 s) <? _); [exact I|].
  destruct (nth 12 (ztake 16 s) 0 mod 16 =? 0); [exact I|].
  destruct ((if hn then _ else _) =? 1); [apply parse_inet_safe|].
  destruct ((if hn then _ else _) =? 2); [apply parse_inet6_safe|]. exact I.
Qed.

Theorem no_panic s : bytes_ok s -> safe (fst (parse_proxy s)).
Proof.
  intros Hs. unfold parse_proxy, parse_proxy_with.
  destruct (zlen s <? 5); [exact I|].
  destruct (bytes_eqb (ztake 5 s) PROXY5); [apply parse_v1_safe|].
  destruct (bytes_eqb (ztake 5 s) SIG5); [|exact I].
  destruct (zlen s <? 12); [exact I|].
  destruct (bytes_eqb (ztake 12 s) SIG12); [apply parse_v2_safe; exact Hs|exact I].
Qed.

Theorem passthrough s :
  ztake 5 s <> PROXY5 -> (12 <= zlen s -> ztake 12 s <> SIG12) -> (zlen s < 12 -> ztake 5 s <> SIG5) ->
  parse_proxy s = (Ok PNone, s).
Proof.
  intros H1 H2 H3. unfold parse_proxy, parse_proxy_with.
  destruct (zlen s <? 5) eqn:E5; [reflexivity|].
  apply bytes_eqb_neq in H1. rewrite H1.
  destruct (bytes_eqb (ztake 5 s) SIG5) eqn:ES; [|reflexivity].
  destruct (zlen s <? 12) eqn:E12.
  - exfalso. apply H3; [lia|]. apply bytes_eqb_eq. exact ES.
  - specialize (H2 ltac:(lia)). apply bytes_eqb_neq in H2. rewrite H2. reflexivity.
Qed.
(* the 16 fixed bytes of a v2 header *)
Definition hdr16 (vercmd fam l0 l1 : Z) : bytes := SIG12 ++ [vercmd; fam; l0; l1].

Lemma v2_header_split vercmd fam addr tlvs rest :
  v2_header vercmd fam addr tlvs ++ rest =
  hdr16 vercmd fam (((zlen addr + zlen tlvs) / 256) mod 256) ((zlen addr + zlen tlvs) mod 256) ++ ((addr ++ tlvs) ++ rest).
Proof. unfold v2_header, hdr16, put_u16. rewrite <- !app_assoc. reflexivity. Qed.

Lemma parse_proxy_v2_hdr hn vercmd fam l0 l1 x :
  parse_proxy_with hn (hdr16 vercmd fam l0 l1 ++ x) = parse_v2 hn (hdr16 vercmd fam l0 l1 ++ x).
Proof.
  unfold parse_proxy_with.
  assert (zlen (hdr16 vercmd fam l0 l1 ++ x) = 16 + zlen x) as L by (rewrite zlen_app; reflexivity).
  pose proof (zlen_nonneg x).
  replace (zlen (hdr16 vercmd fam l0 l1 ++ x) <? 5) with false by lia.
  replace (zlen (hdr16 vercmd fam l0 l1 ++ x) <? 12) with false by lia.
  reflexivity.
Qed.

Lemma ztake16_hdr vercmd fam l0 l1 (x : bytes) : ztake 16 (hdr16 vercmd fam l0 l1 ++ x) = hdr16 vercmd fam l0 l1.
Proof. change 16 with (zlen (hdr16 vercmd fam l0 l1)). apply ztake_app. Qed.
Lemma zdrop16_hdr vercmd fam l0 l1 (x : bytes) : zdrop 16 (hdr16 vercmd fam l0 l1 ++ x) = x.
Proof. change 16 with (zlen (hdr16 vercmd fam l0 l1)). apply zdrop_app. Qed.

Lemma parse_v2_hdr hn vercmd fam l0 l1 payload rest :
  be16 l0 l1 = zlen payload ->
  parse_v2 hn (hdr16 vercmd fam l0 l1 ++ (payload ++ rest)) =
    if vercmd mod 16 =? 0 then (Ok PLocal, rest) else
    let family := if hn then fam / 16 else fam mod 16 in
    if family =? 1 then (parse_inet payload, rest)
    else if family =? 2 then (parse_inet6 payload, rest)
    else (Ok PNone, rest).
Proof.
  intros HL. unfold parse_v2.
  assert (zlen (hdr16 vercmd fam l0 l1 ++ (payload ++ rest)) = 16 + zlen (payload ++ rest)) as L by (rewrite zlen_app; reflexivity).
  pose proof (zlen_nonneg (payload ++ rest)). pose proof (zlen_nonneg payload).
  replace (zlen (hdr16 vercmd fam l0 l1 ++ (payload ++ rest)) <? 16) with false by lia.
  rewrite ztake16_hdr, zdrop16_hdr.
  change (gslice (hdr16 vercmd fam l0 l1) 0 12) with (Ok SIG12).
  change (negb (bytes_eqb SIG12 SIG12)) with false. cbv iota.
  change (nth 12 (hdr16 vercmd fam l0 l1) 0) with vercmd.
  change (nth 13 (hdr16 vercmd fam l0 l1) 0) with fam.
  change (nth 14 (hdr16 vercmd fam l0 l1) 0) with l0.
  change (nth 15 (hdr16 vercmd fam l0 l1) 0) with l1.
  rewrite HL. replace (zlen payload <? 0) with false by lia.
  rewrite zlen_app. pose proof (zlen_nonneg rest).
  replace (zlen payload + zlen rest <? zlen payload) with false by lia.
  rewrite ztake_app, zdrop_app. reflexivity.
Qed.

Lemma gslice_at (a m b : bytes) lo hi : lo = zlen a -> hi = lo + zlen m -> gslice (a ++ m ++ b) lo hi = Ok m.
Proof.
  intros -> ->. pose proof (zlen_nonneg a). pose proof (zlen_nonneg m). pose proof (zlen_nonneg b).
  rewrite gslice_ok; [|lia|lia|rewrite !zlen_app; lia].
  rewrite zdrop_app. replace (zlen a + zlen m - zlen a) with (zlen m) by lia. rewrite ztake_app. reflexivity.
Qed.

Lemma gslice_head (m b : bytes) hi : hi = zlen m -> gslice (m ++ b) 0 hi = Ok m.
Proof. intros H. apply (gslice_at [] m b 0 hi); [reflexivity|lia]. Qed.

Lemma port_at_put (a b : bytes) v i : i = zlen a -> 0 <= v < 65536 -> port_at (a ++ put_u16 v ++ b) i = Ok v.
Proof.
  intros Hi Hv. unfold port_at. rewrite (gslice_at a (put_u16 v) b i (i + 2) Hi) by (rewrite zlen_put_u16; lia).
  cbn [bind put_u16]. rewrite be16_put_u16 by exact Hv. reflexivity.
Qed.

Lemma parse_inet_addr src dst sp dp tlvs :
  zlen src = 4 -> zlen dst = 4 -> 0 <= sp < 65536 -> 0 <= dp < 65536 ->
  parse_inet (v2_addr src dst sp dp ++ tlvs) = Ok (PV2 src dst sp dp).
Proof.
  intros Hs Hd Hsp Hdp. unfold parse_inet, v2_addr. pose proof (zlen_nonneg tlvs).
  replace (zlen ((src ++ dst ++ put_u16 sp ++ put_u16 dp) ++ tlvs) <? 12) with false
    by (rewrite !zlen_app, !zlen_put_u16; lia).
  rewrite <- !app_assoc.
  rewrite (gslice_head src _ 4) by lia. cbn [bind].
  rewrite (gslice_at src dst _ 4 8) by lia. cbn [bind].
  rewrite (app_assoc src dst). rewrite (port_at_put (src ++ dst) _ sp 8) by (rewrite ?zlen_app; lia). cbn [bind].
  rewrite (app_assoc (src ++ dst) (put_u16 sp)).
  rewrite (port_at_put ((src ++ dst) ++ put_u16 sp) _ dp 10) by (rewrite ?zlen_app, ?zlen_put_u16; lia).
  reflexivity.
Qed.

Lemma parse_inet6_addr src dst sp dp tlvs :
  zlen src = 16 -> zlen dst = 16 -> 0 <= sp < 65536 -> 0 <= dp < 65536 ->
  parse_inet6 (v2_addr src dst sp dp ++ tlvs) = Ok (PV2 src dst sp dp).
Proof.
  intros Hs Hd Hsp Hdp. unfold parse_inet6, v2_addr. pose proof (zlen_nonneg tlvs).
  replace (zlen ((src ++ dst ++ put_u16 sp ++ put_u16 dp) ++ tlvs) <? 36) with false
    by (rewrite !zlen_app, !zlen_put_u16; lia).
  rewrite <- !app_assoc.
  rewrite (gslice_head src _ 16) by lia. cbn [bind].
  rewrite (gslice_at src dst _ 16 32) by lia. cbn [bind].
  rewrite (app_assoc src dst). rewrite (port_at_put (src ++ dst) _ sp 32) by (rewrite ?zlen_app; lia). cbn [bind].
  rewrite (app_assoc (src ++ dst) (put_u16 sp)).
  rewrite (port_at_put ((src ++ dst) ++ put_u16 sp) _ dp 34) by (rewrite ?zlen_app, ?zlen_put_u16; lia).
  reflexivity.
Qed.

(* one statement for every v2 header: command LOCAL / PROXY, family INET / INET6 /
   anything else (UNSPEC, UNIX), any TLV bytes, any trailing stream *)
Definition v2_expected (vercmd fam : Z) (addr : bytes) (info : pinfo) : Prop :=
  (vercmd mod 16 = 0 /\ info = PLocal) \/
  (vercmd mod 16 <> 0 /\ fam / 16 <> 1 /\ fam / 16 <> 2 /\ info = PNone) \/
  (vercmd mod 16 <> 0 /\ exists src dst sp dp,
      addr = v2_addr src dst sp dp /\ 0 <= sp < 65536 /\ 0 <= dp < 65536 /\ info = PV2 src dst sp dp /\
      ((fam / 16 = 1 /\ zlen src = 4 /\ zlen dst = 4) \/ (fam / 16 = 2 /\ zlen src = 16 /\ zlen dst = 16))).

Theorem v2_exact vercmd fam addr tlvs info rest :
  zlen addr + zlen tlvs < 65536 ->
  v2_expected vercmd fam addr info ->
  parse_proxy (v2_header vercmd fam addr tlvs ++ rest) = (Ok info, rest).
Proof.
  intros HL HE. unfold parse_proxy. rewrite v2_header_split, parse_proxy_v2_hdr.
  pose proof (zlen_nonneg addr). pose proof (zlen_nonneg tlvs).
  rewrite parse_v2_hdr by (rewrite be16_put_u16, zlen_app; lia).
  destruct HE as [[Hc ->]|[(Hc & F1 & F2 & ->)|(Hc & src & dst & sp & dp & -> & Hsp & Hdp & -> & HF)]].
  - replace (vercmd mod 16 =? 0) with true by lia. reflexivity.
  - replace (vercmd mod 16 =? 0) with false by lia. cbv zeta.
    replace (fam / 16 =? 1) with false by lia. replace (fam / 16 =? 2) with false by lia. reflexivity.
  - replace (vercmd mod 16 =? 0) with false by lia. cbv zeta.
    destruct HF as [(F & Ls & Ld)|(F & Ls & Ld)].
    + replace (fam / 16 =? 1) with true by lia. rewrite parse_inet_addr by assumption. reflexivity.
    + replace (fam / 16 =? 1) with false by lia. replace (fam / 16 =? 2) with true by lia.
      rewrite parse_inet6_addr by assumption. reflexivity.
Qed.

(* the unpatched code (family from the low nibble) misreports a TCP-over-IPv6 header *)
Lemma v2_low_nibble_refuted :
  exists src dst sp dp rest,
    zlen src = 16 /\ zlen dst = 16 /\
    fst (parse_proxy_with false (v2_header 33 33 (v2_addr src dst sp dp) [] ++ rest)) <> Ok (PV2 src dst sp dp).
Proof.
  exists [32;1;13;184;0;0;0;0;0;0;0;0;0;0;0;1], [32;1;13;184;0;0;0;0;0;0;0;0;0;0;0;2], 40000, 9092, [1;2;3].
  split; [reflexivity|]. split; [reflexivity|]. vm_compute. discriminate.
Qed.
Definition printable (b : Z) : bool := (33 <=? b) && (b <=? 126).

Lemma space_len_printable b r : printable b = true -> space_len (b :: r) = O.
Proof.
  unfold printable. intros H. unfold space_len.
  replace (((9 <=? b) && (b <=? 13)) || (b =? 32)) with false by lia.
  replace (b =? 194) with false by lia. replace (b =? 225) with false by lia.
  replace (b =? 226) with false by lia. replace (b =? 227) with false by lia.
  cbn [andb]. destruct r as [|b1 [|b2 r]]; reflexivity.
Qed.

Lemma fields_aux_token w : forall rest cur acc,
  forallb printable w = true ->
  fields_aux (w ++ rest) O cur acc = fields_aux rest O (rev w ++ cur) acc.
Proof.
  induction w as [|b w IH]; intros rest cur acc H; [reflexivity|].
  cbn [forallb] in H. apply andb_true_iff in H as [Hb Hw].
  cbn [app fields_aux]. change (b :: w ++ rest) with (b :: (w ++ rest)).
  rewrite space_len_printable by exact Hb. rewrite IH by exact Hw.
  cbn [rev]. rewrite <- app_assoc. reflexivity.
Qed.

Lemma fields_aux_sp rest cur acc :
  fields_aux (32 :: rest) O cur acc = fields_aux rest O [] (flush cur acc).
Proof. reflexivity. Qed.

Lemma fields_aux_crlf cur acc : fields_aux CRLF O cur acc = rev (flush cur acc).
Proof. reflexivity. Qed.

Lemma flush_token w acc : w <> [] -> flush (rev w ++ []) acc = w :: acc.
Proof.
  intros H. rewrite app_nil_r. unfold flush. destruct (rev w) eqn:E.
  - exfalso. apply H. rewrite <- (rev_involutive w), E. reflexivity.
  - rewrite <- E, rev_involutive. reflexivity.
Qed.

Lemma tokenb_spec f : tokenb f = true -> f <> [] /\ forallb printable f = true.
Proof.
  unfold tokenb. intros H. apply andb_true_iff in H as [H1 H2]. split.
  - destruct f; [discriminate|congruence].
  - exact H2.
Qed.

(* token followed by one space: the token is flushed *)
Lemma fields_aux_token_sp w rest acc : tokenb w = true ->
  fields_aux (w ++ SP ++ rest) O [] acc = fields_aux rest O [] (w :: acc).
Proof.
  intros H. apply tokenb_spec in H as [Hn Hp].
  rewrite fields_aux_token by exact Hp. cbn [SP app]. rewrite fields_aux_sp, flush_token by exact Hn. reflexivity.
Qed.

Lemma fields_v1_line proto sip dip sp dp :
  tokenb proto = true -> tokenb sip = true -> tokenb dip = true -> tokenb sp = true -> tokenb dp = true ->
  fields (v1_line proto sip dip sp dp) = [PROXY5; proto; sip; dip; sp; dp].
Proof.
  intros H1 H2 H3 H4 H5. unfold fields, v1_line.
  rewrite (fields_aux_token_sp PROXY5) by reflexivity.
  rewrite !fields_aux_token_sp by assumption.
  apply tokenb_spec in H5 as [Hn Hp].
  rewrite fields_aux_token by exact Hp. rewrite fields_aux_crlf, flush_token by exact Hn. reflexivity.
Qed.

(* read_line returns the line up to and including the first LF *)
Lemma read_line_lf l : forall room acc rest,
  ~ In 10 l -> (length l < room)%nat ->
  read_line (l ++ 10 :: rest) room acc = (Ok (rev acc ++ l ++ [10]), rest).
Proof.
  induction l as [|b l IH]; intros room acc rest Hn Hr.
  - destruct room; [cbn in Hr; lia|]. cbn [app read_line]. cbn [Z.eqb Pos.eqb rev]. reflexivity.
  - destruct room; [cbn in Hr; lia|]. cbn [app read_line].
    replace (b =? 10) with false by (cbn [In] in Hn; lia).
    rewrite IH; [|cbn [In] in Hn; tauto|cbn [length] in Hr; lia].
    cbn [rev]. rewrite <- app_assoc. reflexivity.
Qed.

Lemma printable_no_lf w : forallb printable w = true -> ~ In 10 w /\ ~ In 13 w /\ ~ In 32 w.
Proof.
  intros H. rewrite forallb_forall in H. repeat split; intros Hin; apply H in Hin; discriminate.
Qed.

Definition v1_body (proto sip dip sp dp : bytes) : bytes :=
  PROXY5 ++ SP ++ proto ++ SP ++ sip ++ SP ++ dip ++ SP ++ sp ++ SP ++ dp ++ [13].

Lemma v1_line_body proto sip dip sp dp rest :
  v1_line proto sip dip sp dp ++ rest = v1_body proto sip dip sp dp ++ 10 :: rest.
Proof. unfold v1_line, v1_body, CRLF. rewrite <- !app_assoc. reflexivity. Qed.

Lemma v1_line_body' proto sip dip sp dp :
  v1_line proto sip dip sp dp = v1_body proto sip dip sp dp ++ [10].
Proof. unfold v1_line, v1_body, CRLF. rewrite <- !app_assoc. reflexivity. Qed.

Lemma proxy5_prefix (x : bytes) : ztake 5 (PROXY5 ++ x) = PROXY5.
Proof. change 5 with (zlen PROXY5). apply ztake_app. Qed.

Lemma parse_proxy_v1_prefix hn x : parse_proxy_with hn (PROXY5 ++ x) = parse_v1 (PROXY5 ++ x).
Proof.
  unfold parse_proxy_with. pose proof (zlen_nonneg x).
  replace (zlen (PROXY5 ++ x) <? 5) with false by (rewrite zlen_app; change (zlen PROXY5) with 5; lia).
  rewrite proxy5_prefix. reflexivity.
Qed.

Theorem v1_exact proto sip dip sp dp rest :
  tokenb proto = true -> tokenb sip = true -> tokenb dip = true -> tokenb sp = true -> tokenb dp = true ->
  is_unknown proto = false ->
  zlen (v1_line proto sip dip sp dp) <= 256 ->
  parse_proxy (v1_line proto sip dip sp dp ++ rest) =
    (Ok (PV1 sip dip sp dp (join_host_port sip sp) (join_host_port dip dp) (atoi_or_zero sp) (atoi_or_zero dp)), rest).
Proof.
  intros H1 H2 H3 H4 H5 HU HL.
  pose proof (fields_v1_line proto sip dip sp dp H1 H2 H3 H4 H5) as HF.
  unfold parse_proxy. rewrite v1_line_body.
  unfold v1_body at 1. rewrite <- app_assoc. rewrite parse_proxy_v1_prefix. rewrite app_assoc.
  fold (v1_body proto sip dip sp dp) || idtac.
  unfold parse_v1.
  replace (PROXY5 ++ (SP ++ proto ++ SP ++ sip ++ SP ++ dip ++ SP ++ sp ++ SP ++ dp ++ [13])) with (v1_body proto sip dip sp dp) by reflexivity.
  rewrite read_line_lf.
  - cbn [rev app]. rewrite <- v1_line_body'. unfold parse_v1_line. rewrite HF. rewrite HU. reflexivity.
  - unfold v1_body. rewrite !in_app_iff.
    destruct (tokenb_spec _ H1) as [_ P1]. destruct (tokenb_spec _ H2) as [_ P2].
    destruct (tokenb_spec _ H3) as [_ P3]. destruct (tokenb_spec _ H4) as [_ P4].
    destruct (tokenb_spec _ H5) as [_ P5].
    apply printable_no_lf in P1, P2, P3, P4, P5.
    unfold PROXY5, SP. cbn [In]. intuition lia.
  - rewrite v1_line_body' in HL. rewrite zlen_app in HL. unfold zlen in HL. cbn [length] in HL. lia.
Qed.

(* atoiOrZero on a decimal numeral is its value (no int64 wrap below 2^63) *)
Definition digits_text (ds : list Z) : bytes := map (fun d => d + 48) ds.
Definition digits_value (ds : list Z) (acc : Z) : Z := fold_left (fun a d => a * 10 + d) ds acc.
Definition digits_ok (ds : list Z) : Prop := Forall (fun d => 0 <= d <= 9) ds.

Lemma digits_value_mono ds : forall acc, digits_ok ds -> 0 <= acc -> acc <= digits_value ds acc.
Proof.
  induction ds as [|d ds IH]; intros acc Hd Ha; cbn [digits_value fold_left]; [lia|].
  inversion Hd; subst. specialize (IH (acc * 10 + d) ltac:(assumption) ltac:(lia)).
  unfold digits_value in IH. lia.
Qed.

Lemma atoi_go_digits ds : forall acc, digits_ok ds -> 0 <= acc -> digits_value ds acc < 2 ^ 63 ->
  atoi_go (digits_text ds) acc = digits_value ds acc.
Proof.
  induction ds as [|d ds IH]; intros acc Hd Ha Hv; [reflexivity|].
  inversion Hd as [|? ? Hd0 Hds]; subst. cbn [digits_text map atoi_go].
  replace ((d + 48 <? 48) || (57 <? d + 48)) with false by lia.
  replace (d + 48 - 48) with d by lia.
  cbn [digits_value fold_left] in Hv.
  pose proof (digits_value_mono ds (acc * 10 + d) Hds ltac:(lia)) as Hm. unfold digits_value in Hm.
  rewrite wrap_s_64_small by lia.
  fold (digits_text ds). rewrite IH; [reflexivity|assumption|lia|exact Hv].
Qed.

Theorem atoi_decimal ds : digits_ok ds -> digits_value ds 0 < 2 ^ 63 ->
  atoi_or_zero (digits_text ds) = digits_value ds 0.
Proof. intros H1 H2. apply atoi_go_digits; [assumption|lia|assumption]. Qed.

(* finished fields are never changed by the rest of the line *)
Lemma rev_flush cur acc : exists x, rev (flush cur acc) = rev acc ++ x.
Proof.
  unfold flush. destruct cur.
  - exists []. now rewrite app_nil_r.
  - eexists. cbn [rev]. reflexivity.
Qed.

Lemma fields_aux_prefix s : forall k cur acc, exists tl, fields_aux s k cur acc = rev acc ++ tl.
Proof.
  induction s as [|b s IH]; intros k cur acc; cbn [fields_aux].
  - apply rev_flush.
  - destruct k as [|k]; [|apply IH].
    destruct (space_len (b :: s)) as [|n]; [apply IH|].
    destruct (IH n [] (flush cur acc)) as [tl ->]. destruct (rev_flush cur acc) as [x ->].
    exists (x ++ tl). now rewrite app_assoc.
Qed.

Theorem v1_unknown_exact junk rest :
  (junk = [] \/ exists j, junk = 32 :: j) -> ~ In 10 junk ->
  zlen (v1_unknown junk) <= 256 ->
  parse_proxy (v1_unknown junk ++ rest) = (Ok PLocal, rest).
Proof.
  intros HJ HN HL. unfold parse_proxy, v1_unknown in *.
  rewrite <- app_assoc. rewrite parse_proxy_v1_prefix. unfold parse_v1.
  replace (PROXY5 ++ (SP ++ UNKNOWN ++ junk ++ CRLF) ++ rest)
    with ((PROXY5 ++ SP ++ UNKNOWN ++ junk ++ [13]) ++ 10 :: rest)
    by (unfold CRLF; rewrite <- !app_assoc; reflexivity).
  rewrite read_line_lf.
  - cbn [rev app]. unfold parse_v1_line.
    assert (exists tl, fields ((PROXY5 ++ SP ++ UNKNOWN ++ junk ++ [13]) ++ [10]) = PROXY5 :: UNKNOWN :: tl) as [tl ->].
    { unfold fields. rewrite <- !app_assoc. rewrite (fields_aux_token_sp PROXY5) by reflexivity.
      destruct HJ as [->|[j ->]].
      - cbn [app]. eexists. reflexivity.
      - change ((32 :: j) ++ [13] ++ [10]) with (SP ++ j ++ [13] ++ [10]).
        rewrite (fields_aux_token_sp UNKNOWN (j ++ [13] ++ [10]) [PROXY5]) by reflexivity.
        destruct (fields_aux_prefix (j ++ [13] ++ [10]) O [] [UNKNOWN; PROXY5]) as [tl ->]. eexists. reflexivity. }
    reflexivity.
  - rewrite !in_app_iff. unfold PROXY5, SP, UNKNOWN. cbn [In]. intuition lia.
  - unfold zlen, CRLF in HL. rewrite !app_length in *. cbn [length] in *. lia.
Qed.
