(* Proofs about model/ProxyProto.v (C26). *)
From KS Require Import lib.Base lib.Wire model.ProxyProto.
From Coq Require Import ZifyBool.
Open Scope Z_scope.

(* ---------------------------------------------------------------- slices *)
Lemma gslice_ok (l : bytes) lo hi : 0 <= lo -> lo <= hi -> hi <= zlen l ->
  gslice l lo hi = Ok (ztake (hi - lo) (zdrop lo l)).
Proof.
  intros H1 H2 H3. unfold gslice.
  replace ((0 <=? lo) && (lo <=? hi) && (hi <=? zlen l)) with true by lia. reflexivity.
Qed.

Lemma zlen_slice (l : bytes) lo hi : 0 <= lo -> lo <= hi -> hi <= zlen l ->
  zlen (ztake (hi - lo) (zdrop lo l)) = hi - lo.
Proof.
  intros H1 H2 H3. rewrite zlen_ztake; [reflexivity|]. rewrite zlen_zdrop by lia. lia.
Qed.

Lemma list_len2 (l : bytes) : zlen l = 2 -> exists a b, l = [a; b].
Proof.
  destruct l as [|a [|b [|c l]]]; unfold zlen; cbn [length]; intros H; try lia. eauto.
Qed.

Lemma port_at_ok p i : 0 <= i -> i + 2 <= zlen p -> exists v, port_at p i = Ok v.
Proof.
  intros H1 H2. unfold port_at. rewrite gslice_ok by lia. cbn [bind].
  destruct (list_len2 (ztake (i + 2 - i) (zdrop i p))) as (a & b & E).
  { rewrite zlen_slice by lia. lia. }
  rewrite E. eauto.
Qed.

Definition safe {A} (o : outcome A) : Prop :=
  match o with Panic _ => False | OutOfFuel => False | _ => True end.

Lemma parse_inet_safe p : safe (parse_inet p).
Proof.
  unfold parse_inet. destruct (zlen p <? 12) eqn:E; [exact I|].
  rewrite !gslice_ok by lia. cbn [bind].
  destruct (port_at_ok p 8) as [sp ->]; [lia|lia|].
  destruct (port_at_ok p 10) as [dp ->]; [lia|lia|]. exact I.
Qed.

Lemma parse_inet6_safe p : safe (parse_inet6 p).
Proof.
  unfold parse_inet6. destruct (zlen p <? 36) eqn:E; [exact I|].
  rewrite !gslice_ok by lia. cbn [bind].
  destruct (port_at_ok p 32) as [sp ->]; [lia|lia|].
  destruct (port_at_ok p 34) as [dp ->]; [lia|lia|]. exact I.
Qed.

Lemma read_line_safe s : forall room acc, safe (fst (read_line s room acc)).
Proof.
  induction s as [|b s IH]; intros [|k] acc; cbn [read_line fst]; try exact I.
  destruct (b =? 10); [exact I|apply IH].
Qed.

Lemma parse_v1_line_safe line : safe (parse_v1_line line).
Proof.
  unfold parse_v1_line. destruct (fields line) as [|p0 [|p1 ps]]; try exact I.
  destruct (is_unknown p1); [exact I|].
  destruct ps as [|a [|b [|c [|d ps]]]]; exact I.
Qed.

Lemma parse_v1_safe s : safe (fst (parse_v1 s)).
Proof.
  unfold parse_v1. pose proof (read_line_safe s 256 []) as H.
  destruct (read_line s 256 []) as [[line|e|w|] rest]; cbn [fst] in *; try exact I; try contradiction.
  apply parse_v1_line_safe.
Qed.

Lemma parse_v2_safe hn s : bytes_ok s -> safe (fst (parse_v2 hn s)).
Proof.
  intros Hs. unfold parse_v2. destruct (zlen s <? 16) eqn:E16; [exact I|].
  assert (zlen (ztake 16 s) = 16) as L16 by (apply zlen_ztake; lia).
  rewrite gslice_ok by lia.
  destruct (negb (bytes_eqb (ztake (12 - 0) (zdrop 0 (ztake 16 s))) SIG12)); [exact I|].
  pose proof (be16_range _ _ (nth_byte_ok (ztake 16 s) 14 (bytes_ok_ztake 16 s Hs))
                             (nth_byte_ok (ztake 16 s) 15 (bytes_ok_ztake 16 s Hs))) as Hl.
  destruct (be16 (nth 14 (ztake 16 s) 0) (nth 15 (ztake 16 s) 0) <? 0) eqn:El; [lia|].
  destruct (zlen (zdrop 16 s) <? _); [exact I|].
  destruct (nth 12 (ztake 16 s) 0 mod 16 =? 0); [exact I|].
  destruct ((if hn then _ else _) =? 1); [apply parse_inet_safe|].
  destruct ((if hn then _ else _) =? 2); [apply parse_inet6_safe|]. exact I.
Qed.

Theorem no_panic s : bytes_ok s -> safe (fst (parse_proxy s)).
Proof.
  intros Hs. unfold parse_proxy, parse_proxy_with.
  destruct (zlen s <? 5); [exact I|].
  destruct (bytes_eqb (ztake 5 s) PROXY5); [apply parse_v1_safe|].
  destruct (bytes_eqb (ztake 5 s) SIG5); [|exact I].
  destruct (zlen s <? 12); [exact I|].
  destruct (bytes_eqb (ztake 12 s) SIG12); [apply parse_v2_safe; exact Hs|exact I].
Qed.

Theorem passthrough s :
  ztake 5 s <> PROXY5 -> (12 <= zlen s -> ztake 12 s <> SIG12) -> (zlen s < 12 -> ztake 5 s <> SIG5) ->
  parse_proxy s = (Ok PNone, s).
Proof.
  intros H1 H2 H3. unfold parse_proxy, parse_proxy_with.
  destruct (zlen s <? 5) eqn:E5; [reflexivity|].
  apply bytes_eqb_neq in H1. rewrite H1.
  destruct (bytes_eqb (ztake 5 s) SIG5) eqn:ES; [|reflexivity].
  destruct (zlen s <? 12) eqn:E12.
  - exfalso. apply H3; [lia|]. apply bytes_eqb_eq. exact ES.
  - specialize (H2 ltac:(lia)). apply bytes_eqb_neq in H2. rewrite H2. reflexivity.
Qed.
