(* C17: a relation between the in-memory and the etcd store model that every
   operation of the proven fragment preserves, with equal answers.
   Proven fragment: CreateTopic, CreatePartitions, UpdateOffsets, NextOffset,
   CommitConsumerOffset, FetchConsumerOffset, LookupConsumerOffset, PutConsumerGroup,
   FetchConsumerGroup, DeleteConsumerGroup, FetchTopicConfig, Metadata — for topic
   names that are non-empty and contain no '/', any group id.
   Not covered by this proof (covered by the differential correspondence check only):
   DeleteTopic, UpdateTopicConfig and the two listing operations. *)
From KS Require Import lib.Base lib.Strings lib.Paths model.MetaStore proofs.MetaStoreProofs proofs.MetaStoreKeys.
Open Scope Z_scope.

Definition topic_ok (t : bytes) : Prop := t <> [] /\ noslash t.

Definition op_in_fragment (o : op) : Prop :=
  match o with
  | OCreateTopic n _ _ | OCreatePartitions n _ => True
  | OUpdateOffsets t _ _ | ONextOffset t _ | OFetchCfg t => topic_ok t
  | OCommit _ t _ _ _ | OFetchOffset _ t _ | OLookupOffset _ t _ => topic_ok t
  | OPutGroup _ | OFetchGroup _ | ODeleteGroup _ | OMetadata _ => True
  | ODeleteTopic _ | OUpdateCfg _ | OListOffsets | OListGroups => False
  | OUpdate _ _ => False
  end.

Record R (im : inmem) (et : etcd) : Prop := mkR {
  r_brokers : im_brokers (et_meta et) = im_brokers im;
  r_topics : im_topics (et_meta et) = im_topics im;
  r_cfgs : im_cfgs (et_meta et) = im_cfgs im;
  r_nocfg : et_cfg et = [];
  r_off : forall t p, noslash t -> aget pkey_eqb (t, p) (im_offsets im) = aget bytes_eqb (offset_key t p) (et_noff et);
  r_coff : forall g t p, noslash t -> aget ckey_eqb (g, t, p) (im_coff im) = aget bytes_eqb (coff_key g t p) (et_coff et);
  r_groups : forall id, aget bytes_eqb id (im_groups im) = aget bytes_eqb (group_key id) (et_groups et) }.

Lemma R_init b : R (im_new b) (et_new b).
Proof. constructor; intros; reflexivity. Qed.

Lemma group_key_inj a b : group_key a = group_key b -> a = b.
Proof.
  unfold group_key. intros E. apply app_inv_head in E. apply (f_equal (@tl Z)) in E. cbn [tl] in E.
  now apply app_inv_tail in E.
Qed.

Lemma topic_parts_eq im et t : R im et -> topic_parts (et_meta et) t = topic_parts im t.
Proof. intros H. unfold topic_parts. now rewrite (r_topics _ _ H). Qed.

Lemma has_partition_eq im et t p : R im et -> has_partition (et_meta et) t p = has_partition im t p.
Proof. intros H. unfold has_partition. now rewrite (topic_parts_eq _ _ _ H). Qed.

(* the topic/config part of a store after CreateTopic / CreatePartitions depends only
   on the brokers, topics and configs it had *)
Lemma im_create_topic_meta a b n parts rf :
  im_brokers a = im_brokers b -> im_topics a = im_topics b -> im_cfgs a = im_cfgs b ->
  snd (im_create_topic a n parts rf) = snd (im_create_topic b n parts rf) /\
  im_brokers (fst (im_create_topic a n parts rf)) = im_brokers (fst (im_create_topic b n parts rf)) /\
  im_topics (fst (im_create_topic a n parts rf)) = im_topics (fst (im_create_topic b n parts rf)) /\
  im_cfgs (fst (im_create_topic a n parts rf)) = im_cfgs (fst (im_create_topic b n parts rf)) /\
  im_offsets (fst (im_create_topic a n parts rf)) = im_offsets a /\
  im_coff (fst (im_create_topic a n parts rf)) = im_coff a /\
  im_groups (fst (im_create_topic a n parts rf)) = im_groups a.
Proof.
  intros Hb Ht Hc. unfold im_create_topic, topic_parts. rewrite Hb, Ht, Hc.
  destruct (negb (valid_topic_name n) || (parts <=? 0)); [cbn; auto 10|].
  destruct (aget bytes_eqb n (im_topics b)); [cbn; auto 10|].
  destruct (im_brokers b <? (if rf <=? 0 then 1 else rf)); cbn; auto 10.
Qed.

Lemma im_create_partitions_meta a b n cnt :
  im_brokers a = im_brokers b -> im_topics a = im_topics b -> im_cfgs a = im_cfgs b ->
  snd (im_create_partitions a n cnt) = snd (im_create_partitions b n cnt) /\
  im_brokers (fst (im_create_partitions a n cnt)) = im_brokers (fst (im_create_partitions b n cnt)) /\
  im_topics (fst (im_create_partitions a n cnt)) = im_topics (fst (im_create_partitions b n cnt)) /\
  im_cfgs (fst (im_create_partitions a n cnt)) = im_cfgs (fst (im_create_partitions b n cnt)) /\
  im_offsets (fst (im_create_partitions a n cnt)) = im_offsets a /\
  im_coff (fst (im_create_partitions a n cnt)) = im_coff a /\
  im_groups (fst (im_create_partitions a n cnt)) = im_groups a.
Proof.
  intros Hb Ht Hc. unfold im_create_partitions, topic_parts. rewrite Ht, Hc.
  destruct n; [cbn; auto 10|].
  destruct (cnt <=? 0); [cbn; auto 10|].
  destruct (aget bytes_eqb (z :: n) (im_topics b)); [|cbn; auto 10].
  destruct (cnt <=? z0); cbn; auto 10.
Qed.

Theorem step_preserves im et o :
  R im et -> op_in_fragment o ->
  snd (im_step im o) = snd (et_step et o) /\ R (fst (im_step im o)) (fst (et_step et o)).
Proof.
  intros H Hf. destruct o; cbn in Hf; try contradiction.
  - (* CreateTopic *)
    cbn [im_step et_step].
    destruct (im_create_topic_meta (et_meta et) im n parts rf (r_brokers _ _ H) (r_topics _ _ H) (r_cfgs _ _ H))
      as (Er & Eb & Et & Ec & Eo & Eco & Eg).
    destruct (im_create_topic_meta im im n parts rf eq_refl eq_refl eq_refl) as (_ & _ & _ & _ & Io & Ico & Ig).
    destruct (im_create_topic (et_meta et) n parts rf) as [m' r'] eqn:E1.
    destruct (im_create_topic im n parts rf) as [im' r] eqn:E2. cbn [fst snd] in *.
    split; [congruence|].
    constructor; cbn [eset_meta et_meta et_cfg et_noff et_coff et_groups]; try assumption.
    + exact (r_nocfg _ _ H).
    + intros t p Ht. rewrite Io. now apply (r_off _ _ H).
    + intros g t p Ht. rewrite Ico. now apply (r_coff _ _ H).
    + intros id. rewrite Ig. apply (r_groups _ _ H).
  - (* CreatePartitions *)
    cbn [im_step et_step]. unfold et_create_partitions.
    rewrite (topic_parts_eq _ _ _ H).
    destruct (im_create_partitions_meta (et_meta et) im n cnt (r_brokers _ _ H) (r_topics _ _ H) (r_cfgs _ _ H))
      as (Er & Eb & Et & Ec & _ & _ & _).
    destruct (im_create_partitions_meta im im n cnt eq_refl eq_refl eq_refl) as (_ & _ & _ & _ & Io & Ico & Ig).
    destruct (im_create_partitions (et_meta et) n cnt) as [m' r'] eqn:E1. cbn [fst snd] in *. subst r'.
    destruct n as [|c n]; [cbn; split; [reflexivity|exact H]|].
    destruct (cnt <=? 0) eqn:Ecnt;
      [unfold im_create_partitions; rewrite Ecnt; cbn; split; [reflexivity|exact H]|].
    destruct (topic_parts im (c :: n)) as [cur|] eqn:Etp;
      [|unfold im_create_partitions; rewrite Ecnt, Etp; cbn; split; [reflexivity|exact H]].
    destruct (cnt <=? cur) eqn:Ecur;
      [unfold im_create_partitions; rewrite Ecnt, Etp, Ecur; cbn; split; [reflexivity|exact H]|].
    assert (snd (im_create_partitions im (c :: n) cnt) = RErr ENone) as Es
      by (unfold im_create_partitions; rewrite Ecnt, Etp, Ecur; reflexivity).
    rewrite Es. cbn [eset_meta eset_pstate et_cfg et_meta]. rewrite (r_nocfg _ _ H). cbn [aget].
    split; [reflexivity|].
    constructor; cbn [eset_meta eset_pstate et_meta et_cfg et_noff et_coff et_groups fst]; try assumption.
    + exact (r_nocfg _ _ H).
    + intros t p Ht. rewrite Io. now apply (r_off _ _ H).
    + intros g t p Ht. rewrite Ico. now apply (r_coff _ _ H).
    + intros id. rewrite Ig. apply (r_groups _ _ H).
  - (* UpdateOffsets *)
    cbn [im_step et_step fst snd]. split; [reflexivity|].
    destruct H. constructor; cbn [set_groups eset_groups set_offsets eset_noff set_coff eset_coff im_brokers im_topics im_cfgs im_offsets im_coff im_groups et_meta et_cfg et_noff et_coff et_groups et_pstate]; try assumption.
    intros t' p' Ht'. destruct (pkey_eqb (t', p') (t, p)) eqn:E.
    + apply pkey_eqb_spec in E. inversion E; subst.
      rewrite (aget_aput_same _ pkey_eqb_spec), (aget_aput_same _ bytes_eqb_eq). reflexivity.
    + assert ((t', p') <> (t, p)) as N1
        by (intros Ek; rewrite Ek, (proj2 (pkey_eqb_spec _ _) eq_refl) in E; discriminate).
      assert (offset_key t' p' <> offset_key t p) as N2.
      { intros Ek. apply offset_key_inj in Ek as [-> ->]; [|exact Ht'|exact (proj2 Hf)]. now apply N1. }
      rewrite (aget_aput_other _ pkey_eqb_spec _ _ _ _ N1), (aget_aput_other _ bytes_eqb_eq _ _ _ _ N2).
      now apply r_off0.
  - (* NextOffset *)
    cbn [im_step et_step]. rewrite (has_partition_eq _ _ _ _ H).
    destruct (has_partition im t p); cbn [fst snd]; (split; [|exact H]); [|reflexivity].
    now rewrite (r_off _ _ H t p (proj2 Hf)).
  - (* Commit *)
    cbn [im_step et_step fst snd]. split; [reflexivity|].
    destruct H. constructor; cbn [set_groups eset_groups set_offsets eset_noff set_coff eset_coff im_brokers im_topics im_cfgs im_offsets im_coff im_groups et_meta et_cfg et_noff et_coff et_groups et_pstate]; try assumption.
    intros g' t' p' Ht'. destruct (ckey_eqb (g', t', p') (g, t, p)) eqn:E.
    + apply ckey_eqb_spec in E. inversion E; subst.
      rewrite (aget_aput_same _ ckey_eqb_spec), (aget_aput_same _ bytes_eqb_eq). reflexivity.
    + assert ((g', t', p') <> (g, t, p)) as N1
        by (intros Ek; rewrite Ek, (proj2 (ckey_eqb_spec _ _) eq_refl) in E; discriminate).
      assert (coff_key g' t' p' <> coff_key g t p) as N2.
      { intros Ek. apply coff_key_inj in Ek as (-> & -> & ->); [|exact Ht'|exact (proj2 Hf)]. now apply N1. }
      rewrite (aget_aput_other _ ckey_eqb_spec _ _ _ _ N1), (aget_aput_other _ bytes_eqb_eq _ _ _ _ N2).
      now apply r_coff0.
  - (* FetchOffset *)
    cbn [im_step et_step]. unfold im_lookup, et_lookup. rewrite (r_coff _ _ H g t p (proj2 Hf)).
    destruct (aget bytes_eqb (coff_key g t p) (et_coff et)) as [[o m]|]; cbn; auto.
  - (* LookupOffset *)
    cbn [im_step et_step]. unfold im_lookup, et_lookup. rewrite (r_coff _ _ H g t p (proj2 Hf)).
    destruct (aget bytes_eqb (coff_key g t p) (et_coff et)) as [[o m]|]; cbn; auto.
  - (* PutGroup *)
    cbn [im_step et_step]. destruct (g_id g) as [|c id] eqn:Eid; cbn [fst snd]; [split; [reflexivity|exact H]|].
    split; [reflexivity|]. destruct H. constructor; cbn [set_groups eset_groups set_offsets eset_noff set_coff eset_coff im_brokers im_topics im_cfgs im_offsets im_coff im_groups et_meta et_cfg et_noff et_coff et_groups et_pstate]; try assumption.
    intros id'. destruct (bytes_eqb id' (c :: id)) eqn:E.
    + apply bytes_eqb_eq in E. subst id'.
      rewrite !(aget_aput_same _ bytes_eqb_eq). reflexivity.
    + apply bytes_eqb_neq in E.
      assert (group_key id' <> group_key (c :: id)) as N2 by (intros Ek; apply group_key_inj in Ek; contradiction).
      rewrite (aget_aput_other _ bytes_eqb_eq _ _ _ _ E), (aget_aput_other _ bytes_eqb_eq _ _ _ _ N2).
      apply r_groups0.
  - (* FetchGroup *)
    cbn [im_step et_step fst snd]. rewrite (r_groups _ _ H). auto.
  - (* DeleteGroup *)
    cbn [im_step et_step fst snd]. split; [reflexivity|]. destruct H. constructor; cbn [set_groups eset_groups set_offsets eset_noff set_coff eset_coff im_brokers im_topics im_cfgs im_offsets im_coff im_groups et_meta et_cfg et_noff et_coff et_groups et_pstate]; try assumption.
    intros id'. unfold adel. rewrite !(aget_adel_if _ bytes_eqb_eq).
    destruct (bytes_eqb id id') eqn:E.
    + apply bytes_eqb_eq in E. subst. now rewrite bytes_eqb_refl.
    + apply bytes_eqb_neq in E.
      destruct (bytes_eqb (group_key id) (group_key id')) eqn:E2; [|apply r_groups0].
      apply bytes_eqb_eq in E2. apply group_key_inj in E2. contradiction.
  - (* FetchCfg *)
    cbn [im_step et_step fst snd]. split; [|exact H]. unfold et_fetch_cfg.
    destruct t as [|c t]; [exfalso; now apply (proj1 Hf)|].
    rewrite (r_nocfg _ _ H). cbn [aget]. unfold im_fetch_cfg.
    now rewrite (topic_parts_eq _ _ _ H), (r_cfgs _ _ H).
  - (* Metadata *)
    cbn [im_step et_step fst snd]. split; [|exact H]. unfold metadata_of, topic_parts.
    now rewrite (r_topics _ _ H).
Qed.

Theorem run_bisim ops : forall im et,
  R im et -> Forall op_in_fragment ops ->
  snd (im_run im ops) = snd (et_run et ops) /\ R (fst (im_run im ops)) (fst (et_run et ops)).
Proof.
  induction ops as [|o ops IH]; intros im et H Hf; [split; [reflexivity|exact H]|].
  inversion Hf as [|? ? Hf1 Hf2]; subst.
  destruct (step_preserves im et o H Hf1) as [Er H'].
  cbn [im_run et_run].
  destruct (im_step im o) as [im' r] eqn:E1. destruct (et_step et o) as [et' r'] eqn:E2.
  cbn [fst snd] in *. destruct (IH im' et' H' Hf2) as [Ers H''].
  destruct (im_run im' ops) as [im2 rs]. destruct (et_run et' ops) as [et2 rs'].
  cbn [fst snd] in *. split; [congruence|exact H''].
Qed.
