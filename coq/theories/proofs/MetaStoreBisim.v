(* C17: a relation between the in-memory and the etcd store model that every one of the
   sixteen Store operations preserves, with equal answers, for group and topic names
   that are non-empty and contain no '/' and int32 partitions. *)
From KS Require Import lib.Base lib.Strings lib.Paths model.MetaStore
  proofs.MetaStoreProofs proofs.MetaStoreKeys proofs.MetaStoreParse.
Open Scope Z_scope.

(* ---------------------------------------------------------------- maps under a key translation *)
Definition mapk {K V} (f : K -> bytes) (l : list (K * V)) : list (bytes * V) :=
  map (fun kv => (f (fst kv), snd kv)) l.

Section MapK.
  Context {K V : Type} (eqb : K -> K -> bool) (f : K -> bytes) (P : K -> Prop).
  Hypothesis eqb_spec : forall a b, eqb a b = true <-> a = b.
  Hypothesis f_inj : forall a b, P a -> P b -> f a = f b -> a = b.

  Lemma eqb_f a b : P a -> P b -> bytes_eqb (f a) (f b) = eqb a b.
  Proof.
    intros Pa Pb. destruct (eqb a b) eqn:E.
    - apply eqb_spec in E. subst. apply bytes_eqb_refl.
    - apply bytes_eqb_neq. intros H. apply f_inj in H; auto. subst.
      rewrite (proj2 (eqb_spec b b) eq_refl) in E. discriminate.
  Qed.

  Lemma aget_mapk k (l : list (K * V)) :
    P k -> Forall P (map fst l) -> aget bytes_eqb (f k) (mapk f l) = aget eqb k l.
  Proof.
    intros Pk. induction l as [|[k' v] l IH]; intros Hl; [reflexivity|].
    inversion Hl as [|? ? Pk' Hl']; subst. cbn [mapk map aget fst snd].
    rewrite (eqb_f k k' Pk Pk'). destruct (eqb k k'); [reflexivity|]. now apply IH.
  Qed.

  Lemma aput_mapk k (v : V) (l : list (K * V)) :
    P k -> Forall P (map fst l) -> mapk f (aput eqb k v l) = aput bytes_eqb (f k) v (mapk f l).
  Proof.
    intros Pk. induction l as [|[k' v'] l IH]; intros Hl; [reflexivity|].
    inversion Hl as [|? ? Pk' Hl']; subst. cbn [mapk map aput fst snd].
    rewrite (eqb_f k k' Pk Pk'). destruct (eqb k k'); [reflexivity|].
    cbn [map fst snd]. f_equal. now apply IH.
  Qed.

  Lemma adel_if_mapk (drop : K -> bool) (drop' : bytes -> bool) (l : list (K * V)) :
    (forall k, P k -> drop' (f k) = drop k) -> Forall P (map fst l) ->
    mapk f (adel_if drop l) = adel_if drop' (mapk f l).
  Proof.
    intros Hd. unfold adel_if. induction l as [|[k' v'] l IH]; intros Hl; [reflexivity|].
    inversion Hl as [|? ? Pk' Hl']; subst. cbn [mapk map filter fst snd].
    rewrite (Hd k' Pk'). destruct (drop k'); cbn [negb map fst snd]; [now apply IH|].
    f_equal. now apply IH.
  Qed.

  Lemma ok_aput k (v : V) (l : list (K * V)) :
    P k -> Forall P (map fst l) -> Forall P (map fst (aput eqb k v l)).
  Proof.
    intros Pk. induction l as [|[k' v'] l IH]; intros Hl; cbn [aput map fst].
    - constructor; auto.
    - inversion Hl; subst. destruct (eqb k k'); cbn [map fst]; constructor; auto.
  Qed.

  Lemma ok_adel_if (drop : K -> bool) (l : list (K * V)) :
    Forall P (map fst l) -> Forall P (map fst (adel_if drop l)).
  Proof.
    unfold adel_if. induction l as [|[k' v'] l IH]; intros Hl; [constructor|].
    inversion Hl; subst. cbn [filter fst]. destruct (drop k'); cbn [negb map fst]; auto.
  Qed.
End MapK.

(* ---------------------------------------------------------------- the relation *)
Definition ck_str (k : ckey) : bytes := coff_key (fst (fst k)) (snd (fst k)) (snd k).
Definition ck_ok (k : ckey) : Prop :=
  name_ok (fst (fst k)) /\ name_ok (snd (fst k)) /\ int32_ok (snd k) = true.

Lemma ck_str_inj a b : ck_ok a -> ck_ok b -> ck_str a = ck_str b -> a = b.
Proof.
  destruct a as [[g t] p], b as [[g' t'] p']. unfold ck_ok, ck_str. cbn [fst snd].
  intros (_ & [_ Ht] & _) (_ & [_ Ht'] & _) E. apply coff_key_inj in E as (-> & -> & ->); auto.
Qed.

Lemma group_key_inj a b : group_key a = group_key b -> a = b.
Proof.
  unfold group_key. intros E. apply app_inv_head in E. apply (f_equal (@tl Z)) in E. cbn [tl] in E.
  now apply app_inv_tail in E.
Qed.

Definition op_ok (o : op) : Prop :=
  match o with
  | OCreateTopic _ _ _ | OMetadata _ | OListOffsets | OListGroups => True
  | ODeleteTopic t | OCreatePartitions t _ | OUpdateOffsets t _ _ | ONextOffset t _ | OFetchCfg t => name_ok t
  | OCommit g t p _ _ | OFetchOffset g t p | OLookupOffset g t p => name_ok g /\ name_ok t /\ int32_ok p = true
  | OPutGroup g => noslash (g_id g)
  | OFetchGroup id | ODeleteGroup id => name_ok id
  | OUpdateCfg c => name_ok (c_name c)
  | OUpdate _ _ => False
  end.

Record R (im : inmem) (et : etcd) : Prop := mkR {
  r_brokers : im_brokers (et_meta et) = im_brokers im;
  r_topics : im_topics (et_meta et) = im_topics im;
  r_cfgs : im_cfgs (et_meta et) = im_cfgs im;
  r_off : forall t p, noslash t ->
          aget pkey_eqb (t, p) (im_offsets im) = aget bytes_eqb (offset_key t p) (et_noff et);
  r_coff : et_coff et = mapk ck_str (im_coff im);
  r_coff_ok : Forall ck_ok (map fst (im_coff im));
  r_groups : et_groups et = mapk group_key (im_groups im);
  r_groups_ok : Forall name_ok (map fst (im_groups im));
  r_cfg : forall t, name_ok t ->
          match aget bytes_eqb (topic_config_key t) (et_cfg et) with
          | Some c => aget bytes_eqb t (im_cfgs im) = Some c /\ topic_parts im t <> None
          | None => True
          end }.

Lemma R_init b : R (im_new b) (et_new b).
Proof. constructor; intros; try reflexivity; try constructor. Qed.

Lemma topic_parts_eq im et t : R im et -> topic_parts (et_meta et) t = topic_parts im t.
Proof. intros H. unfold topic_parts. now rewrite (r_topics _ _ H). Qed.

Lemma has_partition_eq im et t p : R im et -> has_partition (et_meta et) t p = has_partition im t p.
Proof. intros H. unfold has_partition. now rewrite (topic_parts_eq _ _ _ H). Qed.

(* ---------------------------------------------------------------- small facts *)
Lemma aget_app_l {V} k (l1 l2 : list (bytes * V)) v :
  aget bytes_eqb k l1 = Some v -> aget bytes_eqb k (l1 ++ l2) = Some v.
Proof.
  induction l1 as [|[k' v'] l1 IH]; cbn; [discriminate|]. destruct (bytes_eqb k k'); auto.
Qed.

Lemma aget_app_none {V} k (l1 l2 : list (bytes * V)) :
  aget bytes_eqb k l1 = None -> aget bytes_eqb k (l1 ++ l2) = aget bytes_eqb k l2.
Proof.
  induction l1 as [|[k' v'] l1 IH]; cbn; [reflexivity|]. destruct (bytes_eqb k k'); [discriminate|auto].
Qed.

Lemma prefix_hits_offset n t p : noslash n -> noslash t ->
  has_prefix (topic_delete_prefix n) (offset_key t p) = bytes_eqb n t.
Proof.
  intros Hn Ht. destruct (bytes_eqb n t) eqn:E.
  - apply bytes_eqb_eq in E. subst. apply delete_prefix_own.
  - apply bytes_eqb_neq in E. now apply delete_prefix_free.
Qed.

Lemma prefix_hits_cfg n t : noslash n -> noslash t ->
  has_prefix (topic_delete_prefix n) (topic_config_key t) = bytes_eqb n t.
Proof.
  intros Hn Ht. destruct (bytes_eqb n t) eqn:E.
  - apply bytes_eqb_eq in E. subst. apply (delete_prefix_own t 0).
  - apply bytes_eqb_neq in E. now apply (delete_prefix_free n t 0).
Qed.

Lemma cfg_norm_idem c cur : cfg_norm (cfg_norm c cur) cur = cfg_norm c cur.
Proof.
  unfold cfg_norm. destruct (c_parts c =? 0) eqn:E.
  - destruct c; cbn in *. destruct (cur =? 0); reflexivity.
  - now rewrite E.
Qed.

Lemma cfg_norm_name c cur : c_name (cfg_norm c cur) = c_name c.
Proof. unfold cfg_norm. destruct (c_parts c =? 0); reflexivity. Qed.

Lemma valid_name_ok n : valid_topic_name n = true -> name_ok n.
Proof. intros H. destruct (accepted_facts n H) as ((Hne & _) & Hs & _). split; assumption. Qed.

(* listings *)
Lemma list_offsets_eq (l : list (ckey * (Z * bytes))) :
  Forall ck_ok (map fst l) ->
  filter_map (fun e : bytes * (Z * bytes) => match parse_coff_key (fst e) with
                     | Some k => Some (k, fst (snd e))
                     | None => None
                     end) (mapk ck_str l)
  = map (fun e => (fst e, fst (snd e))) l.
Proof.
  induction l as [|[[[g t] p] v] l IH]; intros Hl; [reflexivity|].
  inversion Hl as [|? ? Hk Hl']; subst. destruct Hk as (Hg & Ht & Hp). cbn [fst snd] in *.
  unfold filter_map in *. cbn [mapk map flat_map fst snd]. unfold ck_str at 1. cbn [fst snd].
  rewrite (parse_coff_key_build g t p Hg Ht Hp). cbn [app]. f_equal. now apply IH.
Qed.

Lemma list_groups_eq (l : list (bytes * group)) :
  Forall name_ok (map fst l) ->
  filter_map (fun e : bytes * group => match parse_group_key (fst e) with
                     | Some _ => Some (snd e)
                     | None => None
                     end) (mapk group_key l)
  = map snd l.
Proof.
  induction l as [|[id g] l IH]; intros Hl; [reflexivity|].
  inversion Hl as [|? ? Hk Hl']; subst. cbn [fst] in Hk.
  unfold filter_map in *. cbn [mapk map flat_map fst snd].
  rewrite (parse_group_key_build id Hk). cbn [app]. f_equal. now apply IH.
Qed.

Ltac sf := cbn [set_topics set_offsets set_coff set_groups set_cfgs eset_meta eset_noff eset_cfg eset_pstate
                eset_groups eset_coff im_brokers im_topics im_offsets im_coff im_groups im_cfgs
                et_meta et_noff et_cfg et_pstate et_groups et_coff fst snd].

(* ---------------------------------------------------------------- CreateTopic *)
Lemma step_create_topic im et n parts rf : R im et ->
  snd (im_step im (OCreateTopic n parts rf)) = snd (et_step et (OCreateTopic n parts rf)) /\
  R (fst (im_step im (OCreateTopic n parts rf))) (fst (et_step et (OCreateTopic n parts rf))).
Proof.
  intros H. cbn [im_step et_step]. unfold im_create_topic, topic_parts.
  rewrite (r_brokers _ _ H), (r_topics _ _ H), (r_cfgs _ _ H).
  destruct (negb (valid_topic_name n) || (parts <=? 0)) eqn:Ev; [split; [reflexivity|sf; destruct H; constructor; sf; assumption]|].
  destruct (aget bytes_eqb n (im_topics im)) eqn:Et; [split; [reflexivity|sf; destruct H; constructor; sf; assumption]|].
  destruct (im_brokers im <? (if rf <=? 0 then 1 else rf)); [split; [reflexivity|sf; destruct H; constructor; sf; assumption]|].
  split; [reflexivity|]. sf. destruct H. constructor; sf; try assumption; try reflexivity.
  intros t Ht. specialize (r_cfg0 t Ht).
    destruct (aget bytes_eqb (topic_config_key t) (et_cfg et)) as [c|]; [|exact I].
    destruct r_cfg0 as [Hc Hp]. unfold topic_parts in *. sf.
    assert (t <> n) as Hne by (intros ->; congruence).
    rewrite (aget_aput_other _ bytes_eqb_eq _ _ _ _ Hne). split; [exact Hc|].
    destruct (aget bytes_eqb t (im_topics im)) as [k|] eqn:E; [|congruence].
    rewrite (aget_app_l _ _ _ _ E). discriminate.
Qed.

(* ---------------------------------------------------------------- CreatePartitions *)
Lemma step_create_partitions im et n cnt : R im et -> name_ok n ->
  snd (im_step im (OCreatePartitions n cnt)) = snd (et_step et (OCreatePartitions n cnt)) /\
  R (fst (im_step im (OCreatePartitions n cnt))) (fst (et_step et (OCreatePartitions n cnt))).
Proof.
  intros H [Hne Hns]. cbn [im_step et_step]. unfold et_create_partitions, im_create_partitions.
  rewrite (topic_parts_eq _ _ _ H). unfold topic_parts at 2. rewrite (r_topics _ _ H), (r_cfgs _ _ H).
  destruct n as [|c0 n0]; [congruence|]. set (n := c0 :: n0) in *.
  destruct (cnt <=? 0); [split; [reflexivity|exact H]|].
  unfold topic_parts.
  destruct (aget bytes_eqb n (im_topics im)) as [cur|] eqn:Et; [|split; [reflexivity|exact H]].
  destruct (cnt <=? cur); [split; [reflexivity|exact H]|].
  sf. pose proof (r_cfg _ _ H n (conj Hne Hns)) as Hcn.
  destruct (aget bytes_eqb (topic_config_key n) (et_cfg et)) as [c|] eqn:Ec; sf; (split; [reflexivity|]).
  - destruct Hcn as [Hc _]. rewrite Hc.
    destruct H. constructor; sf; try assumption; try reflexivity;
      try (now rewrite r_topics0); try (now rewrite ?r_cfgs0, ?Hc).
    + intros t Ht. destruct (bytes_eqb t n) eqn:E.
      * apply bytes_eqb_eq in E. subst t. rewrite !(aget_aput_same _ bytes_eqb_eq). split; [reflexivity|].
        unfold topic_parts. sf. rewrite (aget_aput_same _ bytes_eqb_eq). discriminate.
      * apply bytes_eqb_neq in E.
        assert (topic_config_key t <> topic_config_key n) as Nk
          by (intros Ek; apply (topic_config_key_inj t n (proj2 Ht) Hns) in Ek; contradiction).
        rewrite (aget_aput_other _ bytes_eqb_eq _ _ _ _ Nk), (aget_aput_other _ bytes_eqb_eq _ _ _ _ E).
        specialize (r_cfg0 t Ht). destruct (aget bytes_eqb (topic_config_key t) (et_cfg et)); [|exact I].
        unfold topic_parts in *. sf. now rewrite (aget_aput_other _ bytes_eqb_eq _ _ _ _ E).
  - destruct H. constructor; sf; try assumption; try reflexivity;
      try (now rewrite r_topics0); try (now rewrite ?r_cfgs0).
    + intros t Ht. destruct (bytes_eqb t n) eqn:E.
      * apply bytes_eqb_eq in E. subst t. now rewrite Ec.
      * apply bytes_eqb_neq in E. rewrite (aget_aput_other _ bytes_eqb_eq _ _ _ _ E).
        specialize (r_cfg0 t Ht). destruct (aget bytes_eqb (topic_config_key t) (et_cfg et)); [|exact I].
        unfold topic_parts in *. sf. now rewrite (aget_aput_other _ bytes_eqb_eq _ _ _ _ E).
Qed.

(* ---------------------------------------------------------------- UpdateTopicConfig *)
Lemma step_update_cfg im et c : R im et -> name_ok (c_name c) ->
  snd (im_step im (OUpdateCfg c)) = snd (et_step et (OUpdateCfg c)) /\
  R (fst (im_step im (OUpdateCfg c))) (fst (et_step et (OUpdateCfg c))).
Proof.
  intros H [Hne Hns]. cbn [im_step et_step]. unfold et_update_cfg.
  rewrite (topic_parts_eq _ _ _ H).
  destruct (c_name c) as [|c0 n0] eqn:En; [congruence|]. set (n := c0 :: n0) in *.
  assert (im_update_cfg im c = match topic_parts im n with
            | None => (im, RErr EUnknownTopic)
            | Some cur => (set_cfgs im (aput bytes_eqb n (cfg_norm c cur) (im_cfgs im)), RErr ENone)
            end) as Eim by (unfold im_update_cfg; rewrite En; reflexivity).
  rewrite Eim. clear Eim.
  destruct (topic_parts im n) as [cur|] eqn:Et; [|split; [reflexivity|exact H]].
  assert (im_update_cfg (et_meta et) (cfg_norm c cur)
          = (set_cfgs (et_meta et) (aput bytes_eqb n (cfg_norm c cur) (im_cfgs (et_meta et))), RErr ENone)) as Eet.
  { unfold im_update_cfg. rewrite cfg_norm_name, En. fold n.
    rewrite (topic_parts_eq _ _ _ H), Et, cfg_norm_idem. reflexivity. }
  rewrite Eet. clear Eet. sf. split; [reflexivity|].
  destruct H. constructor; sf; try assumption; try reflexivity; try (now rewrite ?r_cfgs0).
  intros t Ht. destruct (bytes_eqb t n) eqn:E.
  - apply bytes_eqb_eq in E. subst t. rewrite !(aget_aput_same _ bytes_eqb_eq). split; [reflexivity|].
    unfold topic_parts in *. sf. congruence.
  - apply bytes_eqb_neq in E.
    assert (topic_config_key t <> topic_config_key n) as Nk
      by (intros Ek; apply (topic_config_key_inj t n (proj2 Ht) Hns) in Ek; contradiction).
    rewrite (aget_aput_other _ bytes_eqb_eq _ _ _ _ Nk), (aget_aput_other _ bytes_eqb_eq _ _ _ _ E).
    exact (r_cfg0 t Ht).
Qed.

(* ---------------------------------------------------------------- DeleteTopic *)
Lemma step_delete_topic im et n : R im et -> name_ok n ->
  snd (im_step im (ODeleteTopic n)) = snd (et_step et (ODeleteTopic n)) /\
  R (fst (im_step im (ODeleteTopic n))) (fst (et_step et (ODeleteTopic n))).
Proof.
  intros H [Hne Hns]. cbn [im_step et_step]. unfold et_delete_topic, im_delete_topic.
  rewrite (topic_parts_eq _ _ _ H).
  destruct (topic_parts im n) as [cur|] eqn:Et; [|split; [reflexivity|exact H]].
  sf. split; [reflexivity|].
  destruct H. constructor; sf; try assumption; try reflexivity;
    try (now rewrite ?r_topics0); try (now rewrite ?r_cfgs0).
  - (* next offsets *)
    intros t p Ht. unfold adel.
    rewrite (aget_adel_if _ pkey_eqb_spec), (aget_adel_if _ bytes_eqb_eq). cbn [fst].
    rewrite (prefix_hits_offset n t p Hns Ht).
    destruct (bytes_eqb t n) eqn:E.
    + apply bytes_eqb_eq in E. subst. now rewrite bytes_eqb_refl.
    + apply bytes_eqb_neq in E. replace (bytes_eqb n t) with false
        by (symmetry; apply bytes_eqb_neq; congruence). now apply r_off0.
  - (* consumer offsets *)
    rewrite r_coff0. symmetry.
    apply (adel_if_mapk ck_str ck_ok (fun k : ckey => bytes_eqb (snd (fst k)) n) (coff_key_topic_is n)); [|exact r_coff_ok0].
    intros [[g t] p] (Hg & Ht & Hp). unfold coff_key_topic_is, ck_str. cbn [fst snd] in *.
    now rewrite (parse_coff_key_build g t p Hg Ht Hp).
  - apply ok_adel_if. exact r_coff_ok0.
  - (* configs *)
    intros t Ht. unfold adel. rewrite (aget_adel_if _ bytes_eqb_eq), (prefix_hits_cfg n t Hns (proj2 Ht)).
    destruct (bytes_eqb n t) eqn:E; [exact I|]. apply bytes_eqb_neq in E.
    specialize (r_cfg0 t Ht). destruct (aget bytes_eqb (topic_config_key t) (et_cfg et)); [|exact I].
    rewrite (aget_adel_if _ bytes_eqb_eq).
    replace (bytes_eqb n t) with false by (symmetry; apply bytes_eqb_neq; exact E).
    unfold topic_parts in *. sf. unfold adel. rewrite (aget_adel_if _ bytes_eqb_eq).
    replace (bytes_eqb n t) with false by (symmetry; apply bytes_eqb_neq; exact E). exact r_cfg0.
Qed.

(* ---------------------------------------------------------------- all sixteen operations *)
Theorem step_preserves im et o :
  R im et -> op_ok o ->
  snd (im_step im o) = snd (et_step et o) /\ R (fst (im_step im o)) (fst (et_step et o)).
Proof.
  intros H Hf. destruct o; cbn [op_ok] in Hf; try contradiction.
  - now apply step_create_topic.
  - now apply step_delete_topic.
  - now apply step_create_partitions.
  - (* UpdateOffsets *)
    cbn [im_step et_step]. sf. split; [reflexivity|].
    destruct H. constructor; sf; try assumption.
    intros t' p' Ht'. destruct (pkey_eqb (t', p') (t, p)) eqn:E.
    + apply pkey_eqb_spec in E. inversion E; subst.
      rewrite (aget_aput_same _ pkey_eqb_spec), (aget_aput_same _ bytes_eqb_eq). reflexivity.
    + assert ((t', p') <> (t, p)) as N1
        by (intros Ek; rewrite Ek, (proj2 (pkey_eqb_spec _ _) eq_refl) in E; discriminate).
      assert (offset_key t' p' <> offset_key t p) as N2.
      { intros Ek. apply offset_key_inj in Ek as [-> ->]; [|exact Ht'|exact (proj2 Hf)]. now apply N1. }
      rewrite (aget_aput_other _ pkey_eqb_spec _ _ _ _ N1), (aget_aput_other _ bytes_eqb_eq _ _ _ _ N2).
      now apply r_off0.
  - (* NextOffset *)
    cbn [im_step et_step]. rewrite (has_partition_eq _ _ _ _ H).
    destruct (has_partition im t p); sf; (split; [|exact H]); [|reflexivity].
    now rewrite (r_off _ _ H t p (proj2 Hf)).
  - (* Commit *)
    destruct Hf as (Hg & Ht & Hp).
    cbn [im_step et_step]. sf. split; [reflexivity|].
    assert (ck_ok (g, t, p)) as Hk by (repeat split; cbn [fst snd]; try apply Hg; try apply Ht; exact Hp).
    destruct H. constructor; sf; try assumption.
    + rewrite r_coff0. symmetry.
      exact (aput_mapk ckey_eqb ck_str ck_ok ckey_eqb_spec ck_str_inj (g, t, p) (off, meta) _ Hk r_coff_ok0).
    + now apply (ok_aput ckey_eqb ck_ok).
  - (* FetchOffset *)
    destruct Hf as (Hg & Ht & Hp).
    assert (ck_ok (g, t, p)) as Hk by (repeat split; cbn [fst snd]; try apply Hg; try apply Ht; exact Hp).
    cbn [im_step et_step]. unfold im_lookup, et_lookup. rewrite (r_coff _ _ H).
    change (coff_key g t p) with (ck_str (g, t, p)).
    rewrite (aget_mapk ckey_eqb ck_str ck_ok ckey_eqb_spec ck_str_inj (g, t, p) _ Hk (r_coff_ok _ _ H)).
    destruct (aget ckey_eqb (g, t, p) (im_coff im)) as [[o' m]|]; cbn; auto.
  - (* LookupOffset *)
    destruct Hf as (Hg & Ht & Hp).
    assert (ck_ok (g, t, p)) as Hk by (repeat split; cbn [fst snd]; try apply Hg; try apply Ht; exact Hp).
    cbn [im_step et_step]. unfold im_lookup, et_lookup. rewrite (r_coff _ _ H).
    change (coff_key g t p) with (ck_str (g, t, p)).
    rewrite (aget_mapk ckey_eqb ck_str ck_ok ckey_eqb_spec ck_str_inj (g, t, p) _ Hk (r_coff_ok _ _ H)).
    destruct (aget ckey_eqb (g, t, p) (im_coff im)) as [[o' m]|]; cbn; auto.
  - (* ListOffsets *)
    cbn [im_step et_step]. sf. split; [|exact H].
    rewrite (r_coff _ _ H), (list_offsets_eq _ (r_coff_ok _ _ H)). reflexivity.
  - (* PutGroup *)
    cbn [im_step et_step]. destruct (g_id g) as [|c id] eqn:Eid; sf; [split; [reflexivity|exact H]|].
    split; [reflexivity|].
    assert (name_ok (c :: id)) as Hk by (split; [discriminate|exact Hf]).
    destruct H. constructor; sf; try assumption.
    + rewrite r_groups0. symmetry.
      exact (aput_mapk bytes_eqb group_key name_ok bytes_eqb_eq (fun a b _ _ => group_key_inj a b) (c :: id) g _ Hk r_groups_ok0).
    + now apply (ok_aput bytes_eqb name_ok).
  - (* FetchGroup *)
    cbn [im_step et_step]. sf. split; [|exact H]. rewrite (r_groups _ _ H).
    now rewrite (aget_mapk bytes_eqb group_key name_ok bytes_eqb_eq (fun a b _ _ => group_key_inj a b) id _ Hf (r_groups_ok _ _ H)).
  - (* ListGroups *)
    cbn [im_step et_step]. sf. split; [|exact H].
    rewrite (r_groups _ _ H), (list_groups_eq _ (r_groups_ok _ _ H)). reflexivity.
  - (* DeleteGroup *)
    cbn [im_step et_step]. sf. split; [reflexivity|].
    destruct H. constructor; sf; try assumption.
    + rewrite r_groups0. unfold adel. symmetry.
      apply (adel_if_mapk group_key name_ok (bytes_eqb id) (bytes_eqb (group_key id))); [|exact r_groups_ok0].
      intros k Hk. destruct (bytes_eqb id k) eqn:E.
      * apply bytes_eqb_eq in E. subst. apply bytes_eqb_refl.
      * apply bytes_eqb_neq. intros Ek. apply group_key_inj in Ek. apply bytes_eqb_neq in E. contradiction.
    + apply ok_adel_if. exact r_groups_ok0.
  - (* FetchCfg *)
    cbn [im_step et_step]. sf. split; [|exact H]. unfold et_fetch_cfg.
    destruct t as [|c t]; [exfalso; now apply (proj1 Hf)|].
    pose proof (r_cfg _ _ H _ Hf) as Hc.
    destruct (aget bytes_eqb (topic_config_key (c :: t)) (et_cfg et)) as [cf|].
    + destruct Hc as [Hc Hp]. unfold im_fetch_cfg.
      destruct (topic_parts im (c :: t)); [|congruence]. now rewrite Hc.
    + unfold im_fetch_cfg. now rewrite (topic_parts_eq _ _ _ H), (r_cfgs _ _ H).
  - (* UpdateCfg *)
    now apply step_update_cfg.
  - (* Metadata *)
    cbn [im_step et_step]. sf. split; [|exact H]. unfold metadata_of, topic_parts.
    now rewrite (r_topics _ _ H).
Qed.

Theorem run_bisim ops : forall im et,
  R im et -> Forall op_ok ops ->
  snd (im_run im ops) = snd (et_run et ops) /\ R (fst (im_run im ops)) (fst (et_run et ops)).
Proof.
  induction ops as [|o ops IH]; intros im et H Hf; [split; [reflexivity|exact H]|].
  inversion Hf as [|? ? Hf1 Hf2]; subst.
  destruct (step_preserves im et o H Hf1) as [Er H'].
  cbn [im_run et_run].
  destruct (im_step im o) as [im' r] eqn:E1. destruct (et_step et o) as [et' r'] eqn:E2.
  cbn [fst snd] in *. destruct (IH im' et' H' Hf2) as [Ers H''].
  destruct (im_run im' ops) as [im2 rs]. destruct (et_run et' ops) as [et2 rs'].
  cbn [fst snd] in *. split; [congruence|exact H''].
Qed.
