(* The parse depends on the query text only through its ASCII-lower-cased form
   (apart from raw display strings): every text-level function of the model commutes
   with ASCII lower-casing. *)
From Coq Require Import ZifyBool.
From KS Require Import lib.Base model.SqlParse.
Open Scope Z_scope.

Notation L := ascii_lower.

Lemma L_cons b l : L (b :: l) = lower_byte b :: L l.
Proof. reflexivity. Qed.

Lemma lower_byte_idem b : lower_byte (lower_byte b) = lower_byte b.
Proof.
  unfold lower_byte. destruct ((65 <=? b) && (b <=? 90)) eqn:E.
  - destruct ((65 <=? b + 32) && (b + 32 <=? 90)) eqn:E2; lia.
  - rewrite E. reflexivity.
Qed.

Lemma L_idem l : L (L l) = L l.
Proof. unfold L. rewrite map_map. apply map_ext. intros; apply lower_byte_idem. Qed.

Lemma L_rev l : L (rev l) = rev (L l).
Proof. unfold L. apply map_rev. Qed.

Lemma L_app a b : L (a ++ b) = L a ++ L b.
Proof. apply map_app. Qed.

Lemma zlen_L l : zlen (L l) = zlen l.
Proof. unfold zlen, L. now rewrite map_length. Qed.

Lemma is_nil_L l : is_nil (L l) = is_nil l.
Proof. destruct l; reflexivity. Qed.

(* bytes that are not ASCII letters are not touched and not produced *)
Lemma lb_eqb k b : (k < 65 \/ 90 < k) -> (k < 97 \/ 122 < k) -> (lower_byte b =? k) = (b =? k).
Proof. intros H1 H2. unfold lower_byte. destruct ((65 <=? b) && (b <=? 90)) eqn:E; lia. Qed.
Lemma lb_le1 k b : 128 <= k -> (k <=? lower_byte b) = (k <=? b).
Proof. intros H1. unfold lower_byte. destruct ((65 <=? b) && (b <=? 90)) eqn:E; lia. Qed.
Lemma lb_le2 k b : 128 <= k -> (lower_byte b <=? k) = (b <=? k).
Proof. intros H1. unfold lower_byte. destruct ((65 <=? b) && (b <=? 90)) eqn:E; lia. Qed.
Lemma lb_space b : ascii_space (lower_byte b) = ascii_space b.
Proof. unfold ascii_space, lower_byte. destruct ((65 <=? b) && (b <=? 90)) eqn:E; lia. Qed.

Lemma sp_len_L l : sp_len (L l) = sp_len l.
Proof.
  destruct l as [|b [|c [|d r]]]; rewrite ?L_cons; cbn [sp_len L map];
    rewrite ?lb_space, ?lb_eqb, ?lb_le1, ?lb_le2 by lia; reflexivity.
Qed.

Lemma rsp_len_L l : rsp_len (L l) = rsp_len l.
Proof.
  destruct l as [|b [|c [|d r]]]; rewrite ?L_cons; cbn [rsp_len L map];
    rewrite ?lb_space, ?lb_eqb, ?lb_le1, ?lb_le2 by lia; reflexivity.
Qed.

Lemma trim_go_L len : (forall l, len (L l) = len l) ->
  forall l k, trim_go len (L l) k = L (trim_go len l k).
Proof.
  intros Hlen. induction l as [|b r IH]; intros k; [reflexivity|].
  rewrite L_cons. cbn [trim_go]. destruct k as [|k]; [|apply IH].
  rewrite <- L_cons, Hlen. destruct (len (b :: r)); [reflexivity|apply IH].
Qed.

Lemma trim_space_L l : trim_space (L l) = L (trim_space l).
Proof.
  unfold trim_space, trim_left, trim_right.
  rewrite (trim_go_L sp_len sp_len_L), <- L_rev, (trim_go_L rsp_len rsp_len_L), L_rev. reflexivity.
Qed.

Lemma trim_semi_alt l :
  trim_semi l = match rev l with x :: r => if x =? 59 then rev r else l | [] => l end.
Proof.
  unfold trim_semi. destruct (rev l) as [|x r]; [reflexivity|].
  destruct (x =? 59) eqn:E.
  - apply Z.eqb_eq in E. subst. reflexivity.
  - destruct x as [|p|p]; try reflexivity.
    do 6 (destruct p as [p|p|]; try reflexivity). discriminate.
Qed.

Lemma trim_semi_L l : trim_semi (L l) = L (trim_semi l).
Proof.
  rewrite !trim_semi_alt, <- L_rev. destruct (rev l) as [|x r]; [reflexivity|].
  rewrite L_cons, lb_eqb by lia. destruct (x =? 59); [now rewrite L_rev|reflexivity].
Qed.

Lemma slice_L s a b : slice (L s) a b = option_map L (slice s a b).
Proof.
  unfold slice. rewrite zlen_L. destruct ((0 <=? a) && (a <=? b) && (b <=? zlen s)); [|reflexivity].
  cbn [option_map]. unfold L. now rewrite skipn_map, firstn_map.
Qed.

Lemma slice_from_L s a : slice_from (L s) a = option_map L (slice_from s a).
Proof. unfold slice_from. rewrite zlen_L. apply slice_L. Qed.

Lemma slice_to_L s b : slice_to (L s) b = option_map L (slice_to s b).
Proof. apply slice_L. Qed.

Lemma split_go_L sep : (sep < 65 \/ 90 < sep) -> (sep < 97 \/ 122 < sep) ->
  forall l cur, split_go sep (L l) (L cur) = map L (split_go sep l cur).
Proof.
  intros H1 H2. induction l as [|b r IH]; intros cur.
  - cbn. now rewrite L_rev.
  - rewrite L_cons. cbn [split_go]. rewrite lb_eqb by assumption. destruct (b =? sep).
    + cbn [map]. rewrite L_rev. f_equal. apply (IH []).
    + rewrite <- L_cons. apply IH.
Qed.

Lemma split_on_L sep l : (sep < 65 \/ 90 < sep) -> (sep < 97 \/ 122 < sep) ->
  split_on sep (L l) = map L (split_on sep l).
Proof. intros. unfold split_on. now apply (split_go_L sep H H0 l []). Qed.

Lemma flush_cols_L cur : match L cur with [] => [] | _ => [rev (L cur)] end = map L (match cur with [] => [] | _ => [rev cur] end).
Proof. destruct cur; [reflexivity|]. rewrite L_cons. cbn [map]. now rewrite <- L_cons, L_rev. Qed.

Lemma split_cols_go_L : forall l depth cur,
  split_cols_go (L l) depth (L cur) = map L (split_cols_go l depth cur).
Proof.
  induction l as [|b r IH]; intros depth cur.
  - cbn [split_cols_go L map]. apply flush_cols_L.
  - rewrite L_cons. cbn [split_cols_go]. rewrite !lb_eqb by lia.
    destruct (b =? 40); [rewrite <- L_cons; apply IH|].
    destruct (b =? 41); [rewrite <- L_cons; apply IH|].
    destruct ((b =? 44) && (depth =? 0)).
    + cbn [map]. rewrite L_rev. f_equal. apply (IH depth []).
    + rewrite <- L_cons; apply IH.
Qed.

Lemma split_columns_L l : split_columns (L l) = map L (split_columns l).
Proof. apply (split_cols_go_L l 0 []). Qed.

Lemma nonempty_trimmed_L ps : nonempty_trimmed (map L ps) = map L (nonempty_trimmed ps).
Proof.
  unfold nonempty_trimmed. induction ps as [|p ps IH]; [reflexivity|].
  cbn [map filter]. rewrite trim_space_L, is_nil_L. destruct (is_nil (trim_space p)); cbn [negb map]; now rewrite IH.
Qed.

(* ------------------------------------------------------------------ case-insensitive equality *)
Definition ceq (a b : bytes) : Prop := L a = L b.

Lemma ceq_trim_space a b : ceq a b -> ceq (trim_space a) (trim_space b).
Proof. unfold ceq. intros H. now rewrite <- !trim_space_L, H. Qed.
Lemma ceq_trim_semi a b : ceq a b -> ceq (trim_semi a) (trim_semi b).
Proof. unfold ceq. intros H. now rewrite <- !trim_semi_L, H. Qed.
Lemma ceq_is_nil a b : ceq a b -> is_nil a = is_nil b.
Proof. unfold ceq. intros H. now rewrite <- (is_nil_L a), H, is_nil_L. Qed.
Lemma ceq_zlen a b : ceq a b -> zlen a = zlen b.
Proof. unfold ceq. intros H. now rewrite <- (zlen_L a), H, zlen_L. Qed.
Lemma ceq_length a b : ceq a b -> length a = length b.
Proof. intros H. apply ceq_zlen in H. unfold zlen in H. lia. Qed.

(* related options / results *)
Definition opt_ci (o o' : option bytes) : Prop := option_map L o = option_map L o'.

Lemma ceq_slice a b x y : ceq a b -> opt_ci (slice a x y) (slice b x y).
Proof. unfold ceq, opt_ci. intros H. now rewrite <- !slice_L, H. Qed.
Lemma ceq_slice_from a b x : ceq a b -> opt_ci (slice_from a x) (slice_from b x).
Proof. unfold ceq, opt_ci. intros H. now rewrite <- !slice_from_L, H. Qed.
Lemma ceq_slice_to a b x : ceq a b -> opt_ci (slice_to a x) (slice_to b x).
Proof. unfold ceq, opt_ci. intros H. now rewrite <- !slice_to_L, H. Qed.

Lemma opt_ci_cases o o' : opt_ci o o' ->
  (o = None /\ o' = None) \/ (exists a a', o = Some a /\ o' = Some a' /\ ceq a a').
Proof.
  unfold opt_ci. destruct o as [a|], o' as [a'|]; cbn; intros H; try discriminate.
  - right. exists a, a'. repeat split. now inversion H.
  - now left.
Qed.

Definition rmap {A B} (f : A -> B) (r : res A) : res B :=
  match r with Ok a => Ok (f a) | Err e => Err e | Panic => Panic | NoFuel => NoFuel end.

Lemma rmap_cases {A B} (f : A -> B) (r r' : res A) : rmap f r = rmap f r' ->
  (exists a a', r = Ok a /\ r' = Ok a' /\ f a = f a') \/
  (r = r' /\ forall a, r <> Ok a).
Proof.
  destruct r, r'; cbn; intros H; try discriminate; try (right; split; [congruence|discriminate]).
  left. eexists _, _. repeat split. now inversion H.
Qed.

(* idx with related options and continuations related under rmap f *)
Lemma idx_ci {A B} (f : A -> B) (o o' : option bytes) (k k' : bytes -> res A) :
  opt_ci o o' -> (forall a a', ceq a a' -> rmap f (k a) = rmap f (k' a')) ->
  rmap f (idx o k) = rmap f (idx o' k').
Proof.
  intros Ho Hk. destruct (opt_ci_cases _ _ Ho) as [[-> ->]|[a [a' [-> [-> Ha]]]]]; [reflexivity|].
  cbn [idx]. now apply Hk.
Qed.

Section CaseInsensitive.
Variable ulower : bytes -> bytes.
Variable ts_err : bytes -> bool.
Variable jexpr_ok : bytes -> bool.
Hypothesis ulower_ci : forall a b, ceq a b -> ulower a = ulower b.
Hypothesis ts_err_ci : forall a b, ceq a b -> ts_err a = ts_err b.
Hypothesis jexpr_ok_ci : forall a b, ceq a b -> jexpr_ok a = jexpr_ok b.

Lemma select_columns_ci raw raw' lower : ceq raw raw' ->
  rmap (map L) (parse_select_columns raw lower) = rmap (map L) (parse_select_columns raw' lower).
Proof.
  intros H. unfold parse_select_columns.
  destruct ((kw_index lower kw_select =? -1) || (kw_index lower kw_from =? -1) ||
            (kw_index lower kw_from <=? kw_index lower kw_select)); [reflexivity|].
  apply idx_ci; [now apply ceq_slice|]. intros seg seg' Hs.
  pose proof (ceq_trim_space _ _ Hs) as Ht. rewrite (ceq_is_nil _ _ Ht).
  destruct (is_nil (trim_space seg')); [reflexivity|].
  assert (map L (nonempty_trimmed (split_columns (trim_space seg))) =
          map L (nonempty_trimmed (split_columns (trim_space seg')))) as Hc.
  { rewrite <- !nonempty_trimmed_L, <- !split_columns_L. unfold ceq in Ht. now rewrite Ht. }
  assert (is_nil (nonempty_trimmed (split_columns (trim_space seg))) =
          is_nil (nonempty_trimmed (split_columns (trim_space seg')))) as Hn.
  { apply (f_equal (@length bytes)) in Hc. rewrite !map_length in Hc.
    destruct (nonempty_trimmed (split_columns (trim_space seg))),
             (nonempty_trimmed (split_columns (trim_space seg'))); cbn in *; congruence. }
  rewrite Hn. destruct (is_nil (nonempty_trimmed (split_columns (trim_space seg')))); [reflexivity|].
  cbn [rmap]. now rewrite Hc.
Qed.

Lemma split_identifiers_ci a b : ceq a b -> split_identifiers ulower a = split_identifiers ulower b.
Proof.
  intros H. unfold split_identifiers.
  assert (map L (split_on 44 a) = map L (split_on 44 b)) as Hp.
  { rewrite <- !split_on_L by lia. unfold ceq in H. now rewrite H. }
  f_equal. revert Hp. generalize (split_on 44 a) (split_on 44 b).
  induction l as [|x l IH]; intros [|y l'] Hp; cbn in Hp; try discriminate; [reflexivity|].
  inversion Hp as [[Hx Hl]]. cbn [map]. rewrite (ulower_ci x y Hx). f_equal. now apply IH.
Qed.

Lemma group_by_ci raw raw' lower : ceq raw raw' ->
  parse_group_by ulower raw lower = parse_group_by ulower raw' lower.
Proof.
  intros H. unfold parse_group_by. destruct (kw_index lower kw_group_by =? -1); [reflexivity|].
  destruct (opt_ci_cases _ _ (ceq_slice_from _ _ (kw_index lower kw_group_by + 8) H))
    as [[-> ->]|[rest [rest' [-> [-> Hr]]]]]; [reflexivity|]. cbn [idx].
  destruct (slice_from lower (kw_index lower kw_group_by + 8)) as [rl|]; [|reflexivity]. cbn [idx].
  destruct (opt_ci_cases _ _ (ceq_slice_to _ _ (clause_end rl stops_group) Hr))
    as [[-> ->]|[seg [seg' [-> [-> Hs]]]]]; [reflexivity|]. cbn [idx].
  f_equal. apply split_identifiers_ci. now apply ceq_trim_space.
Qed.

Lemma order_by_ci raw raw' lower : ceq raw raw' ->
  parse_order_by ulower raw lower = parse_order_by ulower raw' lower.
Proof.
  intros H. unfold parse_order_by. destruct (kw_index lower kw_order_by =? -1); [reflexivity|].
  destruct (opt_ci_cases _ _ (ceq_slice_from _ _ (kw_index lower kw_order_by + 8) H))
    as [[-> ->]|[rest [rest' [-> [-> Hr]]]]]; [reflexivity|]. cbn [idx].
  destruct (slice_from lower (kw_index lower kw_order_by + 8)) as [rl|]; [|reflexivity]. cbn [idx].
  destruct (opt_ci_cases _ _ (ceq_slice_to _ _ (clause_end rl stops_order) Hr))
    as [[-> ->]|[seg [seg' [-> [-> Hs]]]]]; [reflexivity|]. cbn [idx].
  now rewrite (ulower_ci _ _ (ceq_trim_space _ _ Hs)).
Qed.

Lemma order_desc_ci raw raw' lower : ceq raw raw' ->
  parse_order_desc ulower raw lower = parse_order_desc ulower raw' lower.
Proof.
  intros H. unfold parse_order_desc. destruct (kw_index lower kw_order_by =? -1); [reflexivity|].
  destruct (opt_ci_cases _ _ (ceq_slice_from _ _ (kw_index lower kw_order_by + 8) H))
    as [[-> ->]|[rest [rest' [-> [-> Hr]]]]]; [reflexivity|]. cbn [idx].
  now rewrite (ulower_ci _ _ Hr).
Qed.

Lemma join_condition_ci raw raw' lower : ceq raw raw' ->
  rmap norm_jon (parse_join_condition jexpr_ok raw lower) = rmap norm_jon (parse_join_condition jexpr_ok raw' lower).
Proof.
  intros H. unfold parse_join_condition. destruct (kw_index lower kw_join =? -1); [reflexivity|].
  destruct (slice_from lower (kw_index lower kw_join)) as [lj|]; [|reflexivity]. cbn [idx].
  destruct (kw_index lj kw_on =? -1); [reflexivity|].
  apply idx_ci; [now apply ceq_slice_from|]. intros rest rest' Hr.
  destruct (slice_from lower (kw_index lj kw_on + kw_index lower kw_join + 2)) as [rl|]; [|reflexivity]. cbn [idx].
  apply idx_ci; [now apply ceq_slice_to|]. intros seg seg' Hs.
  pose proof (ceq_trim_space _ _ Hs) as Ht.
  assert (map L (split_on 61 (trim_space seg)) = map L (split_on 61 (trim_space seg'))) as Hp.
  { rewrite <- !split_on_L by lia. unfold ceq in Ht. now rewrite Ht. }
  destruct (split_on 61 (trim_space seg)) as [|l [|r [|x xs]]],
           (split_on 61 (trim_space seg')) as [|l' [|r' [|x' xs']]]; cbn in Hp; try discriminate; try reflexivity.
  inversion Hp as [[Hl Hr']].
  pose proof (ceq_trim_space l l' Hl) as Hl2. pose proof (ceq_trim_space r r' Hr') as Hr2.
  rewrite (jexpr_ok_ci _ _ Hl2), (jexpr_ok_ci _ _ Hr2).
  destruct (negb (jexpr_ok (trim_space l'))); [reflexivity|].
  destruct (negb (jexpr_ok (trim_space r'))); [reflexivity|].
  cbn [rmap norm_jon]. unfold ceq in Hl2, Hr2. now rewrite Hl2, Hr2.
Qed.

Lemma parse_select_ci raw raw' lower fs : ceq raw raw' ->
  norm_res (parse_select ulower ts_err jexpr_ok raw lower fs) =
  norm_res (parse_select ulower ts_err jexpr_ok raw' lower fs).
Proof.
  intros H. unfold parse_select.
  rewrite (group_by_ci _ _ lower H), (order_by_ci _ _ lower H), (order_desc_ci _ _ lower H), (ts_err_ci _ _ H).
  destruct (rmap_cases _ _ _ (select_columns_ci _ _ lower H)) as [[cols [cols' [-> [-> Hc]]]]|[-> Hn]].
  2:{ destruct (parse_select_columns raw' lower) as [a| | |]; [now destruct (Hn a)|reflexivity..]. }
  cbn [bind]. destruct (parse_from fs) as [[topic al]| | |]; try reflexivity. cbn [bind].
  destruct (parse_join fs) as [[[jt jtopic] jalias]| | |]; try reflexivity. cbn [bind].
  destruct (negb (jt =? 0) && is_nil jtopic); [reflexivity|].
  assert (rmap norm_jon (if is_nil jtopic then Ok JNone else parse_join_condition jexpr_ok raw lower) =
          rmap norm_jon (if is_nil jtopic then Ok JNone else parse_join_condition jexpr_ok raw' lower)) as Hj.
  { destruct (is_nil jtopic); [reflexivity|now apply join_condition_ci]. }
  destruct (rmap_cases _ _ _ Hj) as [[j [j' [-> [-> Hjj]]]]|[-> Hn]].
  2:{ destruct (if is_nil jtopic then Ok JNone else parse_join_condition jexpr_ok raw' lower) as [a| | |];
        [now destruct (Hn a)|reflexivity..]. }
  cbn [bind]. destruct (parse_filters fs) as [[[p omin] omax]| | |]; try reflexivity. cbn [bind].
  destruct (ts_err raw'); [reflexivity|].
  destruct (parse_group_by ulower raw' lower) as [g| | |]; try reflexivity. cbn [bind].
  destruct (parse_order_by ulower raw' lower) as [ob| | |]; try reflexivity. cbn [bind].
  destruct (parse_order_desc ulower raw' lower) as [od| | |]; try reflexivity. cbn [bind].
  cbn [norm_res norm_q]. unfold norm_sel. cbn [s_topic s_alias s_jtype s_jtopic s_jalias s_jon s_cols s_group s_order
    s_desc s_part s_omin s_omax s_scan_full]. now rewrite Hc, Hjj.
Qed.

Lemma norm_explain (r r' : res query) : norm_res r = norm_res r' ->
  norm_res (match r with Ok (QSelect s) => Ok (QExplain s) | Ok _ => Err EExplainSelectOnly
            | Err e => Err e | Panic => Panic | NoFuel => NoFuel end) =
  norm_res (match r' with Ok (QSelect s) => Ok (QExplain s) | Ok _ => Err EExplainSelectOnly
            | Err e => Err e | Panic => Panic | NoFuel => NoFuel end).
Proof.
  destruct r as [[]| | |], r' as [[]| | |]; cbn; intros H; try discriminate; try reflexivity; try congruence.
Qed.

Lemma parse_f_ci : forall fuel q q', ceq q q' ->
  norm_res (parse_f L ulower ts_err jexpr_ok fuel q) = norm_res (parse_f L ulower ts_err jexpr_ok fuel q').
Proof.
  induction fuel as [|fuel IH]; intros q q' H; [reflexivity|]. cbn [parse_f].
  pose proof (ceq_trim_space _ _ H) as H0. rewrite (ceq_is_nil _ _ H0).
  destruct (is_nil (trim_space q')); [reflexivity|].
  pose proof (ceq_trim_semi _ _ H0) as H1.
  assert (L (trim_semi (trim_space q)) = L (trim_semi (trim_space q'))) as HL by exact H1.
  rewrite HL. destruct (fields (L (trim_semi (trim_space q')))) as [|f0 fs'] eqn:Ef; [reflexivity|].
  destruct (bytes_eqb f0 kw_show); [reflexivity|].
  destruct (bytes_eqb f0 kw_describe); [reflexivity|].
  destruct (bytes_eqb f0 kw_select); [now apply parse_select_ci|].
  destruct (bytes_eqb f0 kw_explain); [|reflexivity].
  pose proof (ceq_trim_space _ _ H1) as H2.
  assert (L (trim_space (trim_semi (trim_space q))) = L (trim_space (trim_semi (trim_space q')))) as HL2 by exact H2.
  rewrite HL2. destruct (negb (has_prefix (L (trim_space (trim_semi (trim_space q')))) kw_explain)); [reflexivity|].
  destruct (opt_ci_cases _ _ (ceq_slice_from _ _ 7 H2)) as [[-> ->]|[rest [rest' [-> [-> Hr]]]]]; [reflexivity|].
  cbn [idx]. pose proof (ceq_trim_space _ _ Hr) as H3. rewrite (ceq_is_nil _ _ H3).
  destruct (is_nil (trim_space rest')); [reflexivity|].
  apply norm_explain. now apply IH.
Qed.

Theorem parse_case_insensitive q q' : L q = L q' ->
  norm_res (parse ulower ts_err jexpr_ok q) = norm_res (parse ulower ts_err jexpr_ok q').
Proof.
  intros H. unfold parse, parse_with. rewrite (ceq_length q q' H). now apply parse_f_ci.
Qed.
End CaseInsensitive.

(* strings.Fields commutes with ASCII lower-casing (used by C37 as well) *)
Lemma flush_L cur : flush (L cur) = map L (flush cur).
Proof. destruct cur; [reflexivity|]. rewrite L_cons. cbn [flush map]. now rewrite <- L_cons, L_rev. Qed.

Lemma fields_go_L : forall l skip cur, fields_go (L l) skip (L cur) = map L (fields_go l skip cur).
Proof.
  induction l as [|b r IH]; intros skip cur.
  - cbn [fields_go L map]. apply flush_L.
  - rewrite L_cons. cbn [fields_go]. destruct skip as [|k]; [|apply IH].
    rewrite <- L_cons, sp_len_L. destruct (sp_len (b :: r)) as [|k].
    + rewrite <- L_cons. apply IH.
    + rewrite map_app, flush_L. f_equal. apply (IH k []).
Qed.

Theorem fields_lower s : fields (L s) = map L (fields s).
Proof. apply (fields_go_L s 0 []). Qed.
