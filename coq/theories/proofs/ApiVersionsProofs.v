(* C11: finite checks over the regenerated tables, by vm_compute, lifted to
   quantified statements with forallb_forall. *)
From KS Require Import lib.Base lib.Wire gen.ApiTables model.ApiVersions.
Open Scope Z_scope.

Lemma adv_all : forallb adv_ok (advertised_pairs broker_advertised) = true.
Proof. vm_compute. reflexivity. Qed.

Lemma known_all : forallb known_ok known_pairs = true.
Proof. vm_compute. reflexivity. Qed.

Lemma downgrade_all : forallb downgrade_ok (zrange (fst apiversions_downgrade + 1) guard_window) = true.
Proof. vm_compute. reflexivity. Qed.

Lemma proxy_all : forallb proxy_ok (advertised_pairs proxy_advertised) = true.
Proof. vm_compute. reflexivity. Qed.

Lemma in_zrange lo hi v : lo <= v <= hi -> In v (zrange lo hi).
Proof.
  intros H. unfold zrange. apply in_map_iff. exists (Z.to_nat (v - lo)). split; [lia|].
  apply in_seq. lia.
Qed.

Lemma in_advertised_pairs tab k mn mx v :
  In (k, mn, mx) tab -> mn <= v <= mx -> 0 <= v -> In (k, v) (advertised_pairs tab).
Proof.
  intros Hin Hv H0. unfold advertised_pairs. apply in_flat_map. exists (k, mn, mx). split; [exact Hin|].
  apply in_map. apply in_zrange. lia.
Qed.

Theorem advertised_served k mn mx v :
  In (k, mn, mx) broker_advertised -> mn <= v <= mx -> 0 <= v ->
  dispatched k = true /\ rejected k v = false /\ v <= guard_window /\
  kmsg_knows k = true /\ v <= kmsg_max k /\
  broker_reply k v = Some (v, kafka_header_flexible k v).
Proof.
  intros Hin Hv H0. pose proof (in_advertised_pairs _ _ _ _ _ Hin Hv H0) as Hp.
  pose proof adv_all as HA. rewrite forallb_forall in HA. specialize (HA _ Hp). unfold adv_ok in HA.
  apply andb_true_iff in HA as [HA Hshape]. apply andb_true_iff in HA as [HA Hrv].
  apply andb_true_iff in HA as [HA Hmax]. apply andb_true_iff in HA as [HA Hknows].
  apply andb_true_iff in HA as [HA Hwin]. apply andb_true_iff in HA as [Hdisp Hrej].
  apply negb_true_iff in Hrej. apply Z.leb_le in Hwin, Hmax. apply Z.eqb_eq in Hrv. apply eqb_prop in Hshape.
  repeat split; try assumption.
  unfold broker_reply. rewrite Hdisp, Hrej. cbn [andb negb]. rewrite Hrv, Hshape. reflexivity.
Qed.

Theorem known_replied k mx fr fp v :
  In (k, mx, fr, fp) kmsg_requests -> 0 <= v <= mx ->
  v <= guard_window /\ broker_reply k v = Some (v, kafka_header_flexible k v).
Proof.
  intros Hin Hv.
  assert (In (k, v) known_pairs) as Hp.
  { unfold known_pairs. apply in_flat_map. exists (k, mx, fr, fp). split; [exact Hin|]. apply in_map. apply in_zrange. lia. }
  pose proof known_all as HA. rewrite forallb_forall in HA. specialize (HA _ Hp). unfold known_ok in HA.
  apply andb_true_iff in HA as [H1 H2]. apply Z.leb_le in H1. split; [exact H1|].
  destruct (broker_reply k v) as [[rv fl]|]; [|discriminate].
  apply andb_true_iff in H2 as [H2 H3]. apply Z.eqb_eq in H2. apply eqb_prop in H3. subst. reflexivity.
Qed.

Theorem apiversions_downgraded v :
  fst apiversions_downgrade < v <= guard_window -> broker_reply 18 v = Some (0, false).
Proof.
  intros Hv. pose proof downgrade_all as HA. rewrite forallb_forall in HA.
  assert (In v (zrange (fst apiversions_downgrade + 1) guard_window)) as Hin by (apply in_zrange; lia).
  specialize (HA v Hin). unfold downgrade_ok in HA.
  destruct (broker_reply 18 v) as [[rv fl]|]; [|discriminate].
  apply andb_true_iff in HA as [H1 H2]. apply Z.eqb_eq in H1. apply negb_true_iff in H2. subst. reflexivity.
Qed.

Theorem proxy_advertised_served k mn mx v :
  In (k, mn, mx) proxy_advertised -> mn <= v <= mx -> 0 <= v ->
  In (k, v) (advertised_pairs broker_advertised) /\
  (k = 18 \/ mem k proxy_notready = true) /\
  encode_header_flexible k v = kafka_header_flexible k v.
Proof.
  intros Hin Hv H0. pose proof (in_advertised_pairs _ _ _ _ _ Hin Hv H0) as Hp.
  pose proof proxy_all as HA. rewrite forallb_forall in HA. specialize (HA _ Hp). unfold proxy_ok in HA.
  apply andb_true_iff in HA as [HA H3]. apply andb_true_iff in HA as [H1 H2].
  apply eqb_prop in H3. split; [|split; [|exact H3]].
  - unfold mem2 in H1. apply existsb_exists in H1 as ([k' v'] & Hi & He). cbn [fst snd] in He.
    apply andb_true_iff in He as [E1 E2]. apply Z.eqb_eq in E1, E2. subst. exact Hi.
  - apply orb_true_iff in H2 as [E|E]; [left; apply Z.eqb_eq; exact E|right; exact E].
Qed.

(* the int16 length prefix of a non-flexible string reads back as the length exactly when
   the length is below 2^15; from 2^15 on it reads back negative and the rest of the reply is
   mis-framed *)
Theorem string_len_prefix n r : 0 <= n < 65536 ->
  (n < 32768 -> get_i16 (put_i16 n ++ r) = Some (n, r)) /\
  (32768 <= n -> get_i16 (put_i16 n ++ r) = Some (n - 65536, r) /\ n - 65536 < 0).
Proof.
  intros H. split.
  - intros L. apply get_put_i16. lia.
  - intros G. unfold get_i16, put_i16. rewrite wrap_u_id by (change (2 ^ 16) with 65536; lia).
    rewrite get_put_u16 by lia. split; [|lia]. f_equal. f_equal.
    unfold wrap_s. change (2 ^ (16 - 1)) with 32768. change (2 ^ 16) with 65536.
    symmetry. assert ((n + 32768) mod 65536 = n + 32768 - 65536) as E by (symmetry; apply (Zmod_unique _ _ 1); lia).
    rewrite E. lia.
Qed.

Theorem resp_strings_fit_spec flexible maxlen : 0 <= maxlen < 65536 ->
  resp_strings_fit flexible maxlen = true ->
  flexible = true \/ forall n r, 0 <= n <= maxlen -> get_i16 (put_i16 n ++ r) = Some (n, r).
Proof.
  intros H F. unfold resp_strings_fit in F. apply orb_true_iff in F as [F|F]; [left; exact F|right].
  intros n r Hn. apply get_put_i16. apply Z.ltb_lt in F. lia.
Qed.
