(* C22: keys derived from accepted topic names are isolated (S3 objects, cache keys,
   etcd / in-memory key families). *)
From Coq Require Import Ascii String DecimalString DecimalZ Decimal.
From KS Require Import lib.Base lib.Strings lib.Paths model.MetaStore proofs.MetaStoreProofs.
Open Scope Z_scope.

Definition accepted (t : bytes) : Prop := valid_topic_name t = true.
Definition nocolon (n : bytes) : Prop := ~ In colon n.

Lemma forallb_not_in (f : Z -> bool) l c : forallb f l = true -> f c = false -> ~ In c l.
Proof. intros H Hc Hin. rewrite forallb_forall in H. apply H in Hin. congruence. Qed.

Lemma accepted_facts t : accepted t -> plain_seg t /\ noslash t /\ nocolon t.
Proof.
  unfold accepted, valid_topic_name. intros H.
  apply andb_true_iff in H as [H Hdd]. apply andb_true_iff in H as [H Hd].
  apply andb_true_iff in H as [H Hc]. apply andb_true_iff in H as [Hne Hlen].
  assert (noslash t) as Hs by (apply (forallb_not_in _ _ _ Hc); reflexivity).
  assert (nocolon t) as Hco by (apply (forallb_not_in _ _ _ Hc); reflexivity).
  split; [|split; assumption].
  split; [|split; [exact Hs|split]].
  - destruct t; [discriminate|discriminate].
  - intros ->. discriminate.
  - intros ->. discriminate.
Qed.

(* ---------- decimal renderings are plain path segments ---------- *)
Lemma dec_nonempty z : dec z <> [].
Proof.
  unfold dec. intros H.
  assert (NilEmpty.string_of_int (Z.to_int z) = EmptyString) as E.
  { destruct (NilEmpty.string_of_int (Z.to_int z)); [reflexivity|discriminate]. }
  pose proof (NilEmpty.isi (Z.to_int z)) as Hi. rewrite E in Hi. cbn in Hi.
  inversion Hi as [Hz].
  pose proof (DecimalZ.of_to z) as Hof. rewrite <- Hz in Hof. cbn in Hof. subst z. discriminate.
Qed.

Lemma dec_plain z : plain_seg (dec z).
Proof.
  split; [apply dec_nonempty|]. split; [apply dec_no_sep; exact slash_not_dec|].
  assert (~ In dot (dec z)) as Hd by (apply dec_no_sep; reflexivity).
  split; intros E; rewrite E in Hd; apply Hd; cbn; auto.
Qed.

Lemma pad_zeros_chars n : forallb is_dec_char (pad_zeros n) = true.
Proof. unfold pad_zeros. induction (Z.to_nat n); cbn; auto. Qed.

Lemma pad20_chars b : forallb is_dec_char (pad20 b) = true.
Proof.
  unfold pad20. destruct (b <? 0); cbn [forallb]; rewrite ?forallb_app, pad_zeros_chars, dec_chars; reflexivity.
Qed.

Lemma file_plain (pre suf : string) b :
  (exists c s, pre = String c s /\ code c <> dot) ->
  forallb (fun c => negb (c =? slash)) (lit pre) = true ->
  forallb (fun c => negb (c =? slash)) (lit suf) = true ->
  plain_seg (lit pre ++ pad20 b ++ lit suf).
Proof.
  intros (c & s & -> & Hc) Hpre Hsuf.
  split; [cbn; discriminate|]. split.
  - intros Hin. rewrite !in_app_iff in Hin. destruct Hin as [Hin|[Hin|Hin]].
    + rewrite forallb_forall in Hpre. apply Hpre in Hin. now rewrite Z.eqb_refl in Hin.
    + pose proof (pad20_chars b) as Hp. rewrite forallb_forall in Hp. apply Hp in Hin. discriminate.
    + rewrite forallb_forall in Hsuf. apply Hsuf in Hin. now rewrite Z.eqb_refl in Hin.
  - split; intros E; cbn in E; inversion E; congruence.
Qed.

Lemma seg_file_plain b : plain_seg (seg_file b).
Proof.
  unfold seg_file. apply file_plain; [|reflexivity|reflexivity].
  eexists _, _. split; [reflexivity|]. vm_compute. discriminate.
Qed.
Lemma idx_file_plain b : plain_seg (idx_file b).
Proof.
  unfold idx_file. apply file_plain; [|reflexivity|reflexivity].
  eexists _, _. split; [reflexivity|]. vm_compute. discriminate.
Qed.

(* ---------- shape of the joined keys ---------- *)
Definition ns_base (ns : bytes) : bytes :=
  let n := ns_eff ns in
  base_of (is_rooted n) (clean_stack (is_rooted n) (split_on slash n) []).

Lemma ns_eff_nonempty ns : ns_eff ns <> [].
Proof. unfold ns_eff. destruct ns; [vm_compute|]; discriminate. Qed.

Lemma plain_nonempty s : plain_seg s -> s <> [].
Proof. now intros [H _]. Qed.

Lemma path_clean_nonempty p : p <> [] ->
  path_clean p = render (is_rooted p) (clean_stack (is_rooted p) (split_on slash p) []).
Proof. destruct p; [congruence|reflexivity]. Qed.

Lemma join1 n a : n <> [] -> plain_seg a ->
  path_join [n; a] = base_of (is_rooted n) (clean_stack (is_rooted n) (split_on slash n) []) ++ a.
Proof.
  intros Hn Ha. unfold path_join.
  assert (join_buf [] [n; a] = n ++ slash :: a) as -> by (destruct n; [congruence|reflexivity]).
  destruct (n ++ slash :: a) eqn:E; [destruct n; discriminate|]. rewrite <- E. clear E.
  rewrite path_clean_nonempty by (destruct n; discriminate).
  rewrite is_rooted_app by exact Hn.
  rewrite clean_stack_snoc_plain by exact Ha.
  apply render_push. now apply plain_nonempty.
Qed.

Lemma join2 n a b : n <> [] -> plain_seg a -> plain_seg b ->
  path_join [n; a; b]
  = base_of (is_rooted n) (clean_stack (is_rooted n) (split_on slash n) []) ++ a ++ [slash] ++ b.
Proof.
  intros Hn Ha Hb. unfold path_join.
  assert (join_buf [] [n; a; b] = (n ++ slash :: a) ++ slash :: b) as ->
    by (destruct n; [congruence|reflexivity]).
  destruct ((n ++ slash :: a) ++ slash :: b) eqn:E; [destruct n; discriminate|]. rewrite <- E. clear E.
  rewrite path_clean_nonempty by (destruct n; discriminate).
  rewrite !is_rooted_app by (try exact Hn; destruct n; discriminate).
  rewrite !clean_stack_snoc_plain by assumption.
  rewrite render_push by now apply plain_nonempty.
  rewrite base_of_push by now apply plain_nonempty.
  rewrite <- !app_assoc. reflexivity.
Qed.

Lemma join3 n a b c : n <> [] -> plain_seg a -> plain_seg b -> plain_seg c ->
  path_join [n; a; b; c]
  = base_of (is_rooted n) (clean_stack (is_rooted n) (split_on slash n) []) ++ a ++ [slash] ++ b ++ [slash] ++ c.
Proof.
  intros Hn Ha Hb Hc. unfold path_join.
  assert (join_buf [] [n; a; b; c] = ((n ++ slash :: a) ++ slash :: b) ++ slash :: c) as ->
    by (destruct n; [congruence|reflexivity]).
  destruct (((n ++ slash :: a) ++ slash :: b) ++ slash :: c) eqn:E; [destruct n; discriminate|].
  rewrite <- E. clear E.
  rewrite path_clean_nonempty by (destruct n; discriminate).
  rewrite !is_rooted_app by (try exact Hn; destruct n; discriminate).
  rewrite !clean_stack_snoc_plain by assumption.
  rewrite render_push by now apply plain_nonempty.
  rewrite !base_of_push by now apply plain_nonempty.
  rewrite <- !app_assoc. reflexivity.
Qed.

Lemma segment_key_shape ns t p b : plain_seg t ->
  segment_key ns t p b = ns_base ns ++ t ++ [slash] ++ dec p ++ [slash] ++ seg_file b.
Proof. intros Ht. apply join3; auto using ns_eff_nonempty, dec_plain, seg_file_plain. Qed.
Lemma index_key_shape ns t p b : plain_seg t ->
  index_key ns t p b = ns_base ns ++ t ++ [slash] ++ dec p ++ [slash] ++ idx_file b.
Proof. intros Ht. apply join3; auto using ns_eff_nonempty, dec_plain, idx_file_plain. Qed.
Lemma segment_prefix_shape ns t p : plain_seg t ->
  segment_prefix ns t p = ns_base ns ++ t ++ [slash] ++ dec p ++ [slash].
Proof.
  intros Ht. unfold segment_prefix. rewrite join2 by auto using ns_eff_nonempty, dec_plain.
  unfold ns_base. rewrite <- !app_assoc. reflexivity.
Qed.
Lemma cache_topic_key_shape ns t : plain_seg t -> cache_topic_key ns t = ns_base ns ++ t.
Proof. intros Ht. apply join1; auto using ns_eff_nonempty. Qed.

(* ---------- generic: "name / number / rest" after a common prefix ---------- *)
Lemma has_prefix_spec pfx s : has_prefix pfx s = true <-> exists r, s = pfx ++ r.
Proof.
  unfold has_prefix. revert s. induction pfx as [|a pfx IH]; intros s; cbn.
  - split; [intros _; now exists s|reflexivity].
  - destruct s as [|b s]; [split; [discriminate|intros [r Hr]; discriminate]|].
    destruct (a =? b) eqn:E.
    + apply Z.eqb_eq in E. subst b. rewrite IH. split; intros [r Hr]; exists r; [now rewrite Hr|now inversion Hr].
    + split; [discriminate|]. intros [r Hr]. inversion Hr; subst. now rewrite Z.eqb_refl in E.
Qed.

Lemma name_num_inj (sep : Z) t p r t' p' r' :
  ~ In sep t -> ~ In sep t' -> is_dec_char sep = false ->
  t ++ [sep] ++ dec p ++ [sep] ++ r = t' ++ [sep] ++ dec p' ++ [sep] ++ r' -> t = t' /\ p = p'.
Proof.
  intros Ht Ht' Hs E. cbn [app] in E.
  apply split_first_sep in E as [-> E]; [|exact Ht|exact Ht'].
  apply split_first_sep in E as [E _]; [|now apply dec_no_sep|now apply dec_no_sep].
  apply dec_inj in E. auto.
Qed.

(* ---------- S3 objects and cache keys ---------- *)
Section S3.
  Variables (ns t t' : bytes) (p p' b b' : Z).
  Hypothesis At : accepted t.
  Hypothesis At' : accepted t'.
  Hypothesis Hne : (t, p) <> (t', p').

  Let Pt := proj1 (accepted_facts t At).
  Let Pt' := proj1 (accepted_facts t' At').
  Let St := proj1 (proj2 (accepted_facts t At)).
  Let St' := proj1 (proj2 (accepted_facts t' At')).

  Lemma s3_tail_neq r r' :
    ns_base ns ++ t ++ [slash] ++ dec p ++ [slash] ++ r <> ns_base ns ++ t' ++ [slash] ++ dec p' ++ [slash] ++ r'.
  Proof.
    intros E. apply app_inv_head in E.
    apply name_num_inj in E as [-> ->]; [|exact St|exact St'|exact slash_not_dec]. now apply Hne.
  Qed.

  Lemma s3_objects_disjoint :
    segment_key ns t p b <> segment_key ns t' p' b' /\
    index_key ns t p b <> index_key ns t' p' b' /\
    segment_key ns t p b <> index_key ns t' p' b' /\
    index_key ns t p b <> segment_key ns t' p' b'.
  Proof.
    rewrite !segment_key_shape, !index_key_shape by assumption.
    repeat split; apply s3_tail_neq.
  Qed.

  Lemma s3_prefix_free :
    has_prefix (segment_prefix ns t p) (segment_key ns t' p' b') = false /\
    has_prefix (segment_prefix ns t p) (index_key ns t' p' b') = false.
  Proof.
    rewrite segment_prefix_shape, segment_key_shape, index_key_shape by assumption.
    split.
    - destruct (has_prefix _ _) eqn:E; [|reflexivity]. apply has_prefix_spec in E as [r E].
      rewrite <- !app_assoc in E. symmetry in E. now apply s3_tail_neq in E.
    - destruct (has_prefix _ _) eqn:E; [|reflexivity]. apply has_prefix_spec in E as [r E].
      rewrite <- !app_assoc in E. symmetry in E. now apply s3_tail_neq in E.
  Qed.

  Lemma cache_keys_disjoint : cache_key ns t p b <> cache_key ns t' p' b'.
  Proof.
    unfold cache_key. rewrite !cache_topic_key_shape by assumption.
    intros E. rewrite <- !app_assoc in E. apply app_inv_head in E.
    change (t ++ [colon] ++ dec p ++ [colon] ++ dec b = t' ++ [colon] ++ dec p' ++ [colon] ++ dec b') in E.
    apply name_num_inj in E as [-> ->]; [now apply Hne| | |exact colon_not_dec].
    - exact (proj2 (proj2 (accepted_facts t At))).
    - exact (proj2 (proj2 (accepted_facts t' At'))).
  Qed.
End S3.

(* ---------- etcd and in-memory key families ---------- *)
Section Meta.
  Variables (t t' : bytes) (p p' : Z).
  Hypothesis St : noslash t.
  Hypothesis St' : noslash t'.

  Lemma topics_tail_inj x x' :
    topics_pfx ++ slash :: t ++ slash :: x = topics_pfx ++ slash :: t' ++ slash :: x' -> t = t' /\ x = x'.
  Proof.
    intros E. apply app_inv_head in E. apply (f_equal (@tl Z)) in E. cbn [tl] in E.
    now apply split_first_sep in E.
  Qed.

  Lemma offset_key_inj : offset_key t p = offset_key t' p' -> t = t' /\ p = p'.
  Proof.
    unfold offset_key. intros E.
    change (lit "/partitions/") with (slash :: lit "partitions/") in E. cbn [app] in E.
    apply topics_tail_inj in E as [-> E]. split; [reflexivity|].
    apply app_inv_head in E.
    change (lit "/next_offset") with (slash :: lit "next_offset") in E.
    apply split_first_sep in E as [E _]; [|apply dec_no_sep; exact slash_not_dec|apply dec_no_sep; exact slash_not_dec].
    now apply dec_inj.
  Qed.

  Lemma partition_state_key_inj : partition_state_key t p = partition_state_key t' p' -> t = t' /\ p = p'.
  Proof.
    unfold partition_state_key. intros E.
    change (lit "/partitions/") with (slash :: lit "partitions/") in E. cbn [app] in E.
    apply topics_tail_inj in E as [-> E]. split; [reflexivity|].
    apply app_inv_head in E. now apply dec_inj.
  Qed.

  Lemma topic_config_key_inj : topic_config_key t = topic_config_key t' -> t = t'.
  Proof.
    unfold topic_config_key. intros E.
    change (lit "/config") with (slash :: lit "config") in E.
    now apply topics_tail_inj in E as [-> _].
  Qed.

  Lemma assignment_key_inj : assignment_key t p = assignment_key t' p' -> t = t' /\ p = p'.
  Proof.
    unfold assignment_key. intros E. apply app_inv_head in E.
    apply (f_equal (@tl Z)) in E. cbn [tl] in E.
    apply split_first_sep in E as [-> E]; [|exact St|exact St']. split; [reflexivity|now apply dec_inj].
  Qed.

  (* nothing of topic t' lies under the prefix deleted with topic t, unless t = t' *)
  Lemma delete_prefix_hits x :
    has_prefix (topic_delete_prefix t) (topics_pfx ++ slash :: t' ++ slash :: x) = true -> t = t'.
  Proof.
    intros H. apply has_prefix_spec in H as [r E]. unfold topic_delete_prefix in E.
    repeat (rewrite <- app_assoc in E; cbn [app] in E). symmetry in E.
    now apply topics_tail_inj in E as [-> _].
  Qed.
End Meta.

Lemma partition_key_inj t p t' p' : partition_key t p = partition_key t' p' -> t = t' /\ p = p'.
Proof.
  unfold partition_key. intros E.
  apply split_last_sep in E as [-> E];
    [|apply dec_no_sep; exact colon_not_dec|apply dec_no_sep; exact colon_not_dec].
  split; [reflexivity|now apply dec_inj].
Qed.

Lemma delete_prefix_free t t' p' :
  noslash t -> noslash t' -> t <> t' ->
  has_prefix (topic_delete_prefix t) (offset_key t' p') = false /\
  has_prefix (topic_delete_prefix t) (partition_state_key t' p') = false /\
  has_prefix (topic_delete_prefix t) (topic_config_key t') = false.
Proof.
  intros St St' Hne. unfold offset_key, partition_state_key, topic_config_key.
  change (lit "/partitions/") with (slash :: lit "partitions/").
  change (lit "/config") with (slash :: lit "config"). cbn [app].
  repeat split; (destruct (has_prefix _ _) eqn:E; [|reflexivity]);
    apply (delete_prefix_hits t t' St St') in E; contradiction.
Qed.

(* and the prefix does delete the topic's own keys *)
Lemma own_prefix t x : has_prefix (topic_delete_prefix t) (topics_pfx ++ slash :: t ++ slash :: x) = true.
Proof.
  apply has_prefix_spec. exists x. unfold topic_delete_prefix.
  rewrite <- app_assoc. cbn [app]. rewrite <- app_assoc. reflexivity.
Qed.

Lemma delete_prefix_own t p :
  has_prefix (topic_delete_prefix t) (offset_key t p) = true /\
  has_prefix (topic_delete_prefix t) (partition_state_key t p) = true /\
  has_prefix (topic_delete_prefix t) (topic_config_key t) = true.
Proof.
  unfold offset_key, partition_state_key, topic_config_key.
  change (lit "/partitions/") with (slash :: lit "partitions/").
  change (lit "/config") with (slash :: lit "config"). cbn [app].
  repeat split; apply own_prefix.
Qed.
