(* Proofs about the group-coordinator model (model/Coordinator.v): invariants of every
   operation, and the lemmas behind props/C12, C13, C14, C15, C43. *)
From Coq Require Import Permutation ZifyBool.
From KS Require Import lib.Base model.Coordinator proofs.CoordinatorBase.
Open Scope Z_scope.

(* ---- startRebalance ---- *)
Record basic (g : group) : Prop := mkBasic {
  b_nodup : NoDup (keys g);
  b_nonempty : g_members g <> [];
  b_session : forall id m, In (id, m) (g_members g) -> 0 < m_session m;
  b_rebto : 0 < g_rebto g
}.

Lemma wf_basic E g : wf E g -> basic g.
Proof. intros [? ? ? ? ? ? ? ? ?]. constructor; assumption. Qed.

Lemma reset_nonempty ms : ms <> [] -> reset_joingen ms <> [].
Proof. destruct ms; [congruence|discriminate]. Qed.

Lemma start_rebalance_spec E timeout now g :
  basic g ->
  let r := start_rebalance timeout now g in
  wf E r /\ g_gen r = g_gen g + 1 /\ g_phase r = PPreparing /\
  g_members r = reset_joingen (g_members g) /\
  (forall l, g_leader g = Some l -> In l (keys g) -> g_leader r = Some l).
Proof.
  intros [Hd Hne Hs Hr]. cbn zeta. unfold start_rebalance.
  destruct (g_members g) as [|e ms] eqn:Em; [congruence|]. rewrite <- Em in *.
  set (rebto := if timeout >? 0 then timeout else if g_rebto g =? 0 then default_rebalance else g_rebto g).
  assert (0 < rebto) as Hrt.
  { subst rebto. unfold default_rebalance. destruct (timeout >? 0) eqn:E1; [lia|]. destruct (g_rebto g =? 0); lia. }
  set (G := mkGroup (g_gen g + 1) (g_leader g) PPreparing (reset_joingen (g_members g)) [] rebto (Some (now + rebto))).
  destruct (ensure_leader_fields G) as [F1 [F2 [F3 [F4 [F5 F6]]]]].
  assert (g_members G <> []) as HneG by (cbn; now apply reset_nonempty).
  destruct (ensure_leader_ok G HneG) as [l [Hl Hin]].
  assert (keys (ensure_leader G) = keys g) as Hk.
  { unfold keys. rewrite F3. cbn. apply akeys_reset. }
  split; [|split; [|split; [|split]]].
  - constructor.
    + now rewrite Hk.
    + now rewrite F3.
    + exists l. split; [assumption|]. rewrite Hk. unfold keys, G in Hin. cbn [g_members] in Hin. now rewrite akeys_reset in Hin.
    + left. now rewrite F2.
    + rewrite F2. cbn. congruence.
    + intros _. now rewrite F4.
    + rewrite F2. cbn. discriminate.
    + intros id m. rewrite F3. cbn. intros H. apply In_reset in H as [m0 [H1 [H2 _]]]. rewrite H2. eauto.
    + now rewrite F5.
  - now rewrite F1.
  - now rewrite F2.
  - now rewrite F3.
  - intros l0 Hl0 Hin0. rewrite (ensure_leader_id G l0); [exact Hl0|exact Hl0|].
    unfold keys, G. cbn [g_members]. now rewrite akeys_reset.
Qed.

(* ---- JoinGroup ---- *)
Lemma topics_eqb_eq a b : topics_eqb a b = true -> a = b.
Proof.
  unfold topics_eqb. revert b; induction a as [|x a IH]; intros [|y b]; cbn; try discriminate; auto.
  intros H. apply andb_true_iff in H as [H1 H2]. f_equal; [lia|auto].
Qed.

(* wf with the joined-condition relaxed for the member that is joining right now *)
Record wfj (E : env) (id : Z) (g : group) : Prop := mkWfj {
  j_nodup : NoDup (keys g);
  j_nonempty : g_members g <> [];
  j_leader : exists l, g_leader g = Some l /\ In l (keys g);
  j_phase : g_phase g = PPreparing \/ g_phase g = PCompleting \/ g_phase g = PStable;
  j_joined : g_phase g <> PPreparing -> forall k m, In (k, m) (g_members g) -> k <> id -> m_joingen m = g_gen g;
  j_noassign : g_phase g <> PStable -> g_assign g = [];
  j_assign : g_phase g = PStable -> forall k, In k (keys g) ->
              assignment_of g k = assign_for E (subs (g_members g)) k;
  j_session : forall k m, In (k, m) (g_members g) -> 0 < m_session m;
  j_rebto : 0 < g_rebto g
}.

Lemma all_joined_In g k m : all_joined g = true -> In (k, m) (g_members g) -> m_joingen m = g_gen g.
Proof.
  unfold all_joined. rewrite forallb_forall. intros H Hin. specialize (H _ Hin). cbn in H. lia.
Qed.

Lemma wf_wfj E id g : wf E g -> wfj E id g.
Proof.
  intros [? ? ? ? Hj ? ? ? ?]. constructor; try assumption.
  intros Hp k m Hin _. eapply all_joined_In; eauto.
Qed.

(* stage 3 of JoinGroup: member.joinGeneration = generationID *)
Lemma join_stage3 E id g :
  wfj E id g -> In id (keys g) ->
  wf E (with_members g (set_joingen id (g_gen g) (g_members g))).
Proof.
  intros [Hd Hne Hl Hp Hj Hna Ha Hs Hr] Hin.
  assert (keys (with_members g (set_joingen id (g_gen g) (g_members g))) = keys g) as Hk.
  { unfold keys. cbn. apply akeys_set_joingen. }
  constructor; cbn [with_members g_members g_phase g_gen g_leader g_assign g_rebto].
  - now rewrite Hk.
  - intros H. apply (f_equal akeys) in H. rewrite akeys_set_joingen in H.
    destruct (g_members g); [congruence|discriminate].
  - destruct Hl as [l [H1 H2]]. exists l. rewrite Hk. auto.
  - assumption.
  - intros Hpp. unfold all_joined. cbn. apply set_joingen_joined; auto.
    intros k m H1 H2. eapply Hj; eauto.
  - assumption.
  - intros Hst k Hk'. rewrite Hk in Hk'. unfold assignment_of. cbn. rewrite subs_set_joingen.
    apply (Ha Hst k Hk').
  - intros k m H. apply In_set_joingen in H as [m0 [H1 [H2 _]]]. rewrite H2. eauto.
  - assumption.
Qed.

(* stage 1: the (new or refreshed) member is stored *)
Lemma join_stage1 E g id m1 :
  wf E g -> 0 < m_session m1 ->
  (g_phase g = PStable -> exists m0, alookup id (g_members g) = Some m0 /\ m_topics m1 = m_topics m0) ->
  wfj E id (with_members g (aset id m1 (g_members g))) /\
  In id (keys (with_members g (aset id m1 (g_members g)))).
Proof.
  intros [Hd Hne Hl Hp Hj Hna Ha Hs Hr] Hs1 Hst. split.
  - constructor; unfold keys; cbn [with_members g_members g_phase g_gen g_leader g_assign g_rebto].
    + now apply NoDup_akeys_aset.
    + apply aset_nonempty.
    + destruct Hl as [l [H1 H2]]. exists l. split; [assumption|]. apply akeys_aset_in. now right.
    + assumption.
    + intros Hpp k m H Hn. apply In_aset_strong in H; [|exact Hd]. destruct H as [[? _]|[_ H]]; [congruence|].
      eapply all_joined_In; eauto.
    + assumption.
    + intros Hs2 k Hk. destruct (Hst Hs2) as [m0 [Hl0 Ht]].
      rewrite (subs_aset_same id m0 m1) by assumption.
      rewrite akeys_aset_present in Hk by (apply amem_In; unfold amem; now rewrite Hl0).
      apply (Ha Hs2 k Hk).
    + intros k m H. apply In_aset in H as [H|H]; [inversion H; subst; assumption|eauto].
    + assumption.
  - unfold keys. cbn [with_members g_members]. apply akeys_aset_in. now left.
Qed.

Lemma wfj_basic E id g : wfj E id g -> basic g.
Proof. intros [? ? ? ? ? ? ? ? ?]. constructor; assumption. Qed.

Lemma bump_wfj E id timeout now g : wfj E id g -> g_phase g <> PStable -> wfj E id (bump_deadline timeout now g).
Proof.
  intros [Hd Hne Hl Hp Hj Hna Ha Hs Hr] Hns. unfold bump_deadline.
  constructor; cbn [g_members g_phase g_gen g_leader g_assign g_rebto keys]; try assumption.
  unfold default_rebalance. destruct (timeout >? 0) eqn:E1; [lia|]. destruct (g_rebto g =? 0); lia.
Qed.

(* the tail of JoinGroup: ensureLeader if "", completeIfReady *)
Definition join_tail (g3 : group) (id : Z) : outcome :=
  let g4 := match g_leader g3 with None => ensure_leader g3 | Some _ => g3 end in
  let '(g5, ready) :=
    if phase_eqb (g_phase g4) PStable || phase_eqb (g_phase g4) PCompleting
    then (g4, true) else complete_if_ready g4 in
  let is_leader := opt_z_eqb (g_leader g5) (Some id) in
  Save g5 (RJoin (if ready then NONE else REBALANCE_IN_PROGRESS) (g_gen g5) (g_leader g5) id
                 (if ready && is_leader then member_list g5 else [])).

Ltac triv := first [reflexivity | assumption | congruence].

Lemma complete_if_ready_eq g :
  g_members g <> [] ->
  complete_if_ready g =
  if all_joined g
  then (mkGroup (g_gen g) (g_leader g) PCompleting (g_members g) (g_assign g) (g_rebto g) None, true)
  else (g, false).
Proof. unfold complete_if_ready. destruct (g_members g); [congruence|reflexivity]. Qed.

Lemma join_tail_spec E g3 id :
  wf E g3 ->
  exists g5 e ms, join_tail g3 id = Save g5 (RJoin e (g_gen g5) (g_leader g5) id ms) /\
    wf E g5 /\ g_gen g5 = g_gen g3 /\ g_members g5 = g_members g3 /\ g_leader g5 = g_leader g3 /\
    g_assign g5 = g_assign g3 /\
    (e = NONE \/ e = REBALANCE_IN_PROGRESS) /\
    (e = NONE <-> g_phase g5 <> PPreparing) /\
    (g_phase g3 <> PPreparing -> g5 = g3) /\
    (ms <> [] -> e = NONE /\ g_leader g5 = Some id).
Proof.
  intros Hwf. pose proof Hwf as [Hd Hne [l [Hl Hlin]] Hp Hj Hna Ha Hs Hr].
  unfold join_tail. rewrite Hl.
  assert (forall b ld (L : list (Z * list Z)), ld = Some l ->
            (if b && opt_z_eqb ld (Some id) then L else []) <> [] ->
            b = true /\ ld = Some id) as Hml.
  { intros b ld L Hl5 H. subst ld. destruct b; [|cbn in H; congruence].
    cbn in H. destruct (l =? id) eqn:El; [|congruence]. split; [reflexivity|f_equal; lia]. }
  destruct (phase_eqb (g_phase g3) PStable || phase_eqb (g_phase g3) PCompleting) eqn:Eph.
  - exists g3, NONE. eexists. split; [triv|].
    split; [exact Hwf|]. split; [triv|]. split; [triv|]. split; [triv|].
    split; [triv|]. split; [now left|]. split; [|split].
    + split; [|reflexivity]. intros _.
      apply orb_true_iff in Eph as [H|H]; apply phase_eqb_eq in H; congruence.
    + reflexivity.
    + intros H. eapply Hml in H; [|exact Hl]. tauto.
  - assert (g_phase g3 = PPreparing) as Hprep.
    { apply orb_false_iff in Eph as [H1 H2]. apply phase_eqb_neq in H1, H2. intuition congruence. }
    rewrite complete_if_ready_eq by exact Hne.
    destruct (all_joined g3) eqn:Eaj.
    + eexists. exists NONE. eexists. split; [triv|].
      cbn [g_gen g_members g_leader g_assign g_phase].
      split; [|split; [triv|split; [triv|split; [triv|split; [triv|split; [now left|split; [|split]]]]]]].
      * constructor; cbn [g_gen g_members g_leader g_assign g_phase g_rebto keys].
        -- exact Hd.
        -- exact Hne.
        -- exists l. split; [triv|exact Hlin].
        -- right; left; reflexivity.
        -- intros _. exact Eaj.
        -- intros _. apply Hna. congruence.
        -- intros H; discriminate H.
        -- exact Hs.
        -- exact Hr.
      * split; [discriminate|reflexivity].
      * intros H. congruence.
      * intros H. eapply Hml in H; [|exact Hl]. tauto.
    + exists g3, REBALANCE_IN_PROGRESS. eexists. split; [triv|].
      split; [exact Hwf|]. split; [triv|]. split; [triv|]. split; [triv|].
      split; [triv|]. split; [now right|]. split; [|split].
      * split; [discriminate|]. intros H. congruence.
      * reflexivity.
      * intros H. cbn in H. congruence.
Qed.

Lemma join_g_unfold g mid fresh sess reb topics now :
  join_g g mid fresh sess reb topics now =
  let timeout := if reb >? 0 then reb else default_rebalance in
  let exists_ := amem mid (g_members g) in
  let id := if exists_ then mid else fresh in
  let m0 := match alookup mid (g_members g) with Some m => m | None => mkMember [] 0 0 0 end in
  let session := if sess >? 0 then sess
                 else if m_session m0 =? 0 then default_session else m_session m0 in
  let changed := exists_ && negb (topics_eqb (m_topics m0) topics) in
  let g1 := with_members g (aset id (mkMember topics session now (m_joingen m0)) (g_members g)) in
  let g2 :=
    if (Z.of_nat (length (g_members g1)) =? 1) && phase_eqb (g_phase g1) PEmpty
    then start_rebalance timeout now (with_leader g1 (Some id))
    else if phase_eqb (g_phase g1) PStable && (negb exists_ || changed)
    then start_rebalance timeout now g1
    else if phase_eqb (g_phase g1) PEmpty
    then start_rebalance timeout now g1
    else if phase_eqb (g_phase g1) PPreparing || phase_eqb (g_phase g1) PCompleting
    then bump_deadline timeout now g1
    else g1 in
  join_tail (with_members g2 (set_joingen id (g_gen g2) (g_members g2))) id.
Proof.
  unfold join_g, join_tail, amem. destruct (alookup mid (g_members g)); reflexivity.
Qed.

Definition join_id (g : group) (mid fresh : Z) : Z := if amem mid (g_members g) then mid else fresh.

Lemma join_g_spec E g mid fresh sess reb topics now :
  wf E g \/ g = new_group ->
  exists g5 e ms, join_g g mid fresh sess reb topics now =
                  Save g5 (RJoin e (g_gen g5) (g_leader g5) (join_id g mid fresh) ms) /\
    wf E g5 /\ g_gen g <= g_gen g5 /\ In (join_id g mid fresh) (keys g5) /\
    (e = NONE \/ e = REBALANCE_IN_PROGRESS) /\
    (e = NONE <-> g_phase g5 <> PPreparing) /\
    (ms <> [] -> e = NONE /\ g_leader g5 = Some (join_id g mid fresh)) /\
    (forall k, In k (keys g5) <-> k = join_id g mid fresh \/ In k (keys g)) /\
    (g_phase g = PStable -> g_gen g5 = g_gen g ->
     g_phase g5 = PStable /\ subs (g_members g5) = subs (g_members g) /\ g_assign g5 = g_assign g).
Proof.
  intros Hg. rewrite join_g_unfold. cbn zeta. fold (join_id g mid fresh).
  set (id := join_id g mid fresh).
  set (timeout := if reb >? 0 then reb else default_rebalance).
  set (m0 := match alookup mid (g_members g) with Some m => m | None => mkMember [] 0 0 0 end).
  set (session := if sess >? 0 then sess else if m_session m0 =? 0 then default_session else m_session m0).
  set (m1 := mkMember topics session now (m_joingen m0)).
  set (g1 := with_members g (aset id m1 (g_members g))).
  assert (0 < timeout) as Hto by (subst timeout; unfold default_rebalance; destruct (reb >? 0) eqn:?; lia).
  (* shape of the conclusion from a wf stage-3 group *)
  assert (forall g2, wfj E id g2 -> In id (keys g2) -> g_gen g <= g_gen g2 ->
                     (forall k, In k (keys g2) <-> k = id \/ In k (keys g)) ->
                     (g_phase g = PStable -> g_gen g2 = g_gen g ->
                      g_phase g2 = PStable /\ subs (g_members g2) = subs (g_members g) /\ g_assign g2 = g_assign g) ->
    exists g5 e ms, join_tail (with_members g2 (set_joingen id (g_gen g2) (g_members g2))) id =
                    Save g5 (RJoin e (g_gen g5) (g_leader g5) id ms) /\
      wf E g5 /\ g_gen g <= g_gen g5 /\ In id (keys g5) /\ (e = NONE \/ e = REBALANCE_IN_PROGRESS) /\
      (e = NONE <-> g_phase g5 <> PPreparing) /\ (ms <> [] -> e = NONE /\ g_leader g5 = Some id) /\
      (forall k, In k (keys g5) <-> k = id \/ In k (keys g)) /\
      (g_phase g = PStable -> g_gen g5 = g_gen g ->
       g_phase g5 = PStable /\ subs (g_members g5) = subs (g_members g) /\ g_assign g5 = g_assign g)) as Hfin.
  { intros g2 Hj Hin Hgen Hkeys Hsame. pose proof (join_stage3 E id g2 Hj Hin) as Hw3.
    destruct (join_tail_spec E _ id Hw3) as [g5 [e [ms [Heq [Hw5 [Hg5 [Hm5 [Hl5 [Ha5 [He [Hph [Hsame5 Hms]]]]]]]]]]]].
    exists g5, e, ms. split; [exact Heq|]. split; [exact Hw5|].
    assert (keys g5 = keys g2) as Hk.
    { unfold keys. rewrite Hm5. cbn [with_members g_members]. apply akeys_set_joingen. }
    cbn [with_members g_gen] in Hg5.
    split; [lia|]. split; [now rewrite Hk|]. split; [exact He|]. split; [exact Hph|].
    split; [exact Hms|]. split; [intros k; rewrite Hk; apply Hkeys|].
    intros Hst Hgeq. rewrite Hg5 in Hgeq. destruct (Hsame Hst Hgeq) as [Hp2 [Hs2 Ha2]].
    cbn [with_members g_phase] in Hsame5. rewrite (Hsame5 ltac:(congruence)).
    cbn [with_members g_phase g_members g_assign]. rewrite subs_set_joingen. auto. }
  assert (forall k, In k (keys g1) <-> k = id \/ In k (keys g)) as Hk1.
  { intros k. unfold keys, g1. cbn. apply akeys_aset_in. }
  destruct Hg as [Hwf|Hnew].
  - (* an existing, well-formed group *)
    pose proof Hwf as [Hd Hne Hl Hp Hj Hna Ha Hs Hr].
    assert (0 < session) as Hses.
    { subst session. unfold default_session. destruct (sess >? 0) eqn:?; [lia|].
      destruct (m_session m0 =? 0) eqn:?; [lia|].
      subst m0. destruct (alookup mid (g_members g)) eqn:El; [|cbn in *; lia].
      apply alookup_In in El. specialize (Hs _ _ El). lia. }
    assert (phase_eqb (g_phase g1) PEmpty = false) as Hne1.
    { apply phase_eqb_neq. cbn. intuition congruence. }
    rewrite Hne1, andb_false_r.
    destruct (phase_eqb (g_phase g1) PStable && (negb (amem mid (g_members g)) || amem mid (g_members g) && negb (topics_eqb (m_topics m0) topics))) eqn:Ereb.
    + (* Stable, new member or changed subscription: rebalance *)
      assert (basic g1) as Hb.
      { constructor; unfold g1, keys; cbn.
        - now apply NoDup_akeys_aset.
        - apply aset_nonempty.
        - intros k m H. apply In_aset in H as [H|H]; [inversion H; subst; assumption|eauto].
        - assumption. }
      destruct (start_rebalance_spec E timeout now g1 Hb) as [Hw2 [Hg2 [Hp2 [Hm2 _]]]].
      apply Hfin.
      * now apply wf_wfj.
      * unfold keys. rewrite Hm2, akeys_reset. apply Hk1. now left.
      * rewrite Hg2. cbn. lia.
      * intros k. unfold keys. rewrite Hm2, akeys_reset. apply Hk1.
      * intros _ Hgeq. rewrite Hg2 in Hgeq. cbn in Hgeq. lia.
    + (* no rebalance: the member (re)joins the running generation *)
      assert (g_phase g = PStable -> exists m0', alookup id (g_members g) = Some m0' /\ m_topics m1 = m_topics m0') as Hst.
      { intros Hst. rewrite (proj2 (phase_eqb_eq (g_phase g1) PStable)) in Ereb by (cbn; assumption).
        cbn in Ereb. apply orb_false_iff in Ereb as [E1 E2]. apply negb_false_iff in E1.
        rewrite E1 in E2. cbn in E2. apply negb_false_iff in E2. apply topics_eqb_eq in E2.
        unfold id, join_id. rewrite E1. unfold amem in E1.
        destruct (alookup mid (g_members g)) as [mm|] eqn:El; [|discriminate].
        exists mm. split; [reflexivity|]. subst m1 m0. cbn. now rewrite E2. }
      destruct (join_stage1 E g id m1 Hwf Hses Hst) as [Hj1 Hin1]. fold g1 in Hj1, Hin1.
      destruct (phase_eqb (g_phase g1) PPreparing || phase_eqb (g_phase g1) PCompleting) eqn:Epc.
      * apply Hfin.
        -- apply bump_wfj; [assumption|]. apply orb_true_iff in Epc as [H|H]; apply phase_eqb_eq in H; congruence.
        -- exact Hin1.
        -- cbn. lia.
        -- exact Hk1.
        -- intros Hst' _. exfalso. apply orb_true_iff in Epc as [H|H]; apply phase_eqb_eq in H; cbn in H; congruence.
      * apply Hfin; [exact Hj1|exact Hin1|cbn; lia|exact Hk1|].
        intros Hst' _. destruct (Hst Hst') as [m0' [Hl0' Ht0']].
        cbn [g1 with_members g_phase g_members g_assign]. split; [exact Hst'|]. split; [|reflexivity].
        eapply subs_aset_same; eauto.
  - (* the group did not exist: ensureGroup made an empty one *)
    subst g. assert (id = fresh) as Hid by reflexivity.
    assert (g_members g1 = [(fresh, m1)]) as Hm1 by reflexivity.
    assert (0 < session) as Hses.
    { subst session m0. cbn. unfold default_session. destruct (sess >? 0) eqn:?; lia. }
    assert ((Z.of_nat (length (g_members g1)) =? 1) && phase_eqb (g_phase g1) PEmpty = true) as Hc by reflexivity.
    rewrite Hc.
    assert (basic (with_leader g1 (Some id))) as Hb.
    { constructor; unfold keys; cbn [with_leader g_members g_rebto]; rewrite ?Hm1; cbn.
      - constructor; [tauto|constructor].
      - discriminate.
      - intros k m [H|[]]. injection H as _ Hm'. rewrite <- Hm'. exact Hses.
      - unfold default_rebalance; lia. }
    destruct (start_rebalance_spec E timeout now _ Hb) as [Hw2 [Hg2 [Hp2 [Hm2 _]]]].
    apply Hfin.
    + now apply wf_wfj.
    + unfold keys. rewrite Hm2. cbn [with_leader g_members]. rewrite akeys_reset. apply Hk1. now left.
    + rewrite Hg2. cbn. lia.
    + intros k. unfold keys. rewrite Hm2. cbn [with_leader g_members]. rewrite akeys_reset. apply Hk1.
    + intros Hst' _. cbn in Hst'. discriminate.
Qed.

(* ---- updating one member without touching its subscription / joinGeneration ---- *)
Lemma wf_update_member E g id m m' :
  wf E g -> alookup id (g_members g) = Some m ->
  m_topics m' = m_topics m -> m_joingen m' = m_joingen m -> 0 < m_session m' ->
  wf E (with_members g (aset id m' (g_members g))).
Proof.
  intros Hwf Hl Ht Hjg Hs'. pose proof Hwf as [Hd Hne Hld Hp Hj Hna Ha Hs Hr].
  assert (In id (akeys (g_members g))) as Hin by (apply amem_In; unfold amem; now rewrite Hl).
  assert (keys (with_members g (aset id m' (g_members g))) = keys g) as Hk.
  { unfold keys. cbn [with_members g_members]. now apply akeys_aset_present. }
  constructor; cbn [with_members g_members g_phase g_gen g_leader g_assign g_rebto].
  - now rewrite Hk.
  - apply aset_nonempty.
  - destruct Hld as [l [H1 H2]]. exists l. rewrite Hk. auto.
  - assumption.
  - intros Hpp. unfold all_joined. cbn [with_members g_members g_gen]. apply forallb_forall.
    intros [k x] H. cbn. apply In_aset_strong in H; [|exact Hd]. destruct H as [[-> ->]|[_ H]].
    + rewrite Hjg. apply alookup_In in Hl. rewrite (all_joined_In g id m (Hj Hpp) Hl). lia.
    + rewrite (all_joined_In g k x (Hj Hpp) H). lia.
  - assumption.
  - intros Hst k Hk'. rewrite Hk in Hk'. unfold assignment_of. cbn [with_members g_assign g_members].
    rewrite (subs_aset_same id m m') by assumption. apply (Ha Hst k Hk').
  - intros k x H. apply In_aset in H as [H|H]; [inversion H; subst; assumption|eauto].
  - assumption.
Qed.

(* ---- SyncGroup ---- *)
Lemma alookup_map_self {V} (f : Z -> V) id l :
  In id l -> alookup id (map (fun k => (k, f k)) l) = Some (f id).
Proof.
  induction l as [|k l IH]; cbn; [tauto|]. intros H.
  destruct (id =? k) eqn:E; [f_equal; f_equal; lia|]. apply IH. destruct H; [lia|assumption].
Qed.

Definition sync_post (E : env) (g : group) (mid gen : Z) (o : outcome) : Prop :=
  match o with
  | Keep g' (RSync e a) => g' = g /\ e <> NONE /\ a = []
  | Save g' (RSync e a) =>
      wf E g' /\ e = NONE /\ gen = g_gen g /\ In mid (keys g) /\ g_phase g <> PPreparing /\
      g_phase g' = PStable /\ g_gen g' = g_gen g /\ g_members g' = g_members g /\
      g_leader g' = g_leader g /\ a = assign_for E (subs (g_members g)) mid /\
      a = assignment_of g' mid /\
      (g_phase g = PStable -> g' = g) /\ (g_phase g = PCompleting -> g_leader g = Some mid)
  | _ => False
  end.

Lemma sync_g_spec E g mid gen : wf E g -> sync_post E g mid gen (sync_g E g mid gen).
Proof.
  intros Hwf. pose proof Hwf as [Hd Hne Hld Hp Hj Hna Ha Hs Hr].
  unfold sync_g.
  destruct (gen =? g_gen g) eqn:Eg; cbn [negb]; [|cbn; repeat split; discriminate].
  destruct (amem mid (g_members g)) eqn:Em; cbn [negb]; [|cbn; repeat split; discriminate].
  apply amem_In in Em.
  destruct (phase_eqb (g_phase g) PPreparing) eqn:Epp; [cbn; repeat split; discriminate|].
  apply phase_eqb_neq in Epp.
  destruct (phase_eqb (g_phase g) PCompleting) eqn:Epc.
  - apply phase_eqb_eq in Epc.
    rewrite (Hna ltac:(congruence)). cbn [length Z.of_nat Z.eqb andb].
    destruct (opt_z_eqb (g_leader g) (Some mid)) eqn:El; cbn [negb]; [|cbn; repeat split; discriminate].
    assert (g_leader g = Some mid) as Hlm.
    { destruct (g_leader g) as [l|]; cbn in El; [f_equal; lia|discriminate]. }
    set (g0 := mkGroup (g_gen g) (g_leader g) (g_phase g) (g_members g) (assign_partitions E g) (g_rebto g) (g_deadline g)).
    assert (mark_stable g0 = mkGroup (g_gen g) (g_leader g) PStable (g_members g) (assign_partitions E g) (g_rebto g) None) as Hms.
    { unfold mark_stable, g0. cbn [g_phase]. rewrite Epc. reflexivity. }
    rewrite Hms. clear Hms g0.
    set (g1 := mkGroup (g_gen g) (g_leader g) PStable (g_members g) (assign_partitions E g) (g_rebto g) None).
    assert (forall id, In id (keys g) -> assignment_of g1 id = assign_for E (subs (g_members g)) id) as Hasg.
    { intros id Hin. unfold assignment_of, g1, assign_partitions. cbn [g_assign].
      rewrite alookup_map_self; [reflexivity|]. unfold sorted_ids. now apply zsort_In. }
    assert (wf E g1) as Hw1.
    { constructor; unfold g1; cbn [g_gen g_members g_leader g_assign g_phase g_rebto keys].
      - exact Hd.
      - exact Hne.
      - exact Hld.
      - right; right; reflexivity.
      - intros _. apply Hj. congruence.
      - intros H. congruence.
      - intros _. exact Hasg.
      - exact Hs.
      - exact Hr. }
    assert (sync_post E g mid gen (Save g1 (RSync NONE (assignment_of g1 mid)))) as Hpost.
    { cbn. split; [exact Hw1|]. split; [reflexivity|]. split; [lia|]. split; [exact Em|].
      split; [exact Epp|]. split; [reflexivity|]. split; [reflexivity|]. split; [reflexivity|].
      split; [reflexivity|]. split; [now apply Hasg|]. split; [reflexivity|].
      split; [congruence|]. intros _. exact Hlm. }
    destruct (assignment_of g1 mid) eqn:Ea; [|exact Hpost].
    assert (phase_eqb (g_phase g1) PStable = true) as -> by reflexivity. exact Hpost.
  - apply phase_eqb_neq in Epc. cbn [andb].
    assert (g_phase g = PStable) as Hst by intuition congruence.
    assert (sync_post E g mid gen (Save g (RSync NONE (assignment_of g mid)))) as Hpost.
    { cbn. split; [exact Hwf|]. split; [reflexivity|]. split; [lia|]. split; [exact Em|].
      split; [exact Epp|]. split; [exact Hst|]. split; [reflexivity|]. split; [reflexivity|].
      split; [reflexivity|]. split; [now apply Ha|]. split; [reflexivity|].
      split; [reflexivity|]. congruence. }
    destruct (assignment_of g mid) eqn:Ea; [|exact Hpost].
    rewrite (proj2 (phase_eqb_eq _ _) Hst). exact Hpost.
Qed.

(* ---- Heartbeat ---- *)
Definition hb_post (E : env) (g : group) (mid gen now : Z) (o : outcome) : Prop :=
  match o with
  | Keep g' (RErr e) => g' = g /\ e <> NONE
  | Save g' (RErr e) =>
      wf E g' /\ gen = g_gen g /\ In mid (keys g) /\
      g_gen g' = g_gen g /\ g_phase g' = g_phase g /\ g_leader g' = g_leader g /\
      g_assign g' = g_assign g /\ subs (g_members g') = subs (g_members g) /\
      (e = NONE <-> g_phase g = PStable) /\
      (exists m, alookup mid (g_members g) = Some m /\
                 g_members g' = aset mid (mkMember (m_topics m) (m_session m) now (m_joingen m)) (g_members g))
  | _ => False
  end.

Lemma heartbeat_g_spec E g mid gen now : wf E g -> hb_post E g mid gen now (heartbeat_g g mid gen now).
Proof.
  intros Hwf. unfold heartbeat_g.
  destruct (alookup mid (g_members g)) as [m|] eqn:El; [|cbn; split; [reflexivity|discriminate]].
  destruct (gen =? g_gen g) eqn:Eg; cbn [negb]; [|cbn; split; [reflexivity|discriminate]].
  cbn. split.
  - eapply wf_update_member; eauto. cbn. apply (wf_session E g Hwf mid m). now apply alookup_In.
  - split; [lia|]. split; [apply amem_In; unfold amem; now rewrite El|].
    split; [reflexivity|]. split; [reflexivity|]. split; [reflexivity|]. split; [reflexivity|].
    split; [eapply subs_aset_same; eauto|]. split.
    + destruct (phase_eqb (g_phase g) PStable) eqn:Es.
      * apply phase_eqb_eq in Es. tauto.
      * apply phase_eqb_neq in Es. split; [discriminate|tauto].
    + exists m. auto.
Qed.

(* ---- LeaveGroup ---- *)
Lemma akeys_aremove {V} k (l : list (Z * V)) k' : In k' (akeys (aremove k l)) <-> In k' (akeys l) /\ k' <> k.
Proof.
  unfold akeys, aremove. rewrite !in_map_iff. split.
  - intros [e [H1 H2]]. apply filter_In in H2 as [H2 H3]. split; [exists e; auto|].
    subst k'. destruct (fst e =? k) eqn:E; [discriminate|lia].
  - intros [[e [H1 H2]] Hn]. exists e. split; [assumption|]. apply filter_In. split; [assumption|].
    subst k'. destruct (fst e =? k) eqn:E; [lia|reflexivity].
Qed.

Definition leave_post (E : env) (g : group) (mid : Z) (o : outcome) : Prop :=
  match o with
  | Keep g' (RErr e) => g' = g /\ e = UNKNOWN_MEMBER_ID /\ ~ In mid (keys g)
  | Gone (RErr e) => e = NONE /\ In mid (keys g) /\ (forall k, In k (keys g) -> k = mid)
  | Save g' (RErr e) =>
      wf E g' /\ e = NONE /\ In mid (keys g) /\ g_gen g' = g_gen g + 1 /\ g_phase g' = PPreparing /\
      (forall k, In k (keys g') <-> In k (keys g) /\ k <> mid)
  | _ => False
  end.

Lemma leave_g_spec E g mid now : wf E g -> leave_post E g mid (leave_g g mid now).
Proof.
  intros Hwf. pose proof Hwf as [Hd Hne Hld Hp Hj Hna Ha Hs Hr]. unfold leave_g.
  destruct (amem mid (g_members g)) eqn:Em; cbn [negb].
  2:{ cbn. split; [reflexivity|]. split; [reflexivity|]. now apply amem_false. }
  apply amem_In in Em. cbn [g_members g_leader].
  destruct (aremove mid (g_members g)) as [|e0 r0] eqn:Er.
  - cbn. split; [reflexivity|]. split; [exact Em|]. intros k Hk.
    destruct (Z.eq_dec k mid) as [|Hn]; [assumption|].
    assert (In k (akeys (aremove mid (g_members g)))) as H by (apply akeys_aremove; auto).
    rewrite Er in H. destruct H.
  - rewrite <- Er.
    set (g1 := mkGroup (g_gen g) (g_leader g) (g_phase g) (aremove mid (g_members g)) (aremove mid (g_assign g)) (g_rebto g) (g_deadline g)).
    set (g2 := if opt_z_eqb (g_leader g) (Some mid) then with_leader g1 None else g1).
    assert (g_members g2 = aremove mid (g_members g) /\ g_rebto g2 = g_rebto g /\ g_gen g2 = g_gen g) as [Hm2 [Hr2 Hg2]].
    { unfold g2. destruct (opt_z_eqb (g_leader g) (Some mid)); cbn; auto. }
    assert (basic g2) as Hb.
    { constructor; unfold keys; rewrite ?Hm2, ?Hr2.
      - apply NoDup_akeys_filter. exact Hd.
      - rewrite Er. discriminate.
      - intros k m H. apply filter_In in H as [H _]. eauto.
      - assumption. }
    destruct (start_rebalance_spec E 0 now g2 Hb) as [Hw [Hg [Hp2 [Hm _]]]].
    cbn. split; [exact Hw|]. split; [reflexivity|]. split; [exact Em|]. split; [lia|]. split; [exact Hp2|].
    intros k. unfold keys. rewrite Hm, akeys_reset, Hm2. apply akeys_aremove.
Qed.

(* ---- cleanupGroups ---- *)
Lemma drop_members_fields dead g :
  g_gen (drop_members dead g) = g_gen g /\ g_rebto (drop_members dead g) = g_rebto g /\
  g_deadline (drop_members dead g) = g_deadline g /\
  g_members (drop_members dead g) = filter (fun e => negb (dead (snd e))) (g_members g).
Proof. unfold drop_members. cbn. auto. Qed.

Lemma filter_filter' {A} (f h : A -> bool) l : filter f (filter h l) = filter (fun x => h x && f x) l.
Proof.
  induction l as [|x l IH]; cbn; [reflexivity|]. destruct (h x); cbn; [|exact IH].
  destruct (f x); [now f_equal|exact IH].
Qed.

Definition survives (now : Z) (g : group) (m : member) : bool :=
  negb (expired now m) &&
  negb (match g_deadline g with
        | Some d => negb (now <? d) && lagging (g_gen g) m
        | None => false
        end).

Lemma cleanup_members g now :
  let g1 := fst (remove_expired now g) in
  let g2 := fst (drop_laggers now g1) in
  g_members g2 = filter (fun e => survives now g (snd e)) (g_members g) /\
  g_gen g2 = g_gen g /\ g_rebto g2 = g_rebto g.
Proof.
  cbn zeta. unfold remove_expired. cbn [fst].
  destruct (drop_members_fields (expired now) g) as [F1 [F2 [F3 F4]]].
  unfold drop_laggers. rewrite F3. unfold survives.
  destruct (g_deadline g) as [d|].
  - destruct (now <? d) eqn:Ed; cbn [fst].
    + rewrite F4, F1, F2. split; [|auto]. apply filter_ext. intros e. cbn. now rewrite andb_true_r.
    + destruct (drop_members_fields (lagging (g_gen (drop_members (expired now) g))) (drop_members (expired now) g)) as [G1 [G2 [G3 G4]]].
      rewrite G4, G1, G2, F4, F1, F2. split; [|auto].
      rewrite filter_filter'. apply filter_ext. intros e. reflexivity.
  - cbn [fst]. rewrite F4, F1, F2. split; [|auto]. apply filter_ext. intros e. cbn. now rewrite andb_true_r.
Qed.

Lemma existsb_false {A} (f : A -> bool) l : existsb f l = false -> forall x, In x l -> f x = false.
Proof.
  intros H x Hin. destruct (f x) eqn:E; [|reflexivity].
  assert (existsb f l = true) by (apply existsb_exists; eauto). congruence.
Qed.

Lemma filter_nil {A} (f : A -> bool) l : filter f l = [] -> forall x, In x l -> f x = false.
Proof.
  intros H x Hin. destruct (f x) eqn:E; [|reflexivity].
  assert (In x (filter f l)) as Hi by (apply filter_In; auto). rewrite H in Hi. destruct Hi.
Qed.

Definition cleanup_post (E : env) (g : group) (now : Z) (o : option outcome) : Prop :=
  match o with
  | None =>
      (forall k m, In (k, m) (g_members g) -> expired now m = false) /\
      (forall d, g_deadline g = Some d -> d <= now -> forall k m, In (k, m) (g_members g) -> lagging (g_gen g) m = false)
  | Some (Gone r) => r = RNone /\ forall k m, In (k, m) (g_members g) -> survives now g m = false
  | Some (Save g' r) =>
      r = RNone /\ wf E g' /\ g_gen g' = g_gen g + 1 /\ g_phase g' = PPreparing /\
      g_members g' = reset_joingen (filter (fun e => survives now g (snd e)) (g_members g))
  | Some (Keep _ _) => False
  end.

Lemma cleanup_g_spec E g now : wf E g -> cleanup_post E g now (cleanup_g g now).
Proof.
  intros Hwf. pose proof Hwf as [Hd Hne Hld Hp Hj Hna Ha Hs Hr].
  pose proof (cleanup_members g now) as Hcm. cbn zeta in Hcm.
  unfold cleanup_g.
  destruct (remove_expired now g) as [g1 removed] eqn:E1.
  destruct (drop_laggers now g1) as [g2 lost] eqn:E2.
  cbn [fst] in Hcm. rewrite E2 in Hcm. cbn [fst] in Hcm. destruct Hcm as [Hm [Hg Hrb]].
  destruct (g_members g2) as [|e0 r0] eqn:Em2.
  - cbn. split; [reflexivity|]. intros k m Hin. symmetry in Hm.
    apply (filter_nil _ _ Hm (k, m) Hin).
  - destruct (removed || lost) eqn:Erl.
    + assert (basic g2) as Hb.
      { constructor; unfold keys.
        - rewrite Em2, Hm. now apply NoDup_akeys_filter.
        - rewrite Em2. discriminate.
        - rewrite Em2, Hm. intros k m H. apply filter_In in H as [H _]. eauto.
        - rewrite Hrb. assumption. }
      destruct (start_rebalance_spec E 0 now g2 Hb) as [Hw [Hg2 [Hp2 [Hm2 _]]]].
      cbn. split; [reflexivity|]. split; [exact Hw|]. split; [lia|]. split; [exact Hp2|].
      rewrite Hm2, Em2, Hm. reflexivity.
    + apply orb_false_iff in Erl as [Hrem Hlost]. subst removed lost. cbn.
      unfold remove_expired in E1. injection E1 as Hg1 Hrem.
      assert (forall k m, In (k, m) (g_members g) -> expired now m = false) as Hnoexp.
      { intros k m Hin. unfold any_dead in Hrem. apply (existsb_false _ _ Hrem (k, m) Hin). }
      split; [exact Hnoexp|].
      intros d Hdl Hle k m Hin.
      unfold drop_laggers in E2. destruct (drop_members_fields (expired now) g) as [F1 [F2 [F3 F4]]].
      rewrite <- Hg1, F3, Hdl in E2. destruct (now <? d) eqn:Ed; [lia|].
      injection E2 as Hg2' Hl. unfold any_dead, drop_members in Hl. cbn [g_gen g_members] in Hl.
      apply (existsb_false _ _ Hl (k, m)). apply filter_In. split; [exact Hin|].
      cbn. now rewrite (Hnoexp k m Hin).
Qed.

(* ---- persistence round trip ---- *)
Definition pview (E : env) (g : group) : pgroup := store_clone (e_keep E) (build g).

Lemma alookup_flat_assign (h : Z -> tassign) (ms : list (Z * pmember)) id :
  NoDup (akeys ms) -> (forall e, In e ms -> pm_assign (snd e) = h (fst e)) ->
  In id (akeys ms) ->
  match alookup id (flat_map (fun e => match pm_assign (snd e) with [] => [] | a => [(fst e, a)] end) ms) with
  | Some a => a | None => [] end = h id.
Proof.
  induction ms as [|[k pm] ms IH]; cbn [akeys map fst flat_map]; intros Hd Hh Hin; [destruct Hin|].
  inversion Hd as [|? ? Hn Hd']; subst.
  assert (pm_assign pm = h k) as Hk by (apply (Hh (k, pm)); now left).
  destruct Hin as [->|Hin].
  - cbn [snd fst]. rewrite Hk. destruct (h id) eqn:Eh.
    + cbn [app]. destruct (alookup id _) eqn:El; [|reflexivity].
      apply alookup_In in El. apply in_flat_map in El as [[k2 pm2] [H1 H2]]. cbn in H2.
      destruct (pm_assign pm2); [destruct H2|]. destruct H2 as [H2|[]]. inversion H2; subst.
      exfalso. apply Hn. unfold akeys. apply in_map_iff. exists (id, pm2). auto.
    + cbn. now rewrite Z.eqb_refl.
  - assert (id <> k) as Hne by (intros ->; contradiction).
    cbn [snd fst]. rewrite Hk. destruct (h k) eqn:Eh.
    + cbn [app]. apply IH; auto. intros e He. apply Hh. now right.
    + cbn. destruct (id =? k) eqn:E; [lia|]. apply IH; auto. intros e He. apply Hh. now right.
Qed.

Lemma flat_assign_nil (ms : list (Z * pmember)) :
  (forall e, In e ms -> pm_assign (snd e) = []) ->
  flat_map (fun e => match pm_assign (snd e) with [] => [] | a => [(fst e, a)] end) ms = [].
Proof.
  induction ms as [|e ms IH]; cbn; [reflexivity|]. intros H.
  rewrite (H e) by now left. cbn. apply IH. intros e' He'. apply H. now right.
Qed.

Lemma alookup_map_entry {A B} (f : Z * A -> Z * B) id l :
  (forall e, fst (f e) = fst e) ->
  alookup id (map f l) = option_map (fun v => snd (f (id, v))) (alookup id l).
Proof.
  intros Hf. induction l as [|[k v] l IH]; cbn; [reflexivity|].
  destruct (f (k, v)) as [k' v'] eqn:Ef. pose proof (Hf (k, v)) as Hk. rewrite Ef in Hk. cbn in Hk. subst k'.
  destruct (id =? k) eqn:Eq1; [|exact IH]. assert (id = k) by lia. subst. cbn. now rewrite Ef.
Qed.

Definition sessK (keep : bool) (s : Z) : Z := if keep then (if s >? 0 then s else 0) else 0.
Definition pentry (keep : bool) (g : group) (e : Z * member) : Z * pmember :=
  (fst e, mkPM (m_topics (snd e)) (sessK keep (m_session (snd e))) (m_hb (snd e)) (assignment_of g (fst e))).

Lemma pview_eq E g :
  pview E g = mkPG (g_phase g) (g_leader g) (g_gen g) (sessK (e_keep E) (g_rebto g))
                   (map (pentry (e_keep E) g) (g_members g)).
Proof.
  unfold pview, store_clone, build, pentry, sessK. destruct (e_keep E); cbn.
  - reflexivity.
  - f_equal. rewrite map_map. reflexivity.
Qed.

Lemma restore_spec E g now :
  wf E g ->
  let r := restore (pview E g) now in
  wf E r /\ pview E r = pview E g /\
  g_gen r = g_gen g /\ g_phase r = g_phase g /\ g_leader r = g_leader g /\
  subs (g_members r) = subs (g_members g) /\
  (forall id, In id (keys g) -> assignment_of r id = assignment_of g id) /\
  (forall id, option_map m_hb (alookup id (g_members r)) = option_map m_hb (alookup id (g_members g))) /\
  (e_keep E = true -> forall id, option_map m_session (alookup id (g_members r)) = option_map m_session (alookup id (g_members g))).
Proof.
  intros Hwf. pose proof Hwf as [Hd Hne [l [Hl Hlin]] Hp Hj Hna Ha Hs Hr]. cbn zeta.
  set (keep := e_keep E).
  rewrite (pview_eq E g). fold keep.
  set (F := pentry keep g). set (prebto := sessK keep (g_rebto g)).
  unfold restore. cbn [pg_phase pg_leader pg_gen pg_rebto pg_members].
  set (rebto := if prebto >? 0 then prebto else default_rebalance).
  set (G := fun e : Z * pmember => (fst e, mkMember (pm_topics (snd e)) (if pm_session (snd e) >? 0 then pm_session (snd e) else default_session) (pm_hb (snd e)) (g_gen g))).
  set (ms' := map G (map F (g_members g))).
  set (asg := flat_map (fun e : Z * pmember => match pm_assign (snd e) with [] => [] | a => [(fst e, a)] end) (map F (g_members g))).
  set (dl := match g_phase g with PPreparing | PCompleting => Some (now + rebto) | _ => None end).
  set (R := mkGroup (g_gen g) (g_leader g) (g_phase g) ms' asg rebto dl).
  assert (akeys ms' = akeys (g_members g)) as Hk.
  { unfold ms', akeys. rewrite !map_map. reflexivity. }
  assert (ensure_leader R = R) as HR.
  { apply (ensure_leader_id R l); [exact Hl|]. unfold keys, R. cbn [g_members]. now rewrite Hk. }
  rewrite HR.
  assert (akeys (map F (g_members g)) = akeys (g_members g)) as HkF.
  { unfold akeys. rewrite map_map. reflexivity. }
  assert (forall id, In id (keys g) -> assignment_of R id = assignment_of g id) as Hasg.
  { intros id Hin. unfold assignment_of at 1. unfold R. cbn [g_assign]. unfold asg.
    apply (alookup_flat_assign (assignment_of g)).
    - now rewrite HkF.
    - intros e He. apply in_map_iff in He as [e0 [<- _]]. reflexivity.
    - now rewrite HkF. }
  assert (subs ms' = subs (g_members g)) as Hsubs.
  { unfold ms', subs. rewrite !map_map. reflexivity. }
  assert (0 < rebto /\ sessK keep rebto = prebto) as [Hrebto Hrebto2].
  { subst rebto prebto. unfold default_rebalance, sessK. destruct keep; [|cbn; lia].
    destruct (g_rebto g >? 0) eqn:E1; [|lia]. rewrite E1. split; [lia|]. now rewrite E1. }
  assert (forall s, 0 < s ->
            let s' := (if sessK keep s >? 0 then sessK keep s else default_session) in
            0 < s' /\ sessK keep s' = sessK keep s /\ (keep = true -> s' = s)) as Hsess.
  { intros s H0. cbn zeta. unfold sessK, default_session. destruct keep.
    - destruct (s >? 0) eqn:E1; [|lia]. rewrite E1. rewrite E1. repeat split; auto; lia.
    - cbn. repeat split; auto; try lia; try discriminate. }
  assert (forall id, alookup id ms' = option_map (fun m => snd (G (F (id, m)))) (alookup id (g_members g))) as Hlk.
  { intros id. unfold ms'. rewrite map_map. apply (alookup_map_entry (fun x => G (F x))). intros e. reflexivity. }
  split; [|split; [|split; [reflexivity|split; [reflexivity|split; [reflexivity|split; [exact Hsubs|split; [exact Hasg|split]]]]]]].
  - constructor; unfold R; cbn [g_gen g_members g_leader g_assign g_phase g_rebto keys]; unfold keys; cbn [g_members].
    + now rewrite Hk.
    + unfold ms'. destruct (g_members g); [congruence|discriminate].
    + exists l. split; [exact Hl|]. now rewrite Hk.
    + exact Hp.
    + intros _. unfold all_joined. cbn [g_members g_gen]. unfold ms'. rewrite map_map.
      apply forallb_forall. intros x Hx. apply in_map_iff in Hx as [e0 [<- _]]. cbn. lia.
    + intros Hns. unfold asg. apply flat_assign_nil. intros e He.
      apply in_map_iff in He as [e0 [<- _]]. cbn. unfold assignment_of. now rewrite (Hna Hns).
    + intros Hst id Hin. rewrite Hk in Hin. fold R. rewrite (Hasg id Hin). rewrite Hsubs. now apply Ha.
    + intros id m Hin. unfold ms' in Hin. rewrite map_map in Hin. apply in_map_iff in Hin as [[k0 m0] [He0 Hin0]].
      inversion He0; subst. cbn. apply (Hsess (m_session m0)). eauto.
    + exact Hrebto.
  - (* what is stored is reproduced by storing the restored group *)
    rewrite (pview_eq E R). fold keep.
    change (g_phase R) with (g_phase g). change (g_leader R) with (g_leader g). change (g_gen R) with (g_gen g).
    change (g_rebto R) with rebto. change (g_members R) with ms'.
    rewrite Hrebto2. f_equal.
    unfold ms'. rewrite !map_map. apply map_ext_in. intros [k m] Hin.
    unfold pentry, G, F, pentry. cbn [fst snd m_topics m_hb m_session pm_topics pm_hb pm_session].
    rewrite Hasg by (unfold keys, akeys; apply in_map_iff; exists (k, m); auto).
    f_equal. f_equal. apply (Hsess (m_session m)). eauto.
  - intros id. fold R. unfold R. cbn [g_members]. rewrite Hlk. destruct (alookup id (g_members g)); reflexivity.
  - intros Hkeep id. fold R. unfold R. cbn [g_members]. rewrite Hlk.
    destruct (alookup id (g_members g)) as [m|] eqn:El; [|reflexivity]. cbn.
    f_equal. apply (Hsess (m_session m)); [|exact Hkeep]. apply (Hs id m). now apply alookup_In.
Qed.

(* ================= the global invariant ================= *)
Definition inv (E : env) (s : st) : Prop :=
  match s_store s with
  | None => s_mem s = None
  | Some pg => exists g, wf E g /\ pg = pview E g /\ (s_mem s = None \/ s_mem s = Some g)
  end.

Lemma load_spec E s now :
  inv E s ->
  (load s now = None /\ s_mem s = None /\ s_store s = None) \/
  (exists g, load s now = Some g /\ wf E g /\ s_store s = Some (pview E g) /\
             (s_mem s = Some g \/ (s_mem s = None /\ exists g0, wf E g0 /\ s_store s = Some (pview E g0) /\ g = restore (pview E g0) now))).
Proof.
  unfold inv, load. destruct (s_store s) as [pg|] eqn:Es.
  - intros [g [Hwf [Hpg [Hm|Hm]]]]; rewrite Hm; right.
    + destruct (restore_spec E g now Hwf) as [Hw [Hpv _]]. subst pg.
      exists (restore (pview E g) now). split; [reflexivity|]. split; [exact Hw|]. split; [now rewrite Hpv|].
      right. split; [reflexivity|]. exists g. auto.
    + exists g. subst pg. auto.
  - intros ->. left. auto.
Qed.

Lemma commit_group_eq E s g : wf E g -> commit_group E s g = mkSt (Some g) (Some (pview E g)) (s_off s).
Proof.
  intros Hwf. unfold commit_group, persist, set_mem. cbn.
  destruct (g_members g) eqn:Em; [exfalso; now apply (wf_nonempty E g Hwf)|reflexivity].
Qed.

Lemma inv_mem E g off : wf E g -> inv E (mkSt (Some g) (Some (pview E g)) off).
Proof. intros H. unfold inv. cbn. exists g. auto. Qed.

Lemma inv_none E off : inv E (mkSt None None off).
Proof. reflexivity. Qed.

(* the group as seen by the next request does not depend on when it is loaded,
   as far as generation / members / subscriptions / assignments are concerned *)
Definition same_view (g1 g2 : group) : Prop :=
  g_gen g1 = g_gen g2 /\ g_phase g1 = g_phase g2 /\ g_leader g1 = g_leader g2 /\
  subs (g_members g1) = subs (g_members g2) /\
  (forall id, In id (keys g1) -> assignment_of g1 id = assignment_of g2 id).

Lemma same_view_refl g : same_view g g.
Proof. unfold same_view. auto 10. Qed.

Lemma keys_subs g : keys g = akeys (subs (g_members g)).
Proof. unfold keys. now rewrite akeys_subs. Qed.

Lemma same_view_keys g1 g2 : same_view g1 g2 -> keys g1 = keys g2.
Proof. intros [_ [_ [_ [H _]]]]. rewrite !keys_subs. now rewrite H. Qed.

Lemma same_view_trans g1 g2 g3 : same_view g1 g2 -> same_view g2 g3 -> same_view g1 g3.
Proof.
  intros H12 H23. pose proof (same_view_keys _ _ H12) as Hk.
  destruct H12 as [A1 [A2 [A3 [A4 A5]]]], H23 as [B1 [B2 [B3 [B4 B5]]]].
  repeat split; try congruence. intros id Hin. rewrite A5 by assumption. apply B5. now rewrite <- Hk.
Qed.

Lemma same_view_sym g1 g2 : same_view g1 g2 -> same_view g2 g1.
Proof.
  intros H. pose proof (same_view_keys _ _ H) as Hk. destruct H as [A1 [A2 [A3 [A4 A5]]]].
  repeat split; try congruence. intros id Hin. symmetry. apply A5. now rewrite Hk.
Qed.

Lemma restore_same_view E g now : wf E g -> same_view (restore (pview E g) now) g.
Proof.
  intros Hwf. destruct (restore_spec E g now Hwf) as [_ [_ [H1 [H2 [H3 [H4 [H5 _]]]]]]].
  repeat split; auto. intros id Hin. apply H5. rewrite keys_subs in *. now rewrite <- H4.
Qed.

Lemma cur_same_view E s n1 n2 g1 g2 :
  inv E s -> cur s n1 = Some g1 -> cur s n2 = Some g2 -> same_view g1 g2.
Proof.
  intros Hinv H1 H2. unfold cur in *.
  destruct (load_spec E s n1 Hinv) as [[Hn _]|[g [Hl [Hwf [Hst Hc]]]]]; [congruence|].
  destruct (load_spec E s n2 Hinv) as [[Hn _]|[g' [Hl' [Hwf' [Hst' Hc']]]]]; [congruence|].
  rewrite H1 in Hl. rewrite H2 in Hl'. inversion Hl; inversion Hl'; subst g g'. clear Hl Hl'.
  destruct Hc as [Hm|[Hm [g0 [Hw0 [Hs0 Hr0]]]]]; destruct Hc' as [Hm'|[Hm' [g0' [Hw0' [Hs0' Hr0']]]]]; try congruence.
  - assert (g1 = g2) by congruence. subst. apply same_view_refl.
  - rewrite Hs0 in Hs0'. inversion Hs0' as [Heq]. subst g1 g2. rewrite <- Heq.
    eapply same_view_trans; [apply restore_same_view; exact Hw0|].
    apply same_view_sym. apply restore_same_view. exact Hw0.
Qed.

Lemma apply_off E s o : s_off (fst (apply E s o)) = s_off s.
Proof. destruct o; cbn; try reflexivity. unfold commit_group, persist. cbn. destruct (g_members g); reflexivity. Qed.

(* what one step does, seen through the invariant *)
Definition rel_step (E : env) (s s' : st) : Prop :=
  inv E s' /\
  ((s_mem s' = None /\ s_store s' = None) \/
   (s_mem s' = None /\ s_store s' = s_store s) \/
   (exists g', s_mem s' = Some g' /\ wf E g' /\ s_store s' = Some (pview E g') /\
               forall now g, cur s now = Some g -> g_gen g <= g_gen g')).

Lemma keep_rel E s g now r :
  inv E s -> load s now = Some g -> rel_step E s (fst (apply E s (Keep g r))).
Proof.
  intros Hinv Hl. destruct (load_spec E s now Hinv) as [[Hn _]|[g0 [Hl0 [Hwf [Hst _]]]]]; [congruence|].
  rewrite Hl in Hl0. inversion Hl0; subst g0. cbn. unfold set_mem. split.
  - unfold inv. cbn. rewrite Hst. exists g. auto.
  - right. right. exists g. cbn. split; [reflexivity|]. split; [exact Hwf|]. split; [exact Hst|]. intros n g1 Hc.
    assert (same_view g1 g) as Hv by (eapply cur_same_view; eauto). destruct Hv as [Hv _]. lia.
Qed.

Lemma save_rel E s g' r :
  inv E s -> wf E g' -> (forall now g, cur s now = Some g -> g_gen g <= g_gen g') ->
  rel_step E s (fst (apply E s (Save g' r))).
Proof.
  intros Hinv Hwf Hgen. cbn. rewrite commit_group_eq by assumption. split; [now apply inv_mem|].
  right. right. exists g'. cbn. auto.
Qed.

Lemma gone_rel E s r : rel_step E s (fst (apply E s (Gone r))).
Proof. cbn. split; [apply inv_none|]. left. auto. Qed.

Lemma cur_gen_le E s now g n1 g1 :
  inv E s -> load s now = Some g -> cur s n1 = Some g1 -> g_gen g1 = g_gen g.
Proof. intros Hinv Hl Hc. apply (cur_same_view E s n1 now g1 g Hinv Hc Hl). Qed.

Lemma step_rel E s o : inv E s -> rel_step E s (fst (step E s o)).
Proof.
  intros Hinv. destruct o as [mid fresh sess reb topics now|mid gen now|mid gen now|mid now|mid gen t p off now|now|]; cbn [step].
  - (* Join *)
    destruct (load_spec E s now Hinv) as [[Hl [Hm Hs]]|[g [Hl [Hwf [Hst _]]]]]; rewrite Hl.
    + destruct (join_g_spec E new_group mid fresh sess reb topics now (or_intror eq_refl)) as [g5 [e [ms [Heq [Hw5 _]]]]].
      rewrite Heq. apply save_rel; auto. intros n g Hc. unfold cur in Hc.
      destruct (load_spec E s n Hinv) as [[Hn _]|[g0 [Hl0 [_ [Hst0 _]]]]]; congruence.
    + destruct (join_g_spec E g mid fresh sess reb topics now (or_introl Hwf)) as [g5 [e [ms [Heq [Hw5 [Hge _]]]]]].
      rewrite Heq. apply save_rel; auto. intros n g1 Hc. rewrite (cur_gen_le E s now g n g1 Hinv Hl Hc). exact Hge.
  - (* Sync *)
    destruct (load_spec E s now Hinv) as [[Hl [Hm Hs]]|[g [Hl [Hwf [Hst _]]]]]; rewrite Hl.
    + cbn. split; [exact Hinv|]. right. left. auto.
    + pose proof (sync_g_spec E g mid gen Hwf) as Hp. destruct (sync_g E g mid gen) as [g' r|g' r|r]; cbn in Hp.
      * destruct r; try contradiction. destruct Hp as [-> _]. eapply keep_rel; eauto.
      * destruct r; try contradiction. destruct Hp as [Hw' [_ [_ [_ [_ [_ [Hg' _]]]]]]].
        apply save_rel; auto. intros n g1 Hc. rewrite (cur_gen_le E s now g n g1 Hinv Hl Hc). lia.
      * contradiction.
  - (* Heartbeat *)
    destruct (load_spec E s now Hinv) as [[Hl [Hm Hs]]|[g [Hl [Hwf [Hst _]]]]]; rewrite Hl.
    + cbn. split; [exact Hinv|]. right. left. auto.
    + pose proof (heartbeat_g_spec E g mid gen now Hwf) as Hp. destruct (heartbeat_g g mid gen now) as [g' r|g' r|r]; cbn in Hp.
      * destruct r; try contradiction. destruct Hp as [-> _]. eapply keep_rel; eauto.
      * destruct r; try contradiction. destruct Hp as [Hw' [_ [_ [Hg' _]]]].
        apply save_rel; auto. intros n g1 Hc. rewrite (cur_gen_le E s now g n g1 Hinv Hl Hc). lia.
      * contradiction.
  - (* Leave *)
    destruct (load_spec E s now Hinv) as [[Hl [Hm Hs]]|[g [Hl [Hwf [Hst _]]]]]; rewrite Hl.
    + cbn. split; [exact Hinv|]. right. left. auto.
    + pose proof (leave_g_spec E g mid now Hwf) as Hp. destruct (leave_g g mid now) as [g' r|g' r|r]; cbn in Hp.
      * destruct r; try contradiction. destruct Hp as [-> _]. eapply keep_rel; eauto.
      * destruct r; try contradiction. destruct Hp as [Hw' [_ [_ [Hg' _]]]].
        apply save_rel; auto. intros n g1 Hc. rewrite (cur_gen_le E s now g n g1 Hinv Hl Hc). lia.
      * apply gone_rel.
  - (* Commit *)
    destruct (load_spec E s now Hinv) as [[Hl [Hm Hs]]|[g [Hl [Hwf [Hst _]]]]]; rewrite Hl.
    + cbn. split; [exact Hinv|]. right. left. auto.
    + cbn. split.
      * unfold inv. cbn. rewrite Hst. exists g. auto.
      * right. right. exists g. cbn. split; [reflexivity|]. split; [exact Hwf|]. split; [exact Hst|]. intros n g1 Hc.
        rewrite (cur_gen_le E s now g n g1 Hinv Hl Hc). lia.
  - (* Cleanup *)
    destruct (s_mem s) as [g|] eqn:Hm.
    + assert (load s now = Some g) as Hl by (unfold load; now rewrite Hm).
      destruct (load_spec E s now Hinv) as [[Hn _]|[g0 [Hl0 [Hwf [Hst _]]]]]; [congruence|].
      rewrite Hl in Hl0. inversion Hl0; subst g0.
      pose proof (cleanup_g_spec E g now Hwf) as Hp. destruct (cleanup_g g now) as [[g' r|g' r|r]|]; cbn in Hp.
      * contradiction.
      * destruct Hp as [_ [Hw' [Hg' _]]]. apply save_rel; auto.
        intros n g1 Hc. rewrite (cur_gen_le E s now g n g1 Hinv Hl Hc). lia.
      * apply gone_rel.
      * cbn. split; [exact Hinv|]. right. right. exists g. split; [exact Hm|]. split; [exact Hwf|]. split; [exact Hst|].
        intros n g1 Hc. rewrite (cur_gen_le E s now g n g1 Hinv Hl Hc). lia.
    + cbn. split; [exact Hinv|]. right. left. auto.
  - (* Failover *)
    cbn. split.
    + unfold inv in *. cbn. destruct (s_store s) as [pg|]; [|reflexivity].
      destruct Hinv as [g [Hw [Hp _]]]. exists g. auto.
    + right. left. auto.
Qed.

Lemma step_inv E s o : inv E s -> inv E (fst (step E s o)).
Proof. intros H. apply (step_rel E s o H). Qed.

Lemma run_from_inv E s h : inv E s -> inv E (run_from E s h).
Proof.
  revert s; induction h as [|o h IH]; intros s H; cbn; [exact H|]. apply IH. now apply step_inv.
Qed.

Lemma run_inv E h : inv E (run E h).
Proof. apply run_from_inv. reflexivity. Qed.

(* ================= C12 ================= *)
(* the assignment a Stable group holds is a partition of the subscribed topics' partitions *)
Definition is_partition (E : env) (g : group) : Prop :=
  let sm := subs (g_members g) in
  (forall id t ps p, In id (keys g) -> In (t, ps) (assignment_of g id) -> In p ps ->
     subscribes sm id t = true /\ In p (parts_of E t)) /\
  (forall id0 t p, In id0 (keys g) -> subscribes sm id0 t = true -> In p (parts_of E t) ->
     exists id ps, In id (keys g) /\ subscribes sm id t = true /\ In (t, ps) (assignment_of g id) /\ In p ps) /\
  (forall a b t psa psb p, NoDup (parts_of E t) -> In a (keys g) -> In b (keys g) ->
     In (t, psa) (assignment_of g a) -> In p psa -> In (t, psb) (assignment_of g b) -> In p psb -> a = b).

Lemma stable_partition E g : wf E g -> g_phase g = PStable -> is_partition E g.
Proof.
  intros Hwf Hst. pose proof (wf_assign E g Hwf Hst) as Ha. unfold is_partition. cbn zeta.
  set (sm := subs (g_members g)).
  assert (akeys sm = keys g) as Hk by (unfold sm, keys; apply akeys_subs).
  split; [|split].
  - intros id t ps p Hin H Hp. rewrite Ha in H by assumption.
    destruct (assign_for_sound E sm id t ps p H Hp) as [_ [H2 H3]]. auto.
  - intros id0 t p Hin Hs Hp. rewrite <- Hk in Hin.
    destruct (assign_for_total E sm id0 t p Hin Hs Hp) as [id [ps [H1 H2]]].
    destruct (assign_for_sound E sm id t ps p H1 H2) as [H3 [H4 _]]. rewrite Hk in H3.
    exists id, ps. rewrite Ha by assumption. auto.
  - intros a b t psa psb p Hnd Hina Hinb H1 H2 H3 H4. rewrite Ha in H1, H3 by assumption.
    eapply assign_for_unique; eauto.
Qed.

Lemma sync_success_state E s mid gen now s' a :
  inv E s -> step E s (Sync mid gen now) = (s', RSync NONE a) ->
  exists g, s_mem s' = Some g /\ wf E g /\ g_phase g = PStable /\ g_gen g = gen /\
            In mid (keys g) /\ a = assignment_of g mid /\ a = assign_for E (subs (g_members g)) mid.
Proof.
  intros Hinv. cbn [step]. intros H.
  destruct (load_spec E s now Hinv) as [[Hl _]|[g [Hl [Hwf [Hst _]]]]]; rewrite Hl in H.
  - inversion H. 
  - pose proof (sync_g_spec E g mid gen Hwf) as Hp. destruct (sync_g E g mid gen) as [g' r|g' r|r]; cbn in Hp, H.
    + destruct r; try contradiction. destruct Hp as [_ [Hne _]]. inversion H; subst. congruence.
    + destruct r; try contradiction. rewrite commit_group_eq in H by tauto. inversion H; subst.
      destruct Hp as [Hw' [_ [Hg [Hin [_ [Hph [Hg' [Hm' [_ [Ha1 [Ha2 _]]]]]]]]]]].
      exists g'. cbn. split; [reflexivity|]. split; [exact Hw'|]. split; [exact Hph|]. split; [lia|].
      split; [unfold keys; now rewrite Hm'|]. split; [exact Ha2|]. now rewrite Hm'.
    + contradiction.
Qed.

Lemma sync_success E h mid gen now s' a :
  step E (run E h) (Sync mid gen now) = (s', RSync NONE a) ->
  exists g, s_mem s' = Some g /\ wf E g /\ g_phase g = PStable /\ g_gen g = gen /\
            In mid (keys g) /\ a = assignment_of g mid /\ a = assign_for E (subs (g_members g)) mid.
Proof. apply sync_success_state. apply run_inv. Qed.

Lemma c12_assignment_partition E h mid gen now s' a :
  step E (run E h) (Sync mid gen now) = (s', RSync NONE a) ->
  exists g, s_mem s' = Some g /\ g_gen g = gen /\ In mid (keys g) /\ a = assignment_of g mid /\
            (forall id, In id (keys g) -> assignment_of g id = assign_for E (subs (g_members g)) id) /\
            is_partition E g.
Proof.
  intros H. destruct (sync_success E h mid gen now s' a H) as [g [Hm [Hwf [Hst [Hg [Hin [Ha _]]]]]]].
  exists g. split; [exact Hm|]. split; [exact Hg|]. split; [exact Hin|]. split; [exact Ha|].
  split; [apply (wf_assign E g Hwf Hst)|apply (stable_partition E g Hwf Hst)].
Qed.

(* within one generation of a group that keeps existing, a Stable group keeps its members,
   subscriptions and assignment: every sync of that generation reads the same map *)
Definition stable_same (g g' : group) : Prop :=
  g_phase g' = PStable /\ subs (g_members g') = subs (g_members g) /\
  forall id, In id (keys g) -> assignment_of g' id = assignment_of g id.

Lemma stable_same_of_view g g' : g_phase g = PStable -> same_view g g' -> stable_same g g'.
Proof.
  intros Hst [H1 [H2 [H3 [H4 H5]]]]. split; [congruence|]. split; [congruence|].
  intros id Hin. symmetry. now apply H5.
Qed.

Lemma c12_step_same_generation E s o n0 n1 g g' :
  inv E s -> cur s n0 = Some g -> g_phase g = PStable ->
  cur (fst (step E s o)) n1 = Some g' -> g_gen g' = g_gen g -> stable_same g g'.
Proof.
  intros Hinv Hc Hst Hc' Hgen.
  assert (forall now gl, load s now = Some gl -> same_view g gl) as Hview.
  { intros now gl Hl. eapply cur_same_view; eauto. }
  assert (forall gl, same_view g gl -> forall g2, stable_same gl g2 -> stable_same g g2) as Htr.
  { intros gl Hv g2 [P1 [P2 P3]]. pose proof (same_view_keys _ _ Hv) as Hk.
    destruct Hv as [V1 [V2 [V3 [V4 V5]]]]. split; [exact P1|]. split; [congruence|].
    intros id Hin. rewrite P3 by (now rewrite <- Hk). symmetry. now apply V5. }
  assert (forall gl, same_view g gl -> g_phase gl = PStable) as Hstl by (intros gl [_ [V2 _]]; congruence).
  assert (forall s1, s_mem s1 = Some g' \/ True -> True) as _ by auto.
  pose proof (step_inv E s o Hinv) as Hinv'.
  (* the new view when the new state holds the group in memory *)
  assert (forall s1 gm, s_mem s1 = Some gm -> cur s1 n1 = Some g' -> g' = gm) as Hmem.
  { intros s1 gm Hm Hcc. unfold cur, load in Hcc. rewrite Hm in Hcc. congruence. }
  destruct o as [mid fresh sess reb topics now|mid gen now|mid gen now|mid now|mid gen t p off now|now|]; cbn [step] in Hc', Hinv'.
  - destruct (load_spec E s now Hinv) as [[Hl _]|[gl [Hl [Hwf [Hstore _]]]]].
    { unfold cur in Hc. destruct (load_spec E s n0 Hinv) as [[Hn _]|[g0 [Hl0 [_ [Hst0 _]]]]]; [congruence|].
      destruct (load_spec E s now Hinv) as [[_ [_ Hs0]]|[g1 [Hl1 _]]]; congruence. }
    rewrite Hl in Hc'. pose proof (Hview _ _ Hl) as Hv.
    destruct (join_g_spec E gl mid fresh sess reb topics now (or_introl Hwf)) as [g5 [e [ms [Heq [Hw5 [_ [_ [_ [_ [_ [_ Hsame]]]]]]]]]]].
    rewrite Heq in Hc'. cbn in Hc'. rewrite commit_group_eq in Hc' by assumption.
    assert (g' = g5) by (first [now inversion Hc' | eapply Hmem; [|exact Hc']; reflexivity]). subst g5.
    destruct Hv as [V1 V]. destruct (Hsame (Hstl gl (conj V1 V)) ltac:(lia)) as [S1 [S2 S3]].
    apply (Htr gl (conj V1 V)). split; [exact S1|]. split; [exact S2|]. intros id _. unfold assignment_of. now rewrite S3.
  - destruct (load_spec E s now Hinv) as [[Hl _]|[gl [Hl [Hwf [Hstore _]]]]]; rewrite Hl in Hc'.
    { unfold cur in *. cbn in Hc'. destruct (load_spec E s n0 Hinv) as [[Hn _]|[g0 [Hl0 [_ [Hst0 _]]]]]; [congruence|].
      destruct (load_spec E s now Hinv) as [[_ [_ Hs0]]|[g1 [Hl1 _]]]; congruence. }
    pose proof (Hview _ _ Hl) as Hv. pose proof (sync_g_spec E gl mid gen Hwf) as Hp.
    destruct (sync_g E gl mid gen) as [g2 r|g2 r|r]; cbn in Hp, Hc'.
    + destruct r; try contradiction. destruct Hp as [-> _].
      assert (g' = gl) by (first [now inversion Hc' | eapply Hmem; [|exact Hc']; reflexivity]). subst. now apply stable_same_of_view.
    + destruct r; try contradiction. destruct Hp as [Hw2 [_ [_ [_ [_ [_ [_ [_ [_ [_ [_ [Hsame _]]]]]]]]]]]].
      rewrite commit_group_eq in Hc' by assumption.
      assert (g' = g2) by (first [now inversion Hc' | eapply Hmem; [|exact Hc']; reflexivity]). subst.
      rewrite (Hsame (Hstl _ Hv)). now apply stable_same_of_view.
    + contradiction.
  - destruct (load_spec E s now Hinv) as [[Hl _]|[gl [Hl [Hwf [Hstore _]]]]]; rewrite Hl in Hc'.
    { unfold cur in *. cbn in Hc'. destruct (load_spec E s n0 Hinv) as [[Hn _]|[g0 [Hl0 [_ [Hst0 _]]]]]; [congruence|].
      destruct (load_spec E s now Hinv) as [[_ [_ Hs0]]|[g1 [Hl1 _]]]; congruence. }
    pose proof (Hview _ _ Hl) as Hv. pose proof (heartbeat_g_spec E gl mid gen now Hwf) as Hp.
    destruct (heartbeat_g gl mid gen now) as [g2 r|g2 r|r]; cbn in Hp, Hc'.
    + destruct r; try contradiction. destruct Hp as [-> _].
      assert (g' = gl) by (first [now inversion Hc' | eapply Hmem; [|exact Hc']; reflexivity]). subst. now apply stable_same_of_view.
    + destruct r; try contradiction. destruct Hp as [Hw2 [_ [_ [_ [P1 [_ [P2 [P3 _]]]]]]]].
      rewrite commit_group_eq in Hc' by assumption.
      assert (g' = g2) by (first [now inversion Hc' | eapply Hmem; [|exact Hc']; reflexivity]). subst.
      apply (Htr gl Hv). split; [rewrite P1; now apply Hstl|]. split; [exact P3|].
      intros id _. unfold assignment_of. now rewrite P2.
    + contradiction.
  - destruct (load_spec E s now Hinv) as [[Hl _]|[gl [Hl [Hwf [Hstore _]]]]]; rewrite Hl in Hc'.
    { unfold cur in *. cbn in Hc'. destruct (load_spec E s n0 Hinv) as [[Hn _]|[g0 [Hl0 [_ [Hst0 _]]]]]; [congruence|].
      destruct (load_spec E s now Hinv) as [[_ [_ Hs0]]|[g1 [Hl1 _]]]; congruence. }
    pose proof (Hview _ _ Hl) as Hv. pose proof (leave_g_spec E gl mid now Hwf) as Hp.
    destruct (leave_g gl mid now) as [g2 r|g2 r|r]; cbn in Hp, Hc'.
    + destruct r; try contradiction. destruct Hp as [-> _].
      assert (g' = gl) by (first [now inversion Hc' | eapply Hmem; [|exact Hc']; reflexivity]). subst. now apply stable_same_of_view.
    + destruct r; try contradiction. destruct Hp as [Hw2 [_ [_ [P1 _]]]].
      rewrite commit_group_eq in Hc' by assumption.
      assert (g' = g2) by (first [now inversion Hc' | eapply Hmem; [|exact Hc']; reflexivity]). subst.
      destruct Hv as [V1 _]. lia.
    + unfold cur, load in Hc'. cbn in Hc'. discriminate.
  - destruct (load_spec E s now Hinv) as [[Hl _]|[gl [Hl [Hwf [Hstore _]]]]]; rewrite Hl in Hc'.
    { unfold cur in *. cbn in Hc'. destruct (load_spec E s n0 Hinv) as [[Hn _]|[g0 [Hl0 [_ [Hst0 _]]]]]; [congruence|].
      destruct (load_spec E s now Hinv) as [[_ [_ Hs0]]|[g1 [Hl1 _]]]; congruence. }
    pose proof (Hview _ _ Hl) as Hv. cbn in Hc'.
    assert (g' = gl) by (first [now inversion Hc' | eapply Hmem; [|exact Hc']; reflexivity]). subst. now apply stable_same_of_view.
  - destruct (s_mem s) as [gm|] eqn:Hm.
    + assert (load s now = Some gm) as Hl by (unfold load; now rewrite Hm).
      destruct (load_spec E s now Hinv) as [[Hn _]|[g0 [Hl0 [Hwf [Hstore _]]]]]; [congruence|].
      rewrite Hl in Hl0. inversion Hl0; subst g0.
      pose proof (Hview _ _ Hl) as Hv. pose proof (cleanup_g_spec E gm now Hwf) as Hp.
      destruct (cleanup_g gm now) as [[g2 r|g2 r|r]|]; cbn in Hp, Hc'.
      * contradiction.
      * destruct Hp as [_ [Hw2 [P1 _]]]. rewrite commit_group_eq in Hc' by assumption.
        assert (g' = g2) by (first [now inversion Hc' | eapply Hmem; [|exact Hc']; reflexivity]). subst. destruct Hv as [V1 _]. lia.
      * unfold cur, load in Hc'. cbn in Hc'. discriminate.
      * assert (g' = gm) by (first [now inversion Hc' | eapply Hmem; [exact Hm|exact Hc']]). subst. now apply stable_same_of_view.
    + cbn in Hc'. apply stable_same_of_view; [exact Hst|]. eapply cur_same_view; eauto.
  - (* Failover: the new coordinator restores what was persisted *)
    cbn in Hc'. unfold cur, load in Hc'. cbn in Hc'.
    unfold inv in Hinv. destruct (s_store s) as [pg|] eqn:Es; [|discriminate].
    destruct Hinv as [g0 [Hw0 [Hpg Hmm]]]. inversion Hc'; subst g' pg.
    assert (same_view g g0) as Hv0.
    { unfold cur, load in Hc. destruct Hmm as [Hm|Hm]; rewrite Hm in Hc.
      - rewrite Es in Hc. inversion Hc. now apply restore_same_view.
      - inversion Hc. apply same_view_refl. }
    apply stable_same_of_view; [exact Hst|].
    eapply same_view_trans; [exact Hv0|]. apply same_view_sym. now apply restore_same_view.
Qed.

(* ================= C13 ================= *)
Definition current (s : st) (now mid gen : Z) : Prop :=
  exists g, cur s now = Some g /\ In mid (keys g) /\ gen = g_gen g.

Definition reply_err (r : reply) : Z :=
  match r with RJoin e _ _ _ _ => e | RSync e _ => e | RErr e => e | RNone => NONE end.

Lemma c13_fenced E s o mid gen now :
  (o = Sync mid gen now \/ o = Heartbeat mid gen now \/ exists t p off, o = Commit mid gen t p off now) ->
  ~ current s now mid gen ->
  reply_err (snd (step E s o)) <> NONE /\ s_off (fst (step E s o)) = s_off s.
Proof.
  intros Ho Hnc. unfold current, cur in Hnc.
  destruct Ho as [->|[->|[t [p [off ->]]]]]; cbn [step]; destruct (load s now) as [g|] eqn:Hl;
    try (cbn; split; [discriminate|reflexivity]).
  - split; [|apply apply_off]. unfold sync_g.
    destruct (gen =? g_gen g) eqn:Eg; cbn [negb]; [|cbn; discriminate].
    destruct (amem mid (g_members g)) eqn:Em; cbn [negb]; [|cbn; discriminate].
    exfalso. apply Hnc. exists g. split; [reflexivity|]. split; [now apply amem_In|lia].
  - split; [|apply apply_off]. unfold heartbeat_g.
    destruct (alookup mid (g_members g)) as [m|] eqn:El; [|cbn; discriminate].
    destruct (gen =? g_gen g) eqn:Eg; cbn [negb]; [|cbn; discriminate].
    exfalso. apply Hnc. exists g. split; [reflexivity|]. split; [|lia].
    apply amem_In. unfold amem. now rewrite El.
  - unfold commit_err.
    destruct (amem mid (g_members g)) eqn:Em; cbn [negb]; [|cbn; split; [discriminate|reflexivity]].
    destruct (gen =? g_gen g) eqn:Eg; cbn [negb]; [|cbn; split; [discriminate|reflexivity]].
    exfalso. apply Hnc. exists g. split; [reflexivity|]. split; [now apply amem_In|lia].
Qed.

(* offsets change only through an accepted commit *)
Lemma c13_offsets_only_by_commit E s o :
  s_off (fst (step E s o)) <> s_off s ->
  exists mid gen t p off now, o = Commit mid gen t p off now /\ current s now mid gen /\
                              snd (step E s o) = RErr NONE.
Proof.
  destruct o as [mid fresh sess reb topics now|mid gen now|mid gen now|mid now|mid gen t p off now|now|]; cbn [step]; intros H.
  - exfalso. apply H. apply apply_off.
  - exfalso. apply H. destruct (load s now); [apply apply_off|reflexivity].
  - exfalso. apply H. destruct (load s now); [apply apply_off|reflexivity].
  - exfalso. apply H. destruct (load s now); [apply apply_off|reflexivity].
  - destruct (load s now) as [g|] eqn:Hl; [|exfalso; now apply H].
    cbn in H. unfold commit_err in *. 
    destruct (amem mid (g_members g)) eqn:Em; cbn [negb] in *; [|exfalso; now apply H].
    destruct (gen =? g_gen g) eqn:Eg; cbn [negb] in *; [|exfalso; now apply H].
    exists mid, gen, t, p, off, now. split; [reflexivity|]. split; [|reflexivity].
    exists g. split; [exact Hl|]. split; [now apply amem_In|lia].
  - exfalso. apply H. destruct (s_mem s); [|reflexivity]. destruct (cleanup_g g now); [apply apply_off|reflexivity].
  - exfalso. now apply H.
Qed.

Lemma c13_generation_monotone_step E s o n0 n1 g g' :
  inv E s -> cur s n0 = Some g -> cur (fst (step E s o)) n1 = Some g' -> g_gen g <= g_gen g'.
Proof.
  intros Hinv Hc Hc'. destruct (step_rel E s o Hinv) as [Hinv' [[Hm Hs]|[[Hm Hs]|[g2 [Hm [Hw [Hs Hle]]]]]]].
  - unfold cur, load in Hc'. rewrite Hm, Hs in Hc'. discriminate.
  - (* nothing in memory, the store untouched *)
    unfold cur, load in Hc'. rewrite Hm, Hs in Hc'.
    unfold inv in Hinv. destruct (s_store s) as [pg|] eqn:Es; [|discriminate].
    destruct Hinv as [g0 [Hw0 [Hpg Hmm]]]. inversion Hc'; subst g' pg.
    assert (same_view g g0) as Hv0.
    { unfold cur, load in Hc. destruct Hmm as [Hm0|Hm0]; rewrite Hm0 in Hc.
      - rewrite Es in Hc. inversion Hc. now apply restore_same_view.
      - inversion Hc. apply same_view_refl. }
    destruct Hv0 as [V1 _]. destruct (restore_same_view E g0 n1 Hw0) as [R1 _]. lia.
  - unfold cur, load in Hc'. rewrite Hm in Hc'. inversion Hc'; subst. eapply Hle; eauto.
Qed.

(* along any history segment during which the group never disappears *)
Fixpoint alive_all (E : env) (s : st) (h : list op) : Prop :=
  match h with
  | [] => True
  | o :: h' => (exists n g, cur (fst (step E s o)) n = Some g) /\ alive_all E (fst (step E s o)) h'
  end.

Lemma c13_generation_monotone E s h n0 n1 g g' :
  inv E s -> alive_all E s h -> cur s n0 = Some g -> cur (run_from E s h) n1 = Some g' -> g_gen g <= g_gen g'.
Proof.
  revert s g n0; induction h as [|o h IH]; intros s g n0 Hinv Hal Hc Hc'; cbn in *.
  - assert (same_view g g') as [V _] by (eapply cur_same_view; eauto). lia.
  - destruct Hal as [[n [g1 Hc1]] Hal]. 
    pose proof (c13_generation_monotone_step E s o n0 n g g1 Hinv Hc Hc1).
    pose proof (IH _ g1 n (step_inv E s o Hinv) Hal Hc1 Hc'). lia.
Qed.

(* the generation a join reply reports is the generation of the group afterwards *)
Lemma join_reply E s mid fresh sess reb topics now s' e gen ld id ms :
  inv E s -> step E s (Join mid fresh sess reb topics now) = (s', RJoin e gen ld id ms) ->
  exists g', s_mem s' = Some g' /\ wf E g' /\ gen = g_gen g' /\ ld = g_leader g' /\ In id (keys g') /\
             (e = NONE \/ e = REBALANCE_IN_PROGRESS) /\ (e = NONE <-> g_phase g' <> PPreparing) /\
             (ms <> [] -> e = NONE /\ ld = Some id).
Proof.
  intros Hinv H. cbn [step] in H.
  assert (exists g, (wf E g \/ g = new_group) /\ (match load s now with Some g => g | None => new_group end) = g) as [g [Hg Hgl]].
  { destruct (load_spec E s now Hinv) as [[Hl _]|[g [Hl [Hwf _]]]]; rewrite Hl; eauto. }
  rewrite Hgl in H.
  destruct (join_g_spec E g mid fresh sess reb topics now Hg) as [g5 [e5 [ms5 [Heq [Hw5 [_ [Hin [He [Hph [Hms _]]]]]]]]]].
  rewrite Heq in H. cbn in H. rewrite commit_group_eq in H by assumption. inversion H; subst.
  exists g5. cbn. split; [reflexivity|]. split; [exact Hw5|]. split; [reflexivity|]. split; [reflexivity|].
  split; [exact Hin|]. split; [exact He|]. split; [exact Hph|]. exact Hms.
Qed.

(* ================= C14 ================= *)
Lemma c14_join_success E s mid fresh sess reb topics now s' gen ld id ms :
  inv E s -> step E s (Join mid fresh sess reb topics now) = (s', RJoin NONE gen ld id ms) ->
  exists g', s_mem s' = Some g' /\ gen = g_gen g' /\ all_joined g' = true /\
             forall k m, In (k, m) (g_members g') -> m_joingen m = gen.
Proof.
  intros Hinv H. destruct (join_reply E s _ _ _ _ _ _ _ _ _ _ _ _ Hinv H) as [g' [Hm [Hw [Hg [_ [_ [_ [Hph _]]]]]]]].
  exists g'. split; [exact Hm|]. split; [exact Hg|].
  assert (all_joined g' = true) as Haj by (apply (wf_joined E g' Hw); now apply Hph).
  split; [exact Haj|]. intros k m Hin. subst gen. eapply all_joined_In; eauto.
Qed.

Lemma c14_leader_is_member E s mid fresh sess reb topics now s' e gen ld id ms :
  inv E s -> step E s (Join mid fresh sess reb topics now) = (s', RJoin e gen ld id ms) ->
  exists g' l, s_mem s' = Some g' /\ ld = Some l /\ In l (keys g') /\ In id (keys g').
Proof.
  intros Hinv H. destruct (join_reply E s _ _ _ _ _ _ _ _ _ _ _ _ Hinv H) as [g' [Hm [Hw [_ [Hl [Hin _]]]]]].
  destruct (wf_leader E g' Hw) as [l [H1 H2]]. exists g', l. subst ld. auto.
Qed.

Lemma c14_members_only_to_leader E s mid fresh sess reb topics now s' e gen ld id ms :
  inv E s -> step E s (Join mid fresh sess reb topics now) = (s', RJoin e gen ld id ms) ->
  ms <> [] -> e = NONE /\ ld = Some id.
Proof.
  intros Hinv H. destruct (join_reply E s _ _ _ _ _ _ _ _ _ _ _ _ Hinv H) as [g' [_ [_ [_ [_ [_ [_ [_ Hms]]]]]]]].
  exact Hms.
Qed.

(* a sync of a current member in the current generation succeeds once the group is
   Stable (the leader has synced), and the leader's sync succeeds as soon as everybody
   has rejoined (CompletingRebalance) *)
Lemma sync_g_ok E g mid :
  wf E g -> In mid (keys g) ->
  g_phase g = PStable \/ (g_phase g = PCompleting /\ g_leader g = Some mid) ->
  exists g' a, sync_g E g mid (g_gen g) = Save g' (RSync NONE a) /\ g_phase g' = PStable /\ g_gen g' = g_gen g.
Proof.
  intros Hwf Hin Hph. unfold sync_g. rewrite Z.eqb_refl. cbn [negb].
  apply amem_In in Hin. rewrite Hin. cbn [negb].
  destruct Hph as [Hst|[Hc Hl]].
  - rewrite Hst. cbn [phase_eqb andb negb].
    destruct (assignment_of g mid) eqn:Ea.
    + rewrite Hst. cbn [phase_eqb]. eexists _, _. split; [reflexivity|]. split; [exact Hst|reflexivity].
    + eexists _, _. split; [reflexivity|]. split; [exact Hst|reflexivity].
  - rewrite Hc. cbn [phase_eqb andb]. rewrite (wf_noassign E g Hwf ltac:(congruence)).
    cbn [length Z.of_nat Z.eqb andb]. rewrite Hl. unfold opt_z_eqb, opt_eqb. rewrite Z.eqb_refl. cbn [negb andb].
    unfold mark_stable. cbn [g_phase].
    match goal with |- context [match ?a with [] => _ | _ :: _ => _ end] => destruct a eqn:Ea end.
    + cbn [g_phase phase_eqb]. eexists _, _. split; [reflexivity|]. cbn. auto.
    + eexists _, _. split; [reflexivity|]. cbn. auto.
Qed.

Lemma c14_sync_after_leader_sync E s mid now g :
  inv E s -> cur s now = Some g -> In mid (keys g) ->
  g_phase g = PStable \/ (g_phase g = PCompleting /\ g_leader g = Some mid) ->
  exists s' a g', step E s (Sync mid (g_gen g) now) = (s', RSync NONE a) /\
                  s_mem s' = Some g' /\ g_phase g' = PStable /\ g_gen g' = g_gen g.
Proof.
  intros Hinv Hc Hin Hph. unfold cur in Hc. cbn [step]. rewrite Hc.
  destruct (load_spec E s now Hinv) as [[Hn _]|[g0 [Hl0 [Hwf _]]]]; [congruence|].
  rewrite Hc in Hl0. inversion Hl0; subst g0.
  destruct (sync_g_ok E g mid Hwf Hin Hph) as [g' [a [Heq [Hp Hg]]]]. rewrite Heq. cbn.
  pose proof (sync_g_spec E g mid (g_gen g) Hwf) as Hsp. rewrite Heq in Hsp. cbn in Hsp.
  rewrite commit_group_eq by tauto. eexists _, a, g'. split; [reflexivity|]. cbn. auto.
Qed.

(* ================= C15 ================= *)
Definition failover (s : st) : st := mkSt None (s_store s) (s_off s).

Lemma c15_view_preserved E s n0 n1 g :
  inv E s -> cur s n0 = Some g ->
  exists g', cur (failover s) n1 = Some g' /\ same_view g g' /\ s_off (failover s) = s_off s.
Proof.
  intros Hinv Hc. unfold failover, cur, load. cbn.
  unfold inv in Hinv. destruct (s_store s) as [pg|] eqn:Es.
  - destruct Hinv as [g0 [Hw0 [Hpg Hmm]]]. subst pg. eexists. split; [reflexivity|]. split; [|reflexivity].
    assert (same_view g g0) as Hv0.
    { unfold cur, load in Hc. destruct Hmm as [Hm0|Hm0]; rewrite Hm0 in Hc.
      - rewrite Es in Hc. inversion Hc. now apply restore_same_view.
      - inversion Hc. apply same_view_refl. }
    eapply same_view_trans; [exact Hv0|]. apply same_view_sym. now apply restore_same_view.
  - unfold cur, load in Hc. rewrite Hinv, Es in Hc. discriminate.
Qed.

Lemma failover_inv E s : inv E s -> inv E (failover s).
Proof. intros H. apply (step_inv E s Failover H). Qed.

(* members of a Stable generation keep working against the new coordinator *)
Lemma c15_members_keep_working E s now g mid :
  inv E s -> cur s now = Some g -> g_phase g = PStable -> In mid (keys g) ->
  let s1 := failover s in
  (exists s' a, step E s1 (Sync mid (g_gen g) now) = (s', RSync NONE a) /\ a = assignment_of g mid) /\
  (exists s', step E s1 (Heartbeat mid (g_gen g) now) = (s', RErr NONE)) /\
  (forall t p off, exists s', step E s1 (Commit mid (g_gen g) t p off now) = (s', RErr NONE) /\
                              off_get (t, p) (s_off s') = off).
Proof.
  intros Hinv Hc Hst Hin. cbn zeta.
  destruct (c15_view_preserved E s now now g Hinv Hc) as [g' [Hc' [Hv _]]].
  pose proof (failover_inv E s Hinv) as Hinv'.
  pose proof (same_view_keys _ _ Hv) as Hk. destruct Hv as [V1 [V2 [V3 [V4 V5]]]].
  assert (In mid (keys g')) as Hin' by (now rewrite <- Hk).
  assert (g_phase g' = PStable) as Hst' by congruence.
  unfold cur in Hc'.
  destruct (load_spec E (failover s) now Hinv') as [[Hn _]|[g0 [Hl0 [Hwf' _]]]]; [congruence|].
  rewrite Hc' in Hl0. inversion Hl0; subst g0.
  split; [|split].
  - destruct (c14_sync_after_leader_sync E (failover s) mid now g' Hinv' Hc' Hin' (or_introl Hst')) as [s' [a [g2 [Heq [Hm2 _]]]]].
    rewrite V1. exists s', a. split; [exact Heq|].
    pose proof (sync_g_spec E g' mid (g_gen g') Hwf') as Hsp.
    cbn [step] in Heq. rewrite Hc' in Heq. destruct (sync_g E g' mid (g_gen g')) as [gx r|gx r|r]; cbn in Hsp, Heq; try contradiction.
    + destruct r; try contradiction. inversion Heq; subst. destruct Hsp as [_ [Hne _]]. congruence.
    + destruct r; try contradiction. destruct Hsp as [_ [_ [_ [_ [_ [_ [_ [_ [_ [_ [Ha2 [Hsame _]]]]]]]]]]]].
      pose proof (Hsame Hst') as Hgx. subst gx. inversion Heq; subst. symmetry. now apply V5.
  - cbn [step]. rewrite Hc'. rewrite V1.
    pose proof (heartbeat_g_spec E g' mid (g_gen g') now Hwf') as Hp. unfold heartbeat_g in *.
    apply amem_In in Hin'. unfold amem in Hin'. destruct (alookup mid (g_members g')) as [m|]; [|discriminate].
    rewrite Z.eqb_refl in *. cbn [negb] in *. rewrite Hst' in *. cbn [phase_eqb] in *. eexists. reflexivity.
  - intros t p off. cbn [step]. rewrite Hc'. rewrite V1. unfold commit_err.
    apply amem_In in Hin'. rewrite Hin'. rewrite Z.eqb_refl. cbn. eexists. split; [reflexivity|]. cbn.
    clear. induction (s_off s) as [|[k v] l IH]; cbn.
    + unfold off_key_eqb. cbn. now rewrite !Z.eqb_refl.
    + destruct (off_key_eqb (t, p) k) eqn:Ek; cbn; rewrite ?Ek.
      * unfold off_key_eqb. cbn. now rewrite !Z.eqb_refl.
      * exact IH.
Qed.

(* ================= C43 ================= *)
Lemma NoDup_keys_functional {V} (l : list (Z * V)) k v1 v2 :
  NoDup (akeys l) -> In (k, v1) l -> In (k, v2) l -> v1 = v2.
Proof.
  intros Hd H1 H2. apply (In_alookup k v1 l Hd) in H1. apply (In_alookup k v2 l Hd) in H2. congruence.
Qed.

Lemma c43_cleanup E s now g k m :
  inv E s -> s_mem s = Some g -> In (k, m) (g_members g) ->
  let s' := fst (step E s (Cleanup now)) in
  (survives now g m = false ->
     (s_mem s' = None /\ s_store s' = None) \/
     (exists g', s_mem s' = Some g' /\ ~ In k (keys g') /\ g_gen g' = g_gen g + 1 /\ g_phase g' = PPreparing)) /\
  (survives now g m = true -> exists g', s_mem s' = Some g' /\ In k (keys g')).
Proof.
  intros Hinv Hm Hin. cbn zeta. cbn [step]. rewrite Hm.
  assert (load s now = Some g) as Hl by (unfold load; now rewrite Hm).
  destruct (load_spec E s now Hinv) as [[Hn _]|[g0 [Hl0 [Hwf [Hst _]]]]]; [congruence|].
  rewrite Hl in Hl0. inversion Hl0; subst g0.
  pose proof (cleanup_g_spec E g now Hwf) as Hp.
  destruct (cleanup_g g now) as [[g' r|g' r|r]|]; cbn in Hp.
  - contradiction.
  - destruct Hp as [_ [Hw' [Hg' [Hph' Hm']]]]. cbn. rewrite commit_group_eq by assumption. cbn.
    assert (forall k', In k' (keys g') <-> exists m', In (k', m') (g_members g) /\ survives now g m' = true) as Hk.
    { intros k'. unfold keys. rewrite Hm', akeys_reset. unfold akeys. rewrite in_map_iff. split.
      - intros [[k2 m2] [H1 H2]]. cbn in H1. subst k2. apply filter_In in H2 as [H2 H3]. exists m2. auto.
      - intros [m' [H1 H2]]. exists (k', m'). split; [reflexivity|]. apply filter_In. auto. }
    split.
    + intros Hs. right. exists g'. split; [reflexivity|]. split; [|auto].
      intros Hc. apply Hk in Hc as [m' [H1 H2]].
      assert (m = m') by (eapply NoDup_keys_functional; [apply (wf_nodup E g Hwf)|eauto|eauto]). congruence.
    + intros Hs. exists g'. split; [reflexivity|]. apply Hk. eauto.
  - destruct Hp as [_ Hall]. cbn. split.
    + intros _. left. auto.
    + intros Hs. rewrite (Hall k m Hin) in Hs. discriminate.
  - destruct Hp as [Hnoexp Hnolag]. cbn. split.
    + intros Hs. exfalso. unfold survives in Hs. rewrite (Hnoexp k m Hin) in Hs. cbn in Hs.
      destruct (g_deadline g) as [d|] eqn:Ed; [|discriminate].
      destruct (now <? d) eqn:Elt; [discriminate|]. cbn in Hs.
      rewrite (Hnolag d eq_refl ltac:(lia) k m Hin) in Hs. discriminate.
    + intros _. exists g. split; [exact Hm|]. unfold keys, akeys. apply in_map_iff. exists (k, m). auto.
Qed.

Lemma c43_heartbeat_refreshes E s now g mid :
  inv E s -> cur s now = Some g -> In mid (keys g) ->
  exists s' e g' m m', step E s (Heartbeat mid (g_gen g) now) = (s', RErr e) /\
    (e = NONE \/ e = REBALANCE_IN_PROGRESS) /\ (e = NONE <-> g_phase g = PStable) /\
    s_mem s' = Some g' /\ alookup mid (g_members g) = Some m /\ alookup mid (g_members g') = Some m' /\
    m_hb m' = now /\ m_session m' = m_session m /\ m_joingen m' = m_joingen m /\ g_gen g' = g_gen g.
Proof.
  intros Hinv Hc Hin. unfold cur in Hc. cbn [step]. rewrite Hc.
  destruct (load_spec E s now Hinv) as [[Hn _]|[g0 [Hl0 [Hwf _]]]]; [congruence|].
  rewrite Hc in Hl0. inversion Hl0; subst g0.
  pose proof (heartbeat_g_spec E g mid (g_gen g) now Hwf) as Hp. unfold heartbeat_g in *.
  apply amem_In in Hin. unfold amem in Hin. destruct (alookup mid (g_members g)) as [m|] eqn:El; [|discriminate].
  rewrite Z.eqb_refl in *. cbn [negb] in *. cbn in Hp. destruct Hp as [Hw' [_ [_ [_ [_ [_ [_ [_ [Hph _]]]]]]]]].
  cbn. rewrite commit_group_eq by assumption.
  eexists _, _, _, m, _. split; [reflexivity|]. split.
  { destruct (phase_eqb (g_phase g) PStable); auto. }
  split; [exact Hph|]. cbn. split; [reflexivity|]. split; [reflexivity|].
  split; [apply alookup_aset_same|]. cbn. auto.
Qed.

Lemma survives_expired now g m : expired now m = true -> survives now g m = false.
Proof. intros H. unfold survives. now rewrite H. Qed.

Lemma survives_lagger now g m d :
  g_deadline g = Some d -> d <= now -> m_joingen m <> g_gen g -> survives now g m = false.
Proof.
  intros Hd Hle Hn. unfold survives, lagging. rewrite Hd.
  destruct (now <? d) eqn:E1; [lia|]. destruct (m_joingen m =? g_gen g) eqn:E2; [lia|].
  cbn. now rewrite andb_false_r.
Qed.

Lemma survives_live now g m :
  0 < m_session m -> now - m_hb m <= m_session m ->
  (g_deadline g = None \/ (exists d, g_deadline g = Some d /\ now < d) \/ m_joingen m = g_gen g) ->
  survives now g m = true.
Proof.
  intros Hs Hle Hd. unfold survives, expired, lagging.
  destruct (m_session m =? 0) eqn:E0; [lia|].
  destruct (now - m_hb m >? m_session m) eqn:E1; [lia|]. cbn.
  destruct Hd as [->|[[d [-> Hlt]]|Hj]]; [reflexivity| |].
  - destruct (now <? d) eqn:E2; [reflexivity|lia].
  - destruct (g_deadline g); [|reflexivity]. destruct (m_joingen m =? g_gen g) eqn:E3; [|lia].
    cbn. now rewrite andb_false_r.
Qed.

Lemma C15_store_is_persisted_memory_aux E h g :
  s_mem (run E h) = Some g -> s_store (run E h) = Some (pview E g) /\ wf E g.
Proof.
  intros Hm. pose proof (run_inv E h) as Hinv. unfold inv in Hinv.
  destruct (s_store (run E h)) as [pg|]; [|congruence].
  destruct Hinv as [g0 [Hw [Hp [H|H]]]]; [congruence|]. rewrite Hm in H. inversion H; subst. auto.
Qed.

(* only a cleanup tick or the member's own LeaveGroup removes a member *)
Lemma c43_only_cleanup_or_leave_removes E s o n0 n1 g g' k :
  inv E s -> cur s n0 = Some g -> In k (keys g) ->
  cur (fst (step E s o)) n1 = Some g' ->
  In k (keys g') \/ (exists now, o = Leave k now) \/ (exists now, o = Cleanup now).
Proof.
  intros Hinv Hc Hin Hc'.
  assert (forall now gl, load s now = Some gl -> In k (keys gl)) as Hview.
  { intros now gl Hl. rewrite <- (same_view_keys g gl); [exact Hin|]. eapply cur_same_view; eauto. }
  assert (forall s1 gm, s_mem s1 = Some gm -> cur s1 n1 = Some g' -> g' = gm) as Hmem.
  { intros s1 gm Hm Hcc. unfold cur, load in Hcc. rewrite Hm in Hcc. congruence. }
  assert (forall now, load s now <> None) as Hsome.
  { intros now Hn. unfold cur in Hc. destruct (load_spec E s n0 Hinv) as [[Hn0 _]|[g0 [Hl0 [_ [Hst0 _]]]]]; [congruence|].
    destruct (load_spec E s now Hinv) as [[_ [_ Hs0]]|[g1 [Hl1 _]]]; congruence. }
  destruct o as [mid fresh sess reb topics now|mid gen now|mid gen now|mid now|mid gen t p off now|now|]; cbn [step] in Hc'.
  - left. destruct (load_spec E s now Hinv) as [[Hl _]|[gl [Hl [Hwf _]]]]; [exfalso; now apply (Hsome now)|].
    rewrite Hl in Hc'.
    destruct (join_g_spec E gl mid fresh sess reb topics now (or_introl Hwf)) as [g5 [e [ms [Heq [Hw5 [_ [_ [_ [_ [_ [Hkeys _]]]]]]]]]]].
    rewrite Heq in Hc'. cbn in Hc'. rewrite commit_group_eq in Hc' by assumption.
    assert (g' = g5) by (first [now inversion Hc' | eapply Hmem; [|exact Hc']; reflexivity]). subst.
    apply Hkeys. right. eapply Hview; eauto.
  - left. destruct (load_spec E s now Hinv) as [[Hl _]|[gl [Hl [Hwf _]]]]; [exfalso; now apply (Hsome now)|].
    rewrite Hl in Hc'. pose proof (sync_g_spec E gl mid gen Hwf) as Hp.
    destruct (sync_g E gl mid gen) as [g2 r|g2 r|r]; cbn in Hp, Hc'; try contradiction.
    + destruct r; try contradiction. destruct Hp as [-> _].
      assert (g' = gl) by (first [now inversion Hc' | eapply Hmem; [|exact Hc']; reflexivity]). subst. eapply Hview; eauto.
    + destruct r; try contradiction. destruct Hp as [Hw2 [_ [_ [_ [_ [_ [_ [Hm2 _]]]]]]]].
      rewrite commit_group_eq in Hc' by assumption.
      assert (g' = g2) by (first [now inversion Hc' | eapply Hmem; [|exact Hc']; reflexivity]). subst.
      unfold keys. rewrite Hm2. eapply Hview; eauto.
  - left. destruct (load_spec E s now Hinv) as [[Hl _]|[gl [Hl [Hwf _]]]]; [exfalso; now apply (Hsome now)|].
    rewrite Hl in Hc'. pose proof (heartbeat_g_spec E gl mid gen now Hwf) as Hp.
    destruct (heartbeat_g gl mid gen now) as [g2 r|g2 r|r]; cbn in Hp, Hc'; try contradiction.
    + destruct r; try contradiction. destruct Hp as [-> _].
      assert (g' = gl) by (first [now inversion Hc' | eapply Hmem; [|exact Hc']; reflexivity]). subst. eapply Hview; eauto.
    + destruct r; try contradiction. destruct Hp as [Hw2 [_ [_ [_ [_ [_ [_ [Hs2 _]]]]]]]].
      rewrite commit_group_eq in Hc' by assumption.
      assert (g' = g2) by (first [now inversion Hc' | eapply Hmem; [|exact Hc']; reflexivity]). subst.
      rewrite keys_subs, Hs2, <- keys_subs. eapply Hview; eauto.
  - destruct (Z.eq_dec mid k) as [->|Hne]; [right; left; eauto|]. left.
    destruct (load_spec E s now Hinv) as [[Hl _]|[gl [Hl [Hwf _]]]]; [exfalso; now apply (Hsome now)|].
    rewrite Hl in Hc'. pose proof (leave_g_spec E gl mid now Hwf) as Hp.
    destruct (leave_g gl mid now) as [g2 r|g2 r|r]; cbn in Hp, Hc'.
    + destruct r; try contradiction. destruct Hp as [-> _].
      assert (g' = gl) by (first [now inversion Hc' | eapply Hmem; [|exact Hc']; reflexivity]). subst. eapply Hview; eauto.
    + destruct r; try contradiction. destruct Hp as [Hw2 [_ [_ [_ [_ Hk2]]]]].
      rewrite commit_group_eq in Hc' by assumption.
      assert (g' = g2) by (first [now inversion Hc' | eapply Hmem; [|exact Hc']; reflexivity]). subst.
      apply Hk2. split; [eapply Hview; eauto|congruence].
    + unfold cur, load in Hc'. cbn in Hc'. discriminate.
  - left. destruct (load_spec E s now Hinv) as [[Hl _]|[gl [Hl [Hwf _]]]]; [exfalso; now apply (Hsome now)|].
    rewrite Hl in Hc'. cbn in Hc'.
    assert (g' = gl) by (first [now inversion Hc' | eapply Hmem; [|exact Hc']; reflexivity]). subst. eapply Hview; eauto.
  - right. right. eauto.
  - left. destruct (c15_view_preserved E s n0 n1 g Hinv Hc) as [g2 [Hc2 [Hv _]]].
    change (cur (failover s) n1 = Some g') in Hc'. rewrite Hc' in Hc2. inversion Hc2; subst.
    now rewrite <- (same_view_keys _ _ Hv).
Qed.
